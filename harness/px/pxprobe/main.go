//go:build verif

package main

import (
	"fmt"
	"sync"
	"time"

	"mosn.io/api"

	v2 "mosn.io/mosn/pkg/config/v2"
	"mosn.io/mosn/pkg/types"
	"verif/harness/px"
)

func show(name string, f *px.Fixture, ex *px.Exchange, t0 time.Time) {
	fmt.Printf("%-14s %v\n   ledger %s  (%.0fms)\n", name, ex.Trace(), f.Ledger(), float64(time.Since(t0).Microseconds())/1000)
}

func main() {
	mk := func(maxRetries uint32, opts ...px.RouteOpt) *px.Fixture {
		return px.New(px.Config{
			Clusters: []px.Cluster{{Name: "c1", Hosts: 2, MaxRetries: maxRetries, MaxRequests: 2}},
			Routes:   []v2.Router{px.Route("/", "c1", opts...)},
		})
	}
	// 1. plain success
	{
		t0 := time.Now()
		f := mk(10)
		ex := f.Request(px.H(":path", "/a", ":authority", "svc"), nil, nil)
		a := ex.WaitAttempt(0)
		a.RespondHeaders(200)
		ex.WaitQuiescent()
		show("success", f, ex, t0)
		f.Close()
	}
	// 2. 503 with retry then 200
	{
		t0 := time.Now()
		f := mk(10, px.Retry(true, 2, px.PerTry))
		ex := f.Request(px.H(":path", "/a", ":authority", "svc"), []byte("xyz"), nil)
		ex.WaitAttempt(0).RespondHeaders(503)
		a1 := ex.WaitAttempt(1)
		fmt.Println("   attempt1 created at", a1.Created, "headers", px.HeaderString(a1.Headers), "path", a1.Path)
		a1.Respond(200, nil, []byte("ok"), nil)
		ex.WaitQuiescent()
		show("retry-ok", f, ex, t0)
		f.Close()
	}
	// 3. silence: per-try timeouts then global
	{
		t0 := time.Now()
		f := mk(1, px.Retry(true, 1, px.PerTry))
		ex := f.Request(px.H(":path", "/a", ":authority", "svc"), nil, nil)
		for !ex.Done() && ex.Elapsed() < 400*time.Millisecond {
			time.Sleep(5 * time.Millisecond)
		}
		ex.WaitQuiescent()
		show("silence", f, ex, t0)
		for _, a := range ex.UpstreamAttempts() {
			fmt.Println("   attempt", a.Index, a.Host, a.Created)
		}
		f.Close()
	}
	// 4. upstream reset, no retry policy
	{
		t0 := time.Now()
		f := mk(0)
		ex := f.Request(px.H(":path", "/a", ":authority", "svc"), nil, nil)
		ex.WaitAttempt(0).Reset(types.StreamRemoteReset)
		ex.WaitQuiescent()
		show("remote-reset", f, ex, t0)
		f.Close()
	}
	// 5. downstream reset while waiting
	{
		t0 := time.Now()
		f := mk(0)
		ex := f.Request(px.H(":path", "/a", ":authority", "svc"), nil, nil)
		ex.WaitAttempt(0)
		ex.DownstreamReset()
		ex.WaitQuiescent()
		show("down-reset", f, ex, t0)
		f.Close()
	}
	// 6. pool overflow
	{
		t0 := time.Now()
		f := mk(0)
		f.PoolFail(types.Overflow)
		ex := f.Request(px.H(":path", "/a", ":authority", "svc"), nil, nil)
		ex.WaitQuiescent()
		show("overflow", f, ex, t0)
		f.Close()
	}
	// 7. no route / one-way
	{
		t0 := time.Now()
		f := px.New(px.Config{Clusters: []px.Cluster{{Name: "c1", Hosts: 1}}, Routes: []v2.Router{px.Route("/x", "c1")}})
		ex := f.Request(px.H(":path", "/a", ":authority", "svc"), nil, nil)
		ex.WaitQuiescent()
		show("no-route", f, ex, t0)
		f.Close()
		f = px.New(px.Config{Clusters: []px.Cluster{{Name: "c1", Hosts: 1}}, Routes: []v2.Router{px.Route("/", "c1")}, OneWay: true})
		ex = f.Request(px.H(":path", "/a", ":authority", "svc"), nil, nil)
		ex.WaitQuiescent()
		show("one-way", f, ex, t0)
		f.Close()
	}

	// 8. filters: hijack in BeforeRoute; rematch; sender filter; terminate handle
	{
		t0 := time.Now()
		f := px.New(px.Config{Clusters: []px.Cluster{{Name: "c1", Hosts: 1}}, Routes: []v2.Router{px.Route("/", "c1")},
			Filters: []px.Filter{{Phase: px.BeforeRoute, Script: []px.Verdict{{Hijack: 403}}}, {Phase: px.AfterRoute}, {Phase: px.Send}}})
		ex := f.Request(px.H(":path", "/a", ":authority", "svc"), nil, nil)
		ex.WaitQuiescent()
		show("hijack", f, ex, t0)
		f.Close()
		f = px.New(px.Config{Clusters: []px.Cluster{{Name: "c1", Hosts: 1}}, Routes: []v2.Router{px.Route("/", "c1")},
			Filters: []px.Filter{{Phase: px.AfterRoute, Script: []px.Verdict{{Status: api.StreamFilterReMatchRoute}, {}}}, {Phase: px.AfterRoute}, {Phase: px.Send}}, TerminateHandle: true})
		ex = f.Request(px.H(":path", "/a", ":authority", "svc"), nil, nil)
		ex.WaitAttempt(0)
		ex.WaitQuiescent()
		fmt.Println("   terminate ->", ex.Terminate(499))
		ex.WaitQuiescent()
		show("rematch+term", f, ex, t0)
		f.Close()
	}
	// 9. direct response, redirect, header mutation, weighted clusters
	{
		t0 := time.Now()
		tr := true
		rt := px.Route("/h", "c1")
		rt.Route.RequestHeadersToAdd = []*v2.HeaderValueOption{{Header: &v2.HeaderValue{Key: "x-add", Value: "v"}, Append: &tr}}
		rt.Route.PrefixRewrite = "/rewritten"
		f := px.New(px.Config{Clusters: []px.Cluster{{Name: "c1", Hosts: 1}, {Name: "c2", Hosts: 1}}, Routes: []v2.Router{
			px.Route("/d", "", px.DirectResponse(418, "teapot")), px.Route("/r", "", px.Redirect(301, "https", "other", "/new")), rt,
			px.Route("/w", "", px.Weighted([]string{"c1", "c2"}, []uint32{0, 5}))}})
		for _, p := range []string{"/d", "/r", "/h/x", "/w"} {
			ex := f.Request(px.H(":path", p, ":authority", "svc", ":scheme", "http"), nil, nil)
			if a := ex.WaitAttemptFor(0, 20*time.Millisecond); a != nil {
				fmt.Println("   upstream", a.Host, px.HeaderString(a.Headers), "path", a.Path)
				a.RespondHeaders(200)
			}
			ex.WaitQuiescent()
			h, b := ex.ResponseHeaders()
			fmt.Println("   resp", px.HeaderString(h), string(b))
			show("route "+p, f, ex, t0)
		}
		f.Close()
	}
	// 10. conn close and 32 concurrent fixtures
	{
		t0 := time.Now()
		f := mk(0)
		ex := f.Request(px.H(":path", "/a", ":authority", "svc"), nil, nil)
		ex.WaitAttempt(0)
		f.ConnClose()
		ex.WaitQuiescent()
		show("conn-close", f, ex, t0)
		f.Close()
		var wg sync.WaitGroup
		bad := 0
		var mu sync.Mutex
		t0 = time.Now()
		sem := make(chan struct{}, 8)
		for i := 0; i < 400; i++ {
			wg.Add(1)
			go func() {
				defer wg.Done()
				sem <- struct{}{}
				defer func() { <-sem }()
				f := mk(2, px.Retry(true, 1, px.PerTry))
				ex := f.Request(px.H(":path", "/a", ":authority", "svc"), nil, nil)
				ex.WaitAttempt(0).RespondHeaders(503)
				if a := ex.WaitAttempt(1); a != nil {
					a.RespondHeaders(200)
				}
				ex.WaitQuiescent()
				tr := fmt.Sprint(ex.Trace())
				if len(ex.Trace()) != 6 {
					mu.Lock()
					bad++
					fmt.Println("   unexpected", tr)
					mu.Unlock()
				}
				f.Close()
			}()
		}
		wg.Wait()
		fmt.Println("concurrent: bad =", bad, time.Since(t0))
	}
}
