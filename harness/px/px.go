//go:build verif

// Package px is the shared proxy-core fixture of the verification harness: it drives MOSN's REAL proxy core
// (pkg/proxy downStream/upstreamRequest/retryState, the real cluster manager, router manager, stream-filter
// manager and resource managers) in-process, through exported API only, around a FAKE protocol "pxfake" whose
// connection pool, client/server streams and downstream sender are scripted recorders.
//
// What is real: proxy.NewProxy, NewStreamDetect, downStream.OnReceive and the whole phase machine with its worker
// goroutine and real timers; cluster.NewClusterManagerSingleton + AddOrUpdatePrimaryCluster/UpdateClusterHosts (load
// balancers, snapshots, resource managers); router.GetRoutersMangerInstance().AddOrUpdateRouters (matching,
// Finalize*Headers, retry policy, timeouts); streamfilter manager + api.RegisterStream factories; stream.BaseStream.
// What is fake: the wire. The pool of "pxfake" performs the same admission bookkeeping as MOSN's real pools
// (Requests().CanCreate() -> Overflow; Requests().Increase() + UpstreamRequestActive.Inc on NewStream with a receiver;
// Decrease/Dec in OnDestroyStream) so that the ledger reflects whether the proxy core destroys every upstream stream.
// A response is delivered like stream.client does: DestroyStream() on the client stream first, then
// receiver.OnReceive(ctx, headers, data, trailers) with the status in the x-mosn-status variable.
//
// Usage
//
//	f := px.New(px.Config{
//	    Clusters: []px.Cluster{{Name: "c1", Hosts: 2, MaxRetries: 1}},
//	    Routes:   []v2.Router{px.Route("/", "c1", px.Retry(true, 2, 40*time.Millisecond), px.Timeout(120*time.Millisecond))},
//	    Filters:  []px.Filter{{Phase: px.BeforeRoute, Script: []px.Verdict{{Status: api.StreamFilterContinue}}}},
//	})
//	defer f.Close()
//	ex := f.Request(px.H(":path", "/a", ":authority", "svc"), []byte("body"), nil)
//	a := ex.WaitAttempt(0)            // first pool NewStream (nil when none appears)
//	a.Respond(503, nil, nil, nil)     // scripted upstream answer; or a.Reset(types.StreamRemoteReset); or silence
//	ex.WaitQuiescent()                // worker parked in waitNotify or finished, trace stable
//	ex.Trace()                        // canonical observable events, see below
//	f.Ledger()                        // breaker Cur() values and active gauges
//
// Cluster names in Routes are the logical names of Config.Clusters; px rewrites them to per-fixture unique names
// (singletons are shared by every fixture of the process; fixtures may run concurrently). Hosts are reported as
// "<cluster>/<index>".
//
// Trace tokens (one list per Exchange, in real-time order):
//
//	f:<i>:<phase>            receiver filter i invoked (phase b=BeforeRoute r=AfterRoute c=AfterChooseHost)
//	fs:<i>                   sender filter i invoked          fx:<i>  filter i OnDestroy
//	un:<k>:<host>            pool.NewStream for attempt k admitted on host
//	uf:<k>:<host>:<kind>     pool.NewStream for attempt k refused (overflow | connfail)
//	uh:<k>:<end> ud:<k>:<len>:<end> ut:<k>   upstream sender calls of attempt k
//	ur:<k>:<reason>          live upstream stream of attempt k reset by the proxy
//	dh:<status>:<end> dd:<len>:<end> dt       downstream sender calls (status = x-mosn-status variable)
//	dr:<reason>              proxy reset the downstream stream
//	log:<code>:<flagshex>    access log written (once per cleanStream): response code and response-flag bits
//
// Timing. The worker goroutine and the timers are real. Use the coarse grid of DESIGN.md (per-try 40 ms, global
// 120 ms, scripted events >= 12 ms away from any timer deadline) and WaitQuiescent between labels; ex.Elapsed()
// and Attempt.Created give measured times so that a driver can detect skew and re-run a case.
package px

import (
	"context"
	"fmt"
	"os"
	"sort"
	"strings"
	"sync"
	"sync/atomic"
	"time"

	"mosn.io/api"
	v2 "mosn.io/mosn/pkg/config/v2"
	"mosn.io/mosn/pkg/configmanager"
	_ "mosn.io/mosn/pkg/filter/network/proxy" // registers the protocol_config variable
	mlog "mosn.io/mosn/pkg/log"
	"mosn.io/mosn/pkg/metrics"
	"mosn.io/mosn/pkg/protocol"
	"mosn.io/mosn/pkg/proxy"
	"mosn.io/mosn/pkg/router"
	"mosn.io/mosn/pkg/streamfilter"
	"mosn.io/mosn/pkg/types"
	"mosn.io/mosn/pkg/upstream/cluster"
	"mosn.io/pkg/buffer"
	"mosn.io/pkg/variable"
)

// Proto is the name of the fake protocol.
const Proto api.ProtocolName = "pxfake"

// Grid constants of the shared downstream machine (DESIGN.md section 5).
const (
	PerTry = 40 * time.Millisecond
	Global = 120 * time.Millisecond
	Tick   = 20 * time.Millisecond
)

// Cluster describes one upstream cluster of a fixture. Thresholds 0 = unlimited (MOSN semantics).
type Cluster struct {
	Name               string
	Hosts              int       // number of hosts (0 = no healthy upstream)
	LB                 v2.LbType // default round robin
	MaxRequests        uint32
	MaxRetries         uint32
	MaxPendingRequests uint32
	MaxConnections     uint32
	NoThresholds       bool // leave circuit_breakers empty instead of an explicit all-zero row
}

// Phase of a scripted stream filter.
type Phase int

const (
	BeforeRoute Phase = iota
	AfterRoute
	AfterChooseHost
	Send // sender filter (BeforeSend)
)

func (p Phase) letter() string { return [...]string{"b", "r", "c", "s"}[p] }

// Verdict is what a scripted filter does on one invocation.
type Verdict struct {
	Status     api.StreamFilterStatus // default Continue
	Hijack     int                    // != 0: SendHijackReply(code, request headers) before returning
	HijackBody string                 // with Hijack: SendHijackReplyWithBody
	Direct     bool                   // SendDirectResponse(headers{}, nil, nil) before returning (receiver filters)
	// ReplyHeaders, when not nil, are the headers the filter passes to SendHijackReply[WithBody] / SendDirectResponse
	// instead of the request headers / an empty map (used to tag the answer with its owner)
	ReplyHeaders map[string]string
	Do         func(ex *Exchange, rh api.StreamReceiverFilterHandler, sh api.StreamSenderFilterHandler)
}

// Filter is one scripted stream filter; invocation n of the filter within an exchange uses Script[min(n, len-1)]
// (empty script = always Continue).
type Filter struct {
	Phase  Phase
	Script []Verdict
}

// Config of a fixture.
type Config struct {
	Clusters []Cluster
	// Routes of the single catch-all virtual host ("*"), or RouterConfig for full control (virtual hosts, three-level
	// header mutations). Cluster names are logical.
	Routes       []v2.Router
	RouterConfig *v2.RouterConfiguration
	Filters      []Filter
	OneWay       bool // requests carry no response sender (NewStreamDetect(ctx, nil, nil))
	// TerminateHandle appends one hidden, untraced BeforeRoute receiver filter (always Continue) whose handler backs
	// Exchange.Terminate (asynchronous TerminateStream).
	TerminateHandle bool
	// Vars are extra variables set on each request's stream context before OnReceive (e.g. proxy_disable_retry).
	Vars map[string]interface{}
}

// Ledger is a snapshot of the accounting state of a fixture.
type Ledger struct {
	Requests, Pending, Retries, Connections map[string]int64 // per logical cluster: Resource.Cur()
	UpActive                                map[string]int64 // per logical cluster: sum of host UpstreamRequestActive (delta since New)
	DownActive                              int64            // listener DownstreamRequestActive (delta since New)
	ActiveStreams                           int              // proxy.ActiveStreamSize()
}

// String renders the ledger canonically: clusters sorted, "name:req,pend,retry,conn,upactive;... down=<n> streams=<n>".
func (l Ledger) String() string {
	var names []string
	for n := range l.Requests {
		names = append(names, n)
	}
	sort.Strings(names)
	var parts []string
	for _, n := range names {
		parts = append(parts, fmt.Sprintf("%s:%d,%d,%d,%d,%d", n, l.Requests[n], l.Pending[n], l.Retries[n], l.Connections[n], l.UpActive[n]))
	}
	if len(parts) == 0 {
		parts = []string{"-"}
	}
	return fmt.Sprintf("%s down=%d streams=%d", strings.Join(parts, ";"), l.DownActive, l.ActiveStreams)
}

// Fixture is one proxy instance (one fake downstream connection) with its own clusters, router and filter chain.
type Fixture struct {
	cfg      Config
	slot     int
	prefix   string
	listener string
	cm       types.ClusterManager
	px       proxy.Proxy
	sscl     types.ServerStreamConnectionEventListener
	ctx      context.Context
	conn     *fakeConn

	mu        sync.Mutex
	exchanges []*Exchange
	failNext  []types.PoolFailureReason
	failAt    map[int]types.PoolFailureReason
	baseDown  int64
	baseUp    map[string]int64
	closed    bool
}

var (
	initOnce sync.Once
	regMu    sync.Mutex
	slots    = map[int]*Fixture{}
	free     []int
	nextSlot = 1
)

func initGlobal() {
	if os.Getenv("PX_LOG") == "" {
		mlog.GetErrorLoggerManagerInstance().Disable()
		mlog.Proxy.Toggle(true)
		mlog.DefaultLogger.Toggle(true)
		mlog.StartLogger.Toggle(true)
	}
	configmanager.ParseServerConfig(&v2.ServerConfig{}) // proxy worker pool + global stats
	api.RegisterStream(filterType, createFilterFactory)
	cluster.NewClusterManagerSingleton(nil, nil, nil)
}

// New builds a fixture. It panics on configuration errors (a harness bug, not a property outcome).
func New(cfg Config) *Fixture {
	initOnce.Do(initGlobal)
	f := &Fixture{cfg: cfg, failAt: map[int]types.PoolFailureReason{}, baseUp: map[string]int64{}}
	regMu.Lock()
	if n := len(free); n > 0 {
		f.slot = free[n-1]
		free = free[:n-1]
	} else {
		f.slot = nextSlot
		nextSlot++
	}
	slots[f.slot] = f
	regMu.Unlock()
	f.prefix = fmt.Sprintf("px%d_", f.slot)
	f.listener = fmt.Sprintf("px%d_listener", f.slot)
	f.cm = cluster.GetClusterMngAdapterInstance().ClusterManager

	// clusters and hosts
	for ci, c := range cfg.Clusters {
		vc := v2.Cluster{Name: f.prefix + c.Name, ClusterType: v2.SIMPLE_CLUSTER, LbType: c.LB}
		if vc.LbType == "" {
			vc.LbType = v2.LB_ROUNDROBIN
		}
		if !c.NoThresholds {
			vc.CirBreThresholds = v2.CircuitBreakers{Thresholds: []v2.Thresholds{{
				MaxConnections: c.MaxConnections, MaxPendingRequests: c.MaxPendingRequests,
				MaxRequests: c.MaxRequests, MaxRetries: c.MaxRetries}}}
		}
		if err := f.cm.AddOrUpdatePrimaryCluster(vc); err != nil {
			panic(fmt.Sprintf("px: add cluster %s: %v", c.Name, err))
		}
		var hosts []v2.Host
		for hi := 0; hi < c.Hosts; hi++ {
			hosts = append(hosts, v2.Host{HostConfig: v2.HostConfig{Address: f.hostAddr(ci, hi), Hostname: fmt.Sprintf("%s/%d", c.Name, hi), Weight: 1}})
		}
		if err := f.cm.UpdateClusterHosts(vc.Name, hosts); err != nil {
			panic(fmt.Sprintf("px: hosts of %s: %v", c.Name, err))
		}
		// health flags are kept per address across host updates: a recycled address must start healthy
		if snap := f.cm.GetClusterSnapshot(context.Background(), vc.Name); snap != nil {
			snap.HostSet().Range(func(h types.Host) bool {
				h.ClearHealthFlag(api.FAILED_ACTIVE_HC)
				return true
			})
		}
	}

	// router
	rc := &v2.RouterConfiguration{}
	if cfg.RouterConfig != nil {
		*rc = *cfg.RouterConfig
		rc.VirtualHosts = append([]v2.VirtualHost{}, cfg.RouterConfig.VirtualHosts...)
	} else {
		rc.VirtualHosts = []v2.VirtualHost{{Name: "all", Domains: []string{"*"}, Routers: cfg.Routes}}
	}
	rc.RouterConfigName = f.prefix + "router"
	for vi := range rc.VirtualHosts {
		rs := append([]v2.Router{}, rc.VirtualHosts[vi].Routers...)
		for ri := range rs {
			f.rewriteRoute(&rs[ri])
		}
		rc.VirtualHosts[vi].Routers = rs
	}
	if err := router.GetRoutersMangerInstance().AddOrUpdateRouters(rc); err != nil {
		panic(fmt.Sprintf("px: router config: %v", err))
	}

	// stream filters (always written: a recycled listener name must not keep an old chain)
	var fcfg []v2.Filter
	for i := range cfg.Filters {
		fcfg = append(fcfg, v2.Filter{Type: filterType, Config: map[string]interface{}{"slot": f.slot, "index": i}})
	}
	if cfg.TerminateHandle {
		fcfg = append(fcfg, v2.Filter{Type: filterType, Config: map[string]interface{}{"slot": f.slot, "index": -1}})
	}
	if err := streamfilter.GetStreamFilterManager().AddOrUpdateStreamFilterConfig(f.listener, fcfg); err != nil {
		panic(fmt.Sprintf("px: stream filters: %v", err))
	}

	// proxy on a fake downstream connection
	ctx := variable.NewVariableContext(context.Background())
	_ = variable.Set(ctx, types.VariableAccessLogs, []api.AccessLog{&accessLog{f: f}})
	_ = variable.Set(ctx, types.VariableListenerName, f.listener)
	if err := variable.Set(ctx, types.VarProtocolConfig, []api.ProtocolName{Proto}); err != nil {
		panic(fmt.Sprintf("px: protocol_config variable: %v", err))
	}
	f.ctx = ctx
	f.px = proxy.NewProxy(ctx, &v2.Proxy{Name: f.prefix + "proxy", DownstreamProtocol: string(Proto), UpstreamProtocol: string(Proto), RouterConfigName: rc.RouterConfigName})
	f.conn = &fakeConn{id: uint64(f.slot)}
	f.px.InitializeReadFilterCallbacks(&readCallbacks{conn: f.conn})
	l, ok := f.px.(types.ServerStreamConnectionEventListener)
	if !ok {
		panic("px: proxy is not a ServerStreamConnectionEventListener")
	}
	f.sscl = l

	// baselines of the gauges (names are recycled with the slot)
	f.baseDown = f.rawDown()
	for _, c := range cfg.Clusters {
		f.baseUp[c.Name] = f.rawUp(c.Name)
	}
	return f
}

func (f *Fixture) hostAddr(ci, hi int) string {
	return fmt.Sprintf("10.%d.%d.%d:%d", (f.slot>>8)&0xff, f.slot&0xff, ci+1, 1000+hi)
}

func (f *Fixture) rewriteRoute(r *v2.Router) {
	if r.Route.ClusterName != "" {
		r.Route.ClusterName = f.prefix + r.Route.ClusterName
	}
	if len(r.Route.WeightedClusters) > 0 {
		wc := append([]v2.WeightedCluster{}, r.Route.WeightedClusters...)
		for i := range wc {
			wc[i].Cluster.Name = f.prefix + wc[i].Cluster.Name
		}
		r.Route.WeightedClusters = wc
	}
}

// ClusterName returns the unique (real) name of a logical cluster.
func (f *Fixture) ClusterName(logical string) string { return f.prefix + logical }

// Proxy exposes the real proxy instance (ActiveStreamSize etc.).
func (f *Fixture) Proxy() proxy.Proxy { return f.px }

// Snapshot returns the real cluster snapshot of a logical cluster.
func (f *Fixture) Snapshot(logical string) types.ClusterSnapshot {
	return f.cm.GetClusterSnapshot(context.Background(), f.prefix+logical)
}

// PoolFail makes the next pool.NewStream of this fixture fail with the given reason (types.Overflow or
// types.ConnectionFailure); calls queue up.
func (f *Fixture) PoolFail(kind types.PoolFailureReason) {
	f.mu.Lock()
	f.failNext = append(f.failNext, kind)
	f.mu.Unlock()
}

// PoolFailAttempt makes attempt number k (0-based, per exchange) of every later exchange fail with kind.
func (f *Fixture) PoolFailAttempt(k int, kind types.PoolFailureReason) {
	f.mu.Lock()
	f.failAt[k] = kind
	f.mu.Unlock()
}

func (f *Fixture) rawDown() int64 {
	return metrics.NewListenerStats(f.listener).Counter(metrics.DownstreamRequestActive).Count()
}

func (f *Fixture) rawUp(logical string) int64 {
	snap := f.Snapshot(logical)
	if snap == nil {
		return 0
	}
	return snap.ClusterInfo().Stats().UpstreamRequestActive.Count()
}

// Ledger reads the breaker resources and the active gauges.
func (f *Fixture) Ledger() Ledger {
	l := Ledger{Requests: map[string]int64{}, Pending: map[string]int64{}, Retries: map[string]int64{}, Connections: map[string]int64{}, UpActive: map[string]int64{}}
	for _, c := range f.cfg.Clusters {
		snap := f.Snapshot(c.Name)
		if snap == nil {
			continue
		}
		rm := snap.ClusterInfo().ResourceManager()
		l.Requests[c.Name] = rm.Requests().Cur()
		l.Pending[c.Name] = rm.PendingRequests().Cur()
		l.Retries[c.Name] = rm.Retries().Cur()
		l.Connections[c.Name] = rm.Connections().Cur()
		l.UpActive[c.Name] = f.rawUp(c.Name) - f.baseUp[c.Name]
	}
	l.DownActive = f.rawDown() - f.baseDown
	l.ActiveStreams = f.px.ActiveStreamSize()
	return l
}

// ConnClose delivers a close event of the downstream connection to the proxy (proxy.onDownstreamEvent): every active
// stream whose upstream processing is not done receives OnResetStream(StreamConnectionTermination).
func (f *Fixture) ConnClose() {
	f.conn.fire(api.RemoteClose)
}

// Close removes the fixture's clusters and pools and recycles its names. Exchanges still running are reset first.
func (f *Fixture) Close() {
	f.mu.Lock()
	if f.closed {
		f.mu.Unlock()
		return
	}
	f.closed = true
	exs := append([]*Exchange{}, f.exchanges...)
	f.mu.Unlock()
	if f.px.ActiveStreamSize() > 0 {
		for _, ex := range exs {
			ex.DownstreamReset()
		}
		deadline := time.Now().Add(300 * time.Millisecond)
		for f.px.ActiveStreamSize() > 0 && time.Now().Before(deadline) {
			time.Sleep(2 * time.Millisecond)
		}
	}
	for ci, c := range f.cfg.Clusters {
		for hi := 0; hi < c.Hosts; hi++ {
			f.cm.ShutdownConnectionPool(Proto, f.hostAddr(ci, hi))
		}
		_ = f.cm.RemovePrimaryCluster(f.prefix + c.Name)
	}
	regMu.Lock()
	delete(slots, f.slot)
	free = append(free, f.slot)
	regMu.Unlock()
}

func fixtureBySlot(slot int) *Fixture {
	regMu.Lock()
	defer regMu.Unlock()
	return slots[slot]
}

// ---------------------------------------------------------------------------------------------------------------
// Exchange: one downstream request
// ---------------------------------------------------------------------------------------------------------------

// Exchange is one downstream request and everything observed about it.
type Exchange struct {
	f     *Fixture
	ctx   context.Context
	start time.Time
	down  *downSender
	recv  types.StreamReceiveListener

	mu        sync.Mutex
	trace     []string
	attempts  []*Attempt
	nAttempts int
	calls     map[int]int // filter index -> invocations so far
	termH     api.StreamReceiverFilterHandler
	version   uint64 // bumped on every trace append
	logged    int

	respHeaders [][2]string
	respBody    []byte
}

type exKey struct{}

// H builds a header list from alternating key/value strings.
func H(kv ...string) map[string]string {
	m := map[string]string{}
	for i := 0; i+1 < len(kv); i += 2 {
		m[kv[i]] = kv[i+1]
	}
	return m
}

// Request starts one downstream request: a recording response sender (nil when Config.OneWay), NewStreamDetect, then
// OnReceive(headers, body, trailers). Pseudo headers ":path", ":authority", ":method", ":scheme", ":query" are also
// written to the x-mosn-* variables the router reads (as a real codec does). body/trailers nil = absent.
// The worker goroutine runs asynchronously: call WaitQuiescent/WaitAttempt before looking at the results.
func (f *Fixture) Request(headers map[string]string, body []byte, trailers map[string]string) *Exchange {
	ex := &Exchange{f: f, calls: map[int]int{}}
	sctx := buffer.NewBufferPoolContext(variable.NewVariableContext(f.ctx))
	sctx = context.WithValue(sctx, exKey{}, ex)
	ex.ctx = sctx
	hdr := protocol.CommonHeader{}
	for k, v := range headers {
		hdr[k] = v
	}
	setVar := func(h, name string) {
		if v, ok := headers[h]; ok {
			_ = variable.SetString(sctx, name, v)
		}
	}
	setVar(":path", types.VarPath)
	setVar(":path", types.VarPathOriginal)
	setVar(":authority", types.VarHost)
	setVar(":method", types.VarMethod)
	setVar(":scheme", types.VarScheme)
	setVar(":query", types.VarQueryString)
	for k, v := range f.cfg.Vars {
		if s, ok := v.(string); ok {
			_ = variable.SetString(sctx, k, s)
		} else {
			_ = variable.Set(sctx, k, v)
		}
	}
	f.mu.Lock()
	f.exchanges = append(f.exchanges, ex)
	f.mu.Unlock()

	var sender types.StreamSender
	if !f.cfg.OneWay {
		ex.down = &downSender{ex: ex}
		sender = ex.down
	}
	ex.start = time.Now()
	ex.recv = f.sscl.NewStreamDetect(sctx, sender, nil)
	var data buffer.IoBuffer
	if body != nil {
		data = buffer.NewIoBufferBytes(append([]byte{}, body...))
	}
	var tr api.HeaderMap
	if trailers != nil {
		t := protocol.CommonHeader{}
		for k, v := range trailers {
			t[k] = v
		}
		tr = t
	}
	ex.recv.OnReceive(sctx, hdr, data, tr)
	return ex
}

func exchangeOf(ctx context.Context) *Exchange {
	if ctx == nil {
		return nil
	}
	ex, _ := ctx.Value(exKey{}).(*Exchange)
	return ex
}

func (ex *Exchange) add(tok string) {
	ex.mu.Lock()
	ex.trace = append(ex.trace, tok)
	atomic.AddUint64(&ex.version, 1)
	ex.mu.Unlock()
}

// Context is the stream context of the request (variables can be inspected).
func (ex *Exchange) Context() context.Context { return ex.ctx }

// Elapsed is the wall time since Request.
func (ex *Exchange) Elapsed() time.Duration { return time.Since(ex.start) }

// SleepUntil sleeps until d after Request.
func (ex *Exchange) SleepUntil(d time.Duration) {
	if r := d - time.Since(ex.start); r > 0 {
		time.Sleep(r)
	}
}

// Trace returns a copy of the canonical event list.
func (ex *Exchange) Trace() []string {
	ex.mu.Lock()
	defer ex.mu.Unlock()
	return append([]string{}, ex.trace...)
}

// UpstreamAttempts returns the pool.NewStream calls so far (refused ones included, Failed != "").
func (ex *Exchange) UpstreamAttempts() []*Attempt {
	ex.mu.Lock()
	defer ex.mu.Unlock()
	return append([]*Attempt{}, ex.attempts...)
}

// WaitAttempt waits (up to 400 ms) until attempt k exists and its request was completely sent upstream (or the pool
// refused it); nil if that does not happen. A response can only follow a request, so script upstream events after this.
func (ex *Exchange) WaitAttempt(k int) *Attempt { return ex.WaitAttemptFor(k, 400*time.Millisecond) }

// WaitAttemptFor is WaitAttempt with an explicit bound.
func (ex *Exchange) WaitAttemptFor(k int, d time.Duration) *Attempt {
	deadline := time.Now().Add(d)
	for {
		ex.mu.Lock()
		if len(ex.attempts) > k {
			a := ex.attempts[k]
			ex.mu.Unlock()
			if a.Sent() || a.Failed != "" {
				return a
			}
		} else {
			ex.mu.Unlock()
		}
		if time.Now().After(deadline) {
			return nil
		}
		time.Sleep(500 * time.Microsecond)
	}
}

// Done reports whether the access log of the exchange was written (cleanStream ran).
func (ex *Exchange) Done() bool {
	ex.mu.Lock()
	defer ex.mu.Unlock()
	return ex.logged > 0
}

// WaitQuiescent polls until the trace has been stable for `settle` (default 6 ms; the retry path sleeps 10 ms inside
// the worker, use WaitQuiescentFor(15ms) after an event that may cause a retry) and returns whether the exchange is
// finished (cleanStream ran).
func (ex *Exchange) WaitQuiescent() bool { return ex.WaitQuiescentFor(6 * time.Millisecond) }

// WaitQuiescentFor is WaitQuiescent with an explicit stability window (bounded by 1 s overall). The window adapts
// to scheduler stalls: when a 1 ms poll sleep overshoots, the required stable time grows by three times the overshoot.
func (ex *Exchange) WaitQuiescentFor(settle time.Duration) bool {
	deadline := time.Now().Add(time.Second)
	last := atomic.LoadUint64(&ex.version)
	stableSince := time.Now()
	var worst time.Duration
	for time.Now().Before(deadline) {
		t := time.Now()
		time.Sleep(time.Millisecond)
		if over := time.Since(t) - time.Millisecond; over > worst {
			worst = over
		}
		v := atomic.LoadUint64(&ex.version)
		if v != last {
			last = v
			stableSince = time.Now()
			continue
		}
		if time.Since(stableSince) >= settle+3*worst {
			break
		}
	}
	return ex.Done()
}

// WaitDone waits up to d for cleanStream to have run (access log written); returns Done().
func (ex *Exchange) WaitDone(d time.Duration) bool {
	deadline := time.Now().Add(d)
	for !ex.Done() && time.Now().Before(deadline) {
		time.Sleep(500 * time.Microsecond)
	}
	return ex.Done()
}

// WaitTrace waits up to d until pred(trace) holds; returns whether it did.
func (ex *Exchange) WaitTrace(d time.Duration, pred func([]string) bool) bool {
	deadline := time.Now().Add(d)
	for {
		if pred(ex.Trace()) {
			return true
		}
		if time.Now().After(deadline) {
			return false
		}
		time.Sleep(500 * time.Microsecond)
	}
}

// DownstreamReset resets the downstream stream as the stream layer does when the client goes away
// (listeners receive OnResetStream(StreamConnectionTermination)).
func (ex *Exchange) DownstreamReset() {
	if ex.down != nil {
		ex.down.peerReset(types.StreamConnectionTermination)
		return
	}
	// one-way: no sender/stream; the only path is the connection event
	if l, ok := ex.recv.(types.StreamEventListener); ok {
		l.OnResetStream(types.StreamConnectionTermination)
	}
}

// Terminate calls TerminateStream(code) on the hidden filter handler from the caller's goroutine (asynchronous filter
// termination). Requires Config.TerminateHandle; returns false when the handler is missing or the call was refused.
func (ex *Exchange) Terminate(code int) bool {
	ex.mu.Lock()
	h := ex.termH
	ex.mu.Unlock()
	if h == nil {
		return false
	}
	return h.TerminateStream(code)
}

// HostsDown marks every host of a logical cluster unhealthy (health flags live on the host objects, so the snapshot a
// running request captured at route time sees it too): later host selections fail with "no healthy upstream".
func (f *Fixture) HostsDown(logical string) {
	snap := f.Snapshot(logical)
	if snap == nil {
		return
	}
	snap.HostSet().Range(func(h types.Host) bool {
		h.SetHealthFlag(api.FAILED_ACTIVE_HC)
		return true
	})
}
