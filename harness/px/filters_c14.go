//go:build verif

package px

// Added for C14: real (built-in) MOSN stream filters inside a fixture's chain, traced like the scripted ones.
//
//	f := px.New(px.Config{Filters: []px.Filter{{Phase: px.BeforeRoute}, …}})   // index 0 is only a placeholder
//	f.SetBuiltins(map[int]px.Builtin{0: {Type: v2.IPAccess, Config: map[string]interface{}{…}}})
//
// replaces the scripted filter at index 0 by the registered stream filter type `ip_access`, created through the public
// factory registry (api.CreateStreamFilterChainFactory); every receiver / sender filter the real factory adds is wrapped
// so that its invocations appear in the trace as f:<index>:<phase it registered for> / fs:<index>.

import (
	"context"
	"fmt"

	"mosn.io/api"
	v2 "mosn.io/mosn/pkg/config/v2"
	"mosn.io/mosn/pkg/streamfilter"
	"mosn.io/pkg/buffer"
)

const wrapType = "px_wrapped"

func init() { api.RegisterStream(wrapType, createWrapFactory) }

// Builtin names a registered stream filter type and its configuration.
type Builtin struct {
	Type   string
	Config map[string]interface{}
}

// SetBuiltins rewrites the stream-filter configuration of the fixture's listener: the filters at the given indices of
// Config.Filters become the named built-in filters (wrapped for tracing), the others stay scripted.
func (f *Fixture) SetBuiltins(m map[int]Builtin) error {
	var fcfg []v2.Filter
	for i := range f.cfg.Filters {
		if b, ok := m[i]; ok {
			fcfg = append(fcfg, v2.Filter{Type: wrapType, Config: map[string]interface{}{
				"slot": f.slot, "index": i, "type": b.Type, "config": b.Config}})
		} else {
			fcfg = append(fcfg, v2.Filter{Type: filterType, Config: map[string]interface{}{"slot": f.slot, "index": i}})
		}
	}
	if f.cfg.TerminateHandle {
		fcfg = append(fcfg, v2.Filter{Type: filterType, Config: map[string]interface{}{"slot": f.slot, "index": -1}})
	}
	return streamfilter.GetStreamFilterManager().AddOrUpdateStreamFilterConfig(f.listener, fcfg)
}

func createWrapFactory(conf map[string]interface{}) (api.StreamFilterChainFactory, error) {
	idx, ok := toInt(conf["index"])
	typ, ok2 := conf["type"].(string)
	if !ok || !ok2 {
		return nil, fmt.Errorf("px_wrapped: bad config %v", conf)
	}
	inner, _ := conf["config"].(map[string]interface{})
	fac, err := api.CreateStreamFilterChainFactory(typ, inner)
	if err != nil {
		return nil, err
	}
	return &wrapFactory{index: idx, inner: fac}, nil
}

type wrapFactory struct {
	index int
	inner api.StreamFilterChainFactory
}

func (w *wrapFactory) CreateFilterChain(ctx context.Context, cb api.StreamFilterChainFactoryCallbacks) {
	ex := exchangeOf(ctx)
	if ex == nil {
		w.inner.CreateFilterChain(ctx, cb)
		return
	}
	w.inner.CreateFilterChain(ctx, &wrapCallbacks{cb: cb, ex: ex, index: w.index})
}

type wrapCallbacks struct {
	cb    api.StreamFilterChainFactoryCallbacks
	ex    *Exchange
	index int
}

func (c *wrapCallbacks) AddStreamSenderFilter(f api.StreamSenderFilter, p api.SenderFilterPhase) {
	c.cb.AddStreamSenderFilter(&tracedSend{StreamSenderFilter: f, ex: c.ex, index: c.index}, p)
}
func (c *wrapCallbacks) AddStreamReceiverFilter(f api.StreamReceiverFilter, p api.ReceiverFilterPhase) {
	c.cb.AddStreamReceiverFilter(&tracedRecv{StreamReceiverFilter: f, ex: c.ex, index: c.index, phase: p}, p)
}
func (c *wrapCallbacks) AddStreamAccessLog(l api.AccessLog) { c.cb.AddStreamAccessLog(l) }

type tracedRecv struct {
	api.StreamReceiverFilter
	ex    *Exchange
	index int
	phase api.ReceiverFilterPhase
}

func (t *tracedRecv) OnReceive(ctx context.Context, h api.HeaderMap, b buffer.IoBuffer, tr api.HeaderMap) api.StreamFilterStatus {
	letter := "?"
	switch t.phase {
	case api.BeforeRoute:
		letter = "b"
	case api.AfterRoute:
		letter = "r"
	case api.AfterChooseHost:
		letter = "c"
	}
	t.ex.add(fmt.Sprintf("f:%d:%s", t.index, letter))
	return t.StreamReceiverFilter.OnReceive(ctx, h, b, tr)
}

type tracedSend struct {
	api.StreamSenderFilter
	ex    *Exchange
	index int
}

func (t *tracedSend) Append(ctx context.Context, h api.HeaderMap, b buffer.IoBuffer, tr api.HeaderMap) api.StreamFilterStatus {
	t.ex.add(fmt.Sprintf("fs:%d", t.index))
	return t.StreamSenderFilter.Append(ctx, h, b, tr)
}
