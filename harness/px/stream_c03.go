//go:build verif

package px

// Streamed (partial) upstream responses and a hold point in the downstream sender (C03 growth slice).
//
// A codec that streams hands the response head to the proxy (receiver.OnReceive) while the body is still in flight:
// the client stream stays registered with its connection, so it can still be reset or end later, and the proxy's
// worker — after it forwarded the head — sits inside the downstream sender until the rest of the body is there.
// Attempt.RespondStreaming delivers such a head (OnReceive WITHOUT destroying the client stream first),
// Attempt.EndBody is the end of the streamed body (the codec destroys the stream), Attempt.Reset works as before.
// The waiting worker is reproduced by a gate in the recording downstream sender: Fixture.RequestHold starts a request
// whose sender blocks — when armed with Exchange.ArmHold — in the first AppendHeaders / AppendData call that does not
// end the stream (after recording it), until Exchange.Release.

import (
	"context"
	"fmt"
	"sync"
	"time"

	"mosn.io/api"
	"mosn.io/mosn/pkg/protocol"
	"mosn.io/mosn/pkg/types"
	"mosn.io/pkg/buffer"
	"mosn.io/pkg/variable"
)

type holdState struct {
	mu    sync.Mutex
	armed bool
	held  bool
	gate  chan struct{}
}

var holds sync.Map // *Exchange -> *holdState

func holdOf(ex *Exchange) *holdState {
	if v, ok := holds.Load(ex); ok {
		return v.(*holdState)
	}
	return nil
}

// holdSender is the recording downstream sender with the gate.
type holdSender struct {
	*downSender
	h *holdState
}

func (s *holdSender) wait() {
	s.h.mu.Lock()
	if !s.h.armed {
		s.h.mu.Unlock()
		return
	}
	s.h.armed = false
	s.h.held = true
	g := make(chan struct{})
	s.h.gate = g
	s.h.mu.Unlock()
	<-g
}

func (s *holdSender) AppendHeaders(ctx context.Context, headers api.HeaderMap, end bool) error {
	err := s.downSender.AppendHeaders(ctx, headers, end)
	if !end {
		s.wait()
	}
	return err
}

func (s *holdSender) AppendData(ctx context.Context, data buffer.IoBuffer, end bool) error {
	err := s.downSender.AppendData(ctx, data, end)
	if !end {
		s.wait()
	}
	return err
}

// ArmHold makes the next downstream sender call that does not end the stream block (after it was recorded) until
// Release. No effect on exchanges not started with RequestHold.
func (ex *Exchange) ArmHold() {
	if h := holdOf(ex); h != nil {
		h.mu.Lock()
		h.armed = true
		h.mu.Unlock()
	}
}

// Held reports whether the worker currently sits in the gate.
func (ex *Exchange) Held() bool {
	h := holdOf(ex)
	if h == nil {
		return false
	}
	h.mu.Lock()
	defer h.mu.Unlock()
	return h.held
}

// Release disarms the gate and lets a held worker continue.
func (ex *Exchange) Release() {
	h := holdOf(ex)
	if h == nil {
		return
	}
	h.mu.Lock()
	h.armed = false
	if h.held {
		h.held = false
		close(h.gate)
	}
	h.mu.Unlock()
}

// WaitHeld waits up to d until the worker sits in the gate.
func (ex *Exchange) WaitHeld(d time.Duration) bool {
	deadline := time.Now().Add(d)
	for !ex.Held() {
		if time.Now().After(deadline) {
			return false
		}
		time.Sleep(500 * time.Microsecond)
	}
	return true
}

// RequestHold is Request with a downstream sender that has the hold gate (disarmed until ArmHold).
func (f *Fixture) RequestHold(headers map[string]string, body []byte, trailers map[string]string) *Exchange {
	ex := &Exchange{f: f, calls: map[int]int{}}
	sctx := buffer.NewBufferPoolContext(variable.NewVariableContext(f.ctx))
	sctx = context.WithValue(sctx, exKey{}, ex)
	ex.ctx = sctx
	hdr := protocol.CommonHeader{}
	for k, v := range headers {
		hdr[k] = v
	}
	setVar := func(h, name string) {
		if v, ok := headers[h]; ok {
			_ = variable.SetString(sctx, name, v)
		}
	}
	setVar(":path", types.VarPath)
	setVar(":path", types.VarPathOriginal)
	setVar(":authority", types.VarHost)
	setVar(":method", types.VarMethod)
	setVar(":scheme", types.VarScheme)
	setVar(":query", types.VarQueryString)
	for k, v := range f.cfg.Vars {
		if s, ok := v.(string); ok {
			_ = variable.SetString(sctx, k, s)
		} else {
			_ = variable.Set(sctx, k, v)
		}
	}
	f.mu.Lock()
	f.exchanges = append(f.exchanges, ex)
	f.mu.Unlock()

	var sender types.StreamSender
	if !f.cfg.OneWay {
		ex.down = &downSender{ex: ex}
		h := &holdState{}
		holds.Store(ex, h)
		sender = &holdSender{downSender: ex.down, h: h}
	}
	ex.start = time.Now()
	ex.recv = f.sscl.NewStreamDetect(sctx, sender, nil)
	var data buffer.IoBuffer
	if body != nil {
		data = buffer.NewIoBufferBytes(append([]byte{}, body...))
	}
	var tr api.HeaderMap
	if trailers != nil {
		t := protocol.CommonHeader{}
		for k, v := range trailers {
			t[k] = v
		}
		tr = t
	}
	ex.recv.OnReceive(sctx, hdr, data, tr)
	return ex
}

// ForgetHold drops the gate bookkeeping of an exchange (call when the exchange is no longer used).
func (ex *Exchange) ForgetHold() { holds.Delete(ex) }

// RespondStreaming delivers the head of a streamed response: receiver.OnReceive(ctx, headers, data, trailers) with the
// status in the x-mosn-status variable, but — unlike Respond — the client stream is NOT destroyed: the body is still
// in flight, the stream stays registered with its connection and can still be Reset or end (EndBody). At least one of
// body / trailers must be present (a head that ends the stream is a complete response: use Respond). No-op for one-way
// or refused attempts and for a stream that was already answered, reset or destroyed.
func (a *Attempt) RespondStreaming(code int, headers map[string]string, body []byte, trailers map[string]string) {
	if a.s == nil || a.receiver == nil || !a.Live() || (body == nil && trailers == nil) {
		return
	}
	_ = variable.SetString(a.ctx, types.VarHeaderStatus, fmt.Sprint(code))
	h := protocol.CommonHeader{}
	for k, v := range headers {
		h[k] = v
	}
	var data buffer.IoBuffer
	if body != nil {
		data = buffer.NewIoBufferBytes(append([]byte{}, body...))
	}
	var tr api.HeaderMap
	if trailers != nil {
		t := protocol.CommonHeader{}
		for k, v := range trailers {
			t[k] = v
		}
		tr = t
	}
	a.receiver.OnReceive(a.ctx, h, data, tr)
}

// EndBody is the end of a streamed response body: the codec is done with the client stream and destroys it (the pool
// gives back its slot). No-op for a stream that is no longer live.
func (a *Attempt) EndBody() {
	if a.s == nil || !a.Live() {
		return
	}
	a.s.DestroyStream()
}
