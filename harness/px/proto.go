//go:build verif

package px

import (
	"context"
	"fmt"
	"net"
	"sort"
	"strings"
	"sync"
	"sync/atomic"
	"time"

	gometrics "github.com/rcrowley/go-metrics"
	"mosn.io/api"
	"mosn.io/mosn/pkg/protocol"
	"mosn.io/mosn/pkg/stream"
	"mosn.io/mosn/pkg/types"
	"mosn.io/pkg/buffer"
	"mosn.io/pkg/variable"
)

func init() {
	if err := protocol.RegisterProtocol(Proto, newPool, &streamFactory{}, protocol.GetStatusCodeMapping{}); err != nil {
		panic(err)
	}
	// protocol resources used by redirect rules and header formatters: "<proto>_<name>" getter variables that read the
	// x-mosn-* variables Request fills in (a real codec does the same from its request line)
	for _, r := range []struct {
		res  api.ProtocolResourceName
		name string
		from string
	}{
		{api.SCHEME, types.VarProtocolRequestScheme, types.VarScheme},
		{api.PATH, types.VarProtocolRequestPath, types.VarPath},
		{api.URI, types.VarProtocolRequestUri, types.VarPath},
		{api.ARG, types.VarProtocolRequestArg, types.VarQueryString},
	} {
		from := r.from
		full := string(Proto) + "_" + r.name
		variable.Register(variable.NewStringVariable(full, nil, func(ctx context.Context, _ *variable.IndexedValue, _ interface{}) (string, error) {
			return variable.GetString(ctx, from)
		}, nil, 0))
		if err := variable.RegisterProtocolResource(Proto, r.res, r.name); err != nil {
			panic(err)
		}
	}
}

// ---------------------------------------------------------------------------------------------------------------
// server side: stream factory, server stream connection, fake downstream connection
// ---------------------------------------------------------------------------------------------------------------

type streamFactory struct{}

func (*streamFactory) CreateClientStream(context.Context, types.ClientConnection, types.StreamConnectionEventListener, api.ConnectionEventListener) types.ClientStreamConnection {
	return nil
}
func (*streamFactory) CreateServerStream(ctx context.Context, c api.Connection, l types.ServerStreamConnectionEventListener) types.ServerStreamConnection {
	return &serverConn{}
}
func (*streamFactory) CreateBiDirectStream(context.Context, types.ClientConnection, types.StreamConnectionEventListener, types.ServerStreamConnectionEventListener) types.ClientStreamConnection {
	return nil
}
func (*streamFactory) ProtocolMatch(context.Context, string, []byte) error { return protocol.FAILED }

type serverConn struct{}

func (*serverConn) Dispatch(buffer.IoBuffer)      {}
func (*serverConn) Protocol() api.ProtocolName    { return Proto }
func (*serverConn) EnableWorkerPool() bool        { return true }
func (*serverConn) ActiveStreamsNum() int         { return 0 }
func (*serverConn) GoAway()                       {}
func (*serverConn) Reset(types.StreamResetReason) {}
func (*serverConn) CheckReasonError(bool, api.ConnectionEvent) (types.StreamResetReason, bool) {
	return types.StreamConnectionSuccessed, true
}

// fakeConn implements the few api.Connection methods the proxy core calls; any other call panics (nil embedded
// interface), which would show up as a harness failure, not silently.
type fakeConn struct {
	api.Connection
	id uint64
	mu sync.Mutex
	ls []api.ConnectionEventListener
}

var fakeLocal = &net.TCPAddr{IP: net.IPv4(127, 0, 0, 1), Port: 2045}
var fakeRemote = &net.TCPAddr{IP: net.IPv4(127, 0, 0, 1), Port: 40000}

func (c *fakeConn) ID() uint64                                               { return c.id }
func (c *fakeConn) SetCollector(read, write gometrics.Counter)               {}
func (c *fakeConn) LocalAddr() net.Addr                                      { return fakeLocal }
func (c *fakeConn) RemoteAddr() net.Addr                                     { return fakeRemote }
func (c *fakeConn) RawConn() net.Conn                                        { return nil }
func (c *fakeConn) State() api.ConnState                                     { return api.ConnActive }
func (c *fakeConn) Close(api.ConnectionCloseType, api.ConnectionEvent) error { return nil }
func (c *fakeConn) AddConnectionEventListener(l api.ConnectionEventListener) {
	c.mu.Lock()
	c.ls = append(c.ls, l)
	c.mu.Unlock()
}
func (c *fakeConn) fire(ev api.ConnectionEvent) {
	c.mu.Lock()
	ls := append([]api.ConnectionEventListener{}, c.ls...)
	c.mu.Unlock()
	for _, l := range ls {
		l.OnEvent(ev)
	}
}

type readCallbacks struct{ conn *fakeConn }

func (r *readCallbacks) Connection() api.Connection   { return r.conn }
func (r *readCallbacks) ContinueReading()             {}
func (r *readCallbacks) UpstreamHost() api.HostInfo   { return nil }
func (r *readCallbacks) SetUpstreamHost(api.HostInfo) {}

// ---------------------------------------------------------------------------------------------------------------
// downstream response sender (recorder)
// ---------------------------------------------------------------------------------------------------------------

type downSender struct {
	stream.BaseStream
	ex *Exchange
}

func (d *downSender) ID() uint64              { return 1 }
func (d *downSender) GetStream() types.Stream { return d }

func (d *downSender) status(ctx context.Context) string {
	s, err := variable.GetString(ctx, types.VarHeaderStatus)
	if err != nil || s == "" {
		return "-"
	}
	return s
}

func (d *downSender) AppendHeaders(ctx context.Context, headers api.HeaderMap, end bool) error {
	d.ex.noteDown(tokOfHeaders(headers))
	d.ex.add(fmt.Sprintf("dh:%s:%d", d.status(ctx), b2i(end)))
	d.ex.mu.Lock()
	d.ex.respHeaders = copyHeaders(headers)
	d.ex.mu.Unlock()
	if end {
		d.DestroyStream() // a server stream is destroyed when its response ends (xprotocol endStream)
	}
	return nil
}

func (d *downSender) AppendData(ctx context.Context, data buffer.IoBuffer, end bool) error {
	n := 0
	if data != nil {
		n = data.Len()
		d.ex.mu.Lock()
		d.ex.respBody = append([]byte{}, data.Bytes()...)
		d.ex.mu.Unlock()
	}
	d.ex.noteDown(tokOfBody(data))
	d.ex.add(fmt.Sprintf("dd:%d:%d", n, b2i(end)))
	if end {
		d.DestroyStream()
	}
	return nil
}

func (d *downSender) AppendTrailers(ctx context.Context, trailers api.HeaderMap) error {
	d.ex.noteDown(tokOfTrailers(trailers))
	d.ex.add("dt")
	d.DestroyStream()
	return nil
}

// ResetStream is what the proxy calls (downStream.resetStream): recorded, then the listeners are notified.
func (d *downSender) ResetStream(reason types.StreamResetReason) {
	d.ex.add("dr:" + reason)
	d.BaseStream.ResetStream(reason)
}

// peerReset is the test-initiated reset (client went away): not part of the trace.
func (d *downSender) peerReset(reason types.StreamResetReason) { d.BaseStream.ResetStream(reason) }

// ---------------------------------------------------------------------------------------------------------------
// upstream: pool, client stream, attempt handle
// ---------------------------------------------------------------------------------------------------------------

type pool struct {
	host types.Host
	slot int
}

func newPool(ctx context.Context, host types.Host) types.ConnectionPool {
	slot := 0
	var a, b, c, d, port int
	if _, err := fmt.Sscanf(host.AddressString(), "%d.%d.%d.%d:%d", &a, &b, &c, &d, &port); err == nil {
		slot = b<<8 | c
	}
	return &pool{host: host, slot: slot}
}

func (p *pool) Protocol() api.ProtocolName        { return Proto }
func (p *pool) CheckAndInit(context.Context) bool { return true }
func (p *pool) TLSHashValue() *types.HashValue    { return p.host.TLSHashValue() }
func (p *pool) Shutdown()                         {}
func (p *pool) Close()                            {}
func (p *pool) Host() types.Host                  { return p.host }

// NewStream mirrors the admission protocol of MOSN's real pools (xprotocol multiplex NewStream / OnDestroyStream).
func (p *pool) NewStream(ctx context.Context, receiver types.StreamReceiveListener) (types.Host, types.StreamSender, types.PoolFailureReason) {
	host := p.host
	ex := exchangeOf(ctx)
	f := fixtureBySlot(p.slot)
	if ex == nil || f == nil {
		return host, nil, types.ConnectionFailure
	}
	a := &Attempt{ex: ex, Host: host.Hostname(), Created: time.Since(ex.start), ctx: ctx, receiver: receiver, host: host}
	// the attempt is published (visible to WaitAttempt/UpstreamAttempts) only when fully built
	ex.mu.Lock()
	a.Index = ex.nAttempts
	ex.nAttempts++
	ex.mu.Unlock()
	publish := func() {
		ex.mu.Lock()
		ex.attempts = append(ex.attempts, a)
		ex.mu.Unlock()
	}

	var fail types.PoolFailureReason
	f.mu.Lock()
	if k, ok := f.failAt[a.Index]; ok {
		fail = k
	} else if len(f.failNext) > 0 {
		fail = f.failNext[0]
		f.failNext = f.failNext[1:]
	}
	f.mu.Unlock()
	if fail == "" && !host.ClusterInfo().ResourceManager().Requests().CanCreate() {
		host.HostStats().UpstreamRequestPendingOverflow.Inc(1)
		host.ClusterInfo().Stats().UpstreamRequestPendingOverflow.Inc(1)
		fail = types.Overflow
	}
	if fail != "" {
		a.Failed = fail
		kind := "connfail"
		if fail == types.Overflow {
			kind = "overflow"
		}
		ex.add(fmt.Sprintf("uf:%d:%s:%s", a.Index, a.Host, kind))
		publish()
		return host, nil, fail
	}
	ex.add(fmt.Sprintf("un:%d:%s", a.Index, a.Host))
	host.HostStats().UpstreamRequestTotal.Inc(1)
	host.ClusterInfo().Stats().UpstreamRequestTotal.Inc(1)
	a.s = &upStream{a: a}
	if receiver != nil {
		a.s.AddEventListener(&poolListener{a: a})
		host.HostStats().UpstreamRequestActive.Inc(1)
		host.ClusterInfo().Stats().UpstreamRequestActive.Inc(1)
		host.ClusterInfo().ResourceManager().Requests().Increase()
	}
	publish()
	return host, a.s, ""
}

// poolListener is the pool's own stream listener (activeClient.OnDestroyStream of the real pools).
type poolListener struct{ a *Attempt }

func (l *poolListener) OnResetStream(types.StreamResetReason) {}
func (l *poolListener) OnDestroyStream() {
	atomic.StoreUint32(&l.a.dead, 1)
	h := l.a.host
	h.HostStats().UpstreamRequestActive.Dec(1)
	h.ClusterInfo().Stats().UpstreamRequestActive.Dec(1)
	h.ClusterInfo().ResourceManager().Requests().Decrease()
}

type upStream struct {
	stream.BaseStream
	a *Attempt
}

func (s *upStream) ID() uint64              { return uint64(s.a.Index) + 100 }
func (s *upStream) GetStream() types.Stream { return s }

func (s *upStream) AppendHeaders(ctx context.Context, headers api.HeaderMap, end bool) error {
	a := s.a
	a.ex.mu.Lock()
	a.Headers = copyHeaders(headers)
	a.Path, _ = variable.GetString(ctx, types.VarPath)
	a.HostVar, _ = variable.GetString(ctx, types.VarHost)
	a.EndStream = end
	a.ex.mu.Unlock()
	a.ex.add(fmt.Sprintf("uh:%d:%d", a.Index, b2i(end)))
	if end {
		atomic.StoreUint32(&a.sent, 1)
	}
	return nil
}

func (s *upStream) AppendData(ctx context.Context, data buffer.IoBuffer, end bool) error {
	n := 0
	if data != nil {
		n = data.Len()
		s.a.ex.mu.Lock()
		s.a.Body = append([]byte{}, data.Bytes()...)
		s.a.ex.mu.Unlock()
	}
	s.a.ex.add(fmt.Sprintf("ud:%d:%d:%d", s.a.Index, n, b2i(end)))
	if end {
		atomic.StoreUint32(&s.a.sent, 1)
	}
	s.a.afterUpSend(end) // proxy8: the call may be held here (c03p8_uphold.go)
	return nil
}

func (s *upStream) AppendTrailers(ctx context.Context, trailers api.HeaderMap) error {
	s.a.ex.add(fmt.Sprintf("ut:%d", s.a.Index))
	atomic.StoreUint32(&s.a.sent, 1)
	s.a.afterUpSend(true) // proxy8: the call may be held here (c03p8_uphold.go)
	return nil
}

// ResetStream is what the proxy calls (upstreamRequest.resetStream); recorded only when the stream is still live.
func (s *upStream) ResetStream(reason types.StreamResetReason) {
	if atomic.LoadUint32(&s.a.dead) == 0 {
		s.a.ex.add(fmt.Sprintf("ur:%d:%s", s.a.Index, reason))
		if s.a.receiver == nil {
			atomic.StoreUint32(&s.a.dead, 1)
		}
	}
	s.BaseStream.ResetStream(reason)
	s.a.afterProxyReset()
}

// Attempt is one pool.NewStream call of an exchange.
type Attempt struct {
	Index     int
	Host      string                  // "<cluster>/<i>"
	Created   time.Duration           // since Request
	Failed    types.PoolFailureReason // != "" when the pool refused
	Headers   [][2]string             // request headers as sent upstream (sorted), after AppendHeaders
	Path      string                  // x-mosn-path variable at send time
	HostVar   string                  // x-mosn-host variable at send time
	Body      []byte
	EndStream bool

	ex       *Exchange
	ctx      context.Context
	receiver types.StreamReceiveListener
	host     types.Host
	s        *upStream
	dead     uint32
	sent     uint32
}

// Sent reports whether the request of this attempt was completely written to the upstream sender (end of stream).
func (a *Attempt) Sent() bool { return atomic.LoadUint32(&a.sent) == 1 }

// Live reports whether the upstream stream has been neither answered, reset nor destroyed.
func (a *Attempt) Live() bool { return a.s != nil && atomic.LoadUint32(&a.dead) == 0 }

// Respond delivers a complete upstream response the way stream.client does: destroy the client stream, then
// receiver.OnReceive(ctx, headers, data, trailers). body/trailers nil = absent. No-op for one-way or refused attempts
// and for a stream that was already answered or reset: the real codecs unregister such a stream from its connection
// (xprotocol xStream.ResetStream / handleResponse), a late frame for it is dropped.
func (a *Attempt) Respond(code int, headers map[string]string, body []byte, trailers map[string]string) {
	if a.s == nil || a.receiver == nil || !a.Live() {
		return
	}
	a.s.DestroyStream()
	_ = variable.SetString(a.ctx, types.VarHeaderStatus, fmt.Sprint(code))
	h := protocol.CommonHeader{}
	for k, v := range headers {
		h[k] = v
	}
	var data buffer.IoBuffer
	if body != nil {
		data = buffer.NewIoBufferBytes(append([]byte{}, body...))
	}
	var tr api.HeaderMap
	if trailers != nil {
		t := protocol.CommonHeader{}
		for k, v := range trailers {
			t[k] = v
		}
		tr = t
	}
	a.receiver.OnReceive(a.ctx, h, data, tr)
}

// RespondHeaders is a headers-only response.
func (a *Attempt) RespondHeaders(code int) { a.Respond(code, nil, nil, nil) }

// Reset resets the upstream stream from the peer/connection side with the given reason
// (types.StreamRemoteReset, StreamConnectionTermination, StreamConnectionFailed, ...).
func (a *Attempt) Reset(reason types.StreamResetReason) {
	if a.s == nil {
		return
	}
	a.s.BaseStream.ResetStream(reason)
}

// ---------------------------------------------------------------------------------------------------------------
// access log, helpers
// ---------------------------------------------------------------------------------------------------------------

type accessLog struct{ f *Fixture }

var allFlags = []api.ResponseFlag{api.NoHealthyUpstream, api.UpstreamRequestTimeout, api.UpstreamLocalReset, api.UpstreamRemoteReset,
	api.UpstreamConnectionFailure, api.UpstreamConnectionTermination, api.UpstreamOverflow, api.NoRouteFound, api.DelayInjected,
	api.FaultInjected, api.RateLimited, api.ReqEntityTooLarge, api.DownStreamTerminate}

func (l *accessLog) Log(ctx context.Context, req api.HeaderMap, resp api.HeaderMap, info api.RequestInfo) {
	ex := exchangeOf(ctx)
	if ex == nil {
		return
	}
	mask := 0
	for _, fl := range allFlags {
		if info.GetResponseFlag(fl) {
			mask |= int(fl)
		}
	}
	ex.mu.Lock()
	ex.logged++
	ex.mu.Unlock()
	ex.add(fmt.Sprintf("log:%d:%x", info.ResponseCode(), mask))
}

func b2i(b bool) int {
	if b {
		return 1
	}
	return 0
}

func copyHeaders(h api.HeaderMap) [][2]string {
	var out [][2]string
	if h == nil {
		return out
	}
	h.Range(func(k, v string) bool {
		out = append(out, [2]string{k, v})
		return true
	})
	sort.Slice(out, func(i, j int) bool {
		if out[i][0] != out[j][0] {
			return out[i][0] < out[j][0]
		}
		return out[i][1] < out[j][1]
	})
	return out
}

// HeaderString renders a sorted header list as "k=v,k=v" ("-" when empty); keys starting with ':' are kept.
func HeaderString(h [][2]string) string {
	if len(h) == 0 {
		return "-"
	}
	var p []string
	for _, kv := range h {
		p = append(p, kv[0]+"="+kv[1])
	}
	return strings.Join(p, ",")
}

// ResponseHeaders returns the headers of the downstream response as passed to AppendHeaders (sorted), and the body.
func (ex *Exchange) ResponseHeaders() ([][2]string, []byte) {
	ex.mu.Lock()
	defer ex.mu.Unlock()
	return ex.respHeaders, ex.respBody
}
