//go:build verif

package px

// Additions for property C15 (subset load balancing on the request path). Nothing here changes the behaviour of the
// fixture for its other users.

import (
	"fmt"
	"sync"

	"mosn.io/api"
	v2 "mosn.io/mosn/pkg/config/v2"
	"mosn.io/mosn/pkg/types"
)

var varsMu sync.Mutex

// SubsetHost describes one host of a subset cluster: its name (Hostname), its metadata and whether it is healthy.
type SubsetHost struct {
	Name    string
	Meta    map[string]string
	Healthy bool
}

// SetSubsetCluster reconfigures the logical cluster `logical` (which must be one of Config.Clusters, declared with
// Hosts == len(hosts) so that Close releases every pool) as a subset-load-balanced cluster: the cluster is updated
// through the real cluster manager with the given lb type and LBSubsetConfig, then receives hosts carrying the given
// metadata. Health is expressed with the FAILED_ACTIVE_HC flag; flags are cleared first because MOSN keeps them per
// address for the whole process and px recycles addresses. Call ClearSubsetHealth before Close when a host was made
// unhealthy.
func (f *Fixture) SetSubsetCluster(logical string, lb v2.LbType, sub v2.LBSubsetConfig, hosts []SubsetHost) {
	ci := -1
	for i, c := range f.cfg.Clusters {
		if c.Name == logical {
			ci = i
		}
	}
	if ci < 0 {
		panic("px: SetSubsetCluster: unknown cluster " + logical)
	}
	if f.cfg.Clusters[ci].Hosts != len(hosts) {
		panic("px: SetSubsetCluster: declare the cluster with Hosts == len(hosts)")
	}
	vc := v2.Cluster{Name: f.prefix + logical, ClusterType: v2.SIMPLE_CLUSTER, LbType: lb, LBSubSetConfig: sub}
	if vc.LbType == "" {
		vc.LbType = v2.LB_ROUNDROBIN
	}
	vc.CirBreThresholds = v2.CircuitBreakers{Thresholds: []v2.Thresholds{{}}}
	if err := f.cm.AddOrUpdatePrimaryCluster(vc); err != nil {
		panic(fmt.Sprintf("px: update cluster %s: %v", logical, err))
	}
	var hs []v2.Host
	for hi, h := range hosts {
		md := api.Metadata{}
		for k, v := range h.Meta {
			md[k] = v
		}
		hs = append(hs, v2.Host{HostConfig: v2.HostConfig{Address: f.hostAddr(ci, hi), Hostname: h.Name, Weight: 1}, MetaData: md})
	}
	if err := f.cm.UpdateClusterHosts(vc.Name, hs); err != nil {
		panic(fmt.Sprintf("px: hosts of %s: %v", logical, err))
	}
	healthy := map[string]bool{}
	for _, h := range hosts {
		healthy[h.Name] = h.Healthy
	}
	f.Snapshot(logical).HostSet().Range(func(h types.Host) bool {
		h.ClearHealthFlag(api.FAILED_ACTIVE_HC)
		h.ClearHealthFlag(api.FAILED_OUTLIER_CHECK)
		if !healthy[h.Hostname()] {
			h.SetHealthFlag(api.FAILED_ACTIVE_HC)
		}
		return true
	})
}

// ClearSubsetHealth clears the health flags of every host of the logical cluster.
func (f *Fixture) ClearSubsetHealth(logical string) {
	snap := f.Snapshot(logical)
	if snap == nil {
		return
	}
	snap.HostSet().Range(func(h types.Host) bool {
		h.ClearHealthFlag(api.FAILED_ACTIVE_HC)
		h.ClearHealthFlag(api.FAILED_OUTLIER_CHECK)
		return true
	})
}

// RequestVars is Request with additional per-request variables (set on the stream context before OnReceive, after
// Config.Vars), e.g. types.VarRouterMeta = map[string]string{...} as the header-to-metadata stream filter sets it.
func (f *Fixture) RequestVars(vars map[string]interface{}, headers map[string]string, body []byte, trailers map[string]string) *Exchange {
	varsMu.Lock()
	defer varsMu.Unlock()
	saved := f.cfg.Vars
	merged := map[string]interface{}{}
	for k, v := range saved {
		merged[k] = v
	}
	for k, v := range vars {
		merged[k] = v
	}
	f.cfg.Vars = merged
	defer func() { f.cfg.Vars = saved }()
	return f.Request(headers, body, trailers)
}
