//go:build verif

package px

import (
	"time"

	v2 "mosn.io/mosn/pkg/config/v2"
)

// RouteOpt mutates a route built by Route.
type RouteOpt func(r *v2.Router)

// Route builds a prefix route to a logical cluster ("" = no cluster: use with DirectResponse/Redirect/Weighted).
// Without a Timeout option the global timeout is the grid value px.Global (MOSN's default would be 60 s).
func Route(prefix, cluster string, opts ...RouteOpt) v2.Router {
	r := v2.Router{}
	r.Match.Prefix = prefix
	r.Route.ClusterName = cluster
	r.Route.Timeout = Global
	for _, o := range opts {
		o(&r)
	}
	return r
}

// Timeout sets the route's global timeout.
func Timeout(d time.Duration) RouteOpt { return func(r *v2.Router) { r.Route.Timeout = d } }

// Retry sets the retry policy: retry_on, num_retries, per-try timeout (0 = none), retryable status codes.
func Retry(on bool, n uint32, tryTimeout time.Duration, codes ...uint32) RouteOpt {
	return func(r *v2.Router) {
		r.Route.RetryPolicy = &v2.RetryPolicy{RetryPolicyConfig: v2.RetryPolicyConfig{RetryOn: on, NumRetries: n, StatusCodes: codes}, RetryTimeout: tryTimeout}
	}
}

// Weighted routes to weighted logical clusters.
func Weighted(names []string, weights []uint32) RouteOpt {
	return func(r *v2.Router) {
		r.Route.ClusterName = ""
		for i, n := range names {
			r.Route.WeightedClusters = append(r.Route.WeightedClusters, v2.WeightedCluster{
				Cluster: v2.ClusterWeight{ClusterWeightConfig: v2.ClusterWeightConfig{Name: n, Weight: weights[i]}}})
		}
	}
}

// DirectResponse makes the route answer locally.
func DirectResponse(code int, body string) RouteOpt {
	return func(r *v2.Router) { r.DirectResponse = &v2.DirectResponseAction{StatusCode: code, Body: body} }
}

// Redirect makes the route answer with a redirect.
func Redirect(code int, scheme, host, path string) RouteOpt {
	return func(r *v2.Router) {
		r.Redirect = &v2.RedirectAction{ResponseCode: code, SchemeRedirect: scheme, HostRedirect: host, PathRedirect: path}
	}
}
