//go:build verif

package px

// Added for C14 (round 7): ONE filter object registered several times in a stream's chain — for several receive phases
// and / or as a sender filter — the way pkg/filter/stream/dsl registers its object for BeforeRoute, AfterRoute and
// AfterChooseHost and as a sender filter.
//
//	f := px.New(px.Config{Filters: …})                       // one px.Filter per REGISTRATION (phase, script)
//	f.SetShared([]int{0, -1, 0, 1, 0})                        // object id per registration; -1 = a plain scripted filter
//
// rewrites the listener's stream-filter configuration: registration i with an object id >= 0 is made by a factory that
// looks the object up in the exchange (created on first use) and hands THE SAME object to AddStreamReceiverFilter /
// AddStreamSenderFilter with the phase of Config.Filters[i]. When invoked the object asks its handler for the current
// phase (GetFilterCurrentPhase), finds the registration it made for that phase and behaves as the scripted filter of that
// registration (trace token f:<registration>:<phase>, script by invocation count of that registration); an invocation in a
// phase the object did not register for is traced as fu:<object>:<phase>. The k-th Append of an object is its k-th sender
// registration (fsu:<object> beyond that). OnDestroy is traced as fxo:<object>.

import (
	"context"
	"fmt"
	"sync"

	"mosn.io/api"
	v2 "mosn.io/mosn/pkg/config/v2"
	"mosn.io/mosn/pkg/streamfilter"
	"mosn.io/pkg/buffer"
)

const sharedType = "px_shared"

func init() { api.RegisterStream(sharedType, createSharedFactory) }

var (
	sharedMu   sync.Mutex
	sharedObjs = map[*Exchange]map[int]*sharedObj{}
)

// SetShared publishes the chain configuration with the given object id per entry of Config.Filters.
func (f *Fixture) SetShared(obj []int) error {
	var fcfg []v2.Filter
	for i := range f.cfg.Filters {
		if i < len(obj) && obj[i] >= 0 {
			fcfg = append(fcfg, v2.Filter{Type: sharedType, Config: map[string]interface{}{"slot": f.slot, "index": i, "obj": obj[i]}})
		} else {
			fcfg = append(fcfg, v2.Filter{Type: filterType, Config: map[string]interface{}{"slot": f.slot, "index": i}})
		}
	}
	if f.cfg.TerminateHandle {
		fcfg = append(fcfg, v2.Filter{Type: filterType, Config: map[string]interface{}{"slot": f.slot, "index": -1}})
	}
	return streamfilter.GetStreamFilterManager().AddOrUpdateStreamFilterConfig(f.listener, fcfg)
}

// ForgetShared drops the shared objects of an exchange (call when the case is over).
func (ex *Exchange) ForgetShared() {
	sharedMu.Lock()
	delete(sharedObjs, ex)
	sharedMu.Unlock()
}

func createSharedFactory(conf map[string]interface{}) (api.StreamFilterChainFactory, error) {
	slot, ok1 := toInt(conf["slot"])
	idx, ok2 := toInt(conf["index"])
	obj, ok3 := toInt(conf["obj"])
	if !ok1 || !ok2 || !ok3 {
		return nil, fmt.Errorf("px_shared: bad config %v", conf)
	}
	return &sharedFactory{slot: slot, index: idx, obj: obj}, nil
}

type sharedFactory struct{ slot, index, obj int }

func (sf *sharedFactory) CreateFilterChain(ctx context.Context, cb api.StreamFilterChainFactoryCallbacks) {
	ex := exchangeOf(ctx)
	f := fixtureBySlot(sf.slot)
	if ex == nil || f == nil {
		return
	}
	sharedMu.Lock()
	m := sharedObjs[ex]
	if m == nil {
		m = map[int]*sharedObj{}
		sharedObjs[ex] = m
	}
	o := m[sf.obj]
	if o == nil {
		o = &sharedObj{ex: ex, f: f, id: sf.obj, recv: map[api.ReceiverFilterPhase]int{}}
		m[sf.obj] = o
	}
	sharedMu.Unlock()
	spec := f.cfg.Filters[sf.index]
	switch spec.Phase {
	case BeforeRoute:
		o.recv[api.BeforeRoute] = sf.index
		cb.AddStreamReceiverFilter(o, api.BeforeRoute)
	case AfterRoute:
		o.recv[api.AfterRoute] = sf.index
		cb.AddStreamReceiverFilter(o, api.AfterRoute)
	case AfterChooseHost:
		o.recv[api.AfterChooseHost] = sf.index
		cb.AddStreamReceiverFilter(o, api.AfterChooseHost)
	case Send:
		o.send = append(o.send, sf.index)
		cb.AddStreamSenderFilter(o, api.BeforeSend)
	}
}

// sharedObj is one filter object with several registrations.
type sharedObj struct {
	ex    *Exchange
	f     *Fixture
	id    int
	recv  map[api.ReceiverFilterPhase]int // phase -> registration (index of Config.Filters)
	send  []int                           // sender registrations in registration order
	nsend int
	rh    api.StreamReceiverFilterHandler
	sh    api.StreamSenderFilterHandler
}

func (o *sharedObj) OnDestroy() { o.ex.add(fmt.Sprintf("fxo:%d", o.id)) }

func (o *sharedObj) SetReceiveFilterHandler(h api.StreamReceiverFilterHandler) { o.rh = h }
func (o *sharedObj) SetSenderFilterHandler(h api.StreamSenderFilterHandler)    { o.sh = h }

func (o *sharedObj) OnReceive(ctx context.Context, headers api.HeaderMap, buf buffer.IoBuffer, trailers api.HeaderMap) api.StreamFilterStatus {
	ph := o.rh.GetFilterCurrentPhase()
	letter := "?"
	switch ph {
	case api.BeforeRoute:
		letter = "b"
	case api.AfterRoute:
		letter = "r"
	case api.AfterChooseHost:
		letter = "c"
	}
	gi, ok := o.recv[ph]
	if !ok {
		o.ex.add(fmt.Sprintf("fu:%d:%s", o.id, letter))
		return api.StreamFilterContinue
	}
	s := &scripted{ex: o.ex, index: gi, spec: o.f.cfg.Filters[gi], rh: o.rh}
	return s.OnReceive(ctx, headers, buf, trailers)
}

func (o *sharedObj) Append(ctx context.Context, headers api.HeaderMap, buf buffer.IoBuffer, trailers api.HeaderMap) api.StreamFilterStatus {
	k := o.nsend
	o.nsend++
	if k >= len(o.send) {
		o.ex.add(fmt.Sprintf("fsu:%d", o.id))
		return api.StreamFilterContinue
	}
	gi := o.send[k]
	s := &scripted{ex: o.ex, index: gi, spec: o.f.cfg.Filters[gi], sh: o.sh}
	return s.Append(ctx, headers, buf, trailers)
}
