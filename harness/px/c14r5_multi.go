//go:build verif

package px

// Added for C14 (many streams / configuration updates):
//   - Conn: further downstream connections (each its own proxy instance created by proxy.NewProxy) on the fixture's listener;
//   - Prepare / Go: a request split into NewStreamDetect (the stream and its filter chain are created) and OnReceive (the
//     worker runs the filters), so that several chains exist before any filter runs;
//   - SetFilterConfig: rewrite the listener's stream-filter configuration through the real stream-filter manager with
//     scripted filters, traced built-in filters and entries of an unregistered type.

import (
	"context"
	"time"

	"mosn.io/api"
	v2 "mosn.io/mosn/pkg/config/v2"
	"mosn.io/mosn/pkg/protocol"
	"mosn.io/mosn/pkg/proxy"
	"mosn.io/mosn/pkg/streamfilter"
	"mosn.io/mosn/pkg/types"
	"mosn.io/pkg/buffer"
	"mosn.io/pkg/variable"
)

// Conn is one downstream connection of a fixture.
type Conn struct {
	f    *Fixture
	sscl types.ServerStreamConnectionEventListener
}

// Conn0 is the connection opened by New.
func (f *Fixture) Conn0() *Conn { return &Conn{f: f, sscl: f.sscl} }

// OpenConn opens another downstream connection on the fixture's listener: a new proxy instance, as the listener's
// network filter factory creates one per accepted connection.
func (f *Fixture) OpenConn() *Conn {
	p := proxy.NewProxy(f.ctx, &v2.Proxy{Name: f.prefix + "proxy", DownstreamProtocol: string(Proto), UpstreamProtocol: string(Proto), RouterConfigName: f.prefix + "router"})
	p.InitializeReadFilterCallbacks(&readCallbacks{conn: &fakeConn{id: uint64(f.slot)}})
	l, ok := p.(types.ServerStreamConnectionEventListener)
	if !ok {
		panic("px: proxy is not a ServerStreamConnectionEventListener")
	}
	return &Conn{f: f, sscl: l}
}

// Prepared is a request whose stream exists (NewStreamDetect done, filter chain created) and whose OnReceive is still to come.
type Prepared struct {
	ex   *Exchange
	hdr  api.HeaderMap
	data buffer.IoBuffer
	tr   api.HeaderMap
}

// Prepare does the first half of Fixture.Request on this connection.
func (c *Conn) Prepare(headers map[string]string, body []byte, trailers map[string]string) *Prepared {
	f := c.f
	ex := &Exchange{f: f, calls: map[int]int{}}
	sctx := buffer.NewBufferPoolContext(variable.NewVariableContext(f.ctx))
	sctx = context.WithValue(sctx, exKey{}, ex)
	ex.ctx = sctx
	hdr := protocol.CommonHeader{}
	for k, v := range headers {
		hdr[k] = v
	}
	setVar := func(h, name string) {
		if v, ok := headers[h]; ok {
			_ = variable.SetString(sctx, name, v)
		}
	}
	setVar(":path", types.VarPath)
	setVar(":path", types.VarPathOriginal)
	setVar(":authority", types.VarHost)
	setVar(":method", types.VarMethod)
	setVar(":scheme", types.VarScheme)
	setVar(":query", types.VarQueryString)
	for k, v := range f.cfg.Vars {
		if s, ok := v.(string); ok {
			_ = variable.SetString(sctx, k, s)
		} else {
			_ = variable.Set(sctx, k, v)
		}
	}
	f.mu.Lock()
	f.exchanges = append(f.exchanges, ex)
	f.mu.Unlock()
	ex.down = &downSender{ex: ex}
	ex.start = time.Now()
	ex.recv = c.sscl.NewStreamDetect(sctx, ex.down, nil)
	p := &Prepared{ex: ex, hdr: hdr}
	if body != nil {
		p.data = buffer.NewIoBufferBytes(append([]byte{}, body...))
	}
	if trailers != nil {
		t := protocol.CommonHeader{}
		for k, v := range trailers {
			t[k] = v
		}
		p.tr = t
	}
	return p
}

// Exchange of a prepared request (its trace is empty until Go).
func (p *Prepared) Exchange() *Exchange { return p.ex }

// Go delivers the request to the stream (OnReceive): the worker goroutine runs the filters asynchronously.
func (p *Prepared) Go() *Exchange {
	p.ex.recv.OnReceive(p.ex.ctx, p.hdr, p.data, p.tr)
	return p.ex
}

// FilterEntry is one entry of a stream-filter configuration: a scripted filter (index ID of Config.Filters), a traced
// built-in filter (traced with index ID), or an entry whose type no factory is registered for.
type FilterEntry struct {
	ID      int
	Builtin *Builtin
	Unknown bool
}

// SetFilterConfig publishes the entries as the listener's stream-filter configuration through the real manager.
func (f *Fixture) SetFilterConfig(entries []FilterEntry) error {
	fcfg := []v2.Filter{}
	for _, e := range entries {
		switch {
		case e.Unknown:
			fcfg = append(fcfg, v2.Filter{Type: "px_no_such_filter_type", Config: map[string]interface{}{"index": e.ID}})
		case e.Builtin != nil:
			fcfg = append(fcfg, v2.Filter{Type: wrapType, Config: map[string]interface{}{
				"slot": f.slot, "index": e.ID, "type": e.Builtin.Type, "config": e.Builtin.Config}})
		default:
			fcfg = append(fcfg, v2.Filter{Type: filterType, Config: map[string]interface{}{"slot": f.slot, "index": e.ID}})
		}
	}
	return streamfilter.GetStreamFilterManager().AddOrUpdateStreamFilterConfig(f.listener, fcfg)
}
