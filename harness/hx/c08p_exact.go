//go:build verif

package hx

// Exact returns a copy of b whose capacity equals its length: Go checks slice expressions against the CAPACITY, so a
// read behind the received bytes only panics (instead of silently reading spare capacity) on such a buffer.
// (`append([]byte(nil), b...)` rounds the capacity up to the allocator's size class.)
func Exact(b []byte) []byte {
	o := make([]byte, len(b))
	copy(o, b)
	return o[:len(b):len(b)]
}
