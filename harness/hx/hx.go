// Package hx: shared plumbing of the verification harness — deterministic PRNG, case/impl line emitter,
// distribution counters, hex helpers, panic capture.
package hx

import (
	"bufio"
	"encoding/hex"
	"encoding/json"
	"fmt"
	"os"
	"sort"
	"strings"
	"sync"
)

// Rng is a splitmix64 generator: every random choice of a run derives from VERIF_SEED.
type Rng struct{ s uint64 }

// NewRng hashes the seed (two splitmix rounds) so that nearby seeds give unrelated streams.
func NewRng(seed uint64) *Rng {
	r := &Rng{s: seed ^ 0x5DEECE66D1234567}
	a := r.U64()
	r.s = a ^ (seed * 0xD6E8FEB86659FD93)
	r.s = r.U64()
	return r
}
func (r *Rng) U64() uint64 {
	r.s += 0x9E3779B97F4A7C15
	z := r.s
	z = (z ^ (z >> 30)) * 0xBF58476D1CE4E5B9
	z = (z ^ (z >> 27)) * 0x94D049BB133111EB
	return z ^ (z >> 31)
}
func (r *Rng) Intn(n int) int {
	if n <= 0 {
		return 0
	}
	return int(r.U64() % uint64(n))
}
func (r *Rng) Bool() bool         { return r.U64()&1 == 1 }
func (r *Rng) Chance(p int) bool  { return r.Intn(100) < p }
func (r *Rng) Pick(xs []int) int  { return xs[r.Intn(len(xs))] }
func (r *Rng) PickS(xs []string) string { return xs[r.Intn(len(xs))] }
func (r *Rng) Bytes(n int) []byte {
	b := make([]byte, n)
	for i := range b {
		b[i] = byte(r.U64())
	}
	return b
}
func (r *Rng) Fork() *Rng { return NewRng(r.U64()) }

// Ctx is handed to each property's Run.
type Ctx struct {
	Tier  string // quick | thorough
	Seed  uint64
	Rng   *Rng
	Args  []string
	out   *bufio.Writer
	mu    sync.Mutex
	dist  map[string]int
	Cases int
}

func (c *Ctx) Thorough() bool { return c.Tier == "thorough" }

// N returns quick or thorough size.
func (c *Ctx) N(quick, thorough int) int {
	if c.Thorough() {
		return thorough
	}
	return quick
}

// Emit writes one case line: "<prop> <case tokens> => <impl tokens>".
func (c *Ctx) Emit(prop string, caseToks string, impl string) {
	c.mu.Lock()
	defer c.mu.Unlock()
	if strings.ContainsAny(caseToks, "\n\r") || strings.ContainsAny(impl, "\n\r") {
		panic("newline in case line")
	}
	fmt.Fprintf(c.out, "%s %s => %s\n", prop, caseToks, impl)
	c.Cases++
}

// FlushNow writes out everything emitted so far (for an emergency exit after the code under test hung).
func (c *Ctx) FlushNow() {
	c.mu.Lock()
	c.out.Flush()
	c.mu.Unlock()
}

// Count adds to the generator/branch distribution printed into the evidence.
func (c *Ctx) Count(key string) {
	c.mu.Lock()
	c.dist[key]++
	c.mu.Unlock()
}

func Hex(b []byte) string {
	if len(b) == 0 {
		return "-"
	}
	return hex.EncodeToString(b)
}

func Unhex(s string) []byte {
	if s == "-" {
		return nil
	}
	b, err := hex.DecodeString(s)
	if err != nil {
		panic(err)
	}
	return b
}

// Tok makes a string safe as a single token ("" -> "-", spaces and controls escaped).
func Tok(s string) string {
	if s == "" {
		return "-"
	}
	var sb strings.Builder
	for _, r := range []byte(s) {
		if r <= ' ' || r >= 0x7f || r == '%' || r == ',' || r == '=' || r == '|' {
			fmt.Fprintf(&sb, "%%%02x", r)
		} else {
			sb.WriteByte(r)
		}
	}
	return sb.String()
}

// Safe runs f and reports a recovered panic as (msg, true).
func Safe(f func()) (msg string, panicked bool) {
	defer func() {
		if r := recover(); r != nil {
			msg = fmt.Sprint(r)
			if len(msg) > 120 {
				msg = msg[:120]
			}
			panicked = true
		}
	}()
	f()
	return "", false
}

type Prop func(c *Ctx)

var registry = map[string]Prop{}

func Register(id string, p Prop) { registry[id] = p }

func Main() {
	if len(os.Args) < 2 {
		ids := []string{}
		for k := range registry {
			ids = append(ids, k)
		}
		sort.Strings(ids)
		fmt.Println("usage: mosnh <Cxx> [-tier quick|thorough] [-seed n] [-out file] [-stats file] [args...]; registered:", ids)
		os.Exit(2)
	}
	id := os.Args[1]
	c := &Ctx{Tier: "quick", Seed: 1, dist: map[string]int{}}
	outPath, statsPath := "", ""
	a := os.Args[2:]
	for i := 0; i < len(a); i++ {
		switch a[i] {
		case "-tier":
			i++
			c.Tier = a[i]
		case "-seed":
			i++
			fmt.Sscan(a[i], &c.Seed)
		case "-out":
			i++
			outPath = a[i]
		case "-stats":
			i++
			statsPath = a[i]
		default:
			c.Args = append(c.Args, a[i])
		}
	}
	c.Rng = NewRng(c.Seed)
	f := os.Stdout
	if outPath != "" {
		var err error
		f, err = os.Create(outPath)
		if err != nil {
			panic(err)
		}
	}
	c.out = bufio.NewWriterSize(f, 1<<20)
	p, ok := registry[id]
	if !ok {
		fmt.Fprintln(os.Stderr, "unknown property", id)
		os.Exit(2)
	}
	p(c)
	c.out.Flush()
	if statsPath != "" {
		b, _ := json.MarshalIndent(map[string]interface{}{"cases": c.Cases, "distribution": c.dist}, "", " ")
		os.WriteFile(statsPath, b, 0o644)
	}
}
