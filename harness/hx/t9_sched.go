package hx

// c10t9: scheduling-latency calibration and goroutine-state classification for the time-dependent case kinds.
//
// A harness that drives real sockets / real timers has to decide, when a wait budget ran out, between
//   - the code under test will never produce the awaited effect (a true hang: a violation), and
//   - the machine did not run the goroutines that would have produced it (load: timing skew, no verdict).
// The two are told apart by what the goroutines of the process are doing: in a true hang every goroutine is parked
// (IO wait / select / chan receive / semacquire / sleep ...) and stays so; under load some goroutine is runnable or
// running (or in a system call) and the awaited effect arrives when the wait is extended.

import (
	"fmt"
	"os"
	"runtime"
	"sort"
	"strings"
	"sync"
	"time"
)

// SchedLatency measures how late this process is served at the moment: the worst of `rounds` goroutine handoffs
// (spawn a goroutine, wake it through a channel, get the answer back) and 1 ms sleeps (overshoot beyond 1 ms).
// On an idle machine this is 50-300 µs; with 2x CPU oversubscription several ms; a stalled machine shows 50 ms and more.
func SchedLatency(rounds int) time.Duration {
	var worst time.Duration
	for i := 0; i < rounds; i++ {
		ping, pong := make(chan struct{}), make(chan struct{})
		go func() {
			<-ping
			pong <- struct{}{}
		}()
		runtime.Gosched()
		t := time.Now()
		ping <- struct{}{}
		<-pong
		if d := time.Since(t); d > worst {
			worst = d
		}
		t = time.Now()
		time.Sleep(time.Millisecond)
		if d := time.Since(t) - time.Millisecond; d > worst {
			worst = d
		}
	}
	return worst
}

var (
	schedMu    sync.Mutex
	schedScale = 1.0
	schedWorst time.Duration
)

// Calibrate runs the probe and sets the process-wide budget scale (raiseScale).
// It only ever raises the scale (a later calm moment does not shrink budgets of a run that has seen a slow one).
func Calibrate() time.Duration {
	l := SchedLatency(12)
	schedMu.Lock()
	defer schedMu.Unlock()
	if l > schedWorst {
		schedWorst = l
	}
	raiseScale(l)
	return l
}

// raiseScale: 1 up to 10 ms of latency (what an idle machine shows now and then), proportional above, at most 4.
// Budgets are upper bounds of condition waits, so a generous scale costs time only where something is wrong; the
// decision between hang and skew is made by the goroutine states, not by the budget.
func raiseScale(l time.Duration) {
	s := float64(l) / float64(10*time.Millisecond)
	if s > 4 {
		s = 4
	}
	if s > schedScale {
		schedScale = s
	}
}

// NoteLatency feeds an observed overshoot (e.g. of a poll sleep) into the scale, like a probe result.
func NoteLatency(l time.Duration) {
	schedMu.Lock()
	defer schedMu.Unlock()
	if l > schedWorst {
		schedWorst = l
	}
	raiseScale(l)
}

// Scaled is d times the calibrated scale (>= d).
func Scaled(d time.Duration) time.Duration {
	schedMu.Lock()
	defer schedMu.Unlock()
	return time.Duration(float64(d) * schedScale)
}

// SchedScale reports the scale and the worst latency seen (for the distribution / log).
func SchedScale() (float64, time.Duration) {
	schedMu.Lock()
	defer schedMu.Unlock()
	return schedScale, schedWorst
}

// GState is one goroutine of a dump.
type GState struct {
	State string // running | runnable | syscall | IO wait | select | chan receive | sleep | semacquire | ...
	Mins  int    // minutes in that state as printed by the runtime (0 when below one minute)
	Top   string // first function of the stack
	Stack string
}

// Goroutines parses runtime.Stack(all). The calling goroutine is left out.
func Goroutines() (dump string, gs []GState) {
	buf := make([]byte, 1<<20)
	for {
		n := runtime.Stack(buf, true)
		if n < len(buf) {
			buf = buf[:n]
			break
		}
		buf = make([]byte, 2*len(buf))
	}
	dump = string(buf)
	for i, blk := range strings.Split(dump, "\n\n") {
		if i == 0 { // the caller
			continue
		}
		lines := strings.Split(blk, "\n")
		if len(lines) == 0 || !strings.HasPrefix(lines[0], "goroutine ") {
			continue
		}
		h := lines[0]
		a, b := strings.Index(h, "["), strings.LastIndex(h, "]")
		if a < 0 || b < a {
			continue
		}
		st := h[a+1 : b]
		g := GState{Stack: blk}
		parts := strings.Split(st, ", ")
		g.State = parts[0]
		for _, p := range parts[1:] {
			if strings.HasSuffix(p, " minutes") {
				fmt.Sscan(p, &g.Mins)
			}
		}
		if len(lines) > 1 {
			g.Top = strings.TrimSpace(lines[1])
			if k := strings.Index(g.Top, "("); k > 0 {
				g.Top = g.Top[:k]
			}
		}
		gs = append(gs, g)
	}
	return dump, gs
}

// Busy reports the goroutines that are not parked: running, runnable or inside a system call — and whose stack
// satisfies keep (nil = all). A goroutine in `syscall` state that sits in a blocking wait of the runtime's own helpers
// (signal handling, the os/signal loop) is not work in progress and is skipped.
func Busy(gs []GState, keep func(GState) bool) []GState {
	var out []GState
	for _, g := range gs {
		switch g.State {
		case "running", "runnable", "syscall":
		default:
			continue
		}
		if g.Mins > 0 || strings.Contains(g.Stack, "os/signal.") || strings.Contains(g.Stack, "runtime.ensureSigM") {
			continue
		}
		if keep != nil && !keep(g) {
			continue
		}
		out = append(out, g)
	}
	return out
}

// StateSummary renders "IO wait=12,select=30,..." (sorted) for a log line.
func StateSummary(gs []GState) string {
	m := map[string]int{}
	for _, g := range gs {
		m[g.State]++
	}
	keys := make([]string, 0, len(m))
	for k := range m {
		keys = append(keys, k)
	}
	sort.Strings(keys)
	var sb strings.Builder
	for i, k := range keys {
		if i > 0 {
			sb.WriteByte(',')
		}
		fmt.Fprintf(&sb, "%s=%d", k, m[k])
	}
	return sb.String()
}

// Logf writes a diagnostic line to the harness log (stderr; ./check keeps it in <run>/<prop>_<tag>.log and shows its
// tail when the harness exits non-zero).
func Logf(format string, a ...interface{}) {
	fmt.Fprintf(os.Stderr, format+"\n", a...)
}

// TooSlow ends the harness process loudly: the environment could not run the time-dependent cases (more than the
// tolerated share was dropped as timing skew). This is deliberately NOT a case line: no verdict about the code.
func (c *Ctx) TooSlow(what string) {
	c.FlushNow()
	sc, worst := SchedScale()
	fmt.Fprintf(os.Stderr, "ENVIRONMENT TOO SLOW (not a property violation): %s; budget scale %.1f, worst scheduling latency %v. "+
		"Re-run on a less loaded machine.\n", what, sc, worst)
	os.Exit(75) // EX_TEMPFAIL
}

var uselessExtensions int64 // extended waits of this process that ended without the awaited effect

// PatientWait waits for cond within Scaled(budget). When the budget runs out it looks at the process: if no goroutine
// selected by keep (nil = all but the caller) is running / runnable / in a system call in three samples 20 ms apart and
// the scheduling latency measured then is below 20 ms, nothing is going to make cond true: false at once (a hang stays
// a hang). Otherwise the machine has not been running the goroutines concerned: the wait goes on up to hardCap.
// late = cond came true only in the extension. After three extensions of the process that ended without the effect no
// further extension is made (a run that really fails must still end within the check's timeout).
func PatientWait(what string, budget, hardCap time.Duration, keep func(GState) bool, cond func() bool) (ok, late bool) {
	start := time.Now()
	poll := func(until time.Time) bool {
		for {
			if cond() {
				return true
			}
			if time.Now().After(until) {
				return false
			}
			t := time.Now()
			time.Sleep(500 * time.Microsecond)
			if over := time.Since(t) - 500*time.Microsecond; over > 5*time.Millisecond {
				NoteLatency(over)
			}
		}
	}
	if poll(start.Add(Scaled(budget))) {
		return true, false
	}
	schedMu.Lock()
	useless := uselessExtensions
	schedMu.Unlock()
	calm, why := true, "parked"
	for i := 0; i < 3 && calm; i++ {
		_, gs := Goroutines()
		if b := Busy(gs, keep); len(b) > 0 {
			calm, why = false, "busy:"+b[0].State+"@"+b[0].Top
		} else {
			time.Sleep(20 * time.Millisecond)
		}
	}
	if calm {
		if l := Calibrate(); l > 20*time.Millisecond {
			calm, why = false, fmt.Sprintf("latency:%v", l)
		}
	}
	if cond() {
		return true, true
	}
	if calm || useless >= 3 {
		d, _ := Goroutines()
		Logf("t9: %s: not reached after %v and the process is %s: giving up. Goroutines:\n%s", what, time.Since(start), why, d)
		return false, false
	}
	Logf("t9: %s: not reached after %v, process not calm (%s): extending the wait", what, time.Since(start), why)
	if poll(start.Add(hardCap)) {
		Logf("t9: %s: reached after %v", what, time.Since(start))
		return true, true
	}
	schedMu.Lock()
	uselessExtensions++
	schedMu.Unlock()
	return false, false
}

var diagSeq int64

// SaveDiag keeps a diagnostic text (goroutine dump of a hang) beyond the run: ./check removes the run directory with the
// harness log when it ends, so the dump is also written next to the replay files (<verif>/replays/diag-<name>-<pid>-<n>.txt
// when the harness runs in <verif>/.run/<pid>, else into the working directory). Returns the path ("" = not written).
func SaveDiag(name, text string) string {
	schedMu.Lock()
	diagSeq++
	n := diagSeq
	schedMu.Unlock()
	dir := "."
	if wd, err := os.Getwd(); err == nil && strings.Contains(wd, string(os.PathSeparator)+".run"+string(os.PathSeparator)) {
		dir = "../../replays"
		if os.MkdirAll(dir, 0o755) != nil {
			dir = "."
		}
	}
	path := fmt.Sprintf("%s/diag-%s-%d-%d.txt", dir, name, os.Getpid(), n)
	if n > 20 || os.WriteFile(path, []byte(text), 0o644) != nil { // at most 20 dumps per process
		return ""
	}
	return path
}
