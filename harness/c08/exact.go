//go:build verif

package c08

import (
	"mosn.io/pkg/buffer"
	"verif/harness/framegen"
	"verif/harness/hx"
)

// [c08p10] c08pDecodeOnce is framegen.DecodeOnce on a buffer whose capacity equals its length: Go checks slice
// expressions against the capacity, so a decoder that reads behind the received bytes panics here instead of reading the
// spare capacity `append([]byte(nil), data...)` leaves behind the data.
func c08pDecodeOnce(proto string, data []byte) framegen.Outcome {
	ctx := framegen.Ctx()
	p := framegen.Codec(proto).NewXProtocol(ctx)
	buf := buffer.NewIoBufferBytes(hx.Exact(data))
	before := buf.Len()
	var f interface{}
	var err error
	_, panicked := hx.Safe(func() { f, err = p.Decode(ctx, buf) })
	o := framegen.Outcome{Drained: before - buf.Len()}
	switch {
	case panicked:
		o.Class = "panic"
	case err != nil:
		o.Class = "error"
	case f == nil:
		o.Class = "needmore"
	default:
		o.Class = "frame"
	}
	return o
}
