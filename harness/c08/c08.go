//go:build verif

// Package c08: malformed input is contained. Runs the real xprotocol decoders (one Decode call on exactly the given
// bytes) and the real xprotocol.DecodeHeader under panic recovery and a timeout, on single-field corruptions of valid
// frames, truncations at every offset, corrupted header blocks and random bytes.
package c08

import (
	"encoding/binary"
	"fmt"
	"time"

	"mosn.io/mosn/pkg/log"
	"mosn.io/mosn/pkg/protocol/xprotocol"
	"verif/harness/framegen"
	"verif/harness/hx"
)

func init() { hx.Register("C08", Run) }

const caseTimeout = 10 * time.Second

// withTimeout runs f; reports hang=true when it does not return in time (the goroutine is then abandoned).
func withTimeout(f func()) (hang bool) {
	done := make(chan struct{})
	go func() {
		defer close(done)
		f()
	}()
	select {
	case <-done:
		return false
	case <-time.After(caseTimeout):
		return true
	}
}

func decCase(c *hx.Ctx, proto string, data []byte, how string) {
	var o framegen.Outcome
	out := ""
	if withTimeout(func() { o = framegen.DecodeOnce(proto, data) }) {
		out = "hang"
	} else if o.Class == "panic" {
		out = "panic"
	} else {
		out = fmt.Sprintf("%s:%d", o.Class, o.Drained)
	}
	c.Emit("C08", fmt.Sprintf("dec %s %s", proto, hx.Hex(data)), out)
	c.Count("dec." + how)
	c.Count("outcome." + proto + "." + o.Class)
}

func kvCase(c *hx.Ctx, block []byte, how string) {
	out := ""
	var h xprotocol.Header
	var err error
	var panicked bool
	if withTimeout(func() {
		_, panicked = hx.Safe(func() { err = xprotocol.DecodeHeader(append([]byte(nil), block...), &h) })
	}) {
		out = "hang"
	} else if panicked {
		out = "panic"
	} else if err != nil {
		out = "err"
	} else {
		out = fmt.Sprintf("ok:%d", len(h.Kvs))
	}
	c.Emit("C08", "kv "+hx.Hex(block), out)
	c.Count("kv." + how)
	c.Count("kv.outcome." + out[:2])
}

func setField(b []byte, f framegen.LenField, v uint64) []byte {
	o := append([]byte(nil), b...)
	switch f.Width {
	case 2:
		binary.BigEndian.PutUint16(o[f.Off:], uint16(v))
	case 4:
		binary.BigEndian.PutUint32(o[f.Off:], uint32(v))
	}
	return o
}

func maxOf(w int) uint64 {
	if w == 2 {
		return 0xffff
	}
	return 0xffffffff
}

func Run(c *hx.Ctx) {
	// hx seeds are affine in VERIF_SEED (seed k+1 replays seed k shifted by one draw): decorrelate them here
	c.Rng = c.Rng.Fork()
	log.DefaultLogger.SetLogLevel(log.FATAL)
	log.Proxy.SetLogLevel(log.FATAL)
	seen := map[string]bool{}
	dec := func(proto string, data []byte, how string) {
		k := proto + string(data)
		if seen[k] {
			return
		}
		seen[k] = true
		decCase(c, proto, data, how)
	}
	nFrames := c.N(40, 400)
	for _, proto := range framegen.Protos {
		for i := 0; i < nFrames; i++ {
			f := framegen.Gen(c.Rng, proto, true)
			if proto == "tars" && len(f.Bytes) >= 256 {
				continue
			}
			dec(proto, f.Bytes, "valid")
			// every single length-field corruption: 0, 1..3, max, truth±1; alone and followed by spare bytes
			for _, fld := range f.Fields {
				vals := []uint64{0, 1, 2, 3, maxOf(fld.Width), maxOf(fld.Width) - 1, fld.Value + 1, fld.Value + 4, fld.Value + 5}
				if fld.Value > 0 {
					vals = append(vals, fld.Value-1)
				}
				if fld.Value > 4 {
					vals = append(vals, fld.Value-4, fld.Value-5)
				}
				for _, v := range vals {
					m := setField(f.Bytes, fld, v)
					dec(proto, m, "field."+fld.Name)
					dec(proto, append(append([]byte(nil), m...), c.Rng.Bytes(1+c.Rng.Intn(12))...), "field+spare."+fld.Name)
				}
			}
			// truncation at every offset (every offset for the first frames, sampled afterwards)
			step := 1
			if i >= c.N(8, 60) {
				step = 1 + c.Rng.Intn(7)
			}
			for k := 0; k < len(f.Bytes); k += step {
				dec(proto, f.Bytes[:k], "truncated")
			}
			// one corrupted byte
			for j := 0; j < 4; j++ {
				m := append([]byte(nil), f.Bytes...)
				m[c.Rng.Intn(len(m))] ^= byte(1 + c.Rng.Intn(255))
				dec(proto, m, "byteflip")
			}
		}
		// random bytes, half of them steered by a plausible first bytes
		for i := 0; i < c.N(300, 6000); i++ {
			b := c.Rng.Bytes(c.Rng.Intn(80))
			if c.Rng.Chance(60) && len(b) > 8 {
				switch proto {
				case "bolt":
					b[0], b[1] = 1, byte(c.Rng.Intn(4))
				case "boltv2":
					b[0], b[2] = 2, byte(c.Rng.Intn(4))
				case "dubbo":
					b[0], b[1] = 0xda, 0xbb
				case "thrift", "tars":
					b[0], b[1], b[2] = 0, 0, 0
				}
				if c.Rng.Chance(50) { // small length fields so that frames complete
					for j := 12; j < len(b) && j < 24; j++ {
						if c.Rng.Chance(70) {
							b[j] = byte(c.Rng.Intn(3))
						}
					}
				}
			}
			dec(proto, b, "random")
		}
	}
	// bolt frames carrying a malformed header block (the block is complete as far as the frame lengths go)
	for i := 0; i < c.N(200, 3000); i++ {
		v2 := c.Rng.Bool()
		f := framegen.Bolt(c.Rng, v2, true)
		if f.Kind == "hb" {
			continue
		}
		blk := badBlock(c.Rng)
		if len(blk) > 60000 {
			continue
		}
		hdrLen := f.Fields[1].Value
		classLen := f.Fields[0].Value
		start := f.Fields[2].Off + 4 + int(classLen)
		nb := append([]byte(nil), f.Bytes[:start]...)
		nb = append(nb, blk...)
		nb = append(nb, f.Bytes[start+int(hdrLen):]...)
		binary.BigEndian.PutUint16(nb[f.Fields[1].Off:], uint16(len(blk)))
		dec(f.Proto, nb, "bolt-bad-block")
	}
	// the header block decoder alone
	seenKv := map[string]bool{}
	kv := func(b []byte, how string) {
		if seenKv[string(b)] {
			return
		}
		seenKv[string(b)] = true
		kvCase(c, b, how)
	}
	for i := 0; i < c.N(150, 2000); i++ {
		var pairs [][2][]byte
		for j := c.Rng.Intn(4); j >= 0; j-- {
			pairs = append(pairs, [2][]byte{c.Rng.Bytes(c.Rng.Intn(5)), c.Rng.Bytes(c.Rng.Intn(6))})
		}
		good := framegen.KV(pairs)
		kv(good, "valid")
		for k := 0; k < len(good); k++ {
			kv(good[:k], "truncated")
		}
		for d := 1; d <= 3; d++ {
			kv(append(append([]byte(nil), good...), c.Rng.Bytes(d)...), "dangling")
		}
		kv(badBlock(c.Rng), "bad")
	}
	for i := 0; i < c.N(300, 5000); i++ {
		b := c.Rng.Bytes(c.Rng.Intn(24))
		for j := range b {
			if c.Rng.Chance(60) {
				b[j] = byte(c.Rng.Pick([]int{0, 0, 0, 1, 2, 3, 4, 255}))
			}
		}
		kv(b, "random")
	}
}

// badBlock builds a header block with one defect: truncated length prefix, missing value, overlong length,
// 0xFFFFFFFF markers, or random bytes.
func badBlock(r *hx.Rng) []byte {
	str := func(n int) []byte {
		b := make([]byte, 4, 4+n)
		binary.BigEndian.PutUint32(b, uint32(n))
		return append(b, r.Bytes(n)...)
	}
	var b []byte
	for j := r.Intn(3); j > 0; j-- {
		b = append(b, str(r.Intn(4))...)
		b = append(b, str(r.Intn(4))...)
	}
	switch r.Intn(7) {
	case 0: // dangling 1-3 bytes
		b = append(b, r.Bytes(1+r.Intn(3))...)
	case 1: // key without value
		b = append(b, str(r.Intn(4))...)
	case 2: // key + truncated value prefix
		b = append(b, str(r.Intn(4))...)
		b = append(b, r.Bytes(1+r.Intn(3))...)
	case 3: // overlong length
		s := str(r.Intn(4))
		binary.BigEndian.PutUint32(s, uint32(len(s)+r.Intn(5)-3))
		b = append(b, s...)
	case 4: // invalid-length marker in key position, then maybe more
		b = append(b, 0xff, 0xff, 0xff, 0xff)
		if r.Bool() {
			b = append(b, str(r.Intn(3))...)
		}
	case 5: // invalid-length marker in value position
		b = append(b, str(r.Intn(3))...)
		b = append(b, 0xff, 0xff, 0xff, 0xff)
		if r.Bool() {
			b = append(b, r.Bytes(r.Intn(4))...)
		}
	case 6:
		b = append(b, r.Bytes(r.Intn(12))...)
	}
	return b
}
