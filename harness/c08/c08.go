//go:build verif

// Package c08: malformed input is contained. Runs the real xprotocol decoders (one Decode call on exactly the given
// bytes) and the real xprotocol.DecodeHeader under panic recovery and a timeout, on single-field corruptions of valid
// frames, truncations at every offset, corrupted header blocks and random bytes.
package c08

import (
	"bytes"
	"encoding/binary"
	"fmt"
	"os"
	"strings"
	"time"

	"mosn.io/api"
	"mosn.io/mosn/pkg/log"
	mhttp2 "mosn.io/mosn/pkg/module/http2"
	"mosn.io/mosn/pkg/module/http2/hpack"
	phttp2 "mosn.io/mosn/pkg/protocol/http2"
	"mosn.io/mosn/pkg/protocol/xprotocol"
	"mosn.io/pkg/buffer"
	"verif/harness/framegen"
	"verif/harness/hx"
)

func init() { hx.Register("C08", Run) }

const caseTimeout = 10 * time.Second

// withTimeout runs f; reports hang=true when it does not return in time (the goroutine is then abandoned).
func withTimeout(f func()) (hang bool) {
	done := make(chan struct{})
	go func() {
		defer close(done)
		f()
	}()
	select {
	case <-done:
		return false
	case <-time.After(caseTimeout):
		return true
	}
}

func decCase(c *hx.Ctx, proto string, data []byte, how string) {
	var o framegen.Outcome
	out := ""
	if withTimeout(func() { o = c08pDecodeOnce(proto, data) }) {
		out = "hang"
	} else if o.Class == "panic" {
		out = "panic"
	} else {
		out = fmt.Sprintf("%s:%d", o.Class, o.Drained)
	}
	c.Emit("C08", fmt.Sprintf("dec %s %s", proto, hx.Hex(data)), out)
	c.Count("dec." + how)
	c.Count("outcome." + proto + "." + o.Class)
}

func kvCase(c *hx.Ctx, block []byte, how string) {
	out := ""
	var h xprotocol.Header
	var err error
	var panicked bool
	if withTimeout(func() {
		_, panicked = hx.Safe(func() { err = xprotocol.DecodeHeader(hx.Exact(block), &h) })
	}) {
		out = "hang"
	} else if panicked {
		out = "panic"
	} else if err != nil {
		out = "err"
	} else {
		out = fmt.Sprintf("ok:%d", len(h.Kvs))
	}
	c.Emit("C08", "kv "+hx.Hex(block), out)
	c.Count("kv." + how)
	c.Count("kv.outcome." + out[:2])
}

func setField(b []byte, f framegen.LenField, v uint64) []byte {
	o := append([]byte(nil), b...)
	switch f.Width {
	case 2:
		binary.BigEndian.PutUint16(o[f.Off:], uint16(v))
	case 4:
		binary.BigEndian.PutUint32(o[f.Off:], uint32(v))
	}
	return o
}

func maxOf(w int) uint64 {
	if w == 2 {
		return 0xffff
	}
	return 0xffffffff
}

func Run(c *hx.Ctx) {
	// hx seeds are affine in VERIF_SEED (seed k+1 replays seed k shifted by one draw): decorrelate them here
	c.Rng = c.Rng.Fork()
	log.DefaultLogger.SetLogLevel(log.FATAL)
	log.Proxy.SetLogLevel(log.FATAL)
	if len(c.Args) >= 2 && c.Args[0] == "only" { // debugging aid
		switch c.Args[1] {
		case "h2up":
			h2upCases(c)
		case "h2set":
			h2setCases(c)
		case "h2trail":
			h2trailCases(c)
		case "hpackx":
			hpackxCases(c)
		case "disp":
			dispCases(c)
		case "h2disp":
			h2dispCases(c)
		case "h1disp":
			h1dispCases(c)
		case "dmeta":
			dmetaCases(c)
		case "pool":
			poolCases(c)
		case "mat":
			matCases(c)
		case "h2pay":
			h2payCases(c)
		case "h2hl":
			h2hlCases(c)
		case "h2body":
			h2bodyCases(c)
		}
		return
	}
	seen := map[string]bool{}
	dec := func(proto string, data []byte, how string) {
		k := proto + string(data)
		if seen[k] {
			return
		}
		seen[k] = true
		decCase(c, proto, data, how)
	}
	nFrames := c.N(40, 400)
	for _, proto := range framegen.Protos {
		for i := 0; i < nFrames; i++ {
			f := framegen.Gen(c.Rng, proto, true)
			if proto == "tars" && len(f.Bytes) >= 256 {
				continue
			}
			dec(proto, f.Bytes, "valid")
			// every single length-field corruption: 0, 1..3, max, truth±1; alone and followed by spare bytes
			for _, fld := range f.Fields {
				vals := []uint64{0, 1, 2, 3, maxOf(fld.Width), maxOf(fld.Width) - 1, fld.Value + 1, fld.Value + 4, fld.Value + 5}
				if fld.Value > 0 {
					vals = append(vals, fld.Value-1)
				}
				if fld.Value > 4 {
					vals = append(vals, fld.Value-4, fld.Value-5)
				}
				for _, v := range vals {
					m := setField(f.Bytes, fld, v)
					dec(proto, m, "field."+fld.Name)
					dec(proto, append(append([]byte(nil), m...), c.Rng.Bytes(1+c.Rng.Intn(12))...), "field+spare."+fld.Name)
				}
			}
			// truncation at every offset (every offset for the first frames, sampled afterwards)
			step := 1
			if i >= c.N(8, 60) {
				step = 1 + c.Rng.Intn(7)
			}
			for k := 0; k < len(f.Bytes); k += step {
				dec(proto, f.Bytes[:k], "truncated")
			}
			// one corrupted byte
			for j := 0; j < 4; j++ {
				m := append([]byte(nil), f.Bytes...)
				m[c.Rng.Intn(len(m))] ^= byte(1 + c.Rng.Intn(255))
				dec(proto, m, "byteflip")
			}
		}
		// random bytes, half of them steered by a plausible first bytes
		for i := 0; i < c.N(300, 6000); i++ {
			b := c.Rng.Bytes(c.Rng.Intn(80))
			if c.Rng.Chance(60) && len(b) > 8 {
				switch proto {
				case "bolt":
					b[0], b[1] = 1, byte(c.Rng.Intn(4))
				case "boltv2":
					b[0], b[2] = 2, byte(c.Rng.Intn(4))
				case "dubbo":
					b[0], b[1] = 0xda, 0xbb
				case "thrift", "tars":
					b[0], b[1], b[2] = 0, 0, 0
				}
				if c.Rng.Chance(50) { // small length fields so that frames complete
					for j := 12; j < len(b) && j < 24; j++ {
						if c.Rng.Chance(70) {
							b[j] = byte(c.Rng.Intn(3))
						}
					}
				}
			}
			dec(proto, b, "random")
		}
	}
	// [c08l9] tars: every length-prefix edge alone and in front of bytes (one Decode)
	for _, v := range c08l9TarsLens {
		pre := make([]byte, 4)
		binary.BigEndian.PutUint32(pre, v)
		dec("tars", pre, "tars-length")
		dec("tars", append(append([]byte(nil), pre...), 0x10, 0x01, 0x2c, 0x3c), "tars-length+bytes")
	}
	// bolt frames carrying a malformed header block (the block is complete as far as the frame lengths go)
	for i := 0; i < c.N(200, 3000); i++ {
		v2 := c.Rng.Bool()
		f := framegen.Bolt(c.Rng, v2, true)
		if f.Kind == "hb" {
			continue
		}
		blk := badBlock(c.Rng)
		if len(blk) > 60000 {
			continue
		}
		hdrLen := f.Fields[1].Value
		classLen := f.Fields[0].Value
		start := f.Fields[2].Off + 4 + int(classLen)
		nb := append([]byte(nil), f.Bytes[:start]...)
		nb = append(nb, blk...)
		nb = append(nb, f.Bytes[start+int(hdrLen):]...)
		binary.BigEndian.PutUint16(nb[f.Fields[1].Off:], uint16(len(blk)))
		dec(f.Proto, nb, "bolt-bad-block")
	}
	// [c08p10] every registered protocol matcher on prefixes / guard lengths / random bytes, capacity == length
	matCases(c)
	// [c08p10] the HTTP/2 frame payload parsers: type × length × flags × stream id × pad octet, capacity == length
	h2payCases(c)
	// [c08p10] the header list of readMetaFrame at its MAX_HEADER_LIST_SIZE budget
	h2hlCases(c)
	// [c08p10] the stream layer's body buffer against the announced content-length
	h2bodyCases(c)
	// the decode loop of the real Dispatch under a Decode-call counter and a watchdog
	dispCases(c)
	// the decode loops of the real HTTP/2 server / client Dispatch under a Decode-call recorder and a watchdog
	h2dispCases(c)
	// [c08l9] a second HEADERS frame (trailers) on a stream in flight: every short sequence by name, stream layer observed
	h2trailCases(c)
	// the HTTP/1 read path: real server / client stream connection (Dispatch pipe + serve goroutine) on malformed input
	h1dispCases(c)
	// dubbo service-aware metadata walk: hessian2 fields of unexpected types at each position
	dmetaCases(c)
	// a panicking task through the real worker pool in every pool state, each probe in a child process
	poolCases(c)
	// containment: an in-process MOSN keeps answering a probe while other connections send malformed streams
	containRun(c)
	// HTTP/2 server-side frame extraction (incl. payload parsers and HPACK) on malformed frames
	h2Malformed(c)
	// HPACK primitives through the real decoder
	hpackCases(c)
	// table references at the varint boundaries: sequences of blocks on one decoder, and inside HEADERS frames
	hpackxCases(c)
	h2IndexFrames(c)
	// upstream side: stream-error frames for an in-flight request on the real HTTP/2 client stream connection
	h2upCases(c)
	// [c08l9] upstream side: SETTINGS values at and outside every range edge, then a request with a large header block / body
	h2setCases(c)
	// the header block decoder alone
	seenKv := map[string]bool{}
	kv := func(b []byte, how string) {
		if seenKv[string(b)] {
			return
		}
		seenKv[string(b)] = true
		kvCase(c, b, how)
	}
	for i := 0; i < c.N(150, 2000); i++ {
		var pairs [][2][]byte
		for j := c.Rng.Intn(4); j >= 0; j-- {
			pairs = append(pairs, [2][]byte{c.Rng.Bytes(c.Rng.Intn(5)), c.Rng.Bytes(c.Rng.Intn(6))})
		}
		good := framegen.KV(pairs)
		kv(good, "valid")
		for k := 0; k < len(good); k++ {
			kv(good[:k], "truncated")
		}
		for d := 1; d <= 3; d++ {
			kv(append(append([]byte(nil), good...), c.Rng.Bytes(d)...), "dangling")
		}
		kv(badBlock(c.Rng), "bad")
	}
	for i := 0; i < c.N(300, 5000); i++ {
		b := c.Rng.Bytes(c.Rng.Intn(24))
		for j := range b {
			if c.Rng.Chance(60) {
				b[j] = byte(c.Rng.Pick([]int{0, 0, 0, 1, 2, 3, 4, 255}))
			}
		}
		kv(b, "random")
	}
}

// h2Case: one real server-side Decode (preface already consumed) on exactly these bytes.
func h2Case(c *hx.Ctx, data []byte, how string) {
	out := ""
	var err error
	var panicked bool
	drained := 0
	var frame interface{}
	if withTimeout(func() {
		sc := mhttp2.NewServerConn(&nopConn{})
		p := phttp2.ServerProto(sc)
		ctx := framegen.Ctx()
		pre := buffer.NewIoBufferBytes([]byte(mhttp2.ClientPreface))
		p.Decode(ctx, pre) // consumes the preface, answers ErrAGAIN
		buf := buffer.NewIoBufferBytes(hx.Exact(data)) // [c08p10] capacity == length: a read behind the buffered bytes panics
		before := buf.Len()
		_, panicked = hx.Safe(func() { frame, err = p.Decode(ctx, buf) })
		drained = before - buf.Len()
	}) {
		out = "hang"
	} else if panicked {
		out = "panic"
	} else if err == mhttp2.ErrAGAIN {
		out = fmt.Sprintf("needmore:%d", drained)
	} else if err != nil {
		out = fmt.Sprintf("error:%d", drained)
	} else {
		_ = frame
		out = fmt.Sprintf("frame:%d", drained)
	}
	c.Emit("C08", "h2dec "+hx.Hex(data), out)
	c.Count("h2dec." + how)
	c.Count("h2dec.outcome." + out[:4])
	if out == "hang" { // the spinning goroutine cannot be stopped
		c.FlushNow()
		os.Exit(0)
	}
}

type nopConn struct{ api.Connection }

func (nopConn) Write(...buffer.IoBuffer) error                           { return nil }
func (nopConn) Close(api.ConnectionCloseType, api.ConnectionEvent) error { return nil }

// h2Frames writes a few valid frames (MOSN's own Framer + HPACK encoder) and returns them separately.
func h2Frames(r *hx.Rng) [][]byte {
	var w bytes.Buffer
	fr := mhttp2.NewFramer(&w, nil)
	var hb bytes.Buffer
	enc := hpack.NewEncoder(&hb)
	var out [][]byte
	take := func() { out = append(out, append([]byte(nil), w.Bytes()...)); w.Reset() }
	fr.WriteSettings(mhttp2.Setting{ID: mhttp2.SettingInitialWindowSize, Val: 65535})
	take()
	fr.WriteWindowUpdate(0, uint32(1+r.Intn(1000)))
	take()
	var d [8]byte
	fr.WritePing(false, d)
	take()
	enc.WriteField(hpack.HeaderField{Name: ":method", Value: "POST"})
	enc.WriteField(hpack.HeaderField{Name: ":scheme", Value: "http"})
	enc.WriteField(hpack.HeaderField{Name: ":authority", Value: "a.test"})
	enc.WriteField(hpack.HeaderField{Name: ":path", Value: "/p" + strings.Repeat("x", r.Intn(20))})
	enc.WriteField(hpack.HeaderField{Name: "x-key", Value: strings.Repeat("v", r.Intn(30))})
	block := append([]byte(nil), hb.Bytes()...)
	parts := 1 + r.Intn(3)
	cut := []int{}
	for j := 1; j < parts; j++ {
		cut = append(cut, j*len(block)/parts)
	}
	cut = append(cut, len(block))
	p := mhttp2.HeadersFrameParam{StreamID: 1, BlockFragment: block[:cut[0]], EndHeaders: parts == 1, PadLength: uint8(r.Intn(4))}
	if r.Bool() {
		p.Priority = mhttp2.PriorityParam{Weight: 7}
	}
	fr.WriteHeaders(p)
	for j := 1; j < parts; j++ {
		fr.WriteContinuation(1, j == parts-1, block[cut[j-1]:cut[j]])
	}
	take()
	fr.WriteData(1, true, r.Bytes(r.Intn(40)))
	take()
	fr.WriteRSTStream(1, mhttp2.ErrCodeCancel)
	take()
	fr.WriteGoAway(1, mhttp2.ErrCodeNo, []byte("bye"))
	take()
	fr.WritePriority(3, mhttp2.PriorityParam{Weight: 1})
	take()
	return out
}

func h2Malformed(c *hx.Ctx) {
	seen := map[string]bool{}
	do := func(b []byte, how string) {
		if seen[string(b)] {
			return
		}
		seen[string(b)] = true
		h2Case(c, b, how)
	}
	for i := 0; i < c.N(25, 250); i++ {
		for _, f := range h2Frames(c.Rng) {
			do(f, "valid")
			ln := uint64(f[0])<<16 | uint64(f[1])<<8 | uint64(f[2])
			for _, v := range []uint64{0, 1, 2, 3, 4, 5, 8, ln + 1, ln + 9, ln - 1, 0xffffff, 1 << 20, 1<<20 + 1, 16384, 16385} {
				m := append([]byte(nil), f...)
				m[0], m[1], m[2] = byte(v>>16), byte(v>>8), byte(v)
				do(m, "length")
				do(append(m, c.Rng.Bytes(1+c.Rng.Intn(20))...), "length+spare")
			}
			for k := 0; k < len(f); k++ {
				do(f[:k], "truncated")
			}
			for j := 0; j < 6; j++ { // type / flags / stream id / payload byte corruption
				m := append([]byte(nil), f...)
				pos := 3 + c.Rng.Intn(len(m)-3)
				if j < 3 {
					pos = 3 + j
				}
				m[pos] ^= byte(1 + c.Rng.Intn(255))
				do(m, "byteflip")
				do(append(m, c.Rng.Bytes(c.Rng.Intn(12))...), "byteflip+spare")
			}
		}
	}
	for i := 0; i < c.N(400, 8000); i++ {
		b := c.Rng.Bytes(9 + c.Rng.Intn(50))
		b[0], b[1] = 0, 0
		b[2] = byte(c.Rng.Intn(len(b)))
		b[3] = byte(c.Rng.Intn(11))
		if c.Rng.Chance(50) {
			b[4] &= 0x2d
		}
		do(b, "random")
	}
}

// hpackCase: the real hpack.Decoder.DecodeFull on one header block.
func hpackCase(c *hx.Ctx, maxStr int, block []byte, how string) {
	out := ""
	var fields []hpack.HeaderField
	var err error
	var panicked bool
	if withTimeout(func() {
		d := hpack.NewDecoder(4096, nil)
		d.SetMaxStringLength(maxStr)
		_, panicked = hx.Safe(func() { fields, err = d.DecodeFull(hx.Exact(block)) })
	}) {
		out = "hang"
	} else if panicked {
		out = "panic"
	} else if err != nil {
		out = "err"
	} else {
		var p []string
		for _, f := range fields {
			p = append(p, fmt.Sprintf("%d.%d", len(f.Name), len(f.Value)))
		}
		out = "ok:-"
		if len(p) > 0 {
			out = "ok:" + strings.Join(p, ",")
		}
	}
	c.Emit("C08", fmt.Sprintf("hpack %d %s", maxStr, hx.Hex(block)), out)
	c.Count("hpack." + how)
	c.Count("hpack.outcome." + out[:2])
}

// varint encodes v with an n-bit prefix; pad > 0 appends non-minimal 0x80 continuation bytes.
func varint(n uint, v uint64, pad int) []byte {
	max := uint64(1)<<n - 1
	if v < max && pad == 0 {
		return []byte{byte(v)}
	}
	if v < max {
		return []byte{byte(v)} // cannot pad a value that fits the prefix
	}
	b := []byte{byte(max)}
	v -= max
	for v >= 128 {
		b = append(b, byte(v%128)|128)
		v /= 128
	}
	for i := 0; i < pad; i++ {
		b = append(b, byte(v)|128)
		v = 0
	}
	return append(b, byte(v))
}

func hpackCases(c *hx.Ctx) {
	seen := map[string]bool{}
	do := func(mx int, b []byte, how string) {
		k := fmt.Sprint(mx) + string(b)
		if seen[k] {
			return
		}
		seen[k] = true
		hpackCase(c, mx, b, how)
	}
	lens := []int{0, 1, 2, 5, 16, 17, 100, 101, 126, 127, 128, 129, 254, 255, 256, 300}
	for i := 0; i < c.N(150, 1500); i++ {
		mx := c.Rng.Pick([]int{0, 0, 16, 100, 127, 128})
		var block []byte
		var cuts []int
		for j := 1 + c.Rng.Intn(3); j > 0; j-- {
			block = append(block, byte(c.Rng.Pick([]int{0x00, 0x10})))
			for k := 0; k < 2; k++ {
				l := c.Rng.Pick(lens)
				pad := 0
				if c.Rng.Chance(20) {
					pad = 1 + c.Rng.Intn(3)
				}
				cuts = append(cuts, len(block))
				block = append(block, varint(7, uint64(l), pad)...)
				body := c.Rng.Bytes(l)
				block = append(block, body...)
			}
		}
		do(mx, block, "valid-or-too-long")
		for k := 0; k < len(block); k += 1 + c.Rng.Intn(9) {
			do(mx, block[:k], "truncated")
		}
		// corrupt one length: overflow run, huge, +1, -1
		at := cuts[c.Rng.Intn(len(cuts))]
		for _, repl := range [][]byte{
			{0x7f, 0x80, 0x80, 0x80, 0x80, 0x80, 0x80, 0x80, 0x80, 0x80, 0x01},
			{0x7f, 0xff, 0xff, 0xff, 0xff, 0xff, 0xff, 0xff, 0xff, 0x7f},
			{0x7f, 0xff, 0xff, 0xff, 0x0f},
			{0x7f}, {0x7f, 0x80}, {block[at] + 1}, {block[at] - 1}, {0x00}, {0xff, 0x00},
		} {
			m := append(append(append([]byte(nil), block[:at]...), repl...), block[at+1:]...)
			do(mx, m, "length-corrupted")
		}
	}
	for i := 0; i < c.N(300, 5000); i++ {
		b := c.Rng.Bytes(1 + c.Rng.Intn(30))
		if c.Rng.Chance(70) {
			b[0] = byte(c.Rng.Pick([]int{0x00, 0x10}))
			for j := 1; j < len(b); j++ {
				if c.Rng.Chance(50) {
					b[j] = byte(c.Rng.Pick([]int{0, 1, 2, 3, 0x7f, 0x80, 0xff}))
				}
			}
		}
		do(c.Rng.Pick([]int{0, 8}), b, "random")
	}
}

// badBlock builds a header block with one defect: truncated length prefix, missing value, overlong length,
// 0xFFFFFFFF markers, or random bytes.
func badBlock(r *hx.Rng) []byte {
	str := func(n int) []byte {
		b := make([]byte, 4, 4+n)
		binary.BigEndian.PutUint32(b, uint32(n))
		return append(b, r.Bytes(n)...)
	}
	var b []byte
	for j := r.Intn(3); j > 0; j-- {
		b = append(b, str(r.Intn(4))...)
		b = append(b, str(r.Intn(4))...)
	}
	switch r.Intn(7) {
	case 0: // dangling 1-3 bytes
		b = append(b, r.Bytes(1+r.Intn(3))...)
	case 1: // key without value
		b = append(b, str(r.Intn(4))...)
	case 2: // key + truncated value prefix
		b = append(b, str(r.Intn(4))...)
		b = append(b, r.Bytes(1+r.Intn(3))...)
	case 3: // overlong length
		s := str(r.Intn(4))
		binary.BigEndian.PutUint32(s, uint32(len(s)+r.Intn(5)-3))
		b = append(b, s...)
	case 4: // invalid-length marker in key position, then maybe more
		b = append(b, 0xff, 0xff, 0xff, 0xff)
		if r.Bool() {
			b = append(b, str(r.Intn(3))...)
		}
	case 5: // invalid-length marker in value position
		b = append(b, str(r.Intn(3))...)
		b = append(b, 0xff, 0xff, 0xff, 0xff)
		if r.Bool() {
			b = append(b, r.Bytes(r.Intn(4))...)
		}
	case 6:
		b = append(b, r.Bytes(r.Intn(12))...)
	}
	return b
}
