//go:build verif

package c08

// Kind `h2disp`: ONE real serverStreamConnection.Dispatch (behind the client preface) / clientStreamConnection.Dispatch
// (two requests in flight) of pkg/stream/http2 on a read buffer holding exactly the given bytes. The connection's codec
// is wrapped (hook VerifWrapProtocol) by a recorder of every Decode call: a<k> = ErrAGAIN, c<k> = another error that is
// not a StreamError (connection error), s<k> = StreamError, f<k> = frame, k = bytes the call drained; p = Decode panicked.
// The recorder unwinds Dispatch with a sentinel panic when the calls exceed len(bytes)/9 + 4 (a loop that makes no
// progress: outcome `runaway`); a Dispatch that does not return in 10 s is `hang`; a panic is `panic` (hx.Safe).
//
//   h2disp <srv|cli> <bytes> => <ret|runaway|hang|panic> <steps> <bytes left>
//
// <bytes>: segments joined by '.', each hex or z<N> (N zero bytes: the 1 MiB payloads at the read limit).

import (
	"bytes"
	"context"
	"fmt"
	"net"
	"net/http"
	"strings"
	"sync"
	"time"

	"mosn.io/api"
	mhttp2 "mosn.io/mosn/pkg/module/http2"
	"mosn.io/mosn/pkg/module/http2/hpack"
	phttp2 "mosn.io/mosn/pkg/protocol/http2"
	shttp2 "mosn.io/mosn/pkg/stream/http2"
	"mosn.io/pkg/buffer"
	"verif/harness/framegen"
	"verif/harness/hx"
)

type h2dConn struct {
	api.Connection
	mu     sync.Mutex
	closed bool
}

func (c *h2dConn) ID() uint64                                             { return 23 }
func (c *h2dConn) LocalAddr() net.Addr                                    { return &net.TCPAddr{} }
func (c *h2dConn) RemoteAddr() net.Addr                                   { return &net.TCPAddr{} }
func (c *h2dConn) RawConn() net.Conn                                      { return nil }
func (c *h2dConn) SetTransferEventListener(func() bool)                   {}
func (c *h2dConn) AddConnectionEventListener(api.ConnectionEventListener) {}
func (c *h2dConn) Connect() error                                         { return nil }
func (c *h2dConn) SetMark(uint32)                                         {}
func (c *h2dConn) SetReadDisable(bool)                                    {}
func (c *h2dConn) State() api.ConnState                                   { return api.ConnActive }
func (c *h2dConn) Write(...buffer.IoBuffer) error                         { return nil }
func (c *h2dConn) Close(api.ConnectionCloseType, api.ConnectionEvent) error {
	c.mu.Lock()
	c.closed = true
	c.mu.Unlock()
	return nil
}

type h2dRec struct {
	mu      sync.Mutex
	steps   []string
	limit   int
	runaway bool
}

type h2dProto struct {
	api.Protocol
	r *h2dRec
}

func (p *h2dProto) Decode(ctx context.Context, data api.IoBuffer) (f interface{}, err error) {
	p.r.mu.Lock()
	n := len(p.r.steps)
	p.r.mu.Unlock()
	if n >= p.r.limit {
		p.r.mu.Lock()
		p.r.runaway = true
		p.r.mu.Unlock()
		panic(dispSentinel)
	}
	before := data.Len()
	func() {
		defer func() {
			if r := recover(); r != nil {
				p.r.mu.Lock()
				p.r.steps = append(p.r.steps, "p")
				p.r.mu.Unlock()
				panic(r)
			}
		}()
		f, err = p.Protocol.Decode(ctx, data)
	}()
	d := before - data.Len()
	step := ""
	switch {
	case err == mhttp2.ErrAGAIN:
		step = fmt.Sprintf("a%d", d)
	case err != nil:
		if _, ok := err.(mhttp2.StreamError); ok {
			step = fmt.Sprintf("s%d", d)
		} else {
			step = fmt.Sprintf("c%d", d)
		}
	default:
		step = fmt.Sprintf("f%d", d)
	}
	p.r.mu.Lock()
	p.r.steps = append(p.r.steps, step)
	p.r.mu.Unlock()
	return f, err
}

type h2dReceiver struct{}

func (h2dReceiver) OnReceive(context.Context, api.HeaderMap, buffer.IoBuffer, api.HeaderMap) {}
func (h2dReceiver) OnDecodeError(context.Context, error, api.HeaderMap)                      {}

// h2dOnce runs one Dispatch on data; returns the impl tokens.
func h2dOnce(side string, data []byte) (impl string, hang bool) {
	r := &h2dRec{limit: len(data)/9 + 4}
	conn := &h2dConn{}
	ctx := framegen.Ctx()
	var dispatch func(buffer.IoBuffer)
	wrap := func(p api.Protocol) api.Protocol { return &h2dProto{Protocol: p, r: r} }
	setup := "ok"
	if _, p := hx.Safe(func() {
		if side == "srv" {
			sc := (&shttp2.StreamConnFactory{}).CreateServerStream(ctx, conn, dispListener{})
			pre := buffer.NewIoBufferBytes([]byte(mhttp2.ClientPreface))
			sc.Dispatch(pre) // consumes the preface, then ErrAGAIN
			if !shttp2.VerifWrapProtocol(sc, wrap) {
				setup = "nowrap"
			}
			dispatch = sc.Dispatch
		} else {
			cc := (&shttp2.StreamConnFactory{}).CreateClientStream(ctx, conn, dispListener{}, nil)
			if l, ok := cc.(api.ConnectionEventListener); ok {
				l.OnEvent(api.Connected)
			}
			for i := 0; i < 2; i++ {
				rctx := framegen.Ctx()
				s := cc.NewStream(rctx, h2dReceiver{})
				h := phttp2.NewHeaderMap(http.Header{})
				h.Set("x-q", "1")
				_ = s.AppendHeaders(rctx, h, true)
			}
			if !shttp2.VerifWrapProtocol(cc, wrap) {
				setup = "nowrap"
			}
			dispatch = cc.Dispatch
		}
	}); p {
		setup = "setup-panic"
	}
	if setup != "ok" {
		return setup + " - 0", false
	}
	buf := buffer.NewIoBuffer(len(data) + 16)
	buf.Write(data)
	done := make(chan bool, 1)
	go func() {
		_, p := hx.Safe(func() { dispatch(buf) })
		done <- p
	}()
	outcome := "ret"
	left := -1
	select {
	case p := <-done:
		left = buf.Len()
		if p {
			outcome = "panic"
		}
	case <-time.After(dispBudget):
		outcome = "hang"
		hang = true
	}
	r.mu.Lock()
	if r.runaway {
		outcome = "runaway"
	}
	steps := r.steps
	if len(steps) > 40 { // a runaway trace repeats: keep its head
		steps = steps[:40]
	}
	trace := strings.Join(steps, ",")
	r.mu.Unlock()
	if trace == "" {
		trace = "-"
	}
	if hang {
		return fmt.Sprintf("%s %s -", outcome, trace), true
	}
	return fmt.Sprintf("%s %s %d", outcome, trace, left), false
}

// h2dTok renders bytes as hex segments, runs of >= 64 zero bytes as z<N>.
func h2dTok(b []byte) string {
	if len(b) == 0 {
		return "-"
	}
	var segs []string
	i := 0
	start := 0
	for i < len(b) {
		if b[i] == 0 {
			j := i
			for j < len(b) && b[j] == 0 {
				j++
			}
			if j-i >= 64 {
				if i > start {
					segs = append(segs, hx.Hex(b[start:i]))
				}
				segs = append(segs, fmt.Sprintf("z%d", j-i))
				start = j
			}
			i = j
			continue
		}
		i++
	}
	if start < len(b) {
		segs = append(segs, hx.Hex(b[start:]))
	}
	return strings.Join(segs, ".")
}

type h2dGen struct {
	w   bytes.Buffer
	fr  *mhttp2.Framer
	hb  bytes.Buffer
	enc *hpack.Encoder
}

func newH2dGen() *h2dGen {
	g := &h2dGen{}
	g.fr = mhttp2.NewFramer(&g.w, nil)
	g.enc = hpack.NewEncoder(&g.hb)
	return g
}

func (g *h2dGen) take() []byte {
	b := append([]byte(nil), g.w.Bytes()...)
	g.w.Reset()
	return b
}

// block: a header block for a request (srv) / a response (cli); bad = a field name that is a stream error
func (g *h2dGen) block(side string, r *hx.Rng, bad bool) []byte {
	g.hb.Reset()
	g.enc = hpack.NewEncoder(&g.hb) // a fresh dynamic table: every case meets a fresh decoder
	if side == "srv" {
		g.enc.WriteField(hpack.HeaderField{Name: ":method", Value: "GET"})
		g.enc.WriteField(hpack.HeaderField{Name: ":scheme", Value: "http"})
		g.enc.WriteField(hpack.HeaderField{Name: ":authority", Value: "a.test"})
		g.enc.WriteField(hpack.HeaderField{Name: ":path", Value: "/p" + strings.Repeat("x", r.Intn(12))})
	} else {
		g.enc.WriteField(hpack.HeaderField{Name: ":status", Value: "200"})
	}
	if bad {
		g.enc.WriteField(hpack.HeaderField{Name: "Bad Name", Value: "v"})
	}
	g.enc.WriteField(hpack.HeaderField{Name: "x-key", Value: strings.Repeat("v", 3+r.Intn(20))})
	return append([]byte(nil), g.hb.Bytes()...)
}

// group: HEADERS + (parts-1) CONTINUATION frames for stream sid, as separate frames
func (g *h2dGen) group(side string, r *hx.Rng, sid uint32, parts int, endStream, bad bool) [][]byte {
	blk := g.block(side, r, bad)
	var out [][]byte
	cut := func(j int) int { return j * len(blk) / parts }
	g.fr.WriteHeaders(mhttp2.HeadersFrameParam{StreamID: sid, BlockFragment: blk[:cut(1)], EndHeaders: parts == 1, EndStream: endStream})
	out = append(out, g.take())
	for j := 1; j < parts; j++ {
		g.fr.WriteContinuation(sid, j == parts-1, blk[cut(j):cut(j+1)])
		out = append(out, g.take())
	}
	return out
}

func h2dCat(parts ...[]byte) []byte {
	var o []byte
	for _, p := range parts {
		o = append(o, p...)
	}
	return o
}

func h2dRaw(length int, ty, flags byte, sid uint32, payload []byte) []byte {
	h := []byte{byte(length >> 16), byte(length >> 8), byte(length), ty, flags, byte(sid >> 24), byte(sid >> 16), byte(sid >> 8), byte(sid)}
	return append(h, payload...)
}

func h2dispCases(c *hx.Ctx) {
	saved := c.Rng
	c.Rng = hx.NewRng(c.Seed*0x9E3779B97F4A7C15 + 0xc08d)
	defer func() { c.Rng = saved }()
	r := c.Rng
	type job struct {
		side, how string
		data      []byte
	}
	var jobs []job
	seen := map[string]bool{}
	add := func(side string, data []byte, how string) {
		k := side + string(data)
		if seen[k] {
			return
		}
		seen[k] = true
		jobs = append(jobs, job{side, how, append([]byte(nil), data...)})
	}
	const mx = 1 << 20 // defaultMaxReadFrameSize, also the advertised SETTINGS_MAX_FRAME_SIZE
	for _, side := range []string{"srv", "cli"} {
		g := newH2dGen()
		ping := func() []byte { var d [8]byte; copy(d[:], r.Bytes(8)); g.fr.WritePing(false, d); return g.take() }
		settings := func() []byte {
			g.fr.WriteSettings(mhttp2.Setting{ID: mhttp2.SettingInitialWindowSize, Val: 65535})
			return g.take()
		}
		wu := func(sid, inc uint32) []byte {
			return h2dRaw(4, 8, 0, sid, []byte{byte(inc >> 24), byte(inc >> 16), byte(inc >> 8), byte(inc)})
		}
		data := func(sid uint32, end bool, n int) []byte { g.fr.WriteData(sid, end, r.Bytes(n)); return g.take() }
		// [c08l9] a second HEADERS frame on a stream in flight (trailers) in every combination (h2trail.go)
		for _, j := range h2tJobs(side, g) {
			add(side, j.data, j.how)
		}
		// fixed boundary cases first
		for i := 0; i < c.N(3, 12); i++ {
			parts := 2 + i%2
			grp := g.group(side, r, 1, parts, true, false)
			whole := h2dCat(grp...)
			// a complete HEADERS frame without END_HEADERS followed by only 0..8 bytes of the next frame header
			for k := 0; k <= 8; k++ {
				add(side, whole[:len(grp[0])+k], "open-headers+hdr-bytes")
				add(side, h2dCat(ping(), whole[:len(grp[0])+k]), "ping+open-headers+hdr-bytes")
			}
			// a CONTINUATION cut at every offset
			for k := len(grp[0]); k <= len(whole); k++ {
				add(side, whole[:k], "continuation-cut")
			}
			add(side, h2dCat(settings(), whole, ping()), "valid")
		}
		// payload length exactly at / one below / one above the read limit, complete and header-only
		for _, ln := range []int{mx - 1, mx, mx + 1} {
			for _, ty := range []byte{0xfa, 6, 0} {
				sid := uint32(0)
				if ty == 0 {
					sid = 1
				}
				add(side, h2dCat(h2dRaw(ln, ty, 0, sid, make([]byte, ln)), ping()), "limit-complete")
				add(side, h2dRaw(ln, ty, 0, sid, make([]byte, 5)), "limit-header-only")
				if !c.Thorough() {
					break
				}
			}
			// a CONTINUATION at the limit inside a header block
			grp := g.group(side, r, 1, 1, true, false)
			grp[0][4] &^= 4 // HEADERS without END_HEADERS
			add(side, h2dCat(grp[0], h2dRaw(ln, 9, 4, 1, make([]byte, ln)), ping()), "limit-continuation")
		}
		for i := 0; i < c.N(40, 400); i++ {
			sid := uint32(1)
			var seq [][]byte
			seq = append(seq, settings(), wu(0, uint32(1+r.Intn(1000))), ping())
			seq = append(seq, h2dCat(g.group(side, r, sid, 1+r.Intn(3), false, false)...))
			seq = append(seq, data(sid, true, r.Intn(40)))
			seq = append(seq, h2dCat(g.group(side, r, 3, 1+r.Intn(2), true, false)...))
			g.fr.WritePriority(5, mhttp2.PriorityParam{Weight: 1})
			seq = append(seq, g.take())
			all := h2dCat(seq...)
			add(side, all, "valid")
			// a truncated tail
			add(side, all[:r.Intn(len(all))], "truncated")
			// stream errors: the frame is consumed and the loop goes on with what follows
			se := [][]byte{
				wu(1, 0),                      // WINDOW_UPDATE increment 0 on a stream
				h2dRaw(1, 1, 8, 1, []byte{9}), // HEADERS padded beyond its payload
				h2dCat(g.group(side, r, 5, 1+r.Intn(3), true, true)...), // invalid field name
			}
			for _, e := range se {
				add(side, h2dCat(e, ping()), "stream-error+valid")
				add(side, h2dCat(seq[0], e, seq[2], seq[3]), "valid+stream-error+valid")
				add(side, h2dCat(e, e, ping()), "stream-error-twice+valid")
				add(side, e, "stream-error")
			}
			// connection errors: nothing is consumed, the Dispatch ends
			open := g.group(side, r, 7, 2, true, false)
			ce := [][]byte{
				h2dRaw(2, 9, 4, 1, []byte{1, 2}),                               // unexpected CONTINUATION
				h2dCat(open[0], ping()),                                        // not a CONTINUATION inside a header block
				h2dCat(open[0], h2dRaw(1, 9, 4, 9, []byte{0x82})),              // CONTINUATION of another stream
				h2dRaw(mx+1+r.Intn(1000), byte(r.Intn(10)), 0, 1, r.Bytes(12)), // too large
				h2dRaw(1, 1, 4, 0, []byte{0x82}),                               // HEADERS on stream 0
				wu(0, 0),                                                       // WINDOW_UPDATE increment 0 on the connection
				h2dRaw(3, 8, 0, 1, []byte{0, 0, 1}),                            // WINDOW_UPDATE of the wrong size
				h2dRaw(11, 1, 4, 9, []byte{0xff, 0xff, 0xff, 0xff, 0xff, 0xff, 0xff, 0xff, 0xff, 0xff, 0x7f}), // HPACK index overflow
			}
			for _, e := range ce {
				add(side, h2dCat(e, ping(), seq[3]), "conn-error+valid")
				add(side, h2dCat(seq[2], e, ping()), "valid+conn-error+valid")
				add(side, e, "conn-error")
			}
			// one corrupted length field / one flipped byte somewhere in the pipeline
			for j := 0; j < 4; j++ {
				m := append([]byte(nil), all...)
				off := 0
				for k := 0; k < r.Intn(len(seq)); k++ {
					off += len(seq[k])
				}
				ln := int(m[off])<<16 | int(m[off+1])<<8 | int(m[off+2])
				v := r.Pick([]int{0, 1, 8, 9, ln + 1, ln - 1, ln + 9, 0xffffff, mx, mx + 1, 16384, 16385})
				if v < 0 {
					v = 0
				}
				m[off], m[off+1], m[off+2] = byte(v>>16), byte(v>>8), byte(v)
				add(side, m, "length-corrupted")
				m2 := append([]byte(nil), all...)
				m2[r.Intn(len(m2))] ^= byte(1 + r.Intn(255))
				add(side, m2, "byteflip")
			}
		}
		// random small frames, steered towards plausible headers
		for i := 0; i < c.N(150, 3000); i++ {
			var b []byte
			for j := 1 + r.Intn(4); j > 0; j-- {
				n := r.Intn(20)
				ln := n
				if r.Chance(15) {
					ln = n + r.Intn(3) - 1
					if ln < 0 {
						ln = 0
					}
				}
				fl := byte(r.Intn(256))
				if r.Chance(50) {
					fl &= 0x2d
				}
				b = append(b, h2dRaw(ln, byte(r.Intn(11)), fl, uint32(r.Intn(4)), r.Bytes(n))...)
			}
			add(side, b, "random")
		}
	}
	hangs := 0
	for _, j := range jobs {
		if hangs >= 3 {
			c.Count("h2disp.skipped-after-hangs")
			continue
		}
		impl, hang := h2dOnce(j.side, j.data)
		if hang {
			hangs++
		}
		c.Emit("C08", fmt.Sprintf("h2disp %s %s", j.side, h2dTok(j.data)), impl)
		c.Count("h2disp." + j.side + "." + j.how)
		toks := strings.Split(impl, " ")
		c.Count("h2disp.outcome." + toks[0])
		if len(toks) > 1 {
			st := strings.Split(toks[1], ",")
			last := st[len(st)-1]
			if last != "" && last != "-" {
				c.Count("h2disp.last." + last[:1])
			}
			for _, s := range st[:len(st)-1] {
				if strings.HasPrefix(s, "s") {
					c.Count("h2disp.went-on-after-stream-error")
					break
				}
			}
		}
	}
}
