//go:build verif

package c08

// Kind `pool`: the real worker pool (pkg/sync NewWorkerPool) brought into a given state — a worker parked on p.work or
// not, a free slot or not (saturated = every worker blocked on a gate, no slot left) — then ONE panicking task through
// Schedule / ScheduleAlways / ScheduleAuto. A goroutine without a recover ends the process, so every probe runs in a
// CHILD process (this binary re-executed with C08_POOL_CHILD=<api>:<w><s> in its environment, handled in init before
// the harness main starts); the parent reports `survived` (task ran, panic recovered, the pool served a second task),
// `blocked` (the call did not return: Schedule on a saturated pool) or `died` (child exit status != 0).

import (
	"fmt"
	"os"
	"os/exec"
	"strings"
	"sync"
	"time"

	"mosn.io/mosn/pkg/log"
	msync "mosn.io/mosn/pkg/sync"
	"verif/harness/hx"
)

const poolEnv = "C08_POOL_CHILD"

func init() {
	if v := os.Getenv(poolEnv); v != "" {
		poolChild(v)
	}
}

func poolChild(spec string) {
	log.DefaultLogger.SetLogLevel(log.FATAL)
	parts := strings.Split(spec, ":")
	if len(parts) != 2 || len(parts[1]) != 2 {
		fmt.Println("badspec")
		os.Exit(3)
	}
	api, waiting, slot := parts[0], parts[1][0] == '1', parts[1][1] == '1'
	const size = 2
	p := msync.NewWorkerPool(size)
	gate := make(chan struct{})
	started := make(chan struct{}, size)
	block := func() { started <- struct{}{}; <-gate }
	quick := func() { started <- struct{}{} }
	// workers: `blocked` of them sit on the gate, one more is parked on p.work when `waiting`
	nWorkers := size
	if slot {
		nWorkers = size - 1
	}
	for i := 0; i < nWorkers; i++ {
		if waiting && i == nWorkers-1 {
			p.Schedule(quick)
		} else {
			p.Schedule(block)
		}
		<-started
	}
	if waiting && nWorkers == 0 {
		fmt.Println("badstate")
		os.Exit(3)
	}
	time.Sleep(80 * time.Millisecond) // the quick worker is back on `<-p.work`
	ran := make(chan struct{})
	returned := make(chan struct{})
	task := func() { close(ran); panic("verif: task panics") }
	go func() {
		switch api {
		case "Schedule":
			p.Schedule(task)
		case "ScheduleAlways":
			p.ScheduleAlways(task)
		case "ScheduleAuto":
			p.ScheduleAuto(task)
		}
		close(returned)
	}()
	select {
	case <-ran:
	case <-time.After(700 * time.Millisecond):
		fmt.Println("blocked")
		os.Exit(0)
	}
	time.Sleep(250 * time.Millisecond) // an unrecovered panic has ended the process by now
	// the pool still serves
	ok := make(chan struct{})
	p.ScheduleAlways(func() { close(ok) })
	select {
	case <-ok:
		fmt.Println("survived")
	case <-time.After(time.Second):
		fmt.Println("survived-stuck")
	}
	close(gate)
	os.Exit(0)
}

func poolCases(c *hx.Ctx) {
	exe, err := os.Executable()
	if err != nil {
		return
	}
	type pc struct{ api, st, out string }
	var cases []*pc
	for _, api := range []string{"Schedule", "ScheduleAlways", "ScheduleAuto"} {
		for _, st := range []string{"00", "01", "10", "11"} {
			cases = append(cases, &pc{api: api, st: st})
		}
	}
	var wg sync.WaitGroup
	for _, k := range cases {
		wg.Add(1)
		go func(k *pc) {
			defer wg.Done()
			cmd := exec.Command(exe)
			cmd.Env = append(os.Environ(), poolEnv+"="+k.api+":"+k.st)
			done := make(chan struct{})
			var b []byte
			var err error
			go func() { b, err = cmd.Output(); close(done) }()
			select {
			case <-done:
			case <-time.After(20 * time.Second):
				if cmd.Process != nil {
					cmd.Process.Kill()
				}
				<-done
				k.out = "hang"
				return
			}
			o := strings.TrimSpace(string(b))
			switch {
			case err != nil:
				k.out = "died"
			case o == "survived" || o == "blocked" || o == "survived-stuck":
				k.out = o
			default:
				k.out = "died"
			}
		}(k)
	}
	wg.Wait()
	for _, k := range cases {
		c.Emit("C08", fmt.Sprintf("pool %s %s", k.api, k.st), k.out)
		c.Count("pool." + k.api + "." + k.st + "." + k.out)
	}
}
