//go:build verif

package c08

import (
	"bytes"
	"fmt"
	"strings"

	mhttp2 "mosn.io/mosn/pkg/module/http2"
	"mosn.io/mosn/pkg/module/http2/hpack"
	"verif/harness/hx"
)

// Kind 'hpackx': the real hpack.Decoder.DecodeFull on a SEQUENCE of header blocks on one decoder, with table
// references at the varint boundaries: indexed fields (7-bit prefix) and the name index of the three literal
// representations (6 / 4 / 4-bit prefix) take the values 0, 1, 60, 61, 62, table size, table size + 1, 127, 128,
// 2^31-1, 2^31, 2^32-1, 2^32, 2^63-1, 2^63, the largest value readVarInt delivers (2^63 + prefix - 1: the 10-byte
// maximal encoding `.. ff ff ff ff ff ff ff ff 7f`), the first one it refuses, 2^64-1, non-minimal (over-long)
// encodings and raw overflow runs; the dynamic table holds 0..3 entries written by the real encoder in the same or in
// an earlier block.  Every block is complete (model: Model/HpackTable + HpackEmit + the regenerated, checked
// Decoder.at); outputs must agree field by field, a panic or a hang violates the property.

type hpackKind struct {
	flag byte
	bits uint
	lit  bool
}

var hpackKinds = []hpackKind{{0x80, 7, false}, {0x40, 6, true}, {0x00, 4, true}, {0x10, 4, true}}

func fieldsTokX(fs []hpack.HeaderField) string {
	if len(fs) == 0 {
		return "-"
	}
	var p []string
	for _, f := range fs {
		s := "0"
		if f.Sensitive {
			s = "1"
		}
		p = append(p, fmt.Sprintf("f%s:%s:%s", s, hx.Hex([]byte(f.Name)), hx.Hex([]byte(f.Value))))
	}
	return strings.Join(p, "+")
}

func hpackxCase(c *hx.Ctx, maxStr int, blocks [][]byte, how string) {
	var outs []string
	var hexs []string
	for _, b := range blocks {
		hexs = append(hexs, hx.Hex(b))
	}
	hang := withTimeout(func() {
		d := hpack.NewDecoder(4096, nil)
		d.SetMaxStringLength(maxStr)
		for _, b := range blocks {
			var fs []hpack.HeaderField
			var err error
			_, panicked := hx.Safe(func() { fs, err = d.DecodeFull(hx.Exact(b)) })
			if panicked {
				outs = append(outs, "panic")
				return
			}
			if err != nil {
				outs = append(outs, "err")
				return
			}
			outs = append(outs, "ok:"+fieldsTokX(fs))
		}
	})
	if hang {
		outs = []string{"hang"}
	}
	c.Emit("C08", fmt.Sprintf("hpackx %d %s", maxStr, strings.Join(hexs, ",")), strings.Join(outs, ","))
	c.Count("hpackx." + how)
	c.Count("hpackx.outcome." + outs[len(outs)-1][:2])
}

// flagged returns the varint encoding of v under the representation's prefix size with its type bits set.
func flagged(k hpackKind, enc []byte) []byte {
	b := append([]byte(nil), enc...)
	b[0] |= k.flag
	return b
}

func hpackxCases(c *hx.Ctx) {
	seen := map[string]bool{}
	do := func(mx int, blocks [][]byte, how string) {
		k := fmt.Sprint(mx)
		for _, b := range blocks {
			k += "," + string(b)
		}
		if seen[k] {
			return
		}
		seen[k] = true
		hpackxCase(c, mx, blocks, how)
	}
	names := []string{"x-a", "x-b", "cookie", ":path", "k"}
	for it := 0; it < c.N(14, 140); it++ {
		// 0..3 entries written by the real encoder (new or indexed names, Huffman where shorter)
		n := c.Rng.Intn(4)
		var pre bytes.Buffer
		enc := hpack.NewEncoder(&pre)
		for j := 0; j < n; j++ {
			enc.WriteField(hpack.HeaderField{Name: names[c.Rng.Intn(len(names))], Value: fmt.Sprintf("v%d-%d", it, j)})
		}
		tsize := uint64(61 + n)
		mx := c.Rng.Pick([]int{0, 0, 0, 4})
		for _, k := range hpackKinds {
			pm := uint64(1)<<k.bits - 1
			vals := []uint64{0, 1, 60, 61, 62, tsize, tsize + 1, tsize + 2, 127, 128, 1<<31 - 1, 1 << 31, 1<<32 - 1, 1 << 32,
				1<<63 - 1, 1 << 63, 1<<63 + pm - 1, 1<<63 + pm, 1<<64 - 1, pm - 1, pm, pm + 1, c.Rng.U64() >> uint(c.Rng.Intn(64))}
			var reps [][]byte
			var hows []string
			for _, v := range vals {
				reps = append(reps, flagged(k, varint(k.bits, v, 0)))
				hows = append(hows, "idx")
				if v >= pm && c.Rng.Chance(40) {
					reps = append(reps, flagged(k, varint(k.bits, v, 1+c.Rng.Intn(3))))
					hows = append(hows, "idx-overlong")
				}
			}
			// raw runs: the 10-byte maximal encoding, one byte more, zero-padded runs
			for _, tail := range [][]byte{
				{0xff, 0xff, 0xff, 0xff, 0xff, 0xff, 0xff, 0xff, 0x7f},
				{0xff, 0xff, 0xff, 0xff, 0xff, 0xff, 0xff, 0xff, 0xff, 0x01},
				{0x80, 0x80, 0x80, 0x80, 0x80, 0x80, 0x80, 0x80, 0x40},
				{0x80, 0x80, 0x80, 0x80, 0x80, 0x80, 0x80, 0x80, 0x80, 0x00},
				{0x80, 0x00}, {0xff}, {},
			} {
				reps = append(reps, flagged(k, append([]byte{byte(pm)}, tail...)))
				hows = append(hows, "idx-raw")
			}
			for i, rep := range reps {
				b := append([]byte(nil), rep...)
				if k.lit {
					// the value (and, for name index 0, the name) as plain strings
					if len(rep) == 1 && rep[0]&byte(pm) == 0 {
						b = append(b, 2, 'n', byte('0'+it%10))
					}
					b = append(b, 1, 'v')
				}
				if c.Rng.Chance(30) { // something valid after it
					b = append(b, 0x82)
				}
				same := append(append([]byte(nil), pre.Bytes()...), b...)
				do(mx, [][]byte{same}, hows[i]+".same-block")
				if n > 0 {
					do(mx, [][]byte{pre.Bytes(), b}, hows[i]+".next-block")
				}
				if c.Rng.Chance(15) && len(b) > 1 {
					do(mx, [][]byte{pre.Bytes(), b[:1+c.Rng.Intn(len(b)-1)]}, "truncated")
				}
			}
		}
	}
	// random blocks over the whole representation alphabet
	for i := 0; i < c.N(400, 6000); i++ {
		var b []byte
		for j := 1 + c.Rng.Intn(4); j > 0; j-- {
			k := hpackKinds[c.Rng.Intn(4)]
			switch c.Rng.Intn(5) {
			case 0:
				b = append(b, flagged(k, varint(k.bits, uint64(c.Rng.Intn(70)), 0))...)
			case 1:
				b = append(b, flagged(k, varint(k.bits, c.Rng.U64()>>uint(c.Rng.Intn(64)), c.Rng.Intn(2)))...)
			case 2:
				b = append(b, 0x40, 1, byte('a'+c.Rng.Intn(3)), 1, 'v')
				continue
			case 3:
				b = append(b, 0x20|byte(c.Rng.Intn(32)))
				continue
			default:
				b = append(b, c.Rng.Bytes(1+c.Rng.Intn(4))...)
				continue
			}
			if k.lit {
				if b[len(b)-1]&byte(uint64(1)<<k.bits-1) == 0 && c.Rng.Chance(80) {
					b = append(b, 1, 'n')
				}
				if c.Rng.Chance(90) {
					b = append(b, 1, 'v')
				}
			}
		}
		do(c.Rng.Pick([]int{0, 0, 3}), [][]byte{b}, "random")
	}
}

// h2IndexFrames: HEADERS frames (optionally split into CONTINUATION frames) whose block carries a table reference at a
// varint boundary, through the real server-side Decode (MFramer.ReadFrame -> readMetaFrame -> hpack): kind 'h2dec'.
func h2IndexFrames(c *hx.Ctx) {
	seen := map[string]bool{}
	for it := 0; it < c.N(6, 60); it++ {
		for _, k := range hpackKinds {
			pm := uint64(1)<<k.bits - 1
			for _, v := range []uint64{0, 61, 62, 63, 1<<31 - 1, 1 << 31, 1 << 32, 1<<63 - 1, 1 << 63, 1<<63 + pm - 1, 1<<63 + pm, 1<<64 - 1} {
				var hb bytes.Buffer
				enc := hpack.NewEncoder(&hb)
				enc.WriteField(hpack.HeaderField{Name: ":method", Value: "GET"})
				enc.WriteField(hpack.HeaderField{Name: ":scheme", Value: "http"})
				enc.WriteField(hpack.HeaderField{Name: ":path", Value: "/"})
				if c.Rng.Bool() {
					enc.WriteField(hpack.HeaderField{Name: "x-new", Value: fmt.Sprint(it)})
				}
				block := append([]byte(nil), hb.Bytes()...)
				block = append(block, flagged(k, varint(k.bits, v, c.Rng.Pick([]int{0, 0, 1})))...)
				if k.lit {
					if v == 0 {
						block = append(block, 1, 'n')
					}
					block = append(block, 1, 'v')
				}
				var w bytes.Buffer
				fr := mhttp2.NewFramer(&w, nil)
				cut := len(block)
				if c.Rng.Chance(40) {
					cut = 1 + c.Rng.Intn(len(block)-1)
				}
				fr.WriteHeaders(mhttp2.HeadersFrameParam{StreamID: 1, BlockFragment: block[:cut], EndHeaders: cut == len(block), EndStream: true})
				if cut < len(block) {
					fr.WriteContinuation(1, true, block[cut:])
				}
				if seen[w.String()] {
					continue
				}
				seen[w.String()] = true
				h2Case(c, w.Bytes(), "hpack-index")
			}
		}
	}
}
