//go:build verif

package c08

// Kind `disp`: ONE real server-side streamConn.Dispatch (pkg/stream/xprotocol/conn.go) of every xprotocol codec on a
// read buffer holding exactly the given bytes, behind an instrumented codec wrapper that records every Decode call
// (f<n> = frame, n bytes drained; n = need more; e<k> = error, k bytes drained; p = Decode panicked) and a watchdog:
//   - the wrapper unwinds Dispatch with a sentinel panic when the number of Decode calls exceeds len(bytes)+3
//     (a loop that makes no progress: outcome `runaway`, the trace shows the repeating step);
//   - a Dispatch that does not return within the budget is reported as `hang`, its goroutine is abandoned.
// Classes: valid pipelined frames (control); a failing frame alone (most failures drain nothing: bolt/boltv2 unknown
// command type, dubbo / dubbothrift / tars decodeFrame errors), a failure behind a Drain (bolt header block),
// a failing frame FOLLOWED by valid pipelined frames, valid frames followed by a failing frame followed by valid frames,
// truncated tails, steered random bytes.

import (
	"context"
	"encoding/binary"
	"fmt"
	"net"
	"strings"
	"sync"
	"time"

	"mosn.io/api"
	xstream "mosn.io/mosn/pkg/stream/xprotocol"
	"mosn.io/mosn/pkg/types"
	"mosn.io/pkg/buffer"
	"verif/harness/framegen"
	"verif/harness/hx"
)

type dispRec struct {
	mu      sync.Mutex
	steps   []string
	limit   int
	runaway bool
	closed  bool
}

type dispCodec struct {
	api.XProtocolCodec
	r *dispRec
}

func (w *dispCodec) NewXProtocol(ctx context.Context) api.XProtocol {
	return &dispProto{XProtocol: w.XProtocolCodec.NewXProtocol(ctx), r: w.r}
}

type dispProto struct {
	api.XProtocol
	r *dispRec
}

const dispSentinel = "verif: decode loop makes no progress"

func (p *dispProto) Decode(ctx context.Context, data api.IoBuffer) (f interface{}, err error) {
	p.r.mu.Lock()
	n := len(p.r.steps)
	p.r.mu.Unlock()
	if n >= p.r.limit {
		p.r.mu.Lock()
		p.r.runaway = true
		p.r.mu.Unlock()
		panic(dispSentinel)
	}
	before := data.Len()
	step := ""
	func() {
		defer func() {
			if r := recover(); r != nil {
				step = "p"
				p.r.mu.Lock()
				p.r.steps = append(p.r.steps, step)
				p.r.mu.Unlock()
				panic(r)
			}
		}()
		f, err = p.XProtocol.Decode(ctx, data)
	}()
	d := before - data.Len()
	switch {
	case err != nil:
		step = fmt.Sprintf("e%d", d)
	case f == nil:
		step = "n"
	default:
		step = fmt.Sprintf("f%d", d)
	}
	p.r.mu.Lock()
	p.r.steps = append(p.r.steps, step)
	p.r.mu.Unlock()
	return f, err
}

type dispConn struct {
	api.Connection
	r *dispRec
}

func (c *dispConn) ID() uint64                           { return 8 }
func (c *dispConn) LocalAddr() net.Addr                  { return &net.TCPAddr{} }
func (c *dispConn) RemoteAddr() net.Addr                 { return &net.TCPAddr{} }
func (c *dispConn) SetTransferEventListener(func() bool) {}
func (c *dispConn) Write(buf ...buffer.IoBuffer) error   { return nil }
func (c *dispConn) Close(api.ConnectionCloseType, api.ConnectionEvent) error {
	c.r.mu.Lock()
	c.r.closed = true
	c.r.mu.Unlock()
	return nil
}
func (c *dispConn) State() api.ConnState                                   { return api.ConnActive }
func (c *dispConn) AddConnectionEventListener(api.ConnectionEventListener) {}

type dispListener struct{}

func (dispListener) NewStreamDetect(ctx context.Context, sender types.StreamSender, span api.Span) types.StreamReceiveListener {
	return dispReceiver{}
}
func (dispListener) OnGoAway() {}

type dispReceiver struct{}

func (dispReceiver) OnReceive(ctx context.Context, headers types.HeaderMap, data types.IoBuffer, trailers types.HeaderMap) {
}
func (dispReceiver) OnDecodeError(ctx context.Context, err error, headers types.HeaderMap) {}

const dispBudget = 10 * time.Second

// dispOnce runs one Dispatch; returns the impl tokens.
func dispOnce(proto string, data []byte) (impl string, hang bool) {
	r := &dispRec{limit: len(data) + 4}
	fac := xstream.NewStreamFactory(&dispCodec{XProtocolCodec: framegen.Codec(proto), r: r})
	sc := fac.CreateServerStream(framegen.Ctx(), &dispConn{r: r}, dispListener{})
	buf := buffer.NewIoBuffer(len(data) + 16)
	buf.Write(data)
	done := make(chan bool, 1)
	go func() {
		_, p := hx.Safe(func() { sc.Dispatch(buf) })
		done <- p
	}()
	outcome := "ret"
	left := -1
	select {
	case p := <-done:
		left = buf.Len()
		if p {
			outcome = "panic"
		}
	case <-time.After(dispBudget):
		outcome = "hang"
		hang = true
	}
	r.mu.Lock()
	if r.runaway {
		outcome = "runaway"
	}
	trace := strings.Join(r.steps, ",")
	r.mu.Unlock()
	if trace == "" {
		trace = "-"
	}
	if hang {
		return fmt.Sprintf("%s %s -", outcome, trace), true
	}
	return fmt.Sprintf("%s %s %d", outcome, trace, left), false
}

// c08l9TarsLens: package lengths around both limits of TarsGo's TarsRequest (4 <= n <= 10485760), and the values that
// are negative as int32
var c08l9TarsLens = []uint32{0, 1, 2, 3, 4, 5, 10485759, 10485760, 10485761, 0x7fffffff, 0x80000000, 0xfffffffb, 0xffffffff}

func dispCases(c *hx.Ctx) {
	type job struct {
		proto, how string
		data       []byte
	}
	var jobs []job
	seen := map[string]bool{}
	add := func(proto string, data []byte, how string) {
		if len(data) > 4000 {
			return
		}
		k := proto + string(data)
		if seen[k] {
			return
		}
		seen[k] = true
		jobs = append(jobs, job{proto, how, append([]byte(nil), data...)})
	}
	cat := func(parts ...[]byte) []byte {
		var o []byte
		for _, p := range parts {
			o = append(o, p...)
		}
		return o
	}
	// fixed boundary cases first: an unknown command type (error, nothing drained) alone and in front of padding
	add("bolt", append([]byte{1, 9}, make([]byte, 20)...), "fixed")
	add("boltv2", append([]byte{2, 0, 9}, make([]byte, 21)...), "fixed")
	add("bolt", []byte{1}, "fixed")
	// [c08l9] tars length prefixes that can never become a package (TarsGo PACKAGE_ERROR: < 4 or > 10 MiB), at every
	// edge: alone, followed by bytes, followed by a valid package, behind a valid package
	{
		var tv framegen.Frame
		for {
			tv = framegen.Gen(c.Rng, "tars", true)
			if len(tv.Bytes) < 256 {
				break
			}
		}
		for _, v := range c08l9TarsLens {
			pre := make([]byte, 4)
			binary.BigEndian.PutUint32(pre, v)
			add("tars", pre, "tars-length")
			add("tars", cat(pre, []byte{0x10, 0x01, 0x2c, 0x3c}), "tars-length+bytes")
			add("tars", cat(pre, tv.Bytes), "tars-length+valid")
			add("tars", cat(tv.Bytes, pre, []byte{0x10, 0x01}), "valid+tars-length")
		}
	}
	for _, proto := range framegen.Protos {
		gen := func() framegen.Frame {
			for {
				f := framegen.Gen(c.Rng, proto, true)
				if proto == "tars" && len(f.Bytes) >= 256 {
					continue
				}
				return f
			}
		}
		for i := 0; i < c.N(10, 120); i++ {
			f, g, h := gen(), gen(), gen()
			add(proto, cat(f.Bytes, g.Bytes), "valid-pipelined")
			// failing frames: a length field corrupted, an unknown command / magic / type byte
			var bad [][]byte
			for _, fld := range f.Fields {
				for _, v := range []uint64{0, 1, 3, maxOf(fld.Width), fld.Value + 1} {
					bad = append(bad, setField(f.Bytes, fld, v))
				}
				if fld.Value > 0 {
					bad = append(bad, setField(f.Bytes, fld, fld.Value-1))
				}
			}
			for _, off := range []int{0, 1, 2, 3} {
				if off < len(f.Bytes) {
					m := append([]byte(nil), f.Bytes...)
					m[off] ^= byte(1 + c.Rng.Intn(255))
					if proto == "bolt" && off == 1 || proto == "boltv2" && off == 2 {
						m[off] = byte(3 + c.Rng.Intn(250)) // unknown command type: error, nothing drained
					}
					bad = append(bad, m)
				}
			}
			if proto != "tars" { // TarsGo loops for seconds on some corrupted payloads (known finding of kind dec)
				m := append([]byte(nil), f.Bytes...)
				m[c.Rng.Intn(len(m))] ^= byte(1 + c.Rng.Intn(255))
				bad = append(bad, m)
			}
			for _, b := range bad {
				add(proto, b, "bad")
				add(proto, cat(b, g.Bytes, h.Bytes), "bad+valid")
				if c.Rng.Chance(50) {
					add(proto, cat(g.Bytes, b, h.Bytes), "valid+bad+valid")
				}
			}
			// truncated tail behind valid frames
			k := c.Rng.Intn(len(f.Bytes))
			add(proto, cat(g.Bytes, f.Bytes[:k]), "valid+truncated")
		}
		if proto != "tars" {
			for i := 0; i < c.N(40, 600); i++ {
				b := c.Rng.Bytes(1 + c.Rng.Intn(60))
				if c.Rng.Chance(70) && len(b) > 8 {
					switch proto {
					case "bolt":
						b[0], b[1] = 1, byte(c.Rng.Intn(5))
					case "boltv2":
						b[0], b[2] = 2, byte(c.Rng.Intn(5))
					case "dubbo":
						b[0], b[1] = 0xda, 0xbb
					case "thrift":
						b[0], b[1], b[2] = 0, 0, 0
					}
				}
				add(proto, b, "random")
				add(proto, cat(b, framegen.Gen(c.Rng, proto, true).Bytes), "random+valid")
			}
		}
	}
	// bolt frames with a defective header block: the failure comes AFTER the frame was drained
	for i := 0; i < c.N(40, 500); i++ {
		f := framegen.Bolt(c.Rng, c.Rng.Bool(), true)
		if f.Kind == "hb" {
			continue
		}
		blk := badBlock(c.Rng)
		if len(blk) > 2000 {
			continue
		}
		hdrLen, classLen := f.Fields[1].Value, f.Fields[0].Value
		start := f.Fields[2].Off + 4 + int(classLen)
		nb := append([]byte(nil), f.Bytes[:start]...)
		nb = append(nb, blk...)
		nb = append(nb, f.Bytes[start+int(hdrLen):]...)
		binary.BigEndian.PutUint16(nb[f.Fields[1].Off:], uint16(len(blk)))
		add(f.Proto, nb, "bad-block")
		add(f.Proto, cat(nb, framegen.Gen(c.Rng, f.Proto, true).Bytes), "bad-block+valid")
	}

	// run: 8 at a time (a hanging case costs one watchdog period); after 3 hangs the kind stops
	type res struct {
		impl string
		hang bool
	}
	out := make([]res, len(jobs))
	var wg sync.WaitGroup
	sem := make(chan struct{}, 8)
	var hmu sync.Mutex
	hangs := 0
	for i := range jobs {
		hmu.Lock()
		stop := hangs >= 3
		hmu.Unlock()
		if stop {
			break
		}
		wg.Add(1)
		sem <- struct{}{}
		go func(i int) {
			defer wg.Done()
			defer func() { <-sem }()
			impl, hang := dispOnce(jobs[i].proto, jobs[i].data)
			out[i] = res{impl, hang}
			if hang {
				hmu.Lock()
				hangs++
				hmu.Unlock()
			}
		}(i)
	}
	wg.Wait()
	for i, j := range jobs {
		if out[i].impl == "" {
			continue
		}
		c.Emit("C08", fmt.Sprintf("disp %s %s", j.proto, hx.Hex(j.data)), out[i].impl)
		c.Count("disp." + j.how)
		toks := strings.Split(out[i].impl, " ")
		steps := strings.Split(toks[1], ",")
		last := steps[len(steps)-1]
		switch {
		case toks[0] != "ret":
			c.Count("disp.outcome." + toks[0])
		case last == "e0":
			c.Count("disp.last.error-nothing-drained")
		case strings.HasPrefix(last, "e"):
			c.Count("disp.last.error-after-drain")
		case last == "n":
			c.Count("disp.last.needmore")
		default:
			c.Count("disp.last.frame")
		}
		if strings.HasPrefix(last, "e") && toks[2] != "0" && toks[2] != "-" {
			c.Count("disp.error-with-bytes-behind")
		}
	}
}
