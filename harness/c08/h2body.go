//go:build verif

package c08

// [c08p10] kind `h2body`: the buffer in which the HTTP/2 STREAM layer (pkg/stream/http2/stream.go handleFrame, server and
// client side) collects a body that is not streamed (http2_use_stream off: the default).  One real stream connection;
// the peer sends HEADERS announcing a content-length (absent / matching / smaller / larger / 256 MiB / 2^31 / 2^32 /
// 2^63-1 / beyond int64 / negative / non-numeric / empty) without END_STREAM, then small DATA frames, the last one with
// or without END_STREAM.  Observed: the Dispatch outcome, the LENGTH and CAPACITY of the body buffer handed to the
// receiver (when the message is delivered), and the bytes the process allocated meanwhile (runtime TotalAlloc).
//   C08 h2body <srv|cli> <content-length as hex | none | match> <n1,n2,…> <end 0|1> => <ret|panic|hang> <len:cap | -> <small | <MiB>M>

import (
	"context"
	"fmt"
	"net/http"
	"runtime"
	"strings"
	"sync"
	"time"

	"mosn.io/api"
	mhttp2 "mosn.io/mosn/pkg/module/http2"
	"mosn.io/mosn/pkg/module/http2/hpack"
	phttp2 "mosn.io/mosn/pkg/protocol/http2"
	shttp2 "mosn.io/mosn/pkg/stream/http2"
	"mosn.io/mosn/pkg/types"
	"mosn.io/pkg/buffer"
	"verif/harness/framegen"
	"verif/harness/hx"
)

type c08pBodyRecv struct {
	mu        sync.Mutex
	delivered bool
	n, capa   int
}

func (r *c08pBodyRecv) OnReceive(ctx context.Context, headers api.HeaderMap, data buffer.IoBuffer, trailers api.HeaderMap) {
	r.mu.Lock()
	defer r.mu.Unlock()
	if data != nil && !r.delivered {
		r.delivered = true
		r.n, r.capa = data.Len(), data.Cap()
	}
}
func (r *c08pBodyRecv) OnDecodeError(context.Context, error, api.HeaderMap) {}

type c08pBodyListener struct{ r *c08pBodyRecv }

func (l c08pBodyListener) NewStreamDetect(ctx context.Context, sender types.StreamSender, span api.Span) types.StreamReceiveListener {
	return l.r
}
func (l c08pBodyListener) OnGoAway() {}

const c08pAllocSmall = 16 << 20

func c08pBody(side, cl string, hasCL bool, chunks []int, end bool) string {
	g := newH2dGen()
	g.hb.Reset()
	g.enc = hpack.NewEncoder(&g.hb)
	w := func(n, v string) { g.enc.WriteField(hpack.HeaderField{Name: n, Value: v}) }
	if side == "srv" {
		w(":method", "POST")
		w(":scheme", "http")
		w(":authority", "a.test")
		w(":path", "/b")
	} else {
		w(":status", "200")
	}
	if hasCL {
		w("content-length", cl)
	}
	g.fr.WriteHeaders(mhttp2.HeadersFrameParam{StreamID: 1, BlockFragment: append([]byte(nil), g.hb.Bytes()...), EndHeaders: true})
	data := g.take()
	for i, n := range chunks {
		g.fr.WriteData(1, end && i == len(chunks)-1, make([]byte, n))
		data = append(data, g.take()...)
	}
	recv := &c08pBodyRecv{}
	conn := &h2dConn{}
	ctx := framegen.Ctx()
	var dispatch func(buffer.IoBuffer)
	if _, p := hx.Safe(func() {
		if side == "srv" {
			sc := (&shttp2.StreamConnFactory{}).CreateServerStream(ctx, conn, c08pBodyListener{recv})
			sc.Dispatch(buffer.NewIoBufferBytes([]byte(mhttp2.ClientPreface)))
			dispatch = sc.Dispatch
		} else {
			cc := (&shttp2.StreamConnFactory{}).CreateClientStream(ctx, conn, dispListener{}, nil)
			if l, ok := cc.(api.ConnectionEventListener); ok {
				l.OnEvent(api.Connected)
			}
			rctx := framegen.Ctx()
			s := cc.NewStream(rctx, recv)
			h := phttp2.NewHeaderMap(http.Header{})
			h.Set("x-q", "1")
			_ = s.AppendHeaders(rctx, h, true)
			dispatch = cc.Dispatch
		}
	}); p || dispatch == nil {
		return "setup-panic - small"
	}
	buf := buffer.NewIoBuffer(len(data) + 16)
	buf.Write(data)
	var m0, m1 runtime.MemStats
	runtime.ReadMemStats(&m0)
	done := make(chan bool, 1)
	go func() {
		_, p := hx.Safe(func() { dispatch(buf) })
		done <- p
	}()
	outcome := "ret"
	select {
	case p := <-done:
		if p {
			outcome = "panic"
		}
	case <-time.After(dispBudget):
		return "hang - small"
	}
	runtime.ReadMemStats(&m1)
	alloc := "small"
	if d := m1.TotalAlloc - m0.TotalAlloc; d >= c08pAllocSmall {
		alloc = fmt.Sprintf("%dM", d>>20)
	}
	recv.mu.Lock()
	defer recv.mu.Unlock()
	body := "-"
	if recv.delivered {
		body = fmt.Sprintf("%d:%d", recv.n, recv.capa)
	}
	return fmt.Sprintf("%s %s %s", outcome, body, alloc)
}

func h2bodyCases(c *hx.Ctx) {
	seen := map[string]bool{}
	do := func(side, cl string, hasCL bool, chunks []int, end bool, how string) {
		tok := "none"
		if hasCL {
			tok = hx.Hex([]byte(cl))
		}
		var p []string
		for _, n := range chunks {
			p = append(p, fmt.Sprint(n))
		}
		e := 0
		if end {
			e = 1
		}
		k := fmt.Sprintf("%s %s %s %d", side, tok, strings.Join(p, ","), e)
		if seen[k] {
			return
		}
		seen[k] = true
		o := c08pBody(side, cl, hasCL, chunks, end)
		c.Emit("C08", "h2body "+k, o)
		c.Count("h2body." + how)
		c.Count("h2body.outcome." + strings.SplitN(o, " ", 2)[0])
		c.FlushNow()
	}
	chunkSets := [][]int{{1}, {0}, {1, 1}, {5, 3}, {64}, {65}, {100, 1000}, {1024, 1}, {3000, 3000, 3000}}
	for i := 0; i < c.N(3, 40); i++ {
		var cs []int
		for j := 1 + c.Rng.Intn(4); j > 0; j-- {
			cs = append(cs, c.Rng.Pick([]int{0, 1, 2, 63, 64, 65, 500, 1023, 1024, 1025, 4000, 9000}))
		}
		chunkSets = append(chunkSets, cs)
	}
	for _, side := range []string{"srv", "cli"} {
		for _, cs := range chunkSets {
			tot := 0
			for _, n := range cs {
				tot += n
			}
			for _, end := range []bool{true, false} {
				do(side, "", false, cs, end, "no-content-length")
				do(side, fmt.Sprint(tot), true, cs, end, "matching")
				if tot > 0 {
					do(side, fmt.Sprint(tot-1), true, cs, end, "smaller")
				}
				do(side, fmt.Sprint(tot+1), true, cs, end, "larger")
			}
		}
		// announced lengths far beyond what arrives (kept in increasing order: a sizing by the announcement shows at the first)
		for _, cl := range []string{"1048576", "268435456", "2147483648", "4294967296", "9223372036854775807", "99999999999999999999",
			"-1", "-5", "-9223372036854775808", "abc", "1x", "", " 5", "0x10", "1e9"} {
			for _, cs := range [][]int{{1}, {1, 1}, {700}} {
				for _, end := range []bool{false, true} {
					do(side, cl, true, cs, end, "announced")
				}
			}
		}
	}
}
