//go:build verif

package c08

import (
	"encoding/binary"
	"fmt"
	"io"
	"net"
	"os"
	"time"

	_ "mosn.io/mosn/pkg/filter/network/connectionmanager"
	_ "mosn.io/mosn/pkg/filter/network/proxy"
	_ "mosn.io/mosn/pkg/network"
	_ "mosn.io/mosn/pkg/router"
	_ "mosn.io/mosn/pkg/stream/xprotocol"
	"mosn.io/mosn/pkg/types"
	_ "mosn.io/mosn/pkg/upstream/cluster"
	"mosn.io/mosn/test/util"
	testmosn "mosn.io/mosn/test/util/mosn"
	"verif/harness/framegen"
	"verif/harness/hx"
)

// Containment run (support for the runtime half of C08): a real MOSN in this process — real listener on loopback,
// proxy filter with automatic detection among bolt/boltv2/dubbo/dubbo-thrift/tars, router, cluster manager, a bolt
// echo upstream — serves a probe client while other connections deliver malformed streams. After every malformed
// connection the probe must still be answered on its long-lived connection and on a fresh one.

func freeAddr() string {
	l, err := net.Listen("tcp", "127.0.0.1:0")
	if err != nil {
		panic(err)
	}
	a := l.Addr().String()
	l.Close()
	return a
}

func probeReq(id uint32) []byte {
	hdr := framegen.KV([][2][]byte{{[]byte("service"), []byte("svc")}})
	b := make([]byte, 22)
	b[0], b[1] = 1, 1
	binary.BigEndian.PutUint16(b[2:], 1)
	b[4] = 1
	binary.BigEndian.PutUint32(b[5:], id)
	b[9] = 1
	binary.BigEndian.PutUint32(b[10:], 3000)
	binary.BigEndian.PutUint16(b[16:], uint16(len(hdr)))
	binary.BigEndian.PutUint32(b[18:], 2)
	b = append(b, hdr...)
	return append(b, 'h', 'i')
}

func readBolt(c net.Conn, hl int, lenOff int) ([]byte, error) {
	h := make([]byte, hl)
	if _, err := io.ReadFull(c, h); err != nil {
		return nil, err
	}
	n := int(binary.BigEndian.Uint16(h[lenOff:])) + int(binary.BigEndian.Uint16(h[lenOff+2:])) + int(binary.BigEndian.Uint32(h[lenOff+4:]))
	rest := make([]byte, n)
	if _, err := io.ReadFull(c, rest); err != nil {
		return nil, err
	}
	return append(h, rest...), nil
}

func echoUpstream() string {
	l, err := net.Listen("tcp", "127.0.0.1:0")
	if err != nil {
		panic(err)
	}
	go func() {
		for {
			c, err := l.Accept()
			if err != nil {
				return
			}
			go func() {
				defer c.Close()
				for {
					req, err := readBolt(c, 22, 14)
					if err != nil {
						return
					}
					resp := make([]byte, 20)
					resp[0] = 1
					binary.BigEndian.PutUint16(resp[2:], 2)
					resp[4] = 1
					copy(resp[5:9], req[5:9])
					resp[9] = 1
					binary.BigEndian.PutUint32(resp[16:], 2)
					c.Write(append(resp, 'o', 'k'))
				}
			}()
		}
	}()
	return l.Addr().String()
}

func probe(c net.Conn, id uint32) error {
	c.SetDeadline(time.Now().Add(30 * time.Second))
	if _, err := c.Write(probeReq(id)); err != nil {
		return err
	}
	r, err := readBolt(c, 20, 12)
	if err != nil {
		return err
	}
	if binary.BigEndian.Uint32(r[5:9]) != id {
		return fmt.Errorf("response for another request id")
	}
	return nil
}

// isolatePaths points every file-system rendezvous of MOSN (hot-upgrade domain sockets, pid file, default log and
// conf directories — by default under /home/admin/mosn, shared by every MOSN on the machine) to a private directory:
// otherwise a second MOSN started at the same time believes it is the new generation of a hot upgrade.
func isolatePaths() {
	wd, err := os.Getwd()
	if err != nil {
		wd = os.TempDir()
	}
	dir, err := os.MkdirTemp(wd, "mosn-c08-")
	if err != nil {
		panic(err)
	}
	sep := string(os.PathSeparator)
	types.MosnBasePath = dir
	types.MosnLogBasePath = dir + sep + "logs"
	types.MosnLogDefaultPath = types.MosnLogBasePath + sep + "mosn.log"
	types.MosnLogProxyPath = types.MosnLogBasePath + sep + "proxy.log"
	types.MosnPidDefaultFileName = types.MosnLogBasePath + sep + "mosn.pid"
	types.MosnConfigPath = dir + sep + "conf"
	types.MosnUDSPath = types.MosnConfigPath
	types.ReconfigureDomainSocket = types.MosnUDSPath + sep + "reconfig.sock"
	types.TransferConnDomainSocket = types.MosnUDSPath + sep + "conn.sock"
	types.TransferStatsDomainSocket = types.MosnUDSPath + sep + "stats.sock"
	types.TransferListenDomainSocket = types.MosnUDSPath + sep + "listen.sock"
	types.TransferMosnconfigDomainSocket = types.MosnUDSPath + sep + "mosnconfig.sock"
}

func containRun(c *hx.Ctx) {
	util.MeshLogLevel = "FATAL"
	isolatePaths()
	up := echoUpstream()
	addr := freeAddr()
	cfg := util.CreateXProtocolProxyMesh(addr, []string{up}, "bolt,boltv2,dubbo,dubbo-thrift,tars")
	m := testmosn.NewMosn(cfg)
	m.Start()
	defer m.Close()
	var long net.Conn
	var err error
	for i := 0; i < 50; i++ {
		if long, err = net.Dial("tcp", addr); err == nil {
			break
		}
		time.Sleep(100 * time.Millisecond)
	}
	if err != nil {
		panic("containment: mosn listener not reachable: " + err.Error())
	}
	id := uint32(1)
	if err := probe(long, id); err != nil {
		panic("containment: probe fails before any malformed input: " + err.Error())
	}
	garbage := func(proto string) []byte {
		f := framegen.Gen(c.Rng, proto, true)
		b := append([]byte(nil), f.Bytes...)
		switch c.Rng.Intn(6) {
		case 0: // a length field corrupted
			fld := f.Fields[c.Rng.Intn(len(f.Fields))]
			b = setField(b, fld, []uint64{0, 1, 3, maxOf(fld.Width), fld.Value + 1, fld.Value + 5}[c.Rng.Intn(6)])
		case 1: // truncated
			b = b[:c.Rng.Intn(len(b))]
		case 2: // byte flip
			b[c.Rng.Intn(len(b))] ^= byte(1 + c.Rng.Intn(255))
		case 3: // valid frame followed by noise
			b = append(b, c.Rng.Bytes(1+c.Rng.Intn(40))...)
		case 4: // noise only
			b = c.Rng.Bytes(1 + c.Rng.Intn(60))
		case 5: // bolt frame with a defective header block
			if proto == "bolt" || proto == "boltv2" {
				blk := badBlock(c.Rng)
				g := framegen.Bolt(c.Rng, proto == "boltv2", true)
				if g.Kind != "hb" && len(blk) < 60000 {
					start := g.Fields[2].Off + 4 + int(g.Fields[0].Value)
					nb := append([]byte(nil), g.Bytes[:start]...)
					nb = append(nb, blk...)
					nb = append(nb, g.Bytes[start+int(g.Fields[1].Value):]...)
					binary.BigEndian.PutUint16(nb[g.Fields[1].Off:], uint16(len(blk)))
					b = nb
				}
			}
		}
		return b
	}
	for i := 0; i < c.N(250, 2500); i++ {
		proto := framegen.Protos[c.Rng.Intn(len(framegen.Protos))]
		g := garbage(proto)
		out := "ok"
		gc, err := net.Dial("tcp", addr)
		if err != nil {
			out = "dial-failed"
		} else {
			if len(g) > 1 && c.Rng.Bool() { // two segments
				k := 1 + c.Rng.Intn(len(g)-1)
				gc.Write(g[:k])
				gc.Write(g[k:])
			} else {
				gc.Write(g)
			}
			if c.Rng.Bool() { // wait for the proxy's reaction (close or reply) a little
				gc.SetReadDeadline(time.Now().Add(20 * time.Millisecond))
				io.Copy(io.Discard, gc)
			}
			gc.Close()
		}
		id++
		if err := probe(long, id); err != nil {
			out = "probe-failed-on-open-connection"
		} else if i%5 == 0 {
			fc, err := net.Dial("tcp", addr)
			if err != nil {
				out = "probe-dial-failed"
			} else {
				id++
				if err := probe(fc, id); err != nil {
					out = "probe-failed-on-new-connection"
				}
				fc.Close()
			}
		}
		c.Emit("C08", fmt.Sprintf("contain %s %s", proto, hx.Hex(g)), out)
		c.Count("contain." + proto)
		if out != "ok" {
			c.Count("contain.FAILED")
			break
		}
	}
	long.Close()
}
