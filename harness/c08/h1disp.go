//go:build verif

package c08

// Kind `h1disp`: the HTTP/1 read path of pkg/stream/http. The REAL serverStreamConnection (Dispatch -> bufChan/endRead
// pipe -> bufio.Reader -> serve() goroutine parsing with fasthttp) runs on a recording api.Connection, the REAL
// clientStreamConnection with one request in flight likewise. The bytes of a case are handed to Dispatch segment by
// segment (each under hx.Safe and a watchdog), then the harness waits until the serve goroutine of THIS connection
// (found in the goroutine dump) is gone or parked, notes what was observed, delivers the peer's close
// (RemoteClose -> Reset) and waits for the goroutine to end.
//
//   h1disp <srv|cli> <L> <B> <bytes> <script> <head> => <ev1> <state1> <ev2> <leak> <disp>
//
// L = configured max header size (0: not configured), B = configured max request body size (0: not configured).
// <bytes>: segments joined by '.', each a list of '_'-joined pieces: hex or r<hh>x<N> (N times byte hh).
// <script>: what the black box (fasthttp on a bufio.Reader of the documented size, run by the harness on the whole input,
//   the end of the input answering io.EOF) answers call by call: m<n>[x][c] a message that consumed n bytes (x: after
//   `Expect: 100-continue`, c: it asks for the connection to be closed), n[x]:q / n[x]:l the call ran into the end of the
//   input (blocks; when the peer closes it fails quietly / loudly), e[x] it failed before the end, p[x] it panicked.
// <head>: length of the first message head when the generator knows it (h<k>), else '-'.
// ev: q request / response delivered to the proxy, r response written, c `100 Continue` written, b `400` written,
//   x Close called by MOSN, g OnGoAway, t<reason> stream reset, runaway (more writes than bytes received).
// state1: wait (serve blocked in Read) | gone | idle (blocked in its select) | busy (still running after the settle time)
// leak: l0 / l1 = serve goroutine still alive after the peer's close and the settle time.
// disp: dret all Dispatch calls returned before the close | dblk one was blocked until the close | hang | panic

import (
	"bufio"
	"bytes"
	"context"
	"fmt"
	"io"
	"net"
	"runtime"
	"strconv"
	"strings"
	"sync"
	"time"

	"github.com/valyala/fasthttp"
	"mosn.io/api"
	"mosn.io/mosn/pkg/protocol"
	mosnhttp "mosn.io/mosn/pkg/protocol/http"
	shttp "mosn.io/mosn/pkg/stream/http"
	"mosn.io/mosn/pkg/types"
	"mosn.io/pkg/buffer"
	"mosn.io/pkg/variable"
	"verif/harness/hx"
)

const h1iDefaultHead = 8192 // documented default of max_header_size (8 KiB)

type h1iSentinel struct{}

type h1iConn struct {
	api.Connection
	mu        sync.Mutex
	ev        []string
	closed    bool
	listeners []api.ConnectionEventListener
	writes    int
	limit     int
}

func (c *h1iConn) ID() uint64                           { return 81 }
func (c *h1iConn) LocalAddr() net.Addr                  { return &net.TCPAddr{} }
func (c *h1iConn) RemoteAddr() net.Addr                 { return &net.TCPAddr{} }
func (c *h1iConn) RawConn() net.Conn                    { return nil }
func (c *h1iConn) SetTransferEventListener(func() bool) {}
func (c *h1iConn) Connect() error                       { return nil }
func (c *h1iConn) SetMark(uint32)                       {}
func (c *h1iConn) SetReadDisable(bool)                  {}
func (c *h1iConn) AddConnectionEventListener(l api.ConnectionEventListener) {
	c.mu.Lock()
	c.listeners = append(c.listeners, l)
	c.mu.Unlock()
}
func (c *h1iConn) State() api.ConnState {
	c.mu.Lock()
	defer c.mu.Unlock()
	if c.closed {
		return api.ConnClosed
	}
	return api.ConnActive
}
func (c *h1iConn) add(e string) {
	c.mu.Lock()
	c.ev = append(c.ev, e)
	c.mu.Unlock()
}

// deliver: the connection's close event reaches the listeners once (network.connection.Close is idempotent)
func (c *h1iConn) deliver(ev api.ConnectionEvent) bool {
	c.mu.Lock()
	was := c.closed
	c.closed = true
	ls := append([]api.ConnectionEventListener(nil), c.listeners...)
	c.mu.Unlock()
	if was {
		return false
	}
	for _, l := range ls {
		l.OnEvent(ev)
	}
	return true
}
func (c *h1iConn) Close(t api.ConnectionCloseType, ev api.ConnectionEvent) error {
	c.add("x")
	c.deliver(ev)
	return nil
}
func (c *h1iConn) Write(bufs ...buffer.IoBuffer) error {
	var all []byte
	for _, b := range bufs {
		all = append(all, b.Bytes()...)
	}
	c.mu.Lock()
	c.writes++
	over := c.writes > c.limit
	c.mu.Unlock()
	if over {
		c.add("runaway")
		panic(h1iSentinel{})
	}
	switch {
	case bytes.Equal(all, []byte("HTTP/1.1 400 Bad Request\r\n\r\n")):
		c.add("b")
	case bytes.Equal(all, []byte("HTTP/1.1 100 Continue\r\n\r\n")):
		c.add("c")
	case bytes.HasPrefix(all, []byte("HTTP/1.1 ")):
		c.add("r")
	default:
		c.add("w") // the client's request
	}
	return nil
}
func (c *h1iConn) cut() string {
	c.mu.Lock()
	defer c.mu.Unlock()
	o := "-"
	if len(c.ev) > 0 {
		o = strings.Join(c.ev, ",")
	}
	c.ev = nil
	return o
}

// server side: the proxy answers every request at once (200, no body)
type h1iListener struct{ conn *h1iConn }

func (l *h1iListener) NewStreamDetect(ctx context.Context, sender types.StreamSender, span api.Span) types.StreamReceiveListener {
	return &h1iReceiver{conn: l.conn, sender: sender}
}
func (l *h1iListener) OnGoAway() { l.conn.add("g") }

type h1iReceiver struct {
	conn   *h1iConn
	sender types.StreamSender
}

func (r *h1iReceiver) OnReceive(ctx context.Context, headers api.HeaderMap, data buffer.IoBuffer, trailers api.HeaderMap) {
	r.conn.add("q")
	if r.sender != nil {
		h := mosnhttp.ResponseHeader{ResponseHeader: &fasthttp.ResponseHeader{}}
		r.sender.AppendHeaders(ctx, h, true)
	}
}
func (r *h1iReceiver) OnDecodeError(context.Context, error, api.HeaderMap) {}
func (r *h1iReceiver) OnResetStream(reason types.StreamResetReason)      { r.conn.add("t" + string(reason)) }
func (r *h1iReceiver) OnDestroyStream()                                  {}

// --- the goroutine dump

var h1iStackBuf = make([]byte, 1<<18)

func h1iGoroutines(marker string) map[string]string {
	var buf []byte
	for {
		n := runtime.Stack(h1iStackBuf, true)
		if n < len(h1iStackBuf) {
			buf = h1iStackBuf[:n]
			break
		}
		h1iStackBuf = make([]byte, 2*len(h1iStackBuf))
	}
	out := map[string]string{}
	for _, blk := range strings.Split(string(buf), "\n\n") {
		if !strings.Contains(blk, marker) {
			continue
		}
		f := strings.Fields(blk)
		if len(f) >= 2 && f[0] == "goroutine" {
			out[f[1]] = blk
		}
	}
	return out
}

// h1iState: state of the serve goroutine that is not in `before`
func h1iState(marker string, before map[string]string) string {
	for id, blk := range h1iGoroutines(marker) {
		if _, old := before[id]; old {
			continue
		}
		head := blk
		if i := strings.Index(blk, "\n"); i >= 0 {
			head = blk[:i]
		}
		switch {
		case strings.Contains(blk, "streamConnection).Read(") && strings.Contains(head, "[chan receive"):
			return "wait"
		case strings.Contains(head, "[select"):
			return "idle"
		}
		return "busy"
	}
	return "gone"
}

func h1iSettle(marker string, before map[string]string, want func(string) bool, budget time.Duration) string {
	deadline := time.Now().Add(budget)
	st, stable := "", 0
	for {
		s := h1iState(marker, before)
		if s == st {
			stable++
		} else {
			st, stable = s, 0
		}
		if want(st) && (st == "gone" || stable >= 1) {
			return st
		}
		if time.Now().After(deadline) {
			return st
		}
		if stable > 20 {
			time.Sleep(time.Millisecond)
		} else {
			time.Sleep(150 * time.Microsecond)
		}
	}
}

// --- the black box run by the harness on the whole input

// h1iSrc answers like streamConnection.Read: at most the rest of ONE Dispatch buffer per call (what fasthttp makes of a
// message can depend on how it arrives: a folded header line cut in two is refused, the whole is accepted)
type h1iSrc struct {
	segs [][]byte
	cur  int
	off  int
	pos  int // bytes handed out
	hit  bool
}

func (s *h1iSrc) Read(p []byte) (int, error) {
	for s.cur < len(s.segs) && s.off >= len(s.segs[s.cur]) {
		s.cur++
		s.off = 0
	}
	if s.cur >= len(s.segs) {
		s.hit = true
		return 0, io.EOF
	}
	n := copy(p, s.segs[s.cur][s.off:])
	s.off += n
	s.pos += n
	return n, nil
}

func h1iEff(L int) int {
	if L <= 0 {
		return h1iDefaultHead
	}
	return L
}

func h1iRef(side string, segs [][]byte, L, B int) string {
	var data []byte
	for _, g := range segs {
		data = append(data, g...)
	}
	src := &h1iSrc{segs: segs}
	br := bufio.NewReaderSize(src, h1iEff(L))
	var pre, post []string
	ended := false // the reader has answered io.EOF: the real call blocks there; what follows is what the peer's close makes of it
	for calls := 0; calls <= len(data)+2; calls++ {
		start := src.pos - br.Buffered()
		var err error
		cont, cl := false, false
		_, panicked := hx.Safe(func() {
			if side == "srv" {
				req := &fasthttp.Request{}
				err = req.ReadLimitBody(br, B)
				if err == nil && req.MayContinue() {
					cont = true
					err = req.ContinueReadBody(br, B, false)
				}
				cl = req.Header.ConnectionClose()
			} else {
				resp := &fasthttp.Response{}
				err = resp.Read(br)
				cl = resp.ConnectionClose()
			}
		})
		x := ""
		if cont {
			x = "x"
		}
		if src.hit && !ended {
			ended = true
			pre = append(pre, "n"+x)
			x = ""
		}
		tok, stop := "", true
		switch {
		case panicked:
			tok = "p" + x
		case err == nil:
			tok = fmt.Sprintf("m%d%s", src.pos-br.Buffered()-start, x)
			if cl {
				tok += "c"
			}
			stop = side == "cli" || (cl && !ended)
			if cl && !ended && side == "srv" {
				tok += fmt.Sprintf(",rest%d", len(data)-(src.pos-br.Buffered()))
			}
		case ended:
			_, nothing := err.(fasthttp.ErrNothingRead)
			if err == io.EOF || nothing {
				tok = "q"
			} else {
				tok = "l"
			}
		default:
			tok = "e" + x
		}
		if ended {
			post = append(post, tok)
		} else {
			pre = append(pre, tok)
		}
		if stop {
			break
		}
	}
	j := func(l []string) string {
		if len(l) == 0 {
			return "-"
		}
		return strings.Join(l, ",")
	}
	return j(pre) + "|" + j(post)
}

// --- one case

const h1iSrvMarker = "serverStreamConnection).serve"
const h1iCliMarker = "clientStreamConnection).serve"

type h1iOut struct {
	impl      string
	bad       bool // hang / busy / leak: the kind stops after 3
	state1    string
	ev1, disp string
}

func h1iOnce(side string, L, B int, segs [][]byte, settle time.Duration) h1iOut {
	total := 0
	for _, s := range segs {
		total += len(s)
	}
	conn := &h1iConn{limit: total + 8}
	marker := h1iSrvMarker
	if side == "cli" {
		marker = h1iCliMarker
	}
	before := h1iGoroutines(marker)
	ctx := variable.NewVariableContext(context.Background())
	var dispatch func(buffer.IoBuffer)
	var reset func()
	setup := "ok"
	if _, p := hx.Safe(func() {
		if side == "srv" {
			if L != 0 || B != 0 {
				_ = variable.Set(ctx, types.VariableProxyGeneralConfig, map[api.ProtocolName]interface{}{
					protocol.HTTP1: shttp.StreamConfig{MaxHeaderSize: L, MaxRequestBodySize: B}})
			}
			sc := (&shttp.StreamConnFactory{}).CreateServerStream(ctx, conn, &h1iListener{conn: conn})
			dispatch = sc.Dispatch
			reset = func() { conn.deliver(api.RemoteClose) }
		} else {
			if L != 0 {
				_ = variable.Set(ctx, types.VariableProxyGeneralConfig, map[api.ProtocolName]interface{}{
					protocol.HTTP1: map[string]interface{}{"max_header_size": float64(L)}})
			}
			cc := (&shttp.StreamConnFactory{}).CreateClientStream(ctx, conn, &h1iListener{conn: conn}, nil)
			rctx := buffer.NewBufferPoolContext(variable.NewVariableContext(ctx))
			rc := &h1iReceiver{conn: conn}
			s := cc.NewStream(rctx, rc)
			s.GetStream().AddEventListener(rc)
			variable.SetString(rctx, types.VarPath, "/c")
			variable.SetString(rctx, types.VarPathOriginal, "/c")
			variable.SetString(rctx, types.VarHost, "c08.test")
			h := mosnhttp.RequestHeader{RequestHeader: &fasthttp.RequestHeader{}}
			_ = s.AppendHeaders(rctx, h, true)
			dispatch = cc.Dispatch
			// the stream client (pkg/stream/client.go OnEvent) hands the connection's close to Reset
			reset = func() {
				if conn.deliver(api.RemoteClose) {
					cc.Reset(types.UpstreamReset)
				}
			}
			conn.cut() // the request written
		}
	}); p {
		setup = "setup-panic"
	}
	if setup != "ok" {
		return h1iOut{impl: setup + " - - l0 -", bad: true}
	}
	// the serve goroutine was started with `go`: wait until it runs (it is identified by its frames)
	for i := 0; i < 2000 && h1iState(marker, before) == "gone"; i++ {
		time.Sleep(50 * time.Microsecond)
	}
	disp := "dret"
	var blocked chan bool
	for _, seg := range segs {
		if disp != "dret" {
			break
		}
		buf := buffer.NewIoBufferBytes(append([]byte(nil), seg...))
		done := make(chan bool, 1)
		go func() {
			_, p := hx.Safe(func() { dispatch(buf) })
			done <- p
		}()
		// a Dispatch that has handed all its bytes over returns; one that is not being read from stays blocked
		select {
		case p := <-done:
			if p {
				disp = "panic"
			}
		case <-time.After(3 * time.Millisecond):
			deadline := time.Now().Add(2 * time.Second)
			last := ""
		wait:
			for {
				select {
				case p := <-done:
					if p {
						disp = "panic"
					}
					break wait
				case <-time.After(2 * time.Millisecond):
					// nobody reads any more? (serve gone or parked in its select, not in Read)
					st := h1iState(marker, before)
					if (st == "gone" || st == "idle") && st == last || time.Now().After(deadline) {
						disp = "dblk"
						blocked = done
						break wait
					}
					last = st
				}
			}
		}
	}
	// (a parser that allocates 2 GiB for an announced length keeps serve running for seconds)
	state1 := h1iSettle(marker, before, func(s string) bool { return s != "busy" && s != "" }, settle)
	if state1 == "gone" && conn.State() != api.ConnClosed {
		// a serve goroutine that died of a panic is followed by its recover handler on another goroutine
		time.Sleep(4 * time.Millisecond)
	}
	ev1 := conn.cut()
	// the peer closes
	hx.Safe(reset)
	leak := "l0"
	if st := h1iSettle(marker, before, func(s string) bool { return s == "gone" }, 1500*time.Millisecond); st != "gone" {
		leak = "l1"
	}
	if blocked != nil {
		select {
		case p := <-blocked:
			if p {
				disp = "panic"
			}
		case <-time.After(1500 * time.Millisecond):
			disp = "hang"
		}
	}
	ev2 := conn.cut()
	o := h1iOut{state1: state1, ev1: ev1, disp: disp}
	o.impl = fmt.Sprintf("%s %s %s %s %s", ev1, state1, ev2, leak, disp)
	o.bad = disp == "hang" || leak == "l1" || state1 == "busy"
	return o
}

// --- rendering

func h1iPieces(b []byte) string {
	if len(b) == 0 {
		return "-"
	}
	var out []string
	start, i := 0, 0
	for i < len(b) {
		j := i
		for j < len(b) && b[j] == b[i] {
			j++
		}
		if j-i >= 32 {
			if i > start {
				out = append(out, hx.Hex(b[start:i]))
			}
			out = append(out, fmt.Sprintf("r%02xx%d", b[i], j-i))
			start = j
		}
		i = j
	}
	if start < len(b) {
		out = append(out, hx.Hex(b[start:]))
	}
	return strings.Join(out, "_")
}

func h1iTok(segs [][]byte) string {
	var s []string
	for _, g := range segs {
		s = append(s, h1iPieces(g))
	}
	return strings.Join(s, ".")
}

// --- generators

func h1iMsg(first string, hdrs []string, body string) []byte {
	var b bytes.Buffer
	b.WriteString(first + "\r\n")
	for _, h := range hdrs {
		b.WriteString(h + "\r\n")
	}
	b.WriteString("\r\n")
	b.WriteString(body)
	return b.Bytes()
}

func h1iValidReq(r *hx.Rng, i int) []byte {
	switch r.Intn(4) {
	case 0:
		return h1iMsg(fmt.Sprintf("GET /v/%d HTTP/1.1", i), []string{"Host: c08.test", "X-K: " + strings.Repeat("v", r.Intn(20))}, "")
	case 1:
		n := 1 + r.Intn(40)
		return h1iMsg(fmt.Sprintf("POST /v/%d HTTP/1.1", i), []string{"Host: c08.test", "Content-Length: " + strconv.Itoa(n)}, strings.Repeat("b", n))
	case 2:
		n := 1 + r.Intn(30)
		return h1iMsg(fmt.Sprintf("POST /v/%d HTTP/1.1", i), []string{"Host: c08.test", "Transfer-Encoding: chunked"},
			fmt.Sprintf("%x\r\n%s\r\n0\r\n\r\n", n, strings.Repeat("c", n)))
	}
	return h1iMsg(fmt.Sprintf("HEAD /v/%d HTTP/1.1", i), []string{"Host: c08.test"}, "")
}

func h1iValidResp(r *hx.Rng) []byte {
	switch r.Intn(3) {
	case 0:
		return h1iMsg("HTTP/1.1 200 OK", []string{"Content-Length: 0"}, "")
	case 1:
		n := 1 + r.Intn(40)
		return h1iMsg("HTTP/1.1 200 OK", []string{"Content-Length: " + strconv.Itoa(n), "X-K: v"}, strings.Repeat("b", n))
	}
	n := 1 + r.Intn(30)
	return h1iMsg("HTTP/1.1 200 OK", []string{"Transfer-Encoding: chunked"}, fmt.Sprintf("%x\r\n%s\r\n0\r\n\r\n", n, strings.Repeat("c", n)))
}

// h1iHead: a message head of exactly n bytes (n >= 60)
func h1iHead(side string, n int) []byte {
	first := "GET /big HTTP/1.1"
	fixed := []string{"Host: c08.test"}
	if side == "cli" {
		first = "HTTP/1.1 200 OK"
		fixed = []string{"Content-Length: 0"}
	}
	base := len(h1iMsg(first, append(fixed, "X-Pad: "), ""))
	if n < base {
		n = base
	}
	return h1iMsg(first, append(fixed, "X-Pad: "+strings.Repeat("a", n-base)), "")
}

var h1iBadFirst = []string{
	"GET", "GET /", "GET / ", " / HTTP/1.1", "GET / HTTP/1.1 extra", "G\x00ET / HTTP/1.1", "get / http/1.1",
	"GET  / HTTP/1.1", "GET / HTTP/9.9", "GET / HTTP/1.0", "GET / HTP/1.1", "/ GET HTTP/1.1", "GET\t/\tHTTP/1.1",
	"VERYLONGMETHODNAMEVERYLONGMETHODNAME / HTTP/1.1", "GET http://[::1/ HTTP/1.1", "GET /\x00 HTTP/1.1", "\x00", "",
	"GET / HTTP/1.1\x00", "\x16\x03\x01\x02\x00\x01", "PRI * HTTP/2.0", "CONNECT", "GET /%zz HTTP/1.1", "GET /\xff\xfe HTTP/1.1",
}

var h1iBadStatus = []string{
	"HTTP/1.1", "HTTP/1.1 ", "HTTP/1.1 abc OK", "HTTP/1.1 -1 OK", "HTTP/1.1 99999999999999999999 OK", "HTTP/9.9 200 OK",
	"200 OK", "HTTP/1.1 200", "HTTP/1.1\x00200 OK", "", "\x00", "HTP/1.1 200 OK", "GET / HTTP/1.1", "HTTP/1.1 2 0 0 OK",
}

var h1iBadHeader = []string{
	"Host", "NoColonHere", " leading-space: v", "Key : v", ": v", "K\x00ey: v", "Key: v\x00w", "Key: a\r\n continued",
	"Key: a\r\n\tcontinued", "Key: v\rX: y", "Key", "Key:", ":", "Ke y: v", "\x7f: v", "Transfer-Encoding: bogus",
	"Transfer-Encoding: chunked, identity", "Connection: close", "Connection: \x00", "Expect: 100-continue", "Expect: 200-ok",
}

var h1iBadCL = []string{
	"-1", "-0", "+5", "abc", "5abc", "", " 5", "5 ", "18446744073709551616", "9223372036854775807", "9223372036854775808",
	"99999999999999999999", "0x10", "5, 5", "5\x00", "4294967296", "4294967295", "2147483649", "00000000000000000005", "1e3",
}

var h1iBadChunk = []string{
	"zz\r\nab\r\n0\r\n\r\n", "-1\r\nab\r\n0\r\n\r\n", "1g\r\na\r\n0\r\n\r\n", "\r\nab\r\n0\r\n\r\n", "FFFFFFFFFFFFFFFFFF\r\nab\r\n",
	"7fffffffffffffff\r\nab\r\n", "80000001\r\nab\r\n", "100000000\r\nab\r\n", "2\r\nabXX0\r\n\r\n", "2\r\nab\n0\r\n\r\n", "2;ext=1\r\nab\r\n0\r\n\r\n", "2\nab\n0\n\n",
	"2\r\nab\r\n0\r\nBadTrailer\r\n\r\n", "2\r\nab\r\n0\r\nT: v\r\n\r\n", "0x2\r\nab\r\n0\r\n\r\n", " 2\r\nab\r\n0\r\n\r\n", "2 \r\nab\r\n0\r\n\r\n", "00000000000000002\r\nab\r\n0\r\n\r\n",
	"2\r\na\x00\r\n0\r\n\r\n", "0\r\n", "0\r\n\r", "\x00\r\n",
}

type h1iJob struct {
	side, how, head string
	L, B            int
	segs            [][]byte
}

func h1dispCases(c *hx.Ctx) {
	saved := c.Rng
	c.Rng = hx.NewRng(c.Seed*0x9E3779B97F4A7C15 + 0xc081)
	defer func() { c.Rng = saved }()
	r := c.Rng
	var jobs []h1iJob
	seen := map[string]bool{}
	add := func(side string, L, B int, head string, how string, segs ...[]byte) {
		if side == "srv" && B != 0 && L == 0 {
			L = h1iDefaultHead // a StreamConfig replaces the default as a whole: MaxHeaderSize 0 would mean a 16-byte reader
		}
		k := fmt.Sprintf("%s %d %d %s", side, L, B, h1iTok(segs))
		if seen[k] {
			return
		}
		seen[k] = true
		cp := make([][]byte, len(segs))
		for i, s := range segs {
			cp[i] = append([]byte(nil), s...)
		}
		jobs = append(jobs, h1iJob{side: side, how: how, head: head, L: L, B: B, segs: cp})
	}
	cat := func(parts ...[]byte) []byte {
		var o []byte
		for _, p := range parts {
			o = append(o, p...)
		}
		return o
	}
	for _, side := range []string{"srv", "cli"} {
		valid := func(i int) []byte {
			if side == "srv" {
				return h1iValidReq(r, i)
			}
			return h1iValidResp(r)
		}
		bad1 := h1iBadFirst
		if side == "cli" {
			bad1 = h1iBadStatus
		}
		first := "POST /m HTTP/1.1"
		if side == "cli" {
			first = "HTTP/1.1 200 OK"
		}
		around := func(how string, L, B int, bad []byte) {
			add(side, L, B, "-", how, bad)
			add(side, L, B, "-", how+"+valid", cat(bad, valid(1)))
			add(side, L, B, "-", "valid+"+how+"+valid", cat(valid(1), bad, valid(2)))
			if len(bad) > 1 {
				k := 1 + r.Intn(len(bad)-1)
				add(side, L, B, "-", how+"/2seg", bad[:k], cat(bad[k:], valid(3)))
			}
		}
		// valid pipelines
		for i := 0; i < c.N(12, 120); i++ {
			var all []byte
			for j := 1 + r.Intn(4); j > 0; j-- {
				all = append(all, valid(j)...)
			}
			add(side, 0, 0, "-", "valid", all)
			k := r.Intn(len(all))
			add(side, 0, 0, "-", "valid/2seg", all[:k], all[k:])
		}
		// truncated at every offset of small valid messages
		for i := 0; i < c.N(3, 12); i++ {
			m := valid(i)
			if i == 0 && side == "srv" {
				m = h1iMsg("POST /t HTTP/1.1", []string{"Host: a", "Expect: 100-continue", "Content-Length: 5"}, "hello")
			}
			for k := 0; k <= len(m); k++ {
				add(side, 0, 0, "-", "truncated", m[:k])
				if c.Thorough() || k%5 == 0 {
					add(side, 0, 0, "-", "truncated/2seg", m[:k], m[k:])
					add(side, 0, 0, "-", "valid+truncated", cat(valid(9), m[:k]))
				}
			}
		}
		// malformed first lines
		for _, f := range bad1 {
			around("bad-first-line", 0, 0, h1iMsg(f, []string{"Host: c08.test"}, ""))
		}
		// header lines without colon, NUL, folding, bare CR
		for _, h := range h1iBadHeader {
			fl := "GET /h HTTP/1.1"
			if side == "cli" {
				fl = "HTTP/1.1 200 OK"
			}
			around("bad-header", 0, 0, h1iMsg(fl, []string{"Host: c08.test", h, "Content-Length: 0"}, ""))
		}
		// bare LF line ends
		{
			m := valid(1)
			around("bare-lf", 0, 0, bytes.ReplaceAll(m, []byte("\r\n"), []byte("\n")))
			around("bare-cr", 0, 0, bytes.ReplaceAll(m, []byte("\r\n"), []byte("\r")))
			around("leading-crlf", 0, 0, cat([]byte("\r\n\r\n"), m))
		}
		// Content-Length
		// NOTE: with no body limit (server default, client always) fasthttp allocates for the announced length: 2 GiB and a
		// panic for anything above 2^31 — ONE such case per side (the recover handler of serve), the others under a limit
		huge := func(v string, base int) bool {
			n, err := strconv.ParseUint(strings.TrimSpace(v), base, 64)
			return err == nil && n >= 1<<26
		}
		for _, v := range h1iBadCL {
			m := h1iMsg(first, []string{"Host: c08.test", "Content-Length: " + v}, "hello")
			if !huge(v, 10) {
				around("bad-content-length", 0, 0, m)
			} else if v == "9223372036854775807" {
				add(side, 0, 0, "-", "huge-content-length-no-limit", m)
			}
			if side == "srv" {
				around("bad-content-length", 0, 16, m)
			}
		}
		around("two-content-lengths", 0, 0, h1iMsg(first, []string{"Content-Length: 5", "Content-Length: 6"}, "hello!"))
		around("cl+chunked", 0, 0, h1iMsg(first, []string{"Content-Length: 5", "Transfer-Encoding: chunked"}, "2\r\nab\r\n0\r\n\r\n"))
		// chunk sizes
		for _, ch := range h1iBadChunk {
			m := h1iMsg(first, []string{"Host: c08.test", "Transfer-Encoding: chunked"}, ch)
			if !huge(ch[:strings.IndexAny(ch+"\r", "\r\n;")], 16) {
				around("bad-chunk", 0, 0, m)
			}
			if side == "srv" {
				around("bad-chunk", 0, 16, m)
			}
		}
		// heads at the limit
		for _, L := range []int{64, 256, 0, 1000} {
			eff := h1iEff(L)
			if side == "cli" && L == 1000 {
				continue
			}
			for _, n := range []int{eff - 1, eff, eff + 1, eff + 2, 2*eff + 7} {
				if L == 0 && !c.Thorough() && n > eff+1 {
					continue
				}
				h := h1iHead(side, n)
				ht := fmt.Sprintf("h%d", len(h))
				add(side, L, 0, ht, "head-at-limit", h)
				add(side, L, 0, ht, "head-at-limit+valid", cat(h, valid(1)))
				add(side, L, 0, ht, "head-at-limit/2seg", h[:len(h)/2], h[len(h)/2:])
				add(side, L, 0, ht, "head-at-limit/cut", h[:len(h)-1])
				if side == "srv" {
					add(side, L, 0, "-", "valid+head-at-limit", cat(valid(1), h))
				}
			}
			// a head that never ends
			add(side, L, 0, fmt.Sprintf("h%d", 3*eff), "endless-head", cat([]byte("GET /"), bytes.Repeat([]byte("a"), 3*eff)))
		}
		// body limits (server only: the client reads responses without a limit)
		if side == "srv" {
			for _, n := range []int{15, 16, 17, 100} {
				body := strings.Repeat("b", n)
				around("body-at-limit", 0, 16, h1iMsg(first, []string{"Host: a", "Content-Length: " + strconv.Itoa(n)}, body))
				around("chunked-at-limit", 0, 16, h1iMsg(first, []string{"Host: a", "Transfer-Encoding: chunked"}, fmt.Sprintf("%x\r\n%s\r\n0\r\n\r\n", n, body)))
				around("expect-at-limit", 0, 16, h1iMsg(first, []string{"Host: a", "Expect: 100-continue", "Content-Length: " + strconv.Itoa(n)}, body))
			}
		}
		// NUL bytes and byte flips of valid pipelines, random bytes
		for i := 0; i < c.N(60, 1500); i++ {
			all := cat(valid(1), valid(2))
			m := append([]byte(nil), all...)
			p := r.Intn(len(m))
			switch r.Intn(4) {
			case 0:
				m[p] = 0
			case 1:
				m[p] ^= byte(1 + r.Intn(255))
			case 2:
				m = append(m[:p:p], m[p+1:]...)
			default:
				m = cat(m[:p:p], []byte{byte(r.Pick([]int{0, '\n', '\r', ':', ' ', 0xff}))}, all[p:])
			}
			add(side, 0, 0, "-", "mutated", m)
		}
		for i := 0; i < c.N(30, 600); i++ {
			b := r.Bytes(1 + r.Intn(60))
			if r.Chance(50) {
				b = cat([]byte(r.PickS([]string{"GET ", "POST / HTTP/1.1\r\n", "HTTP/1.1 ", "HTTP/1.1 200 OK\r\n"})), b)
			}
			if r.Chance(40) {
				b = cat(b, []byte("\r\n\r\n"))
			}
			add(side, 0, 0, "-", "random", b)
		}
	}
	stop := 0
	for _, j := range jobs {
		if stop >= 3 {
			c.Count("h1disp.skipped-after-hangs")
			continue
		}
		script := h1iRef(j.side, j.segs, j.L, j.B)
		settle := 8 * time.Second
		if strings.Contains(script, "p") {
			settle = 90 * time.Second // the black box allocated 2 GiB before it panicked: the real one does the same
		}
		o := h1iOnce(j.side, j.L, j.B, j.segs, settle)
		if o.bad {
			stop++
		}
		c.Emit("C08", fmt.Sprintf("h1disp %s %d %d %s %s %s", j.side, j.L, j.B, h1iTok(j.segs), script, j.head), o.impl)
		c.Count("h1disp." + j.side + "." + j.how)
		c.Count("h1disp.state1." + o.state1)
		c.Count("h1disp.disp." + o.disp)
		last := script[:strings.Index(script, "|")]
		if i := strings.LastIndex(last, ","); i >= 0 {
			last = last[i+1:]
		}
		c.Count("h1disp." + j.side + ".ends=" + last[:1])
		if strings.Contains(o.ev1, "b") {
			c.Count("h1disp.replied-400")
		}
	}
}

func h1iParse(tok string) ([][]byte, bool) {
	var segs [][]byte
	for _, s := range strings.Split(tok, ".") {
		var seg []byte
		if s != "-" {
			for _, p := range strings.Split(s, "_") {
				if strings.HasPrefix(p, "r") && strings.Contains(p, "x") {
					var bb, n int
					if _, err := fmt.Sscanf(p, "r%02xx%d", &bb, &n); err != nil {
						return nil, false
					}
					seg = append(seg, bytes.Repeat([]byte{byte(bb)}, n)...)
				} else {
					var b []byte
					if _, bad := hx.Safe(func() { b = hx.Unhex(p) }); bad {
						return nil, false
					}
					seg = append(seg, b...)
				}
			}
		}
		segs = append(segs, seg)
	}
	return segs, true
}
