//go:build verif

package c08

// [c08p10] kind `h2pay`: the real HTTP/2 frame payload parsers (pkg/module/http2/frame.go parseDataFrame … parseUnknownFrame,
// picked by typeFrameParser) on every frame type × payload lengths 0..N around each guard × flag combinations
// (PADDED / PRIORITY / ACK / END_*) × stream id 0 / non-zero × pad-length octets around what remains.  The frame goes
// through a FRESH Framer.ReadFrame (AllowIllegalReads: no frame-order check; no ReadMetaHeaders), whose read buffer is
// `make([]byte, length)`: capacity == length, so a parser that reads behind the payload panics instead of reading slack.
//   C08 h2pay <type> <flags> <streamid> <payload> => ok:<byte fields>:<int fields> | eof | conn:<code> | stream:<code> | other | panic | hang
// byte fields / int fields: the frame's []byte fields resp. integer and boolean fields, each in alphabetical order of the
// Go field path (as the regenerated parsers list them).

import (
	"bytes"
	"encoding/binary"
	"fmt"
	"io"
	"strings"

	mhttp2 "mosn.io/mosn/pkg/module/http2"
	"verif/harness/hx"
)

func c08pB2i(b bool) int {
	if b {
		return 1
	}
	return 0
}

func c08pFrameTok(f mhttp2.Frame) string {
	var bs [][]byte
	var vs []string
	switch x := f.(type) {
	case *mhttp2.DataFrame:
		bs = append(bs, x.Data())
	case *mhttp2.HeadersFrame:
		bs = append(bs, x.HeaderBlockFragment())
		vs = append(vs, fmt.Sprint(c08pB2i(x.Priority.Exclusive)), fmt.Sprint(x.Priority.StreamDep), fmt.Sprint(x.Priority.Weight))
	case *mhttp2.PriorityFrame:
		vs = append(vs, fmt.Sprint(c08pB2i(x.Exclusive)), fmt.Sprint(x.StreamDep), fmt.Sprint(x.Weight))
	case *mhttp2.RSTStreamFrame:
		vs = append(vs, fmt.Sprint(uint32(x.ErrCode)))
	case *mhttp2.SettingsFrame:
		var p []byte
		x.ForeachSetting(func(s mhttp2.Setting) error {
			var e [6]byte
			binary.BigEndian.PutUint16(e[:2], uint16(s.ID))
			binary.BigEndian.PutUint32(e[2:], s.Val)
			p = append(p, e[:]...)
			return nil
		})
		bs = append(bs, p)
	case *mhttp2.PushPromiseFrame:
		bs = append(bs, x.HeaderBlockFragment())
		vs = append(vs, fmt.Sprint(x.PromiseID))
	case *mhttp2.PingFrame:
		bs = append(bs, x.Data[:])
	case *mhttp2.GoAwayFrame:
		bs = append(bs, x.DebugData())
		vs = append(vs, fmt.Sprint(uint32(x.ErrCode)), fmt.Sprint(x.LastStreamID))
	case *mhttp2.WindowUpdateFrame:
		vs = append(vs, fmt.Sprint(x.Increment))
	case *mhttp2.ContinuationFrame:
		bs = append(bs, x.HeaderBlockFragment())
	case *mhttp2.UnknownFrame:
		bs = append(bs, x.Payload())
	default:
		return fmt.Sprintf("ok:?%T", f)
	}
	bt, vt := "_", "_"
	if len(bs) > 0 {
		var p []string
		for _, b := range bs {
			p = append(p, hx.Hex(b))
		}
		bt = strings.Join(p, ",")
	}
	if len(vs) > 0 {
		vt = strings.Join(vs, ",")
	}
	return "ok:" + bt + ":" + vt
}

func c08pParse(ty, flags byte, sid uint32, payload []byte) string {
	out := "hang"
	hang := withTimeout(func() {
		hdr := make([]byte, 9, 9+len(payload))
		hdr[0], hdr[1], hdr[2] = byte(len(payload)>>16), byte(len(payload)>>8), byte(len(payload))
		hdr[3], hdr[4] = ty, flags
		binary.BigEndian.PutUint32(hdr[5:], sid)
		fr := mhttp2.NewFramer(nil, bytes.NewReader(append(hdr, payload...)))
		fr.AllowIllegalReads = true
		var f mhttp2.Frame
		var err error
		r := ""
		_, panicked := hx.Safe(func() {
			f, err = fr.ReadFrame()
			if err == nil {
				r = c08pFrameTok(f)
			}
		})
		switch {
		case panicked:
			r = "panic"
		case err == io.ErrUnexpectedEOF:
			r = "eof"
		case err != nil:
			switch e := err.(type) {
			case mhttp2.ConnectionError:
				r = fmt.Sprintf("conn:%d", uint32(e))
			case mhttp2.StreamError:
				r = fmt.Sprintf("stream:%d", uint32(e.Code))
			default:
				r = "other"
			}
		}
		out = r
	})
	if hang {
		return "hang"
	}
	return out
}

func h2payCases(c *hx.Ctx) {
	seen := map[string]bool{}
	do := func(ty, flags byte, sid uint32, payload []byte, how string) {
		k := fmt.Sprintf("%d %d %d %x", ty, flags, sid, payload)
		if seen[k] {
			return
		}
		seen[k] = true
		o := c08pParse(ty, flags, sid, payload)
		c.Emit("C08", fmt.Sprintf("h2pay %d %d %d %s", ty, flags, sid, hx.Hex(payload)), o)
		c.Count("h2pay." + how)
		cls := o
		if i := strings.Index(o, ":"); i > 0 {
			cls = o[:i]
		}
		c.Count(fmt.Sprintf("h2pay.outcome.t%d.%s", ty, cls))
	}
	types := []byte{0, 1, 2, 3, 4, 5, 6, 7, 8, 9, 10, 0xfe}
	flagSets := []byte{0, 0x8, 0x20, 0x28, 0x1, 0x4, 0x2c, 0x9, 0xff}
	maxLen := c.N(14, 26)
	for _, ty := range types {
		for _, fl := range flagSets {
			for _, sid := range []uint32{0, 1} {
				for n := 0; n <= maxLen; n++ {
					// first octet (pad length when PADDED) at and around what remains behind it and the fixed fields
					firsts := []int{0, 1, n - 7, n - 6, n - 5, n - 2, n - 1, n, n + 1, 255}
					if sid == 0 && ty != 4 && ty != 6 && ty != 7 && ty != 8 && ty < 10 {
						firsts = []int{0, n} // a stream frame on stream 0 is refused before anything is read
					}
					for _, fb := range firsts {
						if fb < 0 || fb > 255 {
							continue
						}
						p := c.Rng.Bytes(n)
						if n > 0 {
							p[0] = byte(fb)
						}
						if ty == 4 && n >= 6 && c.Rng.Chance(50) { // SETTINGS: a known id, a value at the window edge
							binary.BigEndian.PutUint16(p, uint16(1+c.Rng.Intn(6)))
							binary.BigEndian.PutUint32(p[2:], uint32(c.Rng.Pick([]int{0, 1, 0x7fffffff, 0x80000000, 0xffffffff, 16384})))
						}
						if ty == 8 && n == 4 && c.Rng.Chance(50) { // WINDOW_UPDATE: increment 0 with / without the reserved bit
							copy(p, []byte{byte(c.Rng.Pick([]int{0, 0x80})), 0, 0, 0})
						}
						do(ty, fl, sid, p, "grid")
						if n == 0 {
							break
						}
					}
				}
			}
		}
	}
	// random headers and payloads
	for i := 0; i < c.N(400, 20000); i++ {
		ty := byte(c.Rng.Intn(11))
		fl := byte(c.Rng.Intn(256))
		if c.Rng.Chance(60) {
			fl &= 0x2d
		}
		sid := uint32(c.Rng.Pick([]int{0, 1, 3, 0x7fffffff}))
		p := c.Rng.Bytes(c.Rng.Intn(40))
		if len(p) > 0 && c.Rng.Chance(60) {
			p[0] = byte(c.Rng.Intn(len(p) + 2))
		}
		do(ty, fl, sid, p, "random")
	}
}
