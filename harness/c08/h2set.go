//go:build verif

package c08

import (
	"context"
	"fmt"
	"io"
	"net"
	"strings"
	"sync"
	"sync/atomic"
	"time"

	xh2 "golang.org/x/net/http2"
	xhpack "golang.org/x/net/http2/hpack"
	v2 "mosn.io/mosn/pkg/config/v2"
	"mosn.io/mosn/pkg/protocol"
	mstream "mosn.io/mosn/pkg/stream/http2"
	"mosn.io/mosn/pkg/types"
	"mosn.io/mosn/pkg/upstream/cluster"
	"mosn.io/pkg/buffer"
	"mosn.io/pkg/variable"
	"verif/harness/hx"
)

// Kind 'h2set' [c08l9] (an UPSTREAM that announces SETTINGS values at and outside every range edge of RFC 7540 6.5.2): the
// REAL HTTP/2 client stream connection (connection pool, stream factory, TCP connection, read goroutine) against a
// raw-frame upstream peer.  Request 0 (GET) is answered; then the peer sends SETTINGS{id=val} on that connection and
// waits until the client acknowledges it or closes the connection; then request 1 (a POST with a header block of some
// size and a body of some size, or a GET) is issued through the same pool and the peer records every frame of that
// request under a frame-count watchdog.
//
//	h2set <id>:<val> <hdr> <body> => <ack|closed|none> <r1> <same|new|none> <H> <nH> <maxH> <B> <nD> <maxD> <zero>
//	hdr/body  size of the x-big header value / of the body (0 = GET, END_STREAM on HEADERS)
//	r1        resp | reset:<reason> | hang | nostream:<reason>
//	H nH maxH octets of the request's header block, number of HEADERS+CONTINUATION frames it came in (`run` = the
//	          watchdog stopped a frame runaway and the peer closed the connection), largest fragment
//	B nD maxD the same for DATA frames (nD includes the empty END_STREAM frame)
//	zero      number of frames that carried nothing and did not end the block / the stream (no progress)

const h2setCap = 6000 // frames of one request before the watchdog fires

type h2setEv struct {
	conn   *h2setConn
	typ    xh2.FrameType
	stream uint32
	length int
	flags  xh2.Flags
	ack    bool
	closed bool
}

type h2setConn struct {
	c   net.Conn
	fr  *xh2.Framer
	wmu sync.Mutex
}

type h2setPeer struct {
	ln net.Listener
	ev chan h2setEv
}

func newH2setPeer() *h2setPeer {
	ln, err := net.Listen("tcp", "127.0.0.1:0")
	if err != nil {
		panic(err)
	}
	p := &h2setPeer{ln: ln, ev: make(chan h2setEv, 4*h2setCap)}
	go func() {
		for {
			c, err := ln.Accept()
			if err != nil {
				return
			}
			go p.serve(c)
		}
	}()
	return p
}

func (p *h2setPeer) push(e h2setEv) {
	select {
	case p.ev <- e:
	default: // the case is over (or a runaway filled the queue): drop
	}
}

func (p *h2setPeer) serve(c net.Conn) {
	uc := &h2setConn{c: c, fr: xh2.NewFramer(c, c)}
	uc.fr.AllowIllegalWrites = true
	uc.fr.AllowIllegalReads = true
	uc.fr.SetMaxReadFrameSize(1 << 24 - 1)
	defer func() { p.push(h2setEv{conn: uc, closed: true}) }()
	pre := make([]byte, len(xh2.ClientPreface))
	if _, err := io.ReadFull(c, pre); err != nil || string(pre) != xh2.ClientPreface {
		c.Close()
		return
	}
	uc.wmu.Lock()
	uc.fr.WriteSettings()
	uc.wmu.Unlock()
	n := 0
	for {
		f, err := uc.fr.ReadFrame()
		if err != nil {
			return
		}
		h := f.Header()
		e := h2setEv{conn: uc, typ: h.Type, stream: h.StreamID, length: int(h.Length), flags: h.Flags}
		if sf, ok := f.(*xh2.SettingsFrame); ok {
			e.ack = sf.IsAck()
			if !e.ack {
				uc.wmu.Lock()
				uc.fr.WriteSettingsAck()
				uc.wmu.Unlock()
			}
		}
		p.push(e)
		if n++; n > 3*h2setCap {
			c.Close()
			return
		}
	}
}

func (uc *h2setConn) respond(stream uint32) {
	uc.wmu.Lock()
	defer uc.wmu.Unlock()
	var hb strings.Builder
	enc := xhpack.NewEncoder(&hb)
	enc.WriteField(xhpack.HeaderField{Name: ":status", Value: "200"})
	uc.fr.WriteHeaders(xh2.HeadersFrameParam{StreamID: stream, BlockFragment: []byte(hb.String()), EndHeaders: true, EndStream: true})
}

var h2setSeq int64

func h2setRequest(pool types.ConnectionPool, hdr, body int) *h2upRecv {
	rec := &h2upRecv{done: make(chan struct{})}
	go func() {
		// in MOSN this is a proxy worker goroutine (its pool recovers a panic): a panic is an outcome of the request
		if _, panicked := hx.Safe(func() { h2setSend(pool, rec, hdr, body) }); panicked {
			rec.set("panic")
		}
	}()
	return rec
}

func h2setSend(pool types.ConnectionPool, rec *h2upRecv, hdr, body int) {
	{
		ctx := variable.NewVariableContext(context.Background())
		method := "GET"
		if body > 0 {
			method = "POST"
		}
		variable.SetString(ctx, types.VarMethod, method)
		variable.SetString(ctx, types.VarHost, "up.test")
		variable.SetString(ctx, types.VarPath, "/p")
		_, sender, reason := pool.NewStream(ctx, rec)
		if sender == nil {
			rec.set("nostream:" + string(reason))
			return
		}
		sender.GetStream().AddEventListener(rec)
		hdrs := protocol.CommonHeader{"x-req": "1"}
		if hdr > 0 {
			// not compressible by the HPACK Huffman code below 1 octet per octet would not matter: the peer reports
			// the size of the block it received
			hdrs["x-big"] = strings.Repeat("~", hdr)
		}
		if body > 0 {
			sender.AppendHeaders(ctx, hdrs, false)
			sender.AppendData(ctx, buffer.NewIoBufferBytes(make([]byte, body)), true)
		} else {
			sender.AppendHeaders(ctx, hdrs, true)
		}
	}
}

// h2setCase runs one case; it reports whether something hung or ran away (the caller stops after a few of those).
func h2setCase(c *hx.Ctx, id uint16, val uint32, hdr, body int) bool {
	peer := newH2setPeer()
	defer peer.ln.Close()
	name := fmt.Sprintf("c08-h2set-%d", atomic.AddInt64(&h2setSeq, 1))
	cc := v2.Cluster{Name: name, ClusterType: v2.SIMPLE_CLUSTER, LbType: v2.LB_RANDOM,
		Hosts: []v2.Host{{HostConfig: v2.HostConfig{Address: peer.ln.Addr().String()}}}}
	info := cluster.NewCluster(cc).Snapshot().ClusterInfo()
	host := cluster.NewSimpleHost(cc.Hosts[0], info)
	pool := mstream.NewConnPool(variable.NewVariableContext(context.Background()), host)
	defer func() { go pool.Close() }()

	emit := func(impl string) {
		c.Emit("C08", fmt.Sprintf("h2set %d:%d %d %d", id, val, hdr, body), impl)
	}
	// request 0: warm the connection up, see the client's acknowledgement of the peer's first SETTINGS frame
	rec0 := h2setRequest(pool, 0, 0)
	var conn0 *h2setConn
	acks := 0
	answered := false
	deadline := time.After(3 * h2upWait)
	for conn0 == nil || acks == 0 || !answered {
		select {
		case e := <-peer.ev:
			if e.closed {
				emit("setup-closed - none 0 0 0 0 0 0 0")
				return true
			}
			if e.ack {
				acks++
			}
			if e.typ == xh2.FrameHeaders {
				conn0 = e.conn
				e.conn.respond(e.stream)
				answered = true
			}
		case <-deadline:
			emit("setup-timeout - none 0 0 0 0 0 0 0")
			return true
		}
	}
	if r0 := rec0.wait(h2upWait); r0 != "resp" {
		emit("setup-" + r0 + " - none 0 0 0 0 0 0 0")
		return true
	}
	// the SETTINGS frame under test
	conn0.wmu.Lock()
	conn0.fr.WriteSettings(xh2.Setting{ID: xh2.SettingID(id), Val: val})
	conn0.wmu.Unlock()
	settle := "none"
	deadline = time.After(h2upWait)
	for settle == "none" {
		select {
		case e := <-peer.ev:
			if e.conn == conn0 && e.closed {
				settle = "closed"
			} else if e.conn == conn0 && e.ack {
				settle = "ack"
			}
		case <-deadline:
			settle = "timeout"
		}
	}
	if settle == "timeout" {
		settle = "none"
	}
	if settle == "closed" {
		// the peer sees the socket close before the client's close event has taken the connection out of the pool
		time.Sleep(50 * time.Millisecond)
	}
	// request 1 under the frame watchdog
	rec1 := h2setRequest(pool, hdr, body)
	var conn1 *h2setConn
	var stream1 uint32
	var hSum, nH, maxH, bSum, nD, maxD, zero, frames int
	runaway, ended := false, false
	endStream, endHeaders := false, false
	deadline = time.After(2 * h2upWait)
loop:
	for !ended && !runaway {
		select {
		case e := <-peer.ev:
			if e.closed {
				if e.conn == conn1 {
					break loop
				}
				continue
			}
			if conn1 == nil && e.typ == xh2.FrameHeaders {
				conn1, stream1 = e.conn, e.stream
			}
			if e.conn != conn1 || e.stream != stream1 {
				continue
			}
			switch e.typ {
			case xh2.FrameHeaders, xh2.FrameContinuation:
				frames++
				nH++
				hSum += e.length
				if e.length > maxH {
					maxH = e.length
				}
				if e.length == 0 && !e.flags.Has(xh2.FlagHeadersEndHeaders) {
					zero++
				}
				if e.typ == xh2.FrameHeaders && e.flags.Has(xh2.FlagHeadersEndStream) {
					endStream = true
				}
				if e.flags.Has(xh2.FlagHeadersEndHeaders) {
					endHeaders = true
				}
				ended = endStream && endHeaders
			case xh2.FrameData:
				frames++
				nD++
				bSum += e.length
				if e.length > maxD {
					maxD = e.length
				}
				if e.flags.Has(xh2.FlagDataEndStream) {
					ended = true
				} else if e.length == 0 {
					zero++
				}
			}
			if frames >= h2setCap {
				runaway = true
			}
		case <-deadline:
			break loop
		}
	}
	same := "none"
	if conn1 != nil {
		same = "new"
		if conn1 == conn0 {
			same = "same"
		}
	}
	r1 := ""
	if runaway {
		// stop the writer: its loop ends with the write error
		conn1.c.Close()
		rec1.wait(h2upWait)
	} else {
		if ended {
			conn1.respond(stream1)
		}
		r1 = rec1.wait(h2upWait)
	}
	tok := func(n int, run bool) string {
		if run {
			return "run"
		}
		return fmt.Sprint(n)
	}
	if runaway {
		r1 = "runaway"
	}
	emit(fmt.Sprintf("%s %s %s %d %s %d %d %s %d %d", settle, r1, same, hSum, tok(nH, runaway && nH >= nD), maxH, bSum, tok(nD, runaway && nD > nH), maxD, zero))
	c.Count("h2set.settle." + settle)
	c.Count("h2set.r1." + strings.SplitN(r1, ":", 2)[0])
	return runaway || strings.HasPrefix(r1, "hang")
}

func h2setCases(c *hx.Ctx) {
	type sc struct {
		id        uint16
		val       uint32
		hdr, body int
	}
	var cases []sc
	// MAX_FRAME_SIZE (5): valid range [16384, 2^24-1]; ENABLE_PUSH (2): {0,1}; INITIAL_WINDOW_SIZE (4): <= 2^31-1;
	// the others (1, 3, 6, unknown 9) have no invalid value
	edges := map[uint16][]uint32{
		5: {0, 1, 2, 9, 100, 16383, 16384, 16385, 20000, 65535, 1<<24 - 1, 1 << 24, 1<<24 + 1, 1<<31 - 1, 1 << 31, 1<<32 - 1},
		2: {0, 1, 2, 3, 1<<32 - 1},
		4: {0, 1, 65535, 1<<31 - 1, 1 << 31, 1<<32 - 1},
		1: {0, 4096, 1<<32 - 1},
		3: {0, 1, 1<<32 - 1},
		6: {0, 1, 1<<32 - 1},
		9: {0, 7},
	}
	for _, id := range []uint16{5, 2, 4, 1, 3, 6, 9} {
		for _, v := range edges[id] {
			switch id {
			case 5:
				cases = append(cases, sc{id, v, 200, 0}, sc{id, v, 40000, 30000})
			case 4:
				// the body would wait for the peer's WINDOW_UPDATE: a GET
				cases = append(cases, sc{id, v, 20000, 0})
			case 3:
				if v == 0 {
					continue // no stream may be opened: the request waits for capacity by design
				}
				cases = append(cases, sc{id, v, 300, 100})
			default:
				cases = append(cases, sc{id, v, 300, 100})
			}
		}
	}
	if len(c.Args) >= 3 && c.Args[2] == "probe" {
		cases = []sc{{5, 0, 200, 0}, {5, 0, 0, 100}, {5, 1<<32 - 1, 100, 100}, {5, 16384, 40000, 30000}}
	}
	for i := 0; i < c.N(6, 60); i++ {
		v := uint32(c.Rng.Pick([]int{0, 1, 5, 16383, 16384, 16384 + c.Rng.Intn(50000), 1<<24 - 1, 1 << 24, 1 << 31}))
		cases = append(cases, sc{5, v, c.Rng.Intn(70000), c.Rng.Intn(60000)})
	}
	hangs := 0
	seen := map[sc]bool{}
	for _, s := range cases {
		if seen[s] {
			continue
		}
		seen[s] = true
		if hangs >= 3 {
			c.Count("h2set.skipped-after-3-hangs")
			continue
		}
		if h2setCase(c, s.id, s.val, s.hdr, s.body) {
			hangs++
		}
	}
}
