//go:build verif

package c08

import (
	"bytes"
	"context"
	"fmt"
	"io"
	"net"
	"strings"
	"sync"
	"sync/atomic"
	"time"

	xh2 "golang.org/x/net/http2"
	xhpack "golang.org/x/net/http2/hpack"
	"mosn.io/api"
	v2 "mosn.io/mosn/pkg/config/v2"
	"mosn.io/mosn/pkg/protocol"
	mstream "mosn.io/mosn/pkg/stream/http2"
	"mosn.io/mosn/pkg/types"
	"mosn.io/mosn/pkg/upstream/cluster"
	"mosn.io/pkg/buffer"
	"mosn.io/pkg/variable"
	"verif/harness/hx"
)

// Kind 'h2up' (containment on the UPSTREAM side): the REAL HTTP/2 client stream connection (pkg/stream/http2 through
// its connection pool and stream factory, real TCP connection and read goroutine) against a raw-frame upstream peer.
// Request 1 is in flight when the peer sends frames that are an error for THAT stream (DATA before the response HEADERS,
// RST_STREAM, DATA on a HEAD request, HEADERS then RST_STREAM, …) or ordinary responses (controls); then request 2 is
// issued through the same pool.  Both requests must TERMINATE — response or reset — within a bounded wait; a request
// that does neither is outcome `hang` (the connection's read goroutine, or the caller inside AppendHeaders, is stuck).
//
//	h2up <method> <frame+frame…> => <r1> <r2> <same|new|none>
//	frames: D / De DATA (3 bytes) without / with END_STREAM; R<code> RST_STREAM; H / He HEADERS :status 200 without / with
//	        END_STREAM; Hbad HEADERS with an upper-case field name; W<inc> WINDOW_UPDATE on the stream (W0 is a stream error); P PING; X DATA on the stream after it completed; C the peer
//	        closes the connection
//	r:      resp | reset:<reason> | hang | nostream:<pool failure>

const h2upWait = 1500 * time.Millisecond

type h2upReq struct {
	conn     *h2upConn
	streamID uint32
	method   string
}

type h2upConn struct {
	c   net.Conn
	fr  *xh2.Framer
	wmu sync.Mutex
	enc *xhpack.Encoder
	hb  bytes.Buffer
	id  int
}

type h2upPeer struct {
	ln    net.Listener
	reqs  chan h2upReq
	conns int32
}

func newH2upPeer() *h2upPeer {
	ln, err := net.Listen("tcp", "127.0.0.1:0")
	if err != nil {
		panic(err)
	}
	p := &h2upPeer{ln: ln, reqs: make(chan h2upReq, 16)}
	go func() {
		for {
			c, err := ln.Accept()
			if err != nil {
				return
			}
			id := int(atomic.AddInt32(&p.conns, 1))
			go p.serve(c, id)
		}
	}()
	return p
}

func (p *h2upPeer) serve(c net.Conn, id int) {
	pre := make([]byte, len(xh2.ClientPreface))
	if _, err := io.ReadFull(c, pre); err != nil || string(pre) != xh2.ClientPreface {
		c.Close()
		return
	}
	uc := &h2upConn{c: c, fr: xh2.NewFramer(c, c), id: id}
	uc.fr.AllowIllegalWrites = true
	uc.enc = xhpack.NewEncoder(&uc.hb)
	dec := xhpack.NewDecoder(4096, nil)
	uc.wmu.Lock()
	uc.fr.WriteSettings()
	uc.wmu.Unlock()
	for {
		f, err := uc.fr.ReadFrame()
		if err != nil {
			return
		}
		switch x := f.(type) {
		case *xh2.SettingsFrame:
			if !x.IsAck() {
				uc.wmu.Lock()
				uc.fr.WriteSettingsAck()
				uc.wmu.Unlock()
			}
		case *xh2.HeadersFrame:
			method := ""
			fs, _ := dec.DecodeFull(x.HeaderBlockFragment())
			for _, hf := range fs {
				if hf.Name == ":method" {
					method = hf.Value
				}
			}
			p.reqs <- h2upReq{uc, x.StreamID, method}
		}
	}
}

func (uc *h2upConn) send(streamID uint32, tok string) {
	uc.wmu.Lock()
	defer uc.wmu.Unlock()
	hdr := func(end bool, fields ...xhpack.HeaderField) {
		uc.hb.Reset()
		for _, f := range fields {
			uc.enc.WriteField(f)
		}
		uc.fr.WriteHeaders(xh2.HeadersFrameParam{StreamID: streamID, BlockFragment: append([]byte(nil), uc.hb.Bytes()...), EndHeaders: true, EndStream: end})
	}
	switch {
	case tok == "D" || tok == "X":
		uc.fr.WriteData(streamID, false, []byte("abc"))
	case tok == "De":
		uc.fr.WriteData(streamID, true, []byte("abc"))
	case tok == "H":
		hdr(false, xhpack.HeaderField{Name: ":status", Value: "200"}, xhpack.HeaderField{Name: "x-up", Value: "1"})
	case tok == "He":
		hdr(true, xhpack.HeaderField{Name: ":status", Value: "200"}, xhpack.HeaderField{Name: "x-up", Value: "1"})
	case tok == "Hbad":
		hdr(true, xhpack.HeaderField{Name: ":status", Value: "200"}, xhpack.HeaderField{Name: "X-Bad", Value: "1"})
	case tok == "C": // the upstream closes the connection with the request in flight
		uc.c.Close()
	case tok == "P":
		uc.fr.WritePing(false, [8]byte{1, 2, 3})
	case strings.HasPrefix(tok, "R"):
		var code uint32
		fmt.Sscan(tok[1:], &code)
		uc.fr.WriteRSTStream(streamID, xh2.ErrCode(code))
	case strings.HasPrefix(tok, "W"):
		var inc uint32
		fmt.Sscan(tok[1:], &inc)
		uc.fr.WriteWindowUpdate(streamID, inc)
	default:
		panic("h2up: frame token " + tok)
	}
}

type h2upRecv struct {
	mu   sync.Mutex
	out  string
	done chan struct{}
}

func (r *h2upRecv) set(o string) {
	r.mu.Lock()
	if r.out == "" {
		r.out = o
		close(r.done)
	}
	r.mu.Unlock()
}
func (r *h2upRecv) OnReceive(ctx context.Context, headers api.HeaderMap, data buffer.IoBuffer, trailers api.HeaderMap) {
	r.set("resp")
}
func (r *h2upRecv) OnDecodeError(ctx context.Context, err error, headers api.HeaderMap) {
	r.set("decerr")
}
func (r *h2upRecv) OnResetStream(reason types.StreamResetReason) { r.set("reset:" + string(reason)) }
func (r *h2upRecv) OnDestroyStream()                             {}

func (r *h2upRecv) wait(d time.Duration) string {
	select {
	case <-r.done:
	case <-time.After(d):
	}
	r.mu.Lock()
	defer r.mu.Unlock()
	if r.out == "" {
		return "hang"
	}
	return r.out
}

var h2upSeq int64

// h2upRequest issues one request through the pool on its own goroutine (AppendHeaders takes the connection mutex: on a
// wedged connection the call itself never returns).
func h2upRequest(pool types.ConnectionPool, method string) *h2upRecv {
	rec := &h2upRecv{done: make(chan struct{})}
	go func() {
		ctx := variable.NewVariableContext(context.Background())
		variable.SetString(ctx, types.VarMethod, method)
		variable.SetString(ctx, types.VarHost, "up.test")
		variable.SetString(ctx, types.VarPath, "/p")
		_, sender, reason := pool.NewStream(ctx, rec)
		if sender == nil {
			rec.set("nostream:" + string(reason))
			return
		}
		sender.GetStream().AddEventListener(rec)
		hdrs := protocol.CommonHeader{"x-req": "1"}
		if method == "POST" {
			sender.AppendHeaders(ctx, hdrs, false)
			sender.AppendData(ctx, buffer.NewIoBufferString("body"), true)
		} else {
			sender.AppendHeaders(ctx, hdrs, true)
		}
	}()
	return rec
}

func h2upCase(c *hx.Ctx, method string, frames []string) (hung bool) {
	peer := newH2upPeer()
	defer peer.ln.Close()
	name := fmt.Sprintf("c08-h2up-%d", atomic.AddInt64(&h2upSeq, 1))
	cc := v2.Cluster{Name: name, ClusterType: v2.SIMPLE_CLUSTER, LbType: v2.LB_RANDOM,
		Hosts: []v2.Host{{HostConfig: v2.HostConfig{Address: peer.ln.Addr().String()}}}}
	info := cluster.NewCluster(cc).Snapshot().ClusterInfo()
	host := cluster.NewSimpleHost(cc.Hosts[0], info)
	pool := mstream.NewConnPool(variable.NewVariableContext(context.Background()), host)
	r1, r2, same := "hang", "hang", "none"
	rec1 := h2upRequest(pool, method)
	var q1 h2upReq
	select {
	case q1 = <-peer.reqs:
		for _, tok := range frames {
			if tok == "X" { // DATA for the stream after its response completed
				rec1.wait(h2upWait)
			}
			q1.conn.send(q1.streamID, tok)
		}
		r1 = rec1.wait(h2upWait)
	case <-time.After(h2upWait):
		r1 = rec1.wait(0)
		if r1 == "hang" {
			r1 = "hang-before-send"
		}
	}
	rec2 := h2upRequest(pool, "GET")
	select {
	case q2 := <-peer.reqs:
		q2.conn.send(q2.streamID, "He")
		r2 = rec2.wait(h2upWait)
		if q1.conn != nil {
			same = "new"
			if q2.conn == q1.conn {
				same = "same"
			}
		}
	case <-time.After(h2upWait):
		r2 = rec2.wait(0)
	}
	c.Emit("C08", fmt.Sprintf("h2up %s %s", method, strings.Join(frames, "+")), r1+" "+r2+" "+same)
	c.Count("h2up.r1." + strings.SplitN(r1, ":", 2)[0])
	c.Count("h2up.r2." + strings.SplitN(r2, ":", 2)[0])
	// on a wedged connection Close itself blocks (the close event wants the connection mutex): never wait for it
	go pool.Close()
	return strings.HasPrefix(r1, "hang") || strings.HasPrefix(r2, "hang")
}

func h2upCases(c *hx.Ctx) {
	type sc struct {
		method string
		frames string
	}
	base := []sc{
		{"GET", "He"}, {"GET", "H+De"}, {"POST", "He"}, {"HEAD", "He"}, // controls
		{"GET", "D"}, {"GET", "De"}, {"POST", "D"}, {"HEAD", "D"}, // DATA before the response HEADERS
		{"GET", "R1"}, {"GET", "R2"}, {"GET", "R7"}, {"GET", "R8"}, {"POST", "R11"}, {"HEAD", "R5"}, // RST_STREAM
		{"HEAD", "H+D"}, {"HEAD", "H+De"}, // DATA on a HEAD request
		{"GET", "H+R8"}, {"GET", "H+D+R2"}, {"POST", "H+R1"}, // partial response, then reset
		{"GET", "P+D"}, {"GET", "W5+R8"}, {"GET", "P+R3"},
		{"GET", "He+X"}, {"GET", "H+De+X"}, // DATA on a stream that has completed
		// stream errors raised by the framer itself (the frame must be consumed) and RST_STREAM with NO_ERROR
		{"GET", "Hbad"}, {"POST", "Hbad"}, {"GET", "W0"}, {"GET", "H+W0"}, {"HEAD", "P+W0"}, {"GET", "R0"}, {"GET", "H+R0"}, {"POST", "R0"},
		{"GET", "C"}, {"GET", "H+C"}, {"HEAD", "P+C"}, // connection closed under the request: Reset holds the mutex over ResetStream
	}
	if len(c.Args) >= 3 && c.Args[2] == "probe" {
		base = []sc{{"GET", "R0"}, {"GET", "Hbad"}, {"GET", "W0"}, {"GET", "H+W0"}, {"GET", "H+R0"}}
	}
	hangs := 0
	seenCase := map[string]bool{}
	run := func(s sc) {
		if s.method == "POST" && strings.HasSuffix(s.frames, "C") {
			// a connection closed while the request body is still being written fails the request either through the
			// write (ConnectionFailed) or through the close event (ConnectionTermination): keep the case deterministic
			s.method = "GET"
		}
		if seenCase[s.method+" "+s.frames] {
			return
		}
		seenCase[s.method+" "+s.frames] = true
		if hangs >= 3 {
			c.Count("h2up.skipped-after-3-hangs")
			return
		}
		if h2upCase(c, s.method, strings.Split(s.frames, "+")) {
			hangs++
		}
	}
	for _, s := range base {
		run(s)
	}
	codes := []int{0, 1, 2, 3, 4, 5, 6, 7, 8, 9, 10, 11, 12, 13, 255}
	for i := 0; i < c.N(12, 150); i++ {
		m := c.Rng.PickS([]string{"GET", "GET", "POST", "HEAD"})
		var fr []string
		for j := c.Rng.Intn(2); j > 0; j-- {
			fr = append(fr, c.Rng.PickS([]string{"P", "W3"}))
		}
		switch c.Rng.Intn(6) {
		case 0:
			fr = append(fr, c.Rng.PickS([]string{"D", "De", "Hbad", "W0"}))
		case 1:
			fr = append(fr, fmt.Sprintf("R%d", c.Rng.Pick(codes)))
		case 2:
			fr = append(fr, "H", fmt.Sprintf("R%d", c.Rng.Pick(codes)))
		case 3:
			if m == "HEAD" {
				fr = append(fr, "H", "D")
			} else {
				fr = append(fr, "H", "D", fmt.Sprintf("R%d", c.Rng.Pick(codes)))
			}
		case 4:
			fr = append(fr, c.Rng.PickS([]string{"C", "H+C"}))
			fr = strings.Split(strings.Join(fr, "+"), "+")
		default:
			fr = append(fr, c.Rng.PickS([]string{"He", "H+De"}))
			fr = strings.Split(strings.Join(fr, "+"), "+")
		}
		run(sc{m, strings.Join(fr, "+")})
	}
}
