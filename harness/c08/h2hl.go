//go:build verif

package c08

// [c08p10] kind `h2hl`: the header list MFramer.readMetaFrame builds under MAX_HEADER_LIST_SIZE.  One real
// MFramer.ReadFrame (server connection's framer, Framer.MaxHeaderListSize set to the case's limit) on ONE HEADERS frame
// whose block (written by MOSN's own HPACK encoder) carries regular fields with the given name / value lengths; the
// cumulative size (name + value + 32 per field) reaches the limit - 1, the limit and the limit + 1 at every position.
//   C08 h2hl <limit> <nameLen.valueLen,…> => kept=<fields kept> trunc=<0|1> | err | panic | hang

import (
	"bytes"
	"fmt"
	"strings"

	mhttp2 "mosn.io/mosn/pkg/module/http2"
	"mosn.io/mosn/pkg/module/http2/hpack"
	"mosn.io/pkg/buffer"
	"verif/harness/framegen"
	"verif/harness/hx"
)

func c08pHeaderList(limit int, fields [][2]int) string {
	out := "hang"
	hang := withTimeout(func() {
		var hb bytes.Buffer
		enc := hpack.NewEncoder(&hb)
		for i, f := range fields {
			name := "x" + strings.Repeat(string(rune('a'+i%26)), f[0]-1)
			enc.WriteField(hpack.HeaderField{Name: name, Value: strings.Repeat("v", f[1])})
		}
		var w bytes.Buffer
		mhttp2.NewFramer(&w, nil).WriteHeaders(mhttp2.HeadersFrameParam{StreamID: 1, BlockFragment: hb.Bytes(), EndHeaders: true, EndStream: true})
		sc := mhttp2.NewServerConn(&nopConn{})
		sc.Framer.MaxHeaderListSize = uint32(limit)
		var f mhttp2.Frame
		var err error
		_, panicked := hx.Safe(func() { f, _, err = sc.Framer.ReadFrame(framegen.Ctx(), buffer.NewIoBufferBytes(hx.Exact(w.Bytes())), 0) })
		switch {
		case panicked:
			out = "panic"
		case err != nil:
			out = "err"
		default:
			mh, ok := f.(*mhttp2.MetaHeadersFrame)
			if !ok {
				out = fmt.Sprintf("other:%T", f)
				return
			}
			t := 0
			if mh.Truncated {
				t = 1
			}
			out = fmt.Sprintf("kept=%d trunc=%d", len(mh.Fields), t)
		}
	})
	if hang {
		return "hang"
	}
	return out
}

func h2hlCases(c *hx.Ctx) {
	seen := map[string]bool{}
	do := func(limit int, fields [][2]int, how string) {
		var p []string
		for _, f := range fields {
			p = append(p, fmt.Sprintf("%d.%d", f[0], f[1]))
		}
		k := fmt.Sprintf("%d %s", limit, strings.Join(p, ","))
		if seen[k] || len(fields) == 0 {
			return
		}
		seen[k] = true
		o := c08pHeaderList(limit, fields)
		c.Emit("C08", "h2hl "+k, o)
		c.Count("h2hl." + how)
		c.Count("h2hl.outcome." + strings.SplitN(o, " ", 2)[0])
	}
	for _, limit := range []int{33, 64, 100, 200, 1000, 0} {
		for i := 0; i < c.N(12, 200); i++ {
			n := 1 + c.Rng.Intn(5)
			var fields [][2]int
			sum := 0
			for j := 0; j < n; j++ {
				f := [2]int{1 + c.Rng.Intn(6), c.Rng.Intn(12)}
				fields = append(fields, f)
				sum += f[0] + f[1] + 32
			}
			do(limit, fields, "random")
			if limit == 0 {
				continue
			}
			// one more field that brings the cumulative size to limit-1 / limit / limit+1, then a small one behind it
			for _, d := range []int{-1, 0, 1} {
				rest := limit + d - sum - 32
				if rest < 1 {
					continue
				}
				nl := 1 + c.Rng.Intn(3)
				if nl > rest {
					nl = rest
				}
				if nl > limit || rest-nl > limit {
					continue // a string longer than the limit is a decoding error (see below)
				}
				fs := append(append([][2]int(nil), fields...), [2]int{nl, rest - nl})
				do(limit, fs, "edge")
				do(limit, append(fs, [2]int{1, 0}), "edge+1")
			}
		}
		if limit > 0 {
			// a string longer than the limit (= the decoder's maximal string length) in the first field: decoding error
			do(limit, [][2]int{{1, limit + 1}}, "oversize")
			do(limit, [][2]int{{1, limit}}, "oversize-edge")
			do(limit, [][2]int{{limit + 1, 0}, {1, 1}}, "oversize")
		}
	}
}
