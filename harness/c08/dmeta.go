//go:build verif

package c08

// Kind `dmeta`: ONE real dubbo Decode (pkg/protocol/xprotocol/dubbo: decodeFrame -> getServiceAwareMeta) of a complete
// hessian2 request whose fields (framework version, path, version, method, argument-type descriptor, arguments,
// attachments) are of the expected or of an UNEXPECTED type at each position — s string, n null, i int, l list, m map —
// or missing (payload ends), with the listener name ingress_dubbo / egress_dubbo (service aware walk incl. attachments)
// or another one (first four fields only), under hx.Safe and a timeout.
//
//   dmeta <listener> <kinds,…> <nargs> <frame hex> => ok | err | panic | hang
//
// nargs = the number of arguments the descriptor at position 4 announces (0 when it is not a string).

import (
	"encoding/binary"
	"fmt"
	"strings"

	hessian "github.com/apache/dubbo-go-hessian2"
	"mosn.io/mosn/pkg/types"
	"mosn.io/pkg/buffer"
	"mosn.io/pkg/variable"
	"verif/harness/framegen"
	"verif/harness/hx"
)

func dmetaEnc(e *hessian.Encoder, kind string, str string) {
	switch kind {
	case "s":
		e.Encode(str)
	case "n":
		e.Encode(nil)
	case "i":
		e.Encode(int32(7))
	case "l":
		e.Encode([]interface{}{"a", int32(1)})
	case "m":
		e.Encode(map[interface{}]interface{}{"interface": "com.test.Real", "group": "g1", int32(3): "x", "k": int32(4)})
	}
}

var dmetaSeen = map[string]bool{}

func dmetaCase(c *hx.Ctx, listener string, kinds []string, desc string, nargs int, how string) {
	key := listener + "|" + strings.Join(kinds, ",") + "|" + desc
	if dmetaSeen[key] {
		return
	}
	dmetaSeen[key] = true
	e := hessian.NewEncoder()
	defaults := []string{"2.0.2", "com.test.Svc", "1.0.0", "method", desc}
	for i, k := range kinds {
		s := "arg"
		if i < len(defaults) {
			s = defaults[i]
		}
		dmetaEnc(e, k, s)
	}
	payload := e.Buffer()
	b := make([]byte, 16, 16+len(payload))
	b[0], b[1], b[2] = 0xda, 0xbb, 2|0x80|0x40
	binary.BigEndian.PutUint64(b[4:], 99)
	binary.BigEndian.PutUint32(b[12:], uint32(len(payload)))
	b = append(b, payload...)
	out := ""
	var err error
	var frame interface{}
	var panicked bool
	if withTimeout(func() {
		ctx := framegen.Ctx()
		_ = variable.Set(ctx, types.VariableListenerName, listener)
		p := framegen.Codec("dubbo").NewXProtocol(ctx)
		buf := buffer.NewIoBufferBytes(append([]byte(nil), b...))
		_, panicked = hx.Safe(func() { frame, err = p.Decode(ctx, buf) })
	}) {
		out = "hang"
	} else if panicked {
		out = "panic"
	} else if err != nil {
		out = "err"
	} else if frame == nil {
		out = "needmore"
	} else {
		out = "ok"
	}
	n := nargs
	if len(kinds) <= 4 || kinds[4] != "s" {
		n = 0
	}
	kt := strings.Join(kinds, ",")
	if kt == "" {
		kt = "-"
	}
	c.Emit("C08", fmt.Sprintf("dmeta %s %s %d %s", listener, kt, n, hx.Hex(b)), out)
	c.Count("dmeta." + listener + "." + how)
	c.Count("dmeta.outcome." + out)
}

func dmetaCases(c *hx.Ctx) {
	descs := []struct {
		d string
		n int
	}{{"", 0}, {"I", 1}, {"Ljava/lang/String;I", 2}, {"[Ljava/lang/Object;ZJ", 3}}
	all := []string{"s", "n", "i", "l", "m"}
	for _, listener := range []string{"ingress_dubbo", "egress_dubbo", "other_listener"} {
		for _, ds := range descs {
			base := []string{"s", "s", "s", "s", "s"}
			for j := 0; j < ds.n; j++ {
				base = append(base, []string{"i", "s", "l"}[j%3])
			}
			base = append(base, "m")
			dmetaCase(c, listener, base, ds.d, ds.n, "valid")
			// an unexpected type at each position
			for p := range base {
				for _, k := range all {
					if k == base[p] {
						continue
					}
					m := append([]string(nil), base...)
					m[p] = k
					dmetaCase(c, listener, m, ds.d, ds.n, fmt.Sprintf("pos%d-%s", dmetaMin(p, 6), k))
				}
			}
			// the payload ends after p fields
			for p := 0; p < len(base); p++ {
				dmetaCase(c, listener, base[:p], ds.d, ds.n, "fields-missing")
			}
		}
		// random type soup
		for i := 0; i < c.N(60, 1500); i++ {
			ds := descs[c.Rng.Intn(len(descs))]
			n := c.Rng.Intn(9)
			var m []string
			for j := 0; j < n; j++ {
				if j < 5 && c.Rng.Chance(70) {
					m = append(m, "s")
				} else {
					m = append(m, all[c.Rng.Intn(len(all))])
				}
			}
			dmetaCase(c, listener, m, ds.d, ds.n, "random")
		}
	}
}

func dmetaMin(a, b int) int {
	if a < b {
		return a
	}
	return b
}
