//go:build verif

package c08

import (
	"context"
	"fmt"
	"strings"
	"sync"
	"time"

	"mosn.io/api"
	mhttp2 "mosn.io/mosn/pkg/module/http2"
	"mosn.io/mosn/pkg/module/http2/hpack"
	shttp2 "mosn.io/mosn/pkg/stream/http2"
	"mosn.io/mosn/pkg/types"
	"mosn.io/pkg/buffer"
	"verif/harness/framegen"
	"verif/harness/hx"
)

// [c08l9] kind h2disp, class `trailers`: a SECOND HEADERS frame on a stream that is in flight (trailers), with and
// without a body in between, with and without a declared `Trailer` header, with and without END_STREAM, after the
// stream was already ended, twice, with pseudo-header fields — each followed by a PING and by another stream's HEADERS
// (the Dispatch must go on).  srv: requests on stream 1 (then 3); cli: responses to the two requests in flight (1, 3).

type h2tJob struct {
	how  string
	data []byte
}

func (g *h2dGen) h2tBlock(side string, kind string) []byte {
	g.hb.Reset()
	g.enc = hpack.NewEncoder(&g.hb)
	w := func(n, v string) { g.enc.WriteField(hpack.HeaderField{Name: n, Value: v}) }
	switch kind {
	case "head", "head-decl":
		if side == "srv" {
			w(":method", "POST")
			w(":scheme", "http")
			w(":authority", "a.test")
			w(":path", "/t")
		} else {
			w(":status", "200")
		}
		if kind == "head-decl" {
			w("trailer", "x-t")
		}
		w("x-key", "v")
	case "trail":
		w("x-t", "1")
	case "trail-pseudo":
		if side == "srv" {
			w(":method", "GET")
		} else {
			w(":status", "200")
		}
		w("x-t", "1")
	case "trail-forbidden":
		w("content-length", "3")
	}
	return append([]byte(nil), g.hb.Bytes()...)
}

func (g *h2dGen) h2tHeaders(side string, sid uint32, kind string, end bool) []byte {
	g.fr.WriteHeaders(mhttp2.HeadersFrameParam{StreamID: sid, BlockFragment: g.h2tBlock(side, kind), EndHeaders: true, EndStream: end})
	return g.take()
}

func h2tJobs(side string, g *h2dGen) []h2tJob {
	H := func(kind string, end bool) []byte { return g.h2tHeaders(side, 1, kind, end) }
	D := func(end bool) []byte { g.fr.WriteData(1, end, []byte("abc")); return g.take() }
	other := func() []byte { return g.h2tHeaders(side, 3, "head", true) }
	ping := func() []byte { g.fr.WritePing(false, [8]byte{7}); return g.take() }
	seqs := []struct {
		how   string
		parts [][]byte
	}{
		{"He+He", [][]byte{H("head", true), H("head", true)}},
		{"He+Te", [][]byte{H("head", true), H("trail", true)}},
		{"He+T", [][]byte{H("head", true), H("trail", false)}},
		{"H+Te", [][]byte{H("head", false), H("trail", true)}},
		{"Hdecl+Te", [][]byte{H("head-decl", false), H("trail", true)}},
		{"H+D+Te", [][]byte{H("head", false), D(false), H("trail", true)}},
		{"Hdecl+D+Te", [][]byte{H("head-decl", false), D(false), H("trail", true)}},
		{"H+De+Te", [][]byte{H("head", false), D(true), H("trail", true)}},
		{"Hdecl+De+Te", [][]byte{H("head-decl", false), D(true), H("trail", true)}},
		{"H+T", [][]byte{H("head", false), H("trail", false)}},
		{"H+D+T+De", [][]byte{H("head", false), D(false), H("trail", false), D(true)}},
		{"H+Te+Te", [][]byte{H("head", false), H("trail", true), H("trail", true)}},
		{"H+D+Te+Te", [][]byte{H("head", false), D(false), H("trail", true), H("trail", true)}},
		{"H+Tpseudo", [][]byte{H("head", false), H("trail-pseudo", true)}},
		{"Hdecl+D+Tforbidden", [][]byte{H("head-decl", false), D(false), H("trail-forbidden", true)}},
		{"H+Te+D", [][]byte{H("head", false), H("trail", true), D(true)}},
	}
	var out []h2tJob
	for _, s := range seqs {
		all := h2dCat(s.parts...)
		out = append(out, h2tJob{"trailers." + s.how, all})
		out = append(out, h2tJob{"trailers+valid." + s.how, h2dCat(all, ping(), other())})
	}
	return out
}

// Kind `h2trail` [c08l9]: the same sequences by NAME (the model runs on the tokens), one real server-side Dispatch on
// the frames of stream 1, with what the stream layer did observed:
//
//	h2trail srv <tok+tok…> => <ret|panic|hang> <deliveries> <resets> <rst frames written> <closed>
//	tokens      H / He request HEADERS without / with END_STREAM; Hd / Hde the same declaring `Trailer: x-t`;
//	            T / Te trailers (x-t: 1) without / with END_STREAM; Tp trailers carrying a pseudo-header field (END_STREAM);
//	            Tf trailers carrying content-length (forbidden in trailers; END_STREAM); D / De DATA (3 octets)
//	deliveries  OnReceive calls of stream 1 joined by ',' (`-` = none): h = headers only, hb = with a body buffer,
//	            hbt = with a body buffer and trailer fields
//	resets      OnResetStream calls of stream 1; closed: the connection was closed (connection error)

type h2tConn struct {
	h2dConn
	wmu sync.Mutex
	rst int
}

func (c *h2tConn) Write(bufs ...buffer.IoBuffer) error {
	c.wmu.Lock()
	defer c.wmu.Unlock()
	for _, b := range bufs {
		p := b.Bytes()
		for len(p) >= 9 {
			n := int(p[0])<<16 | int(p[1])<<8 | int(p[2])
			if p[3] == 3 {
				c.rst++
			}
			if 9+n > len(p) {
				break
			}
			p = p[9+n:]
		}
	}
	return nil
}

type h2tRecv struct {
	mu       sync.Mutex
	id       uint64
	delivers []string
	resets   int
}

func (r *h2tRecv) OnReceive(ctx context.Context, headers api.HeaderMap, data buffer.IoBuffer, trailers api.HeaderMap) {
	s := "h"
	if data != nil {
		s += "b"
	}
	if trailers != nil {
		n := 0
		trailers.Range(func(k, v string) bool { n++; return true })
		if n > 0 {
			s += "t"
		}
	}
	r.mu.Lock()
	r.delivers = append(r.delivers, s)
	r.mu.Unlock()
}
func (r *h2tRecv) OnDecodeError(context.Context, error, api.HeaderMap) {}
func (r *h2tRecv) OnResetStream(reason types.StreamResetReason) {
	r.mu.Lock()
	r.resets++
	r.mu.Unlock()
}
func (r *h2tRecv) OnDestroyStream() {}

type h2tListener struct {
	mu    sync.Mutex
	recvs map[uint64]*h2tRecv
}

func (l *h2tListener) NewStreamDetect(ctx context.Context, sender types.StreamSender, span api.Span) types.StreamReceiveListener {
	r := &h2tRecv{id: sender.GetStream().ID()}
	sender.GetStream().AddEventListener(r)
	l.mu.Lock()
	l.recvs[r.id] = r
	l.mu.Unlock()
	return r
}
func (l *h2tListener) OnGoAway() {}

func h2tOnce(g *h2dGen, toks []string) string {
	var data []byte
	for _, t := range toks {
		switch t {
		case "H":
			data = append(data, g.h2tHeaders("srv", 1, "head", false)...)
		case "He":
			data = append(data, g.h2tHeaders("srv", 1, "head", true)...)
		case "Hd":
			data = append(data, g.h2tHeaders("srv", 1, "head-decl", false)...)
		case "Hde":
			data = append(data, g.h2tHeaders("srv", 1, "head-decl", true)...)
		case "T":
			data = append(data, g.h2tHeaders("srv", 1, "trail", false)...)
		case "Te":
			data = append(data, g.h2tHeaders("srv", 1, "trail", true)...)
		case "Tp":
			data = append(data, g.h2tHeaders("srv", 1, "trail-pseudo", true)...)
		case "Tf":
			data = append(data, g.h2tHeaders("srv", 1, "trail-forbidden", true)...)
		case "D":
			g.fr.WriteData(1, false, []byte("abc"))
			data = append(data, g.take()...)
		case "De":
			g.fr.WriteData(1, true, []byte("abc"))
			data = append(data, g.take()...)
		default:
			panic("h2trail: token " + t)
		}
	}
	conn := &h2tConn{}
	lis := &h2tListener{recvs: map[uint64]*h2tRecv{}}
	ctx := framegen.Ctx()
	sc := (&shttp2.StreamConnFactory{}).CreateServerStream(ctx, conn, lis)
	sc.Dispatch(buffer.NewIoBufferBytes([]byte(mhttp2.ClientPreface)))
	buf := buffer.NewIoBuffer(len(data) + 16)
	buf.Write(data)
	done := make(chan bool, 1)
	go func() {
		_, p := hx.Safe(func() { sc.Dispatch(buf) })
		done <- p
	}()
	outcome := "ret"
	select {
	case p := <-done:
		if p {
			outcome = "panic"
		}
	case <-time.After(dispBudget):
		return "hang - 0 0 0"
	}
	lis.mu.Lock()
	r := lis.recvs[1]
	lis.mu.Unlock()
	del, resets := "-", 0
	if r != nil {
		r.mu.Lock()
		if len(r.delivers) > 0 {
			del = strings.Join(r.delivers, ",")
		}
		resets = r.resets
		r.mu.Unlock()
	}
	conn.mu.Lock()
	closed := 0
	if conn.closed {
		closed = 1
	}
	conn.mu.Unlock()
	conn.wmu.Lock()
	rst := conn.rst
	conn.wmu.Unlock()
	return fmt.Sprintf("%s %s %d %d %d", outcome, del, resets, rst, closed)
}

func h2trailCases(c *hx.Ctx) {
	g := newH2dGen()
	seen := map[string]bool{}
	run := func(toks []string) {
		k := strings.Join(toks, "+")
		if seen[k] {
			return
		}
		seen[k] = true
		impl := h2tOnce(g, toks)
		c.Emit("C08", "h2trail srv "+k, impl)
		c.Count("h2trail.outcome." + strings.SplitN(impl, " ", 2)[0])
	}
	heads := []string{"H", "He", "Hd", "Hde"}
	rest := []string{"T", "Te", "Tp", "Tf", "D", "De", "He", "H"}
	// every sequence of a request head and up to two further frames; three further frames sampled
	for _, h := range heads {
		run([]string{h})
		for _, a := range rest {
			run([]string{h, a})
			for _, b := range rest {
				run([]string{h, a, b})
			}
		}
	}
	for i := 0; i < c.N(60, 1500); i++ {
		t := []string{c.Rng.PickS(heads)}
		for j := 3 + c.Rng.Intn(3); j > 0; j-- {
			t = append(t, c.Rng.PickS(rest))
		}
		run(t)
	}
}
