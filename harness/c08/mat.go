//go:build verif

package c08

// [c08p10] kind `mat`: EVERY registered protocol matcher (the function each xprotocol codec hands out in ProtocolMatch(), called
// through stream/xprotocol's streamConnFactory.ProtocolMatch;
// the ProtocolMatch methods of the HTTP/1 and HTTP/2 stream factories) on every prefix of generated streams, on inputs
// of every length around the matchers' guards and on random bytes — each call on a buffer whose capacity equals its
// length (hx.Exact), so a read at or beyond the length it was given panics instead of reading slack.
//   C08 mat <matcher> <bytes> => again | success | failed | panic | hang

import (
	"context"
	"encoding/binary"

	str "mosn.io/mosn/pkg/stream"
	shttp "mosn.io/mosn/pkg/stream/http"
	shttp2 "mosn.io/mosn/pkg/stream/http2"
	sxp "mosn.io/mosn/pkg/stream/xprotocol"
	"verif/harness/framegen"
	"verif/harness/hx"
)

var c08pMatchers = []string{"bolt", "boltv2", "dubbo", "thrift", "tars", "http1", "http2"}

func c08pMatch(name string, data []byte) string {
	out := "hang"
	hang := withTimeout(func() {
		var r string
		_, panicked := hx.Safe(func() {
			switch name {
			case "http1":
				r = c08pErrTok((&shttp.StreamConnFactory{}).ProtocolMatch(context.Background(), "", data))
			case "http2":
				r = c08pErrTok((&shttp2.StreamConnFactory{}).ProtocolMatch(context.Background(), "", data))
			default:
				// through the xprotocol stream factory: streamConnFactory.ProtocolMatch calls the codec's matcher
				r = c08pErrTok(sxp.NewStreamFactory(framegen.Codec(name)).ProtocolMatch(context.Background(), "", data))
			}
		})
		if panicked {
			r = "panic"
		}
		out = r
	})
	if hang {
		return "hang"
	}
	return out
}

func c08pErrTok(err error) string {
	switch err {
	case nil:
		return "success"
	case str.EAGAIN:
		return "again"
	case str.FAILED:
		return "failed"
	}
	return "other"
}

func matCases(c *hx.Ctx) {
	seen := map[string]bool{}
	do := func(b []byte, how string) {
		if len(b) > 64 {
			b = b[:64]
		}
		if seen[string(b)] {
			return
		}
		seen[string(b)] = true
		for _, m := range c08pMatchers {
			o := c08pMatch(m, hx.Exact(b))
			c.Emit("C08", "mat "+m+" "+hx.Hex(b), o)
			c.Count("mat.outcome." + m + "." + o)
		}
		c.Count("mat." + how)
	}
	prefixes := func(b []byte, how string, upto int) {
		for k := 0; k <= len(b) && k <= upto; k++ {
			do(b[:k], how)
		}
	}
	// every prefix of valid frames of the five xprotocols
	for _, proto := range framegen.Protos {
		for i := 0; i < c.N(6, 60); i++ {
			f := framegen.Gen(c.Rng, proto, true)
			prefixes(f.Bytes, "prefix."+proto, 28)
		}
	}
	// tars: the iVersion bytes and the package length at and around every guard
	for _, n := range []uint32{0, 1, 3, 4, 5, 6, 7, 8, 10485760, 10485761, 0x7fffffff, 0xffffffff} {
		for _, hb := range []byte{0x10, 0x11, 0x00} {
			for _, vb := range []byte{1, 3, 2, 0} {
				b := make([]byte, 4, 12)
				binary.BigEndian.PutUint32(b, n)
				b = append(b, hb, vb, 0x2c, 0x3c)
				prefixes(b, "tars-guards", 8)
			}
		}
	}
	// dubbo / thrift magic at its place, one byte off, and cut inside
	for _, b := range [][]byte{
		{0xda, 0xbb, 0xc2, 0, 0, 0, 0, 0, 0, 0, 0, 1, 0, 0, 0, 4, 1, 2, 3, 4},
		{0xda, 0xbc, 0xc2, 0, 0, 0, 0, 0, 0, 0, 0, 1, 0, 0, 0, 4, 1, 2, 3, 4},
		{0, 0, 0, 20, 0xda, 0xbc, 0, 0, 0, 16, 0, 4},
		{0, 0, 0, 20, 0xda, 0xbb, 0, 0, 0, 16, 0, 4},
		{1, 1, 0, 1, 1}, {2, 1, 0, 1, 1}, {3}, {0},
	} {
		prefixes(b, "magic", 24)
	}
	// HTTP/1 methods (every prefix), near-methods, and the HTTP/2 preface with a corrupted byte at every position
	for _, s := range []string{"GET / HTTP/1.1\r\n", "CONNECT a:1 HTTP/1.1", "OPTIONS * HTTP/1.1", "DELETE /x", "UNLINK /x", "PATCH /", "LINK /", "TRACE /",
		"HEAD /", "POST /", "PUT /", "BREW /pot", "GE", "GEX /", "CONNECX", "get / http/1.1", "OPTIONZ", "UNLINKS"} {
		prefixes([]byte(s), "http1", 12)
	}
	pre := []byte("PRI * HTTP/2.0\r\n\r\nSM\r\n\r\n")
	prefixes(append(append([]byte(nil), pre...), 0, 0, 0, 4, 0, 0, 0, 0, 0), "http2-preface", 40)
	for i := range pre {
		m := append([]byte(nil), pre...)
		m[i] ^= 0x20
		do(m, "http2-corrupt")
		do(m[:i+1], "http2-corrupt")
	}
	// random bytes of every small length, half of them steered towards the matchers' first tests
	for i := 0; i < c.N(250, 6000); i++ {
		b := c.Rng.Bytes(c.Rng.Intn(33))
		if c.Rng.Chance(50) && len(b) > 0 {
			switch c.Rng.Intn(6) {
			case 0:
				b[0] = byte(1 + c.Rng.Intn(2))
			case 1:
				copy(b, []byte{0xda, 0xbb})
			case 2:
				if len(b) >= 6 {
					copy(b[4:], []byte{0xda, 0xbc})
				}
			case 3:
				if len(b) >= 6 {
					b[0], b[1], b[2], b[3] = 0, 0, 0, byte(c.Rng.Intn(40))
					b[4] = 0x10
					b[5] = byte(c.Rng.Pick([]int{1, 3, 2}))
				}
			case 4:
				copy(b, []byte(c.Rng.PickS([]string{"GET ", "POST", "PUT ", "HEAD", "OPTI", "CONN", "PATC", "UNLI"})))
			case 5:
				copy(b, pre)
			}
		}
		do(b, "random")
	}
}
