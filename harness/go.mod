module verif/harness

go 1.18

require (
	mosn.io/api v1.6.0
	mosn.io/mosn v1.2.0
)

require (
	github.com/andybalholm/brotli v1.0.4 // indirect
	github.com/antlr/antlr4 v0.0.0-20200503195918-621b933c7a7f // indirect
	github.com/c2h5oh/datasize v0.0.0-20171227191756-4eba002a5eae // indirect
	github.com/cpuguy83/go-md2man/v2 v2.0.0 // indirect
	github.com/dchest/siphash v1.2.1 // indirect
	github.com/ghodss/yaml v1.0.0 // indirect
	github.com/golang/protobuf v1.5.4 // indirect
	github.com/google/cel-go v0.5.1 // indirect
	github.com/hashicorp/go-syslog v1.0.0 // indirect
	github.com/klauspost/compress v1.15.11 // indirect
	github.com/libp2p/go-reuseport v0.4.0 // indirect
	github.com/miekg/dns v1.1.50 // indirect
	github.com/rcrowley/go-metrics v0.0.0-20200313005456-10cdbea86bc0 // indirect
	github.com/russross/blackfriday/v2 v2.0.1 // indirect
	github.com/shurcooL/sanitized_anchor_name v1.0.0 // indirect
	github.com/trainyao/go-maglev v0.0.0-20200611125015-4c1ae64d96a8 // indirect
	github.com/urfave/cli v1.22.1 // indirect
	github.com/valyala/bytebufferpool v1.0.0 // indirect
	github.com/valyala/fasthttp v1.40.0 // indirect
	go.uber.org/atomic v1.7.0 // indirect
	go.uber.org/automaxprocs v1.3.0 // indirect
	golang.org/x/crypto v0.21.0 // indirect
	golang.org/x/net v0.23.0 // indirect
	golang.org/x/sys v0.18.0 // indirect
	golang.org/x/text v0.14.0 // indirect
	golang.org/x/tools v0.7.0 // indirect
	google.golang.org/genproto v0.0.0-20230410155749-daa745c078e1 // indirect
	google.golang.org/protobuf v1.33.0 // indirect
	gopkg.in/natefinch/lumberjack.v2 v2.0.0 // indirect
	gopkg.in/yaml.v2 v2.4.0 // indirect
	mosn.io/pkg v1.6.0 // indirect
	mosn.io/proxy-wasm-go-host v0.2.1-0.20230626122511-25a9e133320e // indirect
)

replace mosn.io/mosn => /repo

replace github.com/envoyproxy/go-control-plane => github.com/envoyproxy/go-control-plane v0.10.0

replace istio.io/api => istio.io/api v0.0.0-20211103171850-665ed2b92d52
