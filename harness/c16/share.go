//go:build verif

// share.go — part D: ONE HEALTH WORD PER ADDRESS FOR THE WHOLE PROCESS, CHECKERS PER CLUSTER (kind sh).
//
// A real cluster manager (cluster.NewClusterManagerSingleton) holds 2-3 clusters whose host sets share addresses; a
// cluster either has a health_check section (its own healthChecker, one session checker per listed address) or has
// none. Everything goes through the manager's exported API:
//
//	U<k>=<addrs>  UpdateClusterHosts(k, hosts)      -> NewSimpleHostHandler -> simpleCluster.UpdateHosts
//	P<k><a>       AppendClusterHosts(k, [a])        -> AppendSimpleHostHandler
//	R<k><a>       RemoveClusterHosts(k, [a])
//	N<k>=<u>.<h>  AddOrUpdatePrimaryCluster(k with a health_check section): CleanOldClusterHandler stops the old
//	              checker, InheritClusterHostsHandler hands the old host set to the new cluster (new session checkers)
//	N<k>=-        AddOrUpdatePrimaryCluster(k WITHOUT a health_check section)
//	r<k><a><sft>  the session checker cluster k keeps for address a completes a check (HandleSuccess / HandleFailure on
//	              the REAL checker startCheck created; its timers are parked). Nothing happens without a live one.
//	o<a>+ / o<a>- another condition's writer (FAILED_OUTLIER_CHECK) through a host object of its own
//
// After every operation: the word of every address (through observer host objects), the callbacks delivered (one digit
// each: changed*4 + isHealthy*2 + FAILED_ACTIVE_HC as the callback's host sees it; callbacks are the COMMON callback every
// health checker picks up from its configuration, so a re-created cluster reports too), and for every cluster its
// current members as its own snapshot lists them, each with Health() of the cluster's own host object.
//
//	C16 sh <u:h|-,…> <w0,w1,…> <ops> => <w0,w1,…:cb:view0|view1|…;…>
package c16

import (
	"fmt"
	"os"
	"path/filepath"
	"sort"
	"strconv"
	"strings"
	"sync"
	"time"

	"mosn.io/api"
	v2 "mosn.io/mosn/pkg/config/v2"
	"mosn.io/mosn/pkg/log"
	"mosn.io/mosn/pkg/types"
	"mosn.io/mosn/pkg/upstream/cluster"
	"mosn.io/mosn/pkg/upstream/healthcheck"
	"verif/harness/hx"
)

type shOp struct {
	kind    byte // U P R N r o
	k, a    int
	hs      []int
	checked bool
	u, h    uint32
	r       byte
	on      bool
}

func (o shOp) String() string {
	switch o.kind {
	case 'U':
		var sb strings.Builder
		fmt.Fprintf(&sb, "U%d=", o.k)
		for _, a := range o.hs {
			fmt.Fprintf(&sb, "%d", a)
		}
		return sb.String()
	case 'P', 'R':
		return fmt.Sprintf("%c%d%d", o.kind, o.k, o.a)
	case 'N':
		if !o.checked {
			return fmt.Sprintf("N%d=-", o.k)
		}
		return fmt.Sprintf("N%d=%d.%d", o.k, o.u, o.h)
	case 'r':
		return fmt.Sprintf("r%d%d%c", o.k, o.a, o.r)
	default:
		if o.on {
			return fmt.Sprintf("o%d+", o.a)
		}
		return fmt.Sprintf("o%d-", o.a)
	}
}

type shCfg struct {
	checked bool
	u, h    uint32
}

type shCase struct {
	cfg   []shCfg
	words []uint64
	ops   []shOp
}

func (cs shCase) tokens() string {
	var cfg, ws, ops []string
	for _, p := range cs.cfg {
		if p.checked {
			cfg = append(cfg, fmt.Sprintf("%d:%d", p.u, p.h))
		} else {
			cfg = append(cfg, "-")
		}
	}
	for _, w := range cs.words {
		ws = append(ws, fmt.Sprint(w))
	}
	for _, o := range cs.ops {
		ops = append(ops, o.String())
	}
	t := strings.Join(ops, ",")
	if t == "" {
		t = "-"
	}
	return "sh " + strings.Join(cfg, ",") + " " + strings.Join(ws, ",") + " " + t
}

func shParseOp(s string) (shOp, bool) {
	d := func(b byte) (int, bool) { return int(b - '0'), b >= '0' && b <= '9' }
	if len(s) < 2 {
		return shOp{}, false
	}
	switch s[0] {
	case 'U':
		k, ok := d(s[1])
		if !ok || len(s) < 3 || s[2] != '=' {
			return shOp{}, false
		}
		o := shOp{kind: 'U', k: k}
		for i := 3; i < len(s); i++ {
			a, ok := d(s[i])
			if !ok {
				return shOp{}, false
			}
			o.hs = append(o.hs, a)
		}
		return o, true
	case 'P', 'R':
		if len(s) != 3 {
			return shOp{}, false
		}
		k, ok1 := d(s[1])
		a, ok2 := d(s[2])
		return shOp{kind: s[0], k: k, a: a}, ok1 && ok2
	case 'N':
		k, ok := d(s[1])
		if !ok || len(s) < 4 || s[2] != '=' {
			return shOp{}, false
		}
		if s[3:] == "-" {
			return shOp{kind: 'N', k: k}, true
		}
		p := strings.Split(s[3:], ".")
		if len(p) != 2 {
			return shOp{}, false
		}
		u, e1 := strconv.Atoi(p[0])
		h, e2 := strconv.Atoi(p[1])
		return shOp{kind: 'N', k: k, checked: true, u: uint32(u), h: uint32(h)}, e1 == nil && e2 == nil
	case 'r':
		if len(s) != 4 {
			return shOp{}, false
		}
		k, ok1 := d(s[1])
		a, ok2 := d(s[2])
		return shOp{kind: 'r', k: k, a: a, r: s[3]}, ok1 && ok2 && strings.ContainsRune("sft", rune(s[3]))
	case 'o':
		if len(s) != 3 {
			return shOp{}, false
		}
		a, ok := d(s[1])
		return shOp{kind: 'o', a: a, on: s[2] == '+'}, ok && (s[2] == '+' || s[2] == '-')
	}
	return shOp{}, false
}

func shParseCase(t []string) (shCase, bool) {
	var cs shCase
	if len(t) != 4 || t[0] != "sh" {
		return cs, false
	}
	for _, p := range strings.Split(t[1], ",") {
		if p == "-" {
			cs.cfg = append(cs.cfg, shCfg{})
			continue
		}
		q := strings.Split(p, ":")
		if len(q) != 2 {
			return cs, false
		}
		u, e1 := strconv.Atoi(q[0])
		h, e2 := strconv.Atoi(q[1])
		if e1 != nil || e2 != nil {
			return cs, false
		}
		cs.cfg = append(cs.cfg, shCfg{checked: true, u: uint32(u), h: uint32(h)})
	}
	for _, p := range strings.Split(t[2], ",") {
		w, err := strconv.Atoi(p)
		if err != nil {
			return cs, false
		}
		cs.words = append(cs.words, uint64(w))
	}
	if t[3] != "-" {
		for _, p := range strings.Split(t[3], ",") {
			o, ok := shParseOp(p)
			if !ok {
				return cs, false
			}
			cs.ops = append(cs.ops, o)
		}
	}
	return cs, true
}

func shAddr(a int) string { return fmt.Sprintf("10.19.7.%d:80", a+1) }
func shName(k int) string { return fmt.Sprintf("c16-sh-%d", k) }

const shCommonCb = "c16-sh-cb"

// shRig: the manager, the observers / outlier writers, the cluster objects the manager published (by name) and the
// callback record
type shRig struct {
	cm       types.ClusterManager
	observer []types.Host
	mu       sync.Mutex
	byName   map[string]types.Cluster
	rec      []byte
}

var shTheRig *shRig

func shGetRig() *shRig {
	if shTheRig != nil {
		return shTheRig
	}
	r := &shRig{byName: map[string]types.Cluster{}}
	r.cm = cluster.NewClusterManagerSingleton(nil, nil, nil)
	for a := 0; a < 10; a++ {
		r.observer = append(r.observer, newHost(shAddr(a)))
	}
	healthcheck.RegisterCommonCallbacks(shCommonCb, func(host types.Host, changed bool, isHealthy bool) {
		d := 0
		if changed {
			d += 4
		}
		if isHealthy {
			d += 2
		}
		if host.ContainHealthFlag(api.FAILED_ACTIVE_HC) {
			d++
		}
		r.mu.Lock()
		r.rec = append(r.rec, byte('0'+d))
		r.mu.Unlock()
	})
	shTheRig = r
	return r
}

func shClusterCfg(k int, c shCfg) v2.Cluster {
	cl := v2.Cluster{Name: shName(k), LbType: v2.LB_RANDOM}
	if c.checked {
		cl.HealthCheck = v2.HealthCheck{
			HealthCheckConfig: v2.HealthCheckConfig{
				Protocol: scriptProto, HealthyThreshold: c.h, UnhealthyThreshold: c.u, ServiceName: "c16-sh",
				CommonCallbacks:     []string{shCommonCb},
				InitialDelaySeconds: api.DurationConfig{Duration: time.Hour},
			},
			Timeout: time.Hour, Interval: time.Hour,
		}
	}
	return cl
}

type shStats struct {
	uncheckedUpdWhileMarked, recreateWhileMarked, firstAfterRecreate, readdWhileMarked, delivered, dropped, flips, twoLive, becameChecked, becameUnchecked int
}

func shHostCfg(a int) v2.Host { return v2.Host{HostConfig: v2.HostConfig{Address: shAddr(a)}} }

// runShare executes one case on fresh clusters of the shared manager; returns the implementation tokens.
func runShare(cs shCase, st *shStats) string {
	rig := shGetRig()
	n := len(cs.words)
	nk := len(cs.cfg)
	cluster.VerifSetPublishHook(func(c types.Cluster, site int) {
		if site == 1 {
			rig.byName[c.Snapshot().ClusterInfo().Name()] = c
		}
	})
	defer cluster.VerifSetPublishHook(nil)
	for a := 0; a < n; a++ {
		setWord(rig.observer[a], cs.words[a])
	}
	var names []string
	checked := make([]bool, nk)
	for k, c := range cs.cfg {
		if err := rig.cm.AddOrUpdatePrimaryCluster(shClusterCfg(k, c)); err != nil {
			return "setup-error"
		}
		names = append(names, shName(k))
		checked[k] = c.checked
	}
	defer func() {
		rig.cm.RemovePrimaryCluster(names...)
		for a := 0; a < n; a++ {
			setWord(rig.observer[a], 0)
		}
	}()
	live := func(k, a int) *healthcheck.VerifChecker {
		cl := rig.byName[shName(k)]
		if cl == nil {
			return nil
		}
		hc := cluster.VerifHealthCheckerOf(cl)
		if hc == nil {
			return nil
		}
		vc := healthcheck.VerifCheckerOf(hc, shAddr(a))
		if vc == nil || vc.Stopped() {
			return nil
		}
		return vc
	}
	marked := func(hs []int) bool {
		for _, a := range hs {
			if a < n && uint64(rig.observer[a].HealthFlag())&1 == 1 {
				return true
			}
		}
		return false
	}
	members := func(k int) []int {
		var l []int
		snap := rig.cm.GetClusterSnapshot(nil, shName(k))
		if snap == nil {
			return nil
		}
		snap.HostSet().Range(func(h types.Host) bool {
			for a := 0; a < n; a++ {
				if h.AddressString() == shAddr(a) {
					l = append(l, a)
				}
			}
			return true
		})
		sort.Ints(l)
		return l
	}
	justRecreated := map[[2]int]bool{}
	var steps []string
	for _, o := range cs.ops {
		rig.mu.Lock()
		rig.rec = rig.rec[:0]
		rig.mu.Unlock()
		if o.k >= nk || o.a >= n {
			return "bad-op"
		}
		switch o.kind {
		case 'U':
			var hosts []v2.Host
			for _, a := range o.hs {
				if a >= n {
					return "bad-op"
				}
				hosts = append(hosts, shHostCfg(a))
			}
			if !checked[o.k] && marked(o.hs) {
				st.uncheckedUpdWhileMarked++
			}
			if checked[o.k] && live(o.k, 0) == nil && marked(o.hs) {
				st.readdWhileMarked++
			}
			rig.cm.UpdateClusterHosts(shName(o.k), hosts)
		case 'P':
			if !checked[o.k] && marked([]int{o.a}) {
				st.uncheckedUpdWhileMarked++
			}
			rig.cm.AppendClusterHosts(shName(o.k), []v2.Host{shHostCfg(o.a)})
		case 'R':
			if !checked[o.k] && marked(members(o.k)) {
				st.uncheckedUpdWhileMarked++
			}
			rig.cm.RemoveClusterHosts(shName(o.k), []string{shAddr(o.a)})
		case 'N':
			mem := members(o.k)
			if marked(mem) {
				if o.checked {
					st.recreateWhileMarked++
				} else {
					st.uncheckedUpdWhileMarked++
				}
			}
			if o.checked && !checked[o.k] {
				st.becameChecked++
			}
			if !o.checked && checked[o.k] {
				st.becameUnchecked++
			}
			if err := rig.cm.AddOrUpdatePrimaryCluster(shClusterCfg(o.k, shCfg{checked: o.checked, u: o.u, h: o.h})); err != nil {
				return "update-error"
			}
			checked[o.k] = o.checked
			if o.checked {
				for _, a := range mem {
					justRecreated[[2]int{o.k, a}] = true
				}
			}
		case 'r':
			if vc := live(o.k, o.a); vc != nil {
				w0 := uint64(rig.observer[o.a].HealthFlag())
				switch o.r {
				case 's':
					vc.HandleSuccess()
				case 'f':
					vc.HandleFailure(types.FailureActive)
				default:
					vc.HandleFailure(types.FailureNetwork)
				}
				st.delivered++
				if justRecreated[[2]int{o.k, o.a}] {
					st.firstAfterRecreate++
					delete(justRecreated, [2]int{o.k, o.a})
				}
				if w0 != uint64(rig.observer[o.a].HealthFlag()) {
					st.flips++
				}
				c := 0
				for k := 0; k < nk; k++ {
					if live(k, o.a) != nil {
						c++
					}
				}
				if c >= 2 {
					st.twoLive++
				}
			} else {
				st.dropped++
			}
		case 'o':
			if o.on {
				rig.observer[o.a].SetHealthFlag(api.FAILED_OUTLIER_CHECK)
			} else {
				rig.observer[o.a].ClearHealthFlag(api.FAILED_OUTLIER_CHECK)
			}
		}
		var ws, vs []string
		for a := 0; a < n; a++ {
			ws = append(ws, fmt.Sprint(uint64(rig.observer[a].HealthFlag())))
		}
		for k := 0; k < nk; k++ {
			type mv struct {
				a int
				h bool
			}
			var l []mv
			if snap := rig.cm.GetClusterSnapshot(nil, shName(k)); snap != nil {
				snap.HostSet().Range(func(h types.Host) bool {
					for a := 0; a < n; a++ {
						if h.AddressString() == shAddr(a) {
							l = append(l, mv{a, h.Health()})
						}
					}
					return true
				})
			}
			sort.Slice(l, func(i, j int) bool { return l[i].a < l[j].a })
			v := ""
			for _, m := range l {
				if m.h {
					v += fmt.Sprintf("%d+", m.a)
				} else {
					v += fmt.Sprintf("%d-", m.a)
				}
			}
			if v == "" {
				v = "."
			}
			vs = append(vs, v)
		}
		rig.mu.Lock()
		cb := "-"
		if len(rig.rec) > 0 {
			cb = string(rig.rec)
		}
		rig.mu.Unlock()
		steps = append(steps, strings.Join(ws, ",")+":"+cb+":"+strings.Join(vs, "|"))
	}
	if len(steps) == 0 {
		return "-"
	}
	return strings.Join(steps, ";")
}

func shEmit(c *hx.Ctx, cs shCase, st *shStats, tag string) {
	var impl string
	if msg, p := hx.Safe(func() { impl = runShare(cs, st) }); p {
		if len(msg) > 60 {
			msg = msg[:60]
		}
		impl = "panic:" + hx.Tok(msg)
	}
	c.Emit("C16", cs.tokens(), impl)
	c.Count("sh." + tag)
	c.Count(fmt.Sprintf("sh.len=%02d", len(cs.ops)))
}

// shCorpus: corpus/C16/*.txt, lines `C16 sh <cfg> <words> <ops>` (the failing inputs of the seeded classes), run first.
func shCorpus(c *hx.Ctx, st *shStats) {
	wd, _ := os.Getwd()
	var files []string
	for _, d := range []string{filepath.Join(wd, "..", "..", "corpus", "C16"), filepath.Join(wd, "corpus", "C16")} {
		m, _ := filepath.Glob(filepath.Join(d, "*.txt"))
		files = append(files, m...)
	}
	sort.Strings(files)
	for _, fn := range files {
		data, err := os.ReadFile(fn)
		if err != nil {
			continue
		}
		for _, line := range strings.Split(string(data), "\n") {
			t := strings.Fields(strings.TrimSpace(line))
			if len(t) >= 5 && t[0] == "C16" && t[1] == "sh" {
				if cs, ok := shParseCase(t[1:5]); ok {
					shEmit(c, cs, st, "corpus")
				}
			}
		}
	}
}

func shFail(k, a, n int) []shOp {
	var l []shOp
	for i := 0; i < n; i++ {
		l = append(l, shOp{kind: 'r', k: k, a: a, r: 'f'})
	}
	return l
}

func shRandomOp(c *hx.Ctx, nk, na int, checked []bool, sets [][]bool, last *shOp) shOp {
	p := c.Rng.Intn(100)
	switch {
	case p < 50:
		o := shOp{kind: 'r', k: c.Rng.Intn(nk), a: c.Rng.Intn(na), r: "sft"[c.Rng.Pick([]int{0, 0, 0, 1, 1, 1, 2})]}
		if last != nil && last.kind == 'r' && c.Rng.Chance(60) {
			o.k, o.a, o.r = last.k, last.a, last.r
			if c.Rng.Chance(20) {
				o.r = "sft"[c.Rng.Intn(3)]
			}
		} else if c.Rng.Chance(80) { // prefer a (k, a) a checked cluster lists
			for try := 0; try < 6 && !(checked[o.k] && sets[o.k][o.a]); try++ {
				o.k, o.a = c.Rng.Intn(nk), c.Rng.Intn(na)
			}
		}
		return o
	case p < 66:
		k := c.Rng.Intn(nk)
		o := shOp{kind: 'U', k: k}
		if c.Rng.Chance(60) {
			for a := 0; a < na; a++ { // the same set again, or one address toggled
				if sets[k][a] {
					o.hs = append(o.hs, a)
				}
			}
			if c.Rng.Chance(60) {
				t := c.Rng.Intn(na)
				o.hs = o.hs[:0]
				for a := 0; a < na; a++ {
					if sets[k][a] != (a == t) {
						o.hs = append(o.hs, a)
					}
				}
			}
		} else {
			for a := 0; a < na; a++ {
				if c.Rng.Bool() {
					o.hs = append(o.hs, a)
				}
			}
		}
		return o
	case p < 74:
		k, a := c.Rng.Intn(nk), c.Rng.Intn(na)
		if sets[k][a] {
			return shOp{kind: 'R', k: k, a: a}
		}
		return shOp{kind: 'P', k: k, a: a}
	case p < 78:
		return shOp{kind: 'R', k: c.Rng.Intn(nk), a: c.Rng.Intn(na)}
	case p < 92:
		if c.Rng.Chance(40) {
			return shOp{kind: 'N', k: c.Rng.Intn(nk)}
		}
		return shOp{kind: 'N', k: c.Rng.Intn(nk), checked: true, u: uint32(c.Rng.Intn(4)), h: uint32(c.Rng.Intn(4))}
	default:
		return shOp{kind: 'o', a: c.Rng.Intn(na), on: c.Rng.Bool()}
	}
}

func shApply(checked []bool, sets [][]bool, o shOp) {
	switch o.kind {
	case 'U':
		for a := range sets[o.k] {
			sets[o.k][a] = false
		}
		for _, a := range o.hs {
			sets[o.k][a] = true
		}
	case 'P':
		sets[o.k][o.a] = true
	case 'R':
		sets[o.k][o.a] = false
	case 'N':
		checked[o.k] = o.checked
	}
}

func shRandomCase(c *hx.Ctx, maxLen int) shCase {
	nk, na := 2+c.Rng.Intn(2), 1+c.Rng.Intn(3)
	var cs shCase
	cs.cfg = append(cs.cfg, shCfg{checked: true, u: uint32(c.Rng.Intn(4)), h: uint32(c.Rng.Intn(4))})
	for k := 1; k < nk; k++ {
		if c.Rng.Chance(55) {
			cs.cfg = append(cs.cfg, shCfg{})
		} else {
			cs.cfg = append(cs.cfg, shCfg{checked: true, u: uint32(c.Rng.Intn(4)), h: uint32(c.Rng.Intn(4))})
		}
	}
	for a := 0; a < na; a++ {
		w := uint64(0)
		if c.Rng.Chance(25) {
			w = uint64(c.Rng.Intn(4))
		}
		cs.words = append(cs.words, w)
	}
	checked := make([]bool, nk)
	sets := make([][]bool, nk)
	for k := range sets {
		sets[k] = make([]bool, na)
		checked[k] = cs.cfg[k].checked
	}
	add := func(o shOp) {
		cs.ops = append(cs.ops, o)
		shApply(checked, sets, o)
	}
	u0 := lcEff(cs.cfg[0].u)
	switch c.Rng.Intn(6) {
	case 0: // (i) the checked cluster marks the host; the OTHER cluster's host set is updated / re-configured
		add(shOp{kind: 'U', k: 0, hs: []int{0}})
		add(shOp{kind: 'U', k: 1, hs: []int{0}})
		for _, o := range shFail(0, 0, u0) {
			add(o)
		}
		switch c.Rng.Intn(4) {
		case 0:
			add(shOp{kind: 'U', k: 1, hs: []int{0}})
		case 1:
			add(shOp{kind: 'R', k: 1, a: 0})
			add(shOp{kind: 'P', k: 1, a: 0})
		case 2:
			add(shOp{kind: 'N', k: 1})
		default:
			add(shOp{kind: 'U', k: 1})
		}
	case 1: // (ii) cluster update while the address is marked: a new checker with new thresholds, then results
		add(shOp{kind: 'U', k: 0, hs: []int{0}})
		for _, o := range shFail(0, 0, u0) {
			add(o)
		}
		nu, nh := uint32(c.Rng.Intn(4)), uint32(c.Rng.Intn(4))
		add(shOp{kind: 'N', k: 0, checked: true, u: nu, h: nh})
		r := "sf"[c.Rng.Intn(2)]
		for i := 0; i < 1+c.Rng.Intn(3); i++ {
			add(shOp{kind: 'r', k: 0, a: 0, r: r})
		}
	case 2: // (iv) removal and re-add of the marked address, in the checked cluster and in another one
		add(shOp{kind: 'U', k: 0, hs: []int{0}})
		add(shOp{kind: 'U', k: 1, hs: []int{0}})
		for _, o := range shFail(0, 0, u0) {
			add(o)
		}
		k := c.Rng.Intn(2)
		add(shOp{kind: 'R', k: k, a: 0})
		add(shOp{kind: 'P', k: k, a: 0})
		add(shOp{kind: 'r', k: 0, a: 0, r: 's'})
	case 3: // an unchecked cluster becomes checked while it lists a marked address; a checked one loses its section
		add(shOp{kind: 'U', k: 0, hs: []int{0}})
		add(shOp{kind: 'U', k: 1, hs: []int{0}})
		for _, o := range shFail(0, 0, c.Rng.Intn(u0+1)) {
			add(o)
		}
		if c.Rng.Bool() {
			add(shOp{kind: 'N', k: 1, checked: true, u: uint32(c.Rng.Intn(3)), h: uint32(c.Rng.Intn(3))})
			add(shOp{kind: 'r', k: 1, a: 0, r: "sf"[c.Rng.Intn(2)]})
		} else {
			add(shOp{kind: 'N', k: 0})
			add(shOp{kind: 'r', k: 0, a: 0, r: 's'})
		}
	}
	var last *shOp
	if len(cs.ops) > 0 {
		last = &cs.ops[len(cs.ops)-1]
	}
	for len(cs.ops) < maxLen {
		add(shRandomOp(c, nk, na, checked, sets, last))
		last = &cs.ops[len(cs.ops)-1]
	}
	return cs
}

func runShareKind(c *hx.Ctx) {
	st := &shStats{}
	lvl := log.DefaultLogger.GetLogLevel()
	log.DefaultLogger.SetLogLevel(log.ERROR)
	defer log.DefaultLogger.SetLogLevel(lvl)
	shCorpus(c, st)
	// (1) exhaustive: cluster 0 health-checked, cluster 1 WITHOUT a checker, both list address 0; after a prefix that
	// leaves the host one failure short of / at the unhealthy threshold, EVERY list of length L over the alphabet
	alpha := []shOp{
		{kind: 'U', k: 1, hs: []int{0}}, {kind: 'U', k: 1}, {kind: 'R', k: 1, a: 0}, {kind: 'P', k: 1, a: 0},
		{kind: 'N', k: 1}, {kind: 'N', k: 1, checked: true, u: 1, h: 1},
		{kind: 'N', k: 0, checked: true, u: 2, h: 2}, {kind: 'R', k: 0, a: 0}, {kind: 'P', k: 0, a: 0},
		{kind: 'r', k: 0, a: 0, r: 's'}, {kind: 'r', k: 0, a: 0, r: 'f'}, {kind: 'r', k: 1, a: 0, r: 's'},
	}
	L := c.N(3, 4)
	for _, th := range [][2]uint32{{1, 1}, {2, 1}, {1, 2}, {2, 3}} {
		both := []shOp{{kind: 'U', k: 0, hs: []int{0}}, {kind: 'U', k: 1, hs: []int{0}}}
		prefixes := [][]shOp{
			append(append([]shOp{}, both...), shFail(0, 0, int(th[0])-1)...),
			append(append([]shOp{}, both...), shFail(0, 0, int(th[0]))...),
		}
		for _, pre := range prefixes {
			var rec func(cur []shOp, depth int)
			rec = func(cur []shOp, depth int) {
				if depth == 0 {
					shEmit(c, shCase{cfg: []shCfg{{checked: true, u: th[0], h: th[1]}, {}}, words: []uint64{0}, ops: append(append([]shOp{}, pre...), cur...)}, st, "exhaustive")
					return
				}
				for _, o := range alpha {
					rec(append(cur, o), depth-1)
				}
			}
			rec(nil, L)
		}
	}
	// (1b) the histories the property's clauses name, for thresholds up to 3 x 3 with a bystander cluster of either sort:
	// F^u S^j F^u (interrupted recovery: the second run of failures must not report a second transition) and
	// F^u N S^h (re-created checker: heals at exactly the h-th success of the NEW checker, first result silent unless h = 1)
	for u := uint32(1); u <= 3; u++ {
		for h := uint32(1); h <= 3; h++ {
			for _, by := range []shCfg{{}, {checked: true, u: 3, h: 3}} {
				base := []shOp{{kind: 'U', k: 0, hs: []int{0}}, {kind: 'U', k: 1, hs: []int{0}}}
				for j := uint32(0); j <= h; j++ {
					ops := append(append([]shOp{}, base...), shFail(0, 0, int(u))...)
					for i := uint32(0); i < j; i++ {
						ops = append(ops, shOp{kind: 'r', k: 0, a: 0, r: 's'})
					}
					ops = append(ops, shOp{kind: 'U', k: 1, hs: []int{0}})
					ops = append(ops, shFail(0, 0, int(u)+1)...)
					shEmit(c, shCase{cfg: []shCfg{{checked: true, u: u, h: h}, by}, words: []uint64{0}, ops: ops}, st, "boundary")
				}
				for nu := uint32(1); nu <= 2; nu++ {
					for _, first := range []byte{'s', 'f'} {
						ops := append(append([]shOp{}, base...), shFail(0, 0, int(u))...)
						ops = append(ops, shOp{kind: 'N', k: 0, checked: true, u: nu, h: h})
						ops = append(ops, shOp{kind: 'r', k: 0, a: 0, r: first})
						for i := uint32(0); i <= h; i++ {
							ops = append(ops, shOp{kind: 'r', k: 0, a: 0, r: 's'})
						}
						shEmit(c, shCase{cfg: []shCfg{{checked: true, u: u, h: h}, by}, words: []uint64{0}, ops: ops}, st, "boundary")
					}
				}
			}
		}
	}
	// (2) seeded scenarios + random operation lists
	for i := 0; i < c.N(2500, 25000); i++ {
		shEmit(c, shRandomCase(c, 4+c.Rng.Intn(9)), st, "random")
	}
	cnt := func(key string, n int) {
		for i := 0; i < n; i++ {
			c.Count(key)
		}
	}
	cnt("sh.ev.update_of_uncheck_cluster_listing_marked_address", st.uncheckedUpdWhileMarked)
	cnt("sh.ev.cluster_update_recreates_checker_of_marked_address", st.recreateWhileMarked)
	cnt("sh.ev.first_result_after_recreation", st.firstAfterRecreate)
	cnt("sh.ev.readd_of_marked_address", st.readdWhileMarked)
	cnt("sh.ev.cluster_gains_health_check", st.becameChecked)
	cnt("sh.ev.cluster_loses_health_check", st.becameUnchecked)
	cnt("sh.ev.result_delivered", st.delivered)
	cnt("sh.ev.result_without_live_checker", st.dropped)
	cnt("sh.ev.result_with_two_live_checkers", st.twoLive)
	cnt("sh.ev.flag_transitions", st.flips)
}
