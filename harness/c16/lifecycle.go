//go:build verif

// lifecycle.go — part C: the LIFE CYCLE of the active health checker (kind lc).
//
// Several real clusters (cluster.NewCluster with a health_check section -> healthcheck.CreateHealthCheck) contain hosts
// of the same addresses; the host objects of an address share its health word, every cluster has its own session
// checker (own counters) per address. An operation list drives them through the exported paths only:
//
//	h<k>=<addrs>  cluster k: UpdateHosts(NewHostSet(fresh host objects)) -> SetHealthCheckerHostSet -> startCheck / stopCheck
//	x<k>          cluster k: StopHealthChecking() -> healthChecker.Stop -> stopCheck of every listed host
//	n<k>=<u>.<h>  cluster k is replaced (cluster update): StopHealthChecking() of the old one, NewCluster with the new thresholds
//	r<k><a><sft>  the session checker cluster k keeps for address a (the REAL one startCheck made; verif hook VerifCheckerOf)
//	              completes a check: HandleSuccess / HandleFailure(active) / HandleFailure(network) called directly — the
//	              checker's own timers are parked (initial delay one hour). Nothing is delivered to a missing / stopped one.
//	o<a>+ / o<a>- another condition's writer sets / clears FAILED_OUTLIER_CHECK through its own host object
//
// After every operation: the word of every address, the callback(s) delivered, every cluster's localProcessHealthy.
//
//	C16 lc <u:h,…> <w0,w1,…> <ops> => <w0,w1,…:cb:l0,l1,…;…>
package c16

import (
	"bufio"
	"fmt"
	"os"
	"path/filepath"
	"sort"
	"strconv"
	"strings"
	"time"

	"mosn.io/api"
	v2 "mosn.io/mosn/pkg/config/v2"
	"mosn.io/mosn/pkg/log"
	"mosn.io/mosn/pkg/types"
	"mosn.io/mosn/pkg/upstream/cluster"
	"mosn.io/mosn/pkg/upstream/healthcheck"
	"verif/harness/hx"
)

type lcOp struct {
	kind byte // h x n r o
	k, a int
	hs   []int
	u, h uint32
	r    byte
	on   bool
}

func (o lcOp) String() string {
	switch o.kind {
	case 'h':
		var sb strings.Builder
		fmt.Fprintf(&sb, "h%d=", o.k)
		for _, a := range o.hs {
			fmt.Fprintf(&sb, "%d", a)
		}
		return sb.String()
	case 'x':
		return fmt.Sprintf("x%d", o.k)
	case 'n':
		return fmt.Sprintf("n%d=%d.%d", o.k, o.u, o.h)
	case 'r':
		return fmt.Sprintf("r%d%d%c", o.k, o.a, o.r)
	default:
		if o.on {
			return fmt.Sprintf("o%d+", o.a)
		}
		return fmt.Sprintf("o%d-", o.a)
	}
}

func lcParseOp(s string) (lcOp, bool) {
	d := func(b byte) (int, bool) { return int(b - '0'), b >= '0' && b <= '9' }
	if len(s) < 2 {
		return lcOp{}, false
	}
	switch s[0] {
	case 'h':
		k, ok := d(s[1])
		if !ok || len(s) < 3 || s[2] != '=' {
			return lcOp{}, false
		}
		o := lcOp{kind: 'h', k: k}
		for i := 3; i < len(s); i++ {
			a, ok := d(s[i])
			if !ok {
				return lcOp{}, false
			}
			o.hs = append(o.hs, a)
		}
		return o, true
	case 'x':
		k, ok := d(s[1])
		return lcOp{kind: 'x', k: k}, ok && len(s) == 2
	case 'n':
		k, ok := d(s[1])
		if !ok || len(s) < 3 || s[2] != '=' {
			return lcOp{}, false
		}
		p := strings.Split(s[3:], ".")
		if len(p) != 2 {
			return lcOp{}, false
		}
		u, e1 := strconv.Atoi(p[0])
		h, e2 := strconv.Atoi(p[1])
		return lcOp{kind: 'n', k: k, u: uint32(u), h: uint32(h)}, e1 == nil && e2 == nil
	case 'r':
		if len(s) != 4 {
			return lcOp{}, false
		}
		k, ok1 := d(s[1])
		a, ok2 := d(s[2])
		return lcOp{kind: 'r', k: k, a: a, r: s[3]}, ok1 && ok2 && strings.ContainsRune("sft", rune(s[3]))
	case 'o':
		if len(s) != 3 {
			return lcOp{}, false
		}
		a, ok := d(s[1])
		return lcOp{kind: 'o', a: a, on: s[2] == '+'}, ok && (s[2] == '+' || s[2] == '-')
	}
	return lcOp{}, false
}

func lcAddr(a int) string { return fmt.Sprintf("10.19.0.%d:80", a+1) }

type lcCase struct {
	cfg   [][2]uint32
	words []uint64
	ops   []lcOp
}

func (cs lcCase) tokens() string {
	var cfg, ws, ops []string
	for _, p := range cs.cfg {
		cfg = append(cfg, fmt.Sprintf("%d:%d", p[0], p[1]))
	}
	for _, w := range cs.words {
		ws = append(ws, fmt.Sprint(w))
	}
	for _, o := range cs.ops {
		ops = append(ops, o.String())
	}
	t := strings.Join(ops, ",")
	if t == "" {
		t = "-"
	}
	return "lc " + strings.Join(cfg, ",") + " " + strings.Join(ws, ",") + " " + t
}

func lcParseCase(t []string) (lcCase, bool) {
	// t = ["lc", cfg, words, ops]
	var cs lcCase
	if len(t) != 4 || t[0] != "lc" {
		return cs, false
	}
	for _, p := range strings.Split(t[1], ",") {
		q := strings.Split(p, ":")
		if len(q) != 2 {
			return cs, false
		}
		u, e1 := strconv.Atoi(q[0])
		h, e2 := strconv.Atoi(q[1])
		if e1 != nil || e2 != nil {
			return cs, false
		}
		cs.cfg = append(cs.cfg, [2]uint32{uint32(u), uint32(h)})
	}
	for _, p := range strings.Split(t[2], ",") {
		w, err := strconv.Atoi(p)
		if err != nil {
			return cs, false
		}
		cs.words = append(cs.words, uint64(w))
	}
	if t[3] != "-" {
		for _, p := range strings.Split(t[3], ",") {
			o, ok := lcParseOp(p)
			if !ok {
				return cs, false
			}
			cs.ops = append(cs.ops, o)
		}
	}
	return cs, true
}

// lcRig: the observers / outlier writers of the fixed addresses (host objects of their own, as another cluster's would be)
type lcRig struct {
	observer []types.Host
	gen      int
}

var lcTheRig *lcRig

func lcGetRig() *lcRig {
	if lcTheRig == nil {
		lcTheRig = &lcRig{}
		for a := 0; a < 10; a++ {
			lcTheRig.observer = append(lcTheRig.observer, newHost(lcAddr(a)))
		}
	}
	return lcTheRig
}

func lcNewCluster(k int, u, h uint32, rec *[]byte) types.Cluster {
	cl := cluster.NewCluster(v2.Cluster{
		Name:   fmt.Sprintf("c16-lc-%d", k),
		LbType: v2.LB_RANDOM,
		HealthCheck: v2.HealthCheck{
			HealthCheckConfig: v2.HealthCheckConfig{
				Protocol: scriptProto, HealthyThreshold: h, UnhealthyThreshold: u, ServiceName: "c16-lc",
				// the checker goroutines are real, their timers are parked: results are handed over directly
				InitialDelaySeconds: api.DurationConfig{Duration: time.Hour},
			},
			Timeout: time.Hour, Interval: time.Hour,
		},
	})
	cl.AddHealthCheckCallbacks(func(host types.Host, changed bool, isHealthy bool) {
		d := 0
		if changed {
			d += 4
		}
		if isHealthy {
			d += 2
		}
		if host.ContainHealthFlag(api.FAILED_ACTIVE_HC) {
			d++
		}
		*rec = append(*rec, byte('0'+d))
	})
	return cl
}

type lcStats struct {
	stopUnhealthy, readd, stopOnly, twoLive, delivered, dropped, flips int
}

// runLifecycle executes one case on fresh clusters; returns the implementation tokens.
func runLifecycle(cs lcCase, st *lcStats) string {
	rig := lcGetRig()
	n := len(cs.words)
	for a := 0; a < n; a++ {
		setWord(rig.observer[a], cs.words[a])
	}
	var rec []byte
	clusters := make([]types.Cluster, len(cs.cfg))
	for k := range cs.cfg {
		clusters[k] = lcNewCluster(k, cs.cfg[k][0], cs.cfg[k][1], &rec)
	}
	defer func() {
		for _, cl := range clusters {
			cl.StopHealthChecking()
		}
	}()
	live := func(k, a int) *healthcheck.VerifChecker {
		hc := cluster.VerifHealthCheckerOf(clusters[k])
		if hc == nil {
			return nil
		}
		vc := healthcheck.VerifCheckerOf(hc, lcAddr(a))
		if vc == nil || vc.Stopped() {
			return nil
		}
		return vc
	}
	liveCount := func(a int) int {
		c := 0
		for k := range clusters {
			if live(k, a) != nil {
				c++
			}
		}
		return c
	}
	everLive := map[[2]int]bool{}
	var steps []string
	for _, o := range cs.ops {
		rec = rec[:0]
		if o.k >= len(clusters) || o.a >= n {
			return "bad-op"
		}
		// bookkeeping for the distribution only
		before := make([][]bool, len(clusters))
		for k := range clusters {
			before[k] = make([]bool, n)
			for a := 0; a < n; a++ {
				before[k][a] = live(k, a) != nil
			}
		}
		switch o.kind {
		case 'h':
			var hosts []types.Host
			for _, a := range o.hs {
				if a >= n {
					return "bad-op"
				}
				// a fresh host object per update, as a cluster host update builds them; it shares the word of its address
				hosts = append(hosts, newHost(lcAddr(a)))
			}
			clusters[o.k].UpdateHosts(cluster.NewHostSet(hosts))
		case 'x':
			clusters[o.k].StopHealthChecking()
		case 'n':
			clusters[o.k].StopHealthChecking()
			clusters[o.k] = lcNewCluster(o.k, o.u, o.h, &rec)
		case 'r':
			if vc := live(o.k, o.a); vc != nil {
				w0 := uint64(rig.observer[o.a].HealthFlag())
				switch o.r {
				case 's':
					vc.HandleSuccess()
				case 'f':
					vc.HandleFailure(types.FailureActive)
				default:
					vc.HandleFailure(types.FailureNetwork)
				}
				st.delivered++
				if w0 != uint64(rig.observer[o.a].HealthFlag()) {
					st.flips++
				}
				if liveCount(o.a) >= 2 {
					st.twoLive++
				}
			} else {
				st.dropped++
			}
		case 'o':
			if o.on {
				rig.observer[o.a].SetHealthFlag(api.FAILED_OUTLIER_CHECK)
			} else {
				rig.observer[o.a].ClearHealthFlag(api.FAILED_OUTLIER_CHECK)
			}
		}
		for k := range clusters {
			for a := 0; a < n; a++ {
				now := live(k, a) != nil
				if before[k][a] && !now {
					if uint64(rig.observer[a].HealthFlag())&1 == 1 {
						st.stopUnhealthy++
					}
					if liveCount(a) == 0 {
						st.stopOnly++
					}
				}
				if !before[k][a] && now {
					if everLive[[2]int{k, a}] {
						st.readd++
					}
					everLive[[2]int{k, a}] = true
				}
			}
		}
		var ws, ls []string
		for a := 0; a < n; a++ {
			ws = append(ws, fmt.Sprint(uint64(rig.observer[a].HealthFlag())))
		}
		for k := range clusters {
			ls = append(ls, fmt.Sprint(healthcheck.VerifLocalHealthy(cluster.VerifHealthCheckerOf(clusters[k]))))
		}
		cb := "-"
		if len(rec) > 0 {
			cb = string(rec)
		}
		steps = append(steps, strings.Join(ws, ",")+":"+cb+":"+strings.Join(ls, ","))
	}
	if len(steps) == 0 {
		return "-"
	}
	return strings.Join(steps, ";")
}

func lcEmit(c *hx.Ctx, cs lcCase, st *lcStats, tag string) {
	var impl string
	if msg, p := hx.Safe(func() { impl = runLifecycle(cs, st) }); p {
		if len(msg) > 60 {
			msg = msg[:60]
		}
		impl = "panic:" + hx.Tok(msg)
	}
	c.Emit("C16", cs.tokens(), impl)
	c.Count("lc." + tag)
	c.Count(fmt.Sprintf("lc.len=%02d", len(cs.ops)))
}

// lcCorpus: corpus/C16/*.txt, lines `C16 lc <cfg> <words> <ops>` (minimised past failures), run first.
func lcCorpus(c *hx.Ctx, st *lcStats) {
	wd, _ := os.Getwd()
	var files []string
	for _, d := range []string{filepath.Join(wd, "..", "..", "corpus", "C16"), filepath.Join(wd, "corpus", "C16")} {
		m, _ := filepath.Glob(filepath.Join(d, "*.txt"))
		files = append(files, m...)
	}
	sort.Strings(files)
	for _, fn := range files {
		fh, err := os.Open(fn)
		if err != nil {
			continue
		}
		sc := bufio.NewScanner(fh)
		for sc.Scan() {
			line := strings.TrimSpace(sc.Text())
			if line == "" || strings.HasPrefix(line, "#") {
				continue
			}
			t := strings.Fields(line)
			if len(t) >= 5 && t[0] == "C16" && t[1] == "lc" {
				if cs, ok := lcParseCase(t[1:5]); ok {
					lcEmit(c, cs, st, "corpus")
				}
			}
		}
		fh.Close()
	}
}

func lcFail(k, a int, n int) []lcOp {
	var l []lcOp
	for i := 0; i < n; i++ {
		l = append(l, lcOp{kind: 'r', k: k, a: a, r: 'f'})
	}
	return l
}

func lcEff(x uint32) int {
	if x == 0 {
		return 1
	}
	return int(x)
}

// lcRandomOp: one operation, biased towards results that continue / break the current run on a live checker
func lcRandomOp(c *hx.Ctx, nk, na int, sets [][]bool, last *lcOp) lcOp {
	p := c.Rng.Intn(100)
	switch {
	case p < 58:
		o := lcOp{kind: 'r', k: c.Rng.Intn(nk), a: c.Rng.Intn(na), r: "sft"[c.Rng.Pick([]int{0, 0, 0, 1, 1, 1, 2})]}
		if last != nil && last.kind == 'r' && c.Rng.Chance(60) { // keep the run going on the same checker
			o.k, o.a, o.r = last.k, last.a, last.r
			if c.Rng.Chance(20) {
				o.r = "sft"[c.Rng.Intn(3)]
			}
		} else if c.Rng.Chance(70) { // prefer a (k, a) the cluster lists
			for try := 0; try < 4 && !sets[o.k][o.a]; try++ {
				o.k, o.a = c.Rng.Intn(nk), c.Rng.Intn(na)
			}
		}
		return o
	case p < 80:
		k := c.Rng.Intn(nk)
		o := lcOp{kind: 'h', k: k}
		if c.Rng.Chance(75) { // toggle one address
			t := c.Rng.Intn(na)
			for a := 0; a < na; a++ {
				if sets[k][a] != (a == t) {
					o.hs = append(o.hs, a)
				}
			}
		} else {
			for a := 0; a < na; a++ {
				if c.Rng.Bool() {
					o.hs = append(o.hs, a)
				}
			}
		}
		if c.Rng.Chance(30) { // order of the new set is immaterial: shuffle
			for i := len(o.hs) - 1; i > 0; i-- {
				j := c.Rng.Intn(i + 1)
				o.hs[i], o.hs[j] = o.hs[j], o.hs[i]
			}
		}
		return o
	case p < 87:
		return lcOp{kind: 'x', k: c.Rng.Intn(nk)}
	case p < 92:
		return lcOp{kind: 'n', k: c.Rng.Intn(nk), u: uint32(c.Rng.Intn(4)), h: uint32(c.Rng.Intn(4))}
	default:
		return lcOp{kind: 'o', a: c.Rng.Intn(na), on: c.Rng.Bool()}
	}
}

func lcApplySets(sets [][]bool, o lcOp) {
	switch o.kind {
	case 'h':
		for a := range sets[o.k] {
			sets[o.k][a] = false
		}
		for _, a := range o.hs {
			sets[o.k][a] = true
		}
	case 'n':
		for a := range sets[o.k] {
			sets[o.k][a] = false
		}
	}
}

func lcRandomCase(c *hx.Ctx, maxLen int) lcCase {
	nk, na := 2+c.Rng.Intn(2), 1+c.Rng.Intn(3)
	var cs lcCase
	for k := 0; k < nk; k++ {
		cs.cfg = append(cs.cfg, [2]uint32{uint32(c.Rng.Intn(4)), uint32(c.Rng.Intn(4))})
	}
	for a := 0; a < na; a++ {
		w := uint64(0)
		if c.Rng.Chance(25) {
			w = uint64(c.Rng.Intn(4))
		}
		cs.words = append(cs.words, w)
	}
	sets := make([][]bool, nk)
	for k := range sets {
		sets[k] = make([]bool, na)
	}
	add := func(o lcOp) {
		cs.ops = append(cs.ops, o)
		lcApplySets(sets, o)
	}
	u0 := lcEff(cs.cfg[0][0])
	// scenario prefixes: the situations the property's life-cycle clauses name
	switch c.Rng.Intn(6) {
	case 0: // two clusters share address 0; it is driven unhealthy; one of the two checkers goes away while checks keep failing
		add(lcOp{kind: 'h', k: 0, hs: []int{0}})
		add(lcOp{kind: 'h', k: 1, hs: []int{0}})
		for _, o := range lcFail(0, 0, u0) {
			add(o)
		}
		switch c.Rng.Intn(3) {
		case 0:
			add(lcOp{kind: 'h', k: 1})
		case 1:
			add(lcOp{kind: 'x', k: 1})
		default:
			add(lcOp{kind: 'n', k: 1, u: uint32(c.Rng.Intn(3)), h: uint32(c.Rng.Intn(3))})
		}
		for _, o := range lcFail(0, 0, 1+c.Rng.Intn(2)) {
			add(o)
		}
	case 1: // remove and re-add in one cluster, while unhealthy
		add(lcOp{kind: 'h', k: 0, hs: []int{0}})
		for _, o := range lcFail(0, 0, u0) {
			add(o)
		}
		add(lcOp{kind: 'h', k: 0})
		add(lcOp{kind: 'h', k: 0, hs: []int{0}})
	case 2: // stop of the only checker; a stopped health checker does not resume the hosts it still lists
		add(lcOp{kind: 'h', k: 0, hs: []int{0}})
		for _, o := range lcFail(0, 0, c.Rng.Intn(u0+1)) {
			add(o)
		}
		add(lcOp{kind: 'x', k: 0})
		add(lcOp{kind: 'h', k: 0, hs: []int{0}})
		add(lcOp{kind: 'r', k: 0, a: 0, r: "sf"[c.Rng.Intn(2)]})
	case 3: // cluster update: new checker object, host set re-applied
		add(lcOp{kind: 'h', k: 0, hs: []int{0}})
		for _, o := range lcFail(0, 0, c.Rng.Intn(u0+1)) {
			add(o)
		}
		add(lcOp{kind: 'n', k: 0, u: uint32(c.Rng.Intn(3)), h: uint32(c.Rng.Intn(3))})
		add(lcOp{kind: 'h', k: 0, hs: []int{0}})
	case 4: // an address of its own for cluster 0 next to the shared one
		if na >= 2 {
			add(lcOp{kind: 'h', k: 0, hs: []int{0, 1}})
			add(lcOp{kind: 'h', k: 1, hs: []int{0}})
		}
	}
	var last *lcOp
	if len(cs.ops) > 0 {
		last = &cs.ops[len(cs.ops)-1]
	}
	for len(cs.ops) < maxLen {
		o := lcRandomOp(c, nk, na, sets, last)
		add(o)
		last = &cs.ops[len(cs.ops)-1]
	}
	if len(cs.ops) > maxLen {
		cs.ops = cs.ops[:maxLen]
	}
	return cs
}

func runLifecycleKind(c *hx.Ctx) {
	st := &lcStats{}
	// every start / stop of a session checker writes an INFO line: keep the run quiet
	lvl := log.DefaultLogger.GetLogLevel()
	log.DefaultLogger.SetLogLevel(log.ERROR)
	defer log.DefaultLogger.SetLogLevel(lvl)
	lcCorpus(c, st)
	// (1) exhaustive: two clusters sharing ONE address; after a prefix that installs both checkers and drives the host
	// to the edge of / over the unhealthy threshold, EVERY operation list of length <= L over the whole alphabet
	alpha := []lcOp{
		{kind: 'h', k: 0, hs: []int{0}}, {kind: 'h', k: 0}, {kind: 'h', k: 1, hs: []int{0}}, {kind: 'h', k: 1},
		{kind: 'x', k: 0}, {kind: 'x', k: 1},
		{kind: 'r', k: 0, a: 0, r: 's'}, {kind: 'r', k: 0, a: 0, r: 'f'}, {kind: 'r', k: 1, a: 0, r: 's'}, {kind: 'r', k: 1, a: 0, r: 'f'},
	}
	L := c.N(3, 4)
	deep := -1 // thorough: one threshold pair per seed gets length 5
	if c.Thorough() {
		deep = c.Rng.Intn(4)
	}
	for ti, th := range [][2]uint32{{1, 1}, {2, 1}, {1, 2}, {2, 2}} {
		L := L
		if ti == deep {
			L = 5
		}
		both := []lcOp{{kind: 'h', k: 0, hs: []int{0}}, {kind: 'h', k: 1, hs: []int{0}}}
		prefixes := [][]lcOp{
			nil,
			append(append([]lcOp{}, both...), lcFail(0, 0, int(th[0])-1)...),
			append(append([]lcOp{}, both...), lcFail(0, 0, int(th[0]))...),
			append(append(append([]lcOp{}, both...), lcFail(0, 0, int(th[0]))...), lcFail(1, 0, int(th[0]))...),
		}
		for _, pre := range prefixes {
			var rec func(cur []lcOp, depth int)
			rec = func(cur []lcOp, depth int) {
				if depth == 0 {
					lcEmit(c, lcCase{cfg: [][2]uint32{th, th}, words: []uint64{0}, ops: append(append([]lcOp{}, pre...), cur...)}, st, "exhaustive")
					return
				}
				for _, o := range alpha {
					rec(append(cur, o), depth-1)
				}
			}
			// every list of length exactly L (all shorter ones are prefixes: the trace holds every intermediate state)
			rec(nil, L)
		}
	}
	// (1b) exhaustive, ONE cluster owning the address alone (the exactness clause applies): add / remove / stop / success /
	// failure, every list of length 4 (thorough 6) after: nothing; the checker one failure short of / at the threshold
	alpha1 := []lcOp{
		{kind: 'h', k: 0, hs: []int{0}}, {kind: 'h', k: 0}, {kind: 'x', k: 0},
		{kind: 'r', k: 0, a: 0, r: 's'}, {kind: 'r', k: 0, a: 0, r: 'f'},
	}
	L1 := c.N(4, 6)
	for _, th := range [][2]uint32{{1, 1}, {2, 1}, {1, 2}, {2, 2}, {3, 2}} {
		one := []lcOp{{kind: 'h', k: 0, hs: []int{0}}}
		prefixes := [][]lcOp{
			nil,
			append(append([]lcOp{}, one...), lcFail(0, 0, int(th[0])-1)...),
			append(append([]lcOp{}, one...), lcFail(0, 0, int(th[0]))...),
		}
		for _, pre := range prefixes {
			var rec func(cur []lcOp, depth int)
			rec = func(cur []lcOp, depth int) {
				if depth == 0 {
					lcEmit(c, lcCase{cfg: [][2]uint32{th}, words: []uint64{0}, ops: append(append([]lcOp{}, pre...), cur...)}, st, "exhaustive1")
					return
				}
				for _, o := range alpha1 {
					rec(append(cur, o), depth-1)
				}
			}
			rec(nil, L1)
		}
	}
	// (2) seeded scenarios + random operation lists, length <= 12, 2-3 clusters, 1-3 addresses, thresholds 0..3
	for i := 0; i < c.N(3000, 30000); i++ {
		lcEmit(c, lcRandomCase(c, 4+c.Rng.Intn(9)), st, "random")
	}
	cnt := func(key string, n int) {
		for i := 0; i < n; i++ {
			c.Count(key)
		}
	}
	cnt("lc.ev.checker_removed_while_unhealthy", st.stopUnhealthy)
	cnt("lc.ev.checker_recreated", st.readd)
	cnt("lc.ev.last_checker_of_address_removed", st.stopOnly)
	cnt("lc.ev.result_with_two_live_checkers", st.twoLive)
	cnt("lc.ev.result_delivered", st.delivered)
	cnt("lc.ev.result_without_live_checker", st.dropped)
	cnt("lc.ev.flag_transitions", st.flips)
}
