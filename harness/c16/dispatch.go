//go:build verif

// dispatch.go — part B': the DISPATCH LOOP of the real sessionChecker.Start (select over resp / timeout / stop, the two
// timers) with result handlers that take time.
//
//   hl <u> <h> <word0> <script>: the real checker goroutine created through CreateHealthCheck + SetHealthCheckerHostSet
//   with a scripted session AND a health-check callback that BLOCKS for a scripted duration. One letter per check:
//     s / f   answers at once (healthy / unhealthy), the callback returns at once
//     S / F   answers at once, the callback blocks for 2x the check timeout (the timeout of the answered check would have
//             expired while the result handler is still running)
//     a / b   answers after half the timeout (healthy / unhealthy), the callback blocks for 5/6 of the timeout: each is
//             shorter than the timeout, together they are longer (handler longer than the REMAINING timeout)
//     r / q   answers at once (healthy / unhealthy) and the loop goroutine is HELD at the yield point between the receive
//             of that answer and the c.checkTimeout.Stop() that follows it until the real timeout timer of this check
//             has fired (yield point at the start of OnTimeout): the answer and the timeout of one check race, the
//             answer wins the select. The callback returns at once.
//     t       hangs for good: the checker's timeout must turn it into a network failure
//     U       hangs for good and the callback of the timeout result blocks for 2x the timeout
//     !       (suffix) while the callback of this check's result is running the session checker is stopped
//             (host removed: stopCheck -> Stop); after the callback returned and the loop had time to leave, the host is
//             added again (startCheck: a NEW session checker, counters zero, same health word)
//   Recorded: every callback (host, changed, isHealthy) + the host's FAILED_ACTIVE_HC at that moment as one octal digit,
//   prefixed by 'o' when the session's OnTimeout ran before it (reason FailureNetwork); the word of the address at the end.
//   One check must produce one result: a second callback for an answered check shows up as an extra 'o' digit.
package c16

import (
	"bufio"
	"fmt"
	"os"
	"path/filepath"
	"sort"
	"strings"
	"sync"
	"time"

	"mosn.io/api"
	v2 "mosn.io/mosn/pkg/config/v2"
	"mosn.io/mosn/pkg/types"
	"mosn.io/mosn/pkg/upstream/cluster"
	"mosn.io/mosn/pkg/upstream/healthcheck"
	"verif/harness/hx"
)

const dispProto = "c16-dispatch"

const (
	dispTimeout  = 60 * time.Millisecond
	dispInterval = 8 * time.Millisecond
)

type dispCheck struct {
	kind byte
	stop bool
}

func parseDisp(script string) []dispCheck {
	var out []dispCheck
	for i := 0; i < len(script); i++ {
		if script[i] == '!' {
			if len(out) > 0 {
				out[len(out)-1].stop = true
			}
			continue
		}
		out = append(out, dispCheck{kind: script[i]})
	}
	return out
}

type dispScript struct {
	checks    []dispCheck
	mu        sync.Mutex
	pos       int    // number of CheckHealth calls so far
	blocked   []bool // the callback of check i has already blocked once
	raced     []bool // the loop was already held after the answer of check i
	fired     chan struct{} // OnTimeout of this host's session checker has started (capacity 1)
	netNext   bool   // OnTimeout ran: the next callback reports a network failure
	trace     []byte
	lastWord  uint64
	done      chan struct{}
	exhausted chan struct{} // closed when CheckHealth is asked for a check beyond the script
	stopReq   chan int      // callback of check i is running and wants the checker stopped
	cbDone    chan int      // that callback returned
}

var dispScripts sync.Map

type dispFactory struct{}

func (dispFactory) NewSession(cfg map[string]interface{}, host types.Host) types.HealthCheckSession {
	v, ok := dispScripts.Load(host.AddressString())
	if !ok {
		return nil
	}
	return &dispSession{sc: v.(*dispScript)}
}

type dispSession struct{ sc *dispScript }

func (s *dispSession) CheckHealth() bool {
	sc := s.sc
	sc.mu.Lock()
	i := sc.pos
	sc.pos++
	if i == len(sc.checks) {
		close(sc.exhausted)
	}
	sc.mu.Unlock()
	if i >= len(sc.checks) {
		<-sc.done
		return false
	}
	switch sc.checks[i].kind {
	case 's', 'S', 'r':
		return true
	case 'f', 'F', 'q':
		return false
	case 'a', 'b':
		select {
		case <-time.After(dispTimeout / 2):
		case <-sc.done:
		}
		return sc.checks[i].kind == 'a'
	default: // t, U
		<-sc.done
		return true
	}
}

func (s *dispSession) OnTimeout() {
	s.sc.mu.Lock()
	s.sc.netNext = true
	s.sc.mu.Unlock()
}

func init() {
	healthcheck.RegisterSessionFactory(dispProto, dispFactory{})
	healthcheck.VerifSetDispatchYield(dispYield)
}

// dispYield: the yield points of the dispatch loop (pkg/upstream/healthcheck/verif_dispatch_hooks.go)
func dispYield(site int, host types.Host) {
	v, ok := dispScripts.Load(host.AddressString())
	if !ok {
		return
	}
	sc := v.(*dispScript)
	switch site {
	case healthcheck.VerifSiteTimeoutFired:
		select {
		case sc.fired <- struct{}{}:
		default:
		}
	case healthcheck.VerifSiteAnswerReceived:
		sc.mu.Lock()
		i := sc.pos - 1
		hold := i >= 0 && i < len(sc.checks) && (sc.checks[i].kind == 'r' || sc.checks[i].kind == 'q') && !sc.raced[i]
		if hold {
			sc.raced[i] = true
		}
		sc.mu.Unlock()
		if !hold {
			return
		}
		// the answer of check i has been received, its timer is still running: let it fire
		select {
		case <-sc.fired: // left over from an earlier check's timeout
		default:
		}
		select {
		case <-sc.fired:
			time.Sleep(2 * time.Millisecond) // the timer's goroutine reaches its send on c.timeout
		case <-time.After(5 * dispTimeout):
		case <-sc.done:
		}
	}
}

func (sc *dispScript) cb(host types.Host, changed bool, isHealthy bool) {
	d := 0
	if changed {
		d += 4
	}
	if isHealthy {
		d += 2
	}
	if host.ContainHealthFlag(api.FAILED_ACTIVE_HC) {
		d++
	}
	sc.mu.Lock()
	if len(sc.trace) < 4*len(sc.checks)+8 {
		if sc.netNext {
			sc.trace = append(sc.trace, 'o')
		}
		sc.trace = append(sc.trace, byte('0'+d))
	}
	sc.netNext = false
	sc.lastWord = uint64(host.HealthFlag())
	i := sc.pos - 1 // the check issued last: the one this result belongs to when one check gives one result
	var block time.Duration
	stop := false
	if i >= 0 && i < len(sc.checks) && !sc.blocked[i] {
		sc.blocked[i] = true
		switch sc.checks[i].kind {
		case 'S', 'F', 'U':
			block = 2 * dispTimeout
		case 'a', 'b':
			block = dispTimeout * 5 / 6
		}
		stop = sc.checks[i].stop
	}
	sc.mu.Unlock()
	if stop {
		select {
		case sc.stopReq <- i:
		case <-sc.done:
		}
	}
	if block > 0 {
		select {
		case <-time.After(block):
		case <-sc.done:
		}
	}
	if stop {
		select {
		case sc.cbDone <- i:
		case <-sc.done:
		}
	}
}

var dispSeq int
var dispSeqMu sync.Mutex

func runDispatch(u, h uint32, w0 uint64, script string) (string, string) {
	dispSeqMu.Lock()
	dispSeq++
	n := dispSeq
	dispSeqMu.Unlock()
	addr := fmt.Sprintf("10.18.%d.%d:80", n/250, n%250+1)
	host := newHost(addr)
	setWord(host, w0)
	checks := parseDisp(script)
	sc := &dispScript{checks: checks, blocked: make([]bool, len(checks)), raced: make([]bool, len(checks)), fired: make(chan struct{}, 1), done: make(chan struct{}), exhausted: make(chan struct{}),
		stopReq: make(chan int), cbDone: make(chan int)}
	dispScripts.Store(addr, sc)
	defer dispScripts.Delete(addr)
	cfg := v2.HealthCheck{
		HealthCheckConfig: v2.HealthCheckConfig{
			Protocol: dispProto, HealthyThreshold: h, UnhealthyThreshold: u, ServiceName: "c16-dispatch",
			InitialDelaySeconds: api.DurationConfig{Duration: 5 * time.Millisecond},
		},
		Timeout: dispTimeout, Interval: dispInterval, IntervalJitter: time.Nanosecond,
	}
	hc := healthcheck.CreateHealthCheck(cfg)
	hc.AddHostCheckCompleteCb(sc.cb)
	full := cluster.NewHostSet([]types.Host{host})
	empty := cluster.NewHostSet([]types.Host{})
	hc.SetHealthCheckerHostSet(full)
	deadline := time.After(20 * time.Second)
loop:
	for {
		select {
		case <-sc.exhausted:
			break loop
		case <-deadline:
			break loop
		case <-sc.stopReq:
			// the result handler is running (blocked in our callback): stop the session checker under it
			hc.SetHealthCheckerHostSet(empty)
			select {
			case <-sc.cbDone:
			case <-deadline:
				break loop
			}
			time.Sleep(dispTimeout / 2) // the loop finishes its branch and leaves
			hc.SetHealthCheckerHostSet(full)
		}
	}
	hc.Stop()
	sc.mu.Lock()
	tr := string(sc.trace)
	word := sc.lastWord
	if len(sc.trace) == 0 {
		word = uint64(host.HealthFlag())
	}
	sc.mu.Unlock()
	close(sc.done)
	if tr == "" {
		tr = "-"
	}
	return fmt.Sprintf("hl %d %d %d %s", u, h, w0, tokRes(script)), fmt.Sprintf("%s w=%d", tr, word)
}

func genDispScript(c *hx.Ctx, u, h uint32, n int) string {
	var sb strings.Builder
	slow := 0
	for i := 0; i < n; i++ {
		var k byte
		switch r := c.Rng.Intn(100); {
		case r < 30:
			k = "sf"[c.Rng.Intn(2)]
		case r < 62:
			k = "SF"[c.Rng.Intn(2)]
		case r < 78:
			k = "ab"[c.Rng.Intn(2)]
		case r < 90:
			k = "rq"[c.Rng.Intn(2)]
		case r < 95:
			k = 't'
		default:
			k = 'U'
		}
		if k != 's' && k != 'f' {
			slow++
			if slow > 5 { // each slow check costs 60-180 ms
				k = "sf"[c.Rng.Intn(2)]
			}
		}
		sb.WriteByte(k)
		if k != 's' && k != 'f' && k != 't' && k != 'r' && k != 'q' && c.Rng.Chance(15) {
			sb.WriteByte('!')
		}
	}
	return sb.String()
}

func runDispatchKind(c *hx.Ctx) {
	type job struct {
		u, h uint32
		w0   uint64
		s    string
	}
	var jobs []job
	// corpus/C16/*.txt, lines `C16 hl <u> <h> <word0> <script>`: minimised past failures, run first
	for _, t := range dispCorpus() {
		var u, h uint32
		var w uint64
		fmt.Sscan(t[0], &u)
		fmt.Sscan(t[1], &h)
		fmt.Sscan(t[2], &w)
		jobs = append(jobs, job{u, h, w, t[3]})
		c.Count("hl.corpus")
	}
	// boundaries: threshold 1 (one bogus failure marks the host), a blocking handler at the check that completes a
	// threshold, stop/restart under a blocked handler
	for _, s := range []string{"S", "Ss", "SS", "a", "as", "Sf", "sSs", "FS", "fSs", "bas", "S!s", "a!s", "F!f", "U", "Us", "U!s", "tS", "SSS", "fFs", "ffSs", "aaa", "sas"} {
		for _, th := range [][2]uint32{{1, 1}, {2, 1}, {1, 2}, {2, 2}} {
			if c.Thorough() || th[0] == 1 || c.Rng.Chance(35) {
				jobs = append(jobs, job{th[0], th[1], uint64(c.Rng.Intn(2)), s})
			}
		}
	}
	// the answer of a check and the expiry of its timeout timer race (the timer fires between the receive of the answer
	// and the Stop): one check, one result - with unhealthy threshold 1 a second one marks a healthy host
	for _, s := range []string{"r", "rs", "rr", "q", "sr", "rf", "qs", "rSs", "tr", "ra", "fqr", "rrs", "r", "rs"} {
		for _, th := range [][2]uint32{{1, 1}, {2, 1}, {1, 2}, {2, 2}} {
			if c.Thorough() || th[0] == 1 || c.Rng.Chance(35) {
				jobs = append(jobs, job{th[0], th[1], uint64(c.Rng.Intn(2)), s})
			}
		}
	}
	for i := 0; i < c.N(40, 300); i++ {
		u, h := uint32(c.Rng.Intn(4)), uint32(c.Rng.Intn(4))
		jobs = append(jobs, job{u, h, uint64(c.Rng.Intn(4)), genDispScript(c, u, h, 3+c.Rng.Intn(8))})
	}
	type res struct{ cs, impl string }
	out := make([]res, len(jobs))
	var wg sync.WaitGroup
	sem := make(chan struct{}, 16)
	for i, j := range jobs {
		i, j := i, j
		wg.Add(1)
		sem <- struct{}{}
		go func() {
			defer wg.Done()
			cs, impl := runDispatch(j.u, j.h, j.w0, j.s)
			out[i] = res{cs, impl}
			<-sem
		}()
	}
	wg.Wait()
	for i, r := range out {
		c.Emit("C16", r.cs, r.impl)
		c.Count("hl.cases")
		s := jobs[i].s
		if strings.ContainsAny(s, "SFab") {
			c.Count("hl.with_handler_outlasting_timeout")
		}
		if strings.ContainsAny(s, "ab") {
			c.Count("hl.with_delayed_answer")
		}
		if strings.Contains(s, "!") {
			c.Count("hl.with_stop_restart_under_handler")
		}
		if strings.ContainsAny(s, "rq") {
			c.Count("hl.with_answer_racing_timeout")
		}
		if strings.ContainsAny(s, "tU") {
			c.Count("hl.with_timeout")
		}
	}
}

func dispCorpus() [][]string {
	wd, _ := os.Getwd()
	var files []string
	for _, d := range []string{filepath.Join(wd, "..", "..", "corpus", "C16"), filepath.Join(wd, "corpus", "C16")} {
		m, _ := filepath.Glob(filepath.Join(d, "*.txt"))
		files = append(files, m...)
	}
	sort.Strings(files)
	var out [][]string
	for _, fn := range files {
		fh, err := os.Open(fn)
		if err != nil {
			continue
		}
		sc := bufio.NewScanner(fh)
		for sc.Scan() {
			t := strings.Fields(strings.TrimSpace(sc.Text()))
			if len(t) >= 6 && t[0] == "C16" && t[1] == "hl" && strings.Trim(t[5], "sfSFabtUrq!") == "" {
				out = append(out, t[2:6])
			}
		}
		fh.Close()
	}
	return out
}
