//go:build verif

// Package c16: host health state.
//
// flags.go — part A: the real SetHealthFlag/ClearHealthFlag of several host objects of ONE address run under a
// deterministic scheduler that owns the yield points the verif hook places before every atomic access of the shared
// word. Every interleaving of the given threads is executed (stateless depth-first enumeration with replay); after
// every single atomic access the word and Health() are observed through another host object of the same address.
package c16

import (
	"fmt"
	"strings"
	"sync/atomic"

	"mosn.io/api"
	v2 "mosn.io/mosn/pkg/config/v2"
	"mosn.io/mosn/pkg/types"
	"mosn.io/mosn/pkg/upstream/cluster"
	"verif/harness/hx"
)

type flagOp struct {
	set  bool
	flag uint64
}

func (o flagOp) String() string {
	if o.set {
		return fmt.Sprintf("s%d", o.flag)
	}
	return fmt.Sprintf("c%d", o.flag)
}

type yieldEv struct {
	done bool
	site int
}

// flagRig: host objects sharing one address + the scheduler state.
type flagRig struct {
	workers  []types.Host // one host object per thread (all the same address)
	observer types.Host   // same address, only reads
	other    types.Host   // a different address: must never be affected
	cur      int
	resume   []chan struct{}
	back     chan yieldEv
}

const maxThreads = 4

var rigSeq int

func newFlagRig() *flagRig {
	rigSeq++
	info := cluster.NewClusterInfo(v2.Cluster{Name: fmt.Sprintf("c16-flags-%d", rigSeq)})
	addr := fmt.Sprintf("10.16.%d.1:80", rigSeq)
	r := &flagRig{back: make(chan yieldEv)}
	for i := 0; i < maxThreads; i++ {
		r.workers = append(r.workers, cluster.NewSimpleHost(v2.Host{HostConfig: v2.HostConfig{Address: addr}}, info))
		r.resume = append(r.resume, make(chan struct{}))
	}
	r.observer = cluster.NewSimpleHost(v2.Host{HostConfig: v2.HostConfig{Address: addr}}, info)
	r.other = cluster.NewSimpleHost(v2.Host{HostConfig: v2.HostConfig{Address: fmt.Sprintf("10.16.%d.2:80", rigSeq)}}, info)
	return r
}

// yield is the body of the verif hook while a schedule is running: park the calling goroutine (which is always the
// one the scheduler resumed last) and hand control back.
func (r *flagRig) yield(site int) {
	me := r.cur
	r.back <- yieldEv{site: site}
	<-r.resume[me]
}

// reset writes the initial word through the raw pointer the package hands out for the address (independent of the
// functions under test).
func (r *flagRig) reset(init uint64) {
	cluster.VerifSetHealthYield(nil)
	atomic.StoreUint64(cluster.GetHealthFlagPointer(r.observer.AddressString()), init)
}

type stepObs struct {
	word   uint64
	health bool
	ev     yieldEv
}

// runSchedule executes the threads under `prefix`, then (if the threads are not finished) keeps choosing the lowest
// unfinished thread (a seeded random unfinished thread when rng != nil). Returns the full schedule, the observation after every step and, per step, which threads were
// unfinished before it.
func (r *flagRig) runSchedule(init uint64, threads [][]flagOp, prefix []int, rng *hx.Rng) (sched []int, obs []stepObs, enabled [][]bool) {
	r.reset(init)
	n := len(threads)
	cluster.VerifSetHealthYield(r.yield)
	finished := make([]bool, n)
	for t := 0; t < n; t++ {
		t := t
		go func() {
			<-r.resume[t]
			for _, op := range threads[t] {
				if op.set {
					r.workers[t].SetHealthFlag(api.HealthFlag(op.flag))
				} else {
					r.workers[t].ClearHealthFlag(api.HealthFlag(op.flag))
				}
			}
			r.back <- yieldEv{done: true}
		}()
	}
	// park every thread at its first yield point: nothing shared has been touched yet
	for t := 0; t < n; t++ {
		r.cur = t
		r.resume[t] <- struct{}{}
		if ev := <-r.back; ev.done {
			finished[t] = true
		}
	}
	left := func() int {
		k := 0
		for _, f := range finished {
			if !f {
				k++
			}
		}
		return k
	}
	for left() > 0 {
		t := -1
		if len(sched) < len(prefix) {
			t = prefix[len(sched)]
		}
		if t >= 0 && !finished[t] {
			// replaying the prefix
		} else if rng != nil {
			k := rng.Intn(left())
			for i, f := range finished {
				if !f {
					if k == 0 {
						t = i
						break
					}
					k--
				}
			}
		} else {
			for i, f := range finished {
				if !f {
					t = i
					break
				}
			}
		}
		enabled = append(enabled, append([]bool{}, invert(finished)...))
		r.cur = t
		r.resume[t] <- struct{}{}
		ev := <-r.back
		if ev.done {
			finished[t] = true
		}
		sched = append(sched, t)
		obs = append(obs, stepObs{word: uint64(r.observer.HealthFlag()), health: r.observer.Health(), ev: ev})
		if len(sched) > 4096 {
			panic("schedule does not terminate")
		}
	}
	cluster.VerifSetHealthYield(nil)
	return
}

func invert(b []bool) []bool {
	o := make([]bool, len(b))
	for i, x := range b {
		o[i] = !x
	}
	return o
}

func fmtThreads(threads [][]flagOp) string {
	var ts []string
	for _, th := range threads {
		var os []string
		for _, o := range th {
			os = append(os, o.String())
		}
		ts = append(ts, strings.Join(os, ","))
	}
	return strings.Join(ts, ";")
}

func (r *flagRig) emit(c *hx.Ctx, init uint64, threads [][]flagOp, sched []int, obs []stepObs) {
	var sb, tb strings.Builder
	for _, t := range sched {
		sb.WriteByte(byte('0' + t))
	}
	for i, o := range obs {
		if i > 0 {
			tb.WriteByte(',')
		}
		h := 0
		if o.health {
			h = 1
		}
		k := "d"
		if !o.ev.done {
			k = fmt.Sprint(o.ev.site)
		}
		fmt.Fprintf(&tb, "%d/%d/%s", o.word, h, k)
	}
	c.Emit("C16", fmt.Sprintf("fl %d %s %s", init, fmtThreads(threads), sb.String()),
		fmt.Sprintf("%s o=%d", tb.String(), uint64(r.other.HealthFlag())))
}

// explore runs EVERY schedule of the threads (or, when limit > 0, at most `limit` of them: the first ones in
// depth-first order plus seeded random ones) and emits one case line per schedule. Returns the number of schedules.
func (r *flagRig) explore(c *hx.Ctx, init uint64, threads [][]flagOp, limit int) int {
	count := 0
	var prefix []int
	for {
		sched, obs, enabled := r.runSchedule(init, threads, prefix, nil)
		r.emit(c, init, threads, sched, obs)
		count++
		if limit > 0 && count >= limit {
			return count
		}
		// backtrack: last position with an untried larger enabled thread
		i := len(sched) - 1
		next := -1
		for ; i >= 0; i-- {
			for t := sched[i] + 1; t < len(threads); t++ {
				if enabled[i][t] {
					next = t
					break
				}
			}
			if next >= 0 {
				break
			}
		}
		if next < 0 {
			return count
		}
		prefix = append(append([]int{}, sched[:i]...), next)
	}
}

// randomSchedules runs `k` seeded random schedules of the threads.
func (r *flagRig) randomSchedules(c *hx.Ctx, init uint64, threads [][]flagOp, k int) {
	for j := 0; j < k; j++ {
		sched, obs, _ := r.runSchedule(init, threads, nil, c.Rng)
		r.emit(c, init, threads, sched, obs)
	}
}

func allOps(flags []uint64) []flagOp {
	var o []flagOp
	for _, f := range flags {
		o = append(o, flagOp{true, f}, flagOp{false, f})
	}
	return o
}

// assignments enumerates every way to give `shape[i]` ops from `ops` to thread i.
func assignments(shape []int, ops []flagOp, f func([][]flagOp)) {
	total := 0
	for _, n := range shape {
		total += n
	}
	idx := make([]int, total)
	for {
		var th [][]flagOp
		k := 0
		for _, n := range shape {
			var l []flagOp
			for j := 0; j < n; j++ {
				l = append(l, ops[idx[k]])
				k++
			}
			th = append(th, l)
		}
		f(th)
		p := total - 1
		for p >= 0 {
			idx[p]++
			if idx[p] < len(ops) {
				break
			}
			idx[p] = 0
			p--
		}
		if p < 0 {
			return
		}
	}
}

func runFlags(c *hx.Ctx) {
	r := newFlagRig()
	hc, outlier := uint64(api.FAILED_ACTIVE_HC), uint64(api.FAILED_OUTLIER_CHECK)
	two := allOps([]uint64{hc, outlier})
	three := allOps([]uint64{hc, outlier, 4})
	cnt := func(shape []int, n int) {
		c.Count(fmt.Sprintf("fl.shape=%v", shape))
		for i := 0; i < n; i++ {
			c.Count("fl.schedules")
		}
	}
	// 2 threads x 1 op: every assignment over 3 flags, 4 initial words, every schedule
	for _, init := range []uint64{0, hc, outlier, 7} {
		assignments([]int{1, 1}, three, func(th [][]flagOp) { cnt([]int{1, 1}, r.explore(c, init, th, 0)) })
	}
	// 2 threads x (1|2) ops over the two real flags, every schedule
	for _, shape := range [][]int{{2, 1}, {1, 2}, {2, 2}} {
		for _, init := range []uint64{0, 3} {
			assignments(shape, two, func(th [][]flagOp) {
				if len(shape) == 2 && shape[0]+shape[1] == 4 && !c.Thorough() && !c.Rng.Chance(50) {
					return
				}
				cnt(shape, r.explore(c, init, th, 0))
			})
		}
	}
	// 3 threads x 1 op, every schedule
	for _, init := range []uint64{0, 5} {
		assignments([]int{1, 1, 1}, three, func(th [][]flagOp) {
			if c.Rng.Chance(c.N(12, 60)) {
				cnt([]int{1, 1, 1}, r.explore(c, init, th, 0))
			}
		})
	}
	// wider flags (multi-bit masks, the top bit) and bigger shapes: seeded samples
	wide := allOps([]uint64{1, 2, 3, 6, 1 << 63, 1<<63 | 1})
	shapes := [][]int{{1, 1}, {2, 2}, {1, 1, 1}, {2, 1, 1}, {1, 2, 2}, {2, 2, 2}, {1, 1, 1, 1}, {3, 2}}
	for i := 0; i < c.N(60, 600); i++ {
		shape := shapes[c.Rng.Intn(len(shapes))]
		var th [][]flagOp
		for _, n := range shape {
			var l []flagOp
			for j := 0; j < n; j++ {
				l = append(l, wide[c.Rng.Intn(len(wide))])
			}
			th = append(th, l)
		}
		init := []uint64{0, 1, 2, 1 << 63, ^uint64(0)}[c.Rng.Intn(5)]
		steps := 0
		for _, n := range shape {
			steps += 2 * n
		}
		if steps <= 6 || (steps <= 8 && len(shape) == 2) {
			cnt(shape, r.explore(c, init, th, 0))
		} else {
			// too many schedules to enumerate for every sample: the first 40 in depth-first order + 40 random ones
			cnt(shape, r.explore(c, init, th, 40))
			r.randomSchedules(c, init, th, 40)
			cnt(shape, 40)
		}
	}
	// 3 threads x 2 ops: with CAS retries a complete enumeration is 10^7 schedules; thorough runs the first 70000 in
	// depth-first order (all orders of the last ~10 steps below a fixed prefix) and 15000 random ones
	if c.Thorough() {
		var th [][]flagOp
		for t := 0; t < 3; t++ {
			th = append(th, []flagOp{three[c.Rng.Intn(len(three))], three[c.Rng.Intn(len(three))]})
		}
		init := uint64(c.Rng.Intn(8))
		cnt([]int{2, 2, 2}, r.explore(c, init, th, 70000))
		r.randomSchedules(c, init, th, 15000)
		cnt([]int{2, 2, 2}, 15000)
	}
}
