//go:build verif

// alloc.go — part A': the ALLOCATION of the shared health word.
//
// pt: 2-4 goroutines each create a host object (the real NewSimpleHost -> GetHealthFlagPointer) for a FRESH or an
// already known address and then make Set/Clear calls through it, under the deterministic scheduler that owns the yield
// points (the one before every healthStore operation of GetHealthFlagPointer and the ones before every atomic access of
// the word): every interleaving at yield granularity. Afterwards (sequentially, hook removed) every host object reports
// HealthFlag()/Health(), and a probe condition is set through each host object in turn and read through all of them.
//
// ps: the same creation of host objects for a fresh address by really concurrent goroutines released together by a spin
// barrier (no scheduler control: this also exercises code whose healthStore operations have no yield point between
// them); calls and observations are made sequentially afterwards, so the expected observation does not depend on the
// interleaving. (The constant last case token only makes these lines longer than the shortest pt line: ./check keeps the
// SHORTEST failing lines for the replay, and a pt line replays deterministically while a ps line does not.)
package c16

import (
	"fmt"
	"runtime"
	"strings"
	"sync/atomic"

	"mosn.io/api"
	v2 "mosn.io/mosn/pkg/config/v2"
	"mosn.io/mosn/pkg/metrics"
	"mosn.io/mosn/pkg/types"
	"mosn.io/mosn/pkg/upstream/cluster"
	"verif/harness/hx"
)

const probeFlag = 128 // MosnVerif.Model.HealthRegistry.probeFlag: a condition no generated call names

type allocThread struct {
	addr int // index of the address in the case
	ops  []flagOp
}

type preWord struct {
	addr int
	word uint64
}

type allocEv struct {
	done  bool
	site  int
	phase int // 0: inside NewSimpleHost, 1: making Set/Clear calls
}

type allocRig struct {
	info   types.ClusterInfo
	cur    int
	resume []chan struct{}
	back   chan allocEv
	hosts  []types.Host
	phase  []int
}

var allocSeq uint32

// freshAddr returns an address string (IP literal: no resolver involved) that no earlier case has used.
func freshAddr() string {
	allocSeq++
	s := allocSeq
	return fmt.Sprintf("10.%d.%d.%d:%d", (s>>16)&255, (s>>8)&255, s&255, 2000+(s>>24))
}

func newAllocRig() *allocRig {
	r := &allocRig{back: make(chan allocEv)}
	r.info = cluster.NewClusterInfo(v2.Cluster{Name: "c16-alloc"})
	for i := 0; i < maxThreads; i++ {
		r.resume = append(r.resume, make(chan struct{}))
	}
	r.hosts = make([]types.Host, maxThreads)
	r.phase = make([]int, maxThreads)
	return r
}

func (r *allocRig) yield(site int) {
	me := r.cur
	r.back <- allocEv{site: site, phase: r.phase[me]}
	<-r.resume[me]
}

func nAddrs(pre []preWord, threads []allocThread) int {
	n := 0
	for _, p := range pre {
		if p.addr+1 > n {
			n = p.addr + 1
		}
	}
	for _, t := range threads {
		if t.addr+1 > n {
			n = t.addr + 1
		}
	}
	return n
}

// prepare picks fresh address strings for the case and registers the words the case says are already known (through the
// real GetHealthFlagPointer, sequentially, hook removed).
func prepare(pre []preWord, threads []allocThread) []string {
	cluster.VerifSetHealthYield(nil)
	addrs := make([]string, nAddrs(pre, threads))
	for i := range addrs {
		addrs[i] = freshAddr()
	}
	for _, p := range pre {
		atomic.StoreUint64(cluster.GetHealthFlagPointer(addrs[p.addr]), p.word)
	}
	return addrs
}

func newAllocHost(addr string, info types.ClusterInfo) types.Host {
	return cluster.NewSimpleHost(v2.Host{HostConfig: v2.HostConfig{Address: addr}}, info)
}

func applyOps(h types.Host, ops []flagOp) {
	for _, op := range ops {
		if op.set {
			h.SetHealthFlag(api.HealthFlag(op.flag))
		} else {
			h.ClearHealthFlag(api.HealthFlag(op.flag))
		}
	}
}

// observe: sequential, hook removed. h=<word/health per host object> p=<per host object i: one digit per host object j,
// 2*ContainHealthFlag(probe)+Health() read through j while the probe condition is set through i>
func observe(hosts []types.Host) string {
	cluster.VerifSetHealthYield(nil)
	b := func(x bool) int {
		if x {
			return 1
		}
		return 0
	}
	var hs, ps []string
	for _, h := range hosts {
		hs = append(hs, fmt.Sprintf("%d/%d", uint64(h.HealthFlag()), b(h.Health())))
	}
	for _, hi := range hosts {
		hi.SetHealthFlag(api.HealthFlag(probeFlag))
		var row strings.Builder
		for _, hj := range hosts {
			row.WriteByte(byte('0' + 2*b(hj.ContainHealthFlag(api.HealthFlag(probeFlag))) + b(hj.Health())))
		}
		hi.ClearHealthFlag(api.HealthFlag(probeFlag))
		ps = append(ps, row.String())
	}
	return "h=" + strings.Join(hs, ",") + " p=" + strings.Join(ps, ",")
}

func fmtPre(pre []preWord) string {
	if len(pre) == 0 {
		return "-"
	}
	var s []string
	for _, p := range pre {
		s = append(s, fmt.Sprintf("%d:%d", p.addr, p.word))
	}
	return strings.Join(s, ",")
}

func fmtAllocThreads(threads []allocThread) string {
	var ts []string
	for _, th := range threads {
		var os []string
		for _, o := range th.ops {
			os = append(os, o.String())
		}
		ts = append(ts, fmt.Sprintf("%d/%s", th.addr, strings.Join(os, ",")))
	}
	return strings.Join(ts, ";")
}

// runSchedule executes the threads under `prefix`, then keeps choosing the lowest unfinished thread (a seeded random
// unfinished one when rng != nil), and emits the case line. Returns the schedule and, per step, the unfinished threads.
func (r *allocRig) runSchedule(c *hx.Ctx, pre []preWord, threads []allocThread, prefix []int, rng *hx.Rng) (sched []int, enabled [][]bool) {
	addrs := prepare(pre, threads)
	n := len(threads)
	finished := make([]bool, n)
	for t := 0; t < n; t++ {
		r.hosts[t], r.phase[t] = nil, 0
	}
	cluster.VerifSetHealthYield(r.yield)
	for t := 0; t < n; t++ {
		t := t
		go func() {
			<-r.resume[t]
			h := newAllocHost(addrs[threads[t].addr], r.info)
			r.hosts[t], r.phase[t] = h, 1
			applyOps(h, threads[t].ops)
			r.back <- allocEv{done: true}
		}()
	}
	// park every thread at its first yield point (inside GetHealthFlagPointer, before its first healthStore operation)
	for t := 0; t < n; t++ {
		r.cur = t
		r.resume[t] <- struct{}{}
		if ev := <-r.back; ev.done {
			finished[t] = true
		}
	}
	left := func() int {
		k := 0
		for _, f := range finished {
			if !f {
				k++
			}
		}
		return k
	}
	var trace []string
	for left() > 0 {
		t := -1
		if len(sched) < len(prefix) {
			t = prefix[len(sched)]
		}
		if t >= 0 && !finished[t] {
			// replaying the prefix
		} else {
			k := 0
			if rng != nil {
				k = rng.Intn(left())
			}
			for i, f := range finished {
				if !f {
					if k == 0 {
						t = i
						break
					}
					k--
				}
			}
		}
		enabled = append(enabled, invert(finished))
		r.cur = t
		r.resume[t] <- struct{}{}
		ev := <-r.back
		switch {
		case ev.done:
			finished[t] = true
			trace = append(trace, "d")
		case ev.phase == 0:
			trace = append(trace, fmt.Sprintf("p%d", ev.site))
		default:
			trace = append(trace, fmt.Sprint(ev.site))
		}
		sched = append(sched, t)
		if len(sched) > 4096 {
			panic("schedule does not terminate")
		}
	}
	var sb strings.Builder
	for _, t := range sched {
		sb.WriteByte(byte('0' + t))
	}
	tr, sc := strings.Join(trace, ","), sb.String()
	if tr == "" { // no yield point was reached at all (possible only when the code under test has none left)
		tr, sc = "-", "-"
	}
	c.Emit("C16", fmt.Sprintf("pt %s %s %s", fmtPre(pre), fmtAllocThreads(threads), sc), tr+" "+observe(r.hosts[:n]))
	return
}

// explore runs EVERY schedule of the threads (at most `limit` when limit > 0) in depth-first order. Returns their number.
func (r *allocRig) explore(c *hx.Ctx, pre []preWord, threads []allocThread, limit int) int {
	count := 0
	var prefix []int
	for {
		sched, enabled := r.runSchedule(c, pre, threads, prefix, nil)
		count++
		if limit > 0 && count >= limit {
			return count
		}
		i := len(sched) - 1
		next := -1
		for ; i >= 0; i-- {
			for t := sched[i] + 1; t < len(threads); t++ {
				if enabled[i][t] {
					next = t
					break
				}
			}
			if next >= 0 {
				break
			}
		}
		if next < 0 {
			return count
		}
		prefix = append(append([]int{}, sched[:i]...), next)
	}
}

// ---- ps: really concurrent creation

type racer struct {
	round  uint32 // written by the driver: a new value releases the workers
	ready  int32
	done   int32
	n      int
	addr   string
	info   types.ClusterInfo
	hosts  []types.Host
	quit   uint32
}

func (z *racer) worker(t int) {
	seen := uint32(0)
	for {
		atomic.AddInt32(&z.ready, 1)
		spins := 0
		for atomic.LoadUint32(&z.round) == seen {
			if atomic.LoadUint32(&z.quit) != 0 {
				return
			}
			spins++
			if spins&0xfff == 0 {
				runtime.Gosched()
			}
		}
		seen = atomic.LoadUint32(&z.round)
		if t < z.n {
			z.hosts[t] = newAllocHost(z.addr, z.info)
		}
		atomic.AddInt32(&z.done, 1)
	}
}

func (z *racer) race(n int, addr string) []types.Host {
	z.n, z.addr = n, addr
	for atomic.LoadInt32(&z.ready) != maxThreads {
		runtime.Gosched()
	}
	atomic.StoreInt32(&z.ready, 0)
	atomic.StoreInt32(&z.done, 0)
	atomic.AddUint32(&z.round, 1)
	for atomic.LoadInt32(&z.done) != maxThreads {
		runtime.Gosched()
	}
	return z.hosts[:n]
}

func randAllocThreads(c *hx.Ctx, n int, addrOf func(t int) int, flags []uint64, maxOps int) []allocThread {
	var th []allocThread
	for t := 0; t < n; t++ {
		var ops []flagOp
		for k := c.Rng.Intn(maxOps + 1); k > 0; k-- {
			ops = append(ops, flagOp{c.Rng.Chance(70), flags[c.Rng.Intn(len(flags))]})
		}
		th = append(th, allocThread{addrOf(t), ops})
	}
	return th
}

func runAlloc(c *hx.Ctx) {
	// host statistics are irrelevant here and would register ~30 metrics per fresh address: reject them for this part
	metrics.SetStatsMatcher(true, nil, nil)
	defer metrics.SetStatsMatcher(false, nil, nil)
	r := newAllocRig()
	hc, outlier := uint64(api.FAILED_ACTIVE_HC), uint64(api.FAILED_OUTLIER_CHECK)
	cnt := func(key string, n int) {
		c.Count("pt.shape=" + key)
		for i := 0; i < n; i++ {
			c.Count("pt.schedules")
		}
	}
	s, cl := func(f uint64) flagOp { return flagOp{true, f} }, func(f uint64) flagOp { return flagOp{false, f} }
	type pcase struct {
		pre []preWord
		th  []allocThread
	}
	// fixed boundary cases, every schedule: a fresh address shared by 2 and 3 hosts (one of them only reads), a known
	// address, two addresses created at once, a set racing a clear through different hosts
	fixed := []pcase{
		{nil, []allocThread{{0, []flagOp{s(hc)}}, {0, nil}}},
		{nil, []allocThread{{0, []flagOp{s(hc)}}, {0, []flagOp{s(outlier)}}}},
		{nil, []allocThread{{0, []flagOp{s(hc)}}, {0, []flagOp{s(outlier)}}, {0, nil}}},
		{nil, []allocThread{{0, []flagOp{s(hc)}}, {1, []flagOp{s(outlier)}}, {0, nil}}},
		{[]preWord{{0, hc}}, []allocThread{{0, []flagOp{cl(hc)}}, {0, []flagOp{s(outlier)}}}},
		{[]preWord{{1, 3}}, []allocThread{{0, []flagOp{s(4)}}, {1, []flagOp{cl(hc)}}, {0, []flagOp{s(hc)}}}},
		{nil, []allocThread{{0, []flagOp{s(hc), cl(hc)}}, {0, []flagOp{s(outlier)}}}},
		{nil, []allocThread{{0, nil}, {0, nil}, {0, nil}, {0, nil}}},
	}
	for _, pc := range fixed {
		cnt(fmt.Sprintf("fixed%d", len(pc.th)), r.explore(c, pc.pre, pc.th, 0))
	}
	// seeded cases: 2-3 threads, 0-1 calls each over three conditions, 1-2 addresses, fresh or known; every schedule
	flags := []uint64{hc, outlier, 4}
	for i := 0; i < c.N(24, 300); i++ {
		n := 2 + c.Rng.Intn(2)
		na := 1 + c.Rng.Intn(2)
		th := randAllocThreads(c, n, func(t int) int {
			if t == 0 {
				return 0
			}
			return c.Rng.Intn(na)
		}, flags, 1)
		var pre []preWord
		for a := 0; a < na; a++ {
			if c.Rng.Chance(30) {
				pre = append(pre, preWord{a, uint64(c.Rng.Intn(8))})
			}
		}
		cnt(fmt.Sprintf("rand%d", n), r.explore(c, pre, th, 0))
	}
	// bigger seeded cases (up to 4 threads x 2 calls): the first 60 schedules in depth-first order + 60 random ones
	for i := 0; i < c.N(10, 150); i++ {
		n := 2 + c.Rng.Intn(3)
		na := 1 + c.Rng.Intn(2)
		th := randAllocThreads(c, n, func(t int) int { return c.Rng.Intn(na) }, []uint64{1, 2, 3, 6, 64}, 2)
		var pre []preWord
		if c.Rng.Chance(30) {
			pre = append(pre, preWord{0, uint64(c.Rng.Intn(128))})
		}
		cnt(fmt.Sprintf("big%d", n), r.explore(c, pre, th, 60))
		for k := 0; k < 60; k++ {
			r.runSchedule(c, pre, th, nil, c.Rng)
		}
		cnt(fmt.Sprintf("big%d", n), 60)
	}
	cluster.VerifSetHealthYield(nil)

	// ps: really concurrent creation for a fresh address
	z := &racer{info: r.info, hosts: make([]types.Host, maxThreads)}
	old := runtime.GOMAXPROCS(0)
	if old < maxThreads+1 {
		runtime.GOMAXPROCS(maxThreads + 1)
	}
	for t := 0; t < maxThreads; t++ {
		go z.worker(t)
	}
	for i := 0; i < c.N(3000, 45000); i++ {
		n := 2 + c.Rng.Intn(maxThreads-1)
		th := randAllocThreads(c, n, func(int) int { return 0 }, flags, 1)
		if len(th[0].ops) == 0 {
			th[0].ops = []flagOp{s(flags[c.Rng.Intn(len(flags))])}
		}
		hosts := z.race(n, freshAddr())
		for t, h := range hosts {
			applyOps(h, th[t].ops)
		}
		c.Emit("C16", fmt.Sprintf("ps - %s goroutines-released-together", fmtAllocThreads(th)), observe(hosts))
		c.Count(fmt.Sprintf("ps.hosts=%d", n))
	}
	atomic.StoreUint32(&z.quit, 1)
	runtime.GOMAXPROCS(old)
}
