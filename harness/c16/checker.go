//go:build verif

// checker.go — part B: the active health checker's threshold automaton.
//
//   hd: a real sessionChecker (built as healthChecker.startCheck builds it, verif hook) whose HandleSuccess /
//       HandleFailure are called directly with a scripted result sequence: deterministic, exhaustive enumerations.
//   hc: the real checker goroutine (sessionChecker.Start, timers, channels) created through the public factory
//       CreateHealthCheck + SetHealthCheckerHostSet with a registered scripted session: CheckHealth() returns the next
//       scripted result: 's'/'f' answer at once, 't' hangs for good (the checker's timeout must turn it into a
//       failure), 'T' hangs past its timeout and answers late, while the NEXT check is in progress.
// In both, every callback (host, changed, isHealthy) registered with AddHostCheckCompleteCb is recorded together with
// the host's FAILED_ACTIVE_HC flag at that moment.
package c16

import (
	"fmt"
	"strings"
	"sync"
	"sync/atomic"
	"time"

	"mosn.io/api"
	v2 "mosn.io/mosn/pkg/config/v2"
	"mosn.io/mosn/pkg/types"
	"mosn.io/mosn/pkg/upstream/cluster"
	"mosn.io/mosn/pkg/upstream/healthcheck"
	"verif/harness/hx"
)

const scriptProto = "c16-script"

const lateGap = 15 * time.Millisecond

// ---- scripted session (hc path) ------------------------------------------------------------------------------

type script struct {
	results string
	mu      sync.Mutex
	pos     int
	done    chan struct{} // closed when the case is over: releases every blocked CheckHealth
	late    chan struct{} // the hanging check of the latest 'T': closed by the next check to let it answer late
}

var scripts sync.Map // host address -> *script

type scriptFactory struct{}

func (scriptFactory) NewSession(cfg map[string]interface{}, host types.Host) types.HealthCheckSession {
	v, ok := scripts.Load(host.AddressString())
	if !ok {
		return &scriptSession{sc: &script{done: make(chan struct{})}}
	}
	return &scriptSession{sc: v.(*script)}
}

type scriptSession struct{ sc *script }

func (s *scriptSession) CheckHealth() bool {
	s.sc.mu.Lock()
	i := s.sc.pos
	s.sc.pos++
	late := s.sc.late
	s.sc.late = nil
	var mine chan struct{}
	if i < len(s.sc.results) && s.sc.results[i] == 'T' {
		mine = make(chan struct{})
		s.sc.late = mine
	}
	s.sc.mu.Unlock()
	if late != nil {
		// the previous check was a 'T': it timed out long ago and is still hanging. Let it answer NOW, while this
		// check is in progress, and give the checker time to receive that expired answer before this one answers.
		close(late)
		time.Sleep(lateGap)
	}
	if i >= len(s.sc.results) {
		<-s.sc.done // script exhausted: never answer
		return false
	}
	switch s.sc.results[i] {
	case 's':
		return true
	case 'f':
		return false
	case 'T': // hangs past the timeout, then answers (healthy) while the next check is in progress
		select {
		case <-mine:
		case <-s.sc.done:
		}
		return true
	default: // 't': the check hangs for good; the checker's timeout must turn it into a failure
		<-s.sc.done
		return true
	}
}

func (s *scriptSession) OnTimeout() {}

func init() { healthcheck.RegisterSessionFactory(scriptProto, scriptFactory{}) }

// ---- recording -----------------------------------------------------------------------------------------------

type recorder struct {
	mu       sync.Mutex
	want     int
	got      []byte
	lastWord uint64
	full     chan struct{}
}

func (r *recorder) cb(host types.Host, changed bool, isHealthy bool) {
	d := 0
	if changed {
		d += 4
	}
	if isHealthy {
		d += 2
	}
	if host.ContainHealthFlag(api.FAILED_ACTIVE_HC) {
		d++
	}
	r.mu.Lock()
	if len(r.got) < r.want {
		r.got = append(r.got, byte('0'+d))
		r.lastWord = uint64(host.HealthFlag())
		if len(r.got) == r.want {
			close(r.full)
		}
	}
	r.mu.Unlock()
}

func (r *recorder) String() string {
	r.mu.Lock()
	defer r.mu.Unlock()
	if len(r.got) == 0 {
		return "-"
	}
	return string(r.got)
}

var checkerInfo = cluster.NewClusterInfo(v2.Cluster{Name: "c16-checker"})

func newHost(addr string) types.Host {
	return cluster.NewSimpleHost(v2.Host{HostConfig: v2.HostConfig{Address: addr}}, checkerInfo)
}

func setWord(h types.Host, w uint64) {
	atomic.StoreUint64(cluster.GetHealthFlagPointer(h.AddressString()), w)
}

// finalWord: the word of the address when the last callback was delivered (the callback records it)
func finalWord(rec *recorder, host types.Host, n int) string {
	rec.mu.Lock()
	defer rec.mu.Unlock()
	if n == 0 {
		return fmt.Sprintf(" w=%d", uint64(host.HealthFlag()))
	}
	if len(rec.got) < n {
		return " w=?"
	}
	return fmt.Sprintf(" w=%d", rec.lastWord)
}

func tokRes(s string) string {
	if s == "" {
		return "-"
	}
	return s
}

// ---- hd: direct ----------------------------------------------------------------------------------------------

type directRig struct {
	hc   types.HealthChecker
	host types.Host
	rec  *recorder
}

var directRigs = map[[2]uint32]*directRig{}

func directRigFor(u, h uint32) *directRig {
	k := [2]uint32{u, h}
	if r, ok := directRigs[k]; ok {
		return r
	}
	r := &directRig{host: newHost(fmt.Sprintf("10.16.200.%d:%d", u+1, h+1))}
	r.hc = healthcheck.CreateHealthCheck(v2.HealthCheck{HealthCheckConfig: v2.HealthCheckConfig{
		Protocol: scriptProto, HealthyThreshold: h, UnhealthyThreshold: u, ServiceName: "c16-direct"}})
	r.hc.AddHostCheckCompleteCb(func(host types.Host, changed bool, isHealthy bool) { r.rec.cb(host, changed, isHealthy) })
	directRigs[k] = r
	return r
}

func runDirect(c *hx.Ctx, u, h uint32, word0 uint64, results string) {
	r := directRigFor(u, h)
	setWord(r.host, word0)
	r.rec = &recorder{want: len(results), full: make(chan struct{})}
	vc := healthcheck.VerifNewChecker(r.hc, r.host)
	if vc == nil {
		panic("VerifNewChecker: not a healthChecker")
	}
	for i := 0; i < len(results); i++ {
		switch results[i] {
		case 's':
			vc.HandleSuccess()
		case 'f':
			vc.HandleFailure(types.FailureActive)
		default:
			vc.HandleFailure(types.FailureNetwork)
		}
	}
	un, hcn := vc.Counters()
	c.Emit("C16", fmt.Sprintf("hd %d %d %d %s", u, h, word0, tokRes(results)), fmt.Sprintf("%s %d,%d w=%d", r.rec.String(), un, hcn, uint64(r.host.HealthFlag())))
	c.Count(fmt.Sprintf("hd.len=%02d", len(results)))
}

// ---- hc: through the factory, real checker goroutine -----------------------------------------------------------

var hcSeq int
var hcSeqMu sync.Mutex

// runFactory runs one scripted history on a fresh health checker; returns the case and impl tokens.
func runFactory(u, h uint32, word0 uint64, results string) (string, string) {
	hcSeqMu.Lock()
	hcSeq++
	n := hcSeq
	hcSeqMu.Unlock()
	addr := fmt.Sprintf("10.17.%d.%d:80", n/250, n%250+1)
	host := newHost(addr)
	setWord(host, word0)
	sc := &script{results: results, done: make(chan struct{})}
	scripts.Store(addr, sc)
	defer scripts.Delete(addr)
	cfg := v2.HealthCheck{
		HealthCheckConfig: v2.HealthCheckConfig{
			Protocol: scriptProto, HealthyThreshold: h, UnhealthyThreshold: u, ServiceName: "c16-factory",
			InitialDelaySeconds: api.DurationConfig{Duration: 5 * time.Millisecond},
		},
		// answered checks come back at once; a hanging one is declared timed out after 100ms. The interval must be
		// long against scheduling latencies: sessionChecker.Start arms the timer of the next check BEFORE it increments
		// checkID, so with a tiny interval OnCheck can read the old id and its answer is dropped as expired.
		Timeout: 100 * time.Millisecond, Interval: 5 * time.Millisecond, IntervalJitter: time.Nanosecond,
	}
	hc := healthcheck.CreateHealthCheck(cfg)
	rec := &recorder{want: len(results), full: make(chan struct{})}
	hc.AddHostCheckCompleteCb(rec.cb)
	if len(results) > 0 {
		hc.SetHealthCheckerHostSet(cluster.NewHostSet([]types.Host{host}))
		select {
		case <-rec.full:
		case <-time.After(5 * time.Second):
		}
		hc.Stop()
	}
	close(sc.done)
	return fmt.Sprintf("hc %d %d %d %s", u, h, word0, tokRes(results)), rec.String() + " -" + finalWord(rec, host, len(results))
}

// ---- generators ------------------------------------------------------------------------------------------------

func allStrings(alpha string, n int, f func(string)) {
	b := make([]byte, n)
	var rec func(i int)
	rec = func(i int) {
		if i == n {
			f(string(b))
			return
		}
		for k := 0; k < len(alpha); k++ {
			b[i] = alpha[k]
			rec(i + 1)
		}
	}
	rec(0)
}

// structured history: runs of one kind whose lengths sit around the thresholds (u-1, u, u+1, h-1, h, h+1)
func structured(c *hx.Ctx, u, h uint32, n int, alpha string) string {
	var sb strings.Builder
	for sb.Len() < n {
		k := alpha[c.Rng.Intn(len(alpha))]
		base := int(u)
		if k == 's' {
			base = int(h)
		}
		if base == 0 {
			base = 1
		}
		l := base + c.Rng.Intn(3) - 1
		if c.Rng.Chance(15) {
			l = 1 + c.Rng.Intn(2*base+2)
		}
		for i := 0; i < l && sb.Len() < n; i++ {
			sb.WriteByte(k)
		}
	}
	return sb.String()
}

func runChecker(c *hx.Ctx) {
	// (1) hd, exhaustive: every success/failure sequence of length <= 10 (quick: exactly 8 and 10 — shorter ones are
	// their prefixes, every callback of every prefix is in the trace), thresholds 0..4 (0 = default), both initial flags
	for u := uint32(0); u <= 4; u++ {
		for h := uint32(0); h <= 4; h++ {
			for _, w0 := range []uint64{0, 1} {
				lens := []int{10}
				if c.Thorough() {
					lens = []int{0, 1, 2, 3, 4, 5, 6, 7, 8, 9, 10}
				}
				for _, n := range lens {
					allStrings("sf", n, func(s string) { runDirect(c, u, h, w0, s) })
				}
			}
			// three result kinds, another condition (outlier bit) set on the word: length <= 6 (thorough 8)
			allStrings("sft", c.N(6, 8), func(s string) { runDirect(c, u, h, uint64(2+c.Rng.Intn(2)), s) })
		}
	}
	// (2) hd, long structured/random histories, larger thresholds
	for i := 0; i < c.N(400, 6000); i++ {
		u, h := uint32(c.Rng.Intn(9)), uint32(c.Rng.Intn(9))
		if c.Rng.Chance(10) {
			u = uint32(c.Rng.Pick([]int{16, 100, 255}))
		}
		n := 20 + c.Rng.Intn(c.N(200, 1500))
		alpha := []string{"sf", "sft", "ssf", "sff", "st"}[c.Rng.Intn(5)]
		var s string
		if c.Rng.Chance(70) {
			s = structured(c, u, h, n, alpha)
		} else {
			b := make([]byte, n)
			for j := range b {
				b[j] = alpha[c.Rng.Intn(len(alpha))]
			}
			s = string(b)
		}
		runDirect(c, u, h, uint64(c.Rng.Intn(4)), s)
		c.Count("hd.long")
	}
	// (3) hc, the real checker goroutine: sequences around the thresholds, a few scripted timeouts; run concurrently
	type job struct {
		u, h uint32
		w0   uint64
		s    string
	}
	var jobs []job
	for u := uint32(0); u <= 3; u++ {
		for h := uint32(0); h <= 3; h++ {
			allStrings("sf", c.N(4, 6), func(s string) {
				if c.Thorough() || c.Rng.Chance(40) {
					jobs = append(jobs, job{u, h, uint64(c.Rng.Intn(2)), s})
				}
			})
		}
	}
	for i := 0; i < c.N(60, 300); i++ {
		u, h := uint32(c.Rng.Intn(5)), uint32(c.Rng.Intn(5))
		s := structured(c, u, h, 6+c.Rng.Intn(30), "sf")
		b := []byte(s)
		for k := 0; k < c.Rng.Intn(4); k++ { // at most 3 timeouts per history (each costs the 100ms timeout)
			// 't' hangs for good; 'T' answers late, while the following check is in progress
			b[c.Rng.Intn(len(b))] = "tT"[c.Rng.Intn(2)]
		}
		jobs = append(jobs, job{u, h, uint64(c.Rng.Intn(4)), string(b)})
	}
	// every short pattern around a late answer: <prefix> T <suffix>
	for _, pre := range []string{"", "s", "f", "sf"} {
		for _, suf := range []string{"s", "f", "ss", "sf", "fs", "ff", "Ts", "ts", "sT"} {
			if c.Thorough() || c.Rng.Chance(50) {
				jobs = append(jobs, job{uint32(c.Rng.Intn(4)), uint32(c.Rng.Intn(4)), uint64(c.Rng.Intn(4)), pre + "T" + suf})
			}
		}
	}
	type res struct{ cs, impl string }
	out := make([]res, len(jobs))
	var wg sync.WaitGroup
	sem := make(chan struct{}, 24)
	for i, j := range jobs {
		i, j := i, j
		wg.Add(1)
		sem <- struct{}{}
		go func() {
			defer wg.Done()
			cs, impl := runFactory(j.u, j.h, j.w0, j.s)
			out[i] = res{cs, impl}
			<-sem
		}()
	}
	wg.Wait()
	for i, r := range out {
		c.Emit("C16", r.cs, r.impl)
		c.Count("hc.cases")
		if strings.Contains(jobs[i].s, "t") {
			c.Count("hc.with_hanging_check")
		}
		if strings.Contains(jobs[i].s, "T") {
			c.Count("hc.with_late_answer")
		}
	}
}
