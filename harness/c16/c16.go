//go:build verif

package c16

import "verif/harness/hx"

func init() { hx.Register("C16", Run) }

// Run: part A (flag word under every interleaving), then part B (threshold automaton of the active health checker).
func Run(c *hx.Ctx) {
	runFlags(c)
	runChecker(c)
}
