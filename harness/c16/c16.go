//go:build verif

package c16

import (
	"fmt"

	"verif/harness/hx"
)

func init() { hx.Register("C16", Run) }

// Run: part A (flag word under every interleaving), part A' (allocation of that word), then part B (threshold automaton of the active health checker), then part C (life cycle of the checkers of several clusters sharing addresses).
func Run(c *hx.Ctx) {
	if len(c.Args) > 1 && c.Args[0] == "probe" { // mosnh C16 probe <results> [u h word0]: one factory-path history
		u, h, w := uint32(1), uint32(1), uint64(0)
		if len(c.Args) > 4 {
			fmt.Sscan(c.Args[2], &u)
			fmt.Sscan(c.Args[3], &h)
			fmt.Sscan(c.Args[4], &w)
		}
		cs, impl := runFactory(u, h, w, c.Args[1])
		c.Emit("C16", cs, impl)
		return
	}
	if len(c.Args) > 1 && c.Args[0] == "hlprobe" { // mosnh C16 hlprobe <script> [u h word0]: one dispatch-loop history
		u, h, w := uint32(1), uint32(1), uint64(0)
		if len(c.Args) > 4 {
			fmt.Sscan(c.Args[2], &u)
			fmt.Sscan(c.Args[3], &h)
			fmt.Sscan(c.Args[4], &w)
		}
		cs, impl := runDispatch(u, h, w, c.Args[1])
		c.Emit("C16", cs, impl)
		return
	}
	if len(c.Args) > 0 && c.Args[0] == "hl" { // mosnh C16 hl: the dispatch-loop part alone
		runDispatchKind(c)
		return
	}
	if len(c.Args) > 0 && c.Args[0] == "lc" { // mosnh C16 lc: the life-cycle part alone
		runLifecycleKind(c)
		return
	}
	if len(c.Args) > 0 && c.Args[0] == "sh" { // mosnh C16 sh: the shared-word / cluster-manager part alone
		runShareKind(c)
		return
	}
	runFlags(c)
	runAlloc(c)
	runChecker(c)
	runDispatchKind(c)
	runLifecycleKind(c)
	runShareKind(c)
}
