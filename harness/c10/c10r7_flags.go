//go:build verif

package c10

// Kind `flg` (builder c10r7): the per-request gauges for every valuation of the REQUEST-INFO FLAGS the metrics code
// branches on.  One case = one fixture (real proxy core, harness/px) serving a SEQUENCE of requests; each request names
// the flags its stream filters set through the public filter API (px.C10r7FlagFilter: SetHealthCheck(true), a
// MosnProcessFailedFlags response flag, another response flag, SetResponseCode(599), SetProtocol) in the phase before
// route / after route / before send, and its END CAUSE:
//
//	ok  upstream answers 200            e5  upstream answers 503, no retry policy      rx  503 on every attempt: retries exhausted
//	rs  upstream stream reset           to  global timeout                              nr  no route            nh  no healthy host
//	dd  direct response route           hb / hr  a filter answers (hijack) before / after route
//	tm  asynchronous TerminateStream    dr  downstream stream reset                    cc  downstream connection closed (last request only)
//
// Observed, per request: while the first upstream attempt is live (`m…`) and after the request ended (`e…`):
// proxy-GLOBAL downstream request_active, per-LISTENER downstream request_active, cluster and per-host upstream
// request_active, Requests().Cur(), Retries().Cur(); and once more when the fixture is idle (`q=`).
//
//	flg mr=<n>,mq=<n> <b>/<r>/<s>:<cause>;… => m<gd>,<ld>,<up>,<hup>,<req>,<ret>|e<gd>,<ld>,<up>,<hup>,<req>,<ret>,<done> … q=<gd>,<ld>,<up>,<hup>,<req>,<ret>

import (
	"fmt"
	"strings"
	"time"

	v2 "mosn.io/mosn/pkg/config/v2"
	"mosn.io/mosn/pkg/types"
	"verif/harness/hx"
	"verif/harness/px"
)

var c10r7Causes = []string{"ok", "e5", "rx", "rs", "to", "nr", "nh", "dd", "hb", "hr", "tm", "dr", "cc"}
var c10r7FlagSets = []string{"hc", "rf", "rc", "pr", "of", "hc+rf+rc", "hc+of", "rf+pr"}

type c10r7Req struct{ b, r, s, cause string }

func (q c10r7Req) String() string { return q.b + "/" + q.r + "/" + q.s + ":" + q.cause }

type c10r7World struct {
	f     *px.Fixture
	gbase int64
	hbase int64
}

func (w *c10r7World) read() string {
	l := w.f.Ledger()
	return fmt.Sprintf("%d,%d,%d,%d,%d,%d", px.C10r7GlobalDownActive()-w.gbase, w.f.C10r7ListenerDownActive(), l.UpActive["c"],
		w.f.C10r7HostUpActive("c")-w.hbase, l.Requests["c"], l.Retries["c"])
}

// c10r7Global is the global timeout of the `to` route: far above what the observation of the live attempt takes, also on
// a loaded machine (the thorough tier runs several harness processes at once)
const c10r7Global = 350 * time.Millisecond

// c10r7RunCase runs one case; skewed = an observation "while the attempt is live" was taken too late to be trusted (the
// request was already finished, or — cause `to` — the timer was about to fire): the caller runs the case again.
func c10r7RunCase(mr, mq int, reqs []c10r7Req) (res string, skewed bool) {
	gbase := px.C10r7GlobalDownActive()
	f := px.New(px.Config{
		Clusters: []px.Cluster{{Name: "c", Hosts: 1, MaxRetries: uint32(mr), MaxRequests: uint32(mq)}, {Name: "e", Hosts: 0}},
		Routes: []v2.Router{
			px.Route("/r", "c", px.Timeout(3*time.Second), px.Retry(true, 1, 0)),
			px.Route("/p", "c", px.Timeout(3*time.Second)),
			px.Route("/t", "c", px.Timeout(c10r7Global)),
			px.Route("/e", "e", px.Timeout(3*time.Second)),
			px.Route("/d", "", px.DirectResponse(200, "direct")),
		},
		Filters:         []px.Filter{px.C10r7FlagFilter(px.BeforeRoute), px.C10r7FlagFilter(px.AfterRoute), px.C10r7FlagFilter(px.Send)},
		TerminateHandle: true,
	})
	defer f.Close()
	w := &c10r7World{f: f, gbase: gbase, hbase: f.C10r7HostUpActive("c")}
	var out []string
	for _, q := range reqs {
		path := map[string]string{"ok": "/p", "e5": "/p", "rx": "/r", "rs": "/p", "to": "/t", "nr": "/zz", "nh": "/e", "dd": "/d",
			"hb": "/p", "hr": "/p", "tm": "/p", "dr": "/p", "cc": "/p"}[q.cause]
		h := px.H(":path", path, ":authority", "svc", "x-c10r7-b", q.b, "x-c10r7-r", q.r, "x-c10r7-s", q.s)
		if q.cause == "hb" {
			h["x-c10r7-hijack"] = "b"
		}
		if q.cause == "hr" {
			h["x-c10r7-hijack"] = "r"
		}
		ex := f.Request(h, []byte("data"), nil)
		mid := "m-"
		switch q.cause {
		case "ok", "e5", "rx", "rs", "to", "tm", "dr", "cc":
			a := ex.WaitAttempt(0)
			if a == nil {
				// c10t9: 400 ms without the first attempt: a proxy that will never make one (every goroutine parked: `m?`, a
				// violation as before) or a worker the machine has not run yet (the wait is extended)
				hx.PatientWait("flg first attempt", 400*time.Millisecond, 20*time.Second, nil, func() bool {
					a = ex.WaitAttemptFor(0, 0)
					return a != nil
				})
			}
			if a == nil || a.Failed != "" {
				mid = "m?"
				break
			}
			ex.WaitQuiescent()
			mid = "m" + w.read()
			if ex.Done() || (q.cause == "to" && ex.Elapsed() > c10r7Global-100*time.Millisecond) {
				skewed = true
			}
			switch q.cause {
			case "ok":
				a.Respond(200, nil, nil, nil)
			case "e5":
				a.Respond(503, nil, nil, nil)
			case "rx":
				for k := 0; k < 14; k++ {
					a.Respond(503, nil, nil, nil)
					var next *px.Attempt
					for i := 0; i < 4000 && !ex.Done(); i++ { // the retry sleeps 10 ms before the next attempt
						if as := ex.UpstreamAttempts(); len(as) > k+1 {
							next = ex.WaitAttempt(k + 1)
							break
						}
						time.Sleep(500 * time.Microsecond)
					}
					if next == nil && !ex.Done() { // c10t9: 2 s without the retry's attempt and the exchange not over
						hx.PatientWait("flg retry attempt", 400*time.Millisecond, 20*time.Second, nil, func() bool {
							if ex.Done() {
								return true
							}
							if as := ex.UpstreamAttempts(); len(as) > k+1 {
								next = ex.WaitAttemptFor(k+1, 0)
							}
							return next != nil
						})
					}
					if next == nil || next.Failed != "" {
						break
					}
					a = next
				}
			case "rs":
				a.Reset(types.StreamRemoteReset)
			case "tm":
				ex.Terminate(418)
			case "dr":
				ex.DownstreamReset()
			case "cc":
				f.ConnClose()
			}
		}
		if !ex.WaitDone(2500 * time.Millisecond) {
			// c10t9: as above — `done=0` stays the outcome of a request that nothing in the process is going to finish
			hx.PatientWait("flg request done", 500*time.Millisecond, 20*time.Second, nil, ex.Done)
		}
		ex.WaitQuiescentFor(12 * time.Millisecond)
		done := "0"
		if ex.Done() {
			done = "1"
		}
		out = append(out, mid+"|e"+w.read()+","+done)
		ex.C10r7Forget()
	}
	time.Sleep(5 * time.Millisecond)
	out = append(out, "q="+w.read())
	return strings.Join(out, " "), skewed
}

// RunFlags emits the `flg` cases: every end cause with every flag set in every phase (packed four requests to a
// fixture), then n random sequences.
func RunFlags(c *hx.Ctx, n int) {
	flgRan, flgDropped := 0, 0
	hx.Calibrate()
	rng := hx.NewRng(c.Seed*0x9E3779B97F4A7C15 + 0xC10F) // own stream: the other kinds draw from c.Rng as before
	emit := func(mr, mq int, reqs []c10r7Req) {
		var toks []string
		for _, q := range reqs {
			toks = append(toks, q.String())
			c.Count("flg.cause." + q.cause)
			for _, fl := range []string{q.b, q.r, q.s} {
				if fl != "-" {
					c.Count("flg.flags." + fl)
				}
			}
			switch {
			case q.b != "-":
				c.Count("flg.phase.before-route")
			case q.r != "-":
				c.Count("flg.phase.after-route")
			case q.s != "-":
				c.Count("flg.phase.send")
			default:
				c.Count("flg.phase.none")
			}
		}
		c.Count(fmt.Sprintf("flg.threshold.mr=%d.mq=%d", mr, mq))
		c.Count(fmt.Sprintf("flg.len=%d", len(reqs)))
		impl, skewed := c10r7RunCase(mr, mq, reqs)
		for try := 0; skewed && try < 3; try++ {
			c.Count("flg.skew.rerun")
			impl, skewed = c10r7RunCase(mr, mq, reqs)
		}
		flgRan++
		if skewed {
			c.Count("flg.skew.dropped")
			// c10t9: the share of dropped cases is bounded: above 2 % the run says nothing about the code
			if flgDropped++; flgDropped > 2 && flgDropped*50 > flgRan+100 {
				c.TooSlow(fmt.Sprintf("c10 flg: %d of %d cases dropped as timing skew", flgDropped, flgRan))
			}
			return
		}
		c.Emit("C10", fmt.Sprintf("flg mr=%d,mq=%d %s", mr, mq, strings.Join(toks, ";")), impl)
	}
	// systematic part
	var all []c10r7Req
	for _, cause := range c10r7Causes {
		for fi, fl := range c10r7FlagSets {
			if !c.Thorough() && fi >= 5 && rng.Chance(60) {
				continue
			}
			for ph := 0; ph < 3; ph++ {
				if !c.Thorough() && fl != "hc" && rng.Chance(55) {
					continue
				}
				q := c10r7Req{"-", "-", "-", cause}
				switch ph {
				case 0:
					q.b = fl
				case 1:
					q.r = fl
				default:
					q.s = fl
				}
				all = append(all, q)
			}
		}
		all = append(all, c10r7Req{"-", "-", "-", cause})
	}
	var pack []c10r7Req
	flush := func() {
		if len(pack) > 0 {
			emit(rng.Pick([]int{0, 1, 2}), rng.Pick([]int{0, 1, 2}), pack)
			pack = nil
		}
	}
	for _, q := range all {
		pack = append(pack, q)
		if q.cause == "cc" || len(pack) == 4 { // a closed connection serves nothing more
			flush()
		}
	}
	flush()
	// random sequences
	for i := 0; i < n; i++ {
		k := 2 + rng.Intn(5)
		var reqs []c10r7Req
		for j := 0; j < k; j++ {
			q := c10r7Req{"-", "-", "-", c10r7Causes[rng.Intn(len(c10r7Causes)-1)]} // cc only as the last one
			if j == k-1 && rng.Chance(15) {
				q.cause = "cc"
			}
			pick := func() string {
				if rng.Chance(45) {
					return "hc"
				}
				return c10r7FlagSets[rng.Intn(len(c10r7FlagSets))]
			}
			if rng.Chance(45) {
				q.b = pick()
			}
			if rng.Chance(30) {
				q.r = pick()
			}
			if rng.Chance(30) {
				q.s = pick()
			}
			reqs = append(reqs, q)
		}
		emit(rng.Pick([]int{0, 1, 2}), rng.Pick([]int{0, 1, 2}), reqs)
	}
}
