//go:build verif

// Package c10: circuit-breaker and active-gauge conservation — the same histories as C03 on the real proxy core
// (harness/px + harness/dsx), generated with every threshold in {0,1,2}, ambient load held by other requests, and the
// persistent-failure families; the case line carries the full trace and the final ledger
// (Requests().Cur, Retries().Cur, UpstreamRequestActive, DownstreamRequestActive).
// Kind `tcp` (tcp.go): session scripts on the real stream proxy filter behind the real connection handler on loopback
// sockets — the cluster's Connections() resource, the UpstreamConnectionActive gauges and the handler's connection count.
// Kinds `mux` / `h2p` (harness/c09, emitted as C10 cases): the REAL multiplex pool with one-way requests and the REAL
// HTTP/2 pool — Requests().Cur(), the request_active and connection_active gauges after every operation.
package c10

import (
	"verif/harness/c03"
	"verif/harness/c09"
	"verif/harness/hx"
)

func init() { hx.Register("C10", Run) }

func Run(c *hx.Ctx) {
	c03.ModelCheck(c, "C10")
	// c10r7: request-info flags x end causes (kind flg) — first, while no other fixture of the process is alive (the
	// proxy-global gauge is shared), on its own random stream
	if len(c.Args) > 0 && c.Args[0] == "flagsonly" { // development aid
		RunFlags(c, c.N(40, 300))
		return
	}
	RunFlags(c, c.N(40, 300))
	if len(c.Args) > 0 && c.Args[0] == "tcponly" { // development aid: only the stream proxy sessions
		RunTcp(c, c.N(100, 500))
		return
	}
	if len(c.Args) > 0 && c.Args[0] == "poolsonly" { // development aid: only the real pools' ledger
		c09.RunWin(c, "C10", c.N(200, 1500))
		c09.RunMux(c, "C10", c.N(80, 500))
		c09.RunH2(c, "C10", c.N(100, 600))
		c09.RunMxw(c, "C10", c.N(120, 1000))
		c09.RunBnd(c, "C10", c.N(30, 300))
		return
	}
	// the real pools' side of the ledger (harness/c09): the multiplex pool with one-way requests (requests breaker, host /
	// cluster request_active), the HTTP/2 pool against a scripted HTTP/2 upstream (connection_active through GOAWAY,
	// replacement and closes in scripted orders)
	// (run last: the histories above draw from c.Rng exactly as they did before these kinds existed, and the timing-sensitive
	// tcp sessions do not share the process with what the pool worlds leave behind)
	c03.RunMany(c, "C10", c.N(700, 2500), 8, true)
	RunTcp(c, c.N(100, 500))
	// the HTTP/1 and ping-pong pools' ledger per request end cause (harness/c09/win.go): every resource and gauge after
	// every operation, long histories that end idle, max_requests 1..3
	c09.RunWin(c, "C10", c.N(200, 1500))
	c09.RunMux(c, "C10", c.N(80, 500))
	c09.RunH2(c, "C10", c.N(100, 600))
	// mux6: the multiplex and HTTP/2 pools' ledger per request end cause (harness/c09/mxw.go, kinds mxw / h2w)
	c09.RunMxw(c, "C10", c.N(120, 1000))
	// pool9: the binding pool's ledger with a connection closed inside NewStream (harness/c09/bnd.go, kind bnd)
	c09.RunBnd(c, "C10", c.N(30, 300))
	// proxy10: a streamed response reset before the worker picked its head up (last: the kinds above draw from c.Rng as before)
	c03.RunSRW(c, "C10")
	// c10p10: the ledger across cluster updates with units in flight — manager identity (harness/c10/c10p10_share.go, kind rsh)
	RunShare(c, c.N(150, 900))
}
