//go:build verif

// Package c10: circuit-breaker and active-gauge conservation — the same histories as C03 on the real proxy core
// (harness/px + harness/dsx), generated with every threshold in {0,1,2}, ambient load held by other requests, and the
// persistent-failure families; the case line carries the full trace and the final ledger
// (Requests().Cur, Retries().Cur, UpstreamRequestActive, DownstreamRequestActive).
// Kind `tcp` (tcp.go): session scripts on the real stream proxy filter behind the real connection handler on loopback
// sockets — the cluster's Connections() resource, the UpstreamConnectionActive gauges and the handler's connection count.
package c10

import (
	"verif/harness/c03"
	"verif/harness/hx"
)

func init() { hx.Register("C10", Run) }

func Run(c *hx.Ctx) {
	c03.ModelCheck(c, "C10")
	if len(c.Args) > 0 && c.Args[0] == "tcponly" { // development aid: only the stream proxy sessions
		RunTcp(c, c.N(100, 500))
		return
	}
	c03.RunMany(c, "C10", c.N(700, 2500), 8, true)
	RunTcp(c, c.N(100, 500))
}
