//go:build verif

package c10

// c10t9: robustness of kind `tcp` under machine load — WITHOUT weakening what an `h` (hang) means.
//
// What went wrong on loaded machines (reproduced with 24 busy loops + a process that keeps opening loopback listeners):
//  1. a host "taken down" (H<j>-) was a CLOSED listener, i.e. a FREE port: another process of the machine (8 harness
//     processes run side by side, each opening loopback listeners on kernel-chosen ports: the kernel hands out the odd
//     ports of 32768..60999, ~7000 values) obtained the very port and listened on it; MOSN's dial to the "dead" host then
//     CONNECTED (cT+1, no retry), our upstream never saw an accept, the client never saw EOF: step `A => h`.  Not MOSN and
//     not load as such: the harness's world was not what the script said.  A down host now keeps its port with a bound,
//     non-listening socket (connect is refused, the kernel's port search skips bound ports); H<j>+ listens first and
//     drops the holder afterwards (no free window).  The one remaining window (close listener -> bind holder, some µs) is
//     detected: the bind fails or /proc/net/tcp shows a foreign listener => the script is dropped as skew.
//  2. the next script (or the re-run of a script dropped for skew) started while MOSN was still closing the downstream
//     connections of the previous one (close events are delivered by the connections' own goroutines): panic
//     "N downstream connections left over".  The end of a script now waits for the handler's count to reach 0.
//  3. fixed budgets: every wait is now a wait for a condition with a budget scaled by the measured scheduling latency
//     (hx.Calibrate), and a budget that runs out is classified by a goroutine dump (below).
//
// Classification of an exhausted budget (tcpWorld.await):
//   - no goroutine with MOSN / net frames is running, runnable or in a system call in three samples 20 ms apart, and the
//     scheduling latency measured right then is small: everything is parked, nothing will happen => the step's token is
//     `h`, a VIOLATION as before (the dump goes to the harness log);
//   - otherwise the wait is extended (hard cap tcpHardCap); the awaited effect arrives => timing skew: the script is
//     dropped and counted (tcp.skew=<where>), never reported; it does not arrive => `h` as before.
// More than 2 % of a run's scripts dropped => the process ends with "ENVIRONMENT TOO SLOW" (exit 75), not with a verdict.

import (
	"fmt"
	"os"
	"strings"
	"sync/atomic"
	"syscall"
	"time"

	"verif/harness/hx"
)

const (
	tcpHardCap     = 25 * time.Second // an effect later than this is a hang whatever the machine does
	tcpCalmLatency = 20 * time.Millisecond
	tcpSkewShare   = 2 // percent of the scripts of a run that may be dropped as skew
)

var tcpNoHold = os.Getenv("C10T9_NOHOLD") != "" // experiment switch: the old behaviour (a down host is a free port)

// tcpHoldPort binds a non-listening socket to 127.0.0.1:port (SO_REUSEADDR: connections accepted earlier by the closed
// listener still use the port). fd < 0: the port is not available any more (somebody took it).
func tcpHoldPort(port int) int {
	fd, err := syscall.Socket(syscall.AF_INET, syscall.SOCK_STREAM|syscall.SOCK_CLOEXEC, 0)
	if err != nil {
		return -1
	}
	syscall.SetsockoptInt(fd, syscall.SOL_SOCKET, syscall.SO_REUSEADDR, 1)
	if err := syscall.Bind(fd, &syscall.SockaddrInet4{Port: port, Addr: [4]byte{127, 0, 0, 1}}); err != nil {
		syscall.Close(fd)
		return -1
	}
	return fd
}

// tcpListeners returns the ports on which SOME socket of the machine listens (IPv4, any address), from /proc/net/tcp.
func tcpListeners() map[int]bool {
	out := map[int]bool{}
	for _, f := range []string{"/proc/net/tcp", "/proc/net/tcp6"} {
		b, err := os.ReadFile(f)
		if err != nil {
			continue
		}
		for _, ln := range strings.Split(string(b), "\n")[1:] {
			fs := strings.Fields(ln)
			if len(fs) < 4 || fs[3] != "0A" {
				continue
			}
			if k := strings.LastIndex(fs[1], ":"); k >= 0 {
				var p int
				fmt.Sscanf(fs[1][k+1:], "%X", &p)
				out[p] = true
			}
		}
	}
	return out
}

// foreignListener: a host of this world that is down (we do not listen) has a listener on its port — another process
// took the port in the window between closing the listener and binding the holder.
func (w *tcpWorld) foreignListener() (int, bool) {
	var ls map[int]bool
	for _, h := range w.hosts {
		if h.kind == 'L' && h.ln == nil {
			if ls == nil {
				ls = tcpListeners()
			}
			if ls[h.port] {
				return h.port, true
			}
		}
	}
	return 0, false
}

func tcpMosnOrNet(g hx.GState) bool {
	// MOSN's connection goroutines, its event handlers, and the Go network poller paths they sit in; the harness's own
	// polling goroutines (this package) are not evidence of pending work
	if strings.Contains(g.Stack, "verif/harness/c10.(*tcpWorld).await") {
		return false
	}
	return strings.Contains(g.Stack, "mosn.io/") || strings.Contains(g.Stack, "net.(*") || strings.Contains(g.Stack, "internal/poll.")
}

// calm: three goroutine samples without busy MOSN / net goroutines and a small scheduling latency.
func tcpCalm() (calm bool, why string, dump string) {
	for i := 0; i < 3; i++ {
		d, gs := hx.Goroutines()
		dump = d
		if b := hx.Busy(gs, tcpMosnOrNet); len(b) > 0 {
			return false, fmt.Sprintf("busy:%s@%s", b[0].State, b[0].Top), dump
		}
		time.Sleep(20 * time.Millisecond)
	}
	if l := hx.Calibrate(); l > tcpCalmLatency {
		return false, fmt.Sprintf("latency:%v", l), dump
	}
	return true, "parked", dump
}

type tcpAwait int

const (
	awOK   tcpAwait = iota // the condition came true within the budget
	awHang                 // it did not, and nothing in the process would have made it true: `h`
	awSkew                 // it came true late while the process was not being scheduled: no verdict
)

// await polls cond (1 ms) within hx.Scaled(tcpStepWait); see the classification above.
func (w *tcpWorld) await(where string, cond func() bool) tcpAwait {
	return w.awaitFor(where, tcpStepWait, cond)
}

func (w *tcpWorld) awaitFor(where string, budget time.Duration, cond func() bool) tcpAwait {
	start := time.Now()
	poll := func(until time.Time) bool {
		for {
			if cond() {
				return true
			}
			if time.Now().After(until) {
				return false
			}
			t := time.Now()
			time.Sleep(time.Millisecond)
			if over := time.Since(t) - time.Millisecond; over > 5*time.Millisecond {
				hx.NoteLatency(over)
			}
		}
	}
	if poll(start.Add(hx.Scaled(budget))) {
		return awOK
	}
	if port, ok := w.foreignListener(); ok {
		hx.Logf("c10 tcp: %s: budget exhausted and a foreign process listens on the port %d of a host that is down: environment", where, port)
		w.skew = "foreign-listener"
		return awSkew
	}
	calm, why, dump := tcpCalm()
	if calm {
		hx.Logf("c10 tcp: HANG at %s after %v: every MOSN / net goroutine is parked (%s). Goroutines:\n%s", where, time.Since(start), why, dump)
		w.hangDump(where, dump)
		return awHang
	}
	if atomic.LoadInt64(&tcpUselessExt) >= 3 {
		// three extended waits of this process ended without the awaited effect: what is observed are real hangs, the
		// machine's load is not the reason — no more extensions (a failing run must still end within the check's timeout)
		hx.Logf("c10 tcp: HANG at %s after %v (not calm: %s; extensions have been useless). Goroutines:\n%s", where, time.Since(start), why, dump)
		w.hangDump(where, dump)
		return awHang
	}
	hx.Logf("c10 tcp: %s: budget %v exhausted, process not calm (%s): extending the wait", where, time.Since(start), why)
	if poll(start.Add(tcpHardCap)) {
		hx.Logf("c10 tcp: %s: effect arrived after %v: timing skew, script dropped", where, time.Since(start))
		w.skew = "late:" + where
		return awSkew
	}
	atomic.AddInt64(&tcpUselessExt, 1)
	d, gs := hx.Goroutines()
	hx.Logf("c10 tcp: HANG at %s after %v (hard cap; goroutine states %s). Goroutines:\n%s", where, time.Since(start), hx.StateSummary(gs), d)
	w.hangDump(where, d)
	return awHang
}

func tcpClosed(ch chan struct{}) func() bool {
	return func() bool {
		select {
		case <-ch:
			return true
		default:
			return false
		}
	}
}

// waitNoConnections: the handler has forgotten every downstream connection (the clients were closed by the harness).
// A count that stays above 0 with everything parked is a leak of the connection handler: it panics as before (with the
// dump in the log); under load the wait is extended.
func (w *tcpWorld) waitNoConnections(where string) bool {
	switch w.await(where, func() bool { return w.side.handler.NumConnections() == 0 }) {
	case awOK, awSkew:
		return true
	}
	return false
}

// staleAccepts drains connections our live hosts accepted beyond the one the accept step took for the session. Each of
// them that is at EOF is a dial MOSN gave up (connect timeout 120 ms expired although the kernel had completed the
// handshake: the dialing goroutine was not scheduled in time) — MOSN counted a failed try on a LIVE host, which the
// script did not ask for: skew. The step may have taken such a dead connection for the session's: s.up is set to the
// one that is open. Two OPEN upstream connections for one session would be a leaked upstream connection: NOT excused
// (extra stays, skew=false: the script goes on and the counters are reported as observed).
func (w *tcpWorld) staleAccepts(s *tcpSess) (extra int, skew bool) {
	var all []*tcpUpConn
	if s != nil && s.up != nil {
		all = append(all, s.up)
	}
	for {
		select {
		case u := <-w.accepted:
			all = append(all, u)
			extra++
			continue
		default:
		}
		break
	}
	if extra == 0 {
		return 0, false
	}
	open := func() (o []*tcpUpConn) {
		for _, u := range all {
			if !tcpClosed(u.eof)() {
				o = append(o, u)
			}
		}
		return
	}
	w.awaitFor("stale-accept-eof", time.Second, func() bool { return len(open()) <= 1 })
	o := open()
	if len(o) > 1 {
		w.leaked = append(w.leaked, o...)
		return extra, false
	}
	for _, u := range all {
		if len(o) == 1 && u == o[0] {
			continue
		}
		u.c.Close()
	}
	if len(o) == 1 && s != nil {
		s.up = o[0]
	}
	return extra, true
}

var tcpDropped, tcpRan, tcpUselessExt int64

// tcpAccountDrop enforces the upper bound on dropped scripts (called once per script of RunTcp).
func tcpAccount(c *hx.Ctx, dropped bool, n int) {
	atomic.AddInt64(&tcpRan, 1)
	if dropped {
		atomic.AddInt64(&tcpDropped, 1)
	}
	d := atomic.LoadInt64(&tcpDropped)
	if d > 2 && d*100 > int64(tcpSkewShare)*int64(n) {
		c.TooSlow(fmt.Sprintf("c10 tcp: %d of %d session scripts (of %d planned) dropped as timing skew (> %d %%)", d, atomic.LoadInt64(&tcpRan), n, tcpSkewShare))
	}
}

// hangDump keeps the goroutine dump taken at an `h` (with the script) next to the replay files.
func (w *tcpWorld) hangDump(where, dump string) {
	if p := hx.SaveDiag("C10-tcp-hang", fmt.Sprintf("c10 tcp: hang at %s in script: %s\n\n%s", where, w.script, dump)); p != "" {
		hx.Logf("c10 tcp: goroutine dump kept in %s", p)
	}
}
