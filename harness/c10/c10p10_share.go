//go:build verif

package c10

// Kind `rsh` (builder c10p10): the breaker ledger and the active gauges across CLUSTER UPDATES with something in flight.
//
// One history = one px fixture (REAL cluster manager, router, proxy core; fake wire) with two clusters
//   c1  one px host: requests (Requests through the px pool, which does `host.ClusterInfo().ResourceManager()` at every call like
//       MOSN's pools) and retries (retryState, through the cluster info captured at route time), and
//   t1  one live loopback listener: stream-proxy sessions (REAL pkg/filter/network/streamproxy filter on a recording downstream
//       connection, REAL upstream client connection): Connections taken on the snapshot's info, given back through the host,
// and a script of
//   Q<k> start request k (parks upstream)      T<k> its parked attempt answers 503: retry (back-off 10 ms, next attempt parks)
//   F<k> 200 / R<k> downstream reset / W<k> global timeout (such a request is started on the 120 ms route)
//   C<j> open a stream-proxy session           D<j> close it from downstream / E<j> the upstream server closes it
//   U<P|H|p|h><type>:<c>,<p>,<q>,<r>   AddOrUpdatePrimaryCluster / AddOrUpdateClusterAndHost (same address) — lower case: through
//       the MngAdapter Trigger* used by xDS — on BOTH clusters, cluster type 0 SIMPLE / 1 STRICT_DNS, new thresholds.
// After EVERY op: outcome, Cur() and Max() of the four resources read on cm.GetClusterSnapshot(...).ClusterInfo().ResourceManager()
// — the manager of the CURRENT snapshot — (connections on t1, the rest on c1), and the cluster gauges request_active (c1) /
// connection_active (t1) read through the current info's Stats(), checked against the sum of the current hosts' gauges.
// Line: `rsh <c>,<p>,<q>,<r> zx=<0|1> <op> … => <out>/<cur ×4>/<max ×4>/<gq>,<gc> …`.
// zx = 1: the script moves a threshold between 0 and non-zero under a held unit (computed by the generator's ledger by name).

import (
	"bufio"
	"context"
	"fmt"
	"net"
	"os"
	"path/filepath"
	"sort"
	"strings"
	"sync"
	"time"

	"mosn.io/api"
	v2 "mosn.io/mosn/pkg/config/v2"
	"mosn.io/mosn/pkg/filter/network/streamproxy"
	"mosn.io/mosn/pkg/types"
	"mosn.io/mosn/pkg/upstream/cluster"
	"mosn.io/pkg/buffer"
	"mosn.io/pkg/variable"

	"verif/harness/hx"
	"verif/harness/px"
)

// ---------------------------------------------------------------------------------------------------------------
// script
// ---------------------------------------------------------------------------------------------------------------

type rshOp struct {
	kind byte // Q T F R W C D E U
	n    int
	via  byte // U: P H p h
	typ  int
	thr  [4]uint32 // connections, pending, requests, retries
}

func (o rshOp) tok() string {
	if o.kind == 'U' {
		return fmt.Sprintf("U%c%d:%d,%d,%d,%d", o.via, o.typ, o.thr[0], o.thr[1], o.thr[2], o.thr[3])
	}
	return fmt.Sprintf("%c%d", o.kind, o.n)
}

func rshParseOp(t string) (rshOp, bool) {
	if len(t) < 2 {
		return rshOp{}, false
	}
	o := rshOp{kind: t[0]}
	if o.kind == 'U' {
		var via byte
		if _, err := fmt.Sscanf(t[1:], "%c%d:%d,%d,%d,%d", &via, &o.typ, &o.thr[0], &o.thr[1], &o.thr[2], &o.thr[3]); err != nil {
			return o, false
		}
		o.via = via
		return o, strings.IndexByte("PHph", via) >= 0
	}
	if _, err := fmt.Sscanf(t[1:], "%d", &o.n); err != nil {
		return o, false
	}
	return o, strings.IndexByte("QTFRWCDE", o.kind) >= 0
}

// rshRef is the generator's ledger BY NAME (what the property says the counters are): used to pick sensible operands and to
// compute the zero-crossing tag. It never looks at the implementation.
type rshRef struct {
	thr   [4]uint32
	reqs  map[int]bool // request k in flight -> holds a retry slot
	conns map[int]bool
	zx    bool
}

func newRshRef(thr [4]uint32) *rshRef {
	return &rshRef{thr: thr, reqs: map[int]bool{}, conns: map[int]bool{}}
}

func (r *rshRef) cnt(res int) int {
	switch res {
	case 0:
		return len(r.conns)
	case 2:
		return len(r.reqs)
	case 3:
		n := 0
		for _, ret := range r.reqs {
			if ret {
				n++
			}
		}
		return n
	}
	return 0
}

func (r *rshRef) admits(res int) bool { return r.thr[res] == 0 || r.cnt(res) < int(r.thr[res]) }

func (r *rshRef) apply(o rshOp) {
	switch o.kind {
	case 'Q':
		if _, ok := r.reqs[o.n]; !ok && r.admits(2) {
			r.reqs[o.n] = false
		}
	case 'T':
		ret, ok := r.reqs[o.n]
		if !ok {
			return
		}
		_ = ret
		delete(r.reqs, o.n)
		// the request's own slots are back; retry slot, then request slot
		if r.admits(3) && r.admits(2) {
			r.reqs[o.n] = true
		}
	case 'F', 'R', 'W':
		delete(r.reqs, o.n)
	case 'C':
		if !r.conns[o.n] && r.admits(0) {
			r.conns[o.n] = true
		}
	case 'D', 'E':
		delete(r.conns, o.n)
	case 'U':
		for res := 0; res < 4; res++ {
			if r.cnt(res) > 0 && (r.thr[res] == 0) != (o.thr[res] == 0) {
				r.zx = true
			}
		}
		r.thr = o.thr
	}
}

func rshZx(thr0 [4]uint32, ops []rshOp) bool {
	r := newRshRef(thr0)
	for _, o := range ops {
		r.apply(o)
	}
	return r.zx
}

// ---------------------------------------------------------------------------------------------------------------
// world: fixture + stream-proxy sessions
// ---------------------------------------------------------------------------------------------------------------

// rshConn is the recording downstream connection of a stream-proxy session: the few api.Connection methods the filter calls.
type rshConn struct {
	api.Connection
	mu     sync.Mutex
	ls     []api.ConnectionEventListener
	closed bool
}

var rshLocal = &net.TCPAddr{IP: net.IPv4(127, 0, 0, 1), Port: 2046}
var rshRemote = &net.TCPAddr{IP: net.IPv4(127, 0, 0, 1), Port: 40001}

func (c *rshConn) ID() uint64                   { return 7 }
func (c *rshConn) LocalAddr() net.Addr          { return rshLocal }
func (c *rshConn) RemoteAddr() net.Addr         { return rshRemote }
func (c *rshConn) RawConn() net.Conn            { return nil }
func (c *rshConn) SetReadDisable(bool)          {}
func (c *rshConn) State() api.ConnState         { return api.ConnActive }
func (c *rshConn) Write(...buffer.IoBuffer) error { return nil }
func (c *rshConn) AddConnectionEventListener(l api.ConnectionEventListener) {
	c.mu.Lock()
	c.ls = append(c.ls, l)
	c.mu.Unlock()
}

// Close delivers the event to the listeners once, like a real connection does
func (c *rshConn) Close(_ api.ConnectionCloseType, ev api.ConnectionEvent) error {
	c.fire(ev)
	return nil
}
func (c *rshConn) fire(ev api.ConnectionEvent) {
	c.mu.Lock()
	if c.closed {
		c.mu.Unlock()
		return
	}
	c.closed = true
	ls := append([]api.ConnectionEventListener{}, c.ls...)
	c.mu.Unlock()
	for _, l := range ls {
		l.OnEvent(ev)
	}
}

type rshCb struct {
	conn *rshConn
	mu   sync.Mutex
	host api.HostInfo
}

func (r *rshCb) Connection() api.Connection { return r.conn }
func (r *rshCb) ContinueReading()           {}
func (r *rshCb) UpstreamHost() api.HostInfo {
	r.mu.Lock()
	defer r.mu.Unlock()
	return r.host
}
func (r *rshCb) SetUpstreamHost(h api.HostInfo) {
	r.mu.Lock()
	r.host = h
	r.mu.Unlock()
}

type rshSess struct {
	cb   *rshCb
	up   net.Conn      // the server side of the upstream connection
	gone chan struct{} // closed when the server side read EOF / an error
}

type rshReq struct {
	ex      *px.Exchange
	attempt int
	done    bool
}

type rshWorld struct {
	f        *px.Fixture
	ln       net.Listener
	acc      chan net.Conn
	addr     string
	reqs     map[int]*rshReq
	sess     map[int]*rshSess
	baseQ    int64
	baseC    int64
	baseHQ   int64
	baseHC   int64
	timeoutK map[int]bool // requests that end by the global timeout: started on the short route
}

const (
	rshShortTimeout = 120 * time.Millisecond
	rshLongTimeout  = 20 * time.Second
)

func rshThresholds(t [4]uint32) v2.CircuitBreakers {
	return v2.CircuitBreakers{Thresholds: []v2.Thresholds{{MaxConnections: t[0], MaxPendingRequests: t[1], MaxRequests: t[2], MaxRetries: t[3]}}}
}

func newRshWorld(thr [4]uint32, ln net.Listener, acc chan net.Conn) *rshWorld {
	w := &rshWorld{ln: ln, acc: acc, addr: ln.Addr().String(), reqs: map[int]*rshReq{}, sess: map[int]*rshSess{}, timeoutK: map[int]bool{}}
	cl := func(name string) px.Cluster {
		return px.Cluster{Name: name, Hosts: 1, MaxConnections: thr[0], MaxPendingRequests: thr[1], MaxRequests: thr[2], MaxRetries: thr[3]}
	}
	w.f = px.New(px.Config{
		Clusters: []px.Cluster{cl("c1"), cl("t1")},
		Routes: []v2.Router{
			px.Route("/w", "c1", px.Retry(true, 50, 0), px.Timeout(rshShortTimeout)),
			px.Route("/", "c1", px.Retry(true, 50, 0), px.Timeout(rshLongTimeout)),
		},
	})
	// t1's host is the live loopback listener
	if err := w.f.CM().UpdateClusterHosts(w.f.ClusterName("t1"), w.hostsOf("t1")); err != nil {
		panic(err)
	}
	w.baseQ, w.baseC, w.baseHQ, w.baseHC = w.rawGauges()
	return w
}

func (w *rshWorld) hostsOf(logical string) []v2.Host {
	if logical == "t1" {
		return []v2.Host{{HostConfig: v2.HostConfig{Address: w.addr, Hostname: "t1/0", Weight: 1}}}
	}
	return []v2.Host{{HostConfig: v2.HostConfig{Address: w.f.HostAddr(0, 0), Hostname: "c1/0", Weight: 1}}}
}

func (w *rshWorld) clusterCfg(logical string, o rshOp) v2.Cluster {
	c := v2.Cluster{Name: w.f.ClusterName(logical), ClusterType: v2.SIMPLE_CLUSTER, LbType: v2.LB_ROUNDROBIN, CirBreThresholds: rshThresholds(o.thr)}
	if o.typ == 1 {
		c.ClusterType = v2.STRICT_DNS_CLUSTER
	}
	return c
}

// rawGauges: cluster request_active of c1 / connection_active of t1 read through the CURRENT info objects, and the sums over the
// CURRENT hosts
func (w *rshWorld) rawGauges() (q, c, hq, hc int64) {
	if s := w.f.Snapshot("c1"); s != nil {
		q = s.ClusterInfo().Stats().UpstreamRequestActive.Count()
		s.HostSet().Range(func(h types.Host) bool {
			hq += h.HostStats().UpstreamRequestActive.Count()
			return true
		})
	}
	if s := w.f.Snapshot("t1"); s != nil {
		c = s.ClusterInfo().Stats().UpstreamConnectionActive.Count()
		s.HostSet().Range(func(h types.Host) bool {
			hc += h.HostStats().UpstreamConnectionActive.Count()
			return true
		})
	}
	return
}

func (w *rshWorld) read() string {
	sc, st := w.f.Snapshot("c1"), w.f.Snapshot("t1")
	if sc == nil || st == nil {
		return "nosnapshot"
	}
	rc, rt := sc.ClusterInfo().ResourceManager(), st.ClusterInfo().ResourceManager()
	q, c, hq, hc := w.rawGauges()
	q, c, hq, hc = q-w.baseQ, c-w.baseC, hq-w.baseHQ, hc-w.baseHC
	s := fmt.Sprintf("%d,%d,%d,%d/%d,%d,%d,%d/%d,%d", rt.Connections().Cur(), rc.PendingRequests().Cur(), rc.Requests().Cur(), rc.Retries().Cur(),
		rt.Connections().Max(), rc.PendingRequests().Max(), rc.Requests().Max(), rc.Retries().Max(), q, c)
	if hq != q || hc != c {
		s += fmt.Sprintf("!hosts=%d,%d", hq, hc)
	}
	return s
}

// settle: the observation is read until it has been the same for 3 ms (bounded)
func (w *rshWorld) settle() string {
	last := w.read()
	stable := time.Now()
	deadline := time.Now().Add(400 * time.Millisecond)
	for time.Now().Before(deadline) {
		time.Sleep(time.Millisecond)
		cur := w.read()
		if cur != last {
			last, stable = cur, time.Now()
			continue
		}
		if time.Since(stable) >= 3*time.Millisecond {
			break
		}
	}
	return last
}

func (w *rshWorld) step(o rshOp) string {
	switch o.kind {
	case 'Q':
		if r := w.reqs[o.n]; r != nil && !r.done {
			return "n"
		}
		path := "/a"
		if w.timeoutK[o.n] {
			path = "/w"
		}
		ex := w.f.Request(px.H(":path", path), nil, nil)
		a := ex.WaitAttemptFor(0, 800*time.Millisecond)
		if a == nil {
			return "x"
		}
		r := &rshReq{ex: ex}
		w.reqs[o.n] = r
		if a.Failed != "" {
			ex.WaitDone(500 * time.Millisecond)
			r.done = true
			if a.Failed == types.Overflow {
				return "o"
			}
			return "x"
		}
		ex.WaitQuiescentFor(3 * time.Millisecond)
		return "a"
	case 'T':
		r := w.reqs[o.n]
		if r == nil || r.done {
			return "n"
		}
		as := r.ex.UpstreamAttempts()
		if len(as) <= r.attempt {
			return "x"
		}
		as[r.attempt].Respond(503, nil, nil, nil)
		deadline := time.Now().Add(800 * time.Millisecond)
		for time.Now().Before(deadline) {
			if n := r.ex.WaitAttemptFor(r.attempt+1, time.Millisecond); n != nil {
				r.attempt++
				if n.Failed != "" {
					r.ex.WaitDone(500 * time.Millisecond)
					r.done = true
					if n.Failed == types.Overflow {
						return "o"
					}
					return "x"
				}
				r.ex.WaitQuiescentFor(3 * time.Millisecond)
				return "r"
			}
			if r.ex.Done() {
				// no further attempt: the retry was refused
				r.ex.WaitQuiescentFor(3 * time.Millisecond)
				if len(r.ex.UpstreamAttempts()) > r.attempt+1 {
					continue
				}
				r.done = true
				return "v"
			}
		}
		return "x"
	case 'F', 'R', 'W':
		r := w.reqs[o.n]
		if r == nil || r.done {
			return "n"
		}
		switch o.kind {
		case 'F':
			as := r.ex.UpstreamAttempts()
			if len(as) <= r.attempt {
				return "x"
			}
			as[r.attempt].Respond(200, nil, nil, nil)
		case 'R':
			r.ex.DownstreamReset()
		}
		if !r.ex.WaitDone(time.Second) {
			return "x"
		}
		r.ex.WaitQuiescentFor(3 * time.Millisecond)
		r.done = true
		return "e"
	case 'C':
		if w.sess[o.n] != nil {
			return "n"
		}
		// drop connections accepted for nobody (none expected)
		for len(w.acc) > 0 {
			(<-w.acc).Close()
		}
		ctx := variable.NewVariableContext(context.Background())
		_ = variable.Set(ctx, types.VariableAccessLogs, []api.AccessLog{})
		p := streamproxy.NewProxy(ctx, &v2.StreamProxy{Cluster: w.f.ClusterName("t1")}, "tcp")
		cb := &rshCb{conn: &rshConn{}}
		p.InitializeReadFilterCallbacks(cb)
		if st := p.OnNewConnection(); st != api.Continue {
			return "o"
		}
		s := &rshSess{cb: cb, gone: make(chan struct{})}
		select {
		case s.up = <-w.acc:
		case <-time.After(time.Second):
			return "x"
		}
		go func() {
			b := make([]byte, 64)
			for {
				if _, err := s.up.Read(b); err != nil {
					close(s.gone)
					return
				}
			}
		}()
		w.sess[o.n] = s
		return "a"
	case 'D', 'E':
		s := w.sess[o.n]
		if s == nil {
			return "n"
		}
		delete(w.sess, o.n)
		if o.kind == 'D' {
			s.cb.conn.fire(api.RemoteClose) // the client went away
		} else {
			s.up.Close() // the upstream server closes
		}
		select {
		case <-s.gone:
		case <-time.After(time.Second):
			return "x"
		}
		s.up.Close()
		// the close event of the upstream connection is processed by MOSN's IO goroutines: wait for the downstream side to be
		// closed too (both directions end with the downstream connection closed)
		deadline := time.Now().Add(time.Second)
		for time.Now().Before(deadline) {
			s.cb.conn.mu.Lock()
			cl := s.cb.conn.closed
			s.cb.conn.mu.Unlock()
			if cl {
				break
			}
			time.Sleep(200 * time.Microsecond)
		}
		return "e"
	case 'U':
		ad := cluster.GetClusterMngAdapterInstance()
		cm := w.f.CM()
		for _, logical := range []string{"c1", "t1"} {
			cfg := w.clusterCfg(logical, o)
			var err error
			switch o.via {
			case 'P':
				err = cm.AddOrUpdatePrimaryCluster(cfg)
			case 'p':
				err = ad.TriggerClusterAddOrUpdate(cfg)
			case 'H':
				err = cm.AddOrUpdateClusterAndHost(cfg, w.hostsOf(logical))
			case 'h':
				err = ad.TriggerClusterAndHostsAddOrUpdate(cfg, w.hostsOf(logical))
			}
			if err != nil {
				return "x"
			}
		}
		return "u"
	}
	return "x"
}

func (w *rshWorld) close() {
	for _, s := range w.sess {
		s.cb.conn.fire(api.RemoteClose)
		if s.up != nil {
			s.up.Close()
		}
	}
	w.f.Close()
}

// ---------------------------------------------------------------------------------------------------------------
// runner
// ---------------------------------------------------------------------------------------------------------------

type rshScript struct {
	thr0 [4]uint32
	ops  []rshOp
	fam  string
}

func (sc rshScript) caseToks() string {
	var t []string
	for _, o := range sc.ops {
		t = append(t, o.tok())
	}
	zx := 0
	if rshZx(sc.thr0, sc.ops) {
		zx = 1
	}
	return fmt.Sprintf("rsh %d,%d,%d,%d zx=%d %s", sc.thr0[0], sc.thr0[1], sc.thr0[2], sc.thr0[3], zx, strings.Join(t, " "))
}

func runRshScript(sc rshScript, ln net.Listener, acc chan net.Conn) string {
	w := newRshWorld(sc.thr0, ln, acc)
	defer w.close()
	for _, o := range sc.ops {
		if o.kind == 'W' {
			w.timeoutK[o.n] = true
		}
	}
	var out []string
	for _, o := range sc.ops {
		res := w.step(o)
		out = append(out, res+"/"+w.settle())
	}
	return strings.Join(out, " ")
}

func rshMust(thr0 [4]uint32, fam string, toks ...string) rshScript {
	sc := rshScript{thr0: thr0, fam: fam}
	for _, t := range toks {
		o, ok := rshParseOp(t)
		if !ok {
			panic("rsh: bad op " + t)
		}
		sc.ops = append(sc.ops, o)
	}
	return sc
}

// rshFixed: the histories of the theorems' witnesses and of the defects, always run
var rshFixed = []rshScript{
	// one retry in flight over an update, then the end (copy_instead_of_share_leaks)
	rshMust([4]uint32{1, 1, 1, 1}, "fixed", "Q0", "T0", "UP0:1,1,1,1", "F0", "Q1", "T1", "F1"),
	rshMust([4]uint32{1, 1, 1, 1}, "fixed", "Q0", "T0", "UH0:1,1,1,1", "R0", "Q1", "T1", "F1"),
	rshMust([4]uint32{1, 1, 1, 1}, "fixed", "Q0", "Up0:1,1,1,1", "F0", "Q1", "F1"),
	rshMust([4]uint32{1, 1, 1, 1}, "fixed", "Q0", "Uh0:1,1,1,1", "F0", "Q1", "F1"),
	// a stream-proxy connection over an update, both close directions
	rshMust([4]uint32{1, 1, 1, 1}, "fixed", "C0", "UP0:1,1,1,1", "D0", "C1", "E1"),
	rshMust([4]uint32{1, 1, 1, 1}, "fixed", "C0", "UH0:1,1,1,1", "E0", "C1", "D1"),
	// the type changes with everything in flight (type_guard_orphans: the fixed defect)
	rshMust([4]uint32{1, 1, 1, 1}, "fixed", "Q0", "T0", "C0", "UP1:2,1,2,2", "F0", "D0", "Q1", "F1"),
	rshMust([4]uint32{2, 0, 2, 2}, "fixed", "Q0", "Q1", "T1", "C0", "UH1:2,0,2,2", "UP0:1,0,1,1", "Q2", "F0", "F1", "E0", "Q3", "F3"),
	// the limit trips at the NEW threshold against what was admitted before the update
	rshMust([4]uint32{2, 0, 2, 2}, "fixed", "Q0", "Q1", "C0", "C1", "UP0:1,0,1,1", "Q2", "C2", "F0", "Q3", "F1", "Q4", "D0", "D1", "C3", "F4", "E3"),
	rshMust([4]uint32{1, 0, 1, 1}, "fixed", "Q0", "T0", "UH0:2,0,2,2", "Q1", "T1", "C0", "C1", "F0", "F1", "D0", "D1"),
	// global timeout over an update
	rshMust([4]uint32{1, 1, 1, 1}, "fixed", "Q0", "UP0:1,1,1,1", "W0", "Q1", "F1"),
	rshMust([4]uint32{1, 1, 1, 1}, "fixed", "Q0", "UH0:2,1,2,1", "W0", "Q1", "F1"),
	// through zero (known finding threshold_through_zero): 0 -> 1 under a held unit; 1 -> 0 -> 1
	rshMust([4]uint32{0, 0, 0, 0}, "zero", "Q0", "UP0:1,1,1,1", "F0"),
	rshMust([4]uint32{1, 1, 1, 1}, "zero", "Q0", "UP0:0,0,0,0", "F0", "UP0:1,1,1,1", "Q1"),
	// zero thresholds that stay zero, and a crossing with nothing held: fine
	rshMust([4]uint32{0, 0, 0, 0}, "fixed", "Q0", "T0", "C0", "UH0:0,0,0,0", "F0", "D0", "UP0:1,1,1,1", "Q1", "Q2", "F1"),
}

func rshThr(r *hx.Rng, lo uint32) [4]uint32 {
	pick := func() uint32 { return lo + uint32(r.Intn(int(3-lo))) } // {lo..2}
	return [4]uint32{pick(), uint32(r.Intn(2)), pick(), pick()}
}

// genRshScript: a random history. Families: same (thresholds kept), thr (non-zero thresholds change), type (the cluster type changes
// too), zero (thresholds in {0,1,2}: may cross zero under a held unit). The operands are chosen with the ledger by name so that most
// operations hit live requests / sessions; every history ends idle and, after its last update, runs one more request.
func genRshScript(r *hx.Rng, i int) rshScript {
	fam := []string{"same", "thr", "thr", "type", "type", "zero"}[i%6]
	lo := uint32(1)
	if fam == "zero" {
		lo = 0
	}
	sc := rshScript{thr0: rshThr(r, lo), fam: fam}
	ref := newRshRef(sc.thr0)
	nextK, nextJ, typ := 0, 0, 0
	add := func(o rshOp) {
		sc.ops = append(sc.ops, o)
		ref.apply(o)
	}
	liveReq := func() []int {
		var ks []int
		for k := range ref.reqs {
			ks = append(ks, k)
		}
		sort.Ints(ks)
		return ks
	}
	liveConn := func() []int {
		var js []int
		for j := range ref.conns {
			js = append(js, j)
		}
		sort.Ints(js)
		return js
	}
	update := func() {
		o := rshOp{kind: 'U', via: "PHph"[r.Intn(4)], typ: typ, thr: ref.thr}
		switch fam {
		case "thr":
			o.thr = rshThr(r, 1)
		case "type":
			if r.Chance(60) {
				typ = 1 - typ
			}
			o.typ = typ
			if r.Chance(50) {
				o.thr = rshThr(r, 1)
			}
		case "zero":
			o.thr = rshThr(r, 0)
		}
		add(o)
	}
	n := 6 + r.Intn(7)
	updates := 0
	for len(sc.ops) < n {
		x := r.Intn(100)
		ks, js := liveReq(), liveConn()
		switch {
		case x < 22:
			add(rshOp{kind: 'Q', n: nextK})
			nextK++
		case x < 36 && len(ks) > 0:
			add(rshOp{kind: 'T', n: ks[r.Intn(len(ks))]})
		case x < 48 && len(ks) > 0:
			add(rshOp{kind: "FR"[r.Intn(2)], n: ks[r.Intn(len(ks))]})
		case x < 60:
			add(rshOp{kind: 'C', n: nextJ})
			nextJ++
		case x < 68 && len(js) > 0:
			add(rshOp{kind: "DE"[r.Intn(2)], n: js[r.Intn(len(js))]})
		case x < 71 && nextK > 0:
			add(rshOp{kind: "TF"[r.Intn(2)], n: r.Intn(nextK)}) // possibly an ended request: ignored
		case x < 96 && updates < 4 && (len(ks) > 0 || len(js) > 0 || x > 90): // at most 4 updates: the driver's closure heaps make a line cost ~12x per update
			update()
			updates++
		}
	}
	if updates == 0 {
		update()
	}
	// drain, then one more request, retry and session under the thresholds of the last update
	for _, k := range liveReq() {
		add(rshOp{kind: "FR"[r.Intn(2)], n: k})
	}
	for _, j := range liveConn() {
		add(rshOp{kind: "DE"[r.Intn(2)], n: j})
	}
	add(rshOp{kind: 'Q', n: nextK})
	add(rshOp{kind: 'T', n: nextK})
	add(rshOp{kind: 'C', n: nextJ})
	add(rshOp{kind: 'F', n: nextK})
	add(rshOp{kind: 'D', n: nextJ})
	return sc
}

func rshMin(a, b int) int {
	if a < b {
		return a
	}
	return b
}

// development aid: `mosnh C10share` runs only this kind
func init() { hx.Register("C10share", func(c *hx.Ctx) { RunShare(c, c.N(150, 900)) }) }

func rshCorpus() []rshScript {
	wd, _ := os.Getwd()
	var files []string
	for _, d := range []string{filepath.Join(wd, "..", "..", "corpus", "C10"), filepath.Join(wd, "corpus", "C10")} {
		m, _ := filepath.Glob(filepath.Join(d, "rsh*.txt"))
		files = append(files, m...)
	}
	sort.Strings(files)
	var out []rshScript
	for _, fn := range files {
		fh, err := os.Open(fn)
		if err != nil {
			continue
		}
		s := bufio.NewScanner(fh)
		for s.Scan() {
			t := strings.Fields(s.Text())
			// `C10 rsh <thr> zx=<n> <ops…> [=> …]`
			if len(t) < 5 || t[0] != "C10" || t[1] != "rsh" {
				continue
			}
			sc := rshScript{fam: "corpus"}
			if _, err := fmt.Sscanf(t[2], "%d,%d,%d,%d", &sc.thr0[0], &sc.thr0[1], &sc.thr0[2], &sc.thr0[3]); err != nil {
				continue
			}
			ok := true
			for _, x := range t[4:] {
				if x == "=>" {
					break
				}
				o, good := rshParseOp(x)
				if !good {
					ok = false
					break
				}
				sc.ops = append(sc.ops, o)
			}
			if ok {
				out = append(out, sc)
			}
		}
		fh.Close()
	}
	return out
}

// RunShare runs the fixed histories, the corpus and n generated ones on `workers` goroutines (each with its own upstream listener;
// fixtures are independent: per-fixture cluster names).
func RunShare(c *hx.Ctx, n int) {
	rr := c.Rng.Fork()
	scripts := append([]rshScript{}, rshFixed...)
	scripts = append(scripts, rshCorpus()...)
	for i := 0; i < n; i++ {
		scripts = append(scripts, genRshScript(rr, i))
	}
	const workers = 6
	type res struct{ out string }
	results := make([]res, len(scripts))
	var wg sync.WaitGroup
	next := make(chan int, len(scripts))
	for i := range scripts {
		next <- i
	}
	close(next)
	for wk := 0; wk < workers; wk++ {
		wg.Add(1)
		go func() {
			defer wg.Done()
			ln, err := net.Listen("tcp", "127.0.0.1:0")
			if err != nil {
				panic(err)
			}
			defer ln.Close()
			acc := make(chan net.Conn, 64)
			go func() {
				for {
					cn, err := ln.Accept()
					if err != nil {
						return
					}
					acc <- cn
				}
			}()
			for i := range next {
				msg, panicked := hx.Safe(func() { results[i].out = runRshScript(scripts[i], ln, acc) })
				if panicked {
					results[i].out = "panic/" + hx.Tok(msg)
				}
			}
		}()
	}
	wg.Wait()
	for i, sc := range scripts {
		c.Emit("C10", sc.caseToks(), results[i].out)
		c.Count("rsh.family." + sc.fam)
		c.Count(fmt.Sprintf("rsh.ops.%d", (len(sc.ops)/4)*4))
		ups, inflight := 0, false
		ref := newRshRef(sc.thr0)
		for _, o := range sc.ops {
			if o.kind == 'U' {
				ups++
				c.Count("rsh.via." + string(o.via))
				if len(ref.reqs) > 0 || len(ref.conns) > 0 {
					inflight = true
					c.Count(fmt.Sprintf("rsh.update.inflight.req%d.retry%d.conn%d", rshMin(len(ref.reqs), 2), rshMin(ref.cnt(3), 2), rshMin(len(ref.conns), 2)))
				}
				if o.thr != ref.thr {
					c.Count("rsh.update.thresholds_changed")
				}
			}
			c.Count("rsh.op." + string(o.kind))
			ref.apply(o)
		}
		if inflight {
			c.Count("rsh.update_with_units_in_flight")
		}
		if ref.zx {
			c.Count("rsh.zero_crossing")
		}
		for _, t := range strings.Fields(results[i].out) {
			c.Count("rsh.outcome." + t[:1])
		}
	}
}
