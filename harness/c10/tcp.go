//go:build verif

package c10

// Kind `tcp`: the cluster's Connections() resource and the connection gauges under the REAL stream proxy network filter
// (pkg/filter/network/streamproxy, type "tcp_proxy") installed by the REAL connection handler (pkg/server: activeListener,
// NumConnections, idle checker) on a real loopback listener, against a real cluster whose hosts are a mix of
//   L  live loopback servers (accept; can be taken down and brought up again on the same port),
//   D  dead ports (bound, not listening: connect is refused),
//   T  black holes (listening with a full accept queue: the dial times out after the cluster's connect_timeout),
// with max_connections in {0,1,2,3}.  A case is one generated session script; after every step the harness waits for
// the sockets to show the step's effect, lets the counters settle, and records
//   Connections().Cur(), cluster UpstreamConnectionActive, the sum of the hosts' UpstreamConnectionActive,
//   handler.NumConnections(), UpstreamConnectionTotal / Retry / ConFail / Close of the cluster.
// What the load balancer chose (how many host tries failed before the session connected or gave up) is observed, not
// controlled: it is printed on the implementation side of the line and handed to the model as the oracle of `accept`.

import (
	"context"
	"fmt"
	"net"
	"os"
	"strings"
	"sync"
	"sync/atomic"
	"syscall"
	"time"

	"mosn.io/api"
	v2 "mosn.io/mosn/pkg/config/v2"
	"mosn.io/mosn/pkg/configmanager"
	_ "mosn.io/mosn/pkg/filter/network/streamproxy"
	_ "mosn.io/mosn/pkg/network"
	"mosn.io/mosn/pkg/server"
	"mosn.io/mosn/pkg/types"
	"mosn.io/mosn/pkg/upstream/cluster"

	"verif/harness/hx"
)

// tcpConnectTimeout: the clusters' connect_timeout (experiment switch C10T9_CONNECT_US: a value so small that dials to
// live hosts time out in MOSN after the kernel completed the handshake — exercises the stale-accept detection).
var tcpConnectTimeout = func() time.Duration {
	if v := os.Getenv("C10T9_CONNECT_US"); v != "" {
		var us int
		fmt.Sscan(v, &us)
		return time.Duration(us) * time.Microsecond
	}
	return 120 * time.Millisecond
}()

const (
	tcpReadTimeout = 100 * time.Millisecond // types.DefaultConnReadTimeout while the kind runs
	tcpIdleShort   = 450 * time.Millisecond // listener idle timeout of the idle scripts
	tcpStepWait    = 4 * time.Second
)

type tcpCMF struct{}

func (tcpCMF) OnCreated(types.ClusterConfigFactoryCb, types.ClusterHostFactoryCb) {}

// ---------------------------------------------------------------------------------------------------------------
// upstream hosts
// ---------------------------------------------------------------------------------------------------------------

type tcpUpConn struct {
	c   net.Conn
	eof chan struct{} // closed when the server side read EOF or an error
	got int64
}

type tcpHost struct {
	kind   byte
	port   int
	ln     net.Listener
	fd     int
	fill   []net.Conn
	w      *tcpWorld
	closed int32
	hold   int // c10t9: while a live host is down its port is kept by a bound, non-listening socket (-1: none)
}

func (h *tcpHost) addr() string { return fmt.Sprintf("127.0.0.1:%d", h.port) }

func tcpRawSocket(listen bool) (fd, port int) {
	fd, err := syscall.Socket(syscall.AF_INET, syscall.SOCK_STREAM, 0)
	if err != nil {
		panic(err)
	}
	syscall.SetsockoptInt(fd, syscall.SOL_SOCKET, syscall.SO_REUSEADDR, 1)
	if err := syscall.Bind(fd, &syscall.SockaddrInet4{Port: 0, Addr: [4]byte{127, 0, 0, 1}}); err != nil {
		panic(err)
	}
	if listen {
		if err := syscall.Listen(fd, 0); err != nil {
			panic(err)
		}
	}
	sa, err := syscall.Getsockname(fd)
	if err != nil {
		panic(err)
	}
	return fd, sa.(*syscall.SockaddrInet4).Port
}

func (h *tcpHost) serve(ln net.Listener) {
	for {
		c, err := ln.Accept()
		if err != nil {
			return
		}
		u := &tcpUpConn{c: c, eof: make(chan struct{})}
		go func() {
			buf := make([]byte, 4096)
			for {
				n, err := c.Read(buf)
				atomic.AddInt64(&u.got, int64(n))
				if err != nil {
					close(u.eof)
					return
				}
			}
		}()
		h.w.accepted <- u
	}
}

func (h *tcpHost) listen() error {
	ln, err := net.Listen("tcp", h.addr())
	if err != nil {
		return err
	}
	h.ln = ln
	h.port = ln.Addr().(*net.TCPAddr).Port
	go h.serve(ln)
	return nil
}

func (w *tcpWorld) newHost(kind byte) *tcpHost {
	h := &tcpHost{kind: kind, w: w, fd: -1, hold: -1}
	switch kind {
	case 'L':
		if err := h.listen(); err != nil {
			panic(err)
		}
	case 'D':
		h.fd, h.port = tcpRawSocket(false)
	case 'T':
		h.fd, h.port = tcpRawSocket(true)
		// fill the accept queue until a dial times out
		for i, misses := 0, 0; i < 10 && misses < 2; i++ {
			c, err := net.DialTimeout("tcp", h.addr(), 80*time.Millisecond)
			if err != nil {
				misses++
				continue
			}
			misses = 0
			h.fill = append(h.fill, c)
		}
	}
	return h
}

func (h *tcpHost) shutdown() {
	if h.ln != nil {
		h.ln.Close()
	}
	for _, c := range h.fill {
		c.Close()
	}
	if h.fd >= 0 {
		syscall.Close(h.fd)
	}
	if h.hold >= 0 {
		syscall.Close(h.hold)
		h.hold = -1
	}
}

// ---------------------------------------------------------------------------------------------------------------
// the proxy side: one handler, one listener per use (known cluster / unknown cluster), reconfigured per script
// ---------------------------------------------------------------------------------------------------------------

type tcpHandler interface {
	types.ConnectionHandler
	NumConnections() uint64 // connHandler's count of open downstream connections (not in the interface)
}

type tcpProxySide struct {
	handler  tcpHandler
	addr     *net.TCPAddr // listener whose filter names the script's cluster
	noneAddr *net.TCPAddr // listener whose filter names a cluster that does not exist
}

var tcpPoisoned bool // c10t9: a script ended with a downstream connection MOSN never closed; no further script is run

var (
	tcpSideOnce sync.Once
	tcpSide     *tcpProxySide
	tcpSeq      int64
)

func tcpFreeAddr() *net.TCPAddr {
	l, err := net.Listen("tcp", "127.0.0.1:0")
	if err != nil {
		panic(err)
	}
	a := l.Addr().(*net.TCPAddr)
	l.Close()
	return a
}

func tcpListenerCfg(name string, addr *net.TCPAddr, clusterName string, idle time.Duration) *v2.Listener {
	return &v2.Listener{
		ListenerConfig: v2.ListenerConfig{
			Name:       name,
			AddrConfig: addr.String(),
			BindToPort: true,
			Network:    "tcp",
			FilterChains: []v2.FilterChain{{FilterChainConfig: v2.FilterChainConfig{
				Filters: []v2.Filter{{Type: v2.TCP_PROXY, Config: map[string]interface{}{"cluster": clusterName}}},
			}}},
			ConnectionIdleTimeout: &api.DurationConfig{Duration: idle},
		},
		Addr:                    addr,
		PerConnBufferLimitBytes: 1 << 15,
	}
}

func tcpGetSide() *tcpProxySide {
	tcpSideOnce.Do(func() {
		configmanager.ParseServerConfig(&v2.ServerConfig{})
		cluster.NewClusterManagerSingleton(nil, nil, nil)
		s := &tcpProxySide{addr: tcpFreeAddr(), noneAddr: tcpFreeAddr()}
		s.handler = server.NewHandler(tcpCMF{}, cluster.GetClusterMngAdapterInstance().ClusterManager).(tcpHandler)
		if _, err := s.handler.AddOrUpdateListener(tcpListenerCfg("c10tcp", s.addr, "c10tcp-init", time.Hour)); err != nil {
			panic(err)
		}
		if _, err := s.handler.AddOrUpdateListener(tcpListenerCfg("c10tcp-none", s.noneAddr, "c10tcp-nosuch", time.Hour)); err != nil {
			panic(err)
		}
		s.handler.StartListeners(context.Background())
		// wait until both accept
		for _, a := range []*net.TCPAddr{s.addr, s.noneAddr} {
			dl := time.Now().Add(5 * time.Second)
			for {
				c, err := net.DialTimeout("tcp", a.String(), 200*time.Millisecond)
				if err == nil {
					c.Close()
					break
				}
				if time.Now().After(dl) {
					panic("c10 tcp: listener did not start: " + err.Error())
				}
				time.Sleep(10 * time.Millisecond)
			}
		}
		// the probe connections were closed by the filter (no cluster): wait for the handler to forget them
		dl := time.Now().Add(5 * time.Second)
		for s.handler.NumConnections() != 0 && time.Now().Before(dl) {
			time.Sleep(5 * time.Millisecond)
		}
		tcpSide = s
	})
	return tcpSide
}

// ---------------------------------------------------------------------------------------------------------------
// a script
// ---------------------------------------------------------------------------------------------------------------

type tcpScript struct {
	max   int
	hosts string // kinds
	lb    string // rr | rnd
	idle  bool
	steps []string
}

type tcpSess struct {
	cli    net.Conn
	cliEOF chan struct{}
	got    int64
	up     *tcpUpConn
	est    bool // established (as the sockets show) and not yet closed by a step
	none   bool
}

type tcpWorld struct {
	side      *tcpProxySide
	name      string
	hosts     []*tcpHost
	accepted  chan *tcpUpConn
	sess      []*tcpSess
	amb       int
	max       int
	info      types.ClusterInfo
	slow      bool          // an observation did not reach the reference values in time: use short waits from now on
	script    string        // c10t9: the case tokens (for diagnostics)
	acceptDur time.Duration // c10t9: how long the last accept step took until the sockets showed its outcome
	leaked    []*tcpUpConn  // c10t9: upstream connections beyond a session's own that MOSN keeps open (closed at the end)
	skew      string        // c10t9: why this run of the script is unusable (environment, not MOSN); "" = usable
}

type tcpObs struct {
	cur, cA, hA, nc, cT, rt, cf, cl int64
}

func (o tcpObs) String() string {
	return fmt.Sprintf("%d:%d:%d:%d:%d:%d:%d:%d", o.cur, o.cA, o.hA, o.nc, o.cT, o.rt, o.cf, o.cl)
}

func (w *tcpWorld) snapshot() types.ClusterSnapshot {
	return cluster.GetClusterMngAdapterInstance().GetClusterSnapshot(context.Background(), w.name)
}

func (w *tcpWorld) observe() tcpObs {
	snap := w.snapshot()
	st := w.info.Stats()
	var hA int64
	snap.HostSet().Range(func(h types.Host) bool {
		hA += h.HostStats().UpstreamConnectionActive.Count()
		return true
	})
	return tcpObs{
		cur: w.info.ResourceManager().Connections().Cur(),
		cA:  st.UpstreamConnectionActive.Count(),
		hA:  hA,
		nc:  int64(w.side.handler.NumConnections()),
		cT:  st.UpstreamConnectionTotal.Count(),
		rt:  st.UpstreamConnectionRetry.Count(),
		cf:  st.UpstreamConnectionConFail.Count(),
		cl:  st.UpstreamConnectionClose.Count(),
	}
}

func (w *tcpWorld) estCount() int64 {
	var n int64
	for _, s := range w.sess {
		if s.est {
			n++
		}
	}
	return n
}

// settle waits until the four live counters are stable; when they differ from what the sockets say (the harness's own
// bookkeeping: established sessions, ambient slots) it keeps waiting — a late goroutine is tolerated, a wrong counter is
// reported as observed.
func (w *tcpWorld) settle() tcpObs {
	est := w.estCount()
	wantCur := int64(0)
	if w.max != 0 {
		wantCur = int64(w.amb) + est
	}
	matches := func(o tcpObs) bool { return o.cur == wantCur && o.cA == est && o.hA == est && o.nc == est }
	// c10t9: the counters must have been unchanged for 20 ms PLUS three times the worst overshoot of the poll sleeps seen
	// during this settle (a goroutine of MOSN that is about to move a counter may be waiting for a CPU just as long as we
	// did); the budget for reaching the reference values is scaled by the measured scheduling latency, and when it runs
	// out on a process that is not calm the wait is extended once (the counters are reported as observed in the end —
	// a wrong counter stays wrong and is reported, a late goroutine is waited for)
	limit := hx.Scaled(2500 * time.Millisecond)
	if w.slow {
		limit = hx.Scaled(150 * time.Millisecond)
	}
	start := time.Now()
	last := w.observe()
	stableSince := time.Now()
	var worst time.Duration
	extended := false
	for {
		t := time.Now()
		time.Sleep(4 * time.Millisecond)
		if over := time.Since(t) - 4*time.Millisecond; over > worst {
			worst = over
			if over > 5*time.Millisecond {
				hx.NoteLatency(over)
			}
		}
		o := w.observe()
		if o != last {
			last = o
			stableSince = time.Now()
		}
		stable := time.Since(stableSince) >= 20*time.Millisecond+3*worst
		if stable && matches(o) {
			return o
		}
		if time.Since(start) > limit && stable {
			if extended {
				atomic.AddInt64(&tcpUselessExt, 1)
			}
			if !w.slow && !extended && atomic.LoadInt64(&tcpUselessExt) < 3 {
				if calm, why, _ := tcpCalm(); !calm {
					hx.Logf("c10 tcp: settle: reference values not reached after %v, process not calm (%s): extending", time.Since(start), why)
					extended = true
					limit = tcpHardCap / 2
					continue
				}
			}
			w.slow = true
			return o
		}
	}
}

func (w *tcpWorld) dial(none bool) *tcpSess {
	a := w.side.addr
	if none {
		a = w.side.noneAddr
	}
	s := &tcpSess{cliEOF: make(chan struct{}), none: none}
	c, err := net.DialTimeout("tcp", a.String(), hx.Scaled(2*time.Second))
	if err != nil {
		// c10t9: the proxy's listener did not take the connection (its accept queue is full: the accept loop is not being
		// scheduled) — nothing MOSN decided: the script is unusable
		w.skew = "client-dial"
		close(s.cliEOF)
		return s
	}
	s.cli = c
	go func() {
		buf := make([]byte, 4096)
		for {
			n, err := c.Read(buf)
			atomic.AddInt64(&s.got, int64(n))
			if err != nil {
				close(s.cliEOF)
				return
			}
		}
	}()
	return s
}

func tcpRST(c net.Conn) {
	if t, ok := c.(*net.TCPConn); ok {
		t.SetLinger(0)
	}
	c.Close()
}

func (w *tcpWorld) sessOf(arg string) *tcpSess {
	var k int
	fmt.Sscan(arg, &k)
	if k < 0 || k >= len(w.sess) {
		return nil
	}
	return w.sess[k]
}

// step runs one step; the returned token is what the sockets showed (not what MOSN counted).
func (w *tcpWorld) step(st string, r *hx.Rng) (string, bool) {
	op, arg := st[0], st[1:]
	switch op {
	case 'A', 'N': // a new downstream connection (N: through the listener whose cluster does not exist)
		t0 := time.Now()
		defer func() { w.acceptDur = time.Since(t0) }()
		s := w.dial(op == 'N')
		w.sess = append(w.sess, s)
		if w.skew != "" {
			return "", false
		}
		var u *tcpUpConn
		switch w.await("accept", func() bool {
			select {
			case u = <-w.accepted:
				return true
			case <-s.cliEOF:
				return true
			default:
				return false
			}
		}) {
		case awHang:
			return "h", true
		case awSkew:
			return "", false
		}
		if u != nil {
			s.up, s.est = u, true
			return "e", true
		}
		return "x", true
	case 'C', 'R': // the client closes (FIN) / resets
		s := w.sessOf(arg)
		if s == nil || s.cli == nil {
			return "-", true
		}
		was := s.est
		if op == 'C' {
			s.cli.Close()
		} else {
			tcpRST(s.cli)
		}
		s.est = false
		if was {
			switch w.await("client-close", tcpClosed(s.up.eof)) {
			case awHang:
				return "h", true
			case awSkew:
				return "", false
			}
		}
		if was {
			return "c", true
		}
		return "-", true
	case 'U', 'V': // the upstream server closes (FIN) / resets the session's connection
		s := w.sessOf(arg)
		if s == nil || !s.est {
			return "-", true
		}
		if op == 'U' {
			s.up.c.Close()
		} else {
			tcpRST(s.up.c)
		}
		s.est = false
		switch w.await("upstream-close", tcpClosed(s.cliEOF)) {
		case awHang:
			return "h", true
		case awSkew:
			return "", false
		}
		s.cli.Close()
		return "c", true
	case 'S', 'T': // bytes client -> upstream / upstream -> client
		s := w.sessOf(arg)
		if s == nil || !s.est {
			return "-", true
		}
		n := int64(1 + r.Intn(3000))
		var cnt *int64
		if op == 'S' {
			cnt = &s.up.got
			before := atomic.LoadInt64(cnt)
			s.cli.Write(make([]byte, n))
			n += before
		} else {
			cnt = &s.got
			before := atomic.LoadInt64(cnt)
			s.up.c.Write(make([]byte, n))
			n += before
		}
		switch w.await("data", func() bool { return atomic.LoadInt64(cnt) >= n }) {
		case awHang:
			return "h", true
		case awSkew:
			return "", false
		}
		return "d", true
	case 'H': // H<j>- take live host j down, H<j>+ bring it up again on the same port
		var j int
		fmt.Sscan(arg[:len(arg)-1], &j)
		if j >= len(w.hosts) || w.hosts[j].kind != 'L' {
			return "-", true
		}
		h := w.hosts[j]
		if arg[len(arg)-1] == '-' {
			if h.ln != nil {
				h.ln.Close()
				h.ln = nil
				// c10t9: a down host must stay a port on which connect is REFUSED: keep it with a bound, non-listening socket
				// (a free port is handed by the kernel to the next listener any process of the machine opens)
				if !tcpNoHold {
					if h.hold = tcpHoldPort(h.port); h.hold < 0 {
						w.skew = "port-lost"
						return "", false
					}
					if _, foreign := w.foreignListener(); foreign {
						w.skew = "port-lost"
						return "", false
					}
				}
			}
		} else if h.ln == nil {
			var err error
			for i := 0; i < 20; i++ {
				if err = h.listen(); err == nil { // (listening is allowed while the holder is bound: no free window)
					break
				}
				time.Sleep(5 * time.Millisecond)
			}
			if err != nil {
				w.skew = "port-lost"
				return "", false // the port was taken meanwhile: the script cannot continue
			}
			if h.hold >= 0 {
				syscall.Close(h.hold)
				h.hold = -1
			}
		}
		return "-", true
	case 'F', 'G': // mark host j unhealthy / healthy
		var j int
		fmt.Sscan(arg, &j)
		if j >= len(w.hosts) {
			return "-", true
		}
		addr := w.hosts[j].addr()
		w.snapshot().HostSet().Range(func(h types.Host) bool {
			if h.AddressString() == addr {
				if op == 'F' {
					h.SetHealthFlag(api.FAILED_ACTIVE_HC)
				} else {
					h.ClearHealthFlag(api.FAILED_ACTIVE_HC)
				}
			}
			return true
		})
		return "-", true
	case '+': // another user of the cluster's connections resource (a connection pool) takes a slot, as the pools do
		res := w.info.ResourceManager().Connections()
		if res.CanCreate() {
			res.Increase()
			w.amb++
			return "a", true
		}
		return "r", true
	case '-':
		if w.amb > 0 {
			w.info.ResourceManager().Connections().Decrease()
			w.amb--
		}
		return "-", true
	case 'I': // wait for the listener's idle timeout to close every open downstream connection
		for _, s := range w.sess {
			if s.est {
				switch w.awaitFor("idle-close", tcpIdleShort*3+2*time.Second, tcpClosed(s.cliEOF)) {
				case awHang:
					return "h", true
				case awSkew:
					return "", false
				}
				s.est = false
				s.cli.Close()
			}
		}
		return "i", true
	}
	panic("c10 tcp: unknown step " + st)
}

// runTcpScript runs one script; ok=false when the environment (not MOSN) made it unusable (why: the counted reason).
func runTcpScript(c *hx.Ctx, sc tcpScript, r *hx.Rng) (out string, ok bool, why string) {
	side := tcpGetSide()
	w := &tcpWorld{side: side, name: fmt.Sprintf("c10tcp-%d", atomic.AddInt64(&tcpSeq, 1)), accepted: make(chan *tcpUpConn, 64), max: sc.max, script: sc.caseToks()}
	defer func() {
		if !ok && why == "" {
			why = w.skew
		}
		for _, s := range w.sess {
			if s.cli != nil {
				s.cli.Close()
			}
			if s.up != nil {
				s.up.c.Close()
			}
		}
		// c10t9: MOSN closes its side of these connections on goroutines of its own: the script is over when the handler
		// has forgotten them all (the next script, or the re-run of this one, must start on an idle proxy)
		if !w.waitNoConnections("end-of-script") {
			// MOSN keeps a downstream connection whose client is gone (everything parked): a leak. When the script's own line
			// shows a hang (`h`, a violation with this script as the failing input) the line is the report and the kind stops
			// here (later scripts would start on a proxy that is not idle); otherwise it panics as it always did
			msg := fmt.Sprintf("c10 tcp: %d downstream connections still open after every client was closed (script %s)", side.handler.NumConnections(), sc.caseToks())
			if ok && (strings.HasPrefix(out, "h:") || strings.Contains(out, ";h:")) {
				hx.Logf("%s: the kind stops after this script", msg)
				tcpPoisoned = true
			} else {
				panic(msg)
			}
		}
		for _, u := range w.leaked {
			u.c.Close()
		}
		for _, h := range w.hosts {
			h.shutdown()
		}
		// health flags live in a process-wide store keyed by ADDRESS (shared by every host object with that address):
		// a flag left behind would make a later script's host on a reused port unhealthy from the start
		if w.info != nil {
			if snap := w.snapshot(); snap != nil {
				snap.HostSet().Range(func(h types.Host) bool {
					h.ClearHealthFlag(api.FAILED_ACTIVE_HC)
					return true
				})
			}
			cluster.GetClusterMngAdapterInstance().RemovePrimaryCluster(w.name)
		}
		for w.amb > 0 {
			w.info.ResourceManager().Connections().Decrease()
			w.amb--
		}
	}()
	var hosts []v2.Host
	for _, k := range []byte(sc.hosts) {
		h := w.newHost(k)
		w.hosts = append(w.hosts, h)
		hosts = append(hosts, v2.Host{HostConfig: v2.HostConfig{Address: h.addr()}})
	}
	lb := v2.LB_ROUNDROBIN
	if sc.lb == "rnd" {
		lb = v2.LB_RANDOM
	}
	cm := cluster.GetClusterMngAdapterInstance()
	cc := v2.Cluster{Name: w.name, ClusterType: v2.SIMPLE_CLUSTER, LbType: lb,
		ConnectTimeout:   &api.DurationConfig{Duration: tcpConnectTimeout},
		CirBreThresholds: v2.CircuitBreakers{Thresholds: []v2.Thresholds{{MaxConnections: uint32(sc.max)}}}}
	if err := cm.AddOrUpdatePrimaryCluster(cc); err != nil {
		panic(err)
	}
	if err := cm.UpdateClusterHosts(w.name, hosts); err != nil {
		panic(err)
	}
	w.info = w.snapshot().ClusterInfo()
	idle := time.Hour
	if sc.idle {
		idle = tcpIdleShort
	}
	if _, err := side.handler.AddOrUpdateListener(tcpListenerCfg("c10tcp", side.addr, w.name, idle)); err != nil {
		panic(err)
	}
	if !w.waitNoConnections("start-of-script") {
		panic(fmt.Sprintf("c10 tcp: %d downstream connections left over from the previous script", side.handler.NumConnections()))
	}
	var toks []string
	var prev tcpObs
	batchStart := time.Time{}
	for _, st := range sc.steps {
		if sc.idle {
			if st[0] == 'A' && batchStart.IsZero() {
				batchStart = time.Now()
			}
			if st[0] == 'I' {
				if !batchStart.IsZero() && time.Since(batchStart) > tcpIdleShort/2 {
					return "", false, "idle-batch" // the idle timer may already have fired: timing skew, not a verdict
				}
				batchStart = time.Time{}
			}
		}
		tok, okStep := w.step(st, r)
		if !okStep {
			return "", false, w.skew
		}
		if tok == "h" && strings.Contains(sc.hosts, "T") && !w.slow {
			// a black hole that accepted after all (its accept queue was not full): the environment, not MOSN
			return "", false, "blackhole-accepted"
		}
		o := w.settle()
		if st[0] == 'A' || st[0] == 'N' {
			s := w.sess[len(w.sess)-1]
			failedTries, connected := o.rt > prev.rt, o.cT > prev.cT
			// c10t9: the step took an upstream connection for the session's which is at EOF now, the client is at EOF, and
			// MOSN's own counters say "tries failed, none connected": the accepted connection was a dial MOSN had given up
			// (connect timeout although the kernel completed the handshake) — see staleAccepts. (A session MOSN connected
			// — cT moved — and closed at once is NOT excused: it stays `e` and the counters tell.)
			if tok == "e" && failedTries && !connected && tcpClosed(s.up.eof)() && tcpClosed(s.cliEOF)() {
				return "", false, "dial-timeout-on-live-host"
			}
			// c10t9: in a cluster without black holes every failed try is a REFUSED dial (ConnectFailed, counted in cf); a
			// dial whose goroutine is not scheduled for connect_timeout ends as ConnectTimeout instead (not counted in cf).
			// When tries failed and the step took longer than the connect timeout the two cannot be told apart from outside
			if failedTries && !strings.Contains(sc.hosts, "T") && w.acceptDur >= tcpConnectTimeout {
				hx.Logf("c10 tcp: accept with failed tries took %v >= connect_timeout %v on a cluster without black holes: refused and timed-out dials cannot be told apart: script dropped", w.acceptDur, tcpConnectTimeout)
				return "", false, "slow-dial"
			}
			// c10t9: connections our live hosts accepted beyond the session's own (see staleAccepts)
			if n, skew := w.staleAccepts(w.sess[len(w.sess)-1]); n > 0 && skew {
				hx.Logf("c10 tcp: %d upstream connection(s) accepted by a live host and given up by MOSN's dial (connect timeout %v under load): script dropped", n, tcpConnectTimeout)
				return "", false, "dial-timeout-on-live-host"
			}
		}
		toks = append(toks, tok+":"+o.String())
		prev = o
	}
	return strings.Join(toks, ";"), true, ""
}

// ---------------------------------------------------------------------------------------------------------------
// generator
// ---------------------------------------------------------------------------------------------------------------

func genTcpScript(r *hx.Rng, i int) tcpScript {
	sc := tcpScript{max: r.Pick([]int{0, 1, 1, 2, 2, 3}), lb: r.PickS([]string{"rr", "rr", "rnd"})}
	fam := r.PickS([]string{"mixed", "mixed", "mixed", "outage", "outage", "limit", "live", "idle", "timeout", "empty"})
	if i < 10 {
		fam = []string{"outage", "limit", "mixed", "live", "idle", "timeout", "empty", "outage", "mixed", "limit"}[i]
	}
	nh := 1 + r.Intn(5)
	switch fam {
	case "live", "limit", "idle":
		sc.hosts = strings.Repeat("L", 1+r.Intn(4))
	case "outage":
		sc.hosts = strings.Repeat("L", nh) // all taken down first
	case "mixed":
		for k := 0; k < nh; k++ {
			sc.hosts += r.PickS([]string{"L", "L", "D"})
		}
	case "timeout":
		sc.hosts = r.PickS([]string{"T", "TL", "LT", "TT"})
	case "empty":
		sc.hosts = ""
	}
	open := []int{} // sessions the generator believes open (it cannot know what the balancer will meet)
	ns := 0
	amb := 0
	add := func(s string) { sc.steps = append(sc.steps, s) }
	accept := func() {
		if r.Chance(6) {
			add("N")
		} else {
			add("A")
			open = append(open, ns)
		}
		ns++
	}
	closeOne := func() {
		if len(open) == 0 {
			return
		}
		k := r.Intn(len(open))
		add(r.PickS([]string{"C", "C", "U", "U", "R", "V"}) + fmt.Sprint(open[k]))
		open = append(open[:k], open[k+1:]...)
	}
	random := func(n int) {
		for j := 0; j < n; j++ {
			switch x := r.Intn(100); {
			case x < 38:
				accept()
			case x < 62:
				closeOne()
			case x < 72 && len(open) > 0:
				add(r.PickS([]string{"S", "T"}) + fmt.Sprint(open[r.Intn(len(open))]))
			case x < 80 && len(sc.hosts) > 0 && fam != "timeout": // (a black-hole cluster keeps one failure kind: dial timeout)
				j := r.Intn(len(sc.hosts))
				add(fmt.Sprintf("H%d%s", j, r.PickS([]string{"-", "+"})))
			case x < 85 && len(sc.hosts) > 0:
				add(r.PickS([]string{"F", "G"}) + fmt.Sprint(r.Intn(len(sc.hosts))))
			case x < 93:
				add("+")
				amb++
			case x < 97 && amb > 0:
				add("-")
				amb--
			case ns > 0: // a step on a session that may be gone already (malformed stream)
				add(r.PickS([]string{"C", "U", "S", "R"}) + fmt.Sprint(r.Intn(ns)))
			}
		}
	}
	switch fam {
	case "outage": // every host down: failed sessions; then the upstream recovers and later sessions must be admitted
		for j := range sc.hosts {
			add(fmt.Sprintf("H%d-", j))
		}
		for j := 0; j < 1+r.Intn(4); j++ {
			accept()
		}
		for j := range sc.hosts {
			add(fmt.Sprintf("H%d+", j))
		}
		for j := 0; j < 1+r.Intn(3); j++ {
			accept()
		}
		random(r.Intn(5))
	case "limit": // run into the limit, free a slot, try again
		for j := 0; j < sc.max+1+r.Intn(2); j++ {
			accept()
		}
		closeOne()
		accept()
		random(r.Intn(5))
	case "idle":
		sc.idle = true
		for j := 0; j < 1+r.Intn(3); j++ {
			add("A")
		}
		add("I")
		if r.Bool() {
			add("A")
			add("I")
		}
		open = nil
	case "timeout":
		for j := 0; j < 1+r.Intn(3); j++ {
			accept()
		}
		random(r.Intn(3))
	default:
		random(4 + r.Intn(9))
	}
	// run down: close what the generator believes open, give the ambient slots back; the last observation is the idle proxy
	for _, k := range open {
		add(r.PickS([]string{"C", "U"}) + fmt.Sprint(k))
	}
	for ; amb > 0; amb-- {
		add("-")
	}
	if len(sc.steps) == 0 {
		add("A")
		add("C0")
	}
	return sc
}

func (sc tcpScript) caseToks() string {
	h := sc.hosts
	if h == "" {
		h = "-"
	}
	idle := 0
	if sc.idle {
		idle = 1
	}
	return fmt.Sprintf("tcp max=%d hosts=%s lb=%s idle=%d %s", sc.max, h, sc.lb, idle, strings.Join(sc.steps, ","))
}

// tcpFixed: scripts run first on every seed (the boundary scenarios of the property, including the minimised failing
// inputs of past seeded changes: failed dials on a limited cluster followed by the upstream's recovery).
var tcpFixed = []tcpScript{
	{max: 1, hosts: "L", lb: "rr", steps: []string{"H0-", "A", "H0+", "A", "C1"}},
	{max: 2, hosts: "DD", lb: "rr", steps: []string{"A", "A", "A"}},
	{max: 1, hosts: "DDDDD", lb: "rnd", steps: []string{"A", "A"}},
	{max: 1, hosts: "T", lb: "rr", steps: []string{"A", "A"}},
	{max: 1, hosts: "L", lb: "rr", steps: []string{"A", "A", "C0", "A", "U2"}},
	{max: 2, hosts: "L", lb: "rr", steps: []string{"+", "A", "A", "-", "A", "V0", "R2"}},
	{max: 0, hosts: "LD", lb: "rnd", steps: []string{"A", "A", "C0", "U1"}},
	{max: 2, hosts: "L", lb: "rr", idle: true, steps: []string{"A", "A", "I"}},
	{max: 1, hosts: "LL", lb: "rr", steps: []string{"F0", "F1", "A", "G0", "A", "C1"}},
	{max: 1, hosts: "", lb: "rr", steps: []string{"A", "N"}},
}

// RunTcp generates and runs n session scripts.
func RunTcp(c *hx.Ctx, n int) {
	r := c.Rng.Fork()
	oldRT := types.DefaultConnReadTimeout
	types.DefaultConnReadTimeout = tcpReadTimeout
	defer func() { types.DefaultConnReadTimeout = oldRT }()
	hx.Calibrate()
	defer func() {
		sc, worst := hx.SchedScale()
		hx.Logf("c10 tcp: budget scale %.2f, worst scheduling latency %v", sc, worst)
		c.Count(fmt.Sprintf("tcp.budget-scale<=%d", 1<<uint(bitsFor(sc))))
	}()
	for i := 0; i < n; i++ {
		sc := genTcpScript(r, i)
		if i < len(tcpFixed) {
			sc = tcpFixed[i]
		}
		fr := r.Fork()
		var out, why string
		ok := false
		if i%10 == 0 {
			hx.Calibrate() // c10t9: the budgets follow the scheduling latency of the machine as it is now
		}
		for attempt := 0; attempt < 3 && !ok; attempt++ {
			out, ok, why = runTcpScript(c, sc, fr)
			if !ok {
				c.Count("tcp.skew-rerun")
				c.Count("tcp.skew=" + why)
				hx.Calibrate()
			}
		}
		tcpAccount(c, !ok, n)
		if !ok {
			c.Count("tcp.skew-dropped")
			continue
		}
		c.Emit("C10", sc.caseToks(), out)
		if tcpPoisoned {
			c.Count("tcp.stopped-after-leaked-connection")
			c.FlushNow()
			return
		}
		c.Count(fmt.Sprintf("tcp.max=%d", sc.max))
		c.Count("tcp.hosts=" + tcpHostClass(sc.hosts))
		for _, st := range sc.steps {
			c.Count("tcp.step=" + string(st[0]))
		}
		for _, o := range strings.Split(out, ";") {
			c.Count("tcp.outcome=" + o[:1])
		}
		if sc.idle {
			c.Count("tcp.idle-script")
		}
	}
}

func tcpHostClass(h string) string {
	switch {
	case h == "":
		return "none"
	case strings.Trim(h, "L") == "":
		return "all-live"
	case strings.Trim(h, "D") == "":
		return "all-dead"
	case strings.Contains(h, "T"):
		return "with-blackhole"
	}
	return "live+dead"
}

// bitsFor: ceil(log2(x)) for the scale bucket of the distribution (1, 2, 4, 8).
func bitsFor(x float64) int {
	b := 0
	for v := 1.0; v < x; v *= 2 {
		b++
	}
	return b
}
