//go:build verif

package c06

import (
	"context"
	"fmt"
	"math/rand"
	"sort"
	"strings"
	"sync"
	"time"

	"verif/harness/hx"
)

// gateSource is a deterministic generator with the shape of math/rand's: Int63 = read the state; compute; write the state.
// The two halves are separate critical sections of the source's own mutex (memory-safe, race-detector clean), and while
// `gated` a caller announces itself between them and waits to be released: a second caller that can enter Int63 meanwhile
// (because the code under test does not hold its lock around the draw) reads the SAME state.
type gateSource struct {
	mu        sync.Mutex
	pos       int
	stream    []int
	inside    int
	maxInside int
	handed    []int
	gated     bool
	arrived   chan struct{}
	release   chan struct{}
}

func (s *gateSource) Seed(int64) {}

func (s *gateSource) Int63() int64 {
	s.mu.Lock()
	p := s.pos // read half
	s.inside++
	if s.inside > s.maxInside {
		s.maxInside = s.inside
	}
	gated := s.gated
	s.mu.Unlock()
	if gated {
		s.arrived <- struct{}{}
		<-s.release
	}
	s.mu.Lock()
	s.pos = p + 1 // write half
	s.inside--
	v := s.stream[p%len(s.stream)]
	s.handed = append(s.handed, v)
	s.mu.Unlock()
	return int64(v) << 32 // rand.Rand.Intn(n) = v for v < n < 2^31
}

// cwcCase: `before` sequential ClusterName calls, then k concurrent callers on the same rule (each held inside the
// generator between its read and its write half until the harness has waited 12 ms for further callers to arrive there),
// then `after` sequential calls. One line:
// `cwc <vector> <stream of draws> <before> <k> <after> => <draws handed out, in hand-out order> <max callers inside the
// generator at once> <clusters returned to the concurrent callers, sorted>`.
func cwcCase(c *hx.Ctx, v vec, stream []int, before, k, after int) {
	rule := newRule(v)
	src := &gateSource{stream: stream, arrived: make(chan struct{}, k+1), release: make(chan struct{})}
	rule.VerifSetRand(rand.New(src))
	ctx := context.Background()
	for i := 0; i < before; i++ {
		rule.ClusterName(ctx)
	}
	src.mu.Lock()
	src.gated = true
	src.mu.Unlock()
	names := make([]string, k)
	var wg sync.WaitGroup
	for i := 0; i < k; i++ {
		wg.Add(1)
		go func(i int) {
			defer wg.Done()
			names[i] = rule.ClusterName(ctx)
		}(i)
	}
	hung := false
	for remaining := k; remaining > 0 && !hung; {
		n := 0
		select {
		case <-src.arrived:
			n = 1
		case <-time.After(5 * time.Second):
			hung = true
		}
	more:
		for n > 0 && n < remaining {
			select {
			case <-src.arrived:
				n++
			case <-time.After(12 * time.Millisecond):
				break more
			}
		}
		for i := 0; i < n; i++ {
			src.release <- struct{}{}
		}
		remaining -= n
	}
	if hung {
		c.Count("cwc.hung")
		c.Emit("C06", fmt.Sprintf("cwc %s %s %d %d %d", v.String(), joinInts(stream), before, k, after), "hung 0 -")
		return
	}
	wg.Wait()
	src.mu.Lock()
	src.gated = false
	src.mu.Unlock()
	for i := 0; i < after; i++ {
		rule.ClusterName(ctx)
	}
	sort.Strings(names)
	toks := make([]string, len(names))
	for i, n := range names {
		toks[i] = hx.Tok(n)
	}
	src.mu.Lock()
	handed, maxInside := joinInts(src.handed), src.maxInside
	src.mu.Unlock()
	c.Emit("C06", fmt.Sprintf("cwc %s %s %d %d %d", v.String(), joinInts(stream), before, k, after),
		fmt.Sprintf("%s %d %s", handed, maxInside, strings.Join(toks, ",")))
	c.Count(fmt.Sprintf("cwc.callers=%d", k))
	c.Count(fmt.Sprintf("cwc.max_inside=%d", maxInside))
}

func joinInts(xs []int) string {
	if len(xs) == 0 {
		return "-"
	}
	p := make([]string, len(xs))
	for i, x := range xs {
		p[i] = fmt.Sprint(x)
	}
	return strings.Join(p, ",")
}

// runCWC: concurrent callers of ClusterName on one weighted route. Streams: a full period (a permutation of [0,total)) when it
// fits the number of calls, else seeded draws; boundaries 0 and total-1 included.
func runCWC(c *hx.Ctx) {
	r := c.Rng.Fork()
	names := []string{"a", "b", "c", "d", "e"}
	mk := func(ws []int) (vec, int) {
		var v vec
		tot := 0
		for i, w := range ws {
			v = append(v, struct {
				name string
				w    uint32
			}{names[i], uint32(w)})
			tot += w
		}
		return v, tot
	}
	one := func(ws []int, before, k, after int) {
		v, tot := mk(ws)
		if tot == 0 {
			return
		}
		n := before + k + after
		stream := make([]int, n)
		if tot <= n {
			// whole periods: every draw of [0,total) exactly once per period, in a seeded order
			for i := 0; i < n; i += tot {
				perm := make([]int, tot)
				for j := range perm {
					perm[j] = j
				}
				for j := tot - 1; j > 0; j-- {
					x := r.Intn(j + 1)
					perm[j], perm[x] = perm[x], perm[j]
				}
				copy(stream[i:], perm)
			}
			c.Count("cwc.stream=full-periods")
		} else {
			for i := range stream {
				switch r.Intn(6) {
				case 0:
					stream[i] = 0
				case 1:
					stream[i] = tot - 1
				default:
					stream[i] = r.Intn(tot)
				}
			}
			c.Count("cwc.stream=seeded")
		}
		cwcCase(c, v, stream, before, k, after)
	}
	small := [][]int{{1, 1}, {3, 2}, {1, 2, 3}, {2, 0, 1}, {5, 3, 2}, {1, 4}, {7}, {90, 10}, {1, 1, 1, 1}}
	for i, ws := range small {
		one(ws, i%3, 2+i%2, 2+i%4)
	}
	for i := 0; i < c.N(16, 120); i++ {
		n := 1 + r.Intn(5)
		ws := make([]int, n)
		for j := range ws {
			switch r.Intn(6) {
			case 0:
				ws[j] = 0
			case 1:
				ws[j] = r.Pick([]int{100, 1000, 65536})
			default:
				ws[j] = 1 + r.Intn(6)
			}
		}
		one(ws, r.Intn(6), 2+r.Intn(3), r.Intn(8))
	}
}
