//go:build verif

package c06

import (
	"fmt"
	"sort"
	"strings"
	"time"

	"mosn.io/mosn/pkg/types"
	"mosn.io/mosn/pkg/upstream/cluster"
	"verif/harness/c05"
	"verif/harness/hx"
)

// ---- weighted round robin with CONCURRENT callers: overlapping ChooseHost calls on the real balancer, driven
// deterministically through the gate hook in front of the scheduler's weight callback.
//
// One case: build the real LB_WEIGHTED_ROUNDROBIN balancer, serve `before` lookups one after the other, then start `k`
// goroutines that each call ChooseHost once. The gate holds every caller at the weight callback (inside NextAndPush,
// after the peek). After starting a caller the harness waits a short time for it to reach the gate: it either arrives
// (an OVERLAP: two callers are between peek and fix at once) or it does not (it is blocked on edf.lock: serialized).
// Then the held callers are released one at a time, each is awaited, and callers that were blocked arrive at the gate
// as the mutex becomes free. Afterwards `after` more lookups are served one after the other.
// Line: `cwrr <weights> <rr0> <warm-up> <before> <k> <after> => <before picks> <picks of the k callers in callback order>
//        <values returned to the k callers, sorted> <max callers held at the callback at once> <after picks>`.

const (
	gateArrive = 12 * time.Millisecond // how long a started caller is given to reach the callback before it counts as blocked
	gateStuck  = 20 * time.Second      // a released / unblocked caller must make progress within this time
)

func digit(i int) byte {
	if i < 0 || i > 9 {
		return '?'
	}
	return byte('0' + i)
}

func dash(b []byte) string {
	if len(b) == 0 {
		return "-"
	}
	return string(b)
}

func cwrrCase(c *hx.Ctx, e *c05.Env, ws []int, before, k, after int) {
	e.Reset()
	hs := make([]c05.HostSpec, len(ws))
	wtok := make([]string, len(ws))
	for i, w := range ws {
		hs[i] = c05.HostSpec{ID: i, W: uint32(w)}
		wtok[i] = fmt.Sprint(w)
	}
	op := e.Replace(hs) // S<hosts>|<rr0>|<pre>
	f := strings.Split(op, "|")
	lb := e.Cl.Snapshot().LoadBalancer()
	lc := &lbCtx{}
	serve := func(n int) []byte {
		out := make([]byte, 0, n)
		for i := 0; i < n; i++ {
			h := lb.ChooseHost(lc)
			x := -1
			if h != nil {
				x = e.IndexOf(h)
			}
			out = append(out, digit(x))
		}
		return out
	}
	pb := serve(before)

	entered := make(chan int, k)
	release := make(chan struct{})
	rets := make(chan int, k)
	remove, ok := cluster.VerifEdfGate(lb, func(item cluster.WeightItem) {
		entered <- e.IndexOf(item.(types.Host))
		<-release
	})
	var conc, ret []byte
	held, maxHeld, nEntered, nRet := 0, 0, 0, 0
	stuck := false
	if !ok || !cluster.VerifEdfHasScheduler(lb) {
		// equal effective configuration (no scheduler): nothing to gate; serve the k lookups one after the other
		remove()
		conc = serve(k)
		ret = append([]byte{}, conc...)
		maxHeld = 1
		c.Count("cwrr.no_scheduler")
	} else {
		arrive := func(d time.Duration) bool {
			select {
			case x := <-entered:
				conc = append(conc, digit(x))
				nEntered++
				held++
				if held > maxHeld {
					maxHeld = held
				}
				return true
			case <-time.After(d):
				return false
			}
		}
		for t := 0; t < k; t++ {
			started := make(chan struct{})
			go func() {
				close(started)
				h := lb.ChooseHost(lc)
				x := -1
				if h != nil {
					x = e.IndexOf(h)
				}
				rets <- x
			}()
			<-started
			if arrive(gateArrive) {
				c.Count("cwrr.start.reached_callback")
			} else {
				c.Count("cwrr.start.blocked_on_lock")
			}
		}
		for nRet < k && !stuck {
			if held == 0 {
				// every started caller that has not returned is blocked on the mutex (or about to reach the gate)
				if !arrive(gateStuck) {
					stuck = true
				}
				continue
			}
			release <- struct{}{}
			held--
			select {
			case x := <-rets:
				ret = append(ret, digit(x))
				nRet++
			case <-time.After(gateStuck):
				stuck = true
			}
			// a caller that was blocked on the mutex arrives now (give it the short time; the loop waits longer if needed)
			if nEntered < k && held == 0 && !stuck {
				arrive(gateArrive)
			}
		}
		if stuck {
			// never expected: leave the goroutines behind, report the case as stuck
			c.Count("cwrr.stuck")
			go func() {
				for {
					select {
					case release <- struct{}{}:
					case <-time.After(gateStuck):
						return
					}
				}
			}()
			time.Sleep(50 * time.Millisecond)
		}
		remove()
	}
	sort.Slice(ret, func(i, j int) bool { return ret[i] < ret[j] })
	pa := serve(after)
	mh := fmt.Sprint(maxHeld)
	if stuck {
		mh = "stuck"
	}
	c.Emit("C06", fmt.Sprintf("cwrr %s %s %s %d %d %d", strings.Join(wtok, ","), f[1], f[2], before, k, after),
		fmt.Sprintf("%s %s %s %s %s", dash(pb), dash(conc), dash(ret), mh, dash(pa)))
	c.Count(fmt.Sprintf("cwrr.callers=%d", k))
	c.Count(fmt.Sprintf("cwrr.hosts=%d", len(ws)))
	c.Count(fmt.Sprintf("cwrr.max_at_callback=%s", mh))
}

func runCWRR(c *hx.Ctx) {
	r := c.Rng.Fork()
	e := c05.GetEnv("wrr", types.WeightedRoundRobin, 2, r)
	// small co-prime weights: one extra pick of a host already breaks the lag bound; every start offset of the cycle
	small := [][]int{{3, 2}, {2, 3}, {1, 2}, {2, 1}, {3, 1}, {2, 5}, {3, 4}, {1, 2, 3}, {3, 2, 1}, {2, 2, 3}, {5, 3, 2}}
	for _, ws := range small {
		tot := 0
		for _, w := range ws {
			tot += w
		}
		for b := 0; b < tot && b < c.N(3, 12); b++ {
			cwrrCase(c, e, ws, b, 2+(b+len(ws))%2, c.N(6, 20))
		}
	}
	for i := 0; i < c.N(12, 60); i++ {
		n := 2 + r.Intn(4)
		ws := make([]int, n)
		for j := range ws {
			switch r.Intn(8) {
			case 0:
				ws[j] = r.Pick([]int{0, 128, 129, 1000})
			case 1, 2:
				ws[j] = 1 + r.Intn(128)
			default:
				ws[j] = 1 + r.Intn(6)
			}
		}
		cwrrCase(c, e, ws, r.Intn(24), 2+r.Intn(2), r.Intn(24))
	}
}
