//go:build verif

package c06

// Kind wrrh: the real LB_WEIGHTED_ROUNDROBIN balancer under host-health CHANGES after it was built.
//
// A balancer is (re)built only by a host-set update; a health flip builds nothing. One case = a weight vector, a
// build-time health pattern (flags set through the real SetHealthFlag BEFORE UpdateHosts), then health flips through
// the real flags interleaved with lookups on that one balancer. Observed per case: which hosts the real `refresh`
// added to the EDF scheduler (weight evaluations of the Add phase), and per lookup the scheduler picks it made
// (skipped unhealthy ones and the served one, through the pick observer hook) and the host it returned.

import (
	"fmt"
	"strings"

	"mosn.io/mosn/pkg/log"
	"mosn.io/mosn/pkg/types"
	"mosn.io/mosn/pkg/upstream/cluster"
	"verif/harness/c05"
	"verif/harness/hx"
)

type hEvent struct {
	flip    bool
	id      int
	healthy bool
	looks   int
}

// wrrhCase runs one case on the real cluster and emits its line.
func wrrhCase(c *hx.Ctx, e *c05.Env, ws []int, hp0 []bool, evs []hEvent) {
	e.Reset()
	n := len(ws)
	hs := make([]c05.HostSpec, n)
	wtok := make([]string, n)
	hp := make([]byte, n)
	health := make([]bool, n)
	unhealthyAtBuild := 0
	for i, w := range ws {
		hs[i] = c05.HostSpec{ID: i, W: uint32(w)}
		wtok[i] = fmt.Sprint(w)
		hp[i] = '1'
		health[i] = hp0[i]
		if !hp0[i] {
			hp[i] = '0'
			unhealthyAtBuild++
			e.SetHealth(i, false, i+n)
		}
	}
	op := e.Replace(hs) // S<hosts>|<rr0>|<pre>; the real refresh has run with the injected random source
	f := strings.Split(op, "|")
	lb := e.Cl.Snapshot().LoadBalancer()
	// the observer saw one weight evaluation per host ADDED by refresh, then the `randomPick` warm-up picks
	trace := append([]int{}, e.Trace...)
	randomPick := 0
	if len(e.LbSrc.Used) > 0 {
		randomPick = int(e.LbSrc.Used[0])
	}
	if !cluster.VerifEdfHasScheduler(lb) || randomPick > len(trace) {
		randomPick = 0
	}
	adds, pre := trace[:len(trace)-randomPick], trace[len(trace)-randomPick:]
	addTok := make([]byte, 0, len(adds))
	for _, a := range adds {
		addTok = append(addTok, digit(a))
	}
	preTok := make([]string, len(pre))
	for i, p := range pre {
		preTok[i] = fmt.Sprint(p)
	}
	lc := &lbCtx{}
	var evTok, lookTok []string
	lookups, fallbacks := 0, 0
	recovered := map[int]bool{}
	for _, ev := range evs {
		if ev.flip {
			e.SetHealth(ev.id, ev.healthy, ev.id+lookups)
			if ev.id < n {
				if ev.healthy && !hp0[ev.id] && !health[ev.id] {
					recovered[ev.id] = true
				}
				health[ev.id] = ev.healthy
			}
			b := 0
			if ev.healthy {
				b = 1
			}
			evTok = append(evTok, fmt.Sprintf("F%d.%d", ev.id, b))
			continue
		}
		evTok = append(evTok, fmt.Sprintf("L%d", ev.looks))
		for k := 0; k < ev.looks; k++ {
			e.Trace = nil
			h := lb.ChooseHost(lc)
			picks := make([]byte, 0, len(e.Trace)+2)
			for _, p := range e.Trace {
				picks = append(picks, digit(p))
			}
			res := byte('-')
			if h != nil {
				res = digit(e.IndexOf(h))
			}
			lookTok = append(lookTok, string(picks)+"/"+string(res))
			lookups++
			if last := len(e.Trace) - 1; last < 0 || e.Trace[last] < 0 || e.Trace[last] >= n || !health[e.Trace[last]] {
				fallbacks++
			}
		}
	}
	join := func(xs []string, sep string) string {
		if len(xs) == 0 {
			return "-"
		}
		return strings.Join(xs, sep)
	}
	at := "-"
	if len(addTok) > 0 {
		at = string(addTok)
	}
	c.Emit("C06", fmt.Sprintf("wrrh %s %s %s %s %s", strings.Join(wtok, ","), string(hp), f[1], join(preTok, ","), join(evTok, ";")),
		at+" "+join(lookTok, ","))
	c.Count(fmt.Sprintf("wrrh.hosts=%d", n))
	c.Count(fmt.Sprintf("wrrh.unhealthy_at_build=%d", unhealthyAtBuild))
	c.Count(fmt.Sprintf("wrrh.recovered_after_build=%d", len(recovered)))
	if !cluster.VerifEdfHasScheduler(lb) {
		c.Count("wrrh.no_scheduler")
	}
	for k := 0; k < lookups; k++ {
		c.Count("wrrh.lookups")
	}
	for k := 0; k < fallbacks; k++ {
		c.Count("wrrh.lookups_not_served_by_a_weighted_pick")
	}
}

// serveWin mirrors Model/WrrHealth.serveWindow for the effective weights (clamped to 1..128): the number of lookups a
// host healthy throughout must be served in.
func serveWin(ws []int, i int) int {
	eff := func(w int) int {
		if w < 1 {
			return 1
		}
		if w > 128 {
			return 128
		}
		return w
	}
	t := 0
	for _, w := range ws {
		t += eff(w)
	}
	return t/eff(ws[i]) + len(ws) + 1
}

func maxServeWin(ws []int) int {
	m := 0
	for i := range ws {
		if s := serveWin(ws, i); s > m {
			m = s
		}
	}
	return m
}

func runWRRH(c *hx.Ctx) {
	log.DefaultLogger.SetLogLevel(log.FATAL)
	r := c.Rng.Fork()
	e := c05.GetEnv("wrr", types.WeightedRoundRobin, 2, r)
	capLooks := func(k int) int {
		if k > 26 {
			return 26
		}
		return k
	}
	// enumeration: small vectors, EVERY build-time health subset, three scenario templates
	vecs := [][]int{{1, 2}, {2, 1}, {3, 2}, {5, 1}, {3, 2, 1}, {1, 2, 3}, {1, 1, 2}, {2, 2, 1}, {4, 1, 1}, {3, 3}, {2, 2, 2}, {1, 2, 2, 3}}
	if c.Thorough() {
		vecs = append(vecs, []int{1, 3}, []int{2, 3, 4}, []int{6, 1, 1}, []int{1, 2, 3, 4}, []int{4, 3, 2, 1}, []int{1, 1, 1, 2}, []int{2, 3, 1, 2, 1}, []int{0, 2, 200})
	}
	for _, ws := range vecs {
		n := len(ws)
		w := capLooks(maxServeWin(ws))
		for mask := 0; mask < 1<<uint(n); mask++ {
			hp0 := make([]bool, n)
			var down []int
			for i := range hp0 {
				hp0[i] = mask&(1<<uint(i)) != 0
				if !hp0[i] {
					down = append(down, i)
				}
			}
			// T1: lookups, then the hosts that were failing at build time recover one by one
			evs := []hEvent{{looks: 3}}
			for _, d := range down {
				evs = append(evs, hEvent{flip: true, id: d, healthy: true}, hEvent{looks: w})
			}
			if len(down) == 0 {
				evs = append(evs, hEvent{looks: w})
			}
			wrrhCase(c, e, ws, hp0, evs)
			if len(down) > 0 {
				// T2: all of them recover before the first lookup
				evs = nil
				for _, d := range down {
					evs = append(evs, hEvent{flip: true, id: d, healthy: true})
				}
				evs = append(evs, hEvent{looks: w + n})
				wrrhCase(c, e, ws, hp0, evs)
			}
			// T3: a host healthy at build time fails later, everything recovers after that
			for i := range hp0 {
				if hp0[i] {
					evs = []hEvent{{looks: 2}, {flip: true, id: i, healthy: false}, {looks: n + 2}}
					for _, d := range down {
						evs = append(evs, hEvent{flip: true, id: d, healthy: true})
					}
					evs = append(evs, hEvent{flip: true, id: i, healthy: true}, hEvent{looks: w})
					wrrhCase(c, e, ws, hp0, evs)
					break
				}
			}
		}
	}
	// seeded: 2-6 hosts, small weights (so that the service window fits the sequence), now and then the whole range
	// 1..128 and out-of-range weights; random build-time pattern; flips interleaved with runs of lookups
	for k := 0; k < c.N(160, 2500); k++ {
		n := 2 + r.Intn(5)
		ws := make([]int, n)
		for j := range ws {
			switch r.Intn(12) {
			case 0:
				ws[j] = r.Pick([]int{0, 128, 129, 1000})
			case 1:
				ws[j] = 1 + r.Intn(128)
			default:
				ws[j] = 1 + r.Intn(5)
			}
		}
		hp0 := make([]bool, n)
		for j := range hp0 {
			hp0[j] = r.Chance(55)
		}
		if r.Chance(8) {
			for j := range hp0 {
				hp0[j] = false
			}
		}
		var evs []hEvent
		total := 0
		budget := 30 + r.Intn(19)
		for total < budget {
			if r.Chance(40) {
				id := r.Intn(n)
				evs = append(evs, hEvent{flip: true, id: id, healthy: r.Chance(65)})
				continue
			}
			l := 1 + r.Intn(12)
			if total+l > budget {
				l = budget - total
			}
			evs = append(evs, hEvent{looks: l})
			total += l
		}
		wrrhCase(c, e, ws, hp0, evs)
	}
}
