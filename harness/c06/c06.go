//go:build verif

// Package c06: weighted-cluster selection of a route rule, every draw of the injected random source.
package c06

import (
	"context"
	"fmt"
	"math/rand"
	"sort"
	"strings"

	v2 "mosn.io/mosn/pkg/config/v2"
	"mosn.io/mosn/pkg/log"
	"mosn.io/mosn/pkg/router"
	"mosn.io/mosn/pkg/types"
	"verif/harness/c05"
	"verif/harness/hx"
)

func init() { hx.Register("C06", Run) }

// drawSource makes rand.Rand.Intn(n) return exactly `v` (for v < n < 2^31): Int63()>>32 = v.
type drawSource struct{ v int64 }

func (d *drawSource) Int63() int64 { return d.v << 32 }
func (d *drawSource) Seed(int64)   {}

type vec []struct {
	name string
	w    uint32
}

func (v vec) String() string {
	var p []string
	for _, e := range v {
		p = append(p, fmt.Sprintf("%s:%d", e.name, e.w))
	}
	return strings.Join(p, ",")
}

func newRule(v vec) *router.RouteRuleImplBase {
	r := &v2.Router{}
	for _, e := range v {
		r.Route.WeightedClusters = append(r.Route.WeightedClusters, v2.WeightedCluster{
			Cluster: v2.ClusterWeight{ClusterWeightConfig: v2.ClusterWeightConfig{Name: e.name, Weight: e.w}}})
	}
	r.Route.ClusterName = "" // default cluster (fall-through) renders as "-"
	base, err := router.NewRouteRuleImplBase(nil, r)
	if err != nil {
		panic(err)
	}
	return base
}


func runVec(c *hx.Ctx, v vec, reps int) {
	total := 0
	for _, e := range v {
		total += int(e.w)
	}
	if total == 0 {
		return
	}
	rule := newRule(v)
	src := &drawSource{}
	rule.VerifSetRand(rand.New(src))
	ctx := context.Background()
	// small totals: EVERY draw; large totals: every boundary of every cumulative sum (all orders' cut points) +- 1
	var draws []int
	if total <= 1500 {
		for d := 0; d < total; d++ {
			draws = append(draws, d)
		}
	} else {
		set := map[int]bool{0: true, total - 1: true}
		var sums func(i, acc int)
		sums = func(i, acc int) {
			if i == len(v) {
				for _, d := range []int{acc - 1, acc, acc + 1} {
					if d >= 0 && d < total {
						set[d] = true
					}
				}
				return
			}
			sums(i+1, acc)
			sums(i+1, acc+int(v[i].w))
		}
		sums(0, 0)
		for d := range set {
			draws = append(draws, d)
		}
		sort.Ints(draws)
		c.Count("wc.large_total_boundary_draws")
	}
	for _, d := range draws {
		seen := map[string]bool{}
		for k := 0; k < reps; k++ {
			src.v = int64(d)
			name := rule.ClusterName(ctx)
			seen[name] = true
		}
		var names []string
		for n := range seen {
			names = append(names, n)
		}
		sort.Strings(names)
		for _, n := range names {
			c.Emit("C06", fmt.Sprintf("wc %s %d", v.String(), d), hx.Tok(n))
		}
		c.Count(fmt.Sprintf("wc.distinct_results_per_draw=%d", len(names)))
	}
	c.Count(fmt.Sprintf("wc.clusters=%d", len(v)))
}

// Run enumerates every weight vector with <= maxN clusters and weights <= maxW (every draw, `reps` calls per
// draw so that all map iteration orders appear), then random larger vectors.
func Run(c *hx.Ctx) {
	runWC(c)
	runCWC(c)
	runWRR(c)
	runCWRR(c)
	runWRRH(c)
}

// ---- weighted round robin (EDF scheduler): pick sequences of the real balancer over all-healthy hosts

type lbCtx struct {
	types.LoadBalancerContext
}

func (l *lbCtx) DownstreamContext() context.Context { return context.Background() }

// wrrSeq builds the real LB_WEIGHTED_ROUNDROBIN balancer for the weight vector (through the real cluster), serves
// `picks` lookups and emits one line: `wrr <weights> <rr start> <warm-up picks> => <served hosts, one digit each>`.
func wrrSeq(c *hx.Ctx, e *c05.Env, ws []int, picks int) {
	e.Reset()
	hs := make([]c05.HostSpec, len(ws))
	wtok := make([]string, len(ws))
	for i, w := range ws {
		hs[i] = c05.HostSpec{ID: i, W: uint32(w)}
		wtok[i] = fmt.Sprint(w)
	}
	op := e.Replace(hs) // S<hosts>|<rr0>|<pre>
	f := strings.Split(op, "|")
	lb := e.Cl.Snapshot().LoadBalancer()
	lc := &lbCtx{}
	out := make([]byte, 0, picks)
	for k := 0; k < picks; k++ {
		h := lb.ChooseHost(lc)
		i := -1
		if h != nil {
			i = e.IndexOf(h)
		}
		if i < 0 || i > 9 {
			out = append(out, '?')
		} else {
			out = append(out, byte('0'+i))
		}
	}
	c.Emit("C06", fmt.Sprintf("wrr %s %s %s", strings.Join(wtok, ","), f[1], f[2]), string(out))
	c.Count(fmt.Sprintf("wrr.hosts=%d", len(ws)))
	c.Count(fmt.Sprintf("wrr.picks=%d", picks))
}

func runWRR(c *hx.Ctx) {
	log.DefaultLogger.SetLogLevel(log.FATAL)
	r := c.Rng.Fork()
	e := c05.GetEnv("wrr", types.WeightedRoundRobin, 2, r)
	// boundary vectors: ties everywhere (1 vs k), one dominant weight, co-prime neighbours, out-of-range weights
	fixed := [][]int{{1, 2}, {1, 3}, {1, 10}, {3, 7}, {127, 128}, {1, 128}, {1, 1, 128}, {2, 3, 5, 7}, {1, 2, 3, 128},
		{0, 1, 200}, {5, 5, 5}, {64, 96, 128, 32}, {1, 2, 3, 4, 5, 6, 7, 8}, {128, 127, 126, 125, 124, 123, 122, 121}}
	for _, ws := range fixed {
		wrrSeq(c, e, ws, c.N(300, 20000))
	}
	// seeded vectors from the whole supported range 1..128 (and a few outside)
	for i := 0; i < c.N(20, 40); i++ {
		n := 2 + r.Intn(7)
		ws := make([]int, n)
		for j := range ws {
			switch r.Intn(10) {
			case 0:
				ws[j] = r.Pick([]int{0, 129, 1000})
			case 1, 2:
				ws[j] = r.Pick([]int{1, 2, 3, 128})
			default:
				ws[j] = 1 + r.Intn(128)
			}
		}
		wrrSeq(c, e, ws, c.N(300, 5000))
	}
	if c.Thorough() {
		// one long run on one balancer: float64 deadlines against exact rationals over 10^6 picks
		long := [][]int{{1, 3, 7, 10, 128}, {127, 128}, {3, 5, 7, 11, 13, 17, 19, 23}, {1, 2, 3, 128}}
		wrrSeq(c, e, long[int(c.Seed)%len(long)], 1000000)
	}
}

// ---- weighted clusters of a route rule

func runWC(c *hx.Ctx) {
	maxN, maxW, reps := 3, 4, 48
	if c.Thorough() {
		maxN, maxW, reps = 4, 6, 96
	}
	names := []string{"a", "b", "c", "d", "e", "f"}
	var rec func(v vec)
	rec = func(v vec) {
		if len(v) > 0 {
			runVec(c, v, reps)
		}
		if len(v) == maxN {
			return
		}
		for w := 0; w <= maxW; w++ {
			nv := append(append(vec{}, v...), struct {
				name string
				w    uint32
			}{names[len(v)], uint32(w)})
			rec(nv)
		}
	}
	rec(nil)
	// random vectors: dominant weights, powers of two and not, up to 6 clusters
	pool := []int{0, 1, 2, 3, 7, 8, 16, 31, 33, 64, 100, 101, 127, 128, 255, 256, 1000, 65535, 65536, 1000000}
	for i := 0; i < c.N(40, 600); i++ {
		n := 1 + c.Rng.Intn(6)
		var v vec
		for j := 0; j < n; j++ {
			v = append(v, struct {
				name string
				w    uint32
			}{names[j], uint32(c.Rng.Pick(pool))})
		}
		runVec(c, v, reps)
	}
}
