//go:build verif

package dsx

// proxy10: events delivered while the worker of a downstream request is asleep in doRetry's back-off, and the reset of a
// streamed response before its head is forwarded — driven DETERMINISTICALLY through the yield sites of the worker goroutine
// (pkg/proxy/verif_yield_retry.go, px.Fixture.ArmGate): the worker is held at the top of the Retry phase (the back-off: every
// guard doRetry re-checks is read after its sleep, so an event delivered there is an event delivered during the sleep), or
// inside setupRetry after the given-up request is marked / after upstreamResponseReceived is swung back.
//
//	ZB:<trigger>:<event>     trigger  X<k>=<reason> | P<k> | R<k>=<status>=<d><t>     makes the proxy give attempt k up for a retry
//	                         event    TM<code> TMm<code> TMs<code> DR CC GT GSm GSs HG PFo PFc L<d><t>
//	                                  DS  the client leaves while the wake-up is INSIDE the upstream send of attempt k+1 (requests with
//	                                      body / trailers: the worker is held in the sender call that completes the request,
//	                                      px.Fixture.ArmUpHold): processError of the Retry phase cleans a stream whose new attempt is live
//	ZS<k>:<code>:<d><t>:<w|f|h>:<reason>   head of a streamed response of attempt k, then the reset of its open stream with the
//	                         worker held before it consumed the wake-up (w), before UpRecvHeader (h); f = inside UpFilter (kind upf)

import (
	"fmt"
	"strings"
	"time"

	"mosn.io/mosn/pkg/types"
	"verif/harness/px"
)

// BOEvents are the events of a ZB token that need no clock.
var BOEvents = []string{"TM418", "TMm403", "TMs418", "DR", "CC", "HG", "PFc", "PFo", "L10", "L01"}

// BOTriggers: what makes the proxy give an attempt up for a retry (or not: reasons that are not retried are on the list)
var BOTriggers = []string{"X=" + types.StreamConnectionFailed, "X=" + types.StreamConnectionTermination, "X=" + types.StreamRemoteReset,
	"X=" + types.StreamOverflow, "R=503=00", "R=503=10", "R=500=01"}

// BOTimerEvents need the global deadline: the worker is held until it has passed.
var BOTimerEvents = []string{"GT", "GSm", "GSs"}

func boSite(ev string) int {
	switch {
	case ev == "GSm" || strings.HasPrefix(ev, "TMm"):
		return px.SiteRetryMarked
	case ev == "GSs" || strings.HasPrefix(ev, "TMs"):
		return px.SiteRetrySwung
	}
	return px.SitePhase(types.Retry)
}

// BOHeld is called by Run with every ZB token it executed and whether the worker was caught at the yield site (a retry was
// set up); a harness installs a counter here to print the distribution.
var BOHeld = func(tok string, held bool) {}

// BOResult of one ZB token.
type BOResult struct {
	TM      []string      // return values of the TerminateStream calls ("0"/"1")
	Held    bool          // the worker reached the yield site (a retry was set up)
	Planned time.Duration // time spent sleeping on purpose
	Skewed  bool
}

// RunBO executes `ZB:<trigger>:<event>` on a started exchange whose attempt k is live. gdeadline is the deadline of the
// global timer (relative to the start of the exchange; 0 = not armed / unknown: timer events are then not driven).
func RunBO(f *px.Fixture, ex *px.Exchange, c Cfg, tok string, gdeadline time.Duration) BOResult {
	var res BOResult
	p := strings.SplitN(strings.TrimPrefix(tok, "ZB:"), ":", 2)
	if len(p) != 2 {
		res.Skewed = true
		return res
	}
	trig, ev := p[0], p[1]
	var k int
	fmt.Sscanf(trig[1:], "%d", &k)
	as := ex.UpstreamAttempts()
	if k >= len(as) {
		res.Skewed = true
		return res
	}
	a := as[k]
	if ev == "DS" {
		return runBODS(f, ex, c, trig, a, k)
	}
	g := f.ArmGate(boSite(ev), 0)
	defer f.ForgetGates()
	t0 := time.Now()
	switch trig[0] {
	case 'X':
		q := strings.SplitN(trig, "=", 2)
		a.Reset(q[1])
	case 'P':
		d := a.Created + TryTimeout
		if r := d - ex.Elapsed(); r > 0 {
			res.Planned += r
		}
		ex.SleepUntil(d)
	case 'R':
		q := strings.Split(trig, "=")
		var st int
		fmt.Sscan(q[1], &st)
		rh, rb, rt := px.AnswerOf(k, q[2][0] == '1', q[2][1] == '1')
		a.Respond(st, rh, rb, rt)
	}
	wait := 60 * time.Millisecond
	if trig[0] == 'P' {
		wait = 120 * time.Millisecond
	}
	// wait until the worker sits at the site — or the exchange has ended / gone quiet without setting a retry up
	{
		deadline := time.Now().Add(wait)
		quiet := time.Now()
		last := len(ex.Trace())
		for !g.Entered() && time.Now().Before(deadline) {
			time.Sleep(500 * time.Microsecond)
			if n := len(ex.Trace()); n != last {
				last, quiet = n, time.Now()
			}
			if trig[0] != 'P' && (ex.Done() || time.Since(quiet) > 12*time.Millisecond) && time.Since(t0) > 3*time.Millisecond {
				break
			}
		}
		res.Held = g.Entered()
	}
	if !res.Held {
		// no retry was set up (no budget, reason not retriable, retries breaker, client gone …): the event is delivered to
		// whatever state the exchange is in after the trigger; a worker entering the site later must not be caught
		if !g.Disarm() {
			res.Held = g.WaitEntered(20 * time.Millisecond)
		}
		if !res.Held {
			ex.WaitQuiescentFor(settleWin)
		}
	}
	switch {
	case strings.HasPrefix(ev, "TM"):
		code := 0
		fmt.Sscan(strings.TrimLeft(ev, "TMms"), &code)
		res.TM = append(res.TM, b(ex.Terminate(code)))
	case ev == "DR":
		ex.DownstreamReset()
	case ev == "CC":
		f.ConnClose()
	case ev == "HG":
		f.HostsDown("c")
	case ev == "PFo":
		f.PoolFail(types.Overflow)
	case ev == "PFc":
		f.PoolFail(types.ConnectionFailure)
	case strings.HasPrefix(ev, "L"):
		if ex.Done() {
			// the trigger ended the exchange (no retry): its objects went back to the pools, a frame of the finished attempt has
			// no receiver any more (the codec dropped the stream from its table when the answer was delivered)
			break
		}
		rh, rb, rt := px.AnswerOf(k, ev[1] == '1', ev[2] == '1')
		a.RespondInFlight(rh, rb, rt)
	case ev == "GT" || ev == "GSm" || ev == "GSs":
		if gdeadline == 0 || !res.Held || g.At.Sub(t0) < 0 || ex.Elapsed() > gdeadline-6*time.Millisecond {
			// the worker must sit at the site BEFORE the deadline, otherwise the callback ran somewhere else
			res.Skewed = true
		} else {
			d := gdeadline + timerMargin + 4*time.Millisecond
			if r := d - ex.Elapsed(); r > 0 {
				res.Planned += r
			}
			ex.SleepUntil(d)
		}
	}
	g.Release()
	return res
}

// RunSR executes `ZS<k>:<code>:<d><t>:<w|h>:<reason>`: the head of a streamed response of attempt k is delivered with the
// worker held right behind its wake-up (w: top of the UpFilter phase — the head is accepted, nothing ran yet) or right before
// the head is forwarded (h: top of UpRecvHeader), the open client stream is reset there, the worker is released.
func RunSR(f *px.Fixture, ex *px.Exchange, tok string) (held bool) {
	p := strings.Split(strings.TrimPrefix(tok, "ZS"), ":")
	if len(p) != 5 {
		return false
	}
	var k, code int
	fmt.Sscan(p[0], &k)
	fmt.Sscan(p[1], &code)
	as := ex.UpstreamAttempts()
	if k >= len(as) {
		return false
	}
	a := as[k]
	site := px.SitePhase(types.UpFilter)
	if p[3] == "h" {
		site = px.SitePhase(types.UpRecvHeader)
	}
	g := f.ArmGate(site, 0)
	defer f.ForgetGates()
	rh, rb, rt := px.AnswerOf(k, p[2][0] == '1', p[2][1] == '1')
	a.RespondStreaming(code, rh, rb, rt)
	held = g.WaitEntered(60 * time.Millisecond)
	if !held {
		g.Disarm()
	}
	a.Reset(p[4])
	g.Release()
	return held
}

// runBODS: the trigger, then the client's reset while the worker is inside the upstream sender call that completes the
// request of attempt k+1 (doRetry after its sleep), then the call returns.
func runBODS(f *px.Fixture, ex *px.Exchange, c Cfg, trig string, a *px.Attempt, k int) BOResult {
	var res BOResult
	if !c.Data && !c.Trailers {
		res.Skewed = true
		return res
	}
	f.ArmUpHold(k + 1)
	defer f.ReleaseUp()
	switch trig[0] {
	case 'X':
		q := strings.SplitN(trig, "=", 2)
		a.Reset(q[1])
	case 'R':
		q := strings.Split(trig, "=")
		var st int
		fmt.Sscan(q[1], &st)
		rh, rb, rt := px.AnswerOf(k, q[2][0] == '1', q[2][1] == '1')
		a.Respond(st, rh, rb, rt)
	default:
		res.Skewed = true
		return res
	}
	res.Held = f.WaitUpHeld(45 * time.Millisecond) // beyond doRetry's 10 ms sleep
	if !res.Held {
		ex.WaitQuiescentFor(6 * time.Millisecond)
	}
	ex.DownstreamReset()
	f.ReleaseUp()
	return res
}
