//go:build verif

// Package dsx drives the shared downstream machine (DESIGN.md section 5) on the real proxy core through harness/px:
// a (configuration, ambient load, schedule) triple is executed label by label on real timers, the worker settles
// after every label, and the canonical trace + ledger are returned in the line format of lean/MosnVerif/Drive/Downstream.lean.
// Schedules are generated ONLINE: at every settle point the runner lists the labels that are feasible now (timer
// deadlines are real), a Chooser picks one, and the labels actually driven are recorded — the model replays exactly those.
// Streamed (partial) responses: label B<k> delivers the head of a streamed response (px.RespondStreaming: the client
// stream stays open) with the downstream sender's hold gate armed — the worker forwards the head and then sits in the
// sender, as it does in a streaming codec while the body is in flight; labels E<k> (body ended), X<k> (reset), DR and CC
// end that wait (the gate is released after them), every other label is delivered while the worker keeps waiting.
// Answer tokens (proxy3): the response of attempt k carries the token a<k> in its headers, body and trailers
// (px.AnswerOf); the downstream sender calls of the trace are printed with the token of the part they write
// (dh:<status>:<eos>:<tok> dd:<eos>:<tok> dt:<tok>, `l` = a reply MOSN generated itself).
// TerminateStream: TM<code> calls it on the hidden handler of this request, TS<code> on the kept handler of an EARLIER,
// finished request whose pooled downStream object this request reuses (Cfg.Stale: warm-up exchanges run first on the
// same fixture; offered only when the reuse was observed), TR<code>:<k>:<dt> calls it with an in-flight response of
// attempt k delivered inside its reset of the upstream request (between the claim of the response slot and the local
// reply). The return values are printed as tm=<0|1>,… . W is idle time (one grid step, no event).
// Late response during the back-off (proxy6): PL<k>:<dt> lets the per-try timer of attempt k fire (as PT) and delivers a
// response of attempt k that was in flight when the proxy reset it (px RespondInFlight) a few milliseconds later, i.e.
// while the worker sleeps in doRetry's 10 ms back-off; XL<k>:<reason>:<dt> does the same after an upstream reset of
// attempt k (the reset is retried when the policy allows it). Whether the frame really hit the sleep cannot be observed
// from outside; on code that ignores such a frame the outcome is the same either way.
package dsx

import (
	"fmt"
	"sort"
	"strings"
	"time"

	v2 "mosn.io/mosn/pkg/config/v2"
	"mosn.io/mosn/pkg/types"
	"verif/harness/px"
)

// timing grid of one history
const (
	TryTimeout    = 80 * time.Millisecond
	GlobalTimeout = 290 * time.Millisecond
	settleWin     = 26 * time.Millisecond // well above the 10 ms sleep of doRetry (an accepted response leaves no trace event)
	actBudget     = 40 * time.Millisecond // an action and its settle must end this long before the next deadline
	timerMargin   = 8 * time.Millisecond  // sleep this long past a deadline before looking
	timerGap      = 48 * time.Millisecond // two deadlines closer than this are not driven
	backoffAt     = 4 * time.Millisecond  // how long after the reset of an attempt a late frame of it is delivered (doRetry sleeps 10 ms)
)

// Cfg mirrors Model.Downstream.Cfg plus the ambient load.
type Cfg struct {
	OneWay, Data, Trailers bool
	Route                  string // c | nr | nh | d<code>[b]
	RetryOn                bool
	N                      int
	Codes                  []int
	TryTimeout             bool
	Disable                bool
	MR, MQ                 int  // max_retries, max_requests
	AR, AQ                 int  // ambient retries / requests held by others
	LongGlobal             bool // global timeout far beyond the history (the model has no clock): long retry chains
	Stale                  bool // run warm-up exchanges first and offer TS (TerminateStream on a kept handler of a finished request)
}

func (c Cfg) global() time.Duration {
	if c.LongGlobal {
		return 5 * time.Second
	}
	return GlobalTimeout
}

func b(x bool) string {
	if x {
		return "1"
	}
	return "0"
}

// Tokens renders the cfg and ambient tokens of the case line.
func (c Cfg) Tokens() string {
	codes := "-"
	if len(c.Codes) > 0 {
		var p []string
		for _, x := range c.Codes {
			p = append(p, fmt.Sprint(x))
		}
		codes = strings.Join(p, ":")
	}
	return fmt.Sprintf("ow=%s,d=%s,t=%s,rt=%s,ron=%s,n=%d,codes=%s,tt=%s,dis=%s,mr=%d,mq=%d ar=%d,aq=%d",
		b(c.OneWay), b(c.Data), b(c.Trailers), c.Route, b(c.RetryOn), c.N, codes, b(c.TryTimeout), b(c.Disable), c.MR, c.MQ, c.AR, c.AQ)
}

// Chooser picks the next label among the feasible ones (index) or -1 to stop. step counts labels chosen so far,
// done tells whether the exchange already finished (labels after that must be no-ops).
type Chooser func(step int, options []string, done bool) int

// Result of one history.
type Result struct {
	Sched  string // labels driven, comma separated ("-" = none)
	Out    string // trace=... ledger=... done=... tm=...
	Skewed bool   // a deadline was crossed outside a timer label: the run must be discarded
	Labels int
	Reuse  string // Cfg.Stale: "reused" (the request runs on the pooled object of a warm-up exchange) | "fresh" | ""
}

// idle is the length of a W label.
const idle = 45 * time.Millisecond

func (c Cfg) fixture() *px.Fixture {
	cl := px.Cluster{Name: "c", Hosts: 1, MaxRetries: uint32(c.MR), MaxRequests: uint32(c.MQ)}
	var rt v2.Router
	var opts []px.RouteOpt
	opts = append(opts, px.Timeout(c.global()))
	if c.RetryOn || c.N > 0 || len(c.Codes) > 0 || c.TryTimeout {
		tt := time.Duration(0)
		if c.TryTimeout {
			tt = TryTimeout
		}
		var codes []uint32
		for _, x := range c.Codes {
			codes = append(codes, uint32(x))
		}
		opts = append(opts, px.Retry(c.RetryOn, uint32(c.N), tt, codes...))
	}
	switch {
	case c.Route == "c":
		rt = px.Route("/", "c", opts...)
	case c.Route == "nr":
		rt = px.Route("/other", "c", opts...)
	case c.Route == "nh":
		cl.Hosts = 0
		rt = px.Route("/", "c", opts...)
	case strings.HasPrefix(c.Route, "d"):
		r := c.Route[1:]
		body := ""
		if strings.HasSuffix(r, "b") {
			body = "direct"
			r = r[:len(r)-1]
		}
		code := 0
		fmt.Sscan(r, &code)
		rt = px.Route("/", "", px.DirectResponse(code, body))
	default:
		panic("dsx: bad route " + c.Route)
	}
	vars := map[string]interface{}{}
	if c.Disable {
		vars[types.VarProxyDisableRetry] = true
	}
	f := px.New(px.Config{Clusters: []px.Cluster{cl}, Routes: []v2.Router{rt}, OneWay: c.OneWay, TerminateHandle: true, Vars: vars})
	if snap := f.Snapshot("c"); snap != nil {
		rm := snap.ClusterInfo().ResourceManager()
		rm.Retries().UpdateCur(int64(c.AR))
		rm.Requests().UpdateCur(int64(c.AQ))
	}
	return f
}

// Canon converts px trace tokens to the model's tokens (without answer tokens).
func Canon(tr []string) string { return CanonToks(tr, nil) }

// CanonToks converts px trace tokens to the model's tokens; toks are the answer tokens of the downstream sender calls
// (px Exchange.DownToks), appended to the dh / dd / dt tokens in order (nil: none appended).
func CanonToks(tr []string, toks []string) string {
	var out []string
	nd := 0
	tok := func() string {
		if toks == nil {
			return ""
		}
		t := "?"
		if nd < len(toks) {
			t = toks[nd]
		}
		nd++
		return ":" + t
	}
	for _, t := range tr {
		p := strings.Split(t, ":")
		switch p[0] {
		case "un":
			out = append(out, "un:"+p[1])
		case "uf":
			k := "c"
			if p[len(p)-1] == "overflow" {
				k = "o"
			}
			out = append(out, "uf:"+p[1]+":"+k)
		case "ud":
			out = append(out, "ud:"+p[1]+":"+p[3])
		case "dd":
			out = append(out, "dd:"+p[2]+tok())
		case "dt":
			out = append(out, "dt"+tok())
		case "ur":
			out = append(out, "ur:"+p[1])
		case "dr":
			out = append(out, "dr")
		case "dh":
			st := p[1]
			if st == "-" {
				st = "0"
			}
			out = append(out, "dh:"+st+":"+p[2]+tok())
		default:
			out = append(out, t)
		}
	}
	if len(out) == 0 {
		return "-"
	}
	return strings.Join(out, ",")
}

// response codes and reset reasons offered to the chooser
var respCodes = []int{200, 503, 500, 404}
var resetReasons = []string{types.StreamConnectionTermination, types.StreamConnectionFailed, types.StreamRemoteReset,
	types.StreamLocalReset, types.StreamOverflow, types.UpstreamReset}

// Run executes one history. maxLabels bounds the schedule length.
func Run(c Cfg, choose Chooser, maxLabels int) Result {
	f := c.fixture()
	defer f.Close()
	var ex *px.Exchange
	var labels []string
	res := Result{}
	var body []byte
	var trailers map[string]string
	if c.Data {
		body = []byte("data")
	}
	if c.Trailers {
		trailers = map[string]string{"t": "1"}
	}
	started := false
	streamed := map[int]bool{} // attempts that received the head of a streamed response
	var tm []string            // return values of the TerminateStream calls
	var warm []*px.Exchange    // finished warm-up exchanges whose hidden handlers are kept
	var stale *px.Exchange     // the warm-up exchange whose pooled downStream object the request reuses
	defer func() {
		if ex != nil {
			ex.Release()
			ex.ForgetHold()
			ex.ForgetProv()
		}
		for _, w := range warm {
			w.ForgetProv()
		}
	}()
	if c.Stale && !c.OneWay && c.Route == "c" {
		// warm-up: complete exchanges that finish normally, so that their pooled buffers (the downStream object among
		// them) go back to the pool; run back to back on this goroutine so that the request that follows is likely to
		// get one of them
		for i := 0; i < 3; i++ {
			w := f.Request(px.H(":path", "/a", ":authority", "svc"), nil, nil)
			a := w.WaitAttempt(0)
			if a == nil || a.Failed != "" {
				break
			}
			a.Respond(200, nil, nil, nil)
			if !w.WaitDone(300 * time.Millisecond) {
				break
			}
			w.WaitQuiescent()
			warm = append(warm, w)
		}
	}
	// deadlines (relative to ex start); consumed ones are removed
	ptConsumedFor := -1 // attempt index whose per-try deadline was consumed by a PT label
	gtConsumed := false
	deadlines := func() (pt, gt time.Duration, hasPT, hasGT bool) {
		if ex == nil {
			return
		}
		as := ex.UpstreamAttempts()
		var real []*px.Attempt
		for _, a := range as {
			if a.Failed == "" {
				real = append(real, a)
			}
		}
		if len(real) == 0 || c.OneWay {
			return
		}
		last := real[len(real)-1]
		if c.TryTimeout && last.Index > ptConsumedFor {
			pt, hasPT = last.Created+TryTimeout, true
		}
		if !gtConsumed {
			// the global timer is armed by onUpstreamRequestSent: when the first request has been sent, or — when the
			// first try was refused by the pool — by the first doRetry, right after the second attempt is created
			base := real[0].Created
			if as[0].Failed != "" && len(as) > 1 && as[1].Created < base {
				base = as[1].Created
			}
			gt, hasGT = base+c.global(), true
		}
		return
	}
	for step := 0; step < maxLabels; step++ {
		var opts []string
		iterStart := time.Now()
		plannedSleep := time.Duration(0)
		armedHere := false
		// the deadlines pending when the label is chosen (pt0 belongs to attempt ptIdx0)
		var pt0 time.Duration
		hasPT0, ptIdx0 := false, -1
		if !started {
			opts = append(opts, "S", "PFo", "PFc", "HG")
		} else {
			now := ex.Elapsed()
			pt, gt, hasPT, hasGT := deadlines()
			if hasPT {
				pt0, hasPT0 = pt, true
				for _, a := range ex.UpstreamAttempts() {
					if a.Failed == "" {
						ptIdx0 = a.Index
					}
				}
			}
			// deadlines already in the past without having been consumed: the timer (if armed) fired implicitly
			next := time.Duration(1 << 60)
			if hasPT && pt > now {
				next = pt
			}
			if hasGT && gt > now && gt < next {
				next = gt
			}
			if (hasPT && pt <= now) || (hasGT && gt <= now) {
				res.Skewed = true
				break
			}
			if now+actBudget < next {
				for _, a := range ex.UpstreamAttempts() {
					if a.Failed != "" {
						continue
					}
					if !c.OneWay && a.Live() && !streamed[a.Index] { // only a stream still registered with its connection can be answered
						for _, code := range respCodes {
							opts = append(opts, fmt.Sprintf("R%d:%d:00", a.Index, code))
						}
						opts = append(opts, fmt.Sprintf("R%d:200:10", a.Index), fmt.Sprintf("R%d:200:11", a.Index), fmt.Sprintf("R%d:503:01", a.Index),
							fmt.Sprintf("R%d:503:10", a.Index), fmt.Sprintf("R%d:503:11", a.Index))
						// head of a streamed response (body / trailers in flight)
						opts = append(opts, fmt.Sprintf("B%d:200:10", a.Index), fmt.Sprintf("B%d:200:01", a.Index), fmt.Sprintf("B%d:200:11", a.Index),
							fmt.Sprintf("B%d:503:10", a.Index))
					}
					if !c.OneWay && a.Live() && !streamed[a.Index] && (c.RetryOn || c.N > 0) { // reset + a frame of the attempt still in flight
						opts = append(opts, fmt.Sprintf("XL%d:%s:10", a.Index, types.StreamConnectionFailed), fmt.Sprintf("XL%d:%s:00", a.Index, types.StreamConnectionTermination))
					}
					// [proxy10] events delivered while the worker sleeps in doRetry's back-off (the worker is held at a yield site of
					// pkg/proxy), and the reset of a streamed response before its head is forwarded
					if !c.OneWay && a.Live() && !streamed[a.Index] && c.Route == "c" {
						for _, trig := range BOTriggers {
							for _, ev := range BOEvents {
								opts = append(opts, fmt.Sprintf("ZB:%c%d%s:%s", trig[0], a.Index, trig[1:], ev))
							}
							if (c.Data || c.Trailers) && trig[0] != 'P' {
								opts = append(opts, fmt.Sprintf("ZB:%c%d%s:DS", trig[0], a.Index, trig[1:]))
							}
							if !c.TryTimeout && !c.LongGlobal && hasGT {
								for _, ev := range BOTimerEvents {
									opts = append(opts, fmt.Sprintf("ZB:%c%d%s:%s", trig[0], a.Index, trig[1:], ev))
								}
							}
						}
						for _, r := range []string{types.StreamConnectionTermination, types.StreamRemoteReset} {
							opts = append(opts, fmt.Sprintf("ZS%d:200:10:h:%s", a.Index, r), fmt.Sprintf("ZS%d:200:11:f:%s", a.Index, r))
						}
						opts = append(opts, fmt.Sprintf("ZS%d:503:10:h:%s", a.Index, types.StreamConnectionFailed))
					}
					if !c.OneWay && a.Live() && streamed[a.Index] && ex.Held() { // the streamed body ends
						opts = append(opts, fmt.Sprintf("E%d", a.Index))
					}
					if !c.OneWay && (!streamed[a.Index] || !a.Live() || ex.Held()) { // a one-way client stream is not registered with its connection: nothing resets it
						for _, r := range resetReasons {
							opts = append(opts, fmt.Sprintf("X%d:%s", a.Index, r))
						}
					}
				}
				opts = append(opts, "CC", "PFo", "PFc", "HG")
				if !c.OneWay {
					opts = append(opts, "DR")
				}
				if !c.OneWay && !ex.Done() { // asynchronous TerminateStream while the worker is parked
					opts = append(opts, "TM418")
					// … with an in-flight response of the current live attempt landing inside the call
					if as := ex.UpstreamAttempts(); len(as) > 0 {
						if a := as[len(as)-1]; a.Failed == "" && a.Live() && !streamed[a.Index] {
							opts = append(opts, fmt.Sprintf("TR418:%d:10", a.Index), fmt.Sprintf("TR418:%d:11", a.Index))
						}
					}
					// … on the kept handler of the finished warm-up exchange whose object this request runs on
					if stale != nil {
						opts = append(opts, "TS419")
					}
				}
				if now+actBudget+idle < next {
					opts = append(opts, "W")
				}
			}
			// timer labels: only the earliest deadline, and only when the other one is far enough
			if hasPT && (!hasGT || pt+timerGap < gt) {
				opts = append(opts, "PT")
				if ptIdx0 >= 0 && !streamed[ptIdx0] && ex.UpstreamAttempts()[ptIdx0].Live() {
					opts = append(opts, fmt.Sprintf("PL%d:10", ptIdx0), fmt.Sprintf("PL%d:01", ptIdx0))
					// [proxy10] the per-try timer gives the attempt up, an event lands in the back-off that follows
					if c.Route == "c" {
						for _, ev := range []string{"TM418", "TMs403", "DR", "CC", "HG"} {
							opts = append(opts, fmt.Sprintf("ZB:P%d:%s", ptIdx0, ev))
						}
					}
				}
			} else if hasGT && !c.LongGlobal && (!hasPT || gt+timerGap < pt) {
				opts = append(opts, "GT")
			}
		}
		sort.Strings(opts)
		if len(opts) == 0 {
			break
		}
		i := choose(step, opts, ex != nil && ex.Done())
		if i < 0 || i >= len(opts) {
			break
		}
		lb := opts[i]
		labels = append(labels, lb)
		switch {
		case lb == "S":
			started = true
			ex = f.RequestHold(px.H(":path", "/a", ":authority", "svc"), body, trailers)
			if c.Stale {
				res.Reuse = "fresh"
				for _, w := range warm {
					if w.SharesStreamWith(ex) {
						stale = w
						res.Reuse = "reused"
					}
				}
			}
		case lb == "PFo":
			f.PoolFail(types.Overflow)
			continue
		case lb == "PFc":
			f.PoolFail(types.ConnectionFailure)
			continue
		case lb == "HG":
			f.HostsDown("c")
			continue
		case strings.HasPrefix(lb, "ZB:"):
			_, gt, _, hasGT := deadlines()
			gd := time.Duration(0)
			if hasGT && !c.LongGlobal {
				gd = gt
			}
			var k int
			fmt.Sscanf(lb[4:], "%d", &k)
			r := RunBO(f, ex, c, lb, gd)
			tm = append(tm, r.TM...)
			plannedSleep = r.Planned
			if r.Skewed {
				res.Skewed = true
			}
			if lb[3] == 'P' {
				ptConsumedFor = k
			}
			if strings.HasSuffix(lb, ":GT") || strings.HasSuffix(lb, ":GSm") || strings.HasSuffix(lb, ":GSs") {
				gtConsumed = true
			}
			BOHeld(lb, r.Held)
		case strings.HasPrefix(lb, "ZS"):
			var k int
			fmt.Sscanf(lb[2:], "%d", &k)
			streamed[k] = true
			if !RunSR(f, ex, lb) {
				res.Skewed = true // the worker was not caught before the head went downstream
			}
		case strings.HasPrefix(lb, "PL"):
			var k int
			var dt string
			fmt.Sscanf(strings.ReplaceAll(lb[2:], ":", " "), "%d %s", &k, &dt)
			a := ex.UpstreamAttempts()[k]
			pt, _, _, _ := deadlines()
			ptConsumedFor = k
			if r := pt + backoffAt - ex.Elapsed(); r > 0 {
				plannedSleep = r
			}
			ex.SleepUntil(pt)
			// the timer callback resets the attempt; the worker then handles the reset within microseconds and sleeps
			for i := 0; i < 40 && a.Live(); i++ {
				time.Sleep(250 * time.Microsecond)
			}
			time.Sleep(backoffAt)
			rh, rb, rt := px.AnswerOf(k, dt[0] == '1', dt[1] == '1')
			a.RespondInFlight(rh, rb, rt)
		case strings.HasPrefix(lb, "XL"):
			p := strings.SplitN(lb[2:], ":", 3)
			var k int
			fmt.Sscan(p[0], &k)
			a := ex.UpstreamAttempts()[k]
			a.Reset(p[1])
			time.Sleep(backoffAt)
			plannedSleep = backoffAt
			rh, rb, rt := px.AnswerOf(k, p[2][0] == '1', p[2][1] == '1')
			a.RespondInFlight(rh, rb, rt)
		case lb == "PT" || lb == "GT":
			pt, gt, _, _ := deadlines()
			d := pt
			if lb == "GT" {
				d = gt
				gtConsumed = true
			} else {
				as := ex.UpstreamAttempts()
				for _, a := range as {
					if a.Failed == "" {
						ptConsumedFor = a.Index
					}
				}
			}
			if r := d + timerMargin - ex.Elapsed(); r > 0 {
				plannedSleep = r
			}
			ex.SleepUntil(d + timerMargin)
		case lb == "DR":
			ex.DownstreamReset()
			ex.Release()
		case lb == "CC":
			f.ConnClose()
			ex.Release()
		case strings.HasPrefix(lb, "B"):
			var k, code int
			var dt string
			fmt.Sscanf(strings.ReplaceAll(lb[1:], ":", " "), "%d %d %s", &k, &code, &dt)
			a := ex.UpstreamAttempts()[k]
			rh, rb, rt := px.AnswerOf(k, dt[0] == '1', dt[1] == '1')
			streamed[k] = true
			armedHere = true
			ex.ArmHold()
			a.RespondStreaming(code, rh, rb, rt)
		case strings.HasPrefix(lb, "E"):
			var k int
			fmt.Sscan(lb[1:], &k)
			ex.UpstreamAttempts()[k].EndBody()
			ex.Release()
		case strings.HasPrefix(lb, "TM"):
			code := 0
			fmt.Sscan(lb[2:], &code)
			tm = append(tm, b(ex.Terminate(code)))
		case strings.HasPrefix(lb, "TS"):
			code := 0
			fmt.Sscan(lb[2:], &code)
			r, _ := stale.TerminateSafe(code)
			tm = append(tm, b(r))
		case strings.HasPrefix(lb, "TR"):
			var code, k int
			var dt string
			fmt.Sscanf(strings.ReplaceAll(lb[2:], ":", " "), "%d %d %s", &code, &k, &dt)
			a := ex.UpstreamAttempts()[k]
			rh, rb, rt := px.AnswerOf(k, dt[0] == '1', dt[1] == '1')
			// the frame lands inside TerminateStream's reset of the upstream request; the call stays there until whatever
			// the frame set off has run its course (nothing, when the frame is dropped)
			a.OnProxyReset(func() { a.RespondInFlight(rh, rb, rt); ex.WaitQuiescentFor(6 * time.Millisecond) })
			tm = append(tm, b(ex.Terminate(code)))
			a.OnProxyReset(nil)
		case lb == "W":
			plannedSleep = idle
			time.Sleep(idle)
		case strings.HasPrefix(lb, "R"):
			var k, code int
			var dt string
			fmt.Sscanf(strings.ReplaceAll(lb[1:], ":", " "), "%d %d %s", &k, &code, &dt)
			a := ex.UpstreamAttempts()[k]
			rh, rb, rt := px.AnswerOf(k, dt[0] == '1', dt[1] == '1')
			a.Respond(code, rh, rb, rt)
		case strings.HasPrefix(lb, "X"):
			p := strings.SplitN(lb[1:], ":", 2)
			var k int
			fmt.Sscan(p[0], &k)
			held := ex.Held() && streamed[k] && ex.UpstreamAttempts()[k].Live()
			ex.UpstreamAttempts()[k].Reset(p[1])
			if held {
				ex.Release()
			}
		}
		if ex != nil {
			ex.WaitQuiescentFor(settleWin)
			if armedHere && !ex.Held() { // the head was not forwarded (dropped, or swallowed by a retry): nothing waits
				ex.Release()
			}
			// the timing grid assumes that an action and its settle end well within actBudget: a scheduler stall (loaded
			// machine) that stretches one label beyond it may have let a timer fire at a point the recorded schedule does
			// not show — such a run is discarded
			if time.Since(iterStart)-plannedSleep > actBudget+settleWin {
				res.Skewed = true
				break
			}
			// a deadline that is not consumed must still be ahead, otherwise a timer may have fired inside the settle
			now := ex.Elapsed()
			pt, gt, hasPT, hasGT := deadlines()
			if (hasPT && pt <= now+2*time.Millisecond) || (hasGT && gt <= now+2*time.Millisecond) {
				res.Skewed = true
				break
			}
			// the per-try deadline pending before the label passed during it and MOSN reset that attempt: the timer
			// fired inside the action or its settle (scheduler stall), not at a PT label
			if hasPT0 && lb != "PT" && !strings.HasPrefix(lb, "PL") && !strings.HasPrefix(lb, "ZB:P") && pt0 <= now+2*time.Millisecond && strings.Contains(","+Canon(ex.Trace())+",", fmt.Sprintf(",ur:%d,", ptIdx0)) {
				res.Skewed = true
				break
			}
			// a PT label fires the per-try timer of attempt ptIdx0 only: a reset of a later attempt right after it means
			// the next attempt's timer fired inside this label as well (the label took longer than a per-try timeout)
			if hasPT0 && (lb == "PT" || strings.HasPrefix(lb, "PL") || strings.HasPrefix(lb, "ZB:P")) {
				late := false
				for _, tk := range strings.Split(Canon(ex.Trace()), ",") {
					var k int
					if n, _ := fmt.Sscanf(tk, "ur:%d", &k); n == 1 && k > ptIdx0 {
						late = true
					}
				}
				if late {
					res.Skewed = true
					break
				}
			}
		}
	}
	// confirm the final state is settled: nothing may move in a second window (when no deadline falls into it)
	if ex != nil && !res.Skewed {
		now := ex.Elapsed()
		pt, gt, hasPT, hasGT := deadlines()
		if ex.Done() || ((!hasPT || pt > now+3*settleWin) && (!hasGT || gt > now+3*settleWin)) {
			before := len(ex.Trace())
			d0 := ex.Done()
			ex.WaitQuiescentFor(settleWin)
			if len(ex.Trace()) != before || ex.Done() != d0 {
				res.Skewed = true
			}
		}
	}
	res.Labels = len(labels)
	res.Sched = "-"
	if len(labels) > 0 {
		res.Sched = strings.Join(labels, ",")
	}
	tms := "-"
	if len(tm) > 0 {
		tms = strings.Join(tm, ",")
	}
	if ex == nil {
		l := f.Ledger()
		res.Out = fmt.Sprintf("trace=- ledger=%d,%d,%d,%d done=0 tm=%s", l.Requests["c"], l.Retries["c"], l.UpActive["c"], l.DownActive+1, tms)
		return res
	}
	l := f.Ledger()
	toks := ex.DownToks()
	if toks == nil {
		toks = []string{}
	}
	res.Out = fmt.Sprintf("trace=%s ledger=%d,%d,%d,%d done=%s tm=%s", CanonToks(ex.Trace(), toks), l.Requests["c"], l.Retries["c"], l.UpActive["c"], l.DownActive, b(ex.Done()), tms)
	return res
}
