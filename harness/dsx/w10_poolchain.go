//go:build verif

package dsx

// c03w10: a history whose whole retry chain runs inside the one label `S` — n pool connection failures are armed before the
// start (labels PFc, as in Run), then the request is started and EVERY attempt, the first one and each retry after doRetry's
// 10 ms back-off, is refused by the pool until the failures or the retry budget are used up. Run cannot drive this: it bounds
// the wall time of one label (actBudget) well below n x 10 ms. No timer is involved (Cfg.LongGlobal is forced: the global
// timeout is 5 s), so there is no timing grid to keep; the runner waits for the exchange to finish (or, when failures run out
// first, for the admitted attempt) and then for quiescence. The line format is Run's.

import (
	"fmt"
	"strings"
	"time"

	"mosn.io/mosn/pkg/types"
	"verif/harness/px"
)

// RunPoolChain executes the schedule PFc x n, S.
func RunPoolChain(c Cfg, n int) Result {
	c.LongGlobal = true
	f := c.fixture()
	defer f.Close()
	var labels []string
	for i := 0; i < n; i++ {
		f.PoolFail(types.ConnectionFailure)
		labels = append(labels, "PFc")
	}
	labels = append(labels, "S")
	var body []byte
	var trailers map[string]string
	if c.Data {
		body = []byte("data")
	}
	if c.Trailers {
		trailers = map[string]string{"t": "1"}
	}
	ex := f.RequestHold(px.H(":path", "/a", ":authority", "svc"), body, trailers)
	defer func() {
		ex.Release()
		ex.ForgetHold()
		ex.ForgetProv()
	}()
	// n refused attempts at >= 10 ms each, then either the local reply (budget used up) or an admitted attempt
	deadline := time.Now().Add(time.Duration(n)*25*time.Millisecond + 2*time.Second)
	for time.Now().Before(deadline) && !ex.Done() {
		as := ex.UpstreamAttempts()
		if len(as) > n && as[len(as)-1].Failed == "" {
			break
		}
		time.Sleep(2 * time.Millisecond)
	}
	ex.WaitQuiescentFor(settleWin)
	res := Result{Labels: len(labels), Sched: strings.Join(labels, ",")}
	before := len(ex.Trace())
	d0 := ex.Done()
	ex.WaitQuiescentFor(settleWin)
	if len(ex.Trace()) != before || ex.Done() != d0 {
		res.Skewed = true
	}
	l := f.Ledger()
	toks := ex.DownToks()
	if toks == nil {
		toks = []string{}
	}
	res.Out = fmt.Sprintf("trace=%s ledger=%d,%d,%d,%d done=%s tm=-", CanonToks(ex.Trace(), toks), l.Requests["c"], l.Retries["c"], l.UpActive["c"], l.DownActive, b(ex.Done()))
	return res
}
