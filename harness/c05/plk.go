//go:build verif

package c05

// `plk` cases: the REQUEST PATH of a lookup. One operation list on TWO clusters inside the real cluster manager
// (cluster.NewClusterManagerSingleton) with a registered fake protocol `c05plk` whose pool factory records the host OBJECT
// each connection pool is created with and whose CheckAndInit is scripted per address; lookups go through
// cm.ConnPoolForCluster (=> getActiveConnectionPool), i.e. what the proxy calls per request.
//
// Line: `plk <pol>/<p|s0|s1>/<g|m|c> <op;op;…> => <out;out;…>`
//   pool scope: g = one global pool map per protocol (default), m = ClusterManagerConfig.ClusterPoolEnable,
//               c = cluster 0 has cluster_pool_enable, cluster 1 not
//   U<c>:<hosts> UpdateClusterHosts   A<c>:<hosts> AppendClusterHosts   R<c>:<addrs> RemoveClusterHosts
//   P<c> AddOrUpdatePrimaryCluster (same host objects under a new cluster object)      out: published set `a.t.w,…` | err
//        host = <address>.<identity marker>.<weight>.<host name number> (name 0 = empty host name)
//   F<a>.<0|1> health flag of address a                                                out: .
//   N<a>.<k>   the next k CheckAndInit calls of pools created for address a answer "not ready"   out: .
//   T<a>       the pools created for address a now carry another TLS hash than their hosts        out: .
//   S<a>       cm.ShutdownConnectionPool(·, address a)                                 out: X<id>,… (sorted) | -
//   L<c>       ConnPoolForCluster on the current snapshot of cluster c                 M<c>.<t> the same with the subset
//              criterion tok=t<t>
//     out: `<HostNum>|<chosen,…>|<events,…>|<pool>/<host>/<pm>`: what every ChooseHost call of this lookup returned
//          (recorded by a delegating snapshot wrapper; `a.t.w` or `-`), the pool events in order (`N<id>@<a.t.w>` factory
//          called with that host object, `X<id>` Shutdown, `?<id>+` / `?<id>-` CheckAndInit), the returned pool
//          (`<id>@<creation host>` | -), the returned host (`a.t.w` | -), p = the returned host IS (pointer) one of the
//          chosen objects, m = it IS (pointer) an element of the snapshot's host set.

import (
	"bufio"
	"context"
	"fmt"
	"os"
	"path/filepath"
	"reflect"
	"sort"
	"strconv"
	"strings"

	"mosn.io/api"
	v2 "mosn.io/mosn/pkg/config/v2"
	"mosn.io/mosn/pkg/configmanager"
	"mosn.io/mosn/pkg/protocol"
	"mosn.io/mosn/pkg/router"
	"mosn.io/mosn/pkg/types"
	"mosn.io/mosn/pkg/upstream/cluster"
	"mosn.io/pkg/variable"
	"verif/harness/hx"
)

const plkProto api.ProtocolName = "c05plk"
const plkAddrs = 5

func init() {
	if err := protocol.RegisterProtocol(plkProto, plkNewPool, &plkStreamFactory{}, protocol.GetStatusCodeMapping{}); err != nil {
		panic(err)
	}
}

type plkStreamFactory struct{}

func (*plkStreamFactory) CreateClientStream(context.Context, types.ClientConnection, types.StreamConnectionEventListener, api.ConnectionEventListener) types.ClientStreamConnection {
	return nil
}
func (*plkStreamFactory) CreateServerStream(context.Context, api.Connection, types.ServerStreamConnectionEventListener) types.ServerStreamConnection {
	return nil
}
func (*plkStreamFactory) CreateBiDirectStream(context.Context, types.ClientConnection, types.StreamConnectionEventListener, types.ServerStreamConnectionEventListener) types.ClientStreamConnection {
	return nil
}
func (*plkStreamFactory) ProtocolMatch(context.Context, string, []byte) error { return protocol.FAILED }

func plkAddr(a int) string { return fmt.Sprintf("127.0.11.%d:8080", a+1) }

func plkName(n int) string {
	if n == 0 {
		return ""
	}
	return fmt.Sprintf("n%d", n)
}

// plkEnv is the fixture of one case; the pool factory of the fake protocol reports to the current one.
type plkEnv struct {
	cm     types.ClusterManager
	cfgs   [2]v2.Cluster
	nr     map[string]int
	events []string
	pools  []*plkPool
	next   int
	rng    *hx.Rng
}

var plkCur *plkEnv

type plkPool struct {
	id   int
	host types.Host
	addr string
	hash *types.HashValue
	e    *plkEnv
}

func plkNewPool(_ context.Context, h types.Host) types.ConnectionPool {
	e := plkCur
	if e == nil {
		return &plkPool{host: h, addr: h.AddressString(), hash: h.TLSHashValue()}
	}
	p := &plkPool{id: e.next, host: h, addr: h.AddressString(), hash: h.TLSHashValue(), e: e}
	e.next++
	e.pools = append(e.pools, p)
	e.events = append(e.events, fmt.Sprintf("N%d@%s", p.id, plkDescribe(h)))
	return p
}

func (p *plkPool) Protocol() api.ProtocolName { return plkProto }
func (p *plkPool) NewStream(context.Context, types.StreamReceiveListener) (types.Host, types.StreamSender, types.PoolFailureReason) {
	return p.host, nil, types.ConnectionFailure
}
func (p *plkPool) CheckAndInit(context.Context) bool {
	if p.e == nil {
		return true
	}
	if k := p.e.nr[p.addr]; k > 0 {
		p.e.nr[p.addr] = k - 1
		p.e.events = append(p.e.events, fmt.Sprintf("?%d-", p.id))
		return false
	}
	p.e.events = append(p.e.events, fmt.Sprintf("?%d+", p.id))
	return true
}
func (p *plkPool) TLSHashValue() *types.HashValue { return p.hash }
func (p *plkPool) Shutdown() {
	if p.e != nil {
		p.e.events = append(p.e.events, fmt.Sprintf("X%d", p.id))
	}
}
func (p *plkPool) Close()           {}
func (p *plkPool) Host() types.Host { return p.host }

func plkIsNil(h types.Host) bool {
	if h == nil {
		return true
	}
	v := reflect.ValueOf(h)
	return v.Kind() == reflect.Ptr && v.IsNil()
}

func plkDescribe(h types.Host) string {
	if plkIsNil(h) {
		return "-"
	}
	a := -1
	for i := 0; i < plkAddrs; i++ {
		if plkAddr(i) == h.AddressString() {
			a = i
		}
	}
	t := strings.TrimPrefix(h.Metadata()["tok"], "t")
	if t == "" {
		t = "x"
	}
	return fmt.Sprintf("%d.%s.%d", a, t, h.Weight())
}

// plkSnap delegates to the real snapshot and records what HostNum and every ChooseHost call answered.
type plkSnap struct {
	types.ClusterSnapshot
	n      int
	chosen []types.Host
}

func (s *plkSnap) HostNum(m api.MetadataMatchCriteria) int {
	s.n = s.ClusterSnapshot.HostNum(m)
	return s.n
}
func (s *plkSnap) LoadBalancer() types.LoadBalancer {
	return &plkLB{LoadBalancer: s.ClusterSnapshot.LoadBalancer(), s: s}
}

type plkLB struct {
	types.LoadBalancer
	s *plkSnap
}

func (l *plkLB) ChooseHost(ctx types.LoadBalancerContext) types.Host {
	h := l.LoadBalancer.ChooseHost(ctx)
	l.s.chosen = append(l.s.chosen, h)
	return h
}

type plkHost struct{ a, t, w, n int }

func plkHostsTok(hs []plkHost) string {
	if len(hs) == 0 {
		return "-"
	}
	var xs []string
	for _, h := range hs {
		xs = append(xs, fmt.Sprintf("%d.%d.%d.%d", h.a, h.t, h.w, h.n))
	}
	return strings.Join(xs, ",")
}

func plkParseHosts(s string) []v2.Host {
	var out []v2.Host
	if s == "-" || s == "" {
		return out
	}
	for _, x := range strings.Split(s, ",") {
		f := strings.Split(x, ".")
		if len(f) != 4 {
			panic("plk: bad host token " + x)
		}
		a, _ := strconv.Atoi(f[0])
		w, _ := strconv.Atoi(f[2])
		n, _ := strconv.Atoi(f[3])
		out = append(out, v2.Host{HostConfig: v2.HostConfig{Address: plkAddr(a), Hostname: plkName(n), Weight: uint32(w)},
			MetaData: api.Metadata{"tok": "t" + f[1]}})
	}
	return out
}

func plkSetHealth(a int, healthy bool) {
	p := cluster.GetHealthFlagPointer(plkAddr(a))
	cluster.ClearHealthFlag(p, api.FAILED_ACTIVE_HC)
	cluster.ClearHealthFlag(p, api.FAILED_OUTLIER_CHECK)
	if !healthy {
		cluster.SetHealthFlag(p, api.FAILED_ACTIVE_HC)
	}
}

func (e *plkEnv) published(c int) string {
	snap := e.cm.GetClusterSnapshot(context.Background(), e.cfgs[c].Name)
	if snap == nil {
		return "nosnap"
	}
	var xs []string
	snap.HostSet().Range(func(h types.Host) bool {
		xs = append(xs, plkDescribe(h))
		return true
	})
	if len(xs) == 0 {
		return "-"
	}
	sort.Strings(xs)
	return strings.Join(xs, ",")
}

func (e *plkEnv) lookup(c int, tok int) string {
	real := e.cm.GetClusterSnapshot(context.Background(), e.cfgs[c].Name)
	if real == nil {
		return "nosnap"
	}
	snap := &plkSnap{ClusterSnapshot: real, n: -1}
	lc := &pubCtx{ctx: variable.NewVariableContext(context.Background()),
		route: &route{rr: &routeRule{p: &policy{hp: &hashPolicy{e.rng.U64()}}}}}
	if tok >= 0 {
		lc.crit = router.NewMetadataMatchCriteriaImpl(map[string]string{"tok": fmt.Sprintf("t%d", tok)})
	}
	e.events = nil
	var pool types.ConnectionPool
	var host types.Host
	if _, p := hx.Safe(func() { pool, host = e.cm.ConnPoolForCluster(lc, snap, plkProto) }); p {
		return "panic"
	}
	var ch []string
	for _, h := range snap.chosen {
		ch = append(ch, plkDescribe(h))
	}
	ps := "-"
	if pp, ok := pool.(*plkPool); ok && pp != nil {
		ps = fmt.Sprintf("%d@%s", pp.id, plkDescribe(pp.host))
	} else if pool != nil {
		ps = "?"
	}
	isChosen, isMember := 0, 0
	if !plkIsNil(host) {
		for _, h := range snap.chosen {
			if !plkIsNil(h) && h == host {
				isChosen = 1
			}
		}
		real.HostSet().Range(func(h types.Host) bool {
			if h == host {
				isMember = 1
			}
			return true
		})
	}
	join := func(xs []string) string {
		if len(xs) == 0 {
			return "-"
		}
		return strings.Join(xs, ",")
	}
	out := fmt.Sprintf("%d|%s|%s|%s/%s/%d%d", snap.n, join(ch), join(e.events), ps, plkDescribe(host), isChosen, isMember)
	e.events = nil
	return out
}

var plkSubs = []string{"p", "s0", "s1"}
var plkModes = []string{"g", "m", "c"}

// runPlk executes one operation list (op tokens as printed) and emits the line.
func runPlk(c *hx.Ctx, pol string, typ types.LoadBalancerType, sub, mode string, ops []string) {
	configmanager.Reset()
	cluster.NewClusterManagerSingleton(nil, nil, nil).Destroy()
	var mcfg *v2.ClusterManagerConfig
	if mode == "m" {
		mcfg = &v2.ClusterManagerConfig{}
		mcfg.ClusterPoolEnable = true
	}
	cm := cluster.NewClusterManagerSingleton(nil, nil, mcfg)
	defer cm.Destroy()
	for a := 0; a < plkAddrs; a++ {
		plkSetHealth(a, true)
	}
	e := &plkEnv{cm: cm, nr: map[string]int{}, rng: c.Rng}
	plkCur = e
	defer func() { plkCur = nil }()
	for i, name := range []string{"c05pa", "c05pb"} {
		cfg := v2.Cluster{Name: name, LbType: v2.LbType(typ), ClusterType: v2.SIMPLE_CLUSTER}
		switch sub {
		case "s0":
			cfg.LBSubSetConfig = v2.LBSubsetConfig{FallBackPolicy: 0, SubsetSelectors: [][]string{{"tok"}}}
		case "s1":
			cfg.LBSubSetConfig = v2.LBSubsetConfig{FallBackPolicy: 1, SubsetSelectors: [][]string{{"tok"}}}
		}
		if mode == "c" && i == 0 {
			cfg.ClusterPoolEnable = true
		}
		if err := cm.AddOrUpdatePrimaryCluster(cfg); err != nil {
			panic(err)
		}
		e.cfgs[i] = cfg
	}
	var outs []string
	for _, op := range ops {
		arg := op[1:]
		cl, rest := 0, ""
		if i := strings.IndexAny(arg, ":."); i >= 0 {
			cl, _ = strconv.Atoi(arg[:i])
			rest = arg[i+1:]
		} else {
			cl, _ = strconv.Atoi(arg)
		}
		upd := func(err error) {
			if err != nil {
				outs = append(outs, "err")
			} else {
				outs = append(outs, e.published(cl))
			}
			c.Count("plk.updater=" + op[:1])
		}
		switch op[0] {
		case 'U':
			upd(cm.UpdateClusterHosts(e.cfgs[cl].Name, plkParseHosts(rest)))
		case 'A':
			upd(cm.AppendClusterHosts(e.cfgs[cl].Name, plkParseHosts(rest)))
		case 'R':
			var as []string
			if rest != "-" && rest != "" {
				for _, x := range strings.Split(rest, ",") {
					a, _ := strconv.Atoi(x)
					as = append(as, plkAddr(a))
				}
			}
			upd(cm.RemoveClusterHosts(e.cfgs[cl].Name, as))
		case 'P':
			upd(cm.AddOrUpdatePrimaryCluster(e.cfgs[cl]))
		case 'F':
			v, _ := strconv.Atoi(rest)
			plkSetHealth(cl, v != 0)
			outs = append(outs, ".")
		case 'N':
			k, _ := strconv.Atoi(rest)
			e.nr[plkAddr(cl)] = k
			outs = append(outs, ".")
		case 'T':
			for _, p := range e.pools {
				if p.addr == plkAddr(cl) {
					var junk [32]byte
					junk[0], junk[1] = 0xc0, byte(p.id)
					p.hash = types.NewHashValue(junk)
				}
			}
			outs = append(outs, ".")
		case 'S':
			e.events = nil
			proto := types.ProtocolName("")
			if cl%2 == 1 {
				proto = plkProto
			}
			cm.ShutdownConnectionPool(proto, plkAddr(cl))
			sort.Strings(e.events)
			if len(e.events) == 0 {
				outs = append(outs, "-")
			} else {
				outs = append(outs, strings.Join(e.events, ","))
			}
			e.events = nil
		case 'L':
			o := e.lookup(cl, -1)
			outs = append(outs, o)
			plkCountLookup(c, o)
		case 'M':
			t, _ := strconv.Atoi(rest)
			o := e.lookup(cl, t)
			outs = append(outs, o)
			plkCountLookup(c, o)
		default:
			panic("plk: unknown op " + op)
		}
	}
	c.Emit("C05", fmt.Sprintf("plk %s/%s/%s %s", pol, sub, mode, strings.Join(ops, ";")), strings.Join(outs, ";"))
	c.Count("plk.sub=" + sub)
	c.Count("plk.scope=" + mode)
}

func plkCountLookup(c *hx.Ctx, o string) {
	f := strings.Split(o, "|")
	if len(f) != 4 {
		c.Count("plk.lookup=" + o)
		return
	}
	polls := strings.Count(f[2], "?")
	switch {
	case strings.HasPrefix(f[3], "-/"):
		c.Count("plk.lookup=none")
	case polls <= len(strings.Split(f[1], ",")) && strings.HasSuffix(f[2], "+") && strings.Count(f[2], "-") == 0:
		c.Count("plk.lookup=first-ready")
	default:
		c.Count("plk.lookup=ready-after-waiting")
	}
	c.Count(fmt.Sprintf("plk.choosehost-calls=%d", len(strings.Split(f[1], ","))))
	if strings.Contains(f[2], "X") {
		c.Count("plk.pool-replaced")
	}
	if !strings.Contains(f[2], "N") && !strings.HasPrefix(f[3], "-/") {
		c.Count("plk.pool-reused")
	}
}

// plkGen draws operation lists. Markers are numbered in order of supply (unique per supplied host object).
type plkGen struct {
	r      *hx.Rng
	next   int
	byAddr map[int][]int
	names  int // 0: address-specific names, 1: one name for all, 2: empty names, 3: mixed
}

func (g *plkGen) name(a int) int {
	switch g.names {
	case 0:
		return a + 1
	case 1:
		return 9
	case 2:
		return 0
	}
	return g.r.Pick([]int{0, 9, a + 1, 7})
}

func (g *plkGen) host(a int) plkHost {
	g.next++
	g.byAddr[a] = append(g.byAddr[a], g.next)
	return plkHost{a: a, t: g.next, w: 1 + g.r.Intn(5), n: g.name(a)}
}

func (g *plkGen) hosts(minN, maxN int) []plkHost {
	n := minN + g.r.Intn(maxN-minN+1)
	var hs []plkHost
	for i := 0; i < n; i++ {
		hs = append(hs, g.host(g.r.Intn(plkAddrs)))
	}
	return hs
}

// distinct: n hosts on distinct addresses
func (g *plkGen) distinct(n int) []plkHost {
	perm := []int{0, 1, 2, 3, 4}
	for i := len(perm) - 1; i > 0; i-- {
		j := g.r.Intn(i + 1)
		perm[i], perm[j] = perm[j], perm[i]
	}
	var hs []plkHost
	for i := 0; i < n && i < len(perm); i++ {
		hs = append(hs, g.host(perm[i]))
	}
	return hs
}

// again: new host objects (new markers, other weights) on the addresses of hs
func (g *plkGen) again(hs []plkHost) []plkHost {
	var out []plkHost
	for _, h := range hs {
		out = append(out, g.host(h.a))
	}
	return out
}

func (g *plkGen) anyTok() int {
	if g.next == 0 {
		return 1
	}
	if g.r.Chance(10) {
		return g.next + 1 + g.r.Intn(3)
	}
	return 1 + g.r.Intn(g.next)
}

func plkU(k byte, c int, hs []plkHost) string { return fmt.Sprintf("%c%d:%s", k, c, plkHostsTok(hs)) }
func plkL(c int) string                       { return fmt.Sprintf("L%d", c) }
func plkN(a, k int) string                    { return fmt.Sprintf("N%d.%d", a, k) }

func plkCases(c *hx.Ctx) {
	plkCorpus(c)
	no := 0
	pick := func() (string, string) {
		no++
		return plkSubs[no%len(plkSubs)], plkModes[(no/len(plkSubs))%len(plkModes)]
	}
	// (a) deterministic core per policy
	for _, p := range Policies {
		for rep := 0; rep < c.N(1, 4); rep++ {
			// a1: pools outlive a replacement that keeps the addresses (new objects: other marker / weight)
			for _, k := range []byte{'U', 'A'} {
				sub, mode := pick()
				g := &plkGen{r: c.Rng, byAddr: map[int][]int{}, names: c.Rng.Intn(4)}
				h0 := g.distinct(1 + c.Rng.Intn(4))
				ops := []string{plkU('U', 0, h0), plkL(0), plkL(0), plkU(k, 0, g.again(h0)), plkL(0), plkL(0), plkL(0), "P0", plkL(0)}
				runPlk(c, p.Name, p.Type, sub, mode, ops)
				c.Count("plk.core=stale-pool")
			}
			// a2: two clusters share addresses
			{
				sub, mode := pick()
				g := &plkGen{r: c.Rng, byAddr: map[int][]int{}, names: c.Rng.Intn(4)}
				h0 := g.distinct(1 + c.Rng.Intn(3))
				ops := []string{plkU('U', 0, h0), plkU('U', 1, g.again(h0)), plkL(0), plkL(1), plkL(0), plkL(1), plkL(1), plkU('U', 0, g.again(h0)), plkL(1), plkL(0)}
				runPlk(c, p.Name, p.Type, sub, mode, ops)
				c.Count("plk.core=shared-address")
			}
			// a3: pools that are not ready: the arrays pools[i] / hosts[i] and the poll loop
			for v := 0; v < 3; v++ {
				sub, mode := pick()
				g := &plkGen{r: c.Rng, byAddr: map[int][]int{}, names: c.Rng.Intn(4)}
				h0 := g.distinct(2 + c.Rng.Intn(3))
				ops := []string{plkU('U', 0, h0)}
				if v == 2 {
					ops = append(ops, plkL(0), plkU('U', 0, g.again(h0)))
				}
				for i, h := range h0 {
					k := 1 + c.Rng.Intn(3)
					if v == 0 {
						k = []int{3, 1, 2, 1, 1}[i]
					}
					ops = append(ops, plkN(h.a, k))
				}
				ops = append(ops, plkL(0), plkL(0))
				for _, h := range h0 {
					ops = append(ops, plkN(h.a, 1+c.Rng.Intn(4)))
				}
				ops = append(ops, plkL(0))
				runPlk(c, p.Name, p.Type, sub, mode, ops)
				c.Count("plk.core=not-ready")
			}
			// a4: TLS hash change and ShutdownConnectionPool
			{
				sub, mode := pick()
				g := &plkGen{r: c.Rng, byAddr: map[int][]int{}, names: c.Rng.Intn(4)}
				h0 := g.distinct(1 + c.Rng.Intn(3))
				a := h0[0].a
				ops := []string{plkU('U', 0, h0), plkU('U', 1, g.again(h0[:1])), plkL(0), plkL(0), plkL(1), fmt.Sprintf("T%d", a), plkL(0), plkL(0), plkL(1),
					fmt.Sprintf("S%d", a), plkL(0), plkL(0), plkU('A', 0, g.again(h0[:1])), fmt.Sprintf("T%d", a), plkN(a, 2), plkL(0), plkL(0)}
				runPlk(c, p.Name, p.Type, sub, mode, ops)
				c.Count("plk.core=tls-shutdown")
			}
		}
	}
	// (b) seeded histories
	for i := 0; i < c.N(450, 6000); i++ {
		p := Policies[c.Rng.Intn(len(Policies))]
		sub := plkSubs[c.Rng.Intn(len(plkSubs))]
		mode := plkModes[c.Rng.Intn(len(plkModes))]
		g := &plkGen{r: c.Rng, byAddr: map[int][]int{}, names: c.Rng.Intn(4)}
		ops := []string{plkU('U', 0, g.hosts(1, 4))}
		if c.Rng.Chance(60) {
			ops = append(ops, plkU('U', 1, g.hosts(1, 4)))
		}
		n := 4 + c.Rng.Intn(11)
		for j := 0; j < n; j++ {
			cl := 0
			if c.Rng.Chance(35) {
				cl = 1
			}
			switch x := c.Rng.Intn(40); {
			case x < 3:
				ops = append(ops, plkU('U', cl, g.hosts(0, 4)))
			case x < 8:
				ops = append(ops, plkU('A', cl, g.hosts(1, 3)))
			case x < 10:
				var as []string
				for k := 0; k < 1+c.Rng.Intn(2); k++ {
					as = append(as, fmt.Sprint(c.Rng.Intn(plkAddrs)))
				}
				ops = append(ops, fmt.Sprintf("R%d:%s", cl, strings.Join(as, ",")))
			case x < 11:
				ops = append(ops, fmt.Sprintf("P%d", cl))
			case x < 14:
				ops = append(ops, fmt.Sprintf("F%d.%d", c.Rng.Intn(plkAddrs), c.Rng.Intn(2)))
			case x < 20:
				ops = append(ops, plkN(c.Rng.Intn(plkAddrs), c.Rng.Pick([]int{1, 1, 2, 2, 3, 4, 6})))
			case x < 22:
				ops = append(ops, fmt.Sprintf("T%d", c.Rng.Intn(plkAddrs)))
			case x < 24:
				ops = append(ops, fmt.Sprintf("S%d", c.Rng.Intn(plkAddrs)))
			case x < 28 && sub != "p":
				ops = append(ops, fmt.Sprintf("M%d.%d", cl, g.anyTok()))
			default:
				ops = append(ops, plkL(cl))
			}
		}
		ops = append(ops, plkL(0))
		runPlk(c, p.Name, p.Type, sub, mode, ops)
	}
	// (c) boundary / malformed stream: empty cluster, every host unhealthy, a marker nobody carries, pools that never
	// become ready (the whole 535 ms poll schedule), one address supplied several times in one call
	bn := 0
	for _, p := range Policies {
		g := &plkGen{r: c.Rng, byAddr: map[int][]int{}, names: 3}
		h0 := g.distinct(2)
		dup := []plkHost{g.host(h0[0].a), g.host(h0[0].a), g.host(h0[1].a)}
		ops := []string{plkL(0), plkL(1), plkU('U', 0, h0), fmt.Sprintf("F%d.0", h0[0].a), fmt.Sprintf("F%d.0", h0[1].a), plkL(0), "M0.999",
			fmt.Sprintf("F%d.1", h0[0].a), plkL(0), plkU('A', 0, dup), plkL(0), plkL(0), fmt.Sprintf("R0:%d,%d", h0[0].a, h0[1].a), plkL(0), "U0:-", plkL(0)}
		runPlk(c, p.Name, p.Type, plkSubs[bn%3], plkModes[bn%3], ops)
		c.Count("plk.boundary")
		if bn < c.N(2, 9) {
			g := &plkGen{r: c.Rng, byAddr: map[int][]int{}, names: 0}
			h1 := g.distinct(2)
			runPlk(c, p.Name, p.Type, "p", plkModes[bn%3], []string{plkU('U', 0, h1), plkN(h1[0].a, 99), plkN(h1[1].a, 99), plkL(0), plkN(h1[0].a, 0), plkN(h1[1].a, 0), plkL(0)})
			c.Count("plk.boundary=never-ready")
		}
		bn++
	}
}

// plkCorpus re-executes the `plk` lines of corpus/C05 (minimised past failures) first.
func plkCorpus(c *hx.Ctx) {
	wd, _ := os.Getwd()
	var files []string
	for _, d := range []string{filepath.Join(wd, "..", "..", "corpus", "C05"), filepath.Join(wd, "corpus", "C05")} {
		m, _ := filepath.Glob(filepath.Join(d, "*.txt"))
		files = append(files, m...)
	}
	sort.Strings(files)
	for _, fn := range files {
		fh, err := os.Open(fn)
		if err != nil {
			continue
		}
		sc := bufio.NewScanner(fh)
		sc.Buffer(make([]byte, 1<<20), 1<<24)
		for sc.Scan() {
			f := strings.Fields(strings.TrimSpace(sc.Text()))
			if len(f) < 4 || f[0] != "C05" || f[1] != "plk" {
				continue
			}
			psm := strings.Split(f[2], "/")
			if len(psm) != 3 {
				continue
			}
			for _, p := range Policies {
				if p.Name == psm[0] {
					runPlk(c, p.Name, p.Type, psm[1], psm[2], strings.Split(f[3], ";"))
					c.Count("plk.corpus")
				}
			}
		}
		fh.Close()
	}
}
