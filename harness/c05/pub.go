//go:build verif

package c05

// `hops` cases: one operation list on a cluster that lives in the real cluster manager
// (cluster.NewClusterManagerSingleton): every updater of the manager
//   U/u UpdateClusterHosts      (upper case: through the exported cm.UpdateHosts with a WRAPPING host handler that first
//   A/a AppendClusterHosts       looks up, then delegates to the real handler, then looks up again; lower case: the
//   R   RemoveClusterHosts       exported convenience method itself)
//   P/p AddOrUpdatePrimaryCluster   (upper case: cm.UpdateCluster with a wrapping types.ClusterUpdateHandler around the
//   H/h AddOrUpdateClusterAndHost    real handlers)
// interleaved with health flips (F), plain lookups (L) and subset lookups for one host object's marker (M<t>).
// Every supplied host object carries a metadata marker `tok` that is unique per supplied object, so a returned host is
// identified as an OBJECT (address, token, weight), not only as an address. A lookup is what the proxy does:
// cm.GetClusterSnapshot(name).LoadBalancer().ChooseHost(ctx), plus the size of the snapshot's host set.
// Line: `hops <pol>/<p|s0|s1> <op;op;…> => <out;out;…>`
//   updater out: `<pre>/<post>/<set>/<win|win…>`: lookup inside the handler before / after the real handler ran (`_` when not
//   wrapped), the published host set after the call returned (`a.t.w,…` sorted by address, `-` empty), and one window per
//   publication inside the update (verif publish hook, called right after the atomic store): `<site>:<set>:<lookup>` =
//   0 snapshot store / 1 clustersMap store, the host set and a lookup as a reader sees them at that moment
//   lookup out: `<a>.<t>.<w>#<size>` or `-#<size>`;  F out: `.`

import (
	"context"
	"fmt"
	"sort"
	"strings"

	"mosn.io/api"
	v2 "mosn.io/mosn/pkg/config/v2"
	"mosn.io/mosn/pkg/configmanager"
	"mosn.io/mosn/pkg/router"
	"mosn.io/mosn/pkg/types"
	"mosn.io/mosn/pkg/upstream/cluster"
	"mosn.io/pkg/variable"
	"verif/harness/hx"
)

const pubPool = 6

func pubAddr(a int) string { return fmt.Sprintf("127.0.9.%d:8080", a+1) }

type pubHost struct{ a, t, w int }

type pubCtx struct {
	types.LoadBalancerContext
	ctx   context.Context
	route api.Route
	crit  api.MetadataMatchCriteria
}

func (l *pubCtx) DownstreamContext() context.Context { return l.ctx }
func (l *pubCtx) DownstreamRoute() api.Route         { return l.route }
func (l *pubCtx) MetadataMatchCriteria() api.MetadataMatchCriteria {
	if l.crit == nil {
		return nil
	}
	return l.crit
}
func (l *pubCtx) DownstreamHeaders() api.HeaderMap     { return nil }
func (l *pubCtx) DownstreamCluster() types.ClusterInfo { return nil }

func pubCfgs(hs []pubHost) []v2.Host {
	var out []v2.Host
	for _, h := range hs {
		out = append(out, v2.Host{HostConfig: v2.HostConfig{Address: pubAddr(h.a), Hostname: fmt.Sprintf("p%d", h.a), Weight: uint32(h.w)},
			MetaData: api.Metadata{"tok": fmt.Sprintf("t%d", h.t)}})
	}
	return out
}

func pubHostsTok(hs []pubHost) string {
	if len(hs) == 0 {
		return "-"
	}
	var xs []string
	for _, h := range hs {
		xs = append(xs, fmt.Sprintf("%d.%d.%d", h.a, h.t, h.w))
	}
	return strings.Join(xs, ",")
}

func pubDescribe(h types.Host) string {
	if h == nil {
		return "-"
	}
	a := -1
	for i := 0; i < pubPool; i++ {
		if pubAddr(i) == h.AddressString() {
			a = i
		}
	}
	t := strings.TrimPrefix(h.Metadata()["tok"], "t")
	if t == "" {
		t = "x"
	}
	return fmt.Sprintf("%d.%s.%d", a, t, h.Weight())
}

type pubEnv struct {
	cm   types.ClusterManager
	name string
	cfg  v2.Cluster
	rng  *hx.Rng
}

func (e *pubEnv) lookup(tok int) string {
	snap := e.cm.GetClusterSnapshot(context.Background(), e.name)
	if snap == nil {
		return "nosnap"
	}
	lc := &pubCtx{ctx: variable.NewVariableContext(context.Background()),
		route: &route{rr: &routeRule{p: &policy{hp: &hashPolicy{e.rng.U64()}}}}}
	if tok >= 0 {
		lc.crit = router.NewMetadataMatchCriteriaImpl(map[string]string{"tok": fmt.Sprintf("t%d", tok)})
	}
	var h types.Host
	if msg, p := hx.Safe(func() { h = snap.LoadBalancer().ChooseHost(lc) }); p {
		_ = msg
		return fmt.Sprintf("panic#%d", snap.HostSet().Size())
	}
	return fmt.Sprintf("%s#%d", pubDescribe(h), snap.HostSet().Size())
}

func (e *pubEnv) published() string {
	snap := e.cm.GetClusterSnapshot(context.Background(), e.name)
	if snap == nil {
		return "nosnap"
	}
	var xs []string
	snap.HostSet().Range(func(h types.Host) bool {
		xs = append(xs, pubDescribe(h))
		return true
	})
	if len(xs) == 0 {
		return "-"
	}
	sort.Strings(xs) // addresses are single digits: string order = address order
	return strings.Join(xs, ",")
}

func pubSetHealth(a int, healthy bool) {
	p := cluster.GetHealthFlagPointer(pubAddr(a))
	cluster.ClearHealthFlag(p, api.FAILED_ACTIVE_HC)
	cluster.ClearHealthFlag(p, api.FAILED_OUTLIER_CHECK)
	if !healthy {
		cluster.SetHealthFlag(p, api.FAILED_ACTIVE_HC)
	}
}

type pubOp struct {
	kind  byte
	hosts []pubHost
	addrs []int
	a, v  int
}

func (o pubOp) String() string {
	switch o.kind {
	case 'U', 'u', 'A', 'a', 'H', 'h':
		return string(o.kind) + pubHostsTok(o.hosts)
	case 'R':
		if len(o.addrs) == 0 {
			return "R-"
		}
		var xs []string
		for _, a := range o.addrs {
			xs = append(xs, fmt.Sprint(a))
		}
		return "R" + strings.Join(xs, ",")
	case 'F':
		return fmt.Sprintf("F%d.%d", o.a, o.v)
	case 'M':
		return fmt.Sprintf("M%d", o.a)
	}
	return string(o.kind)
}

func runHops(c *hx.Ctx, pol string, typ types.LoadBalancerType, sub string, ops []pubOp) {
	configmanager.Reset()
	cluster.NewClusterManagerSingleton(nil, nil, nil).Destroy()
	cm := cluster.NewClusterManagerSingleton(nil, nil, nil)
	defer cm.Destroy()
	for a := 0; a < pubPool; a++ {
		pubSetHealth(a, true)
	}
	cfg := v2.Cluster{Name: "c05pub", LbType: v2.LbType(typ), ClusterType: v2.SIMPLE_CLUSTER}
	switch sub {
	case "s0":
		cfg.LBSubSetConfig = v2.LBSubsetConfig{FallBackPolicy: 0, SubsetSelectors: [][]string{{"tok"}}}
	case "s1":
		cfg.LBSubSetConfig = v2.LBSubsetConfig{FallBackPolicy: 1, SubsetSelectors: [][]string{{"tok"}}}
	}
	if err := cm.AddOrUpdatePrimaryCluster(cfg); err != nil {
		panic(err)
	}
	e := &pubEnv{cm: cm, name: cfg.Name, cfg: cfg, rng: c.Rng}
	var outs, toks []string
	// every publication (snapshot store into a cluster's cell, cluster store into clustersMap) calls back right after the
	// atomic step: what a reader sees in EVERY window of an update, also inside the real handlers and the closures
	var win []string
	recording := false
	cluster.VerifSetPublishHook(func(_ types.Cluster, site int) {
		if recording {
			win = append(win, fmt.Sprintf("%d:%s:%s", site, e.published(), e.lookup(-1)))
		}
	})
	defer cluster.VerifSetPublishHook(nil)
	for _, o := range ops {
		toks = append(toks, o.String())
		pre, post := "_", "_"
		win = nil
		recording = o.kind != 'F' && o.kind != 'L' && o.kind != 'M'
		hostWrap := func(real types.HostUpdateHandler) types.HostUpdateHandler {
			return func(cl types.Cluster, cfgs []v2.Host) {
				pre = e.lookup(-1)
				real(cl, cfgs)
				post = e.lookup(-1)
			}
		}
		var err error
		switch o.kind {
		case 'U':
			err = cm.UpdateHosts(e.name, pubCfgs(o.hosts), hostWrap(cluster.NewSimpleHostHandler))
		case 'u':
			err = cm.UpdateClusterHosts(e.name, pubCfgs(o.hosts))
		case 'A':
			err = cm.UpdateHosts(e.name, pubCfgs(o.hosts), hostWrap(cluster.AppendSimpleHostHandler))
		case 'a':
			err = cm.AppendClusterHosts(e.name, pubCfgs(o.hosts))
		case 'R':
			var as []string
			for _, a := range o.addrs {
				as = append(as, pubAddr(a))
			}
			err = cm.RemoveClusterHosts(e.name, as)
		case 'P':
			err = cm.UpdateCluster(cfg, func(oc, nc types.Cluster) {
				pre = e.lookup(-1)
				cluster.UpdateClusterResourceManagerHandler(oc, nc)
				cluster.CleanOldClusterHandler(oc, nc)
				cluster.InheritClusterHostsHandler(oc, nc)
				post = e.lookup(-1)
			})
		case 'p':
			err = cm.AddOrUpdatePrimaryCluster(cfg)
		case 'H':
			cfgs := pubCfgs(o.hosts)
			err = cm.UpdateCluster(cfg, func(oc, nc types.Cluster) {
				pre = e.lookup(-1)
				cluster.UpdateClusterResourceManagerHandler(oc, nc)
				cluster.CleanOldClusterHandler(oc, nc)
				cluster.NewSimpleHostHandler(nc, cfgs)
				post = e.lookup(-1)
			})
		case 'h':
			err = cm.AddOrUpdateClusterAndHost(cfg, pubCfgs(o.hosts))
		case 'F':
			pubSetHealth(o.a, o.v != 0)
			outs = append(outs, ".")
			continue
		case 'L':
			outs = append(outs, e.lookup(-1))
			continue
		case 'M':
			outs = append(outs, e.lookup(o.a))
			continue
		}
		recording = false
		if err != nil {
			outs = append(outs, "err")
			continue
		}
		w := "none"
		if len(win) > 0 {
			w = strings.Join(win, "|")
		}
		c.Count(fmt.Sprintf("hops.windows=%d", len(win)))
		outs = append(outs, pre+"/"+post+"/"+e.published()+"/"+w)
		c.Count("hops.updater=" + string(o.kind))
	}
	c.Emit("C05", fmt.Sprintf("hops %s/%s %s", pol, sub, strings.Join(toks, ";")), strings.Join(outs, ";"))
	c.Count("hops.sub=" + sub)
}

// pubGen draws an operation list. Tokens are numbered in order of supply; `live` tracks (per address) every token ever
// supplied, so that subset lookups ask for current AND for replaced (stale) markers.
type pubGen struct {
	r      *hx.Rng
	next   int
	byAddr map[int][]int
}

func (g *pubGen) hosts(minN, maxN int, dupPct int) []pubHost {
	n := minN + g.r.Intn(maxN-minN+1)
	var hs []pubHost
	for i := 0; i < n; i++ {
		a := g.r.Intn(pubPool)
		if len(hs) > 0 && g.r.Chance(dupPct) {
			a = hs[g.r.Intn(len(hs))].a // duplicate inside one call
		}
		g.next++
		hs = append(hs, pubHost{a: a, t: g.next, w: 1 + g.r.Intn(5)})
		g.byAddr[a] = append(g.byAddr[a], g.next)
	}
	return hs
}

func (g *pubGen) anyTok() int {
	if g.next == 0 {
		return 1
	}
	if g.r.Chance(10) {
		return g.next + 1 + g.r.Intn(3) // never supplied
	}
	return 1 + g.r.Intn(g.next)
}

func hopsCases(c *hx.Ctx) {
	subs := []string{"p", "p", "s0", "s1"}
	no := 0
	// (a) the deterministic core: for every policy and every updater, a populated cluster, the updater with lookups
	// inside, then lookups for the new and the replaced markers
	for _, p := range Policies {
		for _, k := range []byte{'U', 'u', 'A', 'a', 'R', 'P', 'p', 'H', 'h'} {
			for rep := 0; rep < c.N(2, 6); rep++ {
				no++
				sub := subs[no%len(subs)]
				g := &pubGen{r: c.Rng, byAddr: map[int][]int{}}
				ops := []pubOp{{kind: 'u', hosts: g.hosts(2, 5, 15)}}
				if c.Rng.Chance(30) {
					ops = append(ops, pubOp{kind: 'F', a: c.Rng.Intn(pubPool), v: 0})
				}
				o := pubOp{kind: k}
				switch k {
				case 'U', 'u', 'H', 'h':
					o.hosts = g.hosts(1, 5, 20)
				case 'A', 'a':
					// an address that already exists, with a new marker / weight (+ maybe others, + duplicates)
					o.hosts = g.hosts(0, 3, 25)
					ex := ops[0].hosts[c.Rng.Intn(len(ops[0].hosts))]
					g.next++
					nh := pubHost{a: ex.a, t: g.next, w: 1 + (ex.w+c.Rng.Intn(4))%5}
					g.byAddr[ex.a] = append(g.byAddr[ex.a], g.next)
					at := c.Rng.Intn(len(o.hosts) + 1)
					o.hosts = append(o.hosts[:at], append([]pubHost{nh}, o.hosts[at:]...)...)
				case 'R':
					for i := 0; i < 1+c.Rng.Intn(3); i++ {
						o.addrs = append(o.addrs, c.Rng.Intn(pubPool))
					}
				}
				ops = append(ops, o, pubOp{kind: 'L'})
				if sub != "p" {
					for i := 0; i < 3; i++ {
						ops = append(ops, pubOp{kind: 'M', a: g.anyTok()})
					}
					// the newest and the oldest marker of one address
					for a, ts := range g.byAddr {
						if len(ts) > 1 {
							ops = append(ops, pubOp{kind: 'M', a: ts[len(ts)-1]}, pubOp{kind: 'M', a: ts[0]})
							_ = a
							break
						}
					}
				}
				ops = append(ops, pubOp{kind: 'L'})
				runHops(c, p.Name, p.Type, sub, ops)
			}
		}
	}
	// (b) seeded histories
	for i := 0; i < c.N(400, 6000); i++ {
		p := Policies[c.Rng.Intn(len(Policies))]
		sub := subs[c.Rng.Intn(len(subs))]
		g := &pubGen{r: c.Rng, byAddr: map[int][]int{}}
		var ops []pubOp
		n := 3 + c.Rng.Intn(10)
		for j := 0; j < n; j++ {
			switch x := c.Rng.Intn(20); {
			case x < 2:
				ops = append(ops, pubOp{kind: "Uu"[c.Rng.Intn(2)], hosts: g.hosts(0, 5, 15)})
			case x < 6:
				ops = append(ops, pubOp{kind: "Aa"[c.Rng.Intn(2)], hosts: g.hosts(0, 4, 20)})
			case x < 8:
				o := pubOp{kind: 'R'}
				for k := 0; k < c.Rng.Intn(4); k++ {
					o.addrs = append(o.addrs, c.Rng.Intn(pubPool))
				}
				ops = append(ops, o)
			case x < 9:
				ops = append(ops, pubOp{kind: "Pp"[c.Rng.Intn(2)]})
			case x < 10:
				ops = append(ops, pubOp{kind: "Hh"[c.Rng.Intn(2)], hosts: g.hosts(0, 5, 15)})
			case x < 12:
				ops = append(ops, pubOp{kind: 'F', a: c.Rng.Intn(pubPool), v: c.Rng.Intn(2)})
			case x < 16 && sub != "p":
				ops = append(ops, pubOp{kind: 'M', a: g.anyTok()})
			default:
				ops = append(ops, pubOp{kind: 'L'})
			}
		}
		runHops(c, p.Name, p.Type, sub, ops)
	}
	// (c) malformed / boundary stream: empty lists, removal of everything, one address many times
	for _, p := range Policies {
		g := &pubGen{r: c.Rng, byAddr: map[int][]int{}}
		var many []pubHost
		for i := 0; i < 5; i++ {
			g.next++
			many = append(many, pubHost{a: 2, t: g.next, w: 1 + i})
		}
		runHops(c, p.Name, p.Type, "s0", []pubOp{{kind: 'L'}, {kind: 'A'}, {kind: 'U', hosts: many}, {kind: 'M', a: 1}, {kind: 'M', a: 5},
			{kind: 'a', hosts: many[3:]}, {kind: 'M', a: 4}, {kind: 'M', a: 1}, {kind: 'R', addrs: []int{2, 2}}, {kind: 'L'}, {kind: 'P'}, {kind: 'H'}, {kind: 'L'}})
		c.Count("hops.boundary")
	}
}
