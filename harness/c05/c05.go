//go:build verif

// Package c05: every load-balancing policy of pkg/upstream/cluster driven through the real cluster
// (NewCluster / UpdateHosts / Snapshot().LoadBalancer().ChooseHost) with injected random draws, injected round-robin
// start index, observed EDF service order, real health flags and real host gauges. One case = one operation list.
package c05

import (
	"bufio"
	"context"
	"fmt"
	"math/rand"
	"os"
	"path/filepath"
	"sort"
	"strconv"
	"strings"
	"sync"
	"sync/atomic"

	"github.com/trainyao/go-maglev"
	"mosn.io/api"
	v2 "mosn.io/mosn/pkg/config/v2"
	"mosn.io/mosn/pkg/log"
	"mosn.io/mosn/pkg/types"
	"mosn.io/mosn/pkg/upstream/cluster"
	"mosn.io/pkg/variable"
	"verif/harness/hx"
)

func init() { hx.Register("C05", Run) }

// Src is a scripted rand.Source: Int63 returns next()<<shift, so that rand.Intn(n) (shift 32) resp. rand.Uint32()
// (shift 31) returns exactly next() when next() < n. Every value handed out is recorded.
type Src struct {
	Shift uint
	Next  func() int64
	Used  []int64
}

func (s *Src) Int63() int64 {
	v := s.Next()
	s.Used = append(s.Used, v)
	return v << s.Shift
}
func (s *Src) Seed(int64) {}

const PoolSize = 16

func Addr(id int) string { return fmt.Sprintf("127.0.7.%d:8080", id+1) }

var Policies = []struct {
	Name string
	Type types.LoadBalancerType
}{
	{"rr", types.RoundRobin}, {"random", types.Random}, {"wrr", types.WeightedRoundRobin}, {"lr", types.LeastActiveRequest},
	{"lc", types.LeastActiveConnection}, {"reqrr", types.RequestRoundRobin}, {"maglev", types.Maglev}, {"ewma", types.PeakEwma},
	{"dflt", types.LoadBalancerType("LB_NOT_REGISTERED")}, // NewLoadBalancer falls back to round robin
}

type hashPolicy struct{ h uint64 }

func (p *hashPolicy) GenerateHash(context.Context) uint64 { return p.h }

type policy struct {
	api.Policy
	hp api.HashPolicy
}

func (p *policy) HashPolicy() api.HashPolicy { return p.hp }

type routeRule struct {
	api.RouteRule
	p *policy
}

func (r *routeRule) Policy() api.Policy { return r.p }

type route struct {
	api.Route
	rr api.RouteRule
}

func (r *route) RouteRule() api.RouteRule { return r.rr }

type lbCtx struct {
	types.LoadBalancerContext
	ctx   context.Context
	route api.Route
}

func (l *lbCtx) DownstreamContext() context.Context              { return l.ctx }
func (l *lbCtx) DownstreamRoute() api.Route                      { return l.route }
func (l *lbCtx) MetadataMatchCriteria() api.MetadataMatchCriteria { return nil }
func (l *lbCtx) DownstreamHeaders() api.HeaderMap                 { return nil }
func (l *lbCtx) DownstreamCluster() types.ClusterInfo             { return nil }

type HostSpec struct {
	ID int
	W  uint32
}

// Env is one real cluster of a given policy / choice count, plus the injected sources.
type Env struct {
	Pol     string
	Choice  int
	Cl      types.Cluster
	Info    types.ClusterInfo
	probes  [PoolSize]types.Host
	LbSrc   *Src
	FacSrc  *Src
	facRand *rand.Rand
	Cur     []HostSpec
	LB      types.LoadBalancer
	Trace   []int
	mtable  *maglev.Table
	Rng     *hx.Rng
	n       int
	idx     map[string]int
	script  []int64 // scripted draws of the balancer's rand (corpus replay); consumed before the seeded generator
	facScr  []int64 // scripted round-robin start draws
}

var envs = map[string]*Env{}

func GetEnv(pol string, typ types.LoadBalancerType, choice int, rng *hx.Rng) *Env {
	key := fmt.Sprintf("%s/%d", pol, choice)
	if e, ok := envs[key]; ok {
		e.Rng = rng
		return e
	}
	cc := v2.Cluster{Name: "c05_" + strings.ReplaceAll(key, "/", "_"), LbType: v2.LbType(typ), ClusterType: v2.SIMPLE_CLUSTER}
	if choice != 2 {
		ch := uint32(choice)
		cc.LbConfig = &v2.LbConfig{ChoiceCount: &ch}
	}
	e := &Env{Pol: pol, Choice: choice, Rng: rng}
	e.Cl = cluster.NewCluster(cc)
	e.Info = e.Cl.Snapshot().ClusterInfo()
	for i := 0; i < PoolSize; i++ {
		e.probes[i] = cluster.NewSimpleHost(v2.Host{HostConfig: v2.HostConfig{Address: Addr(i), Hostname: fmt.Sprintf("h%d", i), Weight: 1}}, e.Info)
	}
	e.LbSrc = &Src{Shift: 32, Next: func() int64 {
		if len(e.script) > 0 {
			v := e.script[0]
			e.script = e.script[1:]
			return v
		}
		if e.n <= 0 {
			return 0
		}
		return int64(e.Rng.Intn(e.n))
	}}
	e.FacSrc = &Src{Shift: 31, Next: func() int64 {
		if len(e.facScr) > 0 {
			v := e.facScr[0]
			e.facScr = e.facScr[1:]
			return v
		}
		switch e.Rng.Intn(8) {
		case 0:
			return int64(e.Rng.U64() & 0xffffffff)
		case 1:
			return 0xffffffff - int64(e.Rng.Intn(3))
		}
		return int64(e.Rng.Intn(64))
	}}
	e.facRand = rand.New(e.FacSrc)
	envs[key] = e
	return e
}

// Reset brings the shared per-address state (health flags, gauges) back to the defaults a model line starts from.
func (e *Env) Reset() {
	for i := 0; i < PoolSize; i++ {
		e.SetHealth(i, true, 0)
		e.SetReq(i, 0)
		e.SetConn(i, 0)
	}
}

func (e *Env) SetHealth(id int, healthy bool, which int) {
	p := cluster.GetHealthFlagPointer(Addr(id))
	cluster.ClearHealthFlag(p, api.FAILED_ACTIVE_HC)
	cluster.ClearHealthFlag(p, api.FAILED_OUTLIER_CHECK)
	if !healthy {
		if which%2 == 0 {
			cluster.SetHealthFlag(p, api.FAILED_ACTIVE_HC)
		} else {
			cluster.SetHealthFlag(p, api.FAILED_OUTLIER_CHECK)
		}
		if which%5 == 4 {
			cluster.SetHealthFlag(p, api.FAILED_ACTIVE_HC)
		}
	}
}

func (e *Env) SetReq(id int, v int) {
	c := e.probes[id].HostStats().UpstreamRequestActive
	c.Clear()
	c.Inc(int64(v))
}

func (e *Env) SetConn(id int, v int) {
	c := e.probes[id].HostStats().UpstreamConnectionActive
	c.Clear()
	c.Inc(int64(v))
}

func (e *Env) indexOf(addr string) int {
	if i, ok := e.idx[addr]; ok {
		return i
	}
	return -1
}

// IndexOf returns the position of a host in the current host set (-1: not there).
func (e *Env) IndexOf(h types.Host) int { return e.indexOf(h.AddressString()) }

func ints(xs []int64) string {
	if len(xs) == 0 {
		return "-"
	}
	p := make([]string, len(xs))
	for i, x := range xs {
		p[i] = strconv.FormatInt(x, 10)
	}
	return strings.Join(p, ",")
}

func intsI(xs []int) string {
	if len(xs) == 0 {
		return "-"
	}
	p := make([]string, len(xs))
	for i, x := range xs {
		p[i] = strconv.Itoa(x)
	}
	return strings.Join(p, ",")
}

// Replace publishes a new host set through the real cluster and returns the `S…` operation token.
func (e *Env) Replace(hs []HostSpec) string {
	var hosts []types.Host
	var parts, names []string
	for _, h := range hs {
		hosts = append(hosts, cluster.NewSimpleHost(v2.Host{HostConfig: v2.HostConfig{Address: Addr(h.ID), Hostname: fmt.Sprintf("h%d", h.ID), Weight: h.W}}, e.Info))
		parts = append(parts, fmt.Sprintf("%d.%d", h.ID, h.W))
		names = append(names, Addr(h.ID))
	}
	e.Cur = append([]HostSpec{}, hs...)
	e.n = len(hs)
	e.idx = map[string]int{}
	for i, h := range hs {
		e.idx[Addr(h.ID)] = i
	}
	old := cluster.VerifSetRRFactoryRand(e.facRand)
	e.FacSrc.Used = nil
	e.Cl.UpdateHosts(cluster.NewHostSet(hosts))
	cluster.VerifSetRRFactoryRand(old)
	snap := e.Cl.Snapshot()
	e.LB = snap.LoadBalancer()
	rr0 := int64(0)
	if len(e.FacSrc.Used) > 0 {
		rr0 = e.FacSrc.Used[0]
	}
	var pre []int
	if cluster.VerifSetLBRand(e.LB, rand.New(e.LbSrc)) {
		e.Trace = nil
		cluster.VerifEdfObserve(e.LB, func(item cluster.WeightItem) {
			e.Trace = append(e.Trace, e.indexOf(item.(types.Host).AddressString()))
		})
		e.LbSrc.Used = nil
		if cluster.VerifEdfRebuild(e.LB, e.Info) && cluster.VerifEdfHasScheduler(e.LB) {
			// the observer first sees one weight evaluation per host (Add phase), then the warm-up picks
			if len(e.Trace) >= len(hs) {
				pre = e.Trace[len(hs):]
			}
			for i := range pre {
				if pre[i] < 0 {
					pre[i] = 99 // not a host of the published set: the model will not follow it
				}
			}
		}
	}
	e.mtable = nil
	if len(names) > 0 && e.Pol == "maglev" {
		e.mtable = maglev.New(names, maglev.SmallM)
	}
	hl := "-"
	if len(parts) > 0 {
		hl = strings.Join(parts, ",")
	}
	return fmt.Sprintf("S%s|%d|%s", hl, rr0, intsI(pre))
}

// Choose performs one lookup. re: "u" unset, "b" non-numeric, or a number (value of upstream_index before the call);
// withRoute=false leaves the route (hash policy) out. Returns the operation token, the result token and the value of
// upstream_index after the call.
func (e *Env) Choose(re string, withRoute bool) (string, string, string) {
	return e.ChooseT(re, withRoute, -1)
}

// ChooseT is Choose with a wanted maglev table index (>= 0: a hash with that lookup result is searched).
func (e *Env) ChooseT(re string, withRoute bool, wantTable int) (string, string, string) {
	ctx := variable.NewVariableContext(context.Background())
	switch re {
	case "u":
	case "b":
		variable.SetString(ctx, cluster.VarProxyUpstreamIndex, "x")
	default:
		variable.SetString(ctx, cluster.VarProxyUpstreamIndex, re)
	}
	lc := &lbCtx{ctx: ctx}
	table := "-"
	if withRoute {
		h := e.Rng.U64()
		if wantTable >= 0 && e.mtable != nil {
			for k := uint64(0); k < 100000; k++ {
				if e.mtable.Lookup(k) == wantTable {
					h = k
					break
				}
			}
		}
		lc.route = &route{rr: &routeRule{p: &policy{hp: &hashPolicy{h}}}}
		if e.Pol == "maglev" && e.mtable != nil {
			table = strconv.Itoa(e.mtable.Lookup(h))
		}
	}
	e.LbSrc.Used = nil
	e.Trace = nil
	var host types.Host
	if msg, p := hx.Safe(func() { host = e.Cl.Snapshot().LoadBalancer().ChooseHost(lc) }); p {
		return fmt.Sprintf("C%s|%s|%s|%s", ints(e.LbSrc.Used), intsI(e.Trace), re, table), "panic:" + hx.Tok(msg), "-"
	}
	res := "-"
	if host != nil {
		res = host.Hostname()
		if i := e.indexOf(host.AddressString()); i < 0 || host != e.Cl.Snapshot().HostSet().Get(i) {
			res = "stale:" + res // not an element of the current host set
		}
	}
	after := "-"
	if v, err := variable.GetString(ctx, cluster.VarProxyUpstreamIndex); err == nil {
		after = v
	}
	if e.Pol == "reqrr" || e.Pol == "maglev" {
		res += "@" + after
	}
	return fmt.Sprintf("C%s|%s|%s|%s", ints(e.LbSrc.Used), intsI(e.Trace), re, table), res, after
}

var weightPool = []int{1, 2, 3, 128}
var weightEdge = []int{0, 1, 2, 3, 127, 128, 129, 1000}

func genHosts(r *hx.Rng, n int, mode int) []HostSpec {
	perm := r.Fork()
	ids := make([]int, PoolSize)
	for i := range ids {
		ids[i] = i
	}
	for i := PoolSize - 1; i > 0; i-- {
		j := perm.Intn(i + 1)
		ids[i], ids[j] = ids[j], ids[i]
	}
	hs := make([]HostSpec, n)
	for i := 0; i < n; i++ {
		w := 1
		switch mode {
		case 0: // all equal (no EDF scheduler)
			w = 1
		case 1:
			w = r.Pick(weightPool)
		default:
			w = r.Pick(weightEdge)
		}
		hs[i] = HostSpec{ids[i], uint32(w)}
	}
	if mode == 0 && n > 0 && r.Chance(30) {
		w := uint32(r.Pick(weightPool))
		for i := range hs {
			hs[i].W = w
		}
	}
	return hs
}

func (e *Env) nextRe(last string) string {
	if e.Pol != "reqrr" && e.Pol != "maglev" {
		if e.Rng.Chance(90) {
			return "u"
		}
	}
	switch x := e.Rng.Intn(10); {
	case x < 4:
		return "u"
	case x < 7:
		if last != "-" && last != "x" {
			return last // retry of the previous request
		}
		return "u"
	case x < 9:
		return strconv.Itoa(e.Rng.Intn(12))
	}
	return "b"
}

type caseBuf struct {
	ops, res []string
}

func (b *caseBuf) emit(c *hx.Ctx, e *Env) {
	r := "-"
	if len(b.res) > 0 {
		r = strings.Join(b.res, ",")
	}
	c.Emit("C05", fmt.Sprintf("seq %s/%d %s", e.Pol, e.Choice, strings.Join(b.ops, ";")), r)
}

func (b *caseBuf) choose(c *hx.Ctx, e *Env, last *string) {
	op, res, after := e.Choose(e.nextRe(*last), e.Rng.Chance(93))
	*last = after
	b.ops = append(b.ops, op)
	b.res = append(b.res, res)
	c.Count("choose." + e.Pol)
	if strings.HasPrefix(res, "-") {
		c.Count("result.none")
	} else {
		c.Count("result.host")
	}
	f := strings.Split(op[1:], "|")
	c.Count(fmt.Sprintf("draws_consumed=%d", strings.Count(f[0], ",")+b2i(f[0] != "-")))
	if f[1] != "-" {
		c.Count(fmt.Sprintf("edf_picks_in_call=%d", strings.Count(f[1], ",")+1))
	}
}

func b2i(b bool) int {
	if b {
		return 1
	}
	return 0
}

func choiceFor(r *hx.Rng, pol string) int {
	if pol == "lr" || pol == "lc" || pol == "ewma" {
		switch r.Intn(10) {
		case 0:
			return 1
		case 1:
			return 3
		case 2:
			return 0
		case 3:
			return 8
		}
	}
	return 2
}

// enumerate: every health subset of n hosts for one policy / weight mode, a few lookups each.
func enumerate(c *hx.Ctx, polIdx int, n int, mode int, lookups int) {
	p := Policies[polIdx]
	for mask := 0; mask < 1<<uint(n); mask++ {
		e := GetEnv(p.Name, p.Type, choiceFor(c.Rng, p.Name), c.Rng)
		e.Reset()
		b := &caseBuf{}
		hs := genHosts(c.Rng, n, mode)
		if p.Name == "lr" || p.Name == "lc" || p.Name == "ewma" {
			for _, h := range hs {
				if c.Rng.Chance(40) {
					v := c.Rng.Intn(4)
					e.SetReq(h.ID, v)
					e.SetConn(h.ID, 3-v)
					b.ops = append(b.ops, fmt.Sprintf("R%d.%d", h.ID, v), fmt.Sprintf("N%d.%d", h.ID, 3-v))
				}
			}
		}
		for i, h := range hs {
			if mask&(1<<uint(i)) == 0 {
				e.SetHealth(h.ID, false, i+mask)
				b.ops = append(b.ops, fmt.Sprintf("F%d.0", h.ID))
			}
		}
		b.ops = append(b.ops, e.Replace(hs))
		last := "-"
		for k := 0; k < lookups; k++ {
			b.choose(c, e, &last)
		}
		b.emit(c, e)
		c.Count(fmt.Sprintf("enum.n=%d", n))
	}
}

func randomCase(c *hx.Ctx) {
	r := c.Rng
	pi := r.Intn(len(Policies))
	p := Policies[pi]
	e := GetEnv(p.Name, p.Type, choiceFor(r, p.Name), r)
	e.Reset()
	b := &caseBuf{}
	n := r.Intn(9)
	if r.Chance(10) {
		n = 9 + r.Intn(4)
	}
	b.ops = append(b.ops, e.Replace(genHosts(r, n, r.Intn(3))))
	nops := 6 + r.Intn(30)
	last := "-"
	for k := 0; k < nops; k++ {
		switch x := r.Intn(100); {
		case x < 55:
			b.choose(c, e, &last)
		case x < 75: // health flip of a pool host (mostly one of the current set)
			id := r.Intn(PoolSize)
			if len(e.Cur) > 0 && r.Chance(85) {
				id = e.Cur[r.Intn(len(e.Cur))].ID
			}
			healthy := r.Chance(45)
			e.SetHealth(id, healthy, r.Intn(10))
			b.ops = append(b.ops, fmt.Sprintf("F%d.%d", id, b2i(healthy)))
			c.Count("op.flip")
		case x < 85: // gauges
			id := r.Intn(PoolSize)
			if len(e.Cur) > 0 && r.Chance(85) {
				id = e.Cur[r.Intn(len(e.Cur))].ID
			}
			v := r.Intn(6)
			if r.Bool() {
				e.SetReq(id, v)
				b.ops = append(b.ops, fmt.Sprintf("R%d.%d", id, v))
			} else {
				e.SetConn(id, v)
				b.ops = append(b.ops, fmt.Sprintf("N%d.%d", id, v))
			}
			c.Count("op.gauge")
		case x < 93: // host-set replacement
			m := r.Intn(9)
			b.ops = append(b.ops, e.Replace(genHosts(r, m, r.Intn(3))))
			c.Count("op.replace")
		default: // cursor of the round-robin balancer, including the uint32 wrap
			v := uint32(r.Intn(40))
			if r.Chance(40) {
				v = 0xffffffff - uint32(r.Intn(12))
			}
			if cluster.VerifSetRRIndex(e.LB, v) {
				b.ops = append(b.ops, fmt.Sprintf("X%d", v))
				c.Count("op.cursor")
			}
		}
	}
	b.emit(c, e)
	c.Count(fmt.Sprintf("random.n=%d", n))
}

// wrapCases: the uint32 cursor of the round-robin balancer wraps in the middle of the first pass (the index sequence
// then jumps when the host count does not divide 2^32, so the first pass can miss hosts and the second pass of issue 1663
// decides): every n <= 8, every single healthy host, every cursor offset around the wrap.
func wrapCases(c *hx.Ctx) {
	for _, pn := range []string{"rr", "random", "wrr", "ewma"} {
		var p = Policies[0]
		for _, q := range Policies {
			if q.Name == pn {
				p = q
			}
		}
		maxN := 8
		if pn != "rr" {
			maxN = 5
		}
		for n := 2; n <= maxN; n++ {
			for healthy := 0; healthy < n; healthy++ {
				e := GetEnv(p.Name, p.Type, 2, c.Rng)
				e.Reset()
				b := &caseBuf{}
				hs := genHosts(c.Rng, n, 0)
				for i, h := range hs {
					if i != healthy {
						e.SetHealth(h.ID, false, i)
						b.ops = append(b.ops, fmt.Sprintf("F%d.0", h.ID))
					}
				}
				b.ops = append(b.ops, e.Replace(hs))
				last := "-"
				for off := 0; off <= n+1; off++ {
					v := uint32(0xffffffff) - uint32(off)
					if cluster.VerifSetRRIndex(e.LB, v) {
						b.ops = append(b.ops, fmt.Sprintf("X%d", v))
					}
					b.choose(c, e, &last)
				}
				b.emit(c, e)
				c.Count("wrap.cases")
			}
		}
	}
}

func parseInts(s string) []int64 {
	if s == "-" || s == "" {
		return nil
	}
	var out []int64
	for _, t := range strings.Split(s, ",") {
		v, err := strconv.ParseInt(t, 10, 64)
		if err != nil {
			panic("corpus: bad integer " + t)
		}
		out = append(out, v)
	}
	return out
}

// replayLine re-executes a recorded case line (`C05 seq <pol>/<choice> <ops>[ => …]`) on the real code with the
// recorded draws / start indices / re-entry values / table indices, and emits the line as observed now.
func replayLine(c *hx.Ctx, line string) {
	f := strings.Fields(line)
	if len(f) < 4 || f[0] != "C05" || f[1] != "seq" {
		return
	}
	pc := strings.Split(f[2], "/")
	choice, _ := strconv.Atoi(pc[1])
	var p = Policies[0]
	found := false
	for _, q := range Policies {
		if q.Name == pc[0] {
			p, found = q, true
		}
	}
	if !found {
		return
	}
	e := GetEnv(p.Name, p.Type, choice, c.Rng)
	e.Reset()
	b := &caseBuf{}
	for _, op := range strings.Split(f[3], ";") {
		arg := op[1:]
		switch op[0] {
		case 'S':
			parts := strings.Split(arg, "|")
			var hs []HostSpec
			if parts[0] != "-" {
				for _, t := range strings.Split(parts[0], ",") {
					iw := strings.Split(t, ".")
					id, _ := strconv.Atoi(iw[0])
					w, _ := strconv.ParseUint(iw[1], 10, 32)
					hs = append(hs, HostSpec{id, uint32(w)})
				}
			}
			e.facScr = parseInts(parts[1])
			e.script = []int64{int64(len(parseInts(parts[2])))}
			b.ops = append(b.ops, e.Replace(hs))
			e.facScr, e.script = nil, nil
		case 'F', 'R', 'N':
			iv := strings.Split(arg, ".")
			id, _ := strconv.Atoi(iv[0])
			v, _ := strconv.Atoi(iv[1])
			switch op[0] {
			case 'F':
				e.SetHealth(id, v != 0, id)
			case 'R':
				e.SetReq(id, v)
			default:
				e.SetConn(id, v)
			}
			b.ops = append(b.ops, op)
		case 'X':
			v, _ := strconv.ParseUint(arg, 10, 32)
			if cluster.VerifSetRRIndex(e.LB, uint32(v)) {
				b.ops = append(b.ops, op)
			}
		case 'C':
			parts := strings.Split(arg, "|")
			e.script = parseInts(parts[0])
			want := -1
			if parts[3] != "-" {
				want, _ = strconv.Atoi(parts[3])
			}
			o, res, _ := e.ChooseT(parts[2], parts[3] != "-" || p.Name != "maglev", want)
			e.script = nil
			b.ops = append(b.ops, o)
			b.res = append(b.res, res)
		}
	}
	b.emit(c, e)
	c.Count("corpus.lines")
}

// corpus replays corpus/C05/*.txt (minimised past failures) first.
func corpus(c *hx.Ctx) {
	wd, _ := os.Getwd()
	var files []string
	for _, d := range []string{filepath.Join(wd, "..", "..", "corpus", "C05"), filepath.Join(wd, "corpus", "C05")} {
		m, _ := filepath.Glob(filepath.Join(d, "*.txt"))
		files = append(files, m...)
	}
	sort.Strings(files)
	for _, fn := range files {
		fh, err := os.Open(fn)
		if err != nil {
			continue
		}
		sc := bufio.NewScanner(fh)
		sc.Buffer(make([]byte, 1<<20), 1<<24)
		for sc.Scan() {
			line := strings.TrimSpace(sc.Text())
			if line == "" || strings.HasPrefix(line, "#") {
				continue
			}
			replayLine(c, line)
		}
		fh.Close()
	}
}

// concurrent: lookups racing with host-set replacements (support only: thread timing is not controlled).
// A lookup takes one snapshot; the returned host must be an element of THAT snapshot's host set (entirely the old or
// entirely the new set) and healthy (all hosts are healthy). One line per policy: `conc <pol> <lookups> <updates> => <bad>`.
func concurrent(c *hx.Ctx) {
	lookers, perLooker, updates := 4, c.N(1000, 6000), c.N(100, 600)
	for _, p := range Policies {
		e := GetEnv(p.Name, p.Type, 2, c.Rng)
		e.Reset()
		sets := [2][]types.Host{}
		for k := 0; k < 2; k++ {
			for i := 0; i < 4+k; i++ {
				id := k*6 + i
				sets[k] = append(sets[k], cluster.NewSimpleHost(v2.Host{HostConfig: v2.HostConfig{Address: Addr(id), Hostname: fmt.Sprintf("h%d", id), Weight: uint32(1 + i%3)}}, e.Info))
			}
		}
		e.Cl.UpdateHosts(cluster.NewHostSet(sets[0]))
		var bad int64
		var wg sync.WaitGroup
		stop := make(chan struct{})
		wg.Add(1)
		go func() {
			defer wg.Done()
			for u := 0; u < updates; u++ {
				e.Cl.UpdateHosts(cluster.NewHostSet(sets[(u+1)%2]))
			}
			close(stop)
		}()
		for l := 0; l < lookers; l++ {
			wg.Add(1)
			seed := c.Rng.U64()
			go func() {
				defer wg.Done()
				r := hx.NewRng(seed)
				for k := 0; k < perLooker; k++ {
					snap := e.Cl.Snapshot()
					lc := &lbCtx{ctx: variable.NewVariableContext(context.Background()),
						route: &route{rr: &routeRule{p: &policy{hp: &hashPolicy{r.U64()}}}}}
					var h types.Host
					if _, p := hx.Safe(func() { h = snap.LoadBalancer().ChooseHost(lc) }); p || h == nil || !h.Health() {
						atomic.AddInt64(&bad, 1)
						continue
					}
					member := false
					snap.HostSet().Range(func(x types.Host) bool {
						if x == h {
							member = true
							return false
						}
						return true
					})
					if !member {
						atomic.AddInt64(&bad, 1)
					}
				}
			}()
		}
		wg.Wait()
		<-stop
		c.Emit("C05", fmt.Sprintf("conc %s %d %d", p.Name, lookers*perLooker, updates), strconv.FormatInt(bad, 10))
		c.Count("conc.policies")
	}
}

func Run(c *hx.Ctx) {
	// hx.NewRng(seed) yields the same splitmix sequence shifted by the seed; hash the seed so that seeds are unrelated
	c.Rng = c.Rng.Fork()
	log.DefaultLogger.SetLogLevel(log.FATAL)
	log.Proxy.SetLogLevel(log.FATAL)
	corpus(c)
	maxN := 6
	lookups := c.N(3, 8)
	for pi := range Policies {
		for n := 0; n <= maxN; n++ {
			for mode := 0; mode < 2; mode++ {
				enumerate(c, pi, n, mode, lookups)
			}
		}
		if c.Thorough() {
			enumerate(c, pi, 7, 1, 4)
			enumerate(c, pi, 8, 2, 4)
		}
	}
	wrapCases(c)
	for i := 0; i < c.N(3000, 40000); i++ {
		randomCase(c)
	}
	snapshotCases(c)
	concurrent(c)
	hopsCases(c)
	plkCases(c)
}
