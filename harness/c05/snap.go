//go:build verif

package c05

import (
	"context"
	"fmt"

	v2 "mosn.io/mosn/pkg/config/v2"
	"mosn.io/mosn/pkg/types"
	"mosn.io/mosn/pkg/upstream/cluster"
	"mosn.io/pkg/variable"
	"verif/harness/hx"
)

// snapshotCases: ONE lookup written out in its steps (L = Snapshot(), G = .LoadBalancer(), C = .ChooseHost, H = .HostSet())
// with ONE host-set replacement (U = UpdateHosts) placed deterministically between two of them on the real cluster — and,
// for the balancers that run an EDF scheduler, INSIDE ChooseHost (`c`: UpdateHosts is called from the gate hook at the
// scheduler's weight callback, i.e. while the lookup is between peek and fix). The old and the new host set have
// disjoint addresses. Output: which set the returned host belongs to (o/n), which set object the lookup's HostSet() is
// (o/n), whether the host is an element of that set, whether it is healthy.
// Line: `snap <pol> <interleaving> => <lb set><host set><member><healthy>`.
func snapshotCases(c *hx.Ctx) {
	inters := []string{"ULGCH", "LUGCH", "LGUCH", "LGCUH", "LGCHU", "LGcH"}
	for _, p := range Policies {
		for _, in := range inters {
			for rep := 0; rep < c.N(1, 4); rep++ {
				snapshotCase(c, p.Name, p.Type, in)
			}
		}
	}
}

func snapshotCase(c *hx.Ctx, pol string, typ types.LoadBalancerType, in string) {
	e := GetEnv(pol, typ, 2, c.Rng)
	e.Reset()
	r := c.Rng
	// two host sets with disjoint addresses; weights unequal (an EDF scheduler exists for the EDF based policies);
	// at most one unhealthy host per set, never all
	var sets [2][]types.Host
	var objs [2]types.HostSet
	addrSet := [2]map[string]bool{{}, {}}
	for k := 0; k < 2; k++ {
		n := 2 + r.Intn(4)
		sick := -1
		if r.Chance(50) {
			sick = r.Intn(n)
		}
		for i := 0; i < n; i++ {
			id := k*6 + i
			sets[k] = append(sets[k], cluster.NewSimpleHost(v2.Host{HostConfig: v2.HostConfig{Address: Addr(id),
				Hostname: fmt.Sprintf("h%d", id), Weight: uint32(1 + (i+k)%3)}}, e.Info))
			addrSet[k][Addr(id)] = true
			if i == sick {
				e.SetHealth(id, false, i)
			}
		}
		objs[k] = cluster.NewHostSet(sets[k])
	}
	e.Cl.UpdateHosts(objs[0])
	lc := &lbCtx{ctx: variable.NewVariableContext(context.Background()),
		route: &route{rr: &routeRule{p: &policy{hp: &hashPolicy{r.U64()}}}}}
	var snap types.ClusterSnapshot
	var lb types.LoadBalancer
	var host types.Host
	var hs types.HostSet
	inside := false
	for _, ch := range in {
		switch ch {
		case 'U':
			e.Cl.UpdateHosts(objs[1])
		case 'L':
			snap = e.Cl.Snapshot()
		case 'G':
			lb = snap.LoadBalancer()
		case 'C':
			host = lb.ChooseHost(lc)
		case 'c':
			done := false
			remove, ok := cluster.VerifEdfGate(lb, func(cluster.WeightItem) {
				if !done {
					done = true
					e.Cl.UpdateHosts(objs[1])
				}
			})
			host = lb.ChooseHost(lc)
			remove()
			if !ok || !done {
				// no EDF scheduler in this policy / it was not consulted: the replacement happens right after the choice
				e.Cl.UpdateHosts(objs[1])
			} else {
				inside = true
			}
		case 'H':
			hs = snap.HostSet()
		}
	}
	lbv, hsv, member, healthy := byte('?'), byte('?'), byte('0'), byte('0')
	if host != nil {
		switch {
		case addrSet[0][host.AddressString()]:
			lbv = 'o'
		case addrSet[1][host.AddressString()]:
			lbv = 'n'
		}
		if host.Health() {
			healthy = '1'
		}
	}
	switch hs {
	case objs[0]:
		hsv = 'o'
	case objs[1]:
		hsv = 'n'
	}
	if hs != nil && host != nil {
		hs.Range(func(x types.Host) bool {
			if x == host {
				member = '1'
				return false
			}
			return true
		})
	}
	c.Emit("C05", fmt.Sprintf("snap %s %s", pol, in), string([]byte{lbv, hsv, member, healthy}))
	c.Count("snap.interleaving=" + in)
	if in == "LGcH" {
		if inside {
			c.Count("snap.update_inside_choosehost")
		} else {
			c.Count("snap.update_inside_choosehost.no_scheduler")
		}
	}
	// leave the env on a host set its bookkeeping knows
	e.Reset()
	e.Replace(nil)
}
