//go:build verif

// Package framegen builds valid wire frames of the five xprotocols (bolt, boltv2, dubbo, dubbothrift, tars) for the
// framing checks (C07 segmentation independence, C08 malformed input), and exposes the real codecs and matchers.
package framegen

import (
	"bytes"
	"context"
	"encoding/binary"
	"sync"

	"github.com/TarsCloud/TarsGo/tars/protocol/codec"
	"github.com/TarsCloud/TarsGo/tars/protocol/res/requestf"
	hessian "github.com/apache/dubbo-go-hessian2"
	"mosn.io/api"
	"mosn.io/mosn/pkg/protocol/xprotocol"
	"mosn.io/mosn/pkg/protocol/xprotocol/bolt"
	"mosn.io/mosn/pkg/protocol/xprotocol/boltv2"
	"mosn.io/mosn/pkg/protocol/xprotocol/dubbo"
	"mosn.io/mosn/pkg/protocol/xprotocol/dubbothrift"
	"mosn.io/mosn/pkg/protocol/xprotocol/tars"
	xstream "mosn.io/mosn/pkg/stream/xprotocol"
	"mosn.io/mosn/pkg/types"
	"mosn.io/pkg/buffer"
	"mosn.io/pkg/variable"
	"verif/harness/hx"
)

// Protos in the order used everywhere; the names are the tokens of the case lines.
var Protos = []string{"bolt", "boltv2", "dubbo", "thrift", "tars"}

var once sync.Once

// Codec returns the real codec of a protocol token (registering all codecs on first use, which bolt<->boltv2
// delegation needs).
func Codec(name string) api.XProtocolCodec {
	once.Do(func() {
		xprotocol.RegisterXProtocolAction(xstream.NewConnPool, xstream.NewStreamFactory, func(codec api.XProtocolCodec) {})
		for _, c := range []api.XProtocolCodec{&bolt.XCodec{}, &boltv2.XCodec{}, &dubbo.XCodec{}, &dubbothrift.XCodec{}, &tars.XCodec{}} {
			_ = xprotocol.RegisterXProtocolCodec(c)
		}
	})
	switch name {
	case "bolt":
		return &bolt.XCodec{}
	case "boltv2":
		return &boltv2.XCodec{}
	case "dubbo":
		return &dubbo.XCodec{}
	case "thrift":
		return &dubbothrift.XCodec{}
	case "tars":
		return &tars.XCodec{}
	}
	panic("unknown protocol " + name)
}

// Ctx is the context the decoders need.
func Ctx() context.Context {
	return buffer.NewBufferPoolContext(variable.NewVariableContext(context.Background()))
}

// LenField describes one length field of a frame (for single-field corruption).
type LenField struct {
	Name  string
	Off   int
	Width int
	Value uint64
}

// Frame is one generated wire frame.
type Frame struct {
	Proto  string
	Kind   string // req | oneway | resp | hb | event
	Bytes  []byte
	Fields []LenField
}

func str32(s []byte) []byte {
	b := make([]byte, 4+len(s))
	binary.BigEndian.PutUint32(b, uint32(len(s)))
	copy(b[4:], s)
	return b
}

// KV encodes a bolt header block.
func KV(pairs [][2][]byte) []byte {
	var b []byte
	for _, p := range pairs {
		b = append(b, str32(p[0])...)
		b = append(b, str32(p[1])...)
	}
	return b
}

func randKV(r *hx.Rng, maxPairs, maxLen int) []byte {
	n := r.Intn(maxPairs + 1)
	var ps [][2][]byte
	for i := 0; i < n; i++ {
		k := []byte("k" + string(rune('a'+r.Intn(26))))
		if r.Chance(10) {
			k = nil
		}
		v := r.Bytes(r.Intn(maxLen + 1))
		ps = append(ps, [2][]byte{k, v})
	}
	return KV(ps)
}

func pickLen(r *hx.Rng, small bool) int {
	if small {
		return r.Pick([]int{0, 0, 1, 2, 3, 5, 8, 13, 21, 34})
	}
	return r.Pick([]int{0, 1, 2, 7, 60, 254, 255, 256, 257, 1000, 4096, 65534, 65535, 65536, 70000})
}

// Bolt builds a bolt (v2=false) or boltv2 (v2=true) frame.
func Bolt(r *hx.Rng, v2 bool, small bool) Frame {
	kind := r.PickS([]string{"req", "req", "oneway", "resp", "hb"})
	class := r.Bytes(pickLen(r, true))
	hdr := randKV(r, 4, 12)
	if !small && r.Chance(30) {
		hdr = randKV(r, 40, 300)
	}
	content := r.Bytes(pickLen(r, small))
	if len(class) > 65535 {
		class = class[:65535]
	}
	if len(hdr) > 65535 {
		hdr = hdr[:0]
	}
	cmdType := map[string]byte{"req": 1, "hb": 1, "oneway": 2, "resp": 0}[kind]
	cmdCode := uint16(1)
	if kind == "resp" {
		cmdCode = 2
	}
	if kind == "hb" {
		cmdCode = 0
		class, hdr, content = nil, nil, nil
	}
	var b []byte
	put16 := func(v uint16) { b = append(b, byte(v>>8), byte(v)) }
	put32 := func(v uint32) { b = append(b, byte(v>>24), byte(v>>16), byte(v>>8), byte(v)) }
	proto := "bolt"
	if v2 {
		proto = "boltv2"
		b = append(b, 2, 1) // proto, ver1
	} else {
		b = append(b, 1)
	}
	b = append(b, cmdType)
	put16(cmdCode)
	b = append(b, 1) // ver2
	put32(uint32(r.U64()))
	b = append(b, 1) // codec
	if v2 {
		b = append(b, 0) // switch
	}
	if kind == "resp" {
		put16(uint16(r.Pick([]int{0, 0, 1, 7, 9})))
	} else {
		put32(uint32(r.Pick([]int{0, 1000, 3000})))
	}
	off := len(b)
	put16(uint16(len(class)))
	put16(uint16(len(hdr)))
	put32(uint32(len(content)))
	b = append(b, class...)
	b = append(b, hdr...)
	b = append(b, content...)
	return Frame{Proto: proto, Kind: kind, Bytes: b, Fields: []LenField{
		{"classLen", off, 2, uint64(len(class))}, {"headerLen", off + 2, 2, uint64(len(hdr))}, {"contentLen", off + 4, 4, uint64(len(content))}}}
}

// Dubbo builds a dubbo request (hessian2 service metadata), response or heartbeat event.
func Dubbo(r *hx.Rng, small bool) Frame {
	kind := r.PickS([]string{"req", "req", "resp", "event"})
	var payload []byte
	flag := byte(2) // hessian2 serialization id
	switch kind {
	case "req":
		flag |= 0x80 | 0x40
		e := hessian.NewEncoder()
		e.Encode("2.0.2")
		e.Encode("com.test.Svc" + string(rune('A'+r.Intn(26))))
		e.Encode("1.0." + string(rune('0'+r.Intn(10))))
		e.Encode("method" + string(rune('a'+r.Intn(26))))
		e.Encode("")
		payload = append(payload, e.Buffer()...)
		payload = append(payload, r.Bytes(pickLen(r, small))...)
	case "resp":
		payload = r.Bytes(pickLen(r, small))
	case "event":
		flag |= 0x80 | 0x40 | 0x20
		payload = []byte{'N'}
	}
	b := make([]byte, 16, 16+len(payload))
	b[0], b[1], b[2] = 0xda, 0xbb, flag
	if kind == "resp" {
		b[3] = 20
	}
	binary.BigEndian.PutUint64(b[4:], r.U64())
	binary.BigEndian.PutUint32(b[12:], uint32(len(payload)))
	b = append(b, payload...)
	return Frame{Proto: "dubbo", Kind: kind, Bytes: b, Fields: []LenField{{"dataLen", 12, 4, uint64(len(payload))}}}
}

// Thrift builds a dubbothrift frame (request or response).
func Thrift(r *hx.Rng, small bool) Frame {
	kind := r.PickS([]string{"req", "resp"})
	svc := []byte("com.pkg.test.Svc" + string(rune('A'+r.Intn(26))))
	var msg bytes.Buffer
	msg.Write([]byte{0xda, 0xbc})
	msg.Write([]byte{0, 0, 0, 0}) // message length, patched
	msg.Write([]byte{0, 0})       // header length, patched
	msg.WriteByte(1)
	msg.Write(str32(svc))
	id := make([]byte, 8)
	binary.BigEndian.PutUint64(id, r.U64()>>1)
	msg.Write(id)
	headerLen := msg.Len()
	mt := byte(1)
	if kind == "resp" {
		mt = 2
	}
	msg.Write([]byte{0x80, 0x01, 0x00, mt})
	msg.Write(str32([]byte("method" + string(rune('a'+r.Intn(26))))))
	msg.Write([]byte{0, 0, 0, byte(r.Intn(100))})
	msg.Write(r.Bytes(pickLen(r, small)))
	m := msg.Bytes()
	binary.BigEndian.PutUint32(m[2:], uint32(len(m)))
	binary.BigEndian.PutUint16(m[6:], uint16(headerLen))
	b := make([]byte, 4, 4+len(m))
	binary.BigEndian.PutUint32(b, uint32(len(m)))
	b = append(b, m...)
	return Frame{Proto: "thrift", Kind: kind, Bytes: b, Fields: []LenField{
		{"messageSize", 0, 4, uint64(len(m))}, {"messageLen2", 6, 4, uint64(len(m))}, {"headerLen", 10, 2, uint64(headerLen)}}}
}

// Tars builds a tars request or response package with TarsGo's own writer. iRet is 0 or >= 32768: getStreamType
// (tars/protocol.go) recognises a response only when tag 5 is encoded as INT or ZERO_TAG, so responses with iRet in
// 1..32767 or negative small values (BYTE/SHORT encoding) are refused by the pinned decoder (a C01 matter, reported).
func Tars(r *hx.Rng, small bool) Frame {
	kind := r.PickS([]string{"req", "resp"})
	os := codec.NewBuffer()
	body := make([]int8, pickLen(r, true))
	if !small && r.Chance(40) {
		body = make([]int8, pickLen(r, false)%5000)
	}
	for i := range body {
		body[i] = int8(r.U64())
	}
	if kind == "req" {
		p := &requestf.RequestPacket{IVersion: 1, CPacketType: 0, IMessageType: 0, IRequestId: int32(r.U64() >> 40),
			SServantName: "App.Server.Obj" + string(rune('A'+r.Intn(26))), SFuncName: "func" + string(rune('a'+r.Intn(26))),
			SBuffer: body, ITimeout: 3000, Context: map[string]string{}, Status: map[string]string{}}
		p.WriteTo(os)
	} else {
		p := &requestf.ResponsePacket{IVersion: 1, CPacketType: 0, IRequestId: int32(r.U64() >> 40), IMessageType: 0,
			IRet: int32(r.Pick([]int{0, 0, 70000})), SBuffer: body, Status: map[string]string{}, SResultDesc: "ok", Context: map[string]string{}}
		p.WriteTo(os)
	}
	bs := os.ToBytes()
	b := make([]byte, 4, 4+len(bs))
	binary.BigEndian.PutUint32(b, uint32(4+len(bs)))
	b = append(b, bs...)
	return Frame{Proto: "tars", Kind: kind, Bytes: b, Fields: []LenField{{"packageLen", 0, 4, uint64(len(b))}}}
}

// Gen builds one frame of the protocol.
func Gen(r *hx.Rng, proto string, small bool) Frame {
	switch proto {
	case "bolt":
		return Bolt(r, false, small)
	case "boltv2":
		return Bolt(r, true, small)
	case "dubbo":
		return Dubbo(r, small)
	case "thrift":
		return Thrift(r, small)
	case "tars":
		return Tars(r, small)
	}
	panic("unknown protocol " + proto)
}

// Outcome of one real Decode call.
type Outcome struct {
	Class   string // needmore | frame | error | panic
	Drained int
	Raw     []byte // raw bytes the decoder reports for the frame (request/response raw data variable)
}

// RawOf returns the raw frame bytes the decoder recorded in the context for frame f.
func RawOf(ctx context.Context, f interface{}) []byte {
	xf, ok := f.(api.XFrame)
	if !ok {
		return nil
	}
	name := types.VarRequestRawData
	if xf.GetStreamType() == api.Response {
		name = types.VarResponseRawData
	}
	v, err := variable.Get(ctx, name)
	if err != nil {
		return nil
	}
	b, _ := v.([]byte)
	return append([]byte(nil), b...)
}

// DecodeOnce runs the real Decode of proto on exactly these bytes (fresh buffer without spare capacity contents).
func DecodeOnce(proto string, data []byte) Outcome {
	ctx := Ctx()
	p := Codec(proto).NewXProtocol(ctx)
	buf := buffer.NewIoBufferBytes(append([]byte(nil), data...))
	before := buf.Len()
	var f interface{}
	var err error
	_, panicked := hx.Safe(func() { f, err = p.Decode(ctx, buf) })
	o := Outcome{Drained: before - buf.Len()}
	switch {
	case panicked:
		o.Class = "panic"
	case err != nil:
		o.Class = "error"
	case f == nil:
		o.Class = "needmore"
	default:
		o.Class = "frame"
		o.Raw = RawOf(ctx, f)
	}
	return o
}

// Valid reports whether the real decoder accepts the frame in isolation, draining exactly its bytes.
func Valid(f Frame) bool {
	o := DecodeOnce(f.Proto, f.Bytes)
	return o.Class == "frame" && o.Drained == len(f.Bytes) && bytes.Equal(o.Raw, f.Bytes)
}
