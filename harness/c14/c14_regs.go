//go:build verif

package c14

// Kind rg (round 7): the chain is a list of REGISTRATIONS (filter object, phase); one object may be registered several
// times — for several receive phases (pkg/filter/stream/dsl: BeforeRoute, AfterRoute, AfterChooseHost), in any order, with
// registrations of other objects in between, and as a sender filter (also twice). Case line:
//
//	C14 rg <object per receiver registration> <object per sender registration> <recv chain> <send chain> <environment as kind ch>
//	       => <tokens as kind ch> od=<object>:<OnDestroy calls>,… | od=-
//
// object lists: `,`-separated, `x` = a plain scripted filter (an object of its own), `-` = empty list. The scripts of the
// chain tokens are per registration; the object finds the registration by the phase its handler reports
// (GetFilterCurrentPhase), so a pair (object, phase) occurs at most once among the receiver registrations.

import (
	"fmt"
	"sort"
	"strings"

	"mosn.io/api"
	"verif/harness/hx"
	"verif/harness/px"
)

func objTok(l []int) string {
	if len(l) == 0 {
		return "-"
	}
	var p []string
	for _, o := range l {
		if o < 0 {
			p = append(p, "x")
		} else {
			p = append(p, fmt.Sprint(o))
		}
	}
	return strings.Join(p, ",")
}

func objAt(l []int, i int) int {
	if i < len(l) {
		return l[i]
	}
	return -1
}

func destroyTok(m map[int]int) string {
	if len(m) == 0 {
		return "-"
	}
	var ids []int
	for o := range m {
		ids = append(ids, o)
	}
	sort.Ints(ids)
	var p []string
	for _, o := range ids {
		p = append(p, fmt.Sprintf("%d:%d", o, m[o]))
	}
	return strings.Join(p, ",")
}

// all ordered non-empty selections of the three receive phases: 3 + 6 + 6
func phaseArrangements() [][]px.Phase {
	ph := []px.Phase{px.BeforeRoute, px.AfterRoute, px.AfterChooseHost}
	var out [][]px.Phase
	var rec func(cur []px.Phase, used int)
	rec = func(cur []px.Phase, used int) {
		if len(cur) > 0 {
			out = append(out, append([]px.Phase{}, cur...))
		}
		for i, p := range ph {
			if used&(1<<i) == 0 {
				rec(append(cur, p), used|1<<i)
			}
		}
	}
	rec(nil, 0)
	return out
}

// the verdicts a multi-phase object decides with in ONE of its phases (Continue in the others)
var regDeciders = [][]verdict{
	{{"h", 403, sS}},                  // Stop + hijack 4xx
	{{"h", 401, sC}},                  // answers and lets the chain go on
	{{"n", 0, sRM}, {"n", 0, sC}},     // re-match route once
	{{"n", 0, sRC}, {"n", 0, sC}},     // re-choose host once
	{{"n", 0, sRM}, {"h", 409, sS}},   // re-match, then deny
	{{"n", 0, sT}},                    // termination status
	{{"t", 499, sC}},                  // handler TerminateStream
	{{"d", 0, sS}},                    // direct response
	{{"n", 0, sC}},                    // nothing: forwarded
}

func addRegCases(c *hx.Ctx, rng *hx.Rng, parts, part int, add func(*kase)) {
	n := 0
	sel := func() bool { n++; return n%parts == part }
	cont := []verdict{{"n", 0, sC}}
	// (1) ONE object registered for every ordered selection of phases; it decides in each of its phases in turn, with every
	// deciding verdict; a plain single-phase filter at a seeded position; the object is also a sender filter 0 / 1 / 2 times
	for _, arr := range phaseArrangements() {
		for di := range arr {
			for vi, dec := range regDeciders {
				if !sel() {
					continue
				}
				k := &kase{}
				randEnv(rng, k)
				if rng.Chance(70) { // mostly the plain forwardable request: the verdict of the later phase decides
					k.routes, k.host, k.pool, k.oneway = []string{"f"}, true, "ok", false
				}
				for i, p := range arr {
					sc := cont
					if i == di {
						sc = dec
					}
					k.recv = append(k.recv, rfilter{phase: p, script: sc})
					k.robj = append(k.robj, 0)
				}
				if rng.Chance(60) { // a plain filter of its own among the registrations
					pos := rng.Intn(len(k.recv) + 1)
					pf := rfilter{phase: px.Phase(rng.Intn(3)), script: []verdict{randVerdict(rng)}}
					if rng.Chance(70) {
						pf.script = cont
					}
					k.recv = append(k.recv[:pos], append([]rfilter{pf}, k.recv[pos:]...)...)
					k.robj = append(k.robj[:pos], append([]int{-1}, k.robj[pos:]...)...)
				}
				regSenders(rng, k, (vi+di)%3, 1)
				add(k)
			}
		}
	}
	// (2) random: 1..3 shared objects, each with a seeded ordered selection of phases, their registrations merged in a
	// seeded order with plain filters; scripts per registration drawn as in the random chains of kind ch
	for i := 0; i < c.N(900, 2400); i++ {
		k := &kase{}
		randEnv(rng, k)
		arrs := phaseArrangements()
		nobj := 1 + rng.Intn(3)
		var queues [][]px.Phase
		for o := 0; o < nobj; o++ {
			queues = append(queues, arrs[rng.Intn(len(arrs))])
		}
		plain := rng.Intn(3)
		left := plain
		for _, q := range queues {
			left += len(q)
		}
		for left > 0 {
			o := rng.Intn(nobj + 1)
			if o == nobj {
				if plain == 0 {
					continue
				}
				plain--
				left--
				k.recv = append(k.recv, rfilter{phase: px.Phase(rng.Intn(3)), script: []verdict{randVerdict(rng)}})
				k.robj = append(k.robj, -1)
				continue
			}
			if len(queues[o]) == 0 {
				continue
			}
			f := rfilter{phase: queues[o][0]}
			queues[o] = queues[o][1:]
			left--
			for s := 0; s < 1+rng.Intn(2); s++ {
				f.script = append(f.script, randVerdict(rng))
			}
			k.recv = append(k.recv, f)
			k.robj = append(k.robj, o)
		}
		regSenders(rng, k, rng.Intn(4), nobj)
		add(k)
	}
}

// regSenders gives the case a sender chain in which shared objects occur `times` times in all (an object may be a sender
// filter twice), among plain sender filters; the statuses of a shared object are one-verdict scripts
func regSenders(rng *hx.Rng, k *kase, times, nobj int) {
	k.send = nil
	k.sobj = []int{}
	statuses := []api.StreamFilterStatus{sC, sC, sC, sC, sS, sT, sRM, "bogus"}
	total := times + rng.Intn(2)
	slots := make([]int, total)
	for i := range slots {
		slots[i] = -1
	}
	for placed := 0; placed < times && placed < total; {
		if i := rng.Intn(total); slots[i] < 0 {
			slots[i] = rng.Intn(nobj)
			placed++
		}
	}
	for _, o := range slots {
		st := statuses[rng.Intn(len(statuses))]
		k.send = append(k.send, sfilter{script: []api.StreamFilterStatus{st}})
		k.sobj = append(k.sobj, o)
	}
	if k.robj == nil {
		k.robj = []int{}
	}
}

func countRegs(c *hx.Ctx, k *kase) {
	if k.robj == nil && k.sobj == nil {
		return
	}
	c.Count("rg.cases")
	per := map[int][]string{}
	for i, o := range k.robj {
		if o >= 0 {
			per[o] = append(per[o], []string{"b", "r", "c"}[k.recv[i].phase])
		}
	}
	ns := map[int]int{}
	for _, o := range k.sobj {
		if o >= 0 {
			ns[o]++
		}
	}
	for o, l := range per {
		c.Count("rg.object.phases=" + strings.Join(l, "") + fmt.Sprintf("+s%d", ns[o]))
		for i, li := range k.robj {
			if li != o {
				continue
			}
			for _, v := range k.recv[i].script {
				if v.act != "n" || v.status != sC {
					c.Count("rg.decides." + []string{"b", "r", "c"}[k.recv[i].phase] + "=" + v.act + "~" + string(v.status))
				}
			}
		}
	}
	for o, n := range ns {
		if _, ok := per[o]; !ok {
			c.Count(fmt.Sprintf("rg.object.phases=-+s%d", n))
		}
	}
	c.Count(fmt.Sprintf("rg.objects=%d", len(per)))
}
