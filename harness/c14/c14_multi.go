//go:build verif

package c14

// Kind `mx`: MANY streams on the real proxy core with MOSN's built-in deny filters, and stream-filter configuration
// UPDATES through the real stream-filter manager.
//
//	C14 mx pool=<id>:<type>,… reqs=<flags>;<flags>;… ev=<event>,<event>,… => s<i>=<ids run>/<fwd|r<code>|none> …
//
//	pool   filter ids of the case and what they are: ipaccess | payloadlimit | faultinject (the REAL filters, traced; configured
//	       to deny a request with the flag i / p / f) | s<phase> scripted, always Continue | d<phase> scripted, always
//	       SendHijackReply(409)+Stop | x an entry whose type no factory is registered for
//	reqs   per stream the flags of its request: i = client address on ip_access's block list, p = payload above the limit,
//	       f = the header the fault filter aborts on; `-` = none
//	ev     u<l>:<id.id…|->  AddOrUpdateStreamFilterConfig(listener l, that configuration)   (two listeners = two fixtures)
//	       k<l>             a new downstream connection on listener l (connections 0 and 1 are the ones of listener 0 and 1
//	                        opened before any event; every k takes the next number)
//	       c<s>:<conn>      NewStreamDetect of stream s on that connection (its filter chain is created)
//	       r<s>             OnReceive of stream s (its filters run); an upstream request is answered with 200
import (
	"fmt"
	"strings"
	"time"

	v2 "mosn.io/mosn/pkg/config/v2"
	"mosn.io/mosn/pkg/types"
	"verif/harness/hx"
	"verif/harness/px"
)

type mxCase struct {
	pool []string // type per id
	reqs []string
	ev   []string
}

func (k *mxCase) tok() string {
	var p []string
	for i, t := range k.pool {
		p = append(p, fmt.Sprintf("%d:%s", i, t))
	}
	return fmt.Sprintf("mx pool=%s reqs=%s ev=%s", strings.Join(p, ","), strings.Join(k.reqs, ";"), strings.Join(k.ev, ","))
}

func mxBuiltin(typ string) *px.Builtin {
	switch typ {
	case "ipaccess":
		return &px.Builtin{Type: v2.IPAccess, Config: map[string]interface{}{
			"default_action": "allow", "header": "x-ip",
			"ips": []interface{}{map[string]interface{}{"action": "deny", "addrs": []interface{}{"10.1.1.1", "192.168.0.0/16"}}}}}
	case "payloadlimit":
		return &px.Builtin{Type: v2.PayloadLimit, Config: map[string]interface{}{"max_entity_size ": 3, "http_status": 413}}
	case "faultinject":
		return &px.Builtin{Type: v2.FaultStream, Config: map[string]interface{}{
			"abort":   map[string]interface{}{"status": 418, "percentage": 100},
			"headers": []interface{}{map[string]interface{}{"name": "x-fault", "value": "1"}}}}
	}
	return nil
}

func mxPhase(t string) px.Phase {
	switch t[1:] {
	case "1":
		return px.AfterRoute
	case "2":
		return px.AfterChooseHost
	}
	return px.BeforeRoute
}

func runMx(k *mxCase) string {
	// Config.Filters: index = pool id (placeholders for the ids that are not scripted filters)
	filters := make([]px.Filter, len(k.pool))
	for i, t := range k.pool {
		switch {
		case strings.HasPrefix(t, "s"):
			filters[i] = px.Filter{Phase: mxPhase(t)}
		case strings.HasPrefix(t, "d"):
			filters[i] = px.Filter{Phase: mxPhase(t), Script: []px.Verdict{{Hijack: 409, Status: sS}}}
		}
	}
	var fx [2]*px.Fixture
	var conns []*px.Conn
	for l := 0; l < 2; l++ {
		fx[l] = px.New(px.Config{
			Clusters: []px.Cluster{{Name: "c1", Hosts: 1}},
			Routes:   []v2.Router{px.Route("/fwd", "c1", px.Timeout(30*time.Second))},
			Filters:  filters,
			Vars:     map[string]interface{}{types.VarProxyDisableRetry: true},
		})
		defer fx[l].Close()
		conns = append(conns, fx[l].Conn0())
	}
	prepared := make([]*px.Prepared, len(k.reqs))
	exs := make([]*px.Exchange, len(k.reqs))
	defer func() {
		for _, p := range prepared {
			if p != nil {
				p.Exchange().ForgetProv()
			}
		}
	}()
	for _, e := range k.ev {
		switch e[0] {
		case 'u':
			var l int
			var ids string
			p := strings.SplitN(e[1:], ":", 2)
			fmt.Sscan(p[0], &l)
			ids = p[1]
			var entries []px.FilterEntry
			if ids != "-" {
				for _, s := range strings.Split(ids, ".") {
					var id int
					fmt.Sscan(s, &id)
					t := k.pool[id]
					entries = append(entries, px.FilterEntry{ID: id, Builtin: mxBuiltin(t), Unknown: t == "x"})
				}
			}
			if err := fx[l].SetFilterConfig(entries); err != nil {
				panic(fmt.Sprintf("c14 mx: update: %v", err))
			}
		case 'k':
			var l int
			fmt.Sscan(e[1:], &l)
			conns = append(conns, fx[l].OpenConn())
		case 'c':
			var s, cn int
			fmt.Sscanf(e, "c%d:%d", &s, &cn)
			h := px.H(":path", "/fwd/x", ":authority", "svc", ":scheme", "http", "x-ip", "10.2.2.2")
			var body []byte
			fl := k.reqs[s]
			if strings.Contains(fl, "i") {
				h["x-ip"] = "10.1.1.1"
			}
			if strings.Contains(fl, "p") {
				body = []byte("payload")
			}
			if strings.Contains(fl, "f") {
				h["x-fault"] = "1"
			}
			prepared[s] = conns[cn].Prepare(h, body, nil)
		case 'r':
			var s int
			fmt.Sscan(e[1:], &s)
			ex := prepared[s].Go()
			exs[s] = ex
			waitSettled(ex)
			if !ex.Done() {
				if as := ex.UpstreamAttempts(); len(as) > 0 && as[0].Failed == "" {
					as[0].Respond(200, nil, nil, nil)
					if !ex.WaitDone(500 * time.Millisecond) {
						ex.WaitQuiescentFor(25 * time.Millisecond)
					} else {
						ex.WaitQuiescent()
					}
				}
			}
		}
	}
	var out []string
	for s, ex := range exs {
		if ex == nil {
			out = append(out, fmt.Sprintf("s%d=-/norun", s))
			continue
		}
		var ids []string
		res, fwd := "none", false
		for _, t := range ex.Trace() {
			p := strings.Split(t, ":")
			switch p[0] {
			case "f":
				ids = append(ids, p[1])
			case "un":
				fwd = true
			case "dh":
				if !fwd && res == "none" {
					res = "r" + p[1]
				}
			}
		}
		if fwd {
			res = "fwd"
		}
		l := "-"
		if len(ids) > 0 {
			l = strings.Join(ids, ".")
		}
		out = append(out, fmt.Sprintf("s%d=%s/%s", s, l, res))
	}
	return strings.Join(out, " ")
}

// ---- generators -------------------------------------------------------------------------------------------------

var mxTypes = []string{"ipaccess", "payloadlimit", "faultinject", "s0", "s1", "s2", "d2", "x", "x"}

func mxIDs(ids []int) string {
	if len(ids) == 0 {
		return "-"
	}
	var s []string
	for _, i := range ids {
		s = append(s, fmt.Sprint(i))
	}
	return strings.Join(s, ".")
}

// mxInterleave: every stream created on a connection and run exactly once, create before run, otherwise any order.
func mxInterleave(r *hx.Rng, n int, connOf func(s int) int, allFirst bool) []string {
	var ev []string
	if allFirst {
		order := mxPerm(r, n)
		for _, s := range order {
			ev = append(ev, fmt.Sprintf("c%d:%d", s, connOf(s)))
		}
		for _, s := range mxPerm(r, n) {
			ev = append(ev, fmt.Sprintf("r%d", s))
		}
		return ev
	}
	created, ran := make([]bool, n), make([]bool, n)
	for left := 2 * n; left > 0; {
		s := r.Intn(n)
		switch {
		case !created[s]:
			created[s] = true
			ev = append(ev, fmt.Sprintf("c%d:%d", s, connOf(s)))
			left--
		case !ran[s] && r.Bool():
			ran[s] = true
			ev = append(ev, fmt.Sprintf("r%d", s))
			left--
		}
	}
	return ev
}

func mxPerm(r *hx.Rng, n int) []int {
	p := make([]int, n)
	for i := range p {
		p[i] = i
	}
	for i := n - 1; i > 0; i-- {
		j := r.Intn(i + 1)
		p[i], p[j] = p[j], p[i]
	}
	return p
}

func mxFlags(r *hx.Rng) string {
	f := ""
	if r.Chance(40) {
		f += "i"
	}
	if r.Chance(25) {
		f += "p"
	}
	if r.Chance(25) {
		f += "f"
	}
	if f == "" {
		return "-"
	}
	return f
}

func mxCases(c *hx.Ctx, rng *hx.Rng) []*mxCase {
	var cases []*mxCase
	pool := mxTypes
	// (a) two streams, one real deny filter (each kind), every creation/run interleaving, every denied/allowed mix
	two := [][]string{
		{"c0:0", "c1:0", "r0", "r1"}, {"c0:0", "c1:0", "r1", "r0"}, {"c1:0", "c0:0", "r0", "r1"}, {"c1:0", "c0:0", "r1", "r0"},
		{"c0:0", "r0", "c1:0", "r1"}, {"c1:0", "r1", "c0:0", "r0"},
	}
	for id, flag := range []string{"i", "p", "f"} {
		for _, il := range two {
			for _, fl := range [][]string{{flag, "-"}, {"-", flag}, {flag, flag}, {"-", "-"}} {
				for _, cfg := range []string{fmt.Sprint(id), fmt.Sprintf("3.%d.5", id)} {
					cases = append(cases, &mxCase{pool: pool, reqs: fl, ev: append([]string{"u0:" + cfg}, il...)})
				}
			}
		}
	}
	// (b) N streams, all chains created before any filter runs (and free interleavings), chains of several real filters
	for i := 0; i < c.N(250, 1200); i++ {
		n := 2 + rng.Intn(5)
		k := &mxCase{pool: pool}
		for s := 0; s < n; s++ {
			k.reqs = append(k.reqs, mxFlags(rng))
		}
		var cfg []int
		for _, id := range mxPerm(rng, 7) {
			if rng.Chance(45) {
				cfg = append(cfg, id)
			}
		}
		if rng.Chance(60) && len(cfg) == 0 {
			cfg = []int{rng.Intn(3)}
		}
		k.ev = []string{"u0:" + mxIDs(cfg)}
		nconn := 1
		if rng.Chance(30) {
			k.ev = append(k.ev, "k0")
			nconn = 2
		}
		cn := make([]int, n)
		for s := range cn {
			if nconn == 2 && rng.Bool() {
				cn[s] = 2
			}
		}
		k.ev = append(k.ev, mxInterleave(rng, n, func(s int) int { return cn[s] }, rng.Chance(60))...)
		cases = append(cases, k)
	}
	// (c) update sequences n -> m for all small n, m including 0, and configurations of unknown types only; a stream on a
	// connection opened before and one on a connection opened after the update; the other listener keeps its own chain
	cfgs := [][]int{{}, {7}, {7, 8}, {0}, {6}, {4}, {0, 4}, {3, 0}, {7, 0}, {1, 2}, {0, 1, 2}, {5, 4, 3}, {6, 0, 7}, {2, 8, 3, 0}}
	for _, a := range cfgs {
		for _, b := range cfgs {
			fl := []string{"i", "-", "ipf", "i"}
			if rng.Chance(30) {
				fl = []string{mxFlags(rng), mxFlags(rng), mxFlags(rng), mxFlags(rng)}
			}
			cases = append(cases, &mxCase{pool: pool, reqs: fl, ev: []string{
				"u1:0.4", "u0:" + mxIDs(a), "c0:0", "r0", "u0:" + mxIDs(b), "k0", "c1:0", "r1", "c2:2", "r2", "c3:1", "r3"}})
		}
	}
	// (d) random histories: updates of both listeners, new connections, streams created and run in any order (a stream created
	// before an update and run after it keeps the chain it was created with)
	for i := 0; i < c.N(300, 1500); i++ {
		n := 2 + rng.Intn(5)
		k := &mxCase{pool: pool}
		for s := 0; s < n; s++ {
			k.reqs = append(k.reqs, mxFlags(rng))
		}
		connL := []int{0, 1}
		created, ran := make([]bool, n), make([]bool, n)
		randCfg := func() []int {
			switch rng.Intn(5) {
			case 0:
				return nil
			case 1:
				return [][]int{{7}, {8, 7}}[rng.Intn(2)]
			}
			var cfg []int
			for _, id := range mxPerm(rng, 9) {
				if rng.Chance(35) {
					cfg = append(cfg, id)
				}
			}
			return cfg
		}
		k.ev = append(k.ev, "u0:"+mxIDs(randCfg()))
		k.ev = append(k.ev, "u1:"+mxIDs(randCfg())) // (px.New published placeholders: every listener used gets its configuration first)
		for left := 2 * n; left > 0; {
			switch x := rng.Intn(10); {
			case x == 0:
				k.ev = append(k.ev, fmt.Sprintf("u%d:%s", rng.Intn(2), mxIDs(randCfg())))
			case x == 1 && len(connL) < 5:
				l := rng.Intn(2)
				connL = append(connL, l)
				k.ev = append(k.ev, fmt.Sprintf("k%d", l))
			default:
				s := rng.Intn(n)
				if !created[s] {
					created[s] = true
					k.ev = append(k.ev, fmt.Sprintf("c%d:%d", s, rng.Intn(len(connL))))
					left--
				} else if !ran[s] && rng.Bool() {
					ran[s] = true
					k.ev = append(k.ev, fmt.Sprintf("r%d", s))
					left--
				}
			}
		}
		cases = append(cases, k)
	}
	return cases
}

// runMxAll runs the mx cases sequentially (each case drives several streams itself) and emits them.
func runMxAll(c *hx.Ctx, rng *hx.Rng) {
	for _, k := range mxCases(c, rng) {
		var out string
		if msg, bad := hx.Safe(func() { out = runMx(k) }); bad {
			out = "panic:" + hx.Tok(msg)
		}
		c.Emit("C14", k.tok(), out)
		c.Count(fmt.Sprintf("mx.streams=%d", len(k.reqs)))
		nu := 0
		for _, e := range k.ev {
			if e[0] == 'u' {
				nu++
				if strings.HasSuffix(e, ":-") {
					c.Count("mx.update=empty")
				}
			}
			if e[0] == 'k' {
				c.Count("mx.newconn")
			}
		}
		c.Count(fmt.Sprintf("mx.updates=%d", nu))
		for _, t := range strings.Fields(out) {
			if i := strings.Index(t, "/"); i >= 0 {
				c.Count("mx.out=" + t[i+1:])
			}
		}
		// all chains created before any filter ran?
		firstRun, lastCreate := -1, -1
		for i, e := range k.ev {
			if e[0] == 'r' && firstRun < 0 {
				firstRun = i
			}
			if e[0] == 'c' {
				lastCreate = i
			}
		}
		if firstRun > lastCreate {
			c.Count("mx.all-created-first")
		} else {
			c.Count("mx.interleaved")
		}
	}
}
