//go:build verif

// Package c14: stream filters run in order and a denied request is never forwarded.  Scripted receiver/sender filters
// (registered through the public stream-filter factory API by the px fixture) run on MOSN's REAL proxy core
// (pkg/proxy downStream phase machine, pkg/streamfilter chain); the harness records the filter call log, the pool
// NewStream log and the downstream sender calls of one request per case.
package c14

import (
	"fmt"
	"os"
	"strings"
	"sync"
	"sync/atomic"
	"time"

	"mosn.io/api"
	v2 "mosn.io/mosn/pkg/config/v2"
	_ "mosn.io/mosn/pkg/filter/stream/faultinject"
	_ "mosn.io/mosn/pkg/filter/stream/ipaccess"
	_ "mosn.io/mosn/pkg/filter/stream/payloadlimit"
	"mosn.io/mosn/pkg/types"
	"mosn.io/pkg/variable"
	"verif/harness/hx"
	"verif/harness/px"
)

func init() { hx.Register("C14", Run) }

// ---- case description -------------------------------------------------------------------------------------------

type verdict struct {
	act    string // n | h | hb | d | t
	code   int
	status api.StreamFilterStatus
}

func (v verdict) tok() string {
	a := v.act
	if a == "h" || a == "hb" || a == "t" {
		a += fmt.Sprint(v.code)
	}
	return a + "~" + hx.Tok(string(v.status))
}

type rfilter struct {
	phase  px.Phase
	script []verdict
	// builtin != "": the filter is the REAL MOSN stream filter of that kind (ip | payload | fault), configured so that it
	// behaves like `script` on this case; phase is the phase the real factory registers it for
	builtin string
}

type sfilter struct{ script []api.StreamFilterStatus }

type kase struct {
	recv   []rfilter
	send   []sfilter
	routes []string // f | n | d<code> | db<code>, per matchRoute invocation (last repeats)
	host   bool
	pool   string // ok | overflow | connfail
	oneway bool
	body   bool
	trl    bool
	up     string // r<code>:<d>:<t> | reset | term<code> | termr<code> (TerminateStream with an in-flight response landing inside it) | st<code>/r<code>:<d>:<t> (TerminateStream on a kept handler of a finished request, then the response)
	mix    bool   // register sender filters interleaved with the receiver filters
	ipDeny bool   // the request carries a client address on the ip_access block list
	fresh  bool   // a stale-handler case in which the pool handed out another object (the stale call was not made)
	corpus bool   // fixed corpus case: kept exactly as written
	retry  *retryPol // != nil: the forwarding route carries this retry policy and proxy_disable_retry is NOT set
	// kind rg (c14_regs.go): the filter OBJECT of each receiver / sender registration (-1 = a plain scripted filter of its own);
	// registrations with the same id >= 0 hand the same object to the chain
	robj, sobj []int
}

// retryPol is a route retry policy (v2.RetryPolicy: retry_on, num_retries, status codes).
type retryPol struct {
	on    bool
	n     int
	codes []int
	kind  string // A: retry_on, every status >= 500 | B: retry_on with a status-code list | C: policy present, retry_on off
}

func (k *kase) tok() string {
	var rs, ss []string
	for _, f := range k.recv {
		var sc []string
		for _, v := range f.script {
			sc = append(sc, v.tok())
		}
		rs = append(rs, []string{"b", "r", "c"}[f.phase]+":"+strings.Join(sc, "/"))
	}
	for _, f := range k.send {
		var sc []string
		for _, st := range f.script {
			sc = append(sc, hx.Tok(string(st)))
		}
		ss = append(ss, strings.Join(sc, "/"))
	}
	j := func(l []string) string {
		if len(l) == 0 {
			return "-"
		}
		return strings.Join(l, ";")
	}
	b := func(x bool) string {
		if x {
			return "1"
		}
		return "0"
	}
	var bi []string
	for i, f := range k.recv {
		if f.builtin != "" {
			bi = append(bi, fmt.Sprintf("%d:%s", i, f.builtin))
		}
	}
	extra := ""
	if len(bi) > 0 {
		extra = " builtin=" + strings.Join(bi, ",")
	}
	if k.retry != nil {
		codes := "-"
		if len(k.retry.codes) > 0 {
			var cs []string
			for _, c := range k.retry.codes {
				cs = append(cs, fmt.Sprint(c))
			}
			codes = strings.Join(cs, ".")
		}
		extra += fmt.Sprintf(" retry=%s:%d:%s", b(k.retry.on), k.retry.n, codes)
	}
	kind := "ch"
	if k.robj != nil || k.sobj != nil {
		kind = "rg " + objTok(k.robj) + " " + objTok(k.sobj)
	}
	return fmt.Sprintf(kind+" %s %s route=%s host=%s pool=%s oneway=%s body=%s trl=%s up=%s%s", j(rs), j(ss),
		strings.Join(k.routes, ","), b(k.host), k.pool, b(k.oneway), b(k.body), b(k.trl), k.up, extra)
}

// ---- running one case on the real proxy core --------------------------------------------------------------------

func pathOf(route string) string {
	switch {
	case route == "f":
		return "/fwd/x"
	case route == "n":
		return "/none"
	case strings.HasPrefix(route, "db"):
		return "/db" + route[2:]
	default:
		return "/d" + route[1:]
	}
}

func runCase(k *kase) string {
	hosts := 0
	if k.host {
		hosts = 1
	}
	long := px.Timeout(30 * time.Second) // no timer fires within a case
	fwdOpts := []px.RouteOpt{long}
	vars := map[string]interface{}{types.VarProxyDisableRetry: true}
	if k.retry != nil {
		var codes []uint32
		for _, c := range k.retry.codes {
			codes = append(codes, uint32(c))
		}
		fwdOpts = append(fwdOpts, px.Retry(k.retry.on, uint32(k.retry.n), 0, codes...))
		vars = nil // retries are live: MOSN's retry decision sees every response that reaches onUpstreamHeaders
	}
	routes := []v2.Router{px.Route("/fwd", "c1", fwdOpts...)}
	seen := map[string]bool{}
	for _, r := range k.routes {
		if seen[r] || r == "f" || r == "n" {
			continue
		}
		seen[r] = true
		var code int
		body := ""
		if strings.HasPrefix(r, "db") {
			fmt.Sscan(r[2:], &code)
			body = "direct"
		} else {
			fmt.Sscan(r[1:], &code)
		}
		routes = append(routes, px.Route(pathOf(r), "", px.DirectResponse(code, body), long))
	}

	// filters: global registration order; tokens use chain-local indices
	var filters []px.Filter
	local := map[int]int{}
	var nextRoute int32
	var fixture *px.Fixture
	mkRecv := func(li int, f rfilter) px.Filter {
		pf := px.Filter{Phase: f.phase}
		for _, v := range f.script {
			pv := px.Verdict{Status: v.status}
			// every answer of scripted filter li is tagged with its owner token f<li>: reply headers x-tok, body
			tag := fmt.Sprintf("f%d", li)
			switch v.act {
			case "h":
				pv.Hijack = v.code
				pv.ReplyHeaders = px.H("x-tok", tag)
			case "hb":
				pv.Hijack = v.code
				pv.HijackBody = tag
				pv.ReplyHeaders = px.H("x-tok", tag)
			case "d":
				pv.Direct = true
				pv.ReplyHeaders = px.H("x-tok", tag)
			}
			code, act, status, phase := v.code, v.act, v.status, f.phase
			if act == "t" || (status == api.StreamFilterReMatchRoute && phase == px.AfterRoute && len(k.routes) > 1) {
				pv.Do = func(ex *px.Exchange, rh api.StreamReceiverFilterHandler, _ api.StreamSenderFilterHandler) {
					if act == "t" {
						rh.TerminateStream(code)
					}
					if status == api.StreamFilterReMatchRoute && phase == px.AfterRoute && len(k.routes) > 1 {
						// a re-match request comes with a changed request: the next route-match result of the case
						n := int(atomic.AddInt32(&nextRoute, 1))
						if n >= len(k.routes) {
							n = len(k.routes) - 1
						}
						_ = variable.SetString(ex.Context(), types.VarPath, pathOf(k.routes[n]))
					}
				}
			}
			pf.Script = append(pf.Script, pv)
		}
		return pf
	}
	mkSend := func(f sfilter) px.Filter {
		pf := px.Filter{Phase: px.Send}
		for _, st := range f.script {
			pf.Script = append(pf.Script, px.Verdict{Status: st})
		}
		return pf
	}
	builtins := map[int]px.Builtin{}
	var objOfGlobal []int // kind rg: object id per global registration
	ri, si := 0, 0
	for ri < len(k.recv) || si < len(k.send) {
		takeSend := ri >= len(k.recv) || (k.mix && si < len(k.send) && (ri+si)%2 == 1)
		if takeSend {
			local[len(filters)] = si
			objOfGlobal = append(objOfGlobal, objAt(k.sobj, si))
			filters = append(filters, mkSend(k.send[si]))
			si++
		} else {
			local[len(filters)] = ri
			objOfGlobal = append(objOfGlobal, objAt(k.robj, ri))
			if b := k.recv[ri].builtin; b != "" {
				builtins[len(filters)] = builtinOf(b, k.recv[ri])
			}
			filters = append(filters, mkRecv(ri, k.recv[ri]))
			ri++
		}
	}

	isTerm := strings.HasPrefix(k.up, "term") || strings.HasPrefix(k.up, "st")
	fixture = px.New(px.Config{
		Clusters:        []px.Cluster{{Name: "c1", Hosts: hosts}},
		Routes:          routes,
		Filters:         filters,
		OneWay:          k.oneway,
		TerminateHandle: isTerm,
		// without a retry policy on the case: retries disabled (MOSN retries a connection failure even without a policy)
		Vars: vars,
	})
	defer fixture.Close()
	if len(builtins) > 0 {
		if err := fixture.SetBuiltins(builtins); err != nil {
			panic(fmt.Sprintf("c14: builtin filters: %v", err))
		}
	}
	if k.robj != nil || k.sobj != nil {
		if err := fixture.SetShared(objOfGlobal); err != nil {
			panic(fmt.Sprintf("c14: shared filters: %v", err))
		}
	}
	switch k.pool {
	case "overflow":
		fixture.PoolFail(types.Overflow)
	case "connfail":
		fixture.PoolFail(types.ConnectionFailure)
	}
	var body []byte
	var trailers map[string]string
	if k.body {
		body = []byte("payload")
	}
	if k.trl {
		trailers = px.H("t", "1")
	}
	xip := "10.2.2.2"
	if k.ipDeny {
		xip = "10.1.1.1"
	}
	// stale-handler cases: warm-up exchanges that finish normally first (their pooled downStream objects go back to the pool,
	// their hidden terminate handlers are kept), back to back on this goroutine
	var warm []*px.Exchange
	if strings.HasPrefix(k.up, "st") {
		for i := 0; i < 3; i++ {
			w := fixture.Request(px.H(":path", pathOf(k.routes[0]), ":authority", "svc", ":scheme", "http", "x-ip", xip), nil, nil)
			a := w.WaitAttempt(0)
			if a == nil || a.Failed != "" {
				break
			}
			a.Respond(200, nil, nil, nil)
			if !w.WaitDone(300 * time.Millisecond) {
				break
			}
			w.WaitQuiescent()
			warm = append(warm, w)
		}
		defer func() {
			for _, w := range warm {
				w.ForgetProv()
			}
		}()
	}
	ex := fixture.Request(px.H(":path", pathOf(k.routes[0]), ":authority", "svc", ":scheme", "http", "x-ip", xip), body, trailers)
	defer ex.ForgetProv()
	defer ex.ForgetShared()

	tm := "-" // return value of the asynchronous TerminateStream call of the case, when one is made
	tb := func(x bool) string {
		if x {
			return "1"
		}
		return "0"
	}
	// phase 1: the worker runs until it finishes, waits for the upstream, or gives up
	waitSettled(ex)
	// phase 2: the upstream event, once, if the request is waiting for one
	if !ex.Done() {
		if as := ex.UpstreamAttempts(); len(as) > 0 && as[0].Failed == "" {
			a := as[0]
			up := k.up
			if strings.HasPrefix(up, "st") {
				// TerminateStream on the kept handler of the finished warm-up exchange whose pooled object this request runs on
				// (when the pool handed out another object the call is not made and the case is an ordinary response case)
				p := strings.SplitN(up[2:], "/", 2)
				var code int
				fmt.Sscan(p[0], &code)
				var stale *px.Exchange
				for _, w := range warm {
					if w.SharesStreamWith(ex) {
						stale = w
					}
				}
				if stale != nil {
					r, _ := stale.TerminateSafe(code)
					tm = tb(r)
					ex.WaitQuiescentFor(4 * time.Millisecond)
				} else {
					k.up = p[1]
					k.fresh = true
				}
				up = p[1]
			}
			switch {
			case ex.Done():
			case up == "reset":
				a.Reset(types.StreamRemoteReset)
			case strings.HasPrefix(up, "termr"):
				// an in-flight response of the attempt lands inside TerminateStream's reset of the upstream request
				var code int
				fmt.Sscan(up[5:], &code)
				rh, rb, rt := px.AnswerOf(0, true, false)
				a.OnProxyReset(func() { a.RespondInFlight(rh, rb, rt); ex.WaitQuiescentFor(6 * time.Millisecond) })
				tm = tb(ex.Terminate(code))
				a.OnProxyReset(nil)
			case strings.HasPrefix(up, "term"):
				var code int
				fmt.Sscan(up[4:], &code)
				tm = tb(ex.Terminate(code))
			default:
				var code, d, t int
				fmt.Sscanf(up, "r%d:%d:%d", &code, &d, &t)
				rh, rb, rt := px.AnswerOf(0, d == 1, t == 1)
				a.Respond(code, rh, rb, rt)
			}
			if !ex.WaitDone(500 * time.Millisecond) {
				ex.WaitQuiescentFor(25 * time.Millisecond)
			} else {
				ex.WaitQuiescent()
			}
		}
	}

	var out []string
	destroyed := map[int]int{} // kind rg: OnDestroy calls per shared object
	own := [3]string{"-", "-", "-"} // answer tokens of the headers / data / trailers written downstream
	toks := ex.DownToks()
	nd := 0
	nextTok := func() string {
		t := "?"
		if nd < len(toks) {
			t = toks[nd]
		}
		nd++
		return t
	}
	for _, t := range ex.Trace() {
		p := strings.Split(t, ":")
		switch p[0] {
		case "f":
			var gi int
			fmt.Sscan(p[1], &gi)
			out = append(out, fmt.Sprintf("f:%d:%s", local[gi], p[2]))
		case "fs":
			var gi int
			fmt.Sscan(p[1], &gi)
			out = append(out, fmt.Sprintf("fs:%d", local[gi]))
		case "un":
			out = append(out, "un")
		case "uf":
			out = append(out, "uf")
		case "dh":
			out = append(out, t)
			own[0] = nextTok()
		case "dd":
			out = append(out, "dd:"+p[2])
			own[1] = nextTok()
		case "dt":
			out = append(out, "dt")
			own[2] = nextTok()
		case "dr":
			out = append(out, "dr")
		case "fu", "fsu": // kind rg: an object invoked in a phase / as a sender registration it did not make
			out = append(out, t)
		case "fxo":
			var o int
			fmt.Sscan(p[1], &o)
			destroyed[o]++
		}
	}
	if ex.Done() {
		out = append(out, "done=1")
	} else {
		out = append(out, "done=0")
	}
	out = append(out, "own="+own[0]+"/"+own[1]+"/"+own[2], "tm="+tm)
	if k.robj != nil || k.sobj != nil {
		out = append(out, "od="+destroyTok(destroyed))
	}
	return strings.Join(out, " ")
}

// builtinOf configures the real filter so that, on this case, it does what the equivalent script says.
func builtinOf(kind string, f rfilter) px.Builtin {
	deny := len(f.script) > 0 && f.script[0].act == "h"
	switch kind {
	case "ip":
		// block list on the x-ip header; the request carries a listed address iff the case says so
		return px.Builtin{Type: v2.IPAccess, Config: map[string]interface{}{
			"default_action": "allow", "header": "x-ip",
			"ips": []interface{}{map[string]interface{}{"action": "deny", "addrs": []interface{}{"10.1.1.1", "192.168.0.0/16"}}}}}
	case "payload":
		// (the JSON key of max_entity_size carries a trailing blank in v2.StreamPayloadLimit's tag)
		return px.Builtin{Type: v2.PayloadLimit, Config: map[string]interface{}{"max_entity_size ": 3, "http_status": 413}}
	default:
		pct := 0
		if deny {
			pct = 100
		}
		return px.Builtin{Type: v2.FaultStream, Config: map[string]interface{}{
			"abort": map[string]interface{}{"status": 418, "percentage": pct}}}
	}
}

// builtinFilter returns the model-side description of a real filter on a case: phase = the phase its factory registers
// for, script = what it does (deny = SendHijackReply(code) + Stop, else Continue).
func builtinFilter(kind string, k *kase, faultOn bool) rfilter {
	pass := []verdict{{"n", 0, sC}}
	switch kind {
	case "ip":
		if k.ipDeny {
			return rfilter{phase: px.BeforeRoute, script: []verdict{{"h", 403, sS}}, builtin: kind}
		}
		return rfilter{px.BeforeRoute, pass, kind}
	case "payload":
		if k.body { // 7 bytes > max_entity_size 3
			return rfilter{phase: px.AfterRoute, script: []verdict{{"h", 413, sS}}, builtin: kind}
		}
		return rfilter{px.AfterRoute, pass, kind}
	default:
		if faultOn {
			return rfilter{phase: px.AfterRoute, script: []verdict{{"h", 418, sS}}, builtin: kind}
		}
		return rfilter{px.AfterRoute, pass, kind}
	}
}

// waitSettled waits until the exchange is finished or its trace is stable; an unfinished exchange without an upstream
// attempt (worker gave up) is given a longer stability window.
func waitSettled(ex *px.Exchange) {
	if ex.WaitQuiescent() {
		return
	}
	if len(ex.UpstreamAttempts()) == 0 {
		ex.WaitQuiescentFor(25 * time.Millisecond)
	}
}

// ---- generators -------------------------------------------------------------------------------------------------

const (
	sC  = api.StreamFilterContinue
	sS  = api.StreamFilterStop
	sT  = api.StreamFiltertermination
	sRM = api.StreamFilterReMatchRoute
	sRC = api.StreamFilterReChooseHost
)

// the 7 verdicts of the statement
var pure = []verdict{{"n", 0, sC}, {"n", 0, sS}, {"n", 0, sT}, {"h", 403, sS}, {"d", 0, sS}, {"n", 0, sRM}, {"n", 0, sRC}}

// … plus an answer combined with every return status (an answering filter that lets the chain go on is the dangerous
// case), a handler TerminateStream call, an unknown status string
var full = append(append([]verdict{}, pure...),
	verdict{"h", 403, sC}, verdict{"h", 401, sRM}, verdict{"h", 401, sRC}, verdict{"h", 403, sT}, verdict{"hb", 429, sS},
	verdict{"hb", 429, sC},
	verdict{"d", 0, sC}, verdict{"d", 0, sRM}, verdict{"t", 499, sC}, verdict{"t", 499, sS}, verdict{"n", 0, "bogus"})

func isAgain(v verdict) bool { return v.status == sRM || v.status == sRC }

// scripts for a first verdict: a filter that asks for a re-run answers the second invocation with Continue or a deny
func scriptsFor(v verdict) [][]verdict {
	if isAgain(v) {
		return [][]verdict{{v, {"n", 0, sC}}, {v, {"h", 409, sS}}}
	}
	return [][]verdict{{v}}
}

func filtersOver(alpha []verdict) []rfilter {
	var out []rfilter
	for _, ph := range []px.Phase{px.BeforeRoute, px.AfterRoute, px.AfterChooseHost} {
		for _, v := range alpha {
			for _, sc := range scriptsFor(v) {
				out = append(out, rfilter{phase: ph, script: sc})
			}
		}
	}
	return out
}

var sendChains = [][]sfilter{
	{}, {{[]api.StreamFilterStatus{sC}}}, {{nil}, {nil}}, {{[]api.StreamFilterStatus{sS}}, {nil}},
	{{nil}, {[]api.StreamFilterStatus{sT}}}, {{[]api.StreamFilterStatus{sRM}}, {nil}}, {{[]api.StreamFilterStatus{"bogus"}}, {nil}, {nil}},
}

// randEnv draws the environment of a case: mostly the plain forwardable request, sometimes each deviation.
func randEnv(r *hx.Rng, k *kase) {
	k.routes = []string{"f"}
	switch x := r.Intn(20); {
	case x == 0:
		k.routes = []string{"n"}
	case x == 1:
		k.routes = []string{"d418"}
	case x == 2:
		k.routes = []string{"db418"}
	case x == 3:
		k.routes = []string{"f", "n"}
	case x == 4:
		k.routes = []string{"n", "f"}
	case x == 5:
		k.routes = []string{"f", "db302", "f"}
	}
	k.host = !r.Chance(7)
	k.pool = "ok"
	if r.Chance(8) {
		k.pool = r.PickS([]string{"overflow", "connfail"})
	}
	k.oneway = r.Chance(4)
	k.body = r.Chance(30)
	k.trl = r.Chance(10)
	k.up = r.PickS([]string{"r200:0:0", "r200:0:0", "r200:1:0", "r503:1:1", "r404:0:1", "reset", "term499", "termr499"})
	k.send = sendChains[r.Intn(len(sendChains))]
	if r.Chance(60) {
		k.send = sendChains[1+r.Intn(2)]
	}
	k.mix = r.Bool()
}

// allCodes are the status codes the verdict alphabet and the real filters answer with
var allCodes = []int{401, 403, 409, 413, 418, 429, 499}

// withRetry turns a case into one whose forwarding route has a live retry policy: the statuses the filters answer with
// are retriable under it (kind A: rewritten to 5xx; kind B: on the policy's list), the budget varies; what the UPSTREAM does
// stays non-retriable (the model hands a retried request over to C03/C17's machine): responses below 500 / off the
// list, a remote reset, pool overflow — a denied request never gets that far anyway.
func withRetry(r *hx.Rng, k *kase) {
	p := &retryPol{on: true, n: r.Pick([]int{0, 1, 2, 3}), kind: r.PickS([]string{"A", "A", "B", "B", "C"})}
	switch p.kind {
	case "B":
		p.codes = append([]int{}, allCodes...)
		if r.Chance(30) {
			p.codes = append(p.codes, 503)
		}
	case "C":
		p.on = false
	}
	k.retry = p
	// deep copy before touching the scripts (the filter alphabet is shared between cases)
	recv := make([]rfilter, len(k.recv))
	for i, f := range k.recv {
		recv[i] = f
		recv[i].script = append([]verdict{}, f.script...)
		if p.kind == "A" && f.builtin == "" {
			for j, v := range recv[i].script {
				if (v.act == "h" || v.act == "hb" || v.act == "t") && v.code < 500 {
					recv[i].script[j].code = 500 + v.code%100
				}
			}
		}
	}
	k.recv = recv
	if k.pool == "connfail" { // retried by default
		k.pool = "overflow"
	}
	var code, d, t int
	if n, _ := fmt.Sscanf(k.up, "r%d:%d:%d", &code, &d, &t); n == 3 {
		retriable := code >= 500
		if p.kind == "B" {
			retriable = false
			for _, c := range p.codes {
				retriable = retriable || c == code
			}
		}
		if p.kind == "C" {
			retriable = false
		}
		if retriable {
			k.up = fmt.Sprintf("r404:%d:%d", d, t)
		}
	}
}

func randVerdict(r *hx.Rng) verdict {
	if r.Chance(55) {
		return verdict{"n", 0, sC}
	}
	return full[r.Intn(len(full))]
}

// Run: corpus first, then ALL chains of length <= 2 over the full verdict alphabet x 3 phases (thorough: + all chains
// of length 3 whose third filter has a one-verdict script; quick: a seeded sample of those), then random longer
// chains; the environment of each case is drawn from the seed.
func Run(c *hx.Ctx) {
	parts, part := 1, 0
	for i := 0; i+1 < len(c.Args); i++ {
		if c.Args[i] == "-parts" {
			fmt.Sscan(c.Args[i+1], &parts)
		}
	}
	if c.Thorough() && parts > 1 {
		part = int(c.Seed % uint64(parts))
	} else {
		parts = 1
	}
	// hx.Rng streams of neighbouring seeds are shifts of one another: fork twice so that the harness processes of one
	// thorough run (seeds s*1000+k) do not fall into step
	rng := c.Rng.Fork().Fork()
	if os.Getenv("C14_ONLY") == "mx" { // development aid: only the many-stream / update cases
		runMxAll(c, rng)
		return
	}
	var cases []*kase
	add := func(k *kase) {
		// a third of the generated cases (not the corpus, which has routes set by hand before) run with a live retry policy
		if k.routes != nil && !k.corpus && rng.Chance(34) {
			withRetry(rng, k)
		}
		cases = append(cases, k)
	}
	plain := func(k *kase) *kase {
		k.routes, k.host, k.pool, k.up = []string{"f"}, true, "ok", "r200:0:0"
		k.send = sendChains[1]
		k.corpus = true
		return k
	}

	// corpus: minimised past failures and the boundaries of the worker's task loop
	add(plain(&kase{recv: []rfilter{{phase: px.AfterRoute, script: []verdict{{"h", 403, sC}}}, {phase: px.AfterRoute, script: []verdict{{"n", 0, sRM}, {"n", 0, sC}}}}}))
	add(plain(&kase{recv: []rfilter{{phase: px.AfterChooseHost, script: []verdict{{"d", 0, sC}}}, {phase: px.AfterChooseHost, script: []verdict{{"n", 0, sRC}, {"n", 0, sC}}}}}))
	add(plain(&kase{recv: []rfilter{{phase: px.AfterRoute, script: []verdict{{"h", 401, sRM}, {"n", 0, sC}}}}}))
	for _, n := range []int{7, 8, 9, 12} {
		var sc []verdict
		for i := 0; i < n; i++ {
			sc = append(sc, verdict{"n", 0, sRM})
		}
		add(plain(&kase{recv: []rfilter{{phase: px.AfterRoute, script: append(append([]verdict{}, sc...), verdict{"n", 0, sC})}}}))
		add(plain(&kase{recv: []rfilter{{phase: px.AfterRoute, script: append(append([]verdict{}, sc...), verdict{"h", 403, sS})}}}))
	}

	// [proxy8] the task loop's budget used up (fixed: the worker used to leave silently): 9, 10, 11 and 'for ever' (25)
	// requests for re-match-route / re-choose-host, then continue / deny / nothing; two-way and one-way; on a route whose
	// retry policy makes the internal-error reply retriable; with an upstream that resets the forwarded request; with a
	// second filter behind the asking one
	for _, n := range []int{9, 10, 11, 25} {
		for _, again := range []struct {
			ph px.Phase
			st api.StreamFilterStatus
		}{{px.AfterRoute, sRM}, {px.AfterChooseHost, sRC}} {
			var sc []verdict
			for i := 0; i < n; i++ {
				sc = append(sc, verdict{"n", 0, again.st})
			}
			for vi, last := range []verdict{{"n", 0, sC}, {"h", 403, sS}, {"hb", 429, sC}, {"t", 499, sS}} {
				k := plain(&kase{recv: []rfilter{{phase: again.ph, script: append(append([]verdict{}, sc...), last)}}})
				switch (n + vi) % 4 {
				case 1:
					k.oneway = true
				case 2:
					k.retry = &retryPol{on: true, n: 2, kind: "A"}
					k.up = "r404:1:0"
				case 3:
					k.up = "reset"
				}
				add(k)
			}
			k := plain(&kase{recv: []rfilter{{phase: again.ph, script: sc}, {phase: px.AfterChooseHost, script: []verdict{{"h", 401, sS}}}}})
			k.send = sendChains[2]
			add(k)
		}
	}

	// two answering filters in one pass: the first answers WITH a body and lets the chain go on, a later one denies header-only
	// (and the other way round; across the three ways of answering; in every receive phase)
	for _, ph := range []px.Phase{px.BeforeRoute, px.AfterRoute, px.AfterChooseHost} {
		for _, first := range []verdict{{"hb", 429, sC}, {"h", 403, sC}, {"d", 0, sC}} {
			for _, second := range []verdict{{"h", 403, sS}, {"hb", 409, sS}, {"d", 0, sS}, {"h", 401, sC}, {"t", 499, sS}} {
				add(plain(&kase{recv: []rfilter{{phase: ph, script: []verdict{first}}, {phase: ph, script: []verdict{second}}}}))
			}
		}
	}
	// TerminateStream on a kept handler of a FINISHED request whose pooled object the next request runs on (no filter
	// answers: only a request that finishes normally gives its buffers back), and TerminateStream with an in-flight upstream
	// response landing inside the call
	for i := 0; i < c.N(24, 60); i++ {
		var chain []rfilter
		for j := 0; j < i%3; j++ {
			chain = append(chain, rfilter{phase: px.Phase((i + j) % 3), script: []verdict{{"n", 0, sC}}})
		}
		k := plain(&kase{recv: chain})
		k.up = []string{"st419/r200:1:0", "st419/r200:0:0", "st419/r404:1:1", "termr499", "st419/reset"}[i%5]
		add(k)
	}

	// a local reply on a route with a live retry policy (the filter's status is retriable, budget left) must not be
	// retried upstream: every receive phase x every way of answering, under "every 5xx" and under a status-code list
	for _, ph := range []px.Phase{px.BeforeRoute, px.AfterRoute, px.AfterChooseHost} {
		for _, v := range []verdict{{"h", 503, sS}, {"h", 500, sC}, {"hb", 502, sS}, {"t", 503, sC}, {"t", 504, sS}, {"d", 0, sS}, {"h", 599, sRC}} {
			for _, n := range []int{0, 2} {
				k := plain(&kase{recv: []rfilter{{phase: ph, script: []verdict{v, {"n", 0, sC}}}}})
				k.retry = &retryPol{on: true, n: n, kind: "A"}
				k.up = "r404:1:0"
				add(k)
			}
		}
		for _, v := range []verdict{{"h", 403, sS}, {"hb", 429, sC}, {"t", 499, sC}} {
			k := plain(&kase{recv: []rfilter{{phase: ph, script: []verdict{v}}, {phase: px.AfterChooseHost, script: []verdict{{"n", 0, sC}}}}})
			k.retry = &retryPol{on: true, n: 1, codes: append([]int{}, allCodes...), kind: "B"}
			add(k)
		}
	}

	// exhaustive small chains
	fl := filtersOver(full)
	n := 0
	sel := func() bool { n++; return n%parts == part }
	add(&kase{})
	randEnv(rng, cases[len(cases)-1])
	for _, a := range fl {
		if sel() {
			k := &kase{recv: []rfilter{a}}
			randEnv(rng, k)
			add(k)
		}
		for _, b := range fl {
			if sel() {
				k := &kase{recv: []rfilter{a, b}}
				randEnv(rng, k)
				add(k)
			}
		}
	}
	if !c.Thorough() {
		for i := 0; i < 3000; i++ {
			k := &kase{recv: []rfilter{fl[rng.Intn(len(fl))], fl[rng.Intn(len(fl))], fl[rng.Intn(len(fl))]}}
			randEnv(rng, k)
			add(k)
		}
	}
	if c.Thorough() {
		for _, a := range fl {
			for _, b := range fl {
				for _, d := range fl {
					if sel() && len(d.script) == 1 { // third filter with a one-verdict script keeps the cube affordable
						k := &kase{recv: []rfilter{a, b, d}}
						randEnv(rng, k)
						add(k)
					}
				}
			}
		}
	}
	// the real deny filters of MOSN (ip_access, payload_limit, fault) as concrete instances among scripted filters
	for i := 0; i < c.N(600, 1500); i++ {
		k := &kase{}
		randEnv(rng, k)
		k.ipDeny = rng.Chance(40)
		kind := []string{"ip", "payload", "fault"}[i%3]
		var chain []rfilter
		for j := 0; j < rng.Intn(3); j++ {
			chain = append(chain, fl[rng.Intn(len(fl))])
		}
		pos := rng.Intn(len(chain) + 1)
		bf := builtinFilter(kind, k, rng.Chance(50))
		chain = append(chain[:pos], append([]rfilter{bf}, chain[pos:]...)...)
		if rng.Chance(25) { // two real filters in one chain
			chain = append(chain, builtinFilter([]string{"ip", "payload", "fault"}[(i+1)%3], k, rng.Chance(50)))
		}
		k.recv = chain
		add(k)
	}
	// random longer chains, mostly-continue with deviations
	for i := 0; i < c.N(1500, 4000); i++ {
		k := &kase{}
		ln := 3 + rng.Intn(6)
		for j := 0; j < ln; j++ {
			f := rfilter{phase: px.Phase(rng.Intn(3))}
			for s := 0; s < 1+rng.Intn(3); s++ {
				f.script = append(f.script, randVerdict(rng))
			}
			if rng.Chance(15) {
				f.script = nil
			}
			k.recv = append(k.recv, f)
		}
		randEnv(rng, k)
		add(k)
	}

	// one filter OBJECT registered for several phases / as a sender filter as well: kind rg (c14_regs.go)
	addRegCases(c, rng, parts, part, add)

	// run: 8 workers (4 in the thorough tier, where several harness processes run side by side); results in case order
	workers := 8
	if c.Thorough() {
		workers = 4
	}
	res := make([]string, len(cases))
	var next int32 = -1
	var wg sync.WaitGroup
	for w := 0; w < workers; w++ {
		wg.Add(1)
		go func() {
			defer wg.Done()
			for {
				i := int(atomic.AddInt32(&next, 1))
				if i >= len(cases) {
					return
				}
				k := cases[i]
				var out string
				if msg, bad := hx.Safe(func() { out = runCase(k) }); bad {
					out = "panic:" + hx.Tok(msg)
				}
				res[i] = out
			}
		}()
	}
	wg.Wait()
	for i, k := range cases {
		c.Emit("C14", k.tok(), res[i])
		countRegs(c, k)
		c.Count(fmt.Sprintf("recv.len=%d", len(k.recv)))
		c.Count(fmt.Sprintf("send.len=%d", len(k.send)))
		c.Count("route=" + strings.Join(k.routes, ","))
		c.Count("up=" + k.up)
		if k.fresh {
			c.Count("stale.fresh") // the pool handed out another object: the stale call was not made
		}
		c.Count("pool=" + k.pool)
		if k.retry != nil {
			c.Count("retry=" + k.retry.kind)
			c.Count(fmt.Sprintf("retry.n=%d", k.retry.n))
			for _, f := range k.recv {
				for _, v := range f.script {
					if v.act == "h" || v.act == "hb" || v.act == "t" || v.act == "d" {
						c.Count("retry.answer." + []string{"b", "r", "c"}[f.phase] + "=" + v.act)
						break
					}
				}
			}
		} else {
			c.Count("retry=off")
		}
		for _, f := range k.recv {
			if f.builtin != "" {
				d := "pass"
				if f.script[0].act == "h" {
					d = "deny"
				}
				c.Count("builtin=" + f.builtin + ":" + d)
			}
		}
		for _, t := range []string{" un", " uf", " dh:", "done=0"} {
			if strings.Contains(" "+res[i], t) {
				c.Count("out" + strings.TrimSpace(t))
			}
		}
		for _, f := range k.recv {
			for _, v := range f.script {
				c.Count("verdict=" + v.act + "~" + string(v.status))
			}
		}
	}
	// many streams (filter instances) and configuration updates: kind mx (c14_multi.go)
	runMxAll(c, rng)
}
