//go:build verif

package c20

// Kind `raw`: ONE JSON text as the content of one untyped hole, followed through every way it can reach a dump.
//
// The text is generated at the byte level: the key that decodes and folds to private_key is spelled in every
// escape variant (each single character escaped, all escaped, mixed case with escapes, KELVIN SIGN literal and
// escaped), nested in objects and arrays, with varied white space, exact duplicates, look-alike decoys, big
// numbers, surrogate pairs, plus a malformed stream (truncation, unknown escapes, trailing garbage, control
// characters …).  Position `ext` keeps the text verbatim (json.RawMessage: SetExtend, the only raw hole of the
// effective config that is not assumed plain); positions nf / sf / lf / sink decode it into the
// map[string]interface{} of a network / stream / listener filter or a metrics sink first (the spelling is gone
// there — both must give the same dump).  For every case the harness also asks what MOSN's own consumers would
// read: the text is unmarshalled with encoding/json into v2.TLSConfig at every object (and into the tunnel
// agent's bootstrap struct), so a marker of class H is by construction a key that a consumer receives.

import (
	"encoding/json"
	"fmt"
	"reflect"
	"sort"
	"strings"
	"unicode/utf8"

	v2 "mosn.io/mosn/pkg/config/v2"
	"mosn.io/mosn/pkg/configmanager"
	"verif/harness/hx"
)

// consumerReads collects the PrivateKey every object of the document yields when it is unmarshalled into MOSN's
// TLS config type the way the extensions do (encoding/json: escapes decoded, names folded, last duplicate wins).
func consumerReads(raw []byte, out *[]string) {
	var tls v2.TLSConfig
	_ = json.Unmarshal(raw, &tls) // a type error of another member does not stop the decoding of private_key
	if tls.PrivateKey != "" {
		*out = append(*out, tls.PrivateKey)
	}
	var m map[string]json.RawMessage
	if json.Unmarshal(raw, &m) == nil {
		for _, e := range m {
			consumerReads(e, out)
		}
		return
	}
	var a []json.RawMessage
	if json.Unmarshal(raw, &a) == nil {
		for _, e := range a {
			consumerReads(e, out)
		}
	}
}

// agentLike is the shape of tunnel.AgentBootstrapConfig as far as TLS goes (pkg/filter/network/tunnel/agent.go).
type agentLike struct {
	Enable     bool          `json:"enable"`
	TLSContext *v2.TLSConfig `json:"tls_context"`
}

func (g *gen) ws() string {
	if g.r.Chance(70) {
		return ""
	}
	return g.r.PickS([]string{" ", "  ", "\n", "\t", " \r\n "})
}

// rawText builds one document. class H secrets sit under keys that decode and fold to private_key.
func (g *gen) rawText() (text string, shape string) {
	r := g.r
	w := g.ws
	val := func(class string) string {
		switch r.Intn(12) {
		case 0:
			return `""`
		case 1:
			return `"` + placeholder + `"`
		}
		return g.valLit(g.marker(class))
	}
	member := func() string { return g.keyLit() + w() + ":" + w() + val("H") }
	filler := func() string {
		switch r.Intn(8) {
		case 0:
			return `"n":12345678901234567890`
		case 1:
			return `"e":-1.5e+400`
		case 2:
			return `"html":"<a&b>"`
		case 3:
			return "\"pair\":\"x\\ud83d\\ude00y\""
		case 4:
			return "\"\\ud83d\\ude00\":true"
		case 5:
			return `"cert_chain":"cert"`
		case 6:
			return r.PickS(decoyKeyLits) + `:"` + g.marker("P") + `"`
		}
		return `"status":` + r.PickS([]string{"true", "false", "null", `"yes"`, "0"})
	}
	obj := func(members ...string) string {
		var ms []string
		for _, m := range members {
			if r.Chance(35) {
				ms = append(ms, filler())
			}
			ms = append(ms, m)
		}
		if r.Chance(35) {
			ms = append(ms, filler())
		}
		return "{" + w() + strings.Join(ms, w()+","+w()) + w() + "}"
	}
	ctx := func() string { return obj(member()) }
	switch r.Intn(13) {
	case 0:
		shape = "top-level-key"
		text = ctx()
	case 1:
		shape = "tls_context"
		text = obj(`"enable":true`, `"tls_context":`+w()+ctx())
	case 2:
		shape = "servers-array"
		text = obj(`"servers":[` + w() + obj(`"address":"127.0.0.1:1"`, `"tls_context":`+ctx()) + "," + obj(`"tls_context":`+ctx()) + w() + `]`)
	case 3:
		shape = "array-in-array"
		text = obj(`"a":[[1,[` + ctx() + `,"x"]],{"b":[` + ctx() + `]}]`)
	case 4:
		shape = "top-level-array"
		text = "[" + w() + ctx() + "," + w() + `7,null,` + obj(`"tls_context":`+ctx()) + w() + "]"
	case 5:
		shape = "deep"
		d := 3 + r.Intn(40)
		text = strings.Repeat(`{"x":[`, d) + ctx() + strings.Repeat(`]}`, d)
	case 6:
		shape = "dup-last-is-real" // the consumer's struct and the redactor's map both keep the last member
		k := g.keyLit()
		text = obj(k+`:""`, k+":"+g.valLit(g.marker("H")))
	case 7:
		shape = "dup-shadowed" // an earlier member shadowed by a later empty one is not a configured key
		text = `{"private_key":"` + g.marker("P") + `","private_key":""}`
	case 8:
		shape = "non-string-under-key"
		text = obj(g.keyLit() + `:[` + `"` + g.marker("P") + `",7,` + ctx() + `]`)
	case 9:
		shape = "no-key"
		text = obj(filler(), `"enable":false`)
	case 10:
		shape = "scalar"
		text = r.PickS([]string{`"private_key"`, "null", "123", "true", `"zznotamarkerzz"`})
	case 11:
		shape = "two-contexts"
		text = obj(`"tls_context":`+ctx(), `"upstream":`+obj(`"tls_context":`+ctx()))
	case 12:
		shape = "key-case-variants-in-siblings"
		text = obj(`"a":`+ctx(), `"b":`+ctx(), `"c":`+ctx())
	}
	return w() + text + w(), shape
}

// spoil turns a document into one of the malformed stream.
func (g *gen) spoil(text string) (string, string) {
	r := g.r
	t := strings.TrimSpace(text)
	switch r.Intn(12) {
	case 0:
		if len(t) > 2 {
			cut := 1 + r.Intn(len(t)-1)
			for cut > 1 && !utf8.ValidString(t[:cut]) { // texts are valid UTF-8 (the model's texts are character lists)
				cut--
			}
			return t[:cut], "truncated"
		}
		return "{", "truncated"
	case 1:
		return strings.Replace(t, ":", ":\"\\x41\",\"q\":", 1), "unknown-escape"
	case 2:
		return strings.ReplaceAll(t, `"`, `'`), "single-quotes"
	case 3:
		return t + " trailing", "trailing-garbage" // the first value is still decoded by Decoder.Decode
	case 4:
		return `{"a":1} ` + t, "second-value" // the key sits in a second value of the stream
	case 5:
		return strings.Replace(t, ":", "\x01:", 1), "control-character"
	case 6:
		return strings.Replace(t, ":", ":01,\"q\":", 1), "leading-zero-number"
	case 7:
		return strings.Replace(t, ":", ":\"\\u12\",\"q\":", 1), "short-hex-escape"
	case 8:
		if strings.HasSuffix(t, "}") {
			return t[:len(t)-1] + ",}", "trailing-comma"
		}
		return t + ",", "trailing-comma"
	case 9:
		return "", "empty"
	case 10:
		return " \n ", "white-space-only"
	default:
		return "\xef\xbb\xbf" + t, "byte-order-mark"
	}
}

func rawSection(pos string) (out string, ok bool) {
	defer func() {
		if recover() != nil {
			ok = false
		}
	}()
	filterCfg := func(fs []v2.Filter) {
		b, err := json.Marshal(fs[0].Config)
		if err == nil {
			out, ok = string(b), true
		}
	}
	switch pos {
	case "ext":
		configmanager.HandleMOSNConfig(configmanager.CfgTypeExtend, func(v interface{}) {
			es := v.([]v2.ExtendConfig)
			out, ok = string(es[0].Config), true
		})
	case "sink":
		configmanager.HandleMOSNConfig(configmanager.CfgTypeMOSN, func(v interface{}) {
			filterCfg(v.(v2.MOSNConfig).Metrics.SinkConfigs)
		})
	default:
		configmanager.HandleMOSNConfig(configmanager.CfgTypeListener, func(v interface{}) {
			l := v.(map[string]v2.Listener)["l0"]
			switch pos {
			case "nf":
				filterCfg(l.FilterChains[0].Filters)
			case "sf":
				filterCfg(l.StreamFilters)
			case "lf":
				filterCfg(l.ListenerFilters)
			}
		})
	}
	return
}

// fixedRawTexts: the boundary spellings every run replays first, whatever the seed: the key with each single
// character written as an escape (lower and upper case hex digits), with every character escaped, with the KELVIN
// SIGN, nested below an array, and the two documents of the seeded fast-path change. Marker H1 (and H2) by hand.
func fixedRawTexts() []string {
	const key = "private_key"
	bs := "\\"
	var out []string
	for i := 0; i < len(key); i++ {
		for _, f := range []string{"%04x", "%04X"} {
			k := key[:i] + bs + "u" + fmt.Sprintf(f, key[i]) + key[i+1:]
			out = append(out, `{"tls_context":{"status":true,"`+k+`":"zqH1qz"}}`)
		}
	}
	all := ""
	for i := 0; i < len(key); i++ {
		all += bs + "u" + fmt.Sprintf("%04x", key[i])
	}
	out = append(out,
		`{"`+all+`":"zqH1qz"}`,
		`{"servers":[{"address":"127.0.0.1:1","tls_context":{"status":true,"`+bs+`u0070rivate_key":"zqH1qz"}},{"tls_context":{"PRIVATE`+bs+`u005FKEY":"zqH2qz"}}]}`,
		`{"enable":true,"tls_context":{"status":true,"cert_chain":"/etc/cert.pem","private`+bs+`u005fkey":"zqH1qz"}}`,
		`{"private_`+bs+`u212aey":"zqH1qz","a":[[{"private_\u212aey":"zqH2qz"}]]}`,
		`{"tls_context":{"private_key":"zq`+bs+`u00481qz"}}`,
		`[{"Private`+bs+`u005fKey":"zqH1qz"}]`,
	)
	return out
}

func rawCase(c *hx.Ctx, r *hx.Rng, malformed bool) { rawCaseOf(c, r, malformed, "") }

func rawCaseOf(c *hx.Ctx, r *hx.Rng, malformed bool, fixed string) {
	g := &gen{c: c, r: r, size: 1}
	var text, shape string
	if fixed != "" {
		text, shape = fixed, "fixed"
		for _, id := range []string{"H1", "H2"} {
			if strings.Contains(text, id) || strings.Contains(text, id[1:]+"qz") {
				g.markers = append(g.markers, id)
				g.nH++
			}
		}
	} else {
		text, shape = g.rawText()
	}
	if malformed {
		text, shape = g.spoil(text)
		shape = "malformed:" + shape
	}
	c.Count("raw.shape=" + shape)
	var asMap map[string]interface{}
	isObject := json.Unmarshal([]byte(text), &asMap) == nil && asMap != nil
	pos := "ext"
	if isObject && fixed == "" && r.Chance(40) {
		pos = r.PickS([]string{"nf", "sf", "lf", "sink"})
	}
	c.Count("raw.pos=" + pos)

	// what MOSN's consumers read from this text
	var reads []string
	consumerReads([]byte(text), &reads)
	var a agentLike
	if json.Unmarshal([]byte(text), &a) == nil && a.TLSContext != nil && a.TLSContext.PrivateKey != "" {
		c.Count("raw.consumer=tunnel-agent-shape-reads-a-key")
	}
	readSet := map[string]bool{}
	for _, s := range reads {
		if strings.HasPrefix(s, "zq") && strings.HasSuffix(s, "qz") && len(s) >= 6 {
			readSet[s[2:len(s)-2]] = true
		}
	}
	valid := json.Valid([]byte(text))
	for _, id := range g.markers {
		switch {
		case id[0] == 'H' && valid && !readSet[id]:
			panic(fmt.Sprintf("c20 raw: marker %s is not a key a consumer reads: %q", id, text))
		case id[0] == 'P' && readSet[id]:
			panic(fmt.Sprintf("c20 raw: decoy %s is read as a private key: %q", id, text))
		}
	}
	var readIDs []string
	for id := range readSet {
		readIDs = append(readIDs, id)
	}
	sort.Slice(readIDs, func(i, j int) bool { return markerLess(readIDs[i], readIDs[j]) })
	if len(readIDs) > 0 {
		c.Count("raw.consumer=reads-a-key")
	} else {
		c.Count("raw.consumer=reads-no-key")
	}

	// place it
	configmanager.Reset()
	caseToks := "raw " + pos + " " + "R" + esc(text)
	filter := v2.Filter{Type: "x", Config: asMap}
	switch pos {
	case "ext":
		configmanager.SetExtend("e0", json.RawMessage(text))
	case "sink":
		cfg := &v2.MOSNConfig{}
		cfg.Metrics.SinkConfigs = []v2.Filter{filter}
		caseToks += " mosn:" + ser(reflect.ValueOf(*cfg))
		configmanager.SetMosnConfig(cfg)
	default:
		var l v2.Listener
		l.Name = "l0"
		switch pos {
		case "nf":
			l.FilterChains = []v2.FilterChain{{}}
			l.FilterChains[0].Filters = []v2.Filter{filter}
		case "sf":
			l.StreamFilters = []v2.Filter{filter}
		case "lf":
			l.ListenerFilters = []v2.Filter{filter}
		}
		caseToks += " lis:" + ser(reflect.ValueOf(l))
		configmanager.SetListenerConfig(l)
	}

	frameOK := true
	before := snapshot()
	sec, secOK := rawSection(pos)
	if snapshot() != before {
		frameOK = false
		c.Count("frame.changed-by=section")
	}
	res := []string{"reads=" + strings.Join(readIDs, ","), "sec=-"}
	if secOK {
		res[1] = "sec=S" + esc(sec)
	}
	if sec == text {
		c.Count("raw.section=returned-as-is")
	} else {
		c.Count("raw.section=rewritten")
	}
	for _, q := range [][2]string{{"GET", ""}, {"GET", "?mosnconfig"}, {"GET", "?alllisteners"}, {"GET", "?listener=l0"}, {"GET", "?allclusters"}} {
		before := snapshot()
		code, body := dump(q[0], q[1])
		if snapshot() != before {
			frameOK = false
			c.Count("frame.changed-by=raw" + q[1])
		}
		res = append(res, g.scan(code, body))
	}
	// the persisted configuration keeps what was configured
	if _, err := configmanager.InheritMosnconfig(); err != nil {
		c.Count("raw.persist=error")
	}
	if snapshot() != before {
		frameOK = false
		c.Count("frame.changed-by=raw-persist")
	}
	fr := "frame=ok"
	if !frameOK {
		fr = "frame=changed"
	}
	c.Emit("C20", caseToks, strings.Join(res, " ")+" "+fr)
}
