//go:build verif

// Package c20: the admin config dump never leaks TLS private keys and never alters the live config.
//
// Configurations are built by reflection over MOSN's own config types: every v2.TLSConfig reachable from the
// effective config gets a distinct marker secret (class K), every untyped hole known to carry TLS contexts
// (Filter.Config, ExtendConfig.Config) gets JSON with marker secrets under keys that fold to "private_key"
// (class H) plus decoys, a few other holes get survivors (class P). Histories of runtime updates are applied
// through the exported configmanager API, the real admin ConfigDump handler is called with every parameter
// form (httptest), the bodies are searched for the markers, and the live config (verif hook) is deep-printed
// before/after every dump. Every value handed to MOSN is printed, by reflection, in the Val syntax of the model.
package c20

import (
	"encoding/json"
	"fmt"
	"net/http/httptest"
	"reflect"
	"sort"
	"strings"

	admin "mosn.io/mosn/pkg/admin/server"
	v2 "mosn.io/mosn/pkg/config/v2"
	"mosn.io/mosn/pkg/configmanager"
	"verif/harness/hx"
)

func init() { hx.Register("C20", Run) }

const v2Pkg = "mosn.io/mosn/pkg/config/v2"
const placeholder = "***REDACTED***"

var (
	tlsType = reflect.TypeOf(v2.TLSConfig{})
	rawType = reflect.TypeOf(json.RawMessage{})
	holeMap = reflect.TypeOf(map[string]interface{}{})
)

// ---------------------------------------------------------------- escaping and the Val printer

func esc(s string) string {
	var sb strings.Builder
	for i := 0; i < len(s); i++ {
		c := s[i]
		if c >= 'a' && c <= 'z' || c >= 'A' && c <= 'Z' || c >= '0' && c <= '9' || c == '_' || c == '.' || c == '-' {
			sb.WriteByte(c)
		} else {
			fmt.Fprintf(&sb, "%%%02x", c)
		}
	}
	return sb.String()
}

func isV2Struct(t reflect.Type) bool { return t.Kind() == reflect.Struct && t.PkgPath() == v2Pkg }

func isHole(t reflect.Type) bool {
	if t == rawType || t == holeMap {
		return true
	}
	return t.Kind() == reflect.Interface && t.NumMethod() == 0
}

// external named types are opaque leaves of the graph (api.Metadata, api.DurationConfig, time.Duration, net.Addr …)
func isExt(t reflect.Type) bool {
	return t.PkgPath() != "" && t.PkgPath() != v2Pkg && t != rawType
}

func holeJSON(v reflect.Value) string {
	if v.Type() == rawType {
		if v.Len() == 0 {
			return "null"
		}
		return string(v.Bytes())
	}
	if (v.Kind() == reflect.Map || v.Kind() == reflect.Interface) && v.IsNil() {
		return "null"
	}
	b, err := json.Marshal(v.Interface())
	if err != nil {
		panic(err)
	}
	return string(b)
}

// ser prints a Go value in the model's Val syntax (struct fields: non-zero ones only).
func ser(v reflect.Value) string {
	t := v.Type()
	if isHole(t) {
		return "H" + esc(holeJSON(v))
	}
	if isExt(t) {
		return "L"
	}
	switch t.Kind() {
	case reflect.String:
		return "S" + esc(v.String())
	case reflect.Struct:
		if !isV2Struct(t) {
			return "L"
		}
		var parts []string
		for i := 0; i < t.NumField(); i++ {
			f := v.Field(i)
			if f.IsZero() {
				continue
			}
			parts = append(parts, esc(t.Field(i).Name)+"="+ser(f))
		}
		return "T" + esc(t.Name()) + "(" + strings.Join(parts, ",") + ")"
	case reflect.Slice, reflect.Array:
		var parts []string
		for i := 0; i < v.Len(); i++ {
			parts = append(parts, ser(v.Index(i)))
		}
		return "A(" + strings.Join(parts, ",") + ")"
	case reflect.Ptr:
		if v.IsNil() {
			return "A()"
		}
		return "A(" + ser(v.Elem()) + ")"
	case reflect.Map:
		keys := v.MapKeys()
		sort.Slice(keys, func(i, j int) bool { return keys[i].String() < keys[j].String() })
		var parts []string
		for _, k := range keys {
			parts = append(parts, esc(k.String())+"="+ser(v.MapIndex(k)))
		}
		return "M(" + strings.Join(parts, ",") + ")"
	case reflect.Interface, reflect.Func, reflect.Chan:
		return "L"
	}
	return "L"
}

// ---------------------------------------------------------------- reflection facts about the type graph

type typeInfo struct {
	secret map[reflect.Type]bool // reaches a TLSConfig or a hole
}

func (ti *typeInfo) reaches(t reflect.Type, depth int) bool {
	if depth > 40 {
		return false
	}
	if t == tlsType || isHole(t) {
		return true
	}
	if isExt(t) {
		return false
	}
	switch t.Kind() {
	case reflect.Ptr, reflect.Slice, reflect.Array, reflect.Map:
		return ti.reaches(t.Elem(), depth+1)
	case reflect.Struct:
		if !isV2Struct(t) {
			return false
		}
		if r, ok := ti.secret[t]; ok {
			return r
		}
		ti.secret[t] = false
		r := false
		for i := 0; i < t.NumField(); i++ {
			if ti.reaches(t.Field(i).Type, depth+1) {
				r = true
			}
		}
		ti.secret[t] = r
		return r
	}
	return false
}

func kindOf(t reflect.Type) string {
	for {
		if t == tlsType {
			return "tls"
		}
		if isHole(t) {
			return "hole"
		}
		if isExt(t) {
			return ""
		}
		switch t.Kind() {
		case reflect.Ptr, reflect.Slice, reflect.Array, reflect.Map:
			t = t.Elem()
			continue
		}
		return ""
	}
}

func graphFacts() []string {
	seen := map[reflect.Type]bool{}
	var facts []string
	var walk func(t reflect.Type)
	walk = func(t reflect.Type) {
		if isHole(t) || isExt(t) {
			return
		}
		switch t.Kind() {
		case reflect.Ptr, reflect.Slice, reflect.Array, reflect.Map:
			walk(t.Elem())
		case reflect.Struct:
			if seen[t] {
				return
			}
			seen[t] = true
			for i := 0; i < t.NumField(); i++ {
				f := t.Field(i)
				if isV2Struct(t) {
					if k := kindOf(f.Type); k != "" {
						facts = append(facts, t.Name()+"."+f.Name+"="+k)
					}
				}
				walk(f.Type)
			}
		}
	}
	root := reflect.TypeOf(configmanager.VerifLiveConfig{})
	for i := 0; i < root.NumField(); i++ {
		walk(root.Field(i).Type)
	}
	sort.Strings(facts)
	return facts
}

// ---------------------------------------------------------------- generator

type gen struct {
	c         *hx.Ctx
	r         *hx.Rng
	ti        *typeInfo
	nK        int
	nH        int
	nP        int
	markers   []string // ids issued in this history: K1, H2, P3 …
	size      int      // 0 small … 2 large
	plainKeys bool     // no JSON escapes in generated hole texts
}

func (g *gen) marker(class string) string {
	var n int
	switch class {
	case "K":
		g.nK++
		n = g.nK
	case "H":
		g.nH++
		n = g.nH
	default:
		g.nP++
		n = g.nP
	}
	id := fmt.Sprintf("%s%d", class, n)
	g.markers = append(g.markers, id)
	return "zq" + id + "qz"
}

var pkSpellings = []string{"private_key", "private_key", "private_key", "PRIVATE_KEY", "Private_Key", "private_Key", "private_Key", "PRIVATE_KEY"}
var decoyKeys = []string{"private_key_file", "privatekey", "key", "cert_chain", "private_key ", "private-key", "pk"}

// decoy key literals (JSON text, with quotes) that only LOOK like an escaped spelling of the key: an escaped
// backslash (decodes to 16 characters: private, backslash, u005f, key), an escape of a different character,
// escapes that complete a longer key, a lone surrogate escape (decodes to U+FFFD).
var decoyKeyLits = []string{"\"private\\\\u005fkey\"", "\"private\\u002dkey\"", "\"private\\u005fkey\\u005ffile\"",
	"\"\\u0070rivatekey\"", "\"private_key\\ud800\"", "\"private\\u005f\\u005fkey\""}

// uEsc writes the backslash-u escape of a BMP character with hex digits of random case.
func uEsc(r *hx.Rng, c rune) string {
	h := fmt.Sprintf("%04x", c)
	var sb strings.Builder
	sb.WriteString(`\u`)
	for i := 0; i < 4; i++ {
		if r.Bool() {
			sb.WriteString(strings.ToUpper(h[i : i+1]))
		} else {
			sb.WriteByte(h[i])
		}
	}
	return sb.String()
}

// keyLit returns the JSON text (with quotes) of an object key that DECODES and folds to private_key: plain and
// case variants (incl. the KELVIN SIGN, which Unicode simple folding, hence encoding/json and strings.EqualFold,
// identifies with k), each single character escaped, all characters escaped, mixed case with escapes, the KELVIN
// SIGN escaped. JSON escapes survive only in json.RawMessage holes; a decoded map holds the decoded key.
func (g *gen) keyLit() string {
	r := g.r
	base := []rune(r.PickS(pkSpellings))
	mode := r.Intn(12)
	if g.plainKeys {
		mode = 0
	}
	var sb strings.Builder
	sb.WriteByte('"')
	switch {
	case mode < 4:
		g.c.Count("key.spelling=plain-or-case")
		sb.WriteString(string(base))
	case mode < 7:
		i := r.Intn(len(base))
		g.c.Count(fmt.Sprintf("key.spelling=one-escaped@%d", i))
		for j, c := range base {
			if j == i {
				sb.WriteString(uEsc(r, c))
			} else {
				sb.WriteRune(c)
			}
		}
	case mode < 8:
		g.c.Count("key.spelling=all-escaped")
		for _, c := range base {
			sb.WriteString(uEsc(r, c))
		}
	case mode < 10:
		g.c.Count("key.spelling=mixed-case-and-escapes")
		for _, c := range base {
			if c < 128 {
				if r.Bool() {
					c = []rune(strings.ToUpper(string(c)))[0]
				} else {
					c = []rune(strings.ToLower(string(c)))[0]
				}
			}
			if r.Chance(40) {
				sb.WriteString(uEsc(r, c))
			} else {
				sb.WriteRune(c)
			}
		}
	default:
		g.c.Count("key.spelling=kelvin-escaped")
		for _, c := range base {
			if c == 'k' || c == 'K' || c == 0x212A {
				sb.WriteString(uEsc(r, 0x212A))
			} else {
				sb.WriteRune(c)
			}
		}
	}
	sb.WriteByte('"')
	return sb.String()
}

// valLit returns the JSON text of a string value; now and then one character is spelled as an escape (the consumer
// still reads the same value, a dump that leaked it would show the escaped spelling).
func (g *gen) valLit(s string) string {
	if s == "" || g.plainKeys || !g.r.Chance(12) {
		return `"` + s + `"`
	}
	g.c.Count("hole.value=escaped-char")
	i := g.r.Intn(len(s))
	return `"` + s[:i] + uEsc(g.r, rune(s[i])) + s[i+1:] + `"`
}

// tlsJSON builds the JSON text of an object that embeds TLS contexts with secrets of class `class`
// (H = must be redacted, P = plain hole: survives) in varied shapes, plus decoys of class P.
func (g *gen) tlsJSON(class string) string {
	r := g.r
	keyVal := func() string {
		switch r.Intn(10) {
		case 0:
			g.c.Count("hole.key=empty")
			return `""`
		case 1:
			g.c.Count("hole.key=placeholder")
			return `"` + placeholder + `"`
		}
		return g.valLit(g.marker(class))
	}
	ctx := func() string {
		parts := []string{`"status":true`, g.keyLit() + ":" + keyVal()}
		if r.Chance(40) {
			parts = append(parts, `"cert_chain":"cert"`)
		}
		if r.Chance(20) { // decoy: a key that does not fold to private_key
			if r.Chance(40) && !g.plainKeys {
				g.c.Count("key.decoy=escape-lookalike")
				parts = append(parts, r.PickS(decoyKeyLits)+`:"`+g.marker("P")+`"`)
			} else {
				parts = append(parts, fmt.Sprintf(`%q:"%s"`, r.PickS(decoyKeys), g.marker("P")))
			}
		}
		return "{" + strings.Join(parts, ",") + "}"
	}
	var parts []string
	switch r.Intn(7) {
	case 0:
		g.c.Count("hole.shape=tls_context")
		parts = append(parts, `"tls_context":`+ctx())
	case 1:
		g.c.Count("hole.shape=nested")
		parts = append(parts, `"a":{"b":[1,{"tls_context":`+ctx()+`},"x"]}`)
	case 2:
		g.c.Count("hole.shape=array-of-contexts")
		parts = append(parts, `"tls_context_set":[`+ctx()+`,`+ctx()+`]`)
	case 3:
		g.c.Count("hole.shape=top-level-key")
		parts = append(parts, g.keyLit()+":"+keyVal())
	case 4:
		g.c.Count("hole.shape=non-string-under-key")
		// a non-string under the key is not a TLS key: arrays / numbers / objects stay, but a key nested inside is still found
		parts = append(parts, fmt.Sprintf(`%s:["%s",7,{%s:%s}]`, g.keyLit(), g.marker("P"), g.keyLit(), keyVal()))
	case 5:
		g.c.Count("hole.shape=no-key")
		parts = append(parts, `"enable":false,"n":12345678901234567890`)
	case 6:
		g.c.Count("hole.shape=two-contexts")
		parts = append(parts, `"tls_context":`+ctx(), `"upstream":{"tls_context":`+ctx()+`}`)
	}
	if r.Chance(30) {
		parts = append(parts, `"enable":true`)
	}
	return "{" + strings.Join(parts, ",") + "}"
}

func holeClass(owner reflect.Type, field string) string {
	switch owner.Name() + "." + field {
	case "Filter.Config", "ExtendConfig.Config":
		return "H"
	case "VirtualHost.PerFilterConfig", "RouterConfig.PerFilterConfig", "HealthCheckConfig.SessionConfig",
		"TLSConfig.ExtendVerify", "TracingConfig.Config", "ThirdPartCodec.Config",
		"MOSNConfig.RawDynamicResources", "MOSNConfig.RawStaticResources", "MOSNConfig.Node":
		return "P"
	}
	return ""
}

func (g *gen) word() string {
	return g.r.PickS([]string{"a", "b", "srv", "x1", "tcp", "", "v", "127.0.0.1:80"})
}

// fill populates v (settable) of a v2 type.
func (g *gen) fill(v reflect.Value, owner reflect.Type, field string, depth int) {
	t := v.Type()
	r := g.r
	if isHole(t) {
		class := ""
		if owner != nil {
			class = holeClass(owner, field)
		}
		if class == "" || (class == "P" && !r.Chance(35)) || (class == "H" && r.Chance(10)) {
			return // nil hole
		}
		js := g.tlsJSON(class)
		switch {
		case t == rawType:
			v.SetBytes([]byte(js))
		default:
			var m map[string]interface{}
			if err := json.Unmarshal([]byte(js), &m); err != nil {
				panic(err)
			}
			v.Set(reflect.ValueOf(m))
		}
		return
	}
	if isExt(t) || depth > 14 {
		return
	}
	switch t.Kind() {
	case reflect.String:
		v.SetString(g.str(t, owner, field))
	case reflect.Bool:
		b := r.Bool()
		v.SetBool(b)
		countAttr(g.c, owner, field, fmt.Sprint(b))
	case reflect.Int, reflect.Int8, reflect.Int16, reflect.Int32, reflect.Int64:
		v.SetInt(int64(r.Intn(5)))
	case reflect.Uint, reflect.Uint8, reflect.Uint16, reflect.Uint32, reflect.Uint64:
		v.SetUint(uint64(r.Intn(5)))
	case reflect.Float32, reflect.Float64:
		v.SetFloat(float64(r.Intn(3)))
	case reflect.Ptr:
		rich := g.ti.reaches(t.Elem(), 0)
		if (rich && r.Chance(80)) || (!rich && r.Chance(25)) {
			p := reflect.New(t.Elem())
			g.fill(p.Elem(), owner, field, depth+1)
			v.Set(p)
		}
	case reflect.Slice:
		rich := g.ti.reaches(t.Elem(), 0)
		n := 0
		if rich {
			n = []int{0, 1, 1, 2, 2}[r.Intn(5)]
			if g.size == 0 && n > 1 {
				n = 1
			}
		} else if r.Chance(25) {
			n = 1
		}
		if n == 0 {
			if r.Chance(30) {
				v.Set(reflect.MakeSlice(t, 0, 0)) // empty, non-nil
			}
			return
		}
		s := reflect.MakeSlice(t, n, n+r.Intn(2)) // spare capacity now and then
		for i := 0; i < n; i++ {
			g.fill(s.Index(i), owner, field, depth+1)
		}
		v.Set(s)
	case reflect.Map:
		if t.Key().Kind() != reflect.String || !r.Chance(40) {
			return
		}
		m := reflect.MakeMap(t)
		e := reflect.New(t.Elem()).Elem()
		g.fill(e, owner, field, depth+1)
		m.SetMapIndex(reflect.ValueOf("k").Convert(t.Key()), e)
		v.Set(m)
	case reflect.Struct:
		if !isV2Struct(t) {
			return
		}
		for i := 0; i < t.NumField(); i++ {
			f := t.Field(i)
			if f.PkgPath != "" && !f.Anonymous { // unexported
				continue
			}
			fv := v.Field(i)
			if t == tlsType {
				switch f.Name {
				case "PrivateKey":
					switch r.Intn(12) {
					case 0:
						g.c.Count("tls.key=empty")
					case 1:
						g.c.Count("tls.key=placeholder")
						fv.SetString(placeholder)
					default:
						g.c.Count("tls.key=marker")
						fv.SetString(g.marker("K"))
					}
					continue
				case "SdsConfig":
					continue // SDS secrets are fetched at run time, never inline
				}
			}
			// dynamic-mode paths make the marshalers write files: keep the static mode
			if f.Name == "ClusterConfigPath" || f.Name == "RouterConfigPath" {
				continue
			}
			rich := g.ti.reaches(f.Type, 0)
			skip := 55
			if k := f.Type.Kind(); attrStructs[t.Name()] && (k == reflect.Bool || k == reflect.String) {
				skip = 35 // enum / flag attributes of TLS-bearing elements: vary them more often
			}
			if !rich && r.Chance(skip) {
				continue // leave many plain fields zero
			}
			g.fill(fv, t, f.Name, depth+1)
		}
	}
}

// ---------------------------------------------------------------- one history

type liveHash string

func deepPrint(sb *strings.Builder, v reflect.Value, depth int) {
	if depth > 60 {
		sb.WriteString("<deep>")
		return
	}
	switch v.Kind() {
	case reflect.Ptr:
		if v.IsNil() {
			sb.WriteString("nil")
			return
		}
		sb.WriteString("&")
		deepPrint(sb, v.Elem(), depth+1)
	case reflect.Interface:
		if v.IsNil() {
			sb.WriteString("nil")
			return
		}
		sb.WriteString(v.Elem().Type().String() + ":")
		deepPrint(sb, v.Elem(), depth+1)
	case reflect.Struct:
		sb.WriteString(v.Type().Name() + "{")
		for i := 0; i < v.NumField(); i++ {
			if v.Field(i).IsZero() {
				continue
			}
			sb.WriteString(v.Type().Field(i).Name + ":")
			deepPrint(sb, v.Field(i), depth+1)
			sb.WriteString(",")
		}
		sb.WriteString("}")
	case reflect.Slice, reflect.Array:
		if v.Kind() == reflect.Slice && v.IsNil() {
			sb.WriteString("nil[]")
			return
		}
		if v.Type().Elem().Kind() == reflect.Uint8 {
			fmt.Fprintf(sb, "%q", v.Bytes())
			return
		}
		sb.WriteString("[")
		for i := 0; i < v.Len(); i++ {
			deepPrint(sb, v.Index(i), depth+1)
			sb.WriteString(",")
		}
		sb.WriteString("]")
	case reflect.Map:
		if v.IsNil() {
			sb.WriteString("nilmap")
			return
		}
		keys := v.MapKeys()
		sort.Slice(keys, func(i, j int) bool { return fmt.Sprint(keys[i]) < fmt.Sprint(keys[j]) })
		sb.WriteString("map{")
		for _, k := range keys {
			fmt.Fprintf(sb, "%v:", k)
			deepPrint(sb, v.MapIndex(k), depth+1)
			sb.WriteString(",")
		}
		sb.WriteString("}")
	case reflect.String:
		fmt.Fprintf(sb, "%q", v.String())
	case reflect.Bool:
		fmt.Fprintf(sb, "%v", v.Bool())
	case reflect.Int, reflect.Int8, reflect.Int16, reflect.Int32, reflect.Int64:
		fmt.Fprintf(sb, "%d", v.Int())
	case reflect.Uint, reflect.Uint8, reflect.Uint16, reflect.Uint32, reflect.Uint64, reflect.Uintptr:
		fmt.Fprintf(sb, "%d", v.Uint())
	case reflect.Float32, reflect.Float64:
		fmt.Fprintf(sb, "%v", v.Float())
	default:
		sb.WriteString("?")
	}
}

// snapshot deep-prints the live effective config (every cell reachable from it).
func snapshot() liveHash {
	var sb strings.Builder
	deepPrint(&sb, reflect.ValueOf(configmanager.VerifLive()), 0)
	return liveHash(sb.String())
}

func markerLess(a, b string) bool {
	if a[0] != b[0] {
		return a[0] < b[0]
	}
	var x, y int
	fmt.Sscan(a[1:], &x)
	fmt.Sscan(b[1:], &y)
	return x < y
}

// bodyStrings returns every string value of the body as its reader decodes it (a value spelled with JSON escapes
// inside a raw hole is found under its decoded form; a member shadowed by a later duplicate is not a value).
// ok = the body is a JSON document.
func bodyStrings(body string) (out []string, ok bool) {
	dec := json.NewDecoder(strings.NewReader(body))
	dec.UseNumber()
	var v interface{}
	if err := dec.Decode(&v); err != nil {
		return nil, false
	}
	var walk func(x interface{})
	walk = func(x interface{}) {
		switch t := x.(type) {
		case string:
			out = append(out, t)
		case []interface{}:
			for _, e := range t {
				walk(e)
			}
		case map[string]interface{}:
			for _, e := range t {
				walk(e)
			}
		}
	}
	walk(v)
	return out, true
}

func (g *gen) scan(status int, body string) string {
	var found []string
	strs, isJSON := bodyStrings(body)
	for _, id := range g.markers {
		m := "zq" + id + "qz"
		hit := false
		if isJSON {
			for _, s := range strs {
				if strings.Contains(s, m) {
					hit = true
					break
				}
			}
		} else {
			hit = strings.Contains(body, m)
		}
		if hit {
			found = append(found, id)
		}
	}
	sort.Slice(found, func(i, j int) bool { return markerLess(found[i], found[j]) })
	l := "-"
	if len(found) > 0 {
		l = strings.Join(found, ",")
		for _, f := range found {
			g.c.Count("leaked-class=" + f[:1])
		}
	}
	return fmt.Sprintf("%d:%s:%d", status, l, strings.Count(body, placeholder))
}

func dump(method, query string) (int, string) {
	r := httptest.NewRequest(method, "http://127.0.0.1/api/v1/config_dump"+query, nil)
	w := httptest.NewRecorder()
	admin.ConfigDump(w, r)
	return w.Code, w.Body.String()
}

func queryEsc(s string) string {
	var sb strings.Builder
	for i := 0; i < len(s); i++ {
		fmt.Fprintf(&sb, "%%%02x", s[i])
	}
	return sb.String()
}

func history(c *hx.Ctx, r *hx.Rng, ti *typeInfo, size int) {
	g := &gen{c: c, r: r, ti: ti, size: size}
	configmanager.Reset()
	var ops []string
	frameOK := true
	lnames := []string{"l0", "l1", "l 2"}
	cnames := []string{"c0", "c1", "c/2"}
	rnames := []string{"r0", "r1"}
	enames := []string{"tunnel_agent", "e1", "e2"}
	usedL, usedC, usedR := map[string]bool{}, map[string]bool{}, map[string]bool{}
	nops := 2 + r.Intn(c.N(6, 9))
	for i := 0; i < nops; i++ {
		k := r.Intn(100)
		if i == 0 && r.Chance(75) {
			k = 0
		}
		switch {
		case k < 14:
			cfg := &v2.MOSNConfig{}
			g.fill(reflect.ValueOf(cfg).Elem(), nil, "", 0)
			ops = append(ops, "mosn:"+ser(reflect.ValueOf(*cfg)))
			configmanager.SetMosnConfig(cfg)
			c.Count("op=mosn")
		case k < 36:
			var l v2.Listener
			g.fill(reflect.ValueOf(&l).Elem(), nil, "", 0)
			l.Name = r.PickS(lnames)
			usedL[l.Name] = true
			ops = append(ops, "lis:"+ser(reflect.ValueOf(l)))
			configmanager.SetListenerConfig(l)
			c.Count("op=listener")
		case k < 54:
			var cl v2.Cluster
			g.fill(reflect.ValueOf(&cl).Elem(), nil, "", 0)
			cl.Name = r.PickS(cnames)
			usedC[cl.Name] = true
			ops = append(ops, "clu:"+ser(reflect.ValueOf(cl)))
			configmanager.SetClusterConfig(cl)
			c.Count("op=cluster")
		case k < 59:
			n := r.PickS(cnames)
			ops = append(ops, "rmclu:"+esc(n))
			configmanager.SetRemoveClusterConfig(n)
			c.Count("op=rmcluster")
		case k < 65:
			n := r.PickS(cnames)
			var hs []v2.Host
			g.fill(reflect.ValueOf(&hs).Elem(), nil, "", 0)
			ops = append(ops, "hosts:"+esc(n)+":"+ser(reflect.ValueOf(hs)))
			configmanager.SetHosts(n, hs)
			c.Count("op=hosts")
		case k < 75:
			var rc v2.RouterConfiguration
			g.fill(reflect.ValueOf(&rc).Elem(), nil, "", 0)
			rc.RouterConfigName = r.PickS(rnames)
			usedR[rc.RouterConfigName] = true
			ops = append(ops, "router:"+ser(reflect.ValueOf(rc)))
			configmanager.SetRouter(rc)
			c.Count("op=router")
		case k < 87:
			n := r.PickS(enames)
			js := g.tlsJSON("H")
			ops = append(ops, "ext:"+esc(n)+":"+esc(js))
			configmanager.SetExtend(n, json.RawMessage(js))
			c.Count("op=extend")
		case k < 93:
			var tls v2.TLSConfig
			g.fill(reflect.ValueOf(&tls).Elem(), nil, "", 0)
			ops = append(ops, "cmtls:"+ser(reflect.ValueOf(tls)))
			configmanager.SetClusterManagerTLS(tls)
			c.Count("op=cmtls")
		case k < 99:
			before := snapshot()
			if _, err := configmanager.InheritMosnconfig(); err != nil {
				c.Count("persist.error")
			}
			if snapshot() != before {
				frameOK = false
				c.Count("frame.changed-by=persist")
			}
			ops = append(ops, "persist")
			c.Count("op=persist")
		default:
			configmanager.Reset()
			ops = append(ops, "reset")
			c.Count("op=reset")
		}
	}
	// every parameter form
	type q struct{ tok, method, query string }
	qs := []q{{"full", "GET", ""}, {"p:mosnconfig:", "GET", "?mosnconfig"}, {"p:allrouters:", "GET", "?allrouters"},
		{"p:allclusters:", "GET", "?allclusters="}, {"p:alllisteners:x", "GET", "?alllisteners=x"}}
	byName := func(param string, names []string, used map[string]bool) {
		for _, n := range append(append([]string{}, names...), "nosuch", "") {
			qs = append(qs, q{"p:" + param + ":" + esc(n), "GET", "?" + param + "=" + queryEsc(n)})
			if used[n] {
				c.Count("query." + param + "=present")
			} else {
				c.Count("query." + param + "=absent")
			}
		}
	}
	byName("listener", lnames, usedL)
	byName("cluster", cnames, usedC)
	byName("router", rnames, usedR)
	// parameter forms of the handler under test that the fixed list above does not name (read from apis.go)
	known := map[string]bool{"mosnconfig": true, "allrouters": true, "allclusters": true, "alllisteners": true,
		"router": true, "cluster": true, "listener": true}
	for _, p := range dumpParams() {
		if known[p] || p != esc(p) {
			continue
		}
		c.Count("query.extra-param=" + p)
		for _, n := range []string{"", "l0", "c0", "r0", "tunnel_agent"} {
			qs = append(qs, q{"p:" + p + ":" + esc(n), "GET", "?" + p + "=" + queryEsc(n)})
		}
	}
	qs = append(qs, q{"p:extends:", "GET", "?extends"}, q{"p:features:", "GET", "?features"}, q{"p:MOSNCONFIG:", "GET", "?MOSNCONFIG"},
		q{"x:two", "GET", "?mosnconfig&allclusters"}, q{"x:post", "POST", ""})
	var qtoks, res []string
	for _, qq := range qs {
		before := snapshot()
		code, body := dump(qq.method, qq.query)
		if snapshot() != before {
			frameOK = false
			c.Count("frame.changed-by=" + strings.SplitN(qq.tok, ":", 3)[0])
		}
		qtoks = append(qtoks, qq.tok)
		res = append(res, g.scan(code, body))
	}
	fr := "frame=ok"
	if !frameOK {
		fr = "frame=changed"
	}
	c.Emit("C20", "hist "+strings.Join(ops, " ")+" q "+strings.Join(qtoks, " "), strings.Join(res, " ")+" "+fr)
	c.Count(fmt.Sprintf("history.ops=%d", len(ops)))
	c.Count(fmt.Sprintf("history.markersK~%d", g.nK/10*10))
}

func Run(c *hx.Ctx) {
	ti := &typeInfo{secret: map[reflect.Type]bool{}}
	if d := getDict(); d.fallback {
		c.Count("attr-dictionary=builtin-fallback")
	} else {
		c.Count(fmt.Sprintf("attr-dictionary=from-source typed=%d whitebox=%d pool=%d", len(d.typed), len(d.whiteA), len(d.poolB)))
	}
	c.Emit("C20", "graph", strings.Join(graphFacts(), " "))
	n := c.N(400, 12000)
	for i := 0; i < n; i++ {
		size := 1
		if i%5 == 0 {
			size = 0
		}
		history(c, c.Rng.Fork(), ti, size)
	}
	// one raw JSON text per case, through every position a hole content can take (raw.go)
	for _, t := range fixedRawTexts() {
		rawCaseOf(c, c.Rng.Fork(), false, t)
	}
	m := c.N(700, 20000)
	for i := 0; i < m; i++ {
		rawCase(c, c.Rng.Fork(), i%7 == 3)
	}
}
