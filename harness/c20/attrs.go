//go:build verif

package c20

// Attribute dictionaries of the C20 generator (c20r8): the redaction walker must be total — no attribute of an
// element (network, type, status flag, name …) may exempt it from redaction — so every enum / flag attribute of
// every element that carries or contains a TLS context has to take every value MOSN knows for it, with marker
// secrets at every key position all the same.
//
//   typed   : the constants of every named string type of pkg/config/v2 (ClusterType, LbType, ListenerType,
//             OriginalDstType, DnsLookupFamily …), read from the Go source of the tree under test;
//   whiteA  : white-box dictionary — every string literal of pkg/configmanager/redact.go and of redactTLSConfig,
//             and the value of every v2 constant those functions mention: what a guard in front of a redact call
//             would compare an attribute with;
//   poolB   : every string constant of pkg/config/v2 (filter / protocol / type names) and the network names;
//   byField : values by field name (Network).
// The sources are read with go/parser from $VERIF_REPO; when that fails a built-in list is used (counted).

import (
	"go/ast"
	"go/parser"
	"go/token"
	"os"
	"path/filepath"
	"reflect"
	"sort"
	"strconv"
	"strings"
	"sync"

	"verif/harness/hx"
)

type attrDict struct {
	typed    map[string][]string
	whiteA   []string
	poolB    []string
	byField  map[string][]string
	fallback bool
}

var (
	dictOnce sync.Once
	dict     *attrDict
)

func uniqSorted(xs []string) []string {
	m := map[string]bool{}
	for _, x := range xs {
		m[x] = true
	}
	var out []string
	for x := range m {
		out = append(out, x)
	}
	sort.Strings(out)
	return out
}

func loadDict() *attrDict {
	d := &attrDict{typed: map[string][]string{}, byField: map[string][]string{
		"Network": {"tcp", "udp", "unix", "", "TCP", "UDP", "Udp"},
	}}
	builtin := func() {
		d.fallback = true
		d.typed["ClusterType"] = []string{"SIMPLE", "STATIC", "DYNAMIC", "EDS", "ORIGINAL_DST", "STRICT_DNS"}
		d.typed["LbType"] = []string{"LB_RANDOM", "LB_ROUNDROBIN", "LB_ORIGINAL_DST", "LB_LEAST_REQUEST", "LB_MAGLEV"}
		d.typed["ListenerType"] = []string{"ingress", "egress"}
		d.typed["OriginalDstType"] = []string{"redirect", "tproxy"}
		d.poolB = []string{"tcp", "udp", "unix"}
	}
	root := os.Getenv("VERIF_REPO")
	if root == "" {
		builtin()
		return d
	}
	fset := token.NewFileSet()
	consts := map[string]string{} // v2 constant name -> value
	ents, err := os.ReadDir(filepath.Join(root, "pkg/config/v2"))
	if err != nil {
		builtin()
		return d
	}
	for _, e := range ents {
		n := e.Name()
		if e.IsDir() || !strings.HasSuffix(n, ".go") || strings.HasSuffix(n, "_test.go") {
			continue
		}
		f, err := parser.ParseFile(fset, filepath.Join(root, "pkg/config/v2", n), nil, 0)
		if err != nil {
			continue
		}
		for _, dcl := range f.Decls {
			gd, ok := dcl.(*ast.GenDecl)
			if !ok || gd.Tok != token.CONST {
				continue
			}
			for _, sp := range gd.Specs {
				vs := sp.(*ast.ValueSpec)
				for i, name := range vs.Names {
					if i >= len(vs.Values) {
						continue
					}
					bl, ok := vs.Values[i].(*ast.BasicLit)
					if !ok || bl.Kind != token.STRING {
						continue
					}
					s, err := strconv.Unquote(bl.Value)
					if err != nil || len(s) > 40 {
						continue
					}
					consts[name.Name] = s
					d.poolB = append(d.poolB, s)
					if id, ok := vs.Type.(*ast.Ident); ok {
						d.typed[id.Name] = append(d.typed[id.Name], s)
					}
				}
			}
		}
	}
	d.poolB = uniqSorted(append(d.poolB, "tcp", "udp", "unix"))
	for k := range d.typed {
		d.typed[k] = uniqSorted(d.typed[k])
	}
	// white-box dictionary
	collect := func(n ast.Node) {
		ast.Inspect(n, func(m ast.Node) bool {
			switch x := m.(type) {
			case *ast.BasicLit:
				if x.Kind == token.STRING {
					if s, err := strconv.Unquote(x.Value); err == nil && len(s) <= 40 && !strings.ContainsAny(s, "%\n") {
						d.whiteA = append(d.whiteA, s)
					}
				}
			case *ast.SelectorExpr:
				if id, ok := x.X.(*ast.Ident); ok && id.Name == "v2" {
					if s, ok := consts[x.Sel.Name]; ok {
						d.whiteA = append(d.whiteA, s)
					}
				}
			}
			return true
		})
	}
	if f, err := parser.ParseFile(fset, filepath.Join(root, "pkg/configmanager/redact.go"), nil, 0); err == nil {
		for _, dcl := range f.Decls {
			if fd, ok := dcl.(*ast.FuncDecl); ok && fd.Body != nil {
				collect(fd.Body)
			}
		}
	} else {
		d.fallback = true
	}
	if f, err := parser.ParseFile(fset, filepath.Join(root, "pkg/configmanager/effectiveconfig.go"), nil, 0); err == nil {
		for _, dcl := range f.Decls {
			if fd, ok := dcl.(*ast.FuncDecl); ok && fd.Body != nil && strings.HasPrefix(fd.Name.Name, "redact") {
				collect(fd.Body)
			}
		}
	}
	d.whiteA = uniqSorted(d.whiteA)
	if len(d.typed) == 0 {
		builtin()
	}
	return d
}

func getDict() *attrDict {
	dictOnce.Do(func() { dict = loadDict() })
	return dict
}

// structs whose enum / flag attributes are printed into the distribution
var attrStructs = map[string]bool{"Listener": true, "ListenerConfig": true, "FilterChain": true, "FilterChainConfig": true,
	"TLSConfig": true, "Cluster": true, "Host": true, "HostConfig": true, "ClusterManagerConfigJson": true,
	"ClusterManagerConfig": true, "Filter": true, "ExtendConfig": true, "ServerConfig": true, "MOSNConfig": true}

func countAttr(c *hx.Ctx, owner reflect.Type, field, val string) {
	if owner == nil || !attrStructs[owner.Name()] {
		return
	}
	if len(val) > 24 {
		val = val[:24]
	}
	c.Count("attr." + owner.Name() + "." + field + "=" + val)
}

// str draws the value of a string field: the field's own dictionary, the constants of its named type, the
// white-box dictionary, the pool of v2 constants, or a plain word.
func (g *gen) str(t reflect.Type, owner reflect.Type, field string) string {
	d := getDict()
	r := g.r
	if vs := d.byField[field]; len(vs) > 0 && r.Chance(75) {
		v := r.PickS(vs)
		countAttr(g.c, owner, field, v)
		return v
	}
	if t.PkgPath() == v2Pkg {
		if vs := d.typed[t.Name()]; len(vs) > 0 && r.Chance(70) {
			v := r.PickS(vs)
			countAttr(g.c, owner, field, v)
			return v
		}
	}
	k := r.Intn(100)
	switch {
	case k < 20 && len(d.whiteA) > 0:
		g.c.Count("str=whitebox-literal")
		v := r.PickS(d.whiteA)
		if t.PkgPath() == v2Pkg || len(d.byField[field]) > 0 {
			countAttr(g.c, owner, field, v)
		}
		return v
	case k < 35 && len(d.poolB) > 0:
		g.c.Count("str=v2-constant")
		return r.PickS(d.poolB)
	}
	return g.word()
}

// dumpParams: the query parameters the admin ConfigDump handler switches over, read from pkg/admin/server/apis.go of
// the tree under test (so that a new parameter form is driven as soon as it exists); nil when the source is not readable.
func dumpParams() []string {
	root := os.Getenv("VERIF_REPO")
	if root == "" {
		return nil
	}
	f, err := parser.ParseFile(token.NewFileSet(), filepath.Join(root, "pkg/admin/server/apis.go"), nil, 0)
	if err != nil {
		return nil
	}
	var out []string
	for _, dcl := range f.Decls {
		fd, ok := dcl.(*ast.FuncDecl)
		if !ok || fd.Name.Name != "ConfigDump" || fd.Body == nil {
			continue
		}
		ast.Inspect(fd.Body, func(n ast.Node) bool {
			cc, ok := n.(*ast.CaseClause)
			if !ok {
				return true
			}
			for _, e := range cc.List {
				if bl, ok := e.(*ast.BasicLit); ok && bl.Kind == token.STRING {
					if s, err := strconv.Unquote(bl.Value); err == nil {
						out = append(out, s)
					}
				}
			}
			return true
		})
	}
	return uniqSorted(out)
}
