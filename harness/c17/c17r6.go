//go:build verif

package c17

// Kind `hw` (header wiring): the three configuration objects (router configuration / virtual host / route) each carry
// FOUR independent fields (request_headers_to_add, request_headers_to_remove, response_headers_to_add,
// response_headers_to_remove), generated independently per level and direction over ONE small name pool (so a field wired
// to the wrong parser shows), nil and empty slices told apart; the table is built FROM CONFIGURATION through the real
// router.NewRouters (NewConfigImpl, NewVirtualHostImpl, NewRouteRuleImplBase), and BOTH FinalizeRequestHeaders and
// FinalizeResponseHeaders of the matched rule are driven on the same incoming map.
//
// case:  hw <act> <route> <vhost> <router> <incoming>  =>  <request map after> <response map after>
//   level = reqAdds;reqRems/respAdds;respRems   each list `~` (nil) | `-` (empty, non-nil) | items
//   act   = c (cluster route) | d (direct response) | x (redirect): the rule of a local-reply route carries the same parsers

import (
	"context"
	"fmt"
	"strings"

	v2 "mosn.io/mosn/pkg/config/v2"
	"mosn.io/mosn/pkg/network"
	"mosn.io/mosn/pkg/protocol"
	"mosn.io/mosn/pkg/router"
	"mosn.io/mosn/pkg/types"
	"mosn.io/pkg/variable"
	"verif/harness/hx"
)

type hwList struct {
	isNil bool
	adds  []add
	rems  []string
}

type hwLevel struct{ reqA, reqR, respA, respR hwList }

var hwNames = []string{"x-a", "x-b", "x-c", "X-B", "server", "x-a"}
var hwValues = []string{"1", "2", "v", "", "a,b", "q"}

func hwAdds(r *hx.Rng, n int) hwList {
	if n == 0 {
		return hwList{isNil: r.Chance(60)}
	}
	var l hwList
	for i := 0; i < n; i++ {
		l.adds = append(l.adds, add{r.PickS(hwNames), r.PickS(hwValues), r.Intn(3)})
	}
	return l
}

func hwRems(r *hx.Rng, n int) hwList {
	if n == 0 {
		return hwList{isNil: r.Chance(60)}
	}
	var l hwList
	for i := 0; i < n; i++ {
		l.rems = append(l.rems, r.PickS(hwNames))
	}
	return l
}

func (l hwList) tokA() string {
	if l.isNil {
		return "~"
	}
	return strings.SplitN(parser{adds: l.adds}.tok(), ";", 2)[0]
}
func (l hwList) tokR() string {
	if l.isNil {
		return "~"
	}
	return strings.SplitN(parser{rems: l.rems}.tok(), ";", 2)[1]
}
func (l hwList) optsA() []*v2.HeaderValueOption {
	if l.isNil {
		return nil
	}
	out := []*v2.HeaderValueOption{}
	for _, x := range l.adds {
		o := &v2.HeaderValueOption{Header: &v2.HeaderValue{Key: x.name, Value: x.value}}
		if x.app != 2 {
			b := x.app == 1
			o.Append = &b
		}
		out = append(out, o)
	}
	return out
}
func (l hwList) optsR() []string {
	if l.isNil {
		return nil
	}
	return append([]string{}, l.rems...)
}

func (lv hwLevel) tok() string {
	return lv.reqA.tokA() + ";" + lv.reqR.tokR() + "/" + lv.respA.tokA() + ";" + lv.respR.tokR()
}

func (lv hwLevel) size() int {
	return len(lv.reqA.adds) + len(lv.reqR.rems) + len(lv.respA.adds) + len(lv.respR.rems)
}

var hwCounts = []int{0, 0, 1, 1, 2, 3}

var hwSparse = []int{0, 0, 0, 0, 1, 1, 2}

func hwGenLevel(r *hx.Rng, counts []int) hwLevel {
	return hwLevel{hwAdds(r, r.Pick(counts)), hwRems(r, r.Pick(counts)), hwAdds(r, r.Pick(counts)), hwRems(r, r.Pick(counts))}
}

var hwNil = hwList{isNil: true}

func runHw(c *hx.Ctx, r *hx.Rng) {
	counts := hwCounts
	if r.Chance(50) {
		counts = hwSparse
	}
	route, vhost, global := hwGenLevel(r, counts), hwGenLevel(r, counts), hwGenLevel(r, counts)
	shape := "free"
	switch k := r.Intn(100); {
	case k < 12: // a virtual host that configures ONLY response removals (every other field nil)
		vhost = hwLevel{hwNil, hwNil, hwNil, hwRems(r, 1+r.Intn(3))}
		shape = "vhost-only-response-removals"
	case k < 18:
		route = hwLevel{hwNil, hwNil, hwNil, hwRems(r, 1+r.Intn(3))}
		shape = "route-only-response-removals"
	case k < 24:
		global = hwLevel{hwNil, hwNil, hwNil, hwRems(r, 1+r.Intn(3))}
		shape = "router-only-response-removals"
	case k < 30: // one level configures only request removals
		lv := hwLevel{hwNil, hwRems(r, 1+r.Intn(3)), hwNil, hwNil}
		switch r.Intn(3) {
		case 0:
			route = lv
		case 1:
			vhost = lv
		default:
			global = lv
		}
		shape = "level-only-request-removals"
	case k < 38: // one level configures only additions, one direction
		lv := hwLevel{hwNil, hwNil, hwAdds(r, 1+r.Intn(3)), hwNil}
		if r.Bool() {
			lv = hwLevel{hwAdds(r, 1+r.Intn(3)), hwNil, hwNil, hwNil}
		}
		switch r.Intn(3) {
		case 0:
			route = lv
		case 1:
			vhost = lv
		default:
			global = lv
		}
		shape = "level-only-additions"
	}
	// incoming headers: mostly the pool's names (lower-cased as a codec delivers them), sometimes as configured
	init := map[string]string{}
	for i, n := 0, r.Pick([]int{0, 1, 2, 2, 3, 3, 4, 5}); i < n; i++ {
		k := r.PickS(hwNames)
		if !r.Chance(8) {
			k = strings.ToLower(k)
		}
		init[k] = r.PickS(hwValues)
	}
	act := "c"
	switch k := r.Intn(100); {
	case k < 8:
		act = "d"
	case k < 16:
		act = "x"
	}
	hwDrive(c, act, route, vhost, global, init, shape)
}

// hwDrive builds the table from configuration through router.NewRouters and drives both directions of the matched rule.
func hwDrive(c *hx.Ctx, act string, route, vhost, global hwLevel, init map[string]string, shape string) {
	rt := v2.Router{}
	rt.Match = v2.RouterMatch{Prefix: "/"}
	rt.Route = v2.RouteAction{RouterActionConfig: v2.RouterActionConfig{ClusterName: "c",
		RequestHeadersToAdd: route.reqA.optsA(), RequestHeadersToRemove: route.reqR.optsR(),
		ResponseHeadersToAdd: route.respA.optsA(), ResponseHeadersToRemove: route.respR.optsR()}}
	switch act {
	case "d":
		rt.DirectResponse = &v2.DirectResponseAction{StatusCode: 200, Body: "b"}
	case "x":
		rt.Redirect = &v2.RedirectAction{ResponseCode: 302, PathRedirect: "/p"}
	}
	cfg := &v2.RouterConfiguration{
		RouterConfigurationConfig: v2.RouterConfigurationConfig{RouterConfigName: "c17hw",
			RequestHeadersToAdd: global.reqA.optsA(), RequestHeadersToRemove: global.reqR.optsR(),
			ResponseHeadersToAdd: global.respA.optsA(), ResponseHeadersToRemove: global.respR.optsR()},
		VirtualHosts: []v2.VirtualHost{{Name: "vh", Domains: []string{"*"}, Routers: []v2.Router{rt},
			RequestHeadersToAdd: vhost.reqA.optsA(), RequestHeadersToRemove: vhost.reqR.optsR(),
			ResponseHeadersToAdd: vhost.respA.optsA(), ResponseHeadersToRemove: vhost.respR.optsR()}},
	}
	rs, err := router.NewRouters(cfg)
	if err != nil {
		panic(err)
	}
	mctx := variable.NewVariableContext(context.Background())
	variable.SetString(mctx, types.VarPath, "/")
	variable.SetString(mctx, types.VarHost, "h")
	m := rs.MatchRoute(mctx, protocol.CommonHeader{})
	if m == nil {
		panic("hw: no route")
	}
	var outs []string
	for _, side := range []string{"req", "resp"} {
		h := protocol.CommonHeader{}
		for k, v := range init {
			h[k] = v
		}
		ctx := variable.NewVariableContext(context.Background())
		variable.SetString(ctx, types.VarPath, "/")
		if side == "req" {
			m.RouteRule().FinalizeRequestHeaders(ctx, h, network.NewRequestInfo())
		} else {
			m.RouteRule().FinalizeResponseHeaders(ctx, h, network.NewRequestInfo())
		}
		outs = append(outs, hdrTok(h))
	}
	c.Emit("C17", fmt.Sprintf("hw %s %s %s %s %s", act, route.tok(), vhost.tok(), global.tok(), hdrTok(init)), strings.Join(outs, " "))
	c.Count("hw.shape=" + shape)
	c.Count("hw.action=" + act)
	n := route.size() + vhost.size() + global.size()
	b := "0"
	switch {
	case n >= 12:
		b = "12+"
	case n >= 6:
		b = "6-11"
	case n >= 1:
		b = "1-5"
	}
	c.Count("hw.mutations=" + b)
	c.Count(fmt.Sprintf("hw.incoming=%d", len(init)))
}

// fixed cases first (minimal configurations of past misses, independent of the seed)
func hwFixed(c *hx.Ctx) {
	rem := func(n ...string) hwList { return hwList{rems: n} }
	ad := func(n, v string, app int) hwList { return hwList{adds: []add{{n, v, app}}} }
	none := hwLevel{hwNil, hwNil, hwNil, hwNil}
	in := map[string]string{"x-a": "1", "x-b": "2", "server": "up"}
	for _, act := range []string{"c", "d", "x"} {
		// one level configures only response removals (nil-parser case of a crossed wire), each level in turn
		only := hwLevel{hwNil, hwNil, hwNil, rem("x-a")}
		hwDrive(c, act, none, only, none, in, "fixed")
		hwDrive(c, act, only, none, none, in, "fixed")
		hwDrive(c, act, none, none, only, in, "fixed")
		// request removal and response removal of different names at one level
		both := hwLevel{hwNil, rem("x-a"), hwNil, rem("X-B")}
		hwDrive(c, act, none, both, none, in, "fixed")
		hwDrive(c, act, both, none, none, in, "fixed")
		hwDrive(c, act, none, none, both, in, "fixed")
		// additions of the two directions differ at one level
		adds := hwLevel{ad("x-a", "q", 1), hwNil, ad("server", "mosn", 0), hwNil}
		hwDrive(c, act, none, adds, none, in, "fixed")
		hwDrive(c, act, adds, none, none, in, "fixed")
		hwDrive(c, act, none, none, adds, in, "fixed")
		// all three levels, both directions, distinct names per level and direction
		hwDrive(c, act,
			hwLevel{ad("x-a", "r", 1), rem("x-c"), ad("x-c", "r", 2), rem("x-a")},
			hwLevel{ad("x-b", "v", 1), rem("server"), ad("server", "v", 1), rem("x-b")},
			hwLevel{ad("x-c", "g", 0), rem("x-b"), ad("x-b", "g", 0), rem("x-c")}, in, "fixed")
	}
}

func runPart4(c *hx.Ctx) {
	hwFixed(c)
	for i := 0; i < c.N(3000, 60000); i++ {
		runHw(c, c.Rng)
	}
}
