//go:build verif

package c17

// [c17h10] Kind `ah` (auto_host_rewrite on a STRICT_DNS cluster): finalizeRequestHeaders' third host-rewrite branch, which
// consults the cluster manager's snapshot of the route's cluster (type STRICT_DNS?) and the hostname of the upstream host
// selected for the request, driven through the real proxy core (px fixture: real cluster manager with a cluster of the
// generated type whose hosts carry hostnames, real router, real downstream; the first attempt is refused by the upstream
// connection in `retry` cases, so that a second host is selected).
//
// case:  ah <ctype> <auto 0|1> <hostRewrite> <autoHeader> <headerValue|~> <hostVar0|~> <retry 0|1>
//        =>  <attempts> <hostname of attempt 0> <host variable at attempt 0 |~> [<hostname of attempt 1> <host variable at attempt 1|~>]

import (
	"fmt"
	"time"

	v2 "mosn.io/mosn/pkg/config/v2"
	"mosn.io/mosn/pkg/types"
	"verif/harness/hx"
	"verif/harness/px"
)

type ahCase struct {
	ctype            v2.ClusterType
	auto             bool
	hostRw, autoHdr  string
	hdrVal, hostVar0 string
	hasHdr, hasVar0  bool
	retry            bool
	emptyHostname    bool
}

func ahOpt(present bool, s string) string {
	if !present {
		return "~"
	}
	return hs(s)
}

func (k *ahCase) tok() string {
	b := func(x bool) string {
		if x {
			return "1"
		}
		return "0"
	}
	return fmt.Sprintf("ah %s %s %s %s %s %s %s", k.ctype, b(k.auto), hs(k.hostRw), hs(k.autoHdr), ahOpt(k.hasHdr, k.hdrVal), ahOpt(k.hasVar0, k.hostVar0), b(k.retry))
}

func ahRun(c *hx.Ctx, k *ahCase) {
	rt := px.Route("/", "c", px.Retry(true, 2, 0))
	rt.Route.AutoHostRewrite = k.auto
	rt.Route.HostRewrite = k.hostRw
	rt.Route.AutoHostRewriteHeader = k.autoHdr
	cfg := px.Config{Clusters: []px.Cluster{{Name: "c", Hosts: 2}}, Routes: []v2.Router{rt}}
	if k.hasVar0 {
		cfg.Vars = map[string]interface{}{types.VarIstioHeaderHost: k.hostVar0}
	}
	f := px.New(cfg)
	defer f.Close()
	names := []string{"h0.up.example", "h1.up.example"}
	if k.emptyHostname {
		names = []string{"", ""}
	}
	f.Retype("c", k.ctype, names)
	hdrs := px.H(":path", "/a", ":authority", "orig.example")
	if k.hasHdr {
		hdrs[k.autoHdr] = k.hdrVal
	}
	ex := f.Request(hdrs, nil, nil)
	var outs []string
	n := 0
	for i := 0; i < 2; i++ {
		a := ex.WaitAttemptFor(i, time.Second)
		if a == nil {
			break
		}
		n++
		hv, ok := a.CtxString(types.VarIstioHeaderHost)
		outs = append(outs, hs(a.Host), ahOpt(ok, hv))
		if i == 0 && k.retry {
			a.Reset(types.StreamConnectionFailed) // retried on a freshly selected host
			continue
		}
		a.RespondHeaders(200)
		break
	}
	ex.WaitTrace(1500*time.Millisecond, func([]string) bool { return ex.Done() })
	out := fmt.Sprint(n)
	for _, o := range outs {
		out += " " + o
	}
	c.Emit("C17", k.tok(), out)
	branch := "none"
	switch {
	case k.hostRw != "":
		branch = "host_rewrite"
	case k.autoHdr != "":
		branch = "auto_host_rewrite_header"
	case k.auto:
		branch = "auto_host_rewrite/" + string(k.ctype)
	}
	c.Count("ah.branch=" + branch)
	c.Count(fmt.Sprintf("ah.retry=%v", k.retry))
}

func runAh(c *hx.Ctx) {
	r := c.Rng.Fork()
	// fixed first: the branch itself, its two guards, and the precedence of the other two settings
	fixed := []*ahCase{
		{ctype: v2.STRICT_DNS_CLUSTER, auto: true},
		{ctype: v2.STRICT_DNS_CLUSTER, auto: true, hasVar0: true, hostVar0: "orig.example"},
		{ctype: v2.SIMPLE_CLUSTER, auto: true, hasVar0: true, hostVar0: "orig.example"},
		{ctype: v2.STRICT_DNS_CLUSTER, auto: false, hasVar0: true, hostVar0: "orig.example"},
		{ctype: v2.STRICT_DNS_CLUSTER, auto: true, hostRw: "fixed.example"},
		{ctype: v2.STRICT_DNS_CLUSTER, auto: true, autoHdr: "x-target", hasHdr: true, hdrVal: "t.example"},
		{ctype: v2.STRICT_DNS_CLUSTER, auto: true, autoHdr: "x-target"},
		{ctype: v2.STRICT_DNS_CLUSTER, auto: true, emptyHostname: true, hasVar0: true, hostVar0: "orig.example"},
		{ctype: v2.STRICT_DNS_CLUSTER, auto: true, retry: true},
	}
	for _, k := range fixed {
		ahRun(c, k)
	}
	for i := 0; i < c.N(60, 1200); i++ {
		k := &ahCase{ctype: v2.STRICT_DNS_CLUSTER, auto: r.Chance(75)}
		switch r.Intn(10) {
		case 0, 1:
			k.ctype = v2.SIMPLE_CLUSTER
		case 2:
			k.ctype = v2.ORIGINALDST_CLUSTER
		}
		if k.ctype == v2.ORIGINALDST_CLUSTER {
			k.ctype = v2.SIMPLE_CLUSTER
		}
		if r.Chance(15) {
			k.hostRw = r.PickS([]string{"fixed.example", "h"})
		}
		if r.Chance(20) {
			k.autoHdr = r.PickS([]string{"x-target", "x-a"})
			k.hasHdr = r.Chance(60)
			k.hdrVal = r.PickS([]string{"t.example", "", "h0.up.example"})
		}
		k.hasVar0 = r.Chance(70)
		k.hostVar0 = r.PickS([]string{"orig.example", "", "h1.up.example"})
		k.retry = r.Chance(30)
		k.emptyHostname = r.Chance(8)
		ahRun(c, k)
	}
}
