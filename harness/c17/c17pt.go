//go:build verif

package c17

// [c17pt] Kind `pa` (the per-try timer is armed for EVERY attempt, the last one the budget allows included): on the real
// proxy core (px fixture, 2 hosts) a request whose first k attempts end with a retriable outcome (k = 0 .. budget, so the
// attempt that follows is the first, a middle one, or the LAST the budget max(3, num_retries) allows) and whose attempt k
// then meets a SILENT upstream. Observed for the silent attempt, through the verif hook of pkg/proxy (no wall-clock
// classification): was a per-try timer held while it was outstanding, and has the global timer fired when it ended;
// plus the number of attempts and the final status (with retry_on a per-try timeout below the budget is retried: the
// next attempt is answered 200). The per-try timeout is 60 ms, the global timeout 1200 ms (20x): on the unchanged code no
// case waits for the global timer.
//
// causes of the earlier attempts: pc = refused by the pool (connect failure), pb = the same for a request with a body,
// cf = stream reset ConnectionFailed, s5 = response 503 (retry_on only).
//
// case:  pa <retry_on 0|1> <num_retries> <k> <cause pc|pb|cf|s5> <try ms> <global ms>
//        =>  <attempts> <final status|-> <per-try timer held for the silent attempt 0|1> <ended by try|global|none>

import (
	"fmt"
	"time"

	v2 "mosn.io/mosn/pkg/config/v2"
	"mosn.io/mosn/pkg/types"
	"verif/harness/hx"
	"verif/harness/px"
)

const (
	paTry    = 60 * time.Millisecond
	paGlobal = 1200 * time.Millisecond
)

type paCase struct {
	retryOn bool
	nr      uint32
	k       int
	cause   string
}

func (c *paCase) budget() int {
	if c.nr > 3 {
		return int(c.nr)
	}
	return 3
}

func paRun(c *hx.Ctx, k *paCase) {
	f := px.New(px.Config{Clusters: []px.Cluster{{Name: "c1", Hosts: 2}},
		Routes: []v2.Router{px.Route("/svc", "c1", px.Timeout(paGlobal), px.Retry(k.retryOn, k.nr, paTry))}})
	defer f.Close()
	if k.cause == "pc" || k.cause == "pb" {
		for i := 0; i < k.k; i++ {
			f.PoolFailAttempt(i, types.ConnectionFailure)
		}
	}
	var body []byte
	if k.cause == "pb" {
		// a request with a body: the refused first attempt ends before the request was completely sent, so the global timer
		// is not armed yet when doRetry sends the second attempt (doRetry then arms both timers through onUpstreamRequestSent)
		body = []byte("body")
	}
	ex := f.Request(px.H(":path", "/svc/a", ":authority", "svc"), body, nil)
	n := func() int { return len(ex.UpstreamAttempts()) }
	reached := true
	for i := 0; i < k.k; i++ {
		a := ex.WaitAttemptFor(i, 2*time.Second)
		if a == nil {
			reached = false
			break
		}
		switch k.cause {
		case "cf":
			a.Reset(types.StreamConnectionFailed)
		case "s5":
			a.RespondHeaders(503)
		}
	}
	held, cause := false, "none"
	if reached {
		if a := ex.WaitAttemptFor(k.k, 2*time.Second); a != nil {
			// silence. The timer is created right after the request of the attempt was handed to the upstream stream: watch
			// for it until it shows or the attempt is over (a condition, not a sleep: on the unchanged code it shows at once)
			ended := func() bool { return n() > k.k+1 || ex.Done() }
			deadline := time.Now().Add(paGlobal + 2*time.Second)
			for !held && !ended() && time.Now().Before(deadline) {
				if h, _, ok := ex.TimerState(); ok && h {
					held = true
					break
				}
				time.Sleep(200 * time.Microsecond)
			}
			ex.WaitTrace(time.Until(deadline), func([]string) bool { return ended() })
			if ended() {
				cause = "try"
				if _, g, ok := ex.TimerState(); ok && g {
					cause = "global"
				}
			}
			el := ex.Elapsed() - a.Created
			switch {
			case el < 4*paTry:
				c.Count("pa.silent attempt ended after: < 4 x try")
			case el < paGlobal-100*time.Millisecond:
				c.Count("pa.silent attempt ended after: between")
			default:
				c.Count("pa.silent attempt ended after: >= global - 100ms")
			}
			if n() > k.k+1 {
				if b := ex.WaitAttemptFor(k.k+1, time.Second); b != nil {
					b.RespondHeaders(200)
				}
			}
		}
	}
	ex.WaitTrace(2*time.Second, func([]string) bool { return ex.Done() })
	ex.WaitQuiescentFor(15 * time.Millisecond)
	b := func(x bool) string {
		if x {
			return "1"
		}
		return "0"
	}
	c.Emit("C17", fmt.Sprintf("pa %s %d %d %s %d %d", b(k.retryOn), k.nr, k.k, k.cause, paTry/time.Millisecond, paGlobal/time.Millisecond),
		fmt.Sprintf("%d %s %s %s", n(), c17r9Final(ex), b(held), cause))
	pos := "middle"
	switch {
	case k.k == k.budget():
		pos = "LAST the budget allows"
	case k.k == 0:
		pos = "first"
	}
	c.Count("pa.silent attempt=" + pos)
	c.Count("pa.cause of the earlier attempts=" + k.cause)
	c.Count(fmt.Sprintf("pa.retry_on=%v", k.retryOn))
}

func runPa(c *hx.Ctx) {
	r := c.Rng.Fork()
	var cases []*paCase
	// fixed first: the last attempt of the floor budget and of a configured budget, each cause, both retry_on values
	for _, on := range []bool{true, false} {
		cases = append(cases, &paCase{on, 0, 3, "pc"}, &paCase{on, 0, 3, "cf"}, &paCase{on, 4, 4, "cf"}, &paCase{on, 1, 0, "cf"}, &paCase{on, 1, 1, "pb"}, &paCase{on, 0, 3, "pb"})
	}
	cases = append(cases, &paCase{true, 0, 3, "s5"}, &paCase{true, 6, 6, "s5"})
	// the grid budgets x retry_on x k x cause; the quick tier draws a third of it (every last-attempt cell is kept)
	for _, nr := range []uint32{0, 1, 3, 4, 6} {
		for _, on := range []bool{true, false} {
			causes := []string{"pc", "pb", "cf"}
			if on {
				causes = append(causes, "s5")
			}
			bud := (&paCase{nr: nr}).budget()
			for k := 0; k <= bud; k++ {
				for _, cause := range causes {
					if k == 0 && cause != "cf" {
						continue // no earlier attempt: the cause does not matter
					}
					if !c.Thorough() && k != bud && !r.Chance(34) {
						continue
					}
					cases = append(cases, &paCase{on, nr, k, cause})
				}
			}
		}
	}
	for rep := 0; rep < c.N(1, 3); rep++ {
		for _, k := range cases {
			paRun(c, k)
		}
	}
}
