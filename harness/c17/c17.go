//go:build verif

// Package c17: route-action header mutations at three levels (real router.NewRouters + Finalize*Headers) and the
// effective timeout (real parseProxyTimeout through a verif hook).
package c17

import (
	"context"
	"fmt"
	"sort"
	"strconv"
	"strings"
	"time"

	"mosn.io/api"
	v2 "mosn.io/mosn/pkg/config/v2"
	"mosn.io/mosn/pkg/network"
	"mosn.io/mosn/pkg/protocol"
	"mosn.io/mosn/pkg/proxy"
	"mosn.io/mosn/pkg/router"
	"mosn.io/mosn/pkg/types"
	"mosn.io/pkg/variable"
	"verif/harness/hx"
)

func init() { hx.Register("C17", Run) }

type add struct {
	name, value string
	app         int // 1 append, 0 overwrite, 2 unset (default append)
}
type parser struct {
	adds []add
	rems []string
}

func hs(s string) string { return hx.Hex([]byte(s)) }

func (p parser) tok() string {
	var a, r []string
	for _, x := range p.adds {
		f := "1"
		if x.app == 0 {
			f = "0"
		}
		a = append(a, hs(x.name)+":"+hs(x.value)+":"+f)
	}
	for _, x := range p.rems {
		r = append(r, hs(x))
	}
	j := func(l []string) string {
		if len(l) == 0 {
			return "-"
		}
		return strings.Join(l, ",")
	}
	return j(a) + ";" + j(r)
}

func (p parser) opts() ([]*v2.HeaderValueOption, []string) {
	var out []*v2.HeaderValueOption
	for _, x := range p.adds {
		o := &v2.HeaderValueOption{Header: &v2.HeaderValue{Key: x.name, Value: x.value}}
		if x.app != 2 {
			b := x.app == 1
			o.Append = &b
		}
		out = append(out, o)
	}
	if out == nil && p.rems != nil {
		out = []*v2.HeaderValueOption{}
	}
	return out, p.rems
}

var names = []string{"x-a", "x-b", "X-A", "x-c", "Content-Type", "x-d"}
var values = []string{"1", "2", "v", "", "a,b", "long-value-0123456789", " ", "%"}

func genParser(r *hx.Rng) parser {
	var p parser
	for i, n := 0, r.Pick([]int{0, 0, 1, 1, 2, 3, 4}); i < n; i++ {
		p.adds = append(p.adds, add{r.PickS(names), r.PickS(values), r.Intn(3)})
	}
	for i, n := 0, r.Pick([]int{0, 0, 0, 1, 1, 2}); i < n; i++ {
		p.rems = append(p.rems, r.PickS(names))
	}
	return p
}

func hdrTok(m map[string]string) string {
	var l []string
	for k, v := range m {
		l = append(l, hs(k)+":"+hs(v))
	}
	sort.Strings(l)
	if len(l) == 0 {
		return "-"
	}
	return strings.Join(l, ",")
}

func buildRoute(route, vhost, global parser, timeout, tryTimeout time.Duration, withRetry bool) api.Route {
	ra, rr := route.opts()
	va, vr := vhost.opts()
	ga, gr := global.opts()
	respRa, respRr := route.opts()
	respVa, respVr := vhost.opts()
	respGa, respGr := global.opts()
	r := v2.Router{}
	r.Match = v2.RouterMatch{Prefix: "/"}
	r.Route = v2.RouteAction{RouterActionConfig: v2.RouterActionConfig{ClusterName: "c",
		RequestHeadersToAdd: ra, RequestHeadersToRemove: rr, ResponseHeadersToAdd: respRa, ResponseHeadersToRemove: respRr}, Timeout: timeout}
	if withRetry {
		r.Route.RetryPolicy = &v2.RetryPolicy{RetryPolicyConfig: v2.RetryPolicyConfig{RetryOn: true, NumRetries: 1}, RetryTimeout: tryTimeout}
	}
	cfg := &v2.RouterConfiguration{
		RouterConfigurationConfig: v2.RouterConfigurationConfig{RouterConfigName: "c17",
			RequestHeadersToAdd: ga, RequestHeadersToRemove: gr, ResponseHeadersToAdd: respGa, ResponseHeadersToRemove: respGr},
		VirtualHosts: []v2.VirtualHost{{Name: "vh", Domains: []string{"*"}, Routers: []v2.Router{r},
			RequestHeadersToAdd: va, RequestHeadersToRemove: vr, ResponseHeadersToAdd: respVa, ResponseHeadersToRemove: respVr}},
	}
	rs, err := router.NewRouters(cfg)
	if err != nil {
		panic(err)
	}
	ctx := variable.NewVariableContext(context.Background())
	variable.SetString(ctx, types.VarPath, "/")
	variable.SetString(ctx, types.VarHost, "h")
	rt := rs.MatchRoute(ctx, protocol.CommonHeader{})
	if rt == nil {
		panic("no route")
	}
	return rt
}

func runHdr(c *hx.Ctx, r *hx.Rng) {
	route, vhost, global := genParser(r), genParser(r), genParser(r)
	init := map[string]string{}
	for i, n := 0, r.Intn(4); i < n; i++ {
		init[strings.ToLower(r.PickS(names))] = r.PickS(values)
	}
	rt := buildRoute(route, vhost, global, 0, 0, false)
	for _, side := range []string{"req", "resp"} {
		h := protocol.CommonHeader{}
		for k, v := range init {
			h[k] = v
		}
		ctx := variable.NewVariableContext(context.Background())
		if side == "req" {
			rt.RouteRule().FinalizeRequestHeaders(ctx, h, network.NewRequestInfo())
		} else {
			rt.RouteRule().FinalizeResponseHeaders(ctx, h, network.NewRequestInfo())
		}
		c.Emit("C17", fmt.Sprintf("hdr %s %s %s %s %s", side, route.tok(), vhost.tok(), global.tok(), hdrTok(init)), hdrTok(h))
	}
	c.Count(fmt.Sprintf("hdr.mutations=%d", len(route.adds)+len(route.rems)+len(vhost.adds)+len(vhost.rems)+len(global.adds)+len(global.rems)))
}

var tvals = []string{"0", "1", "300", "5000", "60000", "-1", "+7", "abc", "", "1.5", " 10", "9000000000000", "-9000000000000", "99999999999999999999", "0x10", "007"}

func optTok(present bool, s string) string {
	if !present {
		return "~"
	}
	return hs(s)
}

func runTimeout(c *hx.Ctx, r *hx.Rng) {
	durs := []time.Duration{0, time.Millisecond, 300 * time.Millisecond, time.Second, 5 * time.Second, 60 * time.Second, 61 * time.Second}
	g0, t0 := durs[r.Intn(len(durs))], durs[r.Intn(len(durs))]
	if r.Chance(70) {
		g0, t0 = 0, 0
	}
	hasRoute := r.Chance(80)
	rg, rt := durs[r.Intn(len(durs))], durs[r.Intn(len(durs))]
	withRetry := r.Chance(75)
	var route types.Route
	if hasRoute {
		route = buildRoute(parser{}, parser{}, parser{}, rg, rt, withRetry)
		if !withRetry {
			rt = 0
		}
	} else {
		rg, rt = 0, 0
	}
	ctx := variable.NewVariableContext(context.Background())
	h := protocol.CommonHeader{}
	pick := func() (bool, string) { return r.Chance(45), r.PickS(tvals) }
	hTp, hT := pick()
	hGp, hG := pick()
	vTp, vT := pick()
	vGp, vG := pick()
	if hTp {
		h[types.HeaderTryTimeout] = hT
	}
	if hGp {
		h[types.HeaderGlobalTimeout] = hG
	}
	if vTp {
		if err := variable.SetString(ctx, types.VarProxyTryTimeout, vT); err != nil {
			panic(err)
		}
	}
	if vGp {
		if err := variable.SetString(ctx, types.VarProxyGlobalTimeout, vG); err != nil {
			panic(err)
		}
	}
	g, t := proxy.VerifParseProxyTimeout(ctx, g0, t0, route, h)
	hr := "0"
	if hasRoute {
		hr = "1"
	}
	c.Emit("C17", fmt.Sprintf("to %d %d %s %d %d %s %s %s %s", int64(g0), int64(t0), hr, int64(rg), int64(rt),
		optTok(hTp, hT), optTok(hGp, hG), optTok(vTp, vT), optTok(vGp, vG)),
		strconv.FormatInt(int64(g), 10)+" "+strconv.FormatInt(int64(t), 10))
	src := "default"
	switch {
	case vGp:
		src = "variable"
	case hGp:
		src = "header"
	case hasRoute:
		src = "route"
	}
	c.Count("to.global_source=" + src)
}

func Run(c *hx.Ctx) {
	for i := 0; i < c.N(2000, 40000); i++ {
		runHdr(c, c.Rng)
	}
	for i := 0; i < c.N(3000, 60000); i++ {
		runTimeout(c, c.Rng)
	}
	runPart3(c) // kind fz (c17r5.go)
	runPart2(c) // kinds rw, rd, rt (c17b.go)
	runPart4(c) // kind hw (c17r6.go)
	runPart5(c) // kinds rp, re (c17r9.go)
	runPart6(c) // kind hm (c17h10.go)
	runAh(c)    // kind ah (c17h10ah.go)
	runPa(c)    // kind pa (c17pt.go)
}
