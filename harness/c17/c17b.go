//go:build verif

package c17

// Second half of C17: retry policy on the real proxy core (kind `rt`, through harness/px), path rewrite through the real
// router (kind `rw`), redirect / direct-response routes through the real proxy core (kind `rd`).

import (
	"context"
	"fmt"
	"os"
	"regexp"
	"strconv"
	"strings"
	"sync"
	"time"

	v2 "mosn.io/mosn/pkg/config/v2"
	"mosn.io/mosn/pkg/network"
	"mosn.io/mosn/pkg/protocol"
	"mosn.io/mosn/pkg/router"
	"mosn.io/mosn/pkg/types"
	"mosn.io/pkg/variable"
	"verif/harness/hx"
	"verif/harness/px"
)

// ---------------------------------------------------------------------------------------------------------------
// rt: retry policies x outcome sequences on the real proxy core
// ---------------------------------------------------------------------------------------------------------------

const (
	rtTry       = 100 * time.Millisecond // per-try timeout when configured
	rtGlobalOff = 3 * time.Second       // global timeout that never fires within a case
	rtRetryGap  = 12 * time.Millisecond // doRetry sleeps 10 ms
	rtGtInto    = 50 * time.Millisecond // the global timer fires this long after the planned start of the scripted attempt
)

type rtCase struct {
	hasPolicy  bool
	retryOn    bool
	numRetries uint32
	codes      []uint32
	tryOn      bool
	disable    bool
	hosts      int
	script     []string // r<code> cf ct rr lr pc po pt gt
	path       string
	prefixRw   string
	body       bool
	trailers   bool
	respBody   bool
	probe      bool
	global     time.Duration
}

func (k *rtCase) tryEffective() bool { return k.hasPolicy && k.tryOn && rtTry < k.global }

func (k *rtCase) tok() string {
	cs := "-"
	if len(k.codes) > 0 {
		var l []string
		for _, c := range k.codes {
			l = append(l, fmt.Sprint(c))
		}
		cs = strings.Join(l, ",")
	}
	b := func(x bool) string {
		if x {
			return "1"
		}
		return "0"
	}
	gt := "0"
	if k.global != rtGlobalOff {
		gt = fmt.Sprint(int64(k.global / time.Millisecond))
	}
	// pol retryOn numRetries codes tryEffective disable | hosts script | path prefixRewrite | shape of the request (not modelled)
	return fmt.Sprintf("rt %s %s %d %s %s %s %d %s %s %s b%s%s%s%s g%s", b(k.hasPolicy), b(k.retryOn), k.numRetries, cs, b(k.tryEffective()), b(k.disable),
		k.hosts, strings.Join(k.script, ","), hs(k.path), hs(k.prefixRw), b(k.body), b(k.trailers), b(k.respBody), b(k.probe), gt)
}

var rtCodes = []uint32{500, 502, 503, 504, 404, 429, 200}

func genRt(r *hx.Rng) *rtCase {
	k := &rtCase{global: rtGlobalOff}
	k.hasPolicy = r.Chance(88)
	if k.hasPolicy {
		k.retryOn = r.Chance(78)
		k.numRetries = uint32(r.Pick([]int{0, 0, 1, 1, 2, 2, 3, 3, 4, 5, 6}))
		if r.Chance(4) {
			k.numRetries = uint32(r.Pick([]int{8, 9, 10, 12}))
		}
		if r.Chance(45) {
			for i, n := 0, 1+r.Intn(3); i < n; i++ {
				k.codes = append(k.codes, rtCodes[r.Intn(len(rtCodes))])
			}
		}
		k.tryOn = r.Chance(50)
	}
	k.disable = r.Chance(7)
	k.hosts = 2 + r.Intn(3)
	budget := 3
	if int(k.numRetries) > budget {
		budget = int(k.numRetries)
	}
	n := 1 + budget + 2
	if r.Chance(30) {
		n = 1 + r.Intn(n)
	}
	pts := 0
	gt := false
	for i := 0; i < n; i++ {
		var o string
		switch x := r.Intn(100); {
		case x < 24:
			o = "s503"
		case x < 30:
			o = "s500"
		case x < 36:
			o = fmt.Sprintf("s%d", rtCodes[r.Intn(len(rtCodes))])
		case x < 40 && len(k.codes) > 0:
			o = fmt.Sprintf("s%d", k.codes[r.Intn(len(k.codes))])
		case x < 46:
			o = "s200"
		case x < 49:
			o = "s404"
		case x < 60:
			o = "cf"
		case x < 70:
			o = "pc"
		case x < 78:
			o = "ct"
		case x < 82:
			o = "rr"
		case x < 85:
			o = "lr"
		case x < 88:
			o = "po"
		case x < 95:
			o = "pt"
		default:
			o = "gt"
		}
		if o == "pt" && (!(k.hasPolicy && k.tryOn) || pts >= 2 || gt) {
			o = "s503"
		}
		if o == "gt" && (gt || i > 6) {
			o = "cf"
		}
		if o == "pt" {
			pts++
		}
		if o == "gt" {
			gt = true
		}
		k.script = append(k.script, o)
	}
	if !gt {
		// never leave an attempt without an outcome (a per-try timer would fire into the silence): a remote reset is never retried
		k.script = append(k.script, "rr")
	}
	if gt {
		// the global timer must fire in the middle of the silence of that attempt: planned start + 40 ms
		var start time.Duration
		for _, o := range k.script {
			if o == "gt" {
				break
			}
			if o == "pt" {
				start += rtTry
			}
			start += rtRetryGap
		}
		k.global = start + rtGtInto
	}
	k.path = r.PickS([]string{"/svc", "/svc/a", "/svc/a/b.html", "/svcx", "/svc/"})
	if r.Chance(45) {
		k.prefixRw = r.PickS([]string{"/new", "/", "/svc/v2", "/n/e/w"})
	}
	k.body = r.Chance(30)
	k.trailers = r.Chance(10)
	k.respBody = r.Chance(30)
	k.probe = r.Chance(50)
	return k
}

func hostIdx(h string) int {
	i := strings.LastIndex(h, "/")
	n, _ := strconv.Atoi(h[i+1:])
	return n
}

// runRtOnce drives one case; ok=false when the measured timing left the planned grid (the caller re-runs the case).
func runRtOnce(k *rtCase) (impl string, ok bool, note string) {
	opts := []px.RouteOpt{px.Timeout(k.global)}
	if k.hasPolicy {
		tt := time.Duration(0)
		if k.tryOn {
			tt = rtTry
		}
		opts = append(opts, px.Retry(k.retryOn, k.numRetries, tt, k.codes...))
	}
	rt := px.Route("/svc", "c1", opts...)
	rt.Route.PrefixRewrite = k.prefixRw
	cfg := px.Config{Clusters: []px.Cluster{{Name: "c1", Hosts: k.hosts}}, Routes: []v2.Router{rt}}
	if k.disable {
		cfg.Vars = map[string]interface{}{types.VarProxyDisableRetry: true}
	}
	f := px.New(cfg)
	defer f.Close()
	for i, o := range k.script {
		switch o {
		case "pc":
			f.PoolFailAttempt(i, types.ConnectionFailure)
		case "po":
			f.PoolFailAttempt(i, types.Overflow)
		}
	}
	var body []byte
	var trailers map[string]string
	if k.body {
		body = []byte("payload")
	}
	if k.trailers {
		trailers = map[string]string{"t": "1"}
	}
	ex := f.Request(px.H(":path", k.path, ":authority", "svc", "x-req", "1"), body, trailers)
	ok = true
	attemptsNow := func() int { return len(ex.UpstreamAttempts()) }
	for i := 0; i < len(k.script); i++ {
		// attempt i exists (or the exchange ended / got stuck)
		// (a long bound: only a worker that is really gone — the lost-worker quirk — runs into it; a loaded machine must not)
		if !ex.WaitTrace(1500*time.Millisecond, func([]string) bool { return attemptsNow() > i || ex.Done() }) || attemptsNow() <= i {
			break
		}
		a := ex.WaitAttemptFor(i, time.Second)
		if a == nil {
			note = "attempt-not-sent"
			ok = false
			break
		}
		o := k.script[i]
		timed := o == "pt" || o == "gt"
		finite := k.global != rtGlobalOff
		switch {
		case o == "pc" || o == "po":
			// already refused by the pool
		case o[0] == 's':
			code, _ := strconv.Atoi(o[1:])
			if k.respBody {
				a.Respond(code, nil, []byte("resp"), nil)
			} else {
				a.RespondHeaders(code)
			}
		case o == "cf":
			a.Reset(types.StreamConnectionFailed)
		case o == "ct":
			a.Reset(types.StreamConnectionTermination)
		case o == "rr":
			a.Reset(types.StreamRemoteReset)
		case o == "lr":
			a.Reset(types.StreamLocalReset)
		case o == "pt":
			// silence until the per-try timer fires: the next attempt or the end must appear near Created + rtTry
			t0 := a.Created
			ex.WaitTrace(rtTry+150*time.Millisecond, func([]string) bool { return attemptsNow() > i+1 || ex.Done() })
			if el := ex.Elapsed() - t0; el < rtTry-5*time.Millisecond || el > rtTry+60*time.Millisecond {
				note, ok = "pt-skew", false
			}
		case o == "gt":
			// silence until the global timer fires; the attempt must have started well inside (planned start ± 25ms)
			if d := a.Created - (k.global - rtGtInto); d < -25*time.Millisecond || d > 25*time.Millisecond {
				note, ok = "gt-skew", false
			}
			ex.WaitTrace(k.global+200*time.Millisecond, func([]string) bool { return ex.Done() })
		}
		if ok && !timed {
			// a scripted event must have been delivered well before any armed timer of this attempt could fire, and what it
			// causes (next attempt or the end) must be there before the global timer
			now := ex.Elapsed()
			if k.tryEffective() && now-a.Created > rtTry-30*time.Millisecond {
				note, ok = "late-vs-pertry", false
			}
			if finite && now > k.global-25*time.Millisecond {
				note, ok = "late-vs-global", false
			}
			if ok && finite {
				ex.WaitTrace(60*time.Millisecond, func([]string) bool { return attemptsNow() > i+1 || ex.Done() })
				if ex.Elapsed() > k.global-10*time.Millisecond {
					note, ok = "late-vs-global", false
				}
			}
		}
		if !ok {
			break
		}
	}
	// settle: either finished, or nothing moves any more (stuck)
	ex.WaitTrace(1200*time.Millisecond, func([]string) bool { return ex.Done() })
	ex.WaitQuiescentFor(25 * time.Millisecond)
	if k.probe && ex.Done() {
		// events after the response started must not cause anything
		as := ex.UpstreamAttempts()
		if len(as) > 0 {
			as[len(as)-1].Reset(types.StreamConnectionFailed)
		}
		ex.WaitQuiescentFor(15 * time.Millisecond)
	}
	// canonical output
	var parts []string
	ref := ""
	for _, a := range ex.UpstreamAttempts() {
		kind := "a"
		switch a.Failed {
		case types.ConnectionFailure:
			kind = "c"
		case types.Overflow:
			kind = "o"
		}
		p, h := "!", "!"
		if a.Failed == "" {
			p = hs(a.Path)
			h = hs(px.HeaderString(a.Headers))
			if ref == "" {
				ref = h
			} else if h == ref {
				h = "="
			}
		}
		parts = append(parts, fmt.Sprintf("%d:%d%s:%s:%s", a.Index, hostIdx(a.Host), kind, p, h))
	}
	final := "-"
	nReply := 0
	for _, t := range ex.Trace() {
		if strings.HasPrefix(t, "dh:") {
			nReply++
			final = strings.Split(t, ":")[1]
		}
	}
	if nReply > 1 {
		final = "multi"
	}
	if os.Getenv("C17_DEBUG") != "" {
		fmt.Fprintln(os.Stderr, k.tok(), "TRACE", ex.Trace())
	}
	at := "-"
	if len(parts) > 0 {
		at = strings.Join(parts, ";")
	}
	return at + " " + final, ok, note
}

func runRtAll(c *hx.Ctx) {
	n := c.N(360, 2400)
	cases := make([]*rtCase, n)
	for i := range cases {
		cases[i] = genRt(c.Rng)
	}
	// replay of past failures first: 503 then remote reset (stale status), budget floor, ten-pass loop
	fixed := []*rtCase{
		{hasPolicy: true, retryOn: true, numRetries: 2, hosts: 3, script: []string{"s503", "rr", "s200"}, path: "/svc/a", global: rtGlobalOff},
		{hasPolicy: true, retryOn: true, numRetries: 0, hosts: 2, script: []string{"s503", "s503", "s503", "s503", "s503", "s503"}, path: "/svc", global: rtGlobalOff},
		{hasPolicy: true, retryOn: true, numRetries: 12, hosts: 3, script: strings.Split("s503,s503,s503,s503,s503,s503,s503,s503,s503,s503,s503,s503,s503,s503,s503", ","), path: "/svc", global: rtGlobalOff},
		{hasPolicy: true, retryOn: true, numRetries: 9, hosts: 3, script: strings.Split("s503,cf,s503,cf,s503,cf,s503,cf,s503,cf,cf,cf", ","), path: "/svc", global: rtGlobalOff},
		{hasPolicy: false, hosts: 2, script: []string{"pc", "pc", "pc", "pc", "pc"}, path: "/svc/a", prefixRw: "/new", global: rtGlobalOff},
		{hasPolicy: true, retryOn: true, numRetries: 1, codes: []uint32{404}, hosts: 2, script: []string{"s404", "s503", "s404"}, path: "/svc/a", global: rtGlobalOff},
	}
	cases = append(fixed, cases...)
	out := make([]string, len(cases))
	var wg sync.WaitGroup
	var mu sync.Mutex
	workers := 3
	if w, err := strconv.Atoi(os.Getenv("C17_WORKERS")); err == nil && w > 0 {
		workers = w
	}
	sem := make(chan struct{}, workers)
	for i, k := range cases {
		wg.Add(1)
		go func(i int, k *rtCase) {
			defer wg.Done()
			sem <- struct{}{}
			defer func() { <-sem }()
			for try := 0; try < 4; try++ {
				impl, ok, note := runRtOnce(k)
				if ok {
					out[i] = impl
					return
				}
				mu.Lock()
				c.Count("rt.rerun=" + note)
				mu.Unlock()
			}
			mu.Lock()
			c.Count("rt.dropped-for-timing")
			mu.Unlock()
		}(i, k)
	}
	wg.Wait()
	for i, k := range cases {
		if out[i] == "" {
			continue
		}
		c.Emit("C17", k.tok(), out[i])
		na := 0
		if f := strings.Fields(out[i]); f[0] != "-" {
			na = strings.Count(f[0], ";") + 1
		}
		c.Count(fmt.Sprintf("rt.attempts=%d", na))
		c.Count("rt.final=" + strings.Fields(out[i])[1])
		for j, o := range k.script {
			if j < na {
				kind := o
				if o[0] == 's' {
					kind = "resp"
				}
				c.Count("rt.outcome=" + kind)
			}
		}
	}
}

// ---------------------------------------------------------------------------------------------------------------
// rw: prefix / regex rewrite through the real router and FinalizeRequestHeaders
// ---------------------------------------------------------------------------------------------------------------

func optHex(present bool, s string) string {
	if !present {
		return "~"
	}
	return hs(s)
}

func runRw(c *hx.Ctx, r *hx.Rng) {
	segs := []string{"/api", "/api/v1", "/Api", "/a", "/", "/static/img", "/api/v1/users/42", "/x.y", "/apiary"}
	kind := r.PickS([]string{"p", "p", "p", "x", "r"})
	match := r.PickS(segs)
	if kind == "r" {
		match = r.PickS([]string{"^/api/.*", "/v[0-9]+/", "^/static", ".*"})
	}
	prw := ""
	if r.Chance(55) {
		prw = r.PickS([]string{"/new", "/", "/v2/api", "/x", "/api"})
	}
	hasRe := r.Chance(55)
	re, sub := "", ""
	if hasRe {
		re = r.PickS([]string{"^/api", "/v1/", "a", "[0-9]+", "^/(.*)$", "/+", "x", "^/static/(.*)/(.*)$"})
		sub = r.PickS([]string{"/svc", "/v2/", "", "N", "/p/$1", "/", "/s/$2/$1"})
	}
	// request paths: mostly matching the route
	var path string
	switch kind {
	case "p":
		path = match + r.PickS([]string{"", "/", "/users/42", "x", "/v1/a1b22"})
		if r.Chance(10) {
			path = r.PickS(segs)
		}
	case "x":
		path = match
		if r.Chance(35) {
			path = strings.ToUpper(match[:1]) + strings.ToUpper(match[1:]) // exact-path routes match case-insensitively
		}
		if r.Chance(20) {
			path = strings.ToLower(match)
		}
	default:
		path = r.PickS([]string{"/api/v1/users/42", "/static/img/a.png", "/api/", "/x/v12/y", "/zzz"})
	}
	rcfg := v2.Router{}
	switch kind {
	case "p":
		rcfg.Match.Prefix = match
	case "x":
		rcfg.Match.Path = match
	default:
		rcfg.Match.Regex = match
	}
	rcfg.Route = v2.RouteAction{RouterActionConfig: v2.RouterActionConfig{ClusterName: "c", PrefixRewrite: prw}}
	if hasRe {
		rcfg.Route.RegexRewrite = &v2.RegexRewrite{Pattern: v2.PatternConfig{Regex: re}, Substitution: sub}
	}
	cfg := &v2.RouterConfiguration{RouterConfigurationConfig: v2.RouterConfigurationConfig{RouterConfigName: "c17rw"},
		VirtualHosts: []v2.VirtualHost{{Name: "vh", Domains: []string{"*"}, Routers: []v2.Router{rcfg}}}}
	rs, err := router.NewRouters(cfg)
	if err != nil {
		c.Count("rw.config-rejected")
		return
	}
	ctx := variable.NewVariableContext(context.Background())
	variable.SetString(ctx, types.VarPath, path)
	variable.SetString(ctx, types.VarHost, "h")
	h := protocol.CommonHeader{}
	rt := rs.MatchRoute(ctx, h)
	if rt == nil {
		c.Count("rw.no-match")
		return
	}
	rt.RouteRule().FinalizeRequestHeaders(ctx, h, network.NewRequestInfo())
	np, _ := variable.GetString(ctx, types.VarPath)
	orig, has := h.Get(types.HeaderOriginalPath)
	// the regexp library is a black box of the model: its answer is part of the case
	oracle := "~"
	if hasRe {
		if cre, err := regexp.Compile(re); err == nil {
			oracle = hs(cre.ReplaceAllString(path, sub))
		}
	}
	c.Emit("C17", fmt.Sprintf("rw %s %s %s %s %s %s", kind, hs(match), hs(prw), optHex(hasRe, re), hs(path), oracle), hs(np)+" "+optHex(has, orig))
	switch {
	case has && prw != "":
		c.Count("rw.prefix-rewritten")
	case has:
		c.Count("rw.regex-rewritten")
	default:
		c.Count("rw.untouched")
	}
}

// ---------------------------------------------------------------------------------------------------------------
// rd: redirect / direct response routes answered locally by the real proxy core
// ---------------------------------------------------------------------------------------------------------------

func runRd(c *hx.Ctx, r *hx.Rng) {
	hosts := []string{"svc", "svc:80", "svc:443", "svc:8080", "a.b.c", "a.b.c:80"}
	paths := []string{"/d", "/d/x", "/d/a-b_c.html"}
	q := struct{ scheme, host, path, query string }{r.PickS([]string{"http", "https"}), r.PickS(hosts), r.PickS(paths), r.PickS([]string{"", "", "k=v", "a=1&b=2"})}
	var opt px.RouteOpt
	var caseTok string
	direct := r.Chance(40)
	both := r.Chance(10)
	status, body := r.Pick([]int{200, 204, 403, 418, 503, 0, 302}), r.PickS([]string{"", "", "teapot", "{\"e\":1}", "a b"})
	code := r.Pick([]int{0, 301, 302, 303, 307, 308})
	scheme := r.PickS([]string{"", "", "https", "http", "HTTPS"})
	host := r.PickS([]string{"", "", "other", "other:8443", "o.p:80"})
	path := r.PickS([]string{"", "", "/new", "/n/e.w", "rel"})
	dTok := fmt.Sprintf("%d %s", status, hs(body))
	rTok := fmt.Sprintf("%d %s %s %s", code, hs(scheme), hs(host), hs(path))
	switch {
	case both:
		opt = func(rt *v2.Router) { px.DirectResponse(status, body)(rt); px.Redirect(code, scheme, host, path)(rt) }
		caseTok = "rd b " + dTok + " " + rTok
	case direct:
		opt = px.DirectResponse(status, body)
		caseTok = "rd d " + dTok + " 0 - - -"
	default:
		opt = px.Redirect(code, scheme, host, path)
		caseTok = "rd r 0 - " + rTok
	}
	caseTok += fmt.Sprintf(" %s %s %s %s", q.scheme, hs(q.host), hs(q.path), hs(q.query))
	f := px.New(px.Config{Clusters: []px.Cluster{{Name: "c1", Hosts: 2}}, Routes: []v2.Router{px.Route("/d", "c1", opt, px.Retry(true, 2, 0))}})
	defer f.Close()
	hd := px.H(":path", q.path, ":authority", q.host, ":scheme", q.scheme)
	if q.query != "" {
		hd[":query"] = q.query
	}
	ex := f.Request(hd, nil, nil)
	ex.WaitTrace(200*time.Millisecond, func([]string) bool { return ex.Done() })
	ex.WaitQuiescent()
	status2 := "-"
	for _, t := range ex.Trace() {
		if strings.HasPrefix(t, "dh:") {
			status2 = strings.Split(t, ":")[1]
		}
	}
	rh, rb := ex.ResponseHeaders()
	loc, hasLoc := "", false
	for _, kv := range rh {
		if kv[0] == "location" {
			loc, hasLoc = kv[1], true
		}
	}
	c.Emit("C17", caseTok, fmt.Sprintf("%d %s %s %s", len(ex.UpstreamAttempts()), status2, optHex(hasLoc, loc), hs(string(rb))))
	c.Count("rd.kind=" + strings.Fields(caseTok)[1])
}

func runPart2(c *hx.Ctx) {
	for i := 0; i < c.N(1500, 30000); i++ {
		runRw(c, c.Rng)
	}
	for i := 0; i < c.N(300, 3000); i++ {
		runRd(c, c.Rng)
	}
	runRtAll(c)
}
