//go:build verif

package c17

// Part 5 of C17: the route's retry policy FROM CONFIGURATION.
//
// kind `rp`: seeded retry_policy configurations (absent / retry_on true,false x retry_timeout x num_retries x status codes) x route
//   timeout x try/global timeout headers and variables, built through the real router.NewRouters (NewRouteRuleImplBase); read are
//   the accessors of the matched rule (Policy().RetryPolicy().RetryOn()/TryTimeout()/NumRetries()/RetryableStatusCodes()) and the
//   effective timeouts the real parseProxyTimeout computes for a request on that route.
// kind `re`: the same configurations on the real proxy core (harness/px): mode `cf` = k refused connects (pool refusal or stream
//   reset ConnectionFailed, per pattern) and then a 200 for whatever attempt follows => number of upstream attempts and final
//   status; mode `sil` = a silent first upstream => what cuts it (per-try timer or global timer, by the measured time), number of
//   attempts, final status.

import (
	"context"
	"fmt"
	"os"
	"strconv"
	"strings"
	"sync"
	"time"

	v2 "mosn.io/mosn/pkg/config/v2"
	"mosn.io/mosn/pkg/protocol"
	"mosn.io/mosn/pkg/proxy"
	"mosn.io/mosn/pkg/router"
	"mosn.io/mosn/pkg/types"
	"mosn.io/pkg/variable"
	"verif/harness/hx"
	"verif/harness/px"
)

func c17r9B(x bool) string {
	if x {
		return "1"
	}
	return "0"
}

func c17r9Codes(cs []uint32) string {
	if len(cs) == 0 {
		return "-"
	}
	var l []string
	for _, c := range cs {
		l = append(l, fmt.Sprint(c))
	}
	return strings.Join(l, ",")
}

// ---------------------------------------------------------------------------------------------------------------
// rp: configuration -> accessors -> parseProxyTimeout
// ---------------------------------------------------------------------------------------------------------------

func c17r9RunRp(c *hx.Ctx, r *hx.Rng) {
	durs := []time.Duration{0, time.Millisecond, 80 * time.Millisecond, 200 * time.Millisecond, time.Second, 5 * time.Second, 60 * time.Second, 61 * time.Second}
	hasPolicy := r.Chance(90)
	retryOn := r.Bool()
	tryT := durs[r.Intn(len(durs))]
	if r.Chance(25) {
		tryT = 0
	}
	nr := uint32(r.Pick([]int{0, 1, 2, 3, 4, 5, 6, 12}))
	var codes []uint32
	if r.Chance(40) {
		for i, n := 0, 1+r.Intn(3); i < n; i++ {
			codes = append(codes, rtCodes[r.Intn(len(rtCodes))])
		}
	}
	rg := durs[r.Intn(len(durs))]
	rc := v2.Router{}
	rc.Match = v2.RouterMatch{Prefix: "/"}
	rc.Route = v2.RouteAction{RouterActionConfig: v2.RouterActionConfig{ClusterName: "c"}, Timeout: rg}
	if hasPolicy {
		rc.Route.RetryPolicy = &v2.RetryPolicy{RetryPolicyConfig: v2.RetryPolicyConfig{RetryOn: retryOn, NumRetries: nr, StatusCodes: codes}, RetryTimeout: tryT}
	} else {
		retryOn, tryT, nr, codes = false, 0, 0, nil
	}
	cfg := &v2.RouterConfiguration{RouterConfigurationConfig: v2.RouterConfigurationConfig{RouterConfigName: "c17rp"},
		VirtualHosts: []v2.VirtualHost{{Name: "vh", Domains: []string{"*"}, Routers: []v2.Router{rc}}}}
	rs, err := router.NewRouters(cfg)
	if err != nil {
		panic(err)
	}
	mctx := variable.NewVariableContext(context.Background())
	variable.SetString(mctx, types.VarPath, "/")
	variable.SetString(mctx, types.VarHost, "h")
	rt := rs.MatchRoute(mctx, protocol.CommonHeader{})
	if rt == nil {
		panic("no route")
	}
	ctx := variable.NewVariableContext(context.Background())
	h := protocol.CommonHeader{}
	pick := func() (bool, string) { return r.Chance(25), r.PickS(tvals) }
	hTp, hT := pick()
	hGp, hG := pick()
	vTp, vT := pick()
	vGp, vG := pick()
	if hTp {
		h[types.HeaderTryTimeout] = hT
	}
	if hGp {
		h[types.HeaderGlobalTimeout] = hG
	}
	if vTp {
		if err := variable.SetString(ctx, types.VarProxyTryTimeout, vT); err != nil {
			panic(err)
		}
	}
	if vGp {
		if err := variable.SetString(ctx, types.VarProxyGlobalTimeout, vG); err != nil {
			panic(err)
		}
	}
	impl := "panic - - - - -"
	hx.Safe(func() {
		p := rt.RouteRule().Policy().RetryPolicy()
		g, t := proxy.VerifParseProxyTimeout(ctx, 0, 0, rt, h)
		impl = fmt.Sprintf("%s %d %d %s %d %d", c17r9B(p.RetryOn()), int64(p.TryTimeout()), p.NumRetries(), c17r9Codes(p.RetryableStatusCodes()), int64(g), int64(t))
	})
	c.Emit("C17", fmt.Sprintf("rp %s %s %d %d %s %d %s %s %s %s", c17r9B(hasPolicy), c17r9B(retryOn), int64(tryT), nr, c17r9Codes(codes), int64(rg),
		optTok(hTp, hT), optTok(hGp, hG), optTok(vTp, vT), optTok(vGp, vG)), impl)
	switch {
	case !hasPolicy:
		c.Count("rp.policy=absent")
	case retryOn:
		c.Count("rp.policy=retry_on")
	default:
		c.Count("rp.policy=retry_off")
	}
	if hasPolicy && !retryOn && (tryT > 0 || nr > 3) {
		c.Count("rp.retry_off-with-try-timeout-or-budget")
	}
}

// ---------------------------------------------------------------------------------------------------------------
// re: the configured policy on the real proxy core
// ---------------------------------------------------------------------------------------------------------------

const (
	c17r9SilTry    = 60 * time.Millisecond  // the "small" per-try timeout of the silent-upstream cases
	c17r9SilGlobal = 600 * time.Millisecond // their global timeout
	c17r9SilSplit  = 330 * time.Millisecond // cut before: per-try timer; after: global timer
	c17r9CfTry     = 1500 * time.Millisecond
	c17r9CfGlobal  = 4 * time.Second
)

type c17r9Case struct {
	hasPolicy bool
	retryOn   bool
	try       time.Duration
	nr        uint32
	global    time.Duration
	hosts     int
	mode      string // cf | sil
	pattern   string // cf: one letter per failure: p = pool refusal, c = stream reset ConnectionFailed
}

func (k *c17r9Case) tok() string {
	pat := k.pattern
	if pat == "" {
		pat = "-"
	}
	return fmt.Sprintf("re %s %s %d %d %d %d %s %d %s", c17r9B(k.hasPolicy), c17r9B(k.retryOn), int64(k.try/time.Millisecond), k.nr,
		int64(k.global/time.Millisecond), k.hosts, k.mode, len(k.pattern), pat)
}

func (k *c17r9Case) fixture() *px.Fixture {
	opts := []px.RouteOpt{px.Timeout(k.global)}
	if k.hasPolicy {
		opts = append(opts, px.Retry(k.retryOn, k.nr, k.try))
	}
	return px.New(px.Config{Clusters: []px.Cluster{{Name: "c1", Hosts: k.hosts}}, Routes: []v2.Router{px.Route("/svc", "c1", opts...)}})
}

func c17r9Final(ex *px.Exchange) string {
	final, n := "-", 0
	for _, t := range ex.Trace() {
		if strings.HasPrefix(t, "dh:") {
			n++
			final = strings.Split(t, ":")[1]
		}
	}
	if n > 1 {
		return "multi"
	}
	return final
}

func c17r9RunCf(k *c17r9Case) string {
	f := k.fixture()
	defer f.Close()
	for i, ch := range k.pattern {
		if ch == 'p' {
			f.PoolFailAttempt(i, types.ConnectionFailure)
		}
	}
	ex := f.Request(px.H(":path", "/svc/a", ":authority", "svc"), nil, nil)
	n := func() int { return len(ex.UpstreamAttempts()) }
	for i := 0; i <= len(k.pattern)+1; i++ {
		if !ex.WaitTrace(1500*time.Millisecond, func([]string) bool { return n() > i || ex.Done() }) || n() <= i {
			break
		}
		a := ex.WaitAttemptFor(i, time.Second)
		if a == nil {
			break
		}
		switch {
		case i >= len(k.pattern):
			a.RespondHeaders(200)
		case k.pattern[i] == 'c':
			a.Reset(types.StreamConnectionFailed)
		}
	}
	ex.WaitTrace(1500*time.Millisecond, func([]string) bool { return ex.Done() })
	ex.WaitQuiescentFor(25 * time.Millisecond)
	if os.Getenv("C17_DEBUG") != "" {
		fmt.Fprintln(os.Stderr, k.tok(), "TRACE", ex.Trace())
	}
	return fmt.Sprintf("%d %s", n(), c17r9Final(ex))
}

func c17r9RunSil(k *c17r9Case) string {
	f := k.fixture()
	defer f.Close()
	ex := f.Request(px.H(":path", "/svc/a", ":authority", "svc"), nil, nil)
	n := func() int { return len(ex.UpstreamAttempts()) }
	a0 := ex.WaitAttemptFor(0, time.Second)
	if a0 == nil {
		return "0 - none"
	}
	// silence: the first thing that happens is a timer
	cut := "none"
	if ex.WaitTrace(k.global+600*time.Millisecond, func([]string) bool { return n() > 1 || ex.Done() }) {
		if el := ex.Elapsed() - a0.Created; el < c17r9SilSplit {
			cut = "try"
		} else {
			cut = "global"
		}
	}
	if n() > 1 {
		if a := ex.WaitAttemptFor(1, time.Second); a != nil {
			a.RespondHeaders(200)
		}
	}
	ex.WaitTrace(1500*time.Millisecond, func([]string) bool { return ex.Done() })
	ex.WaitQuiescentFor(25 * time.Millisecond)
	if os.Getenv("C17_DEBUG") != "" {
		fmt.Fprintln(os.Stderr, k.tok(), "TRACE", ex.Trace())
	}
	return fmt.Sprintf("%d %s %s", n(), c17r9Final(ex), cut)
}

func c17r9Pattern(r *hx.Rng, n int) string {
	b := make([]byte, n)
	style := r.Intn(3)
	for i := range b {
		switch {
		case style == 0:
			b[i] = 'p'
		case style == 1:
			b[i] = 'c'
		case r.Bool():
			b[i] = 'p'
		default:
			b[i] = 'c'
		}
	}
	return string(b)
}

func c17r9RunRe(c *hx.Ctx) {
	r := c.Rng
	var cases []*c17r9Case
	nrs := []uint32{0, 1, 3, 4, 6}
	budget := func(nr uint32) int {
		if nr > 3 {
			return int(nr)
		}
		return 3
	}
	// replay of the seeded defect class first: retry_on=false with a per-try timeout / a budget above the floor
	cases = append(cases,
		&c17r9Case{hasPolicy: true, retryOn: false, try: c17r9SilTry, nr: 5, global: c17r9SilGlobal, hosts: 2, mode: "sil"},
		&c17r9Case{hasPolicy: true, retryOn: false, try: c17r9CfTry, nr: 5, global: c17r9CfGlobal, hosts: 3, mode: "cf", pattern: "pppppppp"},
		&c17r9Case{hasPolicy: true, retryOn: false, try: 0, nr: 6, global: c17r9CfGlobal, hosts: 2, mode: "cf", pattern: "cpcpcpcpc"})
	for rep := 0; rep < c.N(1, 5); rep++ {
		// cf grid: retry_on x retry_timeout {0, set} x num_retries, enough failures and a seeded number of failures
		for _, on := range []bool{true, false} {
			for _, try := range []time.Duration{0, c17r9CfTry} {
				for _, nr := range nrs {
					b := budget(nr)
					cases = append(cases,
						&c17r9Case{hasPolicy: true, retryOn: on, try: try, nr: nr, global: c17r9CfGlobal, hosts: 2 + r.Intn(3), mode: "cf", pattern: c17r9Pattern(r, b+1+r.Intn(2))},
						&c17r9Case{hasPolicy: true, retryOn: on, try: try, nr: nr, global: c17r9CfGlobal, hosts: 2 + r.Intn(3), mode: "cf", pattern: c17r9Pattern(r, r.Intn(b+1))})
				}
			}
		}
		cases = append(cases,
			&c17r9Case{global: c17r9CfGlobal, hosts: 2 + r.Intn(3), mode: "cf", pattern: c17r9Pattern(r, 4+r.Intn(2))},
			&c17r9Case{global: c17r9CfGlobal, hosts: 2 + r.Intn(3), mode: "cf", pattern: c17r9Pattern(r, r.Intn(4))})
		// sil grid: retry_on x retry_timeout {0, small, not below the global timeout} x num_retries {0, 4}
		for _, on := range []bool{true, false} {
			for _, try := range []time.Duration{0, c17r9SilTry, c17r9SilGlobal + 100*time.Millisecond} {
				if try != c17r9SilTry && rep > 0 && r.Chance(60) {
					continue // the cases cut by the global timer cost 600 ms each
				}
				cases = append(cases, &c17r9Case{hasPolicy: true, retryOn: on, try: try, nr: uint32(r.Pick([]int{0, 4})), global: c17r9SilGlobal, hosts: 2 + r.Intn(3), mode: "sil"})
			}
		}
		if rep == 0 {
			cases = append(cases, &c17r9Case{global: c17r9SilGlobal, hosts: 2, mode: "sil"})
		}
	}
	out := make([]string, len(cases))
	workers := 3
	if w, err := strconv.Atoi(os.Getenv("C17_WORKERS")); err == nil && w > 0 {
		workers = w
	}
	sem := make(chan struct{}, workers)
	var wg sync.WaitGroup
	for i, k := range cases {
		wg.Add(1)
		go func(i int, k *c17r9Case) {
			defer wg.Done()
			sem <- struct{}{}
			defer func() { <-sem }()
			out[i] = "panic - none"
			hx.Safe(func() {
				if k.mode == "cf" {
					out[i] = c17r9RunCf(k)
				} else {
					out[i] = c17r9RunSil(k)
				}
			})
		}(i, k)
	}
	wg.Wait()
	for i, k := range cases {
		c.Emit("C17", k.tok(), out[i])
		f := strings.Fields(out[i])
		pol := "absent"
		if k.hasPolicy {
			pol = "retry_on=" + c17r9B(k.retryOn)
		}
		if k.mode == "cf" {
			c.Count(fmt.Sprintf("re.cf.%s.attempts=%s", pol, f[0]))
		} else {
			c.Count(fmt.Sprintf("re.sil.%s.cut=%s.final=%s", pol, f[len(f)-1], f[1]))
		}
	}
}

func runPart5(c *hx.Ctx) {
	for i := 0; i < c.N(2500, 40000); i++ {
		c17r9RunRp(c, c.Rng)
	}
	c17r9RunRe(c)
}
