//go:build verif

package c17

// kind `fz`: FinalizeRequestHeaders of the real HTTP route rules on requests that ARRIVE WITH STATE — every header /
// variable the route actions read or write is already present in part of the cases (x-mosn-original-path, the
// auto_host_rewrite_header, host-like headers, the timeout headers, headers named in the three levels of
// request_headers_to_add / _remove), with values equal to / different from what the hop would write, or empty — and on
// two-hop chains: what the first hop produced (headers, path variable, host variable) is the second hop's request.

import (
	"context"
	"fmt"
	"regexp"
	"strings"

	"mosn.io/api"
	v2 "mosn.io/mosn/pkg/config/v2"
	"mosn.io/mosn/pkg/network"
	"mosn.io/mosn/pkg/protocol"
	"mosn.io/mosn/pkg/router"
	"mosn.io/mosn/pkg/types"
	"mosn.io/pkg/variable"
	"verif/harness/hx"
)

var fzNames = []string{types.HeaderOriginalPath, "X-Mosn-Original-Path", "x-mosn-host", "authority", "host", "x-fwd-host",
	types.HeaderTryTimeout, types.HeaderGlobalTimeout, "x-a", "x-b"}

type fzRoute struct {
	kind, match, prw   string
	hasRe              bool
	re, sub            string
	hostRw, autoHdr    string
	route, vhost, glob parser
}

func fzParser(r *hx.Rng, vals []string) parser {
	var p parser
	for i, n := 0, r.Pick([]int{0, 0, 0, 1, 1, 2}); i < n; i++ {
		p.adds = append(p.adds, add{r.PickS(fzNames), r.PickS(vals), r.Intn(3)})
	}
	for i, n := 0, r.Pick([]int{0, 0, 0, 0, 1, 2}); i < n; i++ {
		p.rems = append(p.rems, r.PickS(fzNames))
	}
	return p
}

// fzGenRoute: a route whose matcher mostly matches `hint` (the path the hop will receive)
func fzGenRoute(r *hx.Rng, hint string, vals []string) fzRoute {
	var q fzRoute
	q.kind = r.PickS([]string{"p", "p", "p", "x", "r"})
	// prefixes of the hint at segment boundaries
	cands := []string{"/"}
	for i := 1; i < len(hint); i++ {
		if hint[i] == '/' {
			cands = append(cands, hint[:i])
		}
	}
	if hint != "" {
		cands = append(cands, hint)
	}
	switch q.kind {
	case "p":
		q.match = r.PickS(cands)
		if r.Chance(8) {
			q.match = r.PickS([]string{"/api", "/zzz", "/Api"})
		}
	case "x":
		q.match = hint
		if hint == "" || r.Chance(10) {
			q.match = "/api"
		}
	default:
		q.match = r.PickS([]string{"^/api/.*", "/v[0-9]+/", "^/", ".*"})
	}
	if r.Chance(60) {
		q.prw = r.PickS([]string{"/new", "/", "/v2/api", "/x", "/api", "/svc"})
	}
	q.hasRe = r.Chance(50)
	if q.hasRe {
		q.re = r.PickS([]string{"^/api", "/v1/", "a", "[0-9]+", "^/(.*)$", "/+", "x", "^/new"})
		q.sub = r.PickS([]string{"/svc", "/v2/", "", "N", "/p/$1", "/"})
	}
	if r.Chance(45) {
		q.hostRw = r.PickS([]string{"up.example", "h", "client.host"})
	}
	if r.Chance(45) {
		q.autoHdr = r.PickS([]string{"x-fwd-host", "x-mosn-host", types.HeaderOriginalPath, "host", "X-Fwd-Host"})
	}
	q.route, q.vhost, q.glob = fzParser(r, vals), fzParser(r, vals), fzParser(r, vals)
	return q
}

func (q *fzRoute) tok() string {
	return fmt.Sprintf("%s %s %s %s %s %s %s %s %s", q.kind, hs(q.match), hs(q.prw), optHex(q.hasRe, q.re), hs(q.hostRw), hs(q.autoHdr),
		q.route.tok(), q.vhost.tok(), q.glob.tok())
}

func (q *fzRoute) build() (types.Routers, error) {
	ra, rr := q.route.opts()
	va, vr := q.vhost.opts()
	ga, gr := q.glob.opts()
	rc := v2.Router{}
	switch q.kind {
	case "p":
		rc.Match.Prefix = q.match
	case "x":
		rc.Match.Path = q.match
	default:
		rc.Match.Regex = q.match
	}
	rc.Route = v2.RouteAction{RouterActionConfig: v2.RouterActionConfig{ClusterName: "c", PrefixRewrite: q.prw, HostRewrite: q.hostRw,
		AutoHostRewriteHeader: q.autoHdr, RequestHeadersToAdd: ra, RequestHeadersToRemove: rr}}
	if q.hasRe {
		rc.Route.RegexRewrite = &v2.RegexRewrite{Pattern: v2.PatternConfig{Regex: q.re}, Substitution: q.sub}
	}
	cfg := &v2.RouterConfiguration{
		RouterConfigurationConfig: v2.RouterConfigurationConfig{RouterConfigName: "c17fz", RequestHeadersToAdd: ga, RequestHeadersToRemove: gr},
		VirtualHosts: []v2.VirtualHost{{Name: "vh", Domains: []string{"*"}, Routers: []v2.Router{rc}, RequestHeadersToAdd: va, RequestHeadersToRemove: vr}}}
	return router.NewRouters(cfg)
}

type fzReq struct {
	hdrs             map[string]string
	path, host       string
	hasPath, hasHost bool
}

// fzHop runs one hop on the real router; ok=false when the route does not match its own matching request (dropped)
func fzHop(c *hx.Ctx, hop int, q *fzRoute, in fzReq, matchPath string) (out fzReq, ok bool) {
	rs, err := q.build()
	if err != nil {
		c.Count("fz.config-rejected")
		return out, false
	}
	mctx := variable.NewVariableContext(context.Background())
	variable.SetString(mctx, types.VarPath, matchPath)
	variable.SetString(mctx, types.VarHost, "h")
	var rt api.Route = rs.MatchRoute(mctx, protocol.CommonHeader{})
	if rt == nil {
		c.Count("fz.no-match")
		return out, false
	}
	ctx := variable.NewVariableContext(context.Background())
	if in.hasPath {
		variable.SetString(ctx, types.VarPath, in.path)
	}
	if in.hasHost {
		variable.SetString(ctx, types.VarIstioHeaderHost, in.host)
	}
	h := protocol.CommonHeader{}
	for k, v := range in.hdrs {
		h[k] = v
	}
	rt.RouteRule().FinalizeRequestHeaders(ctx, h, network.NewRequestInfo())
	out.hdrs = map[string]string{}
	for k, v := range h {
		out.hdrs[k] = v
	}
	if p, err := variable.GetString(ctx, types.VarPath); err == nil {
		out.path, out.hasPath = p, true
	}
	if p, err := variable.GetString(ctx, types.VarIstioHeaderHost); err == nil {
		out.host, out.hasHost = p, true
	}
	oracle := "~"
	if q.hasRe && in.hasPath {
		if cre, err := regexp.Compile(q.re); err == nil {
			oracle = hs(cre.ReplaceAllString(in.path, q.sub))
		}
	}
	c.Emit("C17", fmt.Sprintf("fz %d %s %s %s %s %s", hop, q.tok(), optHex(in.hasPath, in.path), oracle, optHex(in.hasHost, in.host), hdrTok(in.hdrs)),
		optHex(out.hasPath, out.path)+" "+optHex(out.hasHost, out.host)+" "+hdrTok(out.hdrs))
	c.Count(fmt.Sprintf("fz.hop=%d", hop))
	pre, has := in.hdrs[types.HeaderOriginalPath]
	switch {
	case !has:
		c.Count("fz.incoming-original-path=absent")
	case pre == in.path:
		c.Count("fz.incoming-original-path=equal")
	case pre == "":
		c.Count("fz.incoming-original-path=empty")
	default:
		c.Count("fz.incoming-original-path=different")
	}
	if out.hasPath && in.hasPath && out.path != in.path {
		c.Count("fz.path-rewritten")
		if has {
			c.Count("fz.path-rewritten-with-incoming-original-path")
		}
	}
	switch {
	case q.hostRw != "":
		c.Count("fz.host=host_rewrite")
	case q.autoHdr != "":
		c.Count("fz.host=auto_header")
	default:
		c.Count("fz.host=none")
	}
	return out, true
}

func runFz(c *hx.Ctx, r *hx.Rng) {
	path := r.PickS([]string{"/api/v1/users/42", "/api", "/api/", "/static/img/a.png", "/a", "/x/v12/y", "/new/api/v1", "/api/api/x"})
	vals := []string{path, "/forged", "", "h2.example", "300", "0", "a,b", "1", "/new" + path, "client.host"}
	q1 := fzGenRoute(r, path, vals)
	in := fzReq{hdrs: map[string]string{}, path: path, hasPath: true}
	// adversarial pre-existing state
	for i, n := 0, r.Pick([]int{0, 1, 2, 2, 3, 4}); i < n; i++ {
		k := r.PickS(fzNames)
		if r.Chance(85) {
			k = strings.ToLower(k)
		}
		in.hdrs[k] = r.PickS(vals)
	}
	if r.Chance(35) {
		in.hdrs[types.HeaderOriginalPath] = r.PickS([]string{path, "/forged", "", "/earlier/hop"})
	}
	if q1.autoHdr != "" && r.Chance(60) {
		in.hdrs[strings.ToLower(q1.autoHdr)] = r.PickS([]string{"fwd.example", "", "up.example"})
	}
	if r.Chance(60) {
		in.host, in.hasHost = r.PickS([]string{"client.host", "up.example", ""}), true
	}
	matchPath := path
	switch r.Intn(20) {
	case 0:
		in.hasPath, in.path = false, "" // path variable unset when the route is finalized
	case 1:
		in.path = ""
	case 2:
		in.path = r.PickS([]string{"/other", "/Api/v1", "/ap"}) // changed between match and finalize (a filter may do that)
	}
	out, ok := fzHop(c, 1, &q1, in, matchPath)
	if !ok || !out.hasPath || out.path == "" || !r.Chance(70) {
		return
	}
	// second hop of a MOSN -> MOSN chain: receives what the first hop produced
	q2 := fzGenRoute(r, out.path, vals)
	fzHop(c, 2, &q2, out, out.path)
}

// fzFixed: the boundary chains, every run (deterministic): a MOSN -> MOSN chain whose hops both rewrite, and single hops on
// requests that already carry the original-path header (equal / different / empty), the host variable and the auto-rewrite header.
func fzFixed(c *hx.Ctx) {
	app := func(k, v string, a int) parser { return parser{adds: []add{{k, v, a}}} }
	for _, pre := range []struct {
		has bool
		v   string
	}{{false, ""}, {true, "/api/users"}, {true, "/forged"}, {true, ""}} {
		for _, kind := range []string{"p", "r"} {
			q1 := fzRoute{kind: "p", match: "/api", prw: "/v2", hostRw: "up.example"}
			if kind == "r" {
				q1 = fzRoute{kind: "p", match: "/api", hasRe: true, re: "^/api", sub: "/v2", autoHdr: "x-fwd-host"}
			}
			in := fzReq{hdrs: map[string]string{"x-fwd-host": "fwd.example", "x-a": "0"}, path: "/api/users", hasPath: true, host: "client.host", hasHost: true}
			if pre.has {
				in.hdrs[types.HeaderOriginalPath] = pre.v
			}
			out, ok := fzHop(c, 1, &q1, in, "/api/users")
			if !ok {
				continue
			}
			q2 := fzRoute{kind: "p", match: "/v2", prw: "/svc", route: app("x-a", "1", 1)}
			out2, ok := fzHop(c, 2, &q2, out, out.path)
			if !ok {
				continue
			}
			// a third hop that removes the recorded header by configuration and does not rewrite
			q3 := fzRoute{kind: "p", match: "/", vhost: parser{rems: []string{types.HeaderOriginalPath}}, autoHdr: types.HeaderOriginalPath}
			fzHop(c, 2, &q3, out2, out2.path)
		}
	}
}

func runPart3(c *hx.Ctx) {
	fzFixed(c)
	for i := 0; i < c.N(2500, 40000); i++ {
		runFz(c, c.Rng)
	}
}
