//go:build verif

package c17

// [c17h10] Kind `hm` (header mutations over the REAL protocol header maps): the three configuration objects carry the
// twelve independent mutation fields of kind `hw` (request/response x add/remove x route / virtual host / router
// configuration), the table is built from configuration through the real router.NewRouters, and the matched rule's
// FinalizeRequestHeaders / FinalizeResponseHeaders run on the header object a codec hands to the proxy:
//
//   h1   mosn.io/pkg/protocol/http.RequestHeader / ResponseHeader over a fasthttp header PARSED from generated wire text
//        (mixed-case names, repeated lines, dedicated fields Host / Content-Type / User-Agent / Cookie resp. Server /
//        Content-Encoding / Set-Cookie, empty values); read back with Range (VisitAll), Get for every pool name, and by
//        printing the header with fasthttp and parsing it again (what reaches the wire)
//   h2   pkg/protocol/http2.ReqHeader / RspHeader over a net/http.Header filled as the HTTP/2 codec does
//        (Add(CanonicalHeaderKey(name), value): value lists); read back from the http.Header itself (all values) and Get
//   bolt *bolt.Request / *bolt.Response DECODED by the real codec from a frame whose header block holds the generated
//        pairs (repeated keys possible); read back with Range, Get, the Changed flag, and by ENCODING the frame with
//        the real encoder and decoding it again (an overwrite that does not mark the frame changed would re-send the
//        raw bytes: tie with C01)
//
// case:  hm <proto> <side> <tag> <flags> <names> <route> <vhost> <router> <lines>  =>  <r0>|<r1>|<gets>|<wire>|<chg>
//   side  = req | resp (the direction driven; the configuration always carries both directions' fields)
//   tag   = n (normal stream) | x-... (deliberate member of a known exception class, see KNOWN_FINDINGS.txt)
//   flags = c<0|1> (h1 request: cookies collected before the mutations) d<0|1> (h1 response: noDefaultContentType)
//   names = the pool (for <gets>); level = reqAdds;reqRems/respAdds;respRems as in kind hw; lines = k:v,... in order
//   r0 / r1 = the map's own view before / after (name as stored : value, in the map's order; h2 sorted by name),
//   gets = name:value|~ per pool name, wire = the re-parsed printed header (h2: -), chg = bolt Changed flag (else -)

import (
	"bufio"
	"bytes"
	"context"
	"fmt"
	nhttp "net/http"
	"sort"
	"strings"
	"sync"

	"github.com/valyala/fasthttp"
	"mosn.io/api"
	v2 "mosn.io/mosn/pkg/config/v2"
	"mosn.io/mosn/pkg/network"
	"mosn.io/mosn/pkg/protocol"
	mhttp "mosn.io/mosn/pkg/protocol/http"
	"mosn.io/mosn/pkg/protocol/http2"
	"mosn.io/mosn/pkg/protocol/xprotocol"
	"mosn.io/mosn/pkg/protocol/xprotocol/bolt"
	"mosn.io/mosn/pkg/router"
	shttp "mosn.io/mosn/pkg/stream/http"
	"mosn.io/mosn/pkg/types"
	"mosn.io/pkg/buffer"
	"mosn.io/pkg/variable"
	"verif/harness/hx"
)

type hmLine struct{ k, v string }

// the last two: odd but legal tokens on which fasthttp's and net/textproto's key normalisation differ / do nothing special
var hmNamesHTTP = []string{"x-a", "X-A", "x-b", "fOo-bAr", "host", "Content-Type", "user-agent", "cookie", "server", "set-cookie", "x--y", "foo_bar"}
var hmNamesBolt = []string{"service", "Service", "x-a", "X-A", "k"}
var hmValues = []string{"1", "2", "v", "", "a,b", "q"}
var hmCookieValues = []string{"a=1", "b=2; c=3", "zzz", "a=9"}

func hmIsCookieName(proto, side, name string) bool {
	if proto != "h1" {
		return false
	}
	n := strings.ToLower(name)
	return (side == "req" && n == "cookie") || (side == "resp" && n == "set-cookie")
}

func hmPool(proto string) []string {
	if proto == "bolt" {
		return hmNamesBolt
	}
	return hmNamesHTTP
}

func hmGenAdds(r *hx.Rng, n int, pool []string) hwList {
	if n == 0 {
		return hwList{isNil: r.Chance(60)}
	}
	var l hwList
	for i := 0; i < n; i++ {
		name := r.PickS(pool)
		val := r.PickS(hmValues)
		if ln := strings.ToLower(name); (ln == "cookie" || ln == "set-cookie") && r.Chance(80) {
			val = r.PickS(hmCookieValues)
		}
		l.adds = append(l.adds, add{name, val, r.Intn(3)})
	}
	return l
}

func hmGenRems(r *hx.Rng, n int, pool []string) hwList {
	if n == 0 {
		return hwList{isNil: r.Chance(60)}
	}
	var l hwList
	for i := 0; i < n; i++ {
		l.rems = append(l.rems, r.PickS(pool))
	}
	return l
}

func hmGenLevel(r *hx.Rng, counts []int, pool []string) hwLevel {
	return hwLevel{hmGenAdds(r, r.Pick(counts), pool), hmGenRems(r, r.Pick(counts), pool), hmGenAdds(r, r.Pick(counts), pool), hmGenRems(r, r.Pick(counts), pool)}
}

func hmLinesTok(l []hmLine) string {
	if len(l) == 0 {
		return "-"
	}
	var out []string
	for _, e := range l {
		out = append(out, hs(e.k)+":"+hs(e.v))
	}
	return strings.Join(out, ",")
}

// the direction's mutations of one level
func hmDir(lv hwLevel, side string) (hwList, hwList) {
	if side == "req" {
		return lv.reqA, lv.reqR
	}
	return lv.respA, lv.respR
}

// ---- the rule -----------------------------------------------------------------------------------------------------

func hmRule(route, vhost, global hwLevel) api.RouteRule {
	rt := v2.Router{}
	rt.Match = v2.RouterMatch{Prefix: "/"}
	rt.Route = v2.RouteAction{RouterActionConfig: v2.RouterActionConfig{ClusterName: "c",
		RequestHeadersToAdd: route.reqA.optsA(), RequestHeadersToRemove: route.reqR.optsR(),
		ResponseHeadersToAdd: route.respA.optsA(), ResponseHeadersToRemove: route.respR.optsR()}}
	cfg := &v2.RouterConfiguration{
		RouterConfigurationConfig: v2.RouterConfigurationConfig{RouterConfigName: "c17hm",
			RequestHeadersToAdd: global.reqA.optsA(), RequestHeadersToRemove: global.reqR.optsR(),
			ResponseHeadersToAdd: global.respA.optsA(), ResponseHeadersToRemove: global.respR.optsR()},
		VirtualHosts: []v2.VirtualHost{{Name: "vh", Domains: []string{"*"}, Routers: []v2.Router{rt},
			RequestHeadersToAdd: vhost.reqA.optsA(), RequestHeadersToRemove: vhost.reqR.optsR(),
			ResponseHeadersToAdd: vhost.respA.optsA(), ResponseHeadersToRemove: vhost.respR.optsR()}},
	}
	rs, err := router.NewRouters(cfg)
	if err != nil {
		panic(err)
	}
	mctx := variable.NewVariableContext(context.Background())
	variable.SetString(mctx, types.VarPath, "/")
	variable.SetString(mctx, types.VarHost, "h")
	m := rs.MatchRoute(mctx, protocol.CommonHeader{})
	if m == nil {
		panic("hm: no route")
	}
	return m.RouteRule()
}

func hmFinalize(rule api.RouteRule, side string, h api.HeaderMap) {
	ctx := variable.NewVariableContext(context.Background())
	variable.SetString(ctx, types.VarPath, "/")
	if side == "req" {
		rule.FinalizeRequestHeaders(ctx, h, network.NewRequestInfo())
	} else {
		rule.FinalizeResponseHeaders(ctx, h, network.NewRequestInfo())
	}
}

// ---- read back ----------------------------------------------------------------------------------------------------

func hmRangeTok(l []hmLine) string { return hmLinesTok(l) }

// blankAbsent (h1): whether fasthttp's Peek answers nil or an empty slice for an EMPTY value depends on the history of
// the slot that holds it (a reused slot keeps its capacity); evaluateHeaders treats both alike (len(v) > 0), so Get of an
// empty value is printed as absent there. Range and the printed header, which show empty lines, are compared exactly.
func hmGets(h api.HeaderMap, pool []string, blankAbsent bool) string {
	var out []string
	for _, n := range pool {
		v, ok := h.Get(n)
		if blankAbsent && v == "" {
			ok = false
		}
		if ok {
			out = append(out, hs(n)+":"+hs(v))
		} else {
			out = append(out, hs(n)+":~")
		}
	}
	return strings.Join(out, ",")
}

// framing / hop-by-hop lines fasthttp manages itself are not part of the comparison
func hmUnmodelledH1(k string) bool {
	switch k {
	case "Content-Length", "Connection", "Date", "Transfer-Encoding", "Trailer":
		return true
	}
	return false
}

func hmRangeOf(h api.HeaderMap, h1 bool) []hmLine {
	var out []hmLine
	h.Range(func(k, v string) bool {
		if !(h1 && hmUnmodelledH1(k)) {
			// copies: the bolt header hands out strings that alias its byte slices (rewritten in place by a later Set)
			out = append(out, hmLine{string(append([]byte{}, k...)), string(append([]byte{}, v...))})
		}
		return true
	})
	return out
}

// ---- h1 -----------------------------------------------------------------------------------------------------------

func hmWireText(first string, lines []hmLine) string {
	var b strings.Builder
	b.WriteString(first + "\r\n")
	for _, e := range lines {
		b.WriteString(e.k + ": " + e.v + "\r\n")
	}
	b.WriteString("\r\n")
	return b.String()
}

func hmParseReq(text string) *fasthttp.RequestHeader {
	fh := &fasthttp.RequestHeader{}
	if err := fh.Read(bufio.NewReader(bytes.NewBufferString(text))); err != nil {
		panic("hm: request text does not parse: " + err.Error())
	}
	return fh
}

func hmParseResp(text string) *fasthttp.ResponseHeader {
	fh := &fasthttp.ResponseHeader{}
	if err := fh.Read(bufio.NewReader(bytes.NewBufferString(text))); err != nil {
		panic("hm: response text does not parse: " + err.Error())
	}
	return fh
}

var hmNdctOnce sync.Once
var hmNdct bool

// hmStreamNdct: whether the response header object of the HTTP/1 client stream has noDefaultContentType set (observed
// once on the real stream code; a property of the code, not of the case)
func hmStreamNdct() bool {
	hmNdctOnce.Do(func() {
		h, err := shttp.VerifClientResponseHeader(variable.NewVariableContext(context.Background()), []byte("HTTP/1.1 200 OK\r\nContent-Length: 0\r\n\r\n"))
		if err != nil || h.ResponseHeader == nil {
			panic("hm: probe response not accepted")
		}
		hmNdct = hmObservedNdct(h)
	})
	return hmNdct
}

// hmObservedNdct: does this response header object invent a Content-Type when it has none (noDefaultContentType off)?
func hmObservedNdct(h mhttp.ResponseHeader) bool {
	p := h.Clone().(mhttp.ResponseHeader)
	p.Del("Content-Type")
	return len(p.ContentType()) == 0
}

func hmDriveH1(rule api.RouteRule, side string, lines []hmLine, collect bool, pool []string) string {
	if side == "req" {
		fh := hmParseReq(hmWireText("GET / HTTP/1.1", lines))
		h := mhttp.RequestHeader{RequestHeader: fh}
		r0 := hmRangeOf(h.Clone(), true)
		if collect {
			h.Range(func(string, string) bool { return true })
		}
		hmFinalize(rule, side, h)
		wire := hmRangeOf(mhttp.RequestHeader{RequestHeader: hmParseReq(string(fh.Header()))}, true)
		gets := hmGets(h, pool, true)
		r1 := hmRangeOf(h, true)
		return hmRangeTok(r0) + "|" + hmRangeTok(r1) + "|" + gets + "|" + hmRangeTok(wire) + "|-"
	}
	// the header object of an upstream response as the HTTP/1 client stream hands it to the proxy: the real
	// fasthttp.Response.Read + clientStream.handleResponse (verif hook) on generated wire text
	text := hmWireText("HTTP/1.1 200 OK", append([]hmLine{{"Content-Length", "0"}}, lines...))
	h, err := shttp.VerifClientResponseHeader(variable.NewVariableContext(context.Background()), []byte(text))
	if err != nil || h.ResponseHeader == nil {
		panic(fmt.Sprintf("hm: response text not accepted by the client stream: %v", err))
	}
	fh := h.ResponseHeader
	cl := h.Clone().(mhttp.ResponseHeader)
	cl.SetNoDefaultContentType(true)
	r0 := hmRangeOf(cl, true)
	hmFinalize(rule, side, h)
	// what the server stream prints: the header copied, no default Content-Type invented (pkg/stream/http AppendHeaders)
	out := &fasthttp.ResponseHeader{}
	fh.CopyTo(out)
	out.SetNoDefaultContentType(true)
	w := hmParseResp(string(out.Header()))
	w.SetNoDefaultContentType(true)
	wire := hmRangeOf(mhttp.ResponseHeader{ResponseHeader: w}, true)
	gets := hmGets(h, pool, true)
	r1 := hmRangeOf(mhttp.ResponseHeader{ResponseHeader: out}, true)
	return hmRangeTok(r0) + "|" + hmRangeTok(r1) + "|" + gets + "|" + hmRangeTok(wire) + "|-"
}

// ---- h2 -----------------------------------------------------------------------------------------------------------

func hmH2Range(hh nhttp.Header) []hmLine {
	var keys []string
	for k := range hh {
		keys = append(keys, k)
	}
	sort.Strings(keys)
	var out []hmLine
	for _, k := range keys {
		for _, v := range hh[k] {
			out = append(out, hmLine{k, v})
		}
	}
	return out
}

func hmDriveH2(rule api.RouteRule, side string, lines []hmLine, pool []string) string {
	hh := nhttp.Header{}
	for _, e := range lines {
		hh.Add(nhttp.CanonicalHeaderKey(e.k), e.v) // pkg/module/http2: rp.header.Add(sc.canonicalHeader(name), value)
	}
	var h api.HeaderMap
	if side == "req" {
		h = http2.NewReqHeader(&nhttp.Request{Header: hh, Method: "GET", Host: "h", RequestURI: "/"})
	} else {
		h = http2.NewRspHeader(&nhttp.Response{Header: hh, StatusCode: 200})
	}
	r0 := hmH2Range(hh)
	hmFinalize(rule, side, h)
	return hmRangeTok(r0) + "|" + hmRangeTok(hmH2Range(hh)) + "|" + hmGets(h, pool, false) + "|-|-"
}

// ---- bolt ---------------------------------------------------------------------------------------------------------

var hmBoltProto api.XProtocol

func hmBolt() api.XProtocol {
	if hmBoltProto == nil {
		_ = xprotocol.RegisterXProtocolCodec(&bolt.XCodec{})
		hmBoltProto = (&bolt.XCodec{}).NewXProtocol(context.Background())
	}
	return hmBoltProto
}

func hmBoltDecode(b []byte) interface{} {
	ctx := variable.NewVariableContext(context.Background())
	cmd, err := hmBolt().Decode(ctx, buffer.NewIoBufferBytes(b))
	if err != nil || cmd == nil {
		panic(fmt.Sprintf("hm: bolt frame does not decode: %v", err))
	}
	return cmd
}

func hmBoltEncode(cmd interface{}) []byte {
	buf, err := hmBolt().Encode(context.Background(), cmd)
	if err != nil {
		panic("hm: bolt frame does not encode: " + err.Error())
	}
	return append([]byte{}, buf.Bytes()...)
}

func hmDriveBolt(rule api.RouteRule, side string, lines []hmLine, pool []string) string {
	var kvs []xprotocol.BytesKV
	for _, e := range lines {
		kvs = append(kvs, xprotocol.BytesKV{Key: []byte(e.k), Value: []byte(e.v)})
	}
	content := buffer.NewIoBufferBytes([]byte("payload"))
	var first interface{}
	if side == "req" {
		q := bolt.NewRpcRequest(7, nil, content)
		q.Class = "cls"
		q.Kvs = kvs
		first = q
	} else {
		p := bolt.NewRpcResponse(7, 0, nil, content)
		p.Class = "cls"
		p.Kvs = kvs
		first = p
	}
	cmd := hmBoltDecode(hmBoltEncode(first)) // the frame as the codec hands it to the proxy (raw bytes kept for the fast path)
	var h api.HeaderMap
	var bh *xprotocol.Header
	switch x := cmd.(type) {
	case *bolt.Request:
		h, bh = x, &x.BytesHeader
	case *bolt.Response:
		h, bh = x, &x.BytesHeader
	default:
		panic("hm: unexpected bolt command")
	}
	r0 := hmRangeOf(h, false)
	hmFinalize(rule, side, h)
	r1 := hmRangeOf(h, false)
	gets := hmGets(h, pool, false)
	chg := "0"
	if bh.Changed {
		chg = "1"
	}
	again := hmBoltDecode(hmBoltEncode(cmd))
	wire := hmRangeOf(again.(api.HeaderMap), false)
	return hmRangeTok(r0) + "|" + hmRangeTok(r1) + "|" + gets + "|" + hmRangeTok(wire) + "|" + chg
}

// ---- generation ---------------------------------------------------------------------------------------------------

type hmCase struct {
	proto, side, tag     string
	collect, ndct        bool
	route, vhost, global hwLevel
	lines                []hmLine
}

// names (lower-cased) the direction's configuration appends to / overwrites / removes
func (cs *hmCase) touched() (app, over, rem map[string]bool) {
	app, over, rem = map[string]bool{}, map[string]bool{}, map[string]bool{}
	for _, lv := range []hwLevel{cs.route, cs.vhost, cs.global} {
		a, r := hmDir(lv, cs.side)
		for _, x := range a.adds {
			if x.app == 0 {
				over[strings.ToLower(x.name)] = true
			} else {
				app[strings.ToLower(x.name)] = true
			}
		}
		for _, x := range r.rems {
			rem[strings.ToLower(x)] = true
		}
	}
	return
}

// class of the case, from its INPUT only: which documented exception of a protocol map it can reach
func (cs *hmCase) class() string {
	app, over, rem := cs.touched()
	count := map[string]int{}
	for _, e := range cs.lines {
		switch cs.proto {
		case "bolt":
			count[e.k]++
		default:
			count[strings.ToLower(e.k)]++
		}
	}
	switch cs.proto {
	case "h2":
		for n, c := range count {
			if c >= 2 && app[n] {
				return "x-h2-multi-append"
			}
		}
	case "bolt":
		for n, c := range count {
			// configured names are lower-cased; bolt keys are exact
			if c >= 2 && rem[n] || c >= 3 && over[n] {
				return "x-bolt-dup-del"
			}
		}
	case "h1":
		ck := "cookie"
		if cs.side == "resp" {
			ck = "set-cookie"
		}
		if app[ck] {
			return "x-h1-cookie-append"
		}
		for _, lv := range []hwLevel{cs.route, cs.vhost, cs.global} {
			a, _ := hmDir(lv, cs.side)
			for _, x := range a.adds {
				if strings.ToLower(x.name) == ck && x.value == "" {
					return "x-h1-cookie-append"
				}
			}
		}
	}
	return "n"
}

func hmGenLines(r *hx.Rng, proto string, pool []string) []hmLine {
	var lines []hmLine
	for i, n := 0, r.Pick([]int{0, 1, 2, 2, 3, 3, 4, 5, 6}); i < n; i++ {
		k := r.PickS(pool)
		v := r.PickS(hmValues)
		if ln := strings.ToLower(k); (ln == "cookie" || ln == "set-cookie") && r.Chance(80) {
			v = r.PickS(hmCookieValues)
		}
		if proto != "bolt" && r.Chance(30) { // another spelling of the name on the wire
			switch r.Intn(3) {
			case 0:
				k = strings.ToUpper(k)
			case 1:
				k = strings.ToLower(k)
			default:
				k = nhttp.CanonicalHeaderKey(k)
			}
		}
		lines = append(lines, hmLine{k, v})
		if r.Chance(22) { // a repeated line of the same name
			lines = append(lines, hmLine{k, r.PickS(hmValues)})
		}
	}
	return lines
}

func hmGen(r *hx.Rng, proto string) hmCase {
	pool := hmPool(proto)
	counts := hwCounts
	if r.Chance(50) {
		counts = hwSparse
	}
	cs := hmCase{proto: proto, ndct: hmStreamNdct()}
	cs.route, cs.vhost, cs.global = hmGenLevel(r, counts, pool), hmGenLevel(r, counts, pool), hmGenLevel(r, counts, pool)
	cs.lines = hmGenLines(r, proto, pool)
	cs.collect = r.Chance(40)
	return cs
}

func hmEmit(c *hx.Ctx, cs hmCase, rule api.RouteRule, stream string) {
	pool := hmPool(cs.proto)
	var out string
	switch cs.proto {
	case "h1":
		out = hmDriveH1(rule, cs.side, cs.lines, cs.collect, pool)
	case "h2":
		out = hmDriveH2(rule, cs.side, cs.lines, pool)
	default:
		out = hmDriveBolt(rule, cs.side, cs.lines, pool)
	}
	b2 := func(b bool) string {
		if b {
			return "1"
		}
		return "0"
	}
	var names []string
	for _, n := range pool {
		names = append(names, hs(n))
	}
	c.Emit("C17", fmt.Sprintf("hm %s %s %s c%sd%s %s %s %s %s %s", cs.proto, cs.side, cs.tag, b2(cs.collect), b2(cs.ndct),
		strings.Join(names, ","), cs.route.tok(), cs.vhost.tok(), cs.global.tok(), hmLinesTok(cs.lines)), out)
	c.Count("hm.proto=" + cs.proto + "/" + cs.side)
	c.Count("hm.stream=" + stream)
	c.Count("hm.class=" + cs.tag)
	n := 0
	for _, lv := range []hwLevel{cs.route, cs.vhost, cs.global} {
		a, rm := hmDir(lv, cs.side)
		n += len(a.adds) + len(rm.rems)
	}
	nb := "0"
	switch {
	case n >= 6:
		nb = "6+"
	case n >= 3:
		nb = "3-5"
	case n >= 1:
		nb = "1-2"
	}
	c.Count("hm.mutations(direction)=" + nb)
	dup, special, mixed, empty := false, false, false, false
	seen := map[string]bool{}
	for _, e := range cs.lines {
		lk := strings.ToLower(e.k)
		if cs.proto == "bolt" {
			lk = e.k
		}
		if seen[lk] {
			dup = true
		}
		seen[lk] = true
		switch strings.ToLower(e.k) {
		case "host", "content-type", "user-agent", "cookie", "server", "set-cookie":
			special = true
		}
		if e.k != strings.ToLower(e.k) {
			mixed = true
		}
		if e.v == "" {
			empty = true
		}
	}
	c.Count(fmt.Sprintf("hm.lines=%d", len(cs.lines)))
	c.Count(fmt.Sprintf("hm.initial: repeated=%v special=%v mixed-case=%v empty-value=%v", dup, special, mixed, empty))
}

// one generated configuration, both directions; the normal stream is kept clear of the exception classes by
// regenerating the initial lines (the configuration stays)
func runHm(c *hx.Ctx, r *hx.Rng, proto string) {
	cs := hmGen(r, proto)
	rule := hmRule(cs.route, cs.vhost, cs.global)
	for _, side := range []string{"req", "resp"} {
		x := cs
		x.side = side
		for try := 0; ; try++ {
			x.tag = x.class()
			if x.tag == "n" || try >= 30 {
				break
			}
			x.lines = hmGenLines(r, proto, hmPool(proto))
			if try >= 10 {
				x.lines = nil
			}
		}
		if x.tag != "n" {
			// the configuration itself is in the class (h1 cookie appends): emitted as a member of the class
			hmEmit(c, x, rule, "random-in-class")
			continue
		}
		hmEmit(c, x, rule, "random")
	}
}

// fixed cases first: the minimal members of each behaviour the model states, independent of the seed
func hmFixed(c *hx.Ctx) {
	rem := func(n ...string) hwList { return hwList{rems: n} }
	ad := func(n, v string, app int) hwList { return hwList{adds: []add{{n, v, app}}} }
	none := hwLevel{hwNil, hwNil, hwNil, hwNil}
	both := func(a, r hwList) hwLevel { return hwLevel{a, r, a, r} }
	type fx struct {
		proto               string
		route, vhost, globl hwLevel
		lines               []hmLine
	}
	L := func(kv ...string) []hmLine {
		var l []hmLine
		for i := 0; i+1 < len(kv); i += 2 {
			l = append(l, hmLine{kv[i], kv[i+1]})
		}
		return l
	}
	var cases []fx
	for _, p := range []string{"h1", "h2"} {
		cases = append(cases,
			// removal of a mixed-case name configured in another case
			fx{p, both(hwNil, rem("X-A")), none, none, L("x-a", "1", "X-B", "2")},
			fx{p, none, both(hwNil, rem("foo-bar")), none, L("fOo-bAr", "1", "FOO-BAR", "2", "x-b", "3")},
			// overwrite of a repeated name leaves exactly the configured value
			fx{p, both(ad("x-a", "n", 0), hwNil), none, none, L("X-A", "1", "x-a", "2", "x-b", "3")},
			// append onto a single value, at three levels
			fx{p, both(ad("x-a", "r", 1), hwNil), both(ad("X-A", "v", 2), hwNil), both(ad("x-a", "g", 1), hwNil), L("X-a", "0")},
			// removal after addition within a level, re-addition at the next
			fx{p, both(ad("x-b", "r", 1), rem("x-b")), both(ad("x-b", "v", 1), hwNil), none, L("x-b", "0")},
			// dedicated fields: overwrite, append, removal, empty value
			fx{p, both(ad("host", "h2", 0), hwNil), none, none, L("Host", "h1", "Server", "s1")},
			fx{p, both(ad("content-type", "b", 1), hwNil), none, none, L("Content-Type", "a")},
			fx{p, both(hwNil, rem("User-Agent", "server")), none, none, L("User-Agent", "ua", "Server", "s1", "Host", "h1")},
			fx{p, both(ad("host", "", 0), hwNil), none, none, L("Host", "h1")},
			fx{p, both(ad("x-b", "", 0), hwNil), none, none, L("x-b", "1")},
			// a Content-Type appended (append unset = default true) to a message that has none
			fx{p, both(ad("content-type", "application/json", 2), hwNil), none, none, L("x-a", "1")},
			// cookies: overwrite and removal
			fx{p, both(ad("cookie", "c=3", 0), hwNil), none, none, L("Cookie", "a=1", "Cookie", "b=2")},
			fx{p, both(ad("set-cookie", "c=3", 0), hwNil), none, none, L("Set-Cookie", "a=1", "Set-Cookie", "b=2")},
			fx{p, both(hwNil, rem("cookie", "set-cookie")), none, none, L("Cookie", "a=1", "Set-Cookie", "b=2", "x-a", "1")},
		)
	}
	cases = append(cases,
		// append onto a repeated HTTP/1 name joins onto the first line, the others stay
		fx{"h1", both(ad("x-a", "n", 1), hwNil), none, none, L("X-A", "1", "x-a", "2")},
		// the documented exception classes (tagged by class())
		fx{"h2", both(ad("x-a", "n", 1), hwNil), none, none, L("X-A", "1", "x-a", "2")},
		fx{"h1", both(ad("cookie", "c=3", 1), hwNil), none, none, L("Cookie", "a=1")},
		fx{"h1", both(ad("set-cookie", "c=3", 1), hwNil), none, none, L("Set-Cookie", "a=1")},
		fx{"bolt", both(hwNil, rem("k")), none, none, L("k", "1", "k", "2")},
		fx{"bolt", both(ad("k", "n", 0), hwNil), none, none, L("k", "1", "k", "2", "k", "3")},
		// bolt: exact keys (configured names are lower-cased), overwrite marks the frame changed, a no-op leaves it alone
		fx{"bolt", both(ad("service", "n", 0), hwNil), none, none, L("service", "s", "Service", "S")},
		fx{"bolt", both(ad("Service", "n", 1), hwNil), none, none, L("Service", "S")},
		fx{"bolt", both(ad("k", "n", 0), hwNil), none, none, L("k", "1", "k", "2")},
		fx{"bolt", both(hwNil, rem("absent")), none, none, L("k", "1")},
		fx{"bolt", none, none, none, L("k", "1", "x-a", "2")},
		fx{"bolt", both(ad("k", "1", 0), hwNil), none, none, L("k", "1")},
		fx{"bolt", both(ad("k", "n", 1), hwNil), both(hwNil, rem("k")), both(ad("k", "g", 2), hwNil), nil},
	)
	for _, f := range cases {
		rule := hmRule(f.route, f.vhost, f.globl)
		for _, side := range []string{"req", "resp"} {
			for _, col := range []bool{false, true} {
				if col && (f.proto != "h1" || side != "req") {
					continue
				}
				cs := hmCase{proto: f.proto, side: side, collect: col, ndct: hmStreamNdct(), route: f.route, vhost: f.vhost, global: f.globl, lines: f.lines}
				cs.tag = cs.class()
				hmEmit(c, cs, rule, "fixed")
			}
		}
	}
}

// deliberate members of the exception classes (small, tagged): the behaviour stated for them is re-observed on every run
func runHmClass(c *hx.Ctx, r *hx.Rng) {
	pick := r.Intn(4)
	var cs hmCase
	switch pick {
	case 0:
		cs = hmGen(r, "h2")
		cs.side = "req"
		cs.lines = append(cs.lines, hmLine{"X-A", "1"}, hmLine{"x-a", r.PickS(hmValues)})
		cs.vhost.reqA = hwList{adds: []add{{"x-a", r.PickS(hmValues), 1 + r.Intn(2)}}}
	case 1:
		cs = hmGen(r, "bolt")
		cs.side = "resp"
		cs.lines = append(cs.lines, hmLine{"k", "1"}, hmLine{"k", r.PickS(hmValues)})
		cs.vhost.respR = hwList{rems: []string{"k"}}
	case 2:
		cs = hmGen(r, "h1")
		cs.side = "req"
		cs.route.reqA = hwList{adds: []add{{"Cookie", r.PickS(hmCookieValues), 1 + r.Intn(2)}}}
	default:
		cs = hmGen(r, "h1")
		cs.side = "resp"
		cs.global.respA = hwList{adds: []add{{"set-cookie", r.PickS(hmCookieValues), 1 + r.Intn(2)}}}
	}
	cs.tag = cs.class()
	hmEmit(c, cs, hmRule(cs.route, cs.vhost, cs.global), "class")
}

func runPart6(c *hx.Ctx) {
	hmFixed(c)
	r := c.Rng.Fork()
	for i := 0; i < c.N(1500, 30000); i++ {
		runHm(c, r, "h1")
	}
	for i := 0; i < c.N(800, 16000); i++ {
		runHm(c, r, "h2")
	}
	for i := 0; i < c.N(800, 16000); i++ {
		runHm(c, r, "bolt")
	}
	for i := 0; i < c.N(120, 2000); i++ {
		runHmClass(c, r)
	}
}
