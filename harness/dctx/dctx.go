//go:build verif

// Package dctx: per-frame isolation of the xprotocol server stream connection (kind `ctx` of C02 and C07).
//
// SEVERAL frames (requests, one-way requests, responses, heartbeats) are fed in ONE read — and in many other
// chunkings — through the real server-side streamConn.Dispatch with the real codec. The receiver behaves like the
// proxy: it KEEPS the context, the sender (server stream), the frame and the data buffer it is handed and looks at
// them only after the whole Dispatch call has returned (the proxy's worker pool works on them then), and once more
// after the last read; at the end of the case it hands every context back to the buffer pools, as the proxy does when
// a request ends. What it reads back: request id of the kept frame, token of its headers + body, id of the kept
// stream, the stream-id variable and the raw-bytes variable of the kept context, and the identity of the context.
//
// Case line:  ctx <proto> <stream hex> <k:id:tokF:tokR:len,...> <chunk lengths>
//             => <after-call views> <final views> <context classes of the receivers> <context classes of all decoded frames> <ack ids> <residue> <failed>
// The frame descriptions are what the real decoder reports for each frame decoded IN ISOLATION (fresh codec, fresh context).
package dctx

import (
	"bufio"
	"context"
	"fmt"
	"hash/fnv"
	"net"
	"os"
	"path/filepath"
	"sort"
	"strconv"
	"strings"

	"mosn.io/api"
	"mosn.io/mosn/pkg/log"
	xstream "mosn.io/mosn/pkg/stream/xprotocol"
	"mosn.io/mosn/pkg/types"
	"mosn.io/pkg/buffer"
	"mosn.io/pkg/variable"
	"verif/harness/framegen"
	"verif/harness/hx"
)

type kept struct {
	ctx    context.Context
	sender types.StreamSender
	frame  api.XFrame
	data   api.IoBuffer
	after  string // view right after the Dispatch call that delivered it
}

type rec struct {
	decCtx []context.Context // the context Decode was given for every frame it returned
	kept   []*kept
	acks   [][]byte
	errs   int
	closed bool
}

type wrapCodec struct {
	api.XProtocolCodec
	r *rec
}

func (w *wrapCodec) NewXProtocol(ctx context.Context) api.XProtocol {
	return &wrapProto{XProtocol: w.XProtocolCodec.NewXProtocol(ctx), r: w.r}
}

type wrapProto struct {
	api.XProtocol
	r *rec
}

func (p *wrapProto) Decode(ctx context.Context, data api.IoBuffer) (interface{}, error) {
	before := data.Len()
	f, err := p.XProtocol.Decode(ctx, data)
	if err != nil {
		p.r.errs++
	} else if f != nil {
		p.r.decCtx = append(p.r.decCtx, ctx)
		if before == data.Len() {
			panic("verif: frame produced without draining")
		}
	}
	return f, err
}

type stubConn struct {
	api.Connection
	r *rec
}

func (c *stubConn) ID() uint64                           { return 7 }
func (c *stubConn) LocalAddr() net.Addr                  { return &net.TCPAddr{} }
func (c *stubConn) RemoteAddr() net.Addr                 { return &net.TCPAddr{} }
func (c *stubConn) SetTransferEventListener(func() bool) {}
func (c *stubConn) State() api.ConnState                 { return api.ConnActive }
func (c *stubConn) AddConnectionEventListener(api.ConnectionEventListener) {
}

// Write: what connection.doWriteIo does with a buffer once its bytes are on the wire
func (c *stubConn) Write(bufs ...buffer.IoBuffer) error {
	for _, b := range bufs {
		if b == nil {
			continue
		}
		c.r.acks = append(c.r.acks, append([]byte(nil), b.Bytes()...))
		_ = buffer.PutIoBuffer(b)
	}
	return nil
}
func (c *stubConn) Close(api.ConnectionCloseType, api.ConnectionEvent) error {
	c.r.closed = true
	return nil
}

type listener struct{ r *rec }

func (l *listener) OnGoAway() {}
func (l *listener) NewStreamDetect(ctx context.Context, sender types.StreamSender, span api.Span) types.StreamReceiveListener {
	k := &kept{ctx: ctx, sender: sender}
	l.r.kept = append(l.r.kept, k)
	return k
}

func (k *kept) OnReceive(ctx context.Context, headers api.HeaderMap, data buffer.IoBuffer, trailers api.HeaderMap) {
	k.frame, _ = headers.(api.XFrame)
	k.data = data
}
func (k *kept) OnDecodeError(ctx context.Context, err error, headers api.HeaderMap) {}

func h32(parts ...[]byte) uint32 {
	h := fnv.New32a()
	for _, p := range parts {
		var l [4]byte
		l[0], l[1], l[2], l[3] = byte(len(p)>>24), byte(len(p)>>16), byte(len(p)>>8), byte(len(p))
		h.Write(l[:])
		h.Write(p)
	}
	return h.Sum32()
}

func bufBytes(b api.IoBuffer) []byte {
	if b == nil {
		return nil
	}
	return b.Bytes()
}

// frameTok: token of what a frame object holds — headers (sorted: some header maps are Go maps) and body; the body is
// taken twice: from the buffer handed to the receiver and from the frame itself
func frameTok(f api.XFrame, data api.IoBuffer) uint32 {
	var kv []string
	f.GetHeader().Range(func(k, v string) bool {
		kv = append(kv, k+"\x00"+v)
		return true
	})
	sort.Strings(kv)
	return h32([]byte(strings.Join(kv, "\x01")), bufBytes(data), bufBytes(f.GetData()))
}

func opt(ok bool, v uint64) string {
	if !ok {
		return "-"
	}
	return strconv.FormatUint(v, 10)
}

// view = fid.ftok.sid.vid.rtok as the receiver reads it back from what it kept
func (k *kept) view() string {
	fid, ftok, sid, vid, rtok := "-", "-", "-", "-", "-"
	hx.Safe(func() {
		if k.frame != nil {
			fid = opt(true, k.frame.GetRequestId())
			ftok = opt(true, uint64(frameTok(k.frame, k.data)))
		}
	})
	hx.Safe(func() {
		if k.sender != nil {
			sid = opt(true, k.sender.GetStream().ID())
		}
	})
	hx.Safe(func() {
		if v, err := variable.Get(k.ctx, types.VariableStreamID); err == nil {
			if u, ok := v.(uint64); ok {
				vid = opt(true, u)
			}
		}
	})
	hx.Safe(func() {
		if v, err := variable.Get(k.ctx, types.VarRequestRawData); err == nil {
			if b, ok := v.([]byte); ok {
				rtok = opt(true, uint64(h32(b)))
			}
		}
	})
	return fid + "." + ftok + "." + sid + "." + vid + "." + rtok
}

// ref describes one frame as the real decoder sees it in isolation.
type ref struct {
	kind       string // q | o | r | h
	id         uint64
	tokF, tokR uint32
	n          int
}

func describe(proto string, b []byte) (ref, bool) {
	ctx := framegen.Ctx()
	p := framegen.Codec(proto).NewXProtocol(ctx)
	buf := buffer.NewIoBufferBytes(append([]byte(nil), b...))
	var f interface{}
	var err error
	if _, pan := hx.Safe(func() { f, err = p.Decode(ctx, buf) }); pan || err != nil || f == nil || buf.Len() != 0 {
		return ref{}, false
	}
	xf, ok := f.(api.XFrame)
	if !ok {
		return ref{}, false
	}
	if g, ok := f.(api.GoAwayPredicate); ok && g.IsGoAwayFrame() {
		return ref{}, false
	}
	r := ref{id: xf.GetRequestId(), n: len(b)}
	switch xf.GetStreamType() {
	case api.Request:
		r.kind = "q"
	case api.RequestOneWay:
		r.kind = "o"
	case api.Response:
		r.kind = "r"
	default:
		return ref{}, false
	}
	if xf.IsHeartbeatFrame() {
		if r.kind == "r" {
			return r, true // a heartbeat response is looked up like any response
		}
		r.kind = "h" // handleRequest answers heartbeats of both request types itself
	}
	r.tokF = frameTok(xf, xf.GetData())
	name := types.VarRequestRawData
	if r.kind == "r" {
		name = types.VarResponseRawData
	}
	if v, err := variable.Get(ctx, name); err == nil {
		if raw, ok := v.([]byte); ok {
			r.tokR = h32(raw)
		}
	}
	return r, true
}

type scase struct {
	proto  string
	stream []byte
	refs   []ref
}

func (s *scase) framesTok() string {
	var p []string
	for _, r := range s.refs {
		p = append(p, fmt.Sprintf("%s:%d:%d:%d:%d", r.kind, r.id, r.tokF, r.tokR, r.n))
	}
	return strings.Join(p, ",")
}

func ints(l []int) string {
	if len(l) == 0 {
		return "-"
	}
	var p []string
	for _, v := range l {
		p = append(p, strconv.Itoa(v))
	}
	return strings.Join(p, ",")
}

func strs(l []string) string {
	if len(l) == 0 {
		return "-"
	}
	return strings.Join(l, ",")
}

// run feeds the stream in the given reads and emits the case.
func (s *scase) run(c *hx.Ctx, prop string, chunks []int, how string) {
	r := &rec{}
	f := xstream.NewStreamFactory(&wrapCodec{XProtocolCodec: framegen.Codec(s.proto), r: r})
	sc := f.CreateServerStream(framegen.Ctx(), &stubConn{r: r}, &listener{r: r})
	rb := buffer.NewIoBuffer(64)
	off := 0
	for _, n := range chunks {
		if r.errs > 0 {
			off += n
			continue
		}
		rb.Write(s.stream[off : off+n])
		off += n
		seen := len(r.kept)
		if _, p := hx.Safe(func() { sc.Dispatch(rb) }); p {
			r.errs++
		}
		// the Dispatch call has returned: the workers look at what they were handed
		for _, k := range r.kept[seen:] {
			k.after = k.view()
		}
	}
	if off != len(s.stream) {
		panic("chunks do not cover the stream")
	}
	var as, bs, cls, dec, acks []string
	classOf := func(ctx context.Context) int {
		for i, d := range r.decCtx {
			if d == ctx {
				return i
			}
		}
		return len(r.decCtx)
	}
	for _, k := range r.kept {
		as = append(as, k.after)
		bs = append(bs, k.view())
		cls = append(cls, strconv.Itoa(classOf(k.ctx)))
	}
	for _, d := range r.decCtx {
		dec = append(dec, strconv.Itoa(classOf(d)))
	}
	for _, a := range r.acks {
		if d, ok := describe(s.proto, a); ok {
			acks = append(acks, strconv.FormatUint(d.id, 10))
		} else {
			acks = append(acks, "0")
		}
	}
	failed := "0"
	if r.errs > 0 || r.closed {
		failed = "1"
	}
	c.Emit(prop, fmt.Sprintf("ctx %s %s %s %s", s.proto, hx.Hex(s.stream), s.framesTok(), ints(chunks)),
		fmt.Sprintf("%s %s %s %s %s %d %s", strs(as), strs(bs), strs(cls), strs(dec), strs(acks), rb.Len(), failed))
	c.Count("ctx." + how)
	// the requests end: every receiver hands its context back to the pools (once per context object)
	given := map[context.Context]bool{}
	for _, k := range r.kept {
		if !given[k.ctx] {
			given[k.ctx] = true
			hx.Safe(func() { buffer.PoolContext(k.ctx).Give() })
		}
	}
}

func build(c *hx.Ctx, proto string) *scase {
	s := &scase{proto: proto}
	n := 2 + c.Rng.Intn(6)
	for tries := 0; len(s.refs) < n && tries < 60; tries++ {
		f := framegen.Gen(c.Rng, proto, true)
		if (proto == "bolt" || proto == "boltv2") && c.Rng.Chance(25) && f.Kind == "req" {
			// more one-way requests: same layout, cmd type 2
			if proto == "bolt" {
				f.Bytes[1] = 2
			} else {
				f.Bytes[2] = 2
			}
		}
		if len(s.stream)+len(f.Bytes) > 900 {
			continue
		}
		d, ok := describe(proto, f.Bytes)
		if !ok {
			c.Count("ctx.gen.refused-in-isolation." + proto)
			continue
		}
		// neighbours with equal ids would hide an exchange of ids: keep ids distinct within a stream (most of the time)
		dup := false
		for _, o := range s.refs {
			if o.id == d.id {
				dup = true
			}
		}
		if dup && !c.Rng.Chance(10) {
			continue
		}
		s.stream = append(s.stream, f.Bytes...)
		s.refs = append(s.refs, d)
		c.Count("ctx.gen.frame." + proto + "." + d.kind)
	}
	if len(s.refs) < 2 {
		return nil
	}
	if c.Rng.Chance(25) { // incomplete tail
		f := framegen.Gen(c.Rng, proto, true)
		if len(f.Bytes) > 1 {
			s.stream = append(s.stream, f.Bytes[:1+c.Rng.Intn(len(f.Bytes)-1)]...)
			c.Count("ctx.gen.tail")
		}
	}
	c.Count(fmt.Sprintf("ctx.gen.frames-per-stream=%d", len(s.refs)))
	return s
}

func (s *scase) all(c *hx.Ctx, prop string) {
	total := len(s.stream)
	s.run(c, prop, []int{total}, "one-read")
	var al []int
	sum := 0
	for _, r := range s.refs {
		al = append(al, r.n)
		sum += r.n
	}
	if sum < total {
		al = append(al, total-sum)
	}
	s.run(c, prop, al, "frame-per-read")
	// two frames per read
	var pairs []int
	for i := 0; i < len(s.refs); i += 2 {
		n := s.refs[i].n
		if i+1 < len(s.refs) {
			n += s.refs[i+1].n
		}
		pairs = append(pairs, n)
	}
	if sum < total {
		pairs = append(pairs, total-sum)
	}
	s.run(c, prop, pairs, "two-per-read")
	// first frame alone, the rest in one read / all but the last few bytes, then the rest
	if len(s.refs) > 2 {
		s.run(c, prop, []int{s.refs[0].n, total - s.refs[0].n}, "one+rest")
	}
	if total > 6 {
		s.run(c, prop, []int{total - 5, 5}, "all-but-5")
	}
	for j := 0; j < c.N(2, 4); j++ {
		var ch []int
		left := total
		mean := 20 + c.Rng.Intn(200)
		for left > 0 {
			k := 1 + c.Rng.Intn(2*mean)
			if c.Rng.Chance(5) {
				k = 0
			}
			if k > left {
				k = left
			}
			ch = append(ch, k)
			left -= k
		}
		s.run(c, prop, ch, "random")
	}
	if total <= 300 {
		ones := make([]int, total)
		for i := range ones {
			ones[i] = 1
		}
		s.run(c, prop, ones, "one-byte")
	}
}

// corpus: corpus/<prop>/*.txt lines `<prop> ctx <proto> <stream> <frames> <chunks>` (minimised past failures), run first
func corpus(c *hx.Ctx, prop string) {
	wd, _ := os.Getwd()
	var files []string
	for _, d := range []string{filepath.Join(wd, "..", "..", "corpus", prop), filepath.Join(wd, "corpus", prop)} {
		m, _ := filepath.Glob(filepath.Join(d, "*.txt"))
		files = append(files, m...)
	}
	sort.Strings(files)
	for _, fn := range files {
		fh, err := os.Open(fn)
		if err != nil {
			continue
		}
		scn := bufio.NewScanner(fh)
		scn.Buffer(make([]byte, 1<<20), 1<<24)
		for scn.Scan() {
			t := strings.Fields(scn.Text())
			if len(t) < 6 || t[0] != prop || t[1] != "ctx" {
				continue
			}
			s := &scase{proto: t[2], stream: hx.Unhex(t[3])}
			off, ok := 0, true
			for _, fr := range strings.Split(t[4], ",") {
				p := strings.Split(fr, ":")
				n, _ := strconv.Atoi(p[len(p)-1])
				if n <= 0 || off+n > len(s.stream) {
					ok = false
					break
				}
				d, good := describe(s.proto, s.stream[off:off+n])
				if !good {
					ok = false
					break
				}
				s.refs = append(s.refs, d)
				off += n
			}
			var chunks []int
			sum := 0
			for _, x := range strings.Split(t[5], ",") {
				n, _ := strconv.Atoi(x)
				chunks = append(chunks, n)
				sum += n
			}
			if !ok || sum != len(s.stream) {
				panic("corpus: bad ctx line in " + fn)
			}
			s.run(c, prop, chunks, "corpus")
		}
		fh.Close()
	}
}

// Cases emits the `ctx` cases under property prop (C02 or C07).
func Cases(c *hx.Ctx, prop string) {
	log.DefaultLogger.SetLogLevel(log.FATAL)
	log.Proxy.SetLogLevel(log.FATAL)
	// an own random stream: the other kinds of the property keep theirs
	saved := c.Rng
	c.Rng = hx.NewRng(c.Seed*0x9E3779B97F4A7C15 + 0xd15c7)
	defer func() { c.Rng = saved }()
	corpus(c, prop)
	for _, proto := range framegen.Protos {
		for i := 0; i < c.N(30, 150); i++ {
			s := build(c, proto)
			if s == nil {
				continue
			}
			s.all(c, prop)
		}
	}
}
