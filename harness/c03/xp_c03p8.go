//go:build verif

package c03

// proxy8: the schedule `XP<k>:<reason>` on the implementation — an upstream reset of attempt k, then the per-try timer fires
// BEFORE the worker handles the reset. The worker is kept inside the upstream sender call that completes the request
// (px.Fixture.ArmUpHold: requests with a body / trailers — onUpstreamRequestSent has armed both timers before that call), the
// harness resets the attempt (upstreamReset raised, notify sent, nobody listens), sleeps past the per-try deadline (the
// timer callback wins the CAS on upstreamResponseReceived, finds the stream gone, its OnResetStream is a no-op: a reset is
// pending) and lets the call return: processError handles the REAL reset with upstreamResponseReceived = 1. When the reset
// is retried, setupRetry must give the slot back, or the retried attempt's answer is dropped and both timers lose their CAS
// — no reply ever.
//
//	hist <cfg> <amb> S,XP0:<reason>[,<tail labels>]  =>  trace=… ledger=… done=… tm=-      (the `hist` line of harness/dsx)

import (
	"fmt"
	"strings"
	"time"

	v2 "mosn.io/mosn/pkg/config/v2"
	"mosn.io/mosn/pkg/types"
	"verif/harness/dsx"
	"verif/harness/hx"
	"verif/harness/px"
)

func RunXP(c *hx.Ctx, prop string) {
	type cs struct {
		data, trl bool
		n         int
		retryOn   bool
		reason    string
		tail      string // R<code>:<dt> answer of the retried attempt | X:<reason> its reset
	}
	var cases []cs
	for _, reason := range []string{types.StreamConnectionFailed, types.StreamConnectionTermination, types.StreamRemoteReset, types.StreamOverflow} {
		for _, dt := range [][2]bool{{true, false}, {true, true}, {false, true}} {
			for _, tail := range []string{"R200:00", "R200:10", "R200:11", "R404:01", "X:" + types.StreamRemoteReset} {
				if !c.Thorough() && c.Rng.Chance(55) {
					continue
				}
				cases = append(cases, cs{dt[0], dt[1], c.Rng.Pick([]int{1, 1, 2}), c.Rng.Chance(70), reason, tail})
			}
		}
	}
	for _, k := range cases {
		cfg := dsx.Cfg{Route: "c", Data: k.data, Trailers: k.trl, RetryOn: k.retryOn, N: k.n, TryTimeout: true}
		opts := []px.RouteOpt{px.Timeout(dsx.GlobalTimeout), px.Retry(k.retryOn, uint32(k.n), dsx.TryTimeout)}
		f := px.New(px.Config{Clusters: []px.Cluster{{Name: "c", Hosts: 1}}, Routes: []v2.Router{px.Route("/", "c", opts...)}})
		var body []byte
		var trailers map[string]string
		if k.data {
			body = []byte("body")
		}
		if k.trl {
			trailers = px.H("t", "1")
		}
		f.ArmUpHold(0)
		ex := f.Request(px.H(":path", "/a", ":authority", "svc"), body, trailers)
		skewed := false
		if !f.WaitUpHeld(400 * time.Millisecond) {
			f.ReleaseUp()
			f.Close()
			c.Count("xp.nohold")
			continue
		}
		a0 := ex.UpstreamAttempts()[0]
		labels := []string{"S", fmt.Sprintf("XP0:%s", k.reason)}
		// the per-try callback resets the upstream request (upstreamRequest.resetStream, also on a stream that is gone): the
		// harness sees that call and so knows that the callback has run before it lets the worker go on
		fired := make(chan struct{})
		a0.OnProxyReset(func() { close(fired) })
		a0.Reset(k.reason)
		// the per-try timer was armed by this exchange's worker just before it entered the held call: the reset must have been
		// delivered well before that deadline, and the call is released after the callback
		if f.UpHeldFor() > dsx.TryTimeout-20*time.Millisecond {
			skewed = true
		}
		select {
		case <-fired:
			time.Sleep(3 * time.Millisecond) // the rest of the callback: a flag and a no-op OnResetStream
		case <-time.After(dsx.TryTimeout + 60*time.Millisecond):
			skewed = true // the timer did not fire in time (or its callback gave up before the reset)
		}
		a0.OnProxyReset(nil)
		if f.UpHeldFor() < dsx.TryTimeout-5*time.Millisecond { // the proxy reset the attempt for another reason
			skewed = true
		}
		f.ReleaseUp()
		ex.WaitQuiescentFor(30 * time.Millisecond) // beyond doRetry's 10 ms back-off
		// the timing grid: a scheduler stall (loaded machine) that stretches a step may have let a timer fire at a point the
		// recorded schedule does not show — such a run is discarded (as harness/dsx does)
		if ex.Done() && len(ex.UpstreamAttempts()) > 1 { // the retried attempt came and went before this goroutine looked
			skewed = true
		}
		if !ex.Done() && !skewed {
			// the reset is retried: the next attempt exists after doRetry's back-off and is answered / reset at once, well
			// before its own per-try deadline (answers and resets that are not retriable: the exchange ends there)
			a1 := ex.WaitAttemptFor(1, 150*time.Millisecond)
			if a1 == nil || a1.Failed != "" {
				c.Count("xp.noretry")
				ex.ForgetProv()
				f.Close()
				continue
			}
			if strings.HasPrefix(k.tail, "R") {
				var code int
				var dt string
				fmt.Sscanf(strings.ReplaceAll(k.tail[1:], ":", " "), "%d %s", &code, &dt)
				rh, rb, rt := px.AnswerOf(1, dt[0] == '1', dt[1] == '1')
				labels = append(labels, fmt.Sprintf("R1:%d:%s", code, dt))
				a1.Respond(code, rh, rb, rt)
			} else {
				labels = append(labels, "X1:"+k.tail[2:])
				a1.Reset(k.tail[2:])
			}
			// the answer / reset must have been delivered well before the per-try deadline of attempt 1 and the global deadline
			if at := ex.Elapsed(); at > a1.Created+dsx.TryTimeout-15*time.Millisecond || at > dsx.GlobalTimeout-40*time.Millisecond {
				skewed = true
			}
			ex.WaitQuiescentFor(30 * time.Millisecond)
		}
		toks := ex.DownToks()
		if toks == nil {
			toks = []string{}
		}
		l := f.Ledger()
		done := "0"
		if ex.Done() {
			done = "1"
		}
		out := fmt.Sprintf("trace=%s ledger=%d,%d,%d,%d done=%s tm=-", dsx.CanonToks(ex.Trace(), toks), l.Requests["c"], l.Retries["c"], l.UpActive["c"], l.DownActive, done)
		if skewed {
			c.Count("xp.skewed")
		} else {
			c.Emit(prop, "hist "+cfg.Tokens()+" "+strings.Join(labels, ","), out)
			c.Count("xp")
			c.Count("xp.reason=" + k.reason)
			if len(ex.UpstreamAttempts()) > 1 {
				c.Count("xp.retried")
			}
		}
		ex.ForgetProv()
		f.Close()
	}
}
