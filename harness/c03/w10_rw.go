//go:build verif

package c03

// c03w10 — two additions to the C03 harness (new file; c03.go is untouched: this file's init re-registers the property
// with a wrapper that runs the existing kinds first, then the two below).
//
// (A) kind `rw` — THE REPLY WRITE PATH CAN FAIL. Requests through the real proxy core whose downstream sender
// (px.RequestFailing) fails AppendHeaders / AppendData / AppendTrailers at generated positions, for
//
//	up:<code>:<d><t>    a complete upstream answer with / without body / trailers (attempt 0 answers)
//	st:<code>:<d><t>    the head of a STREAMED upstream answer (the upstream stream stays open) — only with the client's reset
//	loc:<why>:<code>:<b> a reply MOSN generates itself: nr no route (404) | nh no healthy upstream (502) | to global
//	                    timeout (504) | xr upstream reset (502) | po pool overflow (503) | pc pool connection failure (502) |
//	                    hj stream filter hijack, without / with body | dr direct-response route, without / with body |
//	                    tm asynchronous TerminateStream while the worker is parked
//
// plus the client's departure delivered from INSIDE one of the sender calls: the reset of the downstream stream (`h` | `d` |
// `t`) or the close event of the downstream connection (`H` | `D` | `T`: proxy.onDownstreamEvent skips a stream whose
// upstreamProcessDone is set); `-` none.
//
//	rw <src> <f_h><f_d><f_t> <reset>  =>  calls=<h|d|t><eos><+|->,… dr=<n> ur=<n> logs=<n> down=<n> streams=<n> up=<n> done=<b> st=<status>
//
// calls = the downstream sender calls in order with their end-of-stream flag and whether they succeeded; dr / ur = resets the
// proxy issued on the downstream / a live upstream stream; logs = access-log events (one per cleanStream body); down /
// streams / up = DownstreamRequestActive, proxy.ActiveStreamSize, the cluster's UpstreamRequestActive after the exchange.
//
// (B) long retry chains: `hist` lines (harness/dsx, the existing line format) with num_retries in {19, 20, 21, 25, 40} and
// at least num_retries+1 consecutive retriable failures — resets after the request was sent (`x`), pool refusals
// interleaved with resets (`px`: every retry that follows a reset is refused by the pool once), and pure pool refusals
// armed before the start (`pf`, own runner: the whole chain runs inside the one label `S`).

import (
	"fmt"
	"strings"
	"sync"
	"time"

	"mosn.io/api"
	v2 "mosn.io/mosn/pkg/config/v2"
	"mosn.io/mosn/pkg/types"
	"verif/harness/dsx"
	"verif/harness/hx"
	"verif/harness/px"
)

func init() { hx.Register("C03", runW10) }

func runW10(c *hx.Ctx) {
	if len(c.Args) > 0 && c.Args[0] == "rwonly" { // development aid
		RunRW(c, "C03")
		return
	}
	if len(c.Args) > 0 && c.Args[0] == "longonly" { // development aid
		RunLong(c, "C03")
		return
	}
	Run(c)
	if len(c.Args) > 0 { // a development aid of c03.go ran one kind only
		return
	}
	RunRW(c, "C03")
	RunLong(c, "C03")
}

type rwCase struct {
	src      string // up | st | loc
	why      string // loc: nr nh to xr po pc hj dr tm
	code     int
	d, t     bool    // body / trailers of the reply
	fail     [3]bool // h, d, t
	resetIn  byte    // 0 | 'h' | 'd' | 't'
	srcToken string
}

func (k rwCase) line() string {
	f := ""
	for _, x := range k.fail {
		if x {
			f += "1"
		} else {
			f += "0"
		}
	}
	r := "-"
	if k.resetIn != 0 {
		r = string(k.resetIn)
	}
	return fmt.Sprintf("rw %s %s %s", k.srcToken, f, r)
}

func bit(b bool) string {
	if b {
		return "1"
	}
	return "0"
}

// rwCases enumerates source x failing parts x reset position (only parts the reply has).
func rwCases() []rwCase {
	type srcT struct {
		src, why string
		code     int
		d, t     bool
	}
	var srcs []srcT
	for _, code := range []int{200, 404, 503} {
		for _, dt := range [][2]bool{{false, false}, {true, false}, {false, true}, {true, true}} {
			if code != 200 && dt[1] && dt[0] {
				continue
			}
			srcs = append(srcs, srcT{"up", "", code, dt[0], dt[1]})
		}
	}
	for _, dt := range [][2]bool{{true, false}, {false, true}, {true, true}} {
		srcs = append(srcs, srcT{"st", "", 200, dt[0], dt[1]})
	}
	for _, l := range []srcT{{"loc", "nr", 404, false, false}, {"loc", "nh", 502, false, false}, {"loc", "to", 504, false, false},
		{"loc", "xr", 502, false, false}, {"loc", "po", 503, false, false}, {"loc", "pc", 502, false, false},
		{"loc", "hj", 418, false, false}, {"loc", "hj", 418, true, false}, {"loc", "dr", 418, false, false}, {"loc", "dr", 418, true, false},
		{"loc", "tm", 418, false, false}} {
		srcs = append(srcs, l)
	}
	var out []rwCase
	for _, s := range srcs {
		parts := []byte{'h'}
		if s.d {
			parts = append(parts, 'd')
		}
		if s.t {
			parts = append(parts, 't')
		}
		resets := append([]byte{0}, parts...)
		for _, p := range parts {
			resets = append(resets, p-'a'+'A') // the connection-close event instead of the stream reset
		}
		if s.src == "st" {
			resets = []byte{'h', 'H'} // without the reset the streamed body is still in flight when the reply is written: the codec's business
		}
		for mask := 0; mask < 8; mask++ {
			fail := [3]bool{mask&1 != 0, mask&2 != 0, mask&4 != 0}
			if (fail[1] && !s.d) || (fail[2] && !s.t) {
				continue
			}
			for _, r := range resets {
				k := rwCase{src: s.src, why: s.why, code: s.code, d: s.d, t: s.t, fail: fail, resetIn: r}
				switch s.src {
				case "loc":
					k.srcToken = fmt.Sprintf("loc:%s:%d:%s", s.why, s.code, bit(s.d))
				default:
					k.srcToken = fmt.Sprintf("%s:%d:%s%s", s.src, s.code, bit(s.d), bit(s.t))
				}
				out = append(out, k)
			}
		}
	}
	return out
}

// runRW drives one case on a fresh fixture and renders the observation.
func runRW(k rwCase) string {
	cfg := px.Config{Clusters: []px.Cluster{{Name: "c", Hosts: 1}}, TerminateHandle: true}
	global := 5 * time.Second
	if k.why == "to" {
		global = 60 * time.Millisecond
	}
	switch k.why {
	case "nr":
		cfg.Routes = []v2.Router{px.Route("/other", "c", px.Timeout(global))}
	case "nh":
		cfg.Clusters[0].Hosts = 0
		cfg.Routes = []v2.Router{px.Route("/", "c", px.Timeout(global))}
	case "dr":
		body := ""
		if k.d {
			body = "direct"
		}
		cfg.Routes = []v2.Router{px.Route("/", "", px.DirectResponse(k.code, body))}
	default:
		cfg.Routes = []v2.Router{px.Route("/", "c", px.Timeout(global))}
	}
	if k.why == "hj" {
		body := ""
		if k.d {
			body = "hijacked"
		}
		cfg.Filters = []px.Filter{{Phase: px.BeforeRoute, Script: []px.Verdict{{Status: api.StreamFilterStop, Hijack: k.code, HijackBody: body}}}}
	}
	f := px.New(cfg)
	defer f.Close()
	switch k.why {
	case "po":
		f.PoolFail(types.Overflow)
	case "pc":
		// a pool connection failure is retried (retry floor 3, no policy needed): refuse the first attempt and every retry
		for i := 0; i < 6; i++ {
			f.PoolFail(types.ConnectionFailure)
		}
	}
	ex := f.RequestFailing(px.H(":path", "/a", ":authority", "svc"), nil, nil,
		px.FailPlan{FailH: k.fail[0], FailD: k.fail[1], FailT: k.fail[2], ResetIn: k.resetIn})
	defer ex.ForgetProv()
	switch {
	case k.src == "up" || k.src == "st":
		if a := ex.WaitAttempt(0); a != nil && a.Failed == "" {
			rh, rb, rt := px.AnswerOf(0, k.d, k.t)
			if k.src == "st" {
				a.RespondStreaming(k.code, rh, rb, rt)
			} else {
				a.Respond(k.code, rh, rb, rt)
			}
		}
	case k.why == "xr":
		if a := ex.WaitAttempt(0); a != nil && a.Failed == "" {
			a.Reset(types.StreamRemoteReset)
		}
	case k.why == "tm":
		if a := ex.WaitAttempt(0); a != nil && a.Failed == "" {
			ex.WaitQuiescent()
			ex.Terminate(k.code)
		}
	case k.why == "to":
		ex.WaitAttempt(0) // then silence: the global timer fires
	}
	ex.WaitDone(600 * time.Millisecond)
	ex.WaitQuiescentFor(8 * time.Millisecond)

	var calls []string
	dr, ur, logs := 0, 0, 0
	status := "-"
	tr := ex.Trace()
	written := false // resets of the upstream stream before the reply is written (timeout, TerminateStream) are not the write path's
	for i, tk := range tr {
		p := strings.Split(tk, ":")
		ok := "+"
		if i+1 < len(tr) && strings.HasPrefix(tr[i+1], "wf:") {
			ok = "-"
		}
		switch p[0] {
		case "dh":
			calls = append(calls, "h"+p[2]+ok)
			status = p[1]
			written = true
		case "dd":
			calls = append(calls, "d"+p[2]+ok)
		case "dt":
			calls = append(calls, "t1"+ok)
		case "dr":
			dr++
		case "ur":
			if written {
				ur++
			}
		case "log":
			logs++
		}
	}
	cs := "-"
	if len(calls) > 0 {
		cs = strings.Join(calls, ",")
	}
	l := f.Ledger()
	return fmt.Sprintf("calls=%s dr=%d ur=%d logs=%d down=%d streams=%d up=%d done=%s st=%s", cs, dr, ur, logs, l.DownActive, l.ActiveStreams, l.UpActive["c"], bit(ex.Done()), status)
}

// RunRW emits the `rw` cases: the complete enumeration source x failing parts x reset position in both tiers.
func RunRW(c *hx.Ctx, prop string) {
	rng := c.Rng.Fork().Fork()
	all := rwCases()
	// the whole enumeration is small (320 cases, about a second): it runs completely in both tiers, twice in the thorough one;
	// the order is shuffled so that the eight workers see a different interleaving per seed
	pick := append([]rwCase{}, all...)
	if c.Thorough() {
		pick = append(pick, all...)
	}
	for i := len(pick) - 1; i > 0; i-- {
		j := rng.Intn(i + 1)
		pick[i], pick[j] = pick[j], pick[i]
	}
	jobs := make(chan rwCase)
	var wg sync.WaitGroup
	for w := 0; w < 8; w++ {
		wg.Add(1)
		go func() {
			defer wg.Done()
			for k := range jobs {
				out := runRW(k)
				c.Emit(prop, k.line(), out)
				c.Count("rw")
				c.Count("rw.src=" + k.src + k.why)
				c.Count(fmt.Sprintf("rw.shape=d%st%s", bit(k.d), bit(k.t)))
				nf := 0
				for _, x := range k.fail {
					if x {
						nf++
					}
				}
				c.Count(fmt.Sprintf("rw.failing-writes=%d", nf))
				if k.resetIn != 0 {
					c.Count("rw.reset-in=" + string(k.resetIn))
				} else {
					c.Count("rw.reset-in=none")
				}
				if strings.Contains(out, "done=1") {
					c.Count("rw.outcome.done")
				} else {
					c.Count("rw.outcome.stranded")
				}
			}
		}()
	}
	for _, k := range pick {
		jobs <- k
	}
	close(jobs)
	wg.Wait()
}

// ---------------------------------------------------------------------------------------------------------------
// (B) long retry chains
// ---------------------------------------------------------------------------------------------------------------

// longChooser: kind "x" — reset (connection failed) of the latest attempt until the exchange is done; kind "px" — the same,
// with one pool connection failure armed before every reset (the retry that follows the reset is refused once, the one
// after that is admitted): two consecutive retriable failures per reset label.
func longChooser(kind string) dsx.Chooser {
	armed := false
	return func(step int, opts []string, done bool) int {
		for i, o := range opts {
			if o == "S" {
				return i
			}
		}
		if done {
			return -1
		}
		if kind == "px" && !armed {
			for i, o := range opts {
				if o == "PFc" {
					armed = true
					return i
				}
			}
		}
		armed = false
		bestK, best := -1, -1
		for i, o := range opts {
			if strings.HasPrefix(o, "X") && strings.HasSuffix(o, ":"+types.StreamConnectionFailed) && !strings.HasPrefix(o, "XL") {
				var k int
				fmt.Sscanf(o[1:], "%d", &k)
				if k > bestK {
					bestK, best = k, i
				}
			}
		}
		return best
	}
}

// RunLong emits the long persistent-failure families.
func RunLong(c *hx.Ctx, prop string) {
	rng := c.Rng.Fork().Fork().Fork()
	type job struct {
		cfg  dsx.Cfg
		kind string
	}
	var js []job
	for _, kind := range []string{"x", "px", "pf"} {
		for _, nr := range []int{19, 20, 21, 25, 40} {
			reps := 1
			if c.Thorough() {
				reps = 2
			}
			for r := 0; r < reps; r++ {
				js = append(js, job{dsx.Cfg{Route: "c", RetryOn: true, N: nr, Data: rng.Chance(40), Trailers: rng.Chance(15), LongGlobal: true}, kind})
			}
		}
	}
	jobs := make(chan job)
	var wg sync.WaitGroup
	for w := 0; w < 8; w++ {
		wg.Add(1)
		go func() {
			defer wg.Done()
			for j := range jobs {
				var res dsx.Result
				for try := 0; try < 6; try++ {
					if j.kind == "pf" {
						res = dsx.RunPoolChain(j.cfg, j.cfg.N+1+try%2)
					} else {
						res = dsx.Run(j.cfg, longChooser(j.kind), 2*j.cfg.N+6)
					}
					if !res.Skewed {
						break
					}
					c.Count("long.skew.rerun")
				}
				if res.Skewed {
					c.Count("long.skew.dropped")
					continue
				}
				c.Emit(prop, "hist "+j.cfg.Tokens()+" "+res.Sched, res.Out)
				c.Count("long." + j.kind)
				c.Count(fmt.Sprintf("long.retries.n=%d", j.cfg.N))
				c.Count(fmt.Sprintf("long.attempts=%d", strings.Count(res.Out, "un:")+strings.Count(res.Out, "uf:")))
				if strings.Contains(res.Out, "done=1") {
					c.Count("long.outcome.done")
				} else {
					c.Count("long.outcome.pending")
				}
			}
		}()
	}
	for _, j := range js {
		jobs <- j
	}
	close(jobs)
	wg.Wait()
}
