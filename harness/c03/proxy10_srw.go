//go:build verif

package c03

// proxy10: the reset of a streamed response whose head the worker has not yet picked up. The worker is held at the top of
// the WaitNotify phase (px.Fixture.ArmGate at the worker's phase yield site, armed before the request starts): the head of a
// streamed response of attempt 0 is delivered (accepted: upstreamResponseReceived taken, wake-up sent), the open client
// stream is reset (upstreamReset raised) and only then the worker enters waitNotify: its processError finds BOTH.
//
//	hist <cfg> <amb> S,ZS0:<status>:<d><t>:w:<reason>[,R1:<status>:<d><t>]   =>  trace=… ledger=… done=… tm=-

import (
	"fmt"
	"strings"
	"time"

	v2 "mosn.io/mosn/pkg/config/v2"
	"mosn.io/mosn/pkg/types"
	"verif/harness/dsx"
	"verif/harness/hx"
	"verif/harness/px"
)

func RunSRW(c *hx.Ctx, prop string) {
	type cs struct {
		retryOn bool
		n       int
		code    int
		dt      string
		reason  string
		tail    string
		data    bool
	}
	var cases []cs
	for _, reason := range []string{types.StreamConnectionTermination, types.StreamConnectionFailed, types.StreamRemoteReset, types.StreamOverflow} {
		for _, dt := range []string{"10", "01", "11"} {
			for _, n := range []int{0, 1, 2} {
				if !c.Thorough() && c.Rng.Chance(50) {
					continue
				}
				cases = append(cases, cs{c.Rng.Chance(75), n, c.Rng.Pick([]int{200, 200, 503}), dt, reason,
					[]string{"", "R1:200:00", "R1:200:10"}[c.Rng.Intn(3)], c.Rng.Chance(30)})
			}
		}
	}
	for _, k := range cases {
		cfg := dsx.Cfg{Route: "c", RetryOn: k.retryOn, N: k.n, Data: k.data}
		opts := []px.RouteOpt{px.Timeout(dsx.GlobalTimeout), px.Retry(k.retryOn, uint32(k.n), 0)}
		f := px.New(px.Config{Clusters: []px.Cluster{{Name: "c", Hosts: 1}}, Routes: []v2.Router{px.Route("/", "c", opts...)}})
		g := f.ArmGate(px.SitePhase(types.WaitNotify), 0)
		var body []byte
		if k.data {
			body = []byte("body")
		}
		ex := f.Request(px.H(":path", "/a", ":authority", "svc"), body, nil)
		ok := g.WaitEntered(300 * time.Millisecond)
		var a0 *px.Attempt
		if ok {
			if as := ex.UpstreamAttempts(); len(as) == 1 && as[0].Failed == "" && as[0].Live() {
				a0 = as[0]
			}
		}
		if a0 == nil {
			c.Count("srw.nohold")
			f.ForgetGates()
			ex.ForgetProv()
			f.Close()
			continue
		}
		labels := []string{"S", fmt.Sprintf("ZS0:%d:%s:w:%s", k.code, k.dt, k.reason)}
		rh, rb, rt := px.AnswerOf(0, k.dt[0] == '1', k.dt[1] == '1')
		a0.RespondStreaming(k.code, rh, rb, rt)
		a0.Reset(k.reason)
		g.Release()
		ex.WaitQuiescentFor(30 * time.Millisecond) // beyond doRetry's back-off
		skewed := ex.Elapsed() > dsx.GlobalTimeout-80*time.Millisecond
		if k.tail != "" && !ex.Done() && !skewed {
			if as := ex.UpstreamAttempts(); len(as) == 2 && as[1].Failed == "" && as[1].Live() {
				var code int
				var dt string
				fmt.Sscanf(strings.ReplaceAll(k.tail[2:], ":", " "), "%d %s", &code, &dt)
				rh, rb, rt := px.AnswerOf(1, dt[0] == '1', dt[1] == '1')
				labels = append(labels, k.tail)
				as[1].Respond(code, rh, rb, rt)
				ex.WaitQuiescentFor(30 * time.Millisecond)
			}
		}
		if ex.Elapsed() > dsx.GlobalTimeout-30*time.Millisecond {
			skewed = true
		}
		toks := ex.DownToks()
		if toks == nil {
			toks = []string{}
		}
		l := f.Ledger()
		done := "0"
		if ex.Done() {
			done = "1"
		}
		out := fmt.Sprintf("trace=%s ledger=%d,%d,%d,%d done=%s tm=-", dsx.CanonToks(ex.Trace(), toks), l.Requests["c"], l.Retries["c"], l.UpActive["c"], l.DownActive, done)
		if skewed {
			c.Count("srw.skewed")
		} else {
			c.Emit(prop, "hist "+cfg.Tokens()+" "+strings.Join(labels, ","), out)
			c.Count("srw")
			c.Count("srw.reason=" + k.reason)
			if len(ex.UpstreamAttempts()) > 1 {
				c.Count("srw.retried")
			}
		}
		f.ForgetGates()
		ex.ForgetProv()
		f.Close()
	}
}

// RunP10 (development aid) runs only the proxy10 families: events in the back-off, streamed resets before the head.
func RunP10(c *hx.Ctx, prop string) {
	rng := c.Rng.Fork()
	run := func(cfg dsx.Cfg, sc []string) {
		for try := 0; try < 4; try++ {
			res := dsx.Run(cfg, scriptChooser(sc), len(sc)+1)
			if res.Skewed {
				c.Count("p10.skew")
				continue
			}
			c.Emit(prop, "hist "+cfg.Tokens()+" "+res.Sched, res.Out)
			c.Count("p10")
			return
		}
		c.Count("p10.dropped:" + strings.Join(sc, ","))
	}
	for _, trig := range []string{"X*=ConnectionFailed", "X*=ConnectionTermination", "X*=StreamRemoteReset", "R*=503=00", "R*=503=10"} {
		for _, ev := range append(append([]string{}, dsx.BOEvents...), dsx.BOTimerEvents...) {
			for _, tail := range []string{"", "R*:200:00", "GT"} {
				if !c.Thorough() && rng.Chance(60) {
					continue
				}
				cfg := dsx.Cfg{Route: "c", RetryOn: true, N: rng.Pick([]int{1, 2}), Data: rng.Chance(30)}
				sc := []string{"S", "ZB:" + trig + ":" + ev}
				if tail != "" {
					sc = append(sc, tail)
				}
				run(cfg, sc)
			}
		}
	}
	for _, ev := range []string{"TM418", "TMs403", "DR", "CC", "HG"} {
		run(dsx.Cfg{Route: "c", RetryOn: true, N: 2, TryTimeout: true}, []string{"S", "ZB:P*:" + ev})
	}
	for _, sc := range [][]string{{"S", "ZS*:200:10:h:ConnectionTermination"}, {"S", "ZS*:200:10:h:ConnectionTermination", "R*:200:00"},
		{"S", "ZS*:200:11:f:StreamRemoteReset"}, {"S", "ZS*:503:10:h:ConnectionFailed", "R*:200:00"}} {
		run(dsx.Cfg{Route: "c", RetryOn: true, N: rng.Pick([]int{0, 1, 2})}, sc)
	}
	RunSRW(c, prop)
}
