//go:build verif

// Package c03: every request ends exactly once — generated (configuration, schedule) histories on the real proxy
// core (harness/px + harness/dsx), one case line per history.
package c03

import (
	"fmt"
	"strings"
	"sync"

	"verif/harness/dsx"
	"verif/harness/hx"
)

func init() { hx.Register("C03", Run) }

// GenCfg draws a configuration: mostly the forwarding route with a retry policy, boundaries included.
func GenCfg(r *hx.Rng, c10 bool) dsx.Cfg {
	c := dsx.Cfg{Route: "c"}
	switch x := r.Intn(20); {
	case x == 0:
		c.Route = "nr"
	case x == 1:
		c.Route = "nh"
	case x == 2:
		c.Route = "d418b"
	case x == 3:
		c.Route = "d301"
	}
	c.OneWay = r.Chance(12)
	c.Data = r.Chance(35)
	c.Trailers = r.Chance(15)
	c.RetryOn = r.Chance(65)
	c.N = r.Pick([]int{0, 0, 1, 2, 3, 4})
	if r.Chance(20) {
		c.Codes = [][]int{{503}, {404, 500}, {200}}[r.Intn(3)]
	}
	c.TryTimeout = r.Chance(45)
	c.Disable = r.Chance(5)
	th := []int{0, 0, 1, 2}
	if c10 {
		th = []int{0, 1, 1, 2, 2}
	}
	c.MR = r.Pick(th)
	c.MQ = r.Pick(th)
	if r.Chance(30) || c10 && r.Chance(50) {
		c.AR = r.Intn(3)
		c.AQ = r.Intn(3)
	}
	return c
}

// weighted random chooser: prefers S first, then a mix biased towards upstream events and timers
func randomChooser(r *hx.Rng, stopPct int) dsx.Chooser {
	return func(step int, opts []string, done bool) int {
		has := func(p string) []int {
			var ix []int
			for i, o := range opts {
				if strings.HasPrefix(o, p) {
					ix = append(ix, i)
				}
			}
			return ix
		}
		if s := has("S"); len(s) > 0 {
			// before the start: sometimes arm a pool failure / remove hosts first
			if r.Chance(80) {
				return s[0]
			}
			return r.Intn(len(opts))
		}
		if step > 1 && r.Chance(stopPct) || done && r.Chance(70) {
			return -1
		}
		x := r.Intn(100)
		var class []int
		switch {
		case x < 38:
			class = has("R")
		case x < 58:
			class = has("X")
		case x < 76:
			class = append(has("PT"), has("GT")...)
		case x < 82:
			class = has("DR")
		case x < 86:
			class = has("CC")
		case x < 92:
			class = has("PF")
		case x < 95:
			class = has("HG")
		default:
			class = has("TM")
		}
		if len(class) == 0 {
			return r.Intn(len(opts))
		}
		return class[r.Intn(len(class))]
	}
}

// RunMany executes n random histories (par at a time) and emits them under prop.
func RunMany(c *hx.Ctx, prop string, n, par int, c10 bool) {
	type job struct {
		cfg  dsx.Cfg
		seed uint64
	}
	jobs := make(chan job)
	var wg sync.WaitGroup
	for w := 0; w < par; w++ {
		wg.Add(1)
		go func() {
			defer wg.Done()
			for j := range jobs {
				var res dsx.Result
				for try := 0; try < 3; try++ {
					rr := hx.NewRng(j.seed)
					res = dsx.Run(j.cfg, randomChooser(rr, 12), 9)
					if !res.Skewed {
						break
					}
					c.Count("skew.rerun")
				}
				if res.Skewed {
					c.Count("skew.dropped")
					continue
				}
				c.Emit(prop, "hist "+j.cfg.Tokens()+" "+res.Sched, res.Out)
				c.Count(fmt.Sprintf("len=%d", res.Labels))
				for _, l := range strings.Split(res.Sched, ",") {
					k := strings.TrimRight(strings.SplitN(l, ":", 2)[0], "0123456789")
					c.Count("label." + k)
				}
				if strings.Contains(res.Out, "done=1") {
					c.Count("outcome.done")
				} else {
					c.Count("outcome.pending")
				}
				c.Count("route." + j.cfg.Route)
			}
		}()
	}
	for i := 0; i < n; i++ {
		jobs <- job{GenCfg(c.Rng, c10), c.Rng.U64()}
	}
	close(jobs)
	wg.Wait()
}

func Run(c *hx.Ctx) {
	RunMany(c, "C03", c.N(250, 1000), 8, false)
}
