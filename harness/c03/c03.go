//go:build verif

// Package c03: every request ends exactly once — generated (configuration, schedule) histories on the real proxy
// core (harness/px + harness/dsx), one case line per history.
package c03

import (
	"fmt"
	"strings"
	"sync"
	"sync/atomic"
	"time"

	"verif/harness/dsx"
	"verif/harness/hx"
)

func init() { hx.Register("C03", Run) }

// GenCfg draws a configuration: mostly the forwarding route with a retry policy, boundaries included.
func GenCfg(r *hx.Rng, c10 bool) dsx.Cfg {
	c := dsx.Cfg{Route: "c"}
	switch x := r.Intn(20); {
	case x == 0:
		c.Route = "nr"
	case x == 1:
		c.Route = "nh"
	case x == 2:
		c.Route = "d418b"
	case x == 3:
		c.Route = "d301"
	}
	c.OneWay = r.Chance(12)
	c.Data = r.Chance(35)
	c.Trailers = r.Chance(15)
	c.RetryOn = r.Chance(70)
	c.N = r.Pick([]int{0, 1, 1, 2, 3, 4, 5})
	if r.Chance(20) {
		c.Codes = [][]int{{503}, {404, 500}, {200}}[r.Intn(3)]
	}
	c.TryTimeout = r.Chance(45)
	c.Disable = r.Chance(5)
	th := []int{0, 0, 1, 2}
	if c10 {
		th = []int{0, 1, 1, 2, 2}
	}
	c.MR = r.Pick(th)
	c.MQ = r.Pick(th)
	if r.Chance(30) || c10 && r.Chance(50) {
		c.AR = r.Intn(3)
		c.AQ = r.Intn(3)
	}
	c.Stale = c.Route == "c" && !c.OneWay && r.Chance(12)
	return c
}

// weighted random chooser: prefers S first, then a mix biased towards upstream events and timers
func randomChooser(r *hx.Rng, stopPct int) dsx.Chooser {
	return func(step int, opts []string, done bool) int {
		has := func(p string) []int {
			var ix []int
			for i, o := range opts {
				if strings.HasPrefix(o, p) {
					ix = append(ix, i)
				}
			}
			return ix
		}
		if s := has("S"); len(s) > 0 {
			// before the start: sometimes arm a pool failure / remove hosts first
			if r.Chance(80) {
				return s[0]
			}
			return r.Intn(len(opts))
		}
		if step > 2 && r.Chance(stopPct) || done && r.Chance(60) {
			return -1
		}
		// the worker waits for the body of a streamed response: mostly end the wait (body ends / reset / client gone)
		if e := has("E"); len(e) > 0 && r.Chance(80) {
			switch y := r.Intn(10); {
			case y < 3:
				return e[r.Intn(len(e))]
			case y < 8:
				var xs []int
				for _, i := range has("X") {
					if strings.HasPrefix(opts[i], "X"+opts[e[0]][1:]+":") {
						xs = append(xs, i)
					}
				}
				if len(xs) > 0 {
					return xs[r.Intn(len(xs))]
				}
			case y < 9:
				if d := has("DR"); len(d) > 0 {
					return d[0]
				}
			default:
				if d := has("CC"); len(d) > 0 {
					return d[0]
				}
			}
		}
		x := r.Intn(112)
		var class []int
		switch {
		case x >= 100: // [proxy10] an event in the back-off / a reset of a streamed response before its head is forwarded
			if x < 109 {
				class = has("ZB:")
			} else {
				class = has("ZS")
			}
		case x < 12:
			class = has("B")
		case x < 38:
			class = has("R")
			if r.Chance(45) { // a retryable answer on some live attempt
				var c503 []int
				for _, i := range class {
					if strings.HasSuffix(opts[i], ":503:00") || strings.HasSuffix(opts[i], ":503:01") || strings.HasSuffix(opts[i], ":500:00") ||
						strings.HasSuffix(opts[i], ":503:10") || strings.HasSuffix(opts[i], ":503:11") {
						c503 = append(c503, i)
					}
				}
				if len(c503) > 0 {
					class = c503
				}
			}
		case x < 58:
			class = has("X")
		case x < 76:
			class = append(append(has("PT"), has("GT")...), has("PL")...)
		case x < 82:
			class = has("DR")
		case x < 86:
			class = has("CC")
		case x < 91:
			class = has("PF")
		case x < 93:
			class = has("HG")
		case x < 95:
			class = has("W")
		case x < 97:
			class = has("TM")
		case x < 99:
			class = has("TR")
		default:
			class = has("TS")
			if len(class) == 0 {
				class = has("TM")
			}
		}
		if len(class) == 0 {
			return r.Intn(len(opts))
		}
		return class[r.Intn(len(class))]
	}
}

// persistChooser drives one failure kind on the latest attempt until the exchange is done: the retry loop is walked
// to its end (num_retries up to 10 against the 10 passes of OnReceive's loop, the retry floor of 3, the breaker).
//
//	kind "x"  reset (connection failed)   "r" 503 response   "pf" pool connection failures armed before the start
func persistChooser(kind string, arm int) dsx.Chooser {
	return func(step int, opts []string, done bool) int {
		find := func(pfx, sfx string) int {
			best := -1
			for i, o := range opts {
				if strings.HasPrefix(o, pfx) && strings.HasSuffix(o, sfx) {
					best = i // options are sorted; attempts < 10 keep their order, beyond that any live attempt is the latest anyway
				}
			}
			return best
		}
		if i := find("S", ""); i >= 0 && opts[i] == "S" {
			if kind == "pf" && step < arm {
				return find("PFc", "")
			}
			return i
		}
		if done {
			return -1
		}
		// only the latest attempt is live after a retry, so pick the live one with the highest index
		bestK, best := -1, -1
		for i, o := range opts {
			var k int
			switch {
			case kind == "r" && strings.HasPrefix(o, "R") && strings.HasSuffix(o, ":503:00"):
				fmt.Sscanf(o[1:], "%d", &k)
			case kind != "r" && strings.HasPrefix(o, "X") && strings.HasSuffix(o, ":ConnectionFailed"):
				fmt.Sscanf(o[1:], "%d", &k)
			default:
				continue
			}
			if k > bestK {
				bestK, best = k, i
			}
		}
		return best
	}
}

// scriptChooser drives an explicit list of label patterns, one per step, then stops. A pattern is a label; `*` in the
// attempt position stands for the highest attempt index on offer (after a retry only the latest attempt is live). A
// pattern that is not on offer ends the history.
func scriptChooser(script []string) dsx.Chooser {
	return func(step int, opts []string, done bool) int {
		if step >= len(script) {
			return -1
		}
		pat := script[step]
		if !strings.Contains(pat, "*") {
			for i, o := range opts {
				if o == pat {
					return i
				}
			}
			return -1
		}
		parts := strings.SplitN(pat, "*", 2)
		best, bestK := -1, -1
		for i, o := range opts {
			if !strings.HasPrefix(o, parts[0]) {
				continue
			}
			rest := o[len(parts[0]):]
			n := 0
			for n < len(rest) && rest[n] >= '0' && rest[n] <= '9' {
				n++
			}
			if n == 0 || rest[n:] != parts[1] {
				continue
			}
			k := 0
			fmt.Sscan(rest[:n], &k)
			if k > bestK {
				best, bestK = i, k
			}
		}
		return best
	}
}

// partialChooser drives one partial response: start, the head of a streamed response (data / trailers `dt`, status
// `code`) on the latest live attempt, then `after` while the worker waits for the body —
// "E" the body ends, "X:<reason>" the upstream stream is reset, "DR" / "CC" the client goes away,
// "PT" / "GT" a timer fires first and then the body ends — then stop.  `pre` = "x": the first attempt is reset (connection
// failed: retried by default) before, so that the partial response belongs to a retried attempt.
func partialChooser(code int, dt, after, pre string) dsx.Chooser {
	stage := 0
	return func(step int, opts []string, done bool) int {
		find := func(pfx, sfx string) int {
			best := -1
			for i, o := range opts {
				if strings.HasPrefix(o, pfx) && strings.HasSuffix(o, sfx) {
					best = i
				}
			}
			return best
		}
		switch stage {
		case 0:
			stage = 1
			return find("S", "")
		case 1:
			stage = 2
			if pre == "x" {
				if i := find("X", ":ConnectionFailed"); i >= 0 {
					return i
				}
			}
			fallthrough
		case 2:
			stage = 3
			return find("B", fmt.Sprintf(":%d:%s", code, dt))
		case 3:
			stage = 4
			switch {
			case after == "E":
				return find("E", "")
			case strings.HasPrefix(after, "X:"):
				return find("X", after[1:])
			case after == "PT" || after == "GT":
				if i := find(after, ""); i >= 0 && opts[i] == after {
					return i
				}
				stage = 5
				return find("E", "")
			default:
				return find(after, "")
			}
		case 4:
			stage = 5
			if after == "PT" || after == "GT" {
				return find("E", "")
			}
		}
		return -1
	}
}

// RunMany executes n random histories (par at a time) and emits them under prop; c10 adds the ledger-oriented
// configurations (every threshold in {0,1,2}, ambient load) and the persistent-failure histories.
func RunMany(c *hx.Ctx, prop string, n, par int, c10 bool) {
	type job struct {
		cfg    dsx.Cfg
		seed   uint64
		kind   string
		arm    int
		labels int
		part   [4]string // partial-response family: code, dt, after, pre
		script []string  // kind "script:<family>": the labels to drive
	}
	jobs := make(chan job)
	var wg sync.WaitGroup
	var ran, dropped int64 // c10t9: histories executed / dropped as timing skew after six runs
	// c10t9: timer-lateness monitor. dsx drives a timer label (PT / GT / PL) by sleeping to the deadline + 8 ms and settling
	// for 26 ms: it assumes MOSN's timer callback (time.AfterFunc -> its own goroutine) has run by then. On a loaded machine
	// the callback can be later than that, the label then shows no effect and the timeout lands inside a later label (seen
	// as `D S` lines at load average 30-36). The callback's lateness cannot be observed from outside, but timers of one
	// process are late together: a goroutine sleeping 2 ms at a time records when its own wake-up was more than lateTimer
	// late; a history with a timer label during which that happened is run again (counted skew.late-timer).
	const lateTimer = 20 * time.Millisecond
	var lateMu sync.Mutex
	var lateAt []time.Time
	stopMon := make(chan struct{})
	go func() {
		for {
			select {
			case <-stopMon:
				return
			default:
			}
			t := time.Now()
			time.Sleep(2 * time.Millisecond)
			if time.Since(t)-2*time.Millisecond > lateTimer {
				lateMu.Lock()
				lateAt = append(lateAt, time.Now())
				if len(lateAt) > 4096 {
					lateAt = lateAt[2048:]
				}
				lateMu.Unlock()
			}
		}
	}()
	defer close(stopMon)
	lateDuring := func(from time.Time) bool {
		lateMu.Lock()
		defer lateMu.Unlock()
		for i := len(lateAt) - 1; i >= 0; i-- {
			if lateAt[i].After(from) {
				return true
			}
			break
		}
		return false
	}
	for w := 0; w < par; w++ {
		wg.Add(1)
		go func() {
			defer wg.Done()
			for j := range jobs {
				var res dsx.Result
				// c10t9: up to six runs of a history whose timing grid was disturbed (was three: at load average 30-36 on 16 cores
				// a single run of C03's timer-heavy histories is disturbed with probability 0.4-0.45, i.e. 6-9 % were dropped)
				for try := 0; try < 6; try++ {
					t0 := time.Now()
					if strings.HasPrefix(j.kind, "script:") {
						res = dsx.Run(j.cfg, scriptChooser(j.script), j.labels)
					} else if j.kind == "partial" {
						code := 200
						fmt.Sscan(j.part[0], &code)
						res = dsx.Run(j.cfg, partialChooser(code, j.part[1], j.part[2], j.part[3]), j.labels)
					} else if j.kind == "" {
						res = dsx.Run(j.cfg, randomChooser(hx.NewRng(j.seed), 8), j.labels)
					} else {
						res = dsx.Run(j.cfg, persistChooser(j.kind, j.arm), j.labels)
					}
					if !res.Skewed && lateDuring(t0) && (strings.Contains(res.Sched, "PT") || strings.Contains(res.Sched, "GT") || strings.Contains(res.Sched, "PL")) {
						res.Skewed = true
						c.Count("skew.late-timer")
					}
					if !res.Skewed {
						break
					}
					c.Count("skew.rerun")
				}
				atomic.AddInt64(&ran, 1)
				if res.Skewed {
					c.Count("skew.dropped")
					atomic.AddInt64(&dropped, 1)
					continue
				}
				c.Emit(prop, "hist "+j.cfg.Tokens()+" "+res.Sched, res.Out)
				c.Count(fmt.Sprintf("len=%d", res.Labels))
				for _, l := range strings.Split(res.Sched, ",") {
					k := strings.TrimRight(strings.SplitN(l, ":", 2)[0], "0123456789")
					c.Count("label." + k)
					if strings.HasPrefix(l, "ZB:") { // [proxy10] trigger kind x event
						q := strings.SplitN(l[3:], ":", 2)
						c.Count("backoff.trigger=" + q[0][:1])
						c.Count("backoff.event=" + strings.TrimRight(q[1], "0123456789"))
					}
					if strings.HasPrefix(l, "ZS") {
						q := strings.Split(l, ":")
						c.Count("streamed-reset.at=" + q[3])
					}
				}
				if strings.Contains(res.Out, "done=1") {
					c.Count("outcome.done")
				} else {
					c.Count("outcome.pending")
				}
				c.Count("route." + j.cfg.Route)
				c.Count(fmt.Sprintf("retries.n=%d", j.cfg.N))
				c.Count(fmt.Sprintf("attempts=%d", strings.Count(res.Out, "un:")+strings.Count(res.Out, "uf:")))
				if c10 {
					c.Count(fmt.Sprintf("threshold.mr=%d.mq=%d", j.cfg.MR, j.cfg.MQ))
					c.Count(fmt.Sprintf("ambient.ar=%d.aq=%d", j.cfg.AR, j.cfg.AQ))
				}
				if res.Reuse != "" {
					c.Count("stale." + res.Reuse) // fresh = the pool handed out another object: TS is not offered
				}
				if strings.HasPrefix(j.kind, "script:") {
					c.Count("family." + j.kind[7:])
					if res.Labels == len(j.script) {
						c.Count("family." + j.kind[7:] + ".complete")
					}
				}
				if !strings.HasSuffix(res.Out, "tm=-") {
					c.Count("terminate.calls")
				}
				if j.kind == "partial" {
					c.Count("partial.after=" + strings.SplitN(j.part[2], ":", 2)[0])
					if strings.Contains(","+res.Sched+",", ",E") || strings.Contains(res.Sched, ",X") || strings.Contains(res.Sched, ",DR") || strings.Contains(res.Sched, ",CC") {
						c.Count("partial.wait-ended")
					}
				} else if j.kind != "" && !strings.HasPrefix(j.kind, "script:") {
					c.Count("persistent." + j.kind)
				}
				if strings.Contains(res.Out, "dh:") && strings.Contains(res.Out, ",dr") {
					c.Count("outcome.reset-after-head")
				}
			}
		}()
	}
	rng := c.Rng.Fork().Fork() // neighbouring seeds give shifted copies of one stream; two forks decorrelate them
	// persistent failures: the retry loop to its end, for every retry count around the floor (3) and the loop budget (10)
	np := 0
	if c10 {
		// the retries breaker at EACH retry decision of one request: max_retries 1 and 2, the others holding less than the
		// limit (so the breaker must admit every retry: the request's own previous retry slot is given back first), and
		// at the limit (every retry refused); two and more consecutive retriable failures of the one request
		for _, kind := range []string{"x", "r"} {
			for _, mr := range []int{1, 2} {
				for _, ar := range []int{0, mr - 1, mr} {
					if ar == 0 && mr == 2 && kind == "r" && !c.Thorough() {
						continue
					}
					cfg := dsx.Cfg{Route: "c", RetryOn: true, N: rng.Pick([]int{0, 2, 3, 4}), Data: rng.Chance(30), LongGlobal: true,
						MR: mr, AR: ar, MQ: rng.Pick([]int{0, 2})}
					jobs <- job{cfg: cfg, kind: kind, labels: 20}
					np++
				}
			}
		}
	}
	for _, kind := range []string{"x", "r", "pf"} {
		for _, nr := range []int{0, 1, 3, 4, 9, 10, 11} {
			if !c.Thorough() && rng.Chance(50) {
				continue
			}
			cfg := dsx.Cfg{Route: "c", RetryOn: true, N: nr, Data: rng.Chance(50), LongGlobal: true}
			if c10 {
				cfg.MR = rng.Pick([]int{0, 1, 2})
				cfg.MQ = rng.Pick([]int{0, 2})
				cfg.AR = rng.Intn(2)
			}
			arm := 0
			if kind == "pf" {
				arm = 1 + rng.Intn(4)
			}
			jobs <- job{cfg: cfg, kind: kind, arm: arm, labels: 20}
			np++
		}
	}
	// partial responses: head of a streamed response forwarded, then the body ends / the upstream is reset (retriable and
	// non-retriable reasons, retry budget left or not) / the client goes away / a timer fires during the wait
	afters := []string{"E", "X:ConnectionTermination", "X:ConnectionFailed", "X:StreamRemoteReset", "X:StreamOverflow", "X:UpstreamReset", "DR", "CC", "PT", "GT"}
	for _, after := range afters {
		for _, dt := range []string{"10", "01", "11"} {
			for _, pre := range []string{"", "x"} {
				if !c.Thorough() && rng.Chance(55) {
					continue
				}
				cfg := dsx.Cfg{Route: "c", RetryOn: rng.Chance(80), N: rng.Pick([]int{0, 1, 2, 4}), Data: rng.Chance(40), Trailers: rng.Chance(20),
					TryTimeout: after == "PT" || rng.Chance(30), LongGlobal: after != "GT" && rng.Chance(50)}
				if rng.Chance(25) {
					cfg.Codes = [][]int{{503}, {200}}[rng.Intn(2)]
				}
				if c10 {
					cfg.MR = rng.Pick([]int{0, 1, 2})
					cfg.MQ = rng.Pick([]int{0, 1, 2})
					cfg.AR = rng.Intn(2)
				}
				code := "200"
				if dt == "10" && rng.Chance(20) {
					code = "503"
				}
				jobs <- job{cfg: cfg, kind: "partial", labels: 8, part: [4]string{code, dt, after, pre}}
				np++
			}
		}
	}
	// scripted families of the proxy3 growth slice
	type fam struct {
		name    string
		cfg     func() dsx.Cfg
		scripts [][]string
	}
	retryCfg := func() dsx.Cfg {
		cfg := dsx.Cfg{Route: "c", RetryOn: true, N: rng.Pick([]int{0, 1, 2}), Data: rng.Chance(30), Trailers: rng.Chance(15)}
		if c10 {
			cfg.MR = rng.Pick([]int{0, 1, 2})
			cfg.MQ = rng.Pick([]int{0, 2})
		}
		return cfg
	}
	fams := []fam{
		// a retried attempt answered WITH a body / trailers, then the request ends in a reply MOSN generates itself: upstream
		// reset with a reason that is not retried, no healthy host left at the retry, pool overflow at the retry, the global
		// timeout, TerminateStream — the local reply must not carry the parts of the abandoned exchange
		{"body", retryCfg, [][]string{
			{"S", "R*:503:10", "X*:StreamRemoteReset"}, {"S", "R*:503:01", "X*:UpstreamReset"}, {"S", "R*:503:10", "X*:StreamOverflow"},
			{"S", "HG", "R*:503:10"}, {"S", "PFo", "R*:503:10"}, {"S", "PFo", "R*:503:01"}, {"S", "R*:503:10", "GT"},
			{"S", "R*:503:10", "W", "GT"}, {"S", "R*:503:10", "TM418"}, {"S", "R*:503:10", "R*:503:01", "X*:StreamRemoteReset"},
			{"S", "R*:503:10", "R*:200:00"}, {"S", "R*:503:10", "R*:200:01"}, {"S", "B*:503:10", "X*:StreamLocalReset"},
		}},
		// TerminateStream on a kept handler of a finished request whose pooled object this request runs on: ignored, the
		// request gets its own response (or its own terminate reply)
		{"stale", func() dsx.Cfg { cfg := retryCfg(); cfg.Stale = true; cfg.LongGlobal = true; return cfg }, [][]string{
			{"S", "TS419", "R*:200:10"}, {"S", "TS419", "TM418"}, {"S", "X*:ConnectionFailed", "TS419", "R*:200:00"},
			{"S", "TS419", "TS419", "R*:404:00"}, {"S", "TS419", "X*:StreamRemoteReset"},
		}},
		// TerminateStream with an in-flight upstream response landing inside it (after its claim of the response slot)
		{"raced", retryCfg, [][]string{
			{"S", "TR418:*:10"}, {"S", "TR418:*:11"}, {"S", "X*:ConnectionFailed", "TR418:*:10"}, {"S", "W", "TR418:*:11", "R*:200:00"},
			{"S", "TM418", "R*:200:10"},
		}},
		// a retry (connection failure, retriable status) some time after the request was sent, then silence: the global timeout
		// fires at its deadline measured from the FIRST attempt
		{"timer", func() dsx.Cfg { cfg := retryCfg(); cfg.Codes = nil; return cfg }, [][]string{
			{"S", "W", "X*:ConnectionFailed", "GT"}, {"S", "W", "W", "R*:503:00", "GT"}, {"S", "W", "X*:ConnectionFailed", "W", "R*:503:10", "GT"},
			{"S", "W", "W", "X*:ConnectionTermination", "W", "GT"}, {"S", "W", "R*:503:00", "W", "X*:ConnectionFailed", "GT"},
			{"S", "W", "W", "X*:ConnectionFailed", "GT"}, {"S", "W", "R*:503:11", "W", "GT"},
		}},
	}
	// late response during the back-off (proxy6): the attempt is given up for a retry (per-try timeout / upstream reset)
	// with a response of it still in flight; the frame lands while doRetry sleeps. Then silence, another answer, a second
	// late frame, the client's departure or the global timeout.
	lateCfg := func() dsx.Cfg {
		cfg := dsx.Cfg{Route: "c", RetryOn: true, N: rng.Pick([]int{1, 2, 3}), Data: rng.Chance(30), Trailers: rng.Chance(15), TryTimeout: true}
		if c10 {
			cfg.MR = rng.Pick([]int{0, 1, 2})
			cfg.MQ = rng.Pick([]int{0, 1, 2})
			cfg.AR = rng.Intn(2)
		}
		return cfg
	}
	fams = append(fams, fam{"late", lateCfg, [][]string{
		{"S", "PL0:10"}, {"S", "PL0:01", "R*:200:00"}, {"S", "XL0:ConnectionFailed:10"}, {"S", "XL0:ConnectionFailed:10", "R*:200:10"},
		{"S", "XL0:ConnectionTermination:00", "X*:ConnectionFailed"}, {"S", "PL0:10", "PT"}, {"S", "XL0:ConnectionFailed:10", "XL1:ConnectionFailed:10"},
		{"S", "PL0:10", "DR"}, {"S", "XL0:ConnectionFailed:10", "GT"}, {"S", "HG", "XL0:ConnectionFailed:10"}, {"S", "PFo", "PL0:10"},
		{"S", "R*:503:10", "XL1:ConnectionFailed:10"},
	}})
	// [proxy10] events in the back-off of doRetry: every event after every trigger, then nothing / the answer of the attempt
	// that exists afterwards / a second back-off / the global timeout
	boCfg := func() dsx.Cfg {
		cfg := dsx.Cfg{Route: "c", RetryOn: true, N: rng.Pick([]int{1, 2, 3}), Data: rng.Chance(30), Trailers: rng.Chance(15)}
		if c10 {
			cfg.MR = rng.Pick([]int{0, 1, 2})
			cfg.MQ = rng.Pick([]int{0, 1, 2})
			cfg.AR = rng.Intn(2)
		}
		return cfg
	}
	var boScripts [][]string
	for _, trig := range []string{"X*=ConnectionFailed", "X*=ConnectionTermination", "R*=503=00", "R*=503=10", "R*=500=01"} {
		for _, ev := range append(append([]string{}, dsx.BOEvents...), dsx.BOTimerEvents...) {
			if !c.Thorough() && rng.Chance(40) {
				continue
			}
			tails := []string{"", "R*:200:00", "R*:200:10", "GT", "X*:StreamRemoteReset", "ZB:X*=ConnectionFailed:DR", "ZB:X*=ConnectionFailed:TM403"}
			tail := tails[rng.Intn(len(tails))]
			sc := []string{"S", "ZB:" + trig + ":" + ev}
			if tail != "" {
				sc = append(sc, tail)
			}
			boScripts = append(boScripts, sc)
		}
	}
	boScripts = append(boScripts, []string{"S", "R*:503:10", "ZB:X*=ConnectionFailed:GSs"}, []string{"S", "W", "ZB:X*=ConnectionFailed:GSm", "R*:200:00"},
		[]string{"S", "HG", "ZB:X*=ConnectionFailed:TM418"}, []string{"S", "PFc", "ZB:X*=ConnectionFailed:DR"},
		[]string{"S", "ZB:X*=StreamRemoteReset:TM418"}, []string{"S", "ZB:X*=StreamOverflow:DR"})
	fams = append(fams, fam{"bo", boCfg, boScripts})
	// the client leaves while the wake-up is inside the upstream send of the next attempt (requests with a body / trailers)
	fams = append(fams, fam{"bods", func() dsx.Cfg { cfg := boCfg(); cfg.Data = true; cfg.Trailers = rng.Chance(40); return cfg }, [][]string{
		{"S", "ZB:X*=ConnectionFailed:DS"}, {"S", "ZB:R*=503=00:DS"}, {"S", "ZB:X*=ConnectionTermination:DS"}, {"S", "ZB:R*=503=10:DS"},
		{"S", "X*:ConnectionFailed", "ZB:X*=ConnectionFailed:DS"},
	}})
	// … after a per-try timeout
	fams = append(fams, fam{"bop", func() dsx.Cfg { cfg := boCfg(); cfg.TryTimeout = true; return cfg }, [][]string{
		{"S", "ZB:P*:TM418"}, {"S", "ZB:P*:TMs403", "R*:200:00"}, {"S", "ZB:P*:DR"}, {"S", "ZB:P*:CC"}, {"S", "ZB:P*:HG"},
		{"S", "ZB:P*:TM418", "GT"}, {"S", "X*:ConnectionFailed", "ZB:P*:DR"},
	}})
	// the reset of a streamed response before its head is forwarded: at the top of UpRecvHeader / inside UpFilter
	fams = append(fams, fam{"sr", func() dsx.Cfg { cfg := boCfg(); cfg.N = rng.Pick([]int{0, 1, 2}); cfg.RetryOn = rng.Chance(70); return cfg }, [][]string{
		{"S", "ZS*:200:10:h:ConnectionTermination"}, {"S", "ZS*:200:10:h:ConnectionTermination", "R*:200:00"}, {"S", "ZS*:200:11:h:StreamRemoteReset"},
		{"S", "ZS*:200:11:f:ConnectionTermination", "R*:200:10"}, {"S", "ZS*:503:10:h:ConnectionFailed", "R*:200:00"},
		{"S", "X*:ConnectionFailed", "ZS*:200:10:h:ConnectionTermination"}, {"S", "ZS*:200:10:h:ConnectionTermination", "ZS*:200:10:h:ConnectionTermination"},
		{"S", "ZS*:200:10:h:StreamRemoteReset", "GT"}, {"S", "ZS*:200:01:f:StreamRemoteReset"},
	}})
	for _, fm := range fams {
		for _, sc := range fm.scripts {
			reps := 1
			if c.Thorough() {
				reps = 3
			}
			for r := 0; r < reps; r++ {
				jobs <- job{cfg: fm.cfg(), kind: "script:" + fm.name, labels: len(sc) + 1, script: sc}
				np++
			}
		}
	}
	for i := np; i < n; i++ {
		labels := 9
		if rng.Chance(25) {
			labels = 14
		}
		jobs <- job{cfg: GenCfg(rng, c10), seed: rng.U64(), labels: labels}
	}
	close(jobs)
	wg.Wait()
	// c10t9: dropping is bounded — a run that had to discard more than histSkewShare % of its histories (each after three
	// attempts) says too little about the code: it ends as "environment too slow", never as a verdict
	if d, r := atomic.LoadInt64(&dropped), atomic.LoadInt64(&ran); d > 3 && d*100 > histSkewShare*r {
		c.TooSlow(fmt.Sprintf("%s hist: %d of %d histories dropped as timing skew (> %d %%)", prop, d, r, histSkewShare))
	}
}

// histSkewShare: percent of the histories of one RunMany that may be dropped as skew.
const histSkewShare = 15

// ModelCheck emits `mc` cases: the driver explores EVERY schedule of the model for the configuration up to the state
// limit and evaluates the executable invariant (all clauses of Inv), "no silent outcome", "the global timer completes a
// parked exchange" and "a parked worker waits for a live upstream request" on every state. No implementation side.
func ModelCheck(c *hx.Ctx, prop string) {
	limit := c.N(15000, 200000)
	cfgs := []dsx.Cfg{
		{Route: "c", Data: true, Trailers: true, RetryOn: true, TryTimeout: true, MR: 1, MQ: 1},
		{Route: "c", RetryOn: true, N: 4, Codes: []int{503}, TryTimeout: true, MR: 2, MQ: 2, AR: 1, AQ: 1},
		{Route: "c", OneWay: true, Trailers: true, RetryOn: true, TryTimeout: true, MQ: 2, AQ: 2},
		{Route: "nh", RetryOn: true, TryTimeout: true, MR: 1, MQ: 1},
		{Route: "d200", OneWay: true, RetryOn: true, MR: 1, MQ: 1},
	}
	for _, cfg := range cfgs {
		c.Emit(prop, fmt.Sprintf("mc %s %d", cfg.Tokens(), limit), "")
		c.Count("mc")
	}
}

func Run(c *hx.Ctx) {
	ModelCheck(c, "C03")
	if len(c.Args) > 0 && c.Args[0] == "upfonly" { // development aid
		RunUpf(c, "C03")
		return
	}
	if len(c.Args) > 0 && c.Args[0] == "xponly" { // development aid
		RunXP(c, "C03")
		return
	}
	if len(c.Args) > 0 && c.Args[0] == "tbonly" { // development aid
		RunTB(c, "C03")
		return
	}
	if len(c.Args) > 0 && c.Args[0] == "p10only" { // development aid
		RunP10(c, "C03")
		return
	}
	RunMany(c, "C03", c.N(700, 2500), 8, false)
	RunUpf(c, "C03")
	RunXP(c, "C03") // proxy8: reset, then the per-try timer, with the worker held in the upstream sender
	RunTB(c, "C03") // proxy9: TerminateStream lands inside doRetry's back-off sleep
	RunSRW(c, "C03") // proxy10: a streamed response is reset before the worker picked its head up
}
