//go:build verif

package c03

// proxy9: `terminate during the back-off` on the implementation. An attempt is given up for a retry (upstream reset with a
// retriable reason, per-try timeout, retriable status), processError hands the phase Retry back and the worker sleeps
// ~10 ms in downStream.doRetry. A stream filter's asynchronous handler.TerminateStream(code) lands INSIDE that sleep: the
// response slot is free again (setupRetry swung upstreamResponseReceived back), so the call is accepted, stores the local
// reply and sets directResponse — unless response headers are stored (the stale headers of a try that was retried because
// of its STATUS: the call is refused). The request is denied from then on: doRetry must not create attempt k+1.
//
//	hist <cfg> <amb> S,XT<k>:<reason>:<code>[,tail]   reset of attempt k, then TerminateStream(code) in the back-off
//	hist <cfg> <amb> S,PTT<k>:<code>[,tail]           per-try timer of attempt k, then …
//	hist <cfg> <amb> S,RT<k>:<status>:<dt>:<code>[,tail]  response (retriable status) of attempt k, then … (refused)
//	                 =>  trace=… ledger=… done=… tm=<0|1>      (the `hist` line of harness/dsx)
//
// Whether the call really landed in the sleep is observed: the worker is known to be past its decision when the reset /
// the answer of attempt k has been consumed (the attempt is no longer live and — reset paths — the trace shows nothing
// new), and attempt k+1 must not exist yet when the call RETURNS; otherwise the run is discarded as skewed and repeated.

import (
	"fmt"
	"strings"
	"time"

	v2 "mosn.io/mosn/pkg/config/v2"
	"mosn.io/mosn/pkg/types"
	"verif/harness/dsx"
	"verif/harness/hx"
	"verif/harness/px"
)

// how long after the event that causes the retry the call is made (doRetry sleeps 10 ms)
const proxy9TbAt = 3 * time.Millisecond

type proxy9TbCase struct {
	data, trl  bool
	n          int
	tryTimeout bool
	codes      []int
	trigger    string // X:<reason> | PT | R:<status>:<dt>
	code       int
	tail       string // "" | R<code>:<dt> (answer of the attempt that exists after the back-off, if any) | GT
}

func proxy9TbCases(c *hx.Ctx) []proxy9TbCase {
	var cases []proxy9TbCase
	triggers := []string{"X:" + types.StreamConnectionFailed, "X:" + types.StreamConnectionTermination, "PT", "R:503:00", "R:503:10", "R:500:01"}
	shapes := [][2]bool{{false, false}, {true, false}, {true, true}, {false, true}}
	tails := []string{"", "R200:00", "R200:10", "GT"}
	for _, tr := range triggers {
		for _, sh := range shapes {
			for _, tail := range tails {
				if !c.Thorough() && c.Rng.Chance(60) {
					continue
				}
				k := proxy9TbCase{data: sh[0], trl: sh[1], n: c.Rng.Pick([]int{1, 2, 3}), tryTimeout: tr == "PT" || tail != "GT" && c.Rng.Chance(30),
					trigger: tr, code: c.Rng.Pick([]int{418, 403, 503}), tail: tail}
				if tr == "PT" && tail == "GT" { // per-try timers of later attempts would fire before the global one
					k.tail = ""
				}
				if strings.HasPrefix(tr, "R:") && c.Rng.Chance(30) {
					k.codes = []int{500, 503}
				}
				cases = append(cases, k)
			}
		}
	}
	return cases
}

// proxy9TbOnce runs one case; ok=false: the call did not land in the back-off (discard).
func proxy9TbOnce(k proxy9TbCase) (caseToks, out string, ok bool, note string) {
	cfg := dsx.Cfg{Route: "c", Data: k.data, Trailers: k.trl, RetryOn: true, N: k.n, TryTimeout: k.tryTimeout, Codes: k.codes}
	var codes []uint32
	for _, x := range k.codes {
		codes = append(codes, uint32(x))
	}
	tt := time.Duration(0)
	if k.tryTimeout {
		tt = dsx.TryTimeout
	}
	opts := []px.RouteOpt{px.Timeout(dsx.GlobalTimeout), px.Retry(true, uint32(k.n), tt, codes...)}
	f := px.New(px.Config{Clusters: []px.Cluster{{Name: "c", Hosts: 1}}, Routes: []v2.Router{px.Route("/", "c", opts...)}, TerminateHandle: true})
	defer f.Close()
	var body []byte
	var trailers map[string]string
	if k.data {
		body = []byte("body")
	}
	if k.trl {
		trailers = px.H("t", "1")
	}
	ex := f.Request(px.H(":path", "/a", ":authority", "svc"), body, trailers)
	defer ex.ForgetProv()
	a0 := ex.WaitAttempt(0)
	if a0 == nil || a0.Failed != "" {
		return "", "", false, "noattempt"
	}
	ex.WaitQuiescent()
	labels := []string{"S"}
	switch {
	case strings.HasPrefix(k.trigger, "X:"):
		labels = append(labels, fmt.Sprintf("XT0:%s:%d", k.trigger[2:], k.code))
		a0.Reset(k.trigger[2:])
	case k.trigger == "PT":
		labels = append(labels, fmt.Sprintf("PTT0:%d", k.code))
		ex.SleepUntil(a0.Created + dsx.TryTimeout)
		for i := 0; i < 80 && a0.Live(); i++ { // the timer callback resets the attempt
			time.Sleep(250 * time.Microsecond)
		}
		if a0.Live() {
			return "", "", false, "notimer"
		}
	default: // R:<status>:<dt>
		p := strings.Split(k.trigger, ":")
		var st int
		fmt.Sscan(p[1], &st)
		labels = append(labels, fmt.Sprintf("RT0:%d:%s:%d", st, p[2], k.code))
		rh, rb, rt := px.AnswerOf(0, p[2][0] == '1', p[2][1] == '1')
		a0.Respond(st, rh, rb, rt)
	}
	time.Sleep(proxy9TbAt)
	before := len(ex.UpstreamAttempts())
	tm := ex.Terminate(k.code)
	after := len(ex.UpstreamAttempts())
	if before != 1 || after != 1 || ex.Done() {
		return "", "", false, "missed"
	}
	ex.WaitQuiescentFor(30 * time.Millisecond) // beyond doRetry's back-off
	if k.tail != "" && !ex.Done() {
		as := ex.UpstreamAttempts()
		last := as[len(as)-1]
		switch {
		case k.tail == "GT":
			labels = append(labels, "GT")
			ex.SleepUntil(a0.Created + dsx.GlobalTimeout + 8*time.Millisecond)
			ex.WaitQuiescentFor(30 * time.Millisecond)
		case last.Index > 0 && last.Failed == "" && last.Live():
			var code int
			var dt string
			fmt.Sscanf(strings.ReplaceAll(k.tail[1:], ":", " "), "%d %s", &code, &dt)
			if at := ex.Elapsed(); at > last.Created+dsx.TryTimeout-20*time.Millisecond || at > dsx.GlobalTimeout-40*time.Millisecond {
				return "", "", false, "late"
			}
			rh, rb, rt := px.AnswerOf(last.Index, dt[0] == '1', dt[1] == '1')
			labels = append(labels, fmt.Sprintf("R%d:%d:%s", last.Index, code, dt))
			last.Respond(code, rh, rb, rt)
			ex.WaitQuiescentFor(30 * time.Millisecond)
		}
	}
	toks := ex.DownToks()
	if toks == nil {
		toks = []string{}
	}
	l := f.Ledger()
	done, tms := "0", "0"
	if ex.Done() {
		done = "1"
	}
	if tm {
		tms = "1"
	}
	out = fmt.Sprintf("trace=%s ledger=%d,%d,%d,%d done=%s tm=%s", dsx.CanonToks(ex.Trace(), toks), l.Requests["c"], l.Retries["c"], l.UpActive["c"], l.DownActive, done, tms)
	return "hist " + cfg.Tokens() + " " + strings.Join(labels, ","), out, true, ""
}

// RunTB emits the `terminate during the back-off` histories under prop.
func RunTB(c *hx.Ctx, prop string) {
	for _, k := range proxy9TbCases(c) {
		emitted := false
		for try := 0; try < 3 && !emitted; try++ {
			ct, out, ok, note := proxy9TbOnce(k)
			if !ok {
				c.Count("tb.skew." + note)
				continue
			}
			c.Emit(prop, ct, out)
			emitted = true
			c.Count("tb")
			c.Count("tb.trigger=" + strings.SplitN(k.trigger, ":", 2)[0])
			if strings.HasSuffix(out, "tm=1") {
				c.Count("tb.accepted")
			} else {
				c.Count("tb.refused")
			}
			if strings.Contains(out, "un:1") {
				c.Count("tb.next-attempt-created")
			}
		}
		if !emitted {
			c.Count("tb.dropped")
		}
	}
}
