//go:build verif

package c03

// c03t10 — kind `xh`: THE REPLY MOSN GENERATES ITSELF, PER CODEC, ON THE WIRE. The other kinds drive the proxy core through the
// fake protocol of harness/px, so the construction of a local reply (xStream.AppendHeaders -> buildHijackResp ->
// proto.Hijack(request, proto.Mapping(code)) -> endStream: `if s.frame != nil { Encode; Write }`) is outside them. Here a raw
// client talks over loopback to network.NewServerConnection + the real proxy network filter + the real xprotocol server
// stream connection of each codec {bolt, boltv2, dubbo, dubbo-thrift, tars}, in front of a scripted upstream (real multiplex
// pool and client stream connection), and every cause of a MOSN-generated reply is produced:
//
//	up   the upstream answers (control)                 nr   no route (404)             nh   no healthy upstream (502)
//	po   pool overflow (max_requests 1 + a blocker, 503) to   global timeout (504)        xr   upstream closes the connection (ConnectionTermination: 500)
//	hj:<code>  a stream filter calls SendHijackReply(code)   tm:<code>  asynchronous TerminateStream(code) while the request waits
//
// for two-way requests, one-way requests (bolt, boltv2, dubbo: must NOT be answered) and heartbeats (answered by the stream
// layer with the codec's Reply frame, never by a hijack reply). Request ids are generated (boundaries 0, 1, 2^31-1, 2^32-1,
// ids above 2^32 for the 64-bit codecs).
//
//	xh <codec> <cause> <code> <kind tw|ow|hb> <reqid>  =>  fin=<0|1> n=<frames> <typ>:<id>:<status>:<dec>,…
//
// fin = the proxy finished the request (one access-log event); every frame the CLIENT received after the warm-up exchange:
// typ r response | h heartbeat ack | q request-type frame | x unreadable; id and status read from the WIRE FORMAT by this
// file's own readers (bolt/boltv2: response status; dubbo: status byte; dubbo-thrift: TApplicationException type of an
// exception message, 65535 = a normal reply; tars: iRet as uint32); dec = MOSN's codec decodes the frame as a response
// with the same id and status.

import (
	"bytes"
	"context"
	"encoding/binary"
	"fmt"
	"net"
	"strconv"
	"strings"
	"sync"
	"sync/atomic"
	"time"

	tcodec "github.com/TarsCloud/TarsGo/tars/protocol/codec"
	"github.com/TarsCloud/TarsGo/tars/protocol/res/requestf"
	hessian "github.com/apache/dubbo-go-hessian2"
	"mosn.io/api"
	v2 "mosn.io/mosn/pkg/config/v2"
	proxyfilter "mosn.io/mosn/pkg/filter/network/proxy"
	"mosn.io/mosn/pkg/network"
	"mosn.io/mosn/pkg/protocol/xprotocol"
	"mosn.io/mosn/pkg/protocol/xprotocol/bolt"
	"mosn.io/mosn/pkg/protocol/xprotocol/boltv2"
	"mosn.io/mosn/pkg/protocol/xprotocol/dubbo"
	"mosn.io/mosn/pkg/protocol/xprotocol/dubbothrift"
	"mosn.io/mosn/pkg/protocol/xprotocol/tars"
	"mosn.io/mosn/pkg/router"
	xstream "mosn.io/mosn/pkg/stream/xprotocol"
	"mosn.io/mosn/pkg/streamfilter"
	"mosn.io/mosn/pkg/types"
	"mosn.io/mosn/pkg/upstream/cluster"
	"mosn.io/pkg/buffer"
	"mosn.io/pkg/variable"

	"verif/harness/hx"
	"verif/harness/px"
)

var xhCodecs = []string{"bolt", "boltv2", "dubbo", "thrift", "tars"}

func xhMosn(c string) string {
	if c == "thrift" {
		return "dubbo-thrift"
	}
	return c
}

var xhRegErr error

func xhProto(ctx context.Context, codec string) api.XProtocol {
	switch codec {
	case "bolt":
		return (&bolt.XCodec{}).NewXProtocol(ctx)
	case "boltv2":
		return (&boltv2.XCodec{}).NewXProtocol(ctx)
	case "dubbo":
		return (&dubbo.XCodec{}).NewXProtocol(ctx)
	case "thrift":
		return (&dubbothrift.XCodec{}).NewXProtocol(ctx)
	case "tars":
		return (&tars.XCodec{}).NewXProtocol(ctx)
	}
	return nil
}

func init() {
	// the codecs must be registered before the cluster manager singleton is created (it sizes its pool table then)
	xprotocol.RegisterXProtocolAction(xstream.NewConnPool, xstream.NewStreamFactory, func(codec api.XProtocolCodec) {})
	for _, c := range []api.XProtocolCodec{&bolt.XCodec{}, &boltv2.XCodec{}, &dubbo.XCodec{}, &dubbothrift.XCodec{}, &tars.XCodec{}} {
		_ = xprotocol.RegisterXProtocolCodec(c) // "duplicate": the codec package registered itself
	}
	hx.Register("C03", runXH)
}

func runXH(c *hx.Ctx) {
	if len(c.Args) > 0 && c.Args[0] == "xhonly" { // development aid
		RunXH(c, "C03")
		return
	}
	runW10(c)
	if len(c.Args) > 0 {
		return
	}
	RunXH(c, "C03")
}

// ---------------------------------------------------------------------------------------------------------------------
// wire format (observer side; MOSN's codecs are the subject)

const (
	xhReqClass  = "com.alipay.sofa.rpc.core.request.SofaRequest"
	xhRespClass = "com.alipay.sofa.rpc.core.response.SofaResponse"
)

func xhKV(kv ...string) []byte {
	var b bytes.Buffer
	for _, s := range kv {
		binary.Write(&b, binary.BigEndian, uint32(len(s)))
		b.WriteString(s)
	}
	return b.Bytes()
}

func xhStr32(s string) []byte {
	b := make([]byte, 4, 4+len(s))
	binary.BigEndian.PutUint32(b, uint32(len(s)))
	return append(b, s...)
}

func xhTarsPack(w interface {
	WriteTo(*tcodec.Buffer) error
}) []byte {
	os := tcodec.NewBuffer()
	w.WriteTo(os)
	bs := os.ToBytes()
	b := make([]byte, 4, 4+len(bs))
	binary.BigEndian.PutUint32(b, uint32(4+len(bs)))
	return append(b, bs...)
}

func xhDubbo(flag, status byte, id uint64, payload []byte) []byte {
	b := make([]byte, 16, 16+len(payload))
	b[0], b[1], b[2], b[3] = 0xda, 0xbb, flag, status
	binary.BigEndian.PutUint64(b[4:], id)
	binary.BigEndian.PutUint32(b[12:], uint32(len(payload)))
	return append(b, payload...)
}

func xhThrift(svc string, id uint64, mtype byte, name, body string) []byte {
	var m bytes.Buffer
	m.Write([]byte{0xda, 0xbc, 0, 0, 0, 0, 0, 0, 1})
	m.Write(xhStr32(svc))
	var idb [8]byte
	binary.BigEndian.PutUint64(idb[:], id)
	m.Write(idb[:])
	hl := m.Len()
	m.Write([]byte{0x80, 0x01, 0x00, mtype})
	m.Write(xhStr32(name))
	m.Write([]byte{0, 0, 0, 7})
	m.WriteString(body)
	msg := m.Bytes()
	binary.BigEndian.PutUint32(msg[2:], uint32(len(msg)))
	binary.BigEndian.PutUint16(msg[6:], uint16(hl))
	out := make([]byte, 4, 4+len(msg))
	binary.BigEndian.PutUint32(out, uint32(len(msg)))
	return append(out, msg...)
}

// xhRequest: kind tw | ow | hb
func xhRequest(codec string, id uint64, svc, kind string) []byte {
	switch codec {
	case "bolt":
		hdr := xhKV("service", svc)
		b := make([]byte, 22)
		b[0], b[1], b[4], b[9] = 1, 1, 1, 1
		binary.BigEndian.PutUint16(b[2:], 1)
		cls := xhReqClass
		switch kind {
		case "ow":
			b[1] = 2
		case "hb":
			binary.BigEndian.PutUint16(b[2:], 0)
			cls, hdr = "", nil
		}
		binary.BigEndian.PutUint32(b[5:], uint32(id))
		binary.BigEndian.PutUint32(b[10:], 0) // no timeout in the frame: the route's timeout applies
		binary.BigEndian.PutUint16(b[14:], uint16(len(cls)))
		binary.BigEndian.PutUint16(b[16:], uint16(len(hdr)))
		body := "q"
		if kind == "hb" {
			body = ""
		}
		binary.BigEndian.PutUint32(b[18:], uint32(len(body)))
		b = append(b, cls...)
		b = append(b, hdr...)
		return append(b, body...)
	case "boltv2":
		hdr := xhKV("service", svc)
		b := make([]byte, 24)
		b[0], b[1], b[2], b[5], b[10] = 2, 1, 1, 1, 1
		binary.BigEndian.PutUint16(b[3:], 1)
		cls := xhReqClass
		body := "q"
		switch kind {
		case "ow":
			b[2] = 2
		case "hb":
			binary.BigEndian.PutUint16(b[3:], 0)
			cls, hdr, body = "", nil, ""
		}
		binary.BigEndian.PutUint32(b[6:], uint32(id))
		binary.BigEndian.PutUint16(b[16:], uint16(len(cls)))
		binary.BigEndian.PutUint16(b[18:], uint16(len(hdr)))
		binary.BigEndian.PutUint32(b[20:], uint32(len(body)))
		b = append(b, cls...)
		b = append(b, hdr...)
		return append(b, body...)
	case "dubbo":
		if kind == "hb" {
			return xhDubbo(0x80|0x40|0x20|2, 0, id, []byte{'N'})
		}
		e := hessian.NewEncoder()
		e.Encode("2.0.2")
		e.Encode(svc)
		e.Encode("0.0.0")
		e.Encode("m")
		e.Encode("")
		e.Encode(map[interface{}]interface{}{})
		flag := byte(0x80 | 0x40 | 2)
		if kind == "ow" {
			flag = 0x80 | 2
		}
		return xhDubbo(flag, 0, id, e.Buffer())
	case "thrift":
		return xhThrift(svc, id, 1, "m", "q")
	case "tars":
		return xhTarsPack(&requestf.RequestPacket{IVersion: 1, IRequestId: int32(uint32(id)), SServantName: svc, SFuncName: "m",
			SBuffer: []int8{'q'}, ITimeout: 3000, Context: map[string]string{}, Status: map[string]string{}})
	}
	return nil
}

func xhAnswer(codec string, id uint64) []byte {
	switch codec {
	case "bolt":
		b := make([]byte, 20)
		b[0], b[1], b[4], b[9] = 1, 0, 1, 1
		binary.BigEndian.PutUint16(b[2:], 2)
		binary.BigEndian.PutUint32(b[5:], uint32(id))
		binary.BigEndian.PutUint16(b[12:], uint16(len(xhRespClass)))
		binary.BigEndian.PutUint32(b[16:], 2)
		b = append(b, xhRespClass...)
		return append(b, "ok"...)
	case "boltv2":
		b := make([]byte, 22)
		b[0], b[1], b[2], b[5], b[10] = 2, 1, 0, 1, 1
		binary.BigEndian.PutUint16(b[3:], 2)
		binary.BigEndian.PutUint32(b[6:], uint32(id))
		binary.BigEndian.PutUint16(b[14:], uint16(len(xhRespClass)))
		binary.BigEndian.PutUint32(b[18:], 2)
		b = append(b, xhRespClass...)
		return append(b, "ok"...)
	case "dubbo":
		e := hessian.NewEncoder()
		e.Encode("ok")
		return xhDubbo(2, 20, id, e.Buffer())
	case "thrift":
		return xhThrift("c03xh.answer", id, 2, "m", "ok")
	case "tars":
		return xhTarsPack(&requestf.ResponsePacket{IVersion: 1, IRequestId: int32(uint32(id)), IRet: 0, SBuffer: []int8{'o', 'k'},
			Status: map[string]string{}, SResultDesc: "ok", Context: map[string]string{}})
	}
	return nil
}

// xhFrameLen: the length of the first frame in b (0 = incomplete, -1 = not a frame of the codec)
func xhFrameLen(codec string, b []byte) int {
	be16 := func(i int) int { return int(binary.BigEndian.Uint16(b[i:])) }
	be32 := func(i int) int { return int(binary.BigEndian.Uint32(b[i:])) }
	switch codec {
	case "bolt":
		if len(b) < 2 {
			return 0
		}
		if b[0] != 1 {
			return -1
		}
		h, l := 20, 12
		if b[1] != 0 {
			h, l = 22, 14
		}
		if len(b) < h {
			return 0
		}
		return h + be16(l) + be16(l+2) + be32(l+4)
	case "boltv2":
		if len(b) < 3 {
			return 0
		}
		if b[0] != 2 {
			return -1
		}
		h, l := 22, 14
		if b[2] != 0 {
			h, l = 24, 16
		}
		if len(b) < h {
			return 0
		}
		return h + be16(l) + be16(l+2) + be32(l+4)
	case "dubbo":
		if len(b) < 16 {
			return 0
		}
		if b[0] != 0xda || b[1] != 0xbb {
			return -1
		}
		return 16 + be32(12)
	case "thrift":
		if len(b) < 6 {
			return 0
		}
		if b[4] != 0xda || b[5] != 0xbc {
			return -1
		}
		return 4 + be32(0)
	case "tars":
		if len(b) < 4 {
			return 0
		}
		if be32(0) < 4 {
			return -1
		}
		return be32(0)
	}
	return -1
}

type xhFrame struct {
	typ    byte // r | h | q | x
	id     uint64
	status uint32
	dec    bool
	oneway bool
}

func xhParse(codec string, f []byte) (out xhFrame) {
	out.typ = 'x'
	defer func() {
		if recover() != nil {
			out = xhFrame{typ: 'x'}
		}
	}()
	switch codec {
	case "bolt":
		out.id = uint64(binary.BigEndian.Uint32(f[5:]))
		cmd := binary.BigEndian.Uint16(f[2:])
		switch {
		case f[1] != 0:
			out.typ, out.oneway = 'q', f[1] == 2
		case cmd == 0:
			out.typ, out.status = 'h', uint32(binary.BigEndian.Uint16(f[10:]))
		case cmd == 2:
			out.typ, out.status = 'r', uint32(binary.BigEndian.Uint16(f[10:]))
		}
		if f[1] != 0 && cmd == 0 {
			out.typ = 'H' // heartbeat request
		}
	case "boltv2":
		out.id = uint64(binary.BigEndian.Uint32(f[6:]))
		cmd := binary.BigEndian.Uint16(f[3:])
		switch {
		case f[2] != 0:
			out.typ, out.oneway = 'q', f[2] == 2
		case cmd == 0:
			out.typ, out.status = 'h', uint32(binary.BigEndian.Uint16(f[12:]))
		case cmd == 2:
			out.typ, out.status = 'r', uint32(binary.BigEndian.Uint16(f[12:]))
		}
		if f[2] != 0 && cmd == 0 {
			out.typ = 'H'
		}
	case "dubbo":
		out.id = binary.BigEndian.Uint64(f[4:])
		switch {
		case f[2]&0x80 != 0 && f[2]&0x20 != 0:
			out.typ = 'H'
		case f[2]&0x80 != 0:
			out.typ, out.oneway = 'q', f[2]&0x40 == 0
		case f[2]&0x20 != 0:
			out.typ, out.status = 'h', uint32(f[3])
		default:
			out.typ, out.status = 'r', uint32(f[3])
		}
	case "thrift":
		m := f[4:]
		p := 9
		p += 4 + int(binary.BigEndian.Uint32(m[p:]))
		out.id = binary.BigEndian.Uint64(m[p:])
		p += 8
		mtype := m[p+3]
		p += 4
		p += 4 + int(binary.BigEndian.Uint32(m[p:]))
		p += 4
		switch mtype {
		case 1, 4:
			out.typ, out.oneway = 'q', mtype == 4
		case 2:
			out.typ, out.status = 'r', 65535
		case 3:
			out.typ = 'r'
			// TApplicationException: 1 string message, 2 i32 type
			for p < len(m) && m[p] != 0 {
				ft, fid := m[p], binary.BigEndian.Uint16(m[p+1:])
				p += 3
				switch ft {
				case 11:
					p += 4 + int(binary.BigEndian.Uint32(m[p:]))
				case 8:
					if fid == 2 {
						out.status = binary.BigEndian.Uint32(m[p:])
					}
					p += 4
				default:
					return xhFrame{typ: 'x'}
				}
			}
		}
	case "tars":
		r := &requestf.ResponsePacket{}
		if err := r.ReadFrom(tcodec.NewReader(f[4:])); err == nil {
			out.typ, out.id, out.status = 'r', uint64(uint32(r.IRequestId)), uint32(r.IRet)
		} else {
			q := &requestf.RequestPacket{}
			if err := q.ReadFrom(tcodec.NewReader(f[4:])); err == nil {
				out.typ, out.id = 'q', uint64(uint32(q.IRequestId))
			}
		}
	}
	return out
}

// xhDecodes: MOSN's own codec decodes the frame as a response frame with this id and status
func xhDecodes(codec string, f []byte, want xhFrame) (ok bool) {
	defer func() {
		if recover() != nil {
			ok = false
		}
	}()
	ctx := variable.NewVariableContext(context.Background())
	proto := xhProto(ctx, codec)
	if proto == nil {
		return false
	}
	buf := buffer.NewIoBufferBytes(append([]byte{}, f...))
	v, err := proto.Decode(ctx, buf)
	if err != nil || v == nil || buf.Len() != 0 {
		return false
	}
	fr, isF := v.(api.XRespFrame)
	if !isF || fr.GetStreamType() != api.Response {
		return false
	}
	if want.typ == 'h' != fr.IsHeartbeatFrame() {
		return false
	}
	id := fr.GetRequestId()
	if codec == "tars" {
		id = uint64(uint32(id))
	}
	if id != want.id {
		return false
	}
	if codec == "thrift" { // the status of a dubbo-thrift frame lives in its thrift payload; the codec exposes none
		return true
	}
	return fr.GetStatusCode() == want.status
}

// ---------------------------------------------------------------------------------------------------------------------
// MOSN side (once per process)

const (
	xhRouter   = "c03xh"
	xhListener = "c03xh"
	xhFilter   = "c03xh_hijack"
	xhTimeout  = 60 // ms, route `to`
)

var (
	xhOnce  sync.Once
	xhFront = map[string]net.Listener{}
	xhUps   = map[string]*xhUp{}

	xhLogs      int32 // access-log events since the last reset
	xhHijack    int32 // != 0: the stream filter answers with SendHijackReply(code-1)
	xhKeep      int32 // != 0: the stream filter keeps its handler for TerminateStream
	xhHandlerMu sync.Mutex
	xhHandler   api.StreamReceiverFilterHandler
)

type xhLog struct{}

func (xhLog) Log(ctx context.Context, reqHeaders api.HeaderMap, respHeaders api.HeaderMap, requestInfo api.RequestInfo) {
	atomic.AddInt32(&xhLogs, 1)
}

type xhStreamFilter struct{ h api.StreamReceiverFilterHandler }

func (f *xhStreamFilter) OnDestroy() {}
func (f *xhStreamFilter) SetReceiveFilterHandler(h api.StreamReceiverFilterHandler) {
	f.h = h
}
func (f *xhStreamFilter) OnReceive(ctx context.Context, headers api.HeaderMap, buf api.IoBuffer, trailers api.HeaderMap) api.StreamFilterStatus {
	if code := atomic.LoadInt32(&xhHijack); code != 0 {
		f.h.SendHijackReply(int(code-1), headers)
		return api.StreamFilterStop
	}
	if atomic.LoadInt32(&xhKeep) != 0 {
		xhHandlerMu.Lock()
		xhHandler = f.h
		xhHandlerMu.Unlock()
	}
	return api.StreamFilterContinue
}

type xhFilterFactory struct{}

func (xhFilterFactory) CreateFilterChain(ctx context.Context, cb api.StreamFilterChainFactoryCallbacks) {
	cb.AddStreamReceiverFilter(&xhStreamFilter{}, api.BeforeRoute)
}

// the scripted upstream of one codec
type xhUp struct {
	codec string
	ln    net.Listener
	ln2   net.Listener // a second address: connection pools are keyed by address, the overflow cluster needs its own
	mode  int32 // 0 answer | 1 silent | 2 close the connection on a request
	got   int32 // request frames (not heartbeats) received
}

func newXhUp(codec string) *xhUp {
	ln, err := net.Listen("tcp", "127.0.0.1:0")
	if err != nil {
		panic(err)
	}
	ln2, err := net.Listen("tcp", "127.0.0.1:0")
	if err != nil {
		panic(err)
	}
	u := &xhUp{codec: codec, ln: ln, ln2: ln2}
	go u.serve(ln)
	go u.serve(ln2)
	return u
}

func (u *xhUp) serve(ln net.Listener) {
	codec := u.codec
	{
		for {
			c, err := ln.Accept()
			if err != nil {
				return
			}
			go func() {
				defer c.Close()
				var acc []byte
				tmp := make([]byte, 8192)
				for {
					n, err := c.Read(tmp)
					if err != nil {
						return
					}
					acc = append(acc, tmp[:n]...)
					for {
						l := xhFrameLen(codec, acc)
						if l < 0 {
							return
						}
						if l == 0 || l > len(acc) {
							break
						}
						f := xhParse(codec, acc[:l])
						acc = acc[l:]
						if f.typ != 'q' {
							continue
						}
						atomic.AddInt32(&u.got, 1)
						switch atomic.LoadInt32(&u.mode) {
						case 0:
							if !f.oneway {
								c.Write(xhAnswer(codec, f.id))
							}
						case 2:
							return
						}
					}
				}
			}()
		}
	}
}

func xhSvc(codec, rt string) string { return "c03xh." + codec + "." + rt }

func xhSetup() {
	xhOnce.Do(func() {
		px.New(px.Config{}).Close() // px's process-wide initialisation (server config, cluster manager singleton, log levels)
		cm := cluster.GetClusterMngAdapterInstance()
		api.RegisterStream(xhFilter, func(conf map[string]interface{}) (api.StreamFilterChainFactory, error) {
			return xhFilterFactory{}, nil
		})
		if err := streamfilter.GetStreamFilterManager().AddOrUpdateStreamFilterConfig(xhListener, []v2.Filter{{Type: xhFilter}}); err != nil {
			panic(err)
		}
		var routers []v2.Router
		must := func(err error) {
			if err != nil {
				panic(err)
			}
		}
		must(cm.AddOrUpdatePrimaryCluster(v2.Cluster{Name: "c03xh-empty", ClusterType: v2.SIMPLE_CLUSTER, LbType: v2.LB_ROUNDROBIN}))
		for _, codec := range xhCodecs {
			up := newXhUp(codec)
			xhUps[codec] = up
			host := []v2.Host{{HostConfig: v2.HostConfig{Address: up.ln.Addr().String()}}}
			must(cm.AddOrUpdatePrimaryCluster(v2.Cluster{Name: "c03xh-up-" + codec, ClusterType: v2.SIMPLE_CLUSTER, LbType: v2.LB_ROUNDROBIN,
				MaxRequestPerConn: 1 << 20, ConnBufferLimitBytes: 32 * 1024}))
			must(cm.UpdateClusterHosts("c03xh-up-"+codec, host))
			must(cm.AddOrUpdatePrimaryCluster(v2.Cluster{Name: "c03xh-po-" + codec, ClusterType: v2.SIMPLE_CLUSTER, LbType: v2.LB_ROUNDROBIN,
				MaxRequestPerConn: 1 << 20, ConnBufferLimitBytes: 32 * 1024,
				CirBreThresholds: v2.CircuitBreakers{Thresholds: []v2.Thresholds{{MaxRequests: 1}}}}))
			must(cm.UpdateClusterHosts("c03xh-po-"+codec, []v2.Host{{HostConfig: v2.HostConfig{Address: up.ln2.Addr().String()}}}))
			for _, rt := range []string{"ok", "to", "nh", "po"} {
				r := v2.Router{RouterConfig: v2.RouterConfig{
					Match: v2.RouterMatch{Headers: []v2.HeaderMatcher{{Name: "service", Value: xhSvc(codec, rt)}}},
					Route: v2.RouteAction{RouterActionConfig: v2.RouterActionConfig{ClusterName: "c03xh-up-" + codec}, Timeout: 20 * time.Second},
				}}
				switch rt {
				case "to":
					r.Route.Timeout = xhTimeout * time.Millisecond
				case "nh":
					r.Route.ClusterName = "c03xh-empty"
				case "po":
					r.Route.ClusterName = "c03xh-po-" + codec
				}
				routers = append(routers, r)
			}
		}
		must(router.GetRoutersMangerInstance().AddOrUpdateRouters(&v2.RouterConfiguration{
			RouterConfigurationConfig: v2.RouterConfigurationConfig{RouterConfigName: xhRouter},
			VirtualHosts:              []v2.VirtualHost{{Name: "all", Domains: []string{"*"}, Routers: routers}},
		}))
		for _, codec := range xhCodecs {
			factory, err := proxyfilter.CreateProxyFactory(map[string]interface{}{
				"downstream_protocol": xhMosn(codec), "upstream_protocol": xhMosn(codec), "router_config_name": xhRouter})
			must(err)
			front, err := net.Listen("tcp", "127.0.0.1:0")
			must(err)
			xhFront[codec] = front
			go func() {
				for {
					rawc, err := front.Accept()
					if err != nil {
						return
					}
					ctx := variable.NewVariableContext(context.Background())
					variable.Set(ctx, types.VariableAccessLogs, []api.AccessLog{xhLog{}})
					variable.Set(ctx, types.VariableListenerName, xhListener)
					conn := network.NewServerConnection(ctx, rawc, nil)
					factory.CreateFilterChain(ctx, conn.FilterManager())
					conn.FilterManager().InitializeReadFilters()
					conn.Start(ctx)
				}
			}()
		}
	})
}

// ---------------------------------------------------------------------------------------------------------------------
// the client of one case

type xhCli struct {
	codec  string
	c      net.Conn
	mu     sync.Mutex
	frames []xhFrame
	dead   bool
}

func newXhCli(codec string) *xhCli {
	c, err := net.Dial("tcp", xhFront[codec].Addr().String())
	if err != nil {
		panic(err)
	}
	cl := &xhCli{codec: codec, c: c}
	go func() {
		var acc []byte
		tmp := make([]byte, 8192)
		for {
			n, err := c.Read(tmp)
			if err != nil {
				cl.mu.Lock()
				cl.dead = true
				cl.mu.Unlock()
				return
			}
			acc = append(acc, tmp[:n]...)
			for {
				l := xhFrameLen(codec, acc)
				if l < 0 {
					cl.mu.Lock()
					cl.frames = append(cl.frames, xhFrame{typ: 'x'})
					cl.mu.Unlock()
					return
				}
				if l == 0 || l > len(acc) {
					break
				}
				f := xhParse(codec, acc[:l])
				f.dec = xhDecodes(codec, acc[:l], f)
				acc = acc[l:]
				cl.mu.Lock()
				cl.frames = append(cl.frames, f)
				cl.mu.Unlock()
			}
		}
	}()
	return cl
}

func (cl *xhCli) count() int {
	cl.mu.Lock()
	defer cl.mu.Unlock()
	return len(cl.frames)
}

func xhWait(cond func() bool, max time.Duration) bool {
	dl := time.Now().Add(max)
	for !cond() {
		if time.Now().After(dl) {
			return false
		}
		time.Sleep(200 * time.Microsecond)
	}
	return true
}

type xhCase struct {
	codec string
	cause string // up nr nh po to xr hj tm
	code  int
	kind  string // tw ow hb
	id    uint64
}

func (k xhCase) line() string {
	return fmt.Sprintf("xh %s %s %d %s %d", k.codec, k.cause, k.code, k.kind, k.id)
}

// xhRun: "" = the run was disturbed (warm-up failed / the blocker was refused), to be repeated
func xhRun(k xhCase) string {
	xhSetup()
	up := xhUps[k.codec]
	cl := newXhCli(k.codec)
	defer func() {
		cl.c.Close()
		atomic.StoreInt32(&up.mode, 0)
		atomic.StoreInt32(&xhHijack, 0)
		atomic.StoreInt32(&xhKeep, 0)
	}()
	// warm-up exchange on the same connection: the upstream connection exists and answers
	atomic.StoreInt32(&up.mode, 0)
	warm := false
	for try := 0; try < 4 && !warm; try++ {
		wid := uint64(0x7e000000 + try)
		n0 := cl.count()
		cl.c.Write(xhRequest(k.codec, wid, xhSvc(k.codec, "ok"), "tw"))
		warm = xhWait(func() bool { return cl.count() > n0 }, 400*time.Millisecond)
		if warm {
			cl.mu.Lock()
			f := cl.frames[len(cl.frames)-1]
			cl.mu.Unlock()
			warm = f.typ == 'r' && f.id == wid
		}
	}
	if !warm {
		return ""
	}
	time.Sleep(2 * time.Millisecond)
	base := cl.count()
	atomic.StoreInt32(&xhLogs, 0)
	got0 := atomic.LoadInt32(&up.got)

	svc := xhSvc(k.codec, "ok")
	blocker := uint64(0)
	switch k.cause {
	case "nr":
		svc = xhSvc(k.codec, "none")
	case "nh":
		svc = xhSvc(k.codec, "nh")
	case "to":
		svc = xhSvc(k.codec, "to")
		atomic.StoreInt32(&up.mode, 1)
	case "xr":
		atomic.StoreInt32(&up.mode, 2)
	case "hj":
		atomic.StoreInt32(&xhHijack, int32(k.code)+1)
	case "tm":
		atomic.StoreInt32(&up.mode, 1)
		atomic.StoreInt32(&xhKeep, 1)
		xhHandlerMu.Lock()
		xhHandler = nil
		xhHandlerMu.Unlock()
	case "po":
		svc = xhSvc(k.codec, "po")
		atomic.StoreInt32(&up.mode, 1)
		blocker = (k.id + 0x1000) & 0x7fffffff
		cl.c.Write(xhRequest(k.codec, blocker, svc, "tw"))
		if !xhWait(func() bool { return atomic.LoadInt32(&up.got) > got0 }, 2*time.Second) {
			return ""
		}
	}
	wantLogs := int32(1)
	cl.c.Write(xhRequest(k.codec, k.id, svc, k.kind))
	if k.kind == "hb" {
		wantLogs = 0
		xhWait(func() bool { return cl.count() > base }, 2*time.Second)
	} else {
		if k.cause == "tm" {
			if !xhWait(func() bool { return atomic.LoadInt32(&up.got) > got0 }, 2*time.Second) {
				return ""
			}
			time.Sleep(3 * time.Millisecond) // the worker is parked in waitNotify
			xhHandlerMu.Lock()
			h := xhHandler
			xhHandlerMu.Unlock()
			if h == nil {
				return ""
			}
			h.TerminateStream(k.code)
		}
		xhWait(func() bool { return atomic.LoadInt32(&xhLogs) >= wantLogs }, 3*time.Second)
		if k.kind == "tw" { // a reply that is on its way
			xhWait(func() bool { return cl.count() > base }, 150*time.Millisecond)
		}
	}
	time.Sleep(25 * time.Millisecond) // a second frame, a late write
	fin := 0
	if atomic.LoadInt32(&xhLogs) >= wantLogs && wantLogs > 0 {
		fin = 1
	}
	cl.mu.Lock()
	fr := append([]xhFrame{}, cl.frames[base:]...)
	cl.mu.Unlock()
	var toks []string
	for _, f := range fr {
		if blocker != 0 && f.id == blocker {
			return "" // the blocker itself was refused: a previous case's request still counted
		}
		d := 0
		if f.dec {
			d = 1
		}
		toks = append(toks, fmt.Sprintf("%c:%d:%d:%d", f.typ, f.id, f.status, d))
	}
	out := fmt.Sprintf("fin=%d n=%d", fin, len(fr))
	if len(toks) > 0 {
		out += " " + strings.Join(toks, ",")
	}
	return out
}

// ---------------------------------------------------------------------------------------------------------------------
// generator

var xhHijackCodes = []int{0, 2, 3, 200, 403, 404, 500, 502, 503, 504, 509}

func xhGenID(r *hx.Rng, codec string) uint64 {
	switch r.Intn(8) {
	case 0:
		return uint64(r.Pick([]int{0, 1, 2, 0x7fffffff}))
	case 1:
		if codec != "tars" {
			return 0xffffffff
		}
		return 0x7ffffffe
	case 2:
		if codec == "dubbo" || codec == "thrift" {
			return 1<<32 + uint64(r.Intn(1<<30))
		}
	}
	id := uint64(r.Intn(0x7dffffff)) // below the warm-up ids
	if id&0x7fffffff >= 0x7e000000 {
		id = 5
	}
	return id
}

func xhParseLine(toks []string) (xhCase, bool) {
	if len(toks) < 6 || toks[0] != "xh" {
		return xhCase{}, false
	}
	code, e1 := strconv.Atoi(toks[3])
	id, e2 := strconv.ParseUint(toks[5], 10, 64)
	if e1 != nil || e2 != nil {
		return xhCase{}, false
	}
	return xhCase{codec: toks[1], cause: toks[2], code: code, kind: toks[4], id: id}, true
}

func RunXH(c *hx.Ctx, prop string) {
	r := c.Rng.Fork()
	var cases []xhCase
	causeCode := map[string]int{"up": 200, "nr": 404, "nh": 502, "po": 503, "to": 504, "xr": 500}
	rounds := c.N(1, 3)
	for round := 0; round < rounds; round++ {
		for _, codec := range xhCodecs {
			for _, cause := range []string{"up", "nr", "nh", "po", "to", "xr"} {
				cases = append(cases, xhCase{codec, cause, causeCode[cause], "tw", xhGenID(r, codec)})
			}
			// hijack / terminate with arbitrary codes: every code of the api table once per run + unknown ones
			codes := append([]int{}, xhHijackCodes...)
			for i := 0; i < 3; i++ {
				codes = append(codes, r.Pick([]int{1, 4, 100, 201, 302, 400, 401, 418, 429, 499, 501, 505, 599, 600, 1000, 65535, 65536, 70000}))
			}
			for i, code := range codes {
				cause := "hj"
				if (i+round)%3 == 2 {
					cause = "tm"
				}
				cases = append(cases, xhCase{codec, cause, code, "tw", xhGenID(r, codec)})
			}
			// one-way requests and heartbeats
			if codec == "bolt" || codec == "boltv2" || codec == "dubbo" {
				for _, cause := range []string{"up", "nr", "nh", "to", "xr", "hj"} {
					code := causeCode[cause]
					if cause == "hj" {
						code = r.Pick(xhHijackCodes)
					}
					cases = append(cases, xhCase{codec, cause, code, "ow", xhGenID(r, codec)})
				}
				for _, cause := range []string{"up", "hj"} {
					code := 200
					if cause == "hj" {
						code = r.Pick(xhHijackCodes)
					}
					cases = append(cases, xhCase{codec, cause, code, "hb", xhGenID(r, codec)})
				}
			}
		}
	}
	seen := map[string]bool{}
	disturbed := 0
	for _, k := range cases {
		if disturbed >= 3 {
			break
		}
		line := k.line()
		if seen[line] {
			continue
		}
		seen[line] = true
		out := ""
		for try := 0; try < 3 && out == ""; try++ {
			msg, panicked := hx.Safe(func() { out = xhRun(k) })
			if panicked {
				out = "panic=" + hx.Tok(msg)
			}
			if out == "" {
				c.Count("xh.rerun")
				time.Sleep(40 * time.Millisecond)
			}
		}
		if out == "" {
			// never a silent drop: three runs in which the control exchange (a plain request the upstream answers) did not come
			// back with its id is an observation — the predicate rejects it. After three such cases the kind stops (a tree in
			// which nothing is answered any more would otherwise cost minutes).
			c.Count("xh.disturbed")
			disturbed++
			out = "disturbed"
		}
		c.Count("xh." + k.codec + "." + k.cause + "." + k.kind)
		c.Emit(prop, line, out)
	}
}
