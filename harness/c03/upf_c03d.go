//go:build verif

package c03

// proxy6 (B): an upstream reset that arrives while the worker runs the UpFilter phase — after the head of a streamed
// response was accepted (the codec keeps the client stream registered) and before anything was forwarded. A scripted
// sender filter resets the streamed attempt from inside the phase; processError then handles the reset at phase UpFilter.
//
//	upf <cfg> <amb> <code>:<dt>:<reason>[:R]  =>  trace=… ledger=… done=… tm=-
//
// proxy7: the case is compared with the downstream machine (label `reset during UpFilter`: Drive/C03.lean upfModel); the
// defect the kind was written for is fixed (mosn a3a21969e).
// `:R` = when a retry follows (retriable reason, budget left) the new attempt is answered 200 afterwards.

import (
	"fmt"
	"strings"
	"time"

	"mosn.io/api"
	v2 "mosn.io/mosn/pkg/config/v2"
	"mosn.io/mosn/pkg/types"
	"verif/harness/dsx"
	"verif/harness/hx"
	"verif/harness/px"
)

func RunUpf(c *hx.Ctx, prop string) {
	type cs struct {
		retryOn bool
		n       int
		reason  string
		dt      string
		code    int
	}
	var cases []cs
	for _, reason := range []string{types.StreamRemoteReset, types.StreamConnectionFailed, types.StreamConnectionTermination, types.StreamOverflow, types.UpstreamReset} {
		for _, dt := range []string{"10", "01", "11"} {
			for _, ron := range []bool{false, true} {
				if !c.Thorough() && c.Rng.Chance(40) {
					continue
				}
				cases = append(cases, cs{ron, c.Rng.Pick([]int{0, 1, 2}), reason, dt, c.Rng.Pick([]int{200, 200, 503})})
			}
		}
	}
	// c10t9: work list; a case observed too early (see below) is appended again, at most three runs each
	tries := make([]int, len(cases))
	order := make([]int, len(cases))
	for i := range order {
		order[i] = i
	}
	for oi := 0; oi < len(order); oi++ {
		ki := order[oi]
		k := cases[ki]
		cfg := dsx.Cfg{Route: "c", RetryOn: k.retryOn, N: k.n, LongGlobal: true}
		reason := k.reason
		fired := false
		flt := px.Filter{Phase: px.Send, Script: []px.Verdict{{Do: func(ex *px.Exchange, _ api.StreamReceiverFilterHandler, _ api.StreamSenderFilterHandler) {
			if fired {
				return
			}
			fired = true
			if as := ex.UpstreamAttempts(); len(as) > 0 {
				as[0].Reset(reason)
			}
		}}}}
		var opts []px.RouteOpt
		opts = append(opts, px.Timeout(5*time.Second))
		if k.retryOn || k.n > 0 {
			opts = append(opts, px.Retry(k.retryOn, uint32(k.n), 0))
		}
		f := px.New(px.Config{Clusters: []px.Cluster{{Name: "c", Hosts: 1}}, Routes: []v2.Router{px.Route("/", "c", opts...)}, Filters: []px.Filter{flt}})
		ex := f.Request(px.H(":path", "/a", ":authority", "svc"), nil, nil)
		a := ex.WaitAttempt(0)
		if a == nil { // c10t9: no attempt within 400 ms: wait on while the process is not calm (a parked proxy stays `skipped`)
			hx.PatientWait("upf first attempt", 400*time.Millisecond, 20*time.Second, nil, func() bool {
				a = ex.WaitAttemptFor(0, 0)
				return a != nil
			})
		}
		if a == nil || a.Failed != "" {
			c.Count("upf.skipped-no-attempt")
			f.Close()
			continue
		}
		ex.WaitQuiescent()
		rh, rb, rt := px.AnswerOf(0, k.dt[0] == '1', k.dt[1] == '1')
		a.RespondStreaming(k.code, rh, rb, rt)
		ex.WaitQuiescentFor(30 * time.Millisecond)
		tail := ""
		if as := ex.UpstreamAttempts(); len(as) > 1 && as[1].Failed == "" && as[1].Live() {
			h1, b1, t1 := px.AnswerOf(1, false, false)
			as[1].Respond(200, h1, b1, t1)
			ex.WaitQuiescentFor(30 * time.Millisecond)
			tail = ":R"
		}
		// c10t9: the two 30 ms windows above are quiescence windows (stretched by px with the observed overshoot of its own
		// polls), not conditions: a worker that was not scheduled during one of them moves the trace afterwards (the retry
		// after doRetry's 10 ms sleep, the answer to attempt 1). Confirm in a further window that nothing moves any more;
		// a trace that still moved was observed too early: the case is run again (at most three times), then dropped
		before, d0 := len(ex.Trace()), ex.Done()
		ex.WaitQuiescentFor(30 * time.Millisecond)
		if len(ex.Trace()) != before || ex.Done() != d0 {
			ex.ForgetProv()
			f.Close()
			if tries[ki]++; tries[ki] < 3 {
				c.Count("upf.skew.rerun")
				order = append(order, ki)
			} else {
				c.Count("upf.skew.dropped")
			}
			continue
		}
		var tr []string
		for _, t := range ex.Trace() {
			if !strings.HasPrefix(t, "f") {
				tr = append(tr, t)
			}
		}
		toks := ex.DownToks()
		if toks == nil {
			toks = []string{}
		}
		l := f.Ledger()
		done := "0"
		if ex.Done() {
			done = "1"
		}
		out := fmt.Sprintf("trace=%s ledger=%d,%d,%d,%d done=%s tm=-", dsx.CanonToks(tr, toks), l.Requests["c"], l.Retries["c"], l.UpActive["c"], l.DownActive, done)
		c.Emit(prop, fmt.Sprintf("upf %s %d:%s:%s%s", cfg.Tokens(), k.code, k.dt, k.reason, tail), out)
		c.Count("upf")
		c.Count("upf.reason=" + k.reason)
		if tail != "" {
			c.Count("upf.retried")
		}
		ex.ForgetProv()
		f.Close()
	}
}
