//go:build verif

package c13

import (
	"crypto/ecdsa"
	"crypto/elliptic"
	"crypto/rand"
	"crypto/x509"
	"crypto/x509/pkix"
	"net/url"
	"os"
	"path/filepath"
	"time"
)

// The process's "system root store" is made a KNOWN certificate authority: crypto/x509 loads the host's roots once, at
// the first use, from SSL_CERT_FILE / SSL_CERT_DIR. This init runs before any harness code verifies a certificate
// (package initialisation; nothing in the linked packages touches the system roots while initialising): it generates
// the authority `sysCA`, points SSL_CERT_FILE at its certificate and SSL_CERT_DIR at an empty directory, forces the one
// load, then removes the files and restores the environment. From then on x509.SystemCertPool() and every
// verification with Roots == nil see exactly {sysCA} in this process — a stand-in for "any CA of the host's store".
var (
	sysCA      *authority
	sysRootErr string
)

func init() {
	sysCA = newAuthority("verif system-store CA")
	dir, err := os.MkdirTemp("", "c13sys")
	if err != nil {
		sysRootErr = "mkdir: " + err.Error()
		return
	}
	defer os.RemoveAll(dir)
	empty := filepath.Join(dir, "certs")
	file := filepath.Join(dir, "roots.pem")
	if err := os.Mkdir(empty, 0o700); err != nil {
		sysRootErr = "mkdir: " + err.Error()
		return
	}
	if err := os.WriteFile(file, []byte(sysCA.pem), 0o600); err != nil {
		sysRootErr = "write: " + err.Error()
		return
	}
	oldF, hadF := os.LookupEnv("SSL_CERT_FILE")
	oldD, hadD := os.LookupEnv("SSL_CERT_DIR")
	os.Setenv("SSL_CERT_FILE", file)
	os.Setenv("SSL_CERT_DIR", empty)
	_, err = x509.SystemCertPool() // the one load of the system roots
	restore := func(k, v string, had bool) {
		if had {
			os.Setenv(k, v)
		} else {
			os.Unsetenv(k)
		}
	}
	restore("SSL_CERT_FILE", oldF, hadF)
	restore("SSL_CERT_DIR", oldD, hadD)
	if err != nil {
		sysRootErr = "SystemCertPool: " + err.Error()
	}
}

// sysStoreCheck verifies that the emulation is in force: with Roots == nil a certificate of sysCA verifies and a
// certificate of a private authority does not.
func sysStoreCheck(private *authority) string {
	if sysRootErr != "" {
		return sysRootErr
	}
	verify := func(ca *authority) error {
		lf := leaf(ca, "store.test", []string{"store.test"}, false)
		c, err := x509.ParseCertificate(lf.der)
		if err != nil {
			return err
		}
		_, err = c.Verify(x509.VerifyOptions{DNSName: "store.test"})
		return err
	}
	if err := verify(sysCA); err != nil {
		return "system-store authority not trusted: " + err.Error()
	}
	if verify(private) == nil {
		return "private authority trusted by the system store"
	}
	return ""
}

// leafFull issues a certificate with DNS names and URIs; ca == nil makes it self-signed.
func leafFull(ca *authority, cn string, sans []string, uris []string, notAfter time.Time) *leafCert {
	key, err := ecdsa.GenerateKey(elliptic.P256(), rand.Reader)
	if err != nil {
		panic(err)
	}
	tmpl := &x509.Certificate{
		SerialNumber: nextSerial(),
		Subject:      pkix.Name{CommonName: cn},
		DNSNames:     sans,
		NotBefore:    time.Now().Add(-3 * time.Hour),
		NotAfter:     notAfter,
		KeyUsage:     x509.KeyUsageDigitalSignature,
		ExtKeyUsage:  []x509.ExtKeyUsage{x509.ExtKeyUsageServerAuth, x509.ExtKeyUsageClientAuth},
	}
	for _, u := range uris {
		p, err := url.Parse(u)
		if err != nil {
			panic(err)
		}
		tmpl.URIs = append(tmpl.URIs, p)
	}
	parent, signer := tmpl, key
	if ca != nil {
		parent, signer = ca.cert, ca.key
	}
	der, err := x509.CreateCertificate(rand.Reader, tmpl, parent, &key.PublicKey, signer)
	if err != nil {
		panic(err)
	}
	kb, err := x509.MarshalECPrivateKey(key)
	if err != nil {
		panic(err)
	}
	return &leafCert{certPEM: pemOf("CERTIFICATE", der), keyPEM: pemOf("EC PRIVATE KEY", kb), der: der, key: key}
}
