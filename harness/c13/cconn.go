//go:build verif

package c13

// kind cconn (c13r8, no downgrade): the real clientConnection (network.NewClientConnection + Connect) with a real cluster
// TLS manager (mtls.NewTLSClientContextManager, fallback false / true, insecure_skip false / true) — or no manager / a
// manager with status=false — against a scripted upstream on loopback:
//   ok        speaks TLS with a certificate of the configured CA          wrongcert  certificate of another CA
//   alert     reads the ClientHello, answers a fatal handshake_failure    close      reads the ClientHello, closes (EOF)
//   reset     reads the ClientHello, resets the connection (linger 0)     garbage    answers plaintext HTTP
//   junk      answers random bytes (malformed stream) and closes          silent     accepts and never answers
//   partial   answers 3 bytes of a record header and stays silent         gone       alert, and the listener is gone for a re-dial
//   refused   nothing listens                                            plain      (no TLS configured) records what arrives
// The 15 s handshake deadline is shortened through the verif hook mtls.VerifSetHandshakeTimeout for the silent scripts.
// Every connection the upstream accepts after the first one only records what MOSN sends. After a Connect that
// reported success the harness writes a probe through the connection.
// line: cconn <script/variant> <mng> <enabled> <fallback> <hs class> <dial1> <dial2>
//          => <ok|fail> <event> <connections accepted by the upstream> <tlsdata|plaindata|none>

import (
	gotls "crypto/tls"
	"fmt"
	"net"
	"strings"
	"sync"
	"time"

	"mosn.io/api"
	v2 "mosn.io/mosn/pkg/config/v2"
	"mosn.io/mosn/pkg/mtls"
	"mosn.io/mosn/pkg/network"
	"mosn.io/mosn/pkg/types"
	"mosn.io/pkg/buffer"
	"verif/harness/hx"
)

const cconnProbe = "PROBE-c13-no-downgrade"

type cconnUp struct {
	ln     net.Listener
	script string
	cfg    *gotls.Config
	junk   []byte

	mu      sync.Mutex
	accepts int
	recv    []string
	conns   []net.Conn
	wg      sync.WaitGroup
}

func (u *cconnUp) note(s string) {
	u.mu.Lock()
	u.recv = append(u.recv, s)
	u.mu.Unlock()
}

func (u *cconnUp) snapshot() (int, string) {
	u.mu.Lock()
	defer u.mu.Unlock()
	out := "none"
	for _, r := range u.recv {
		if r == "plaindata" {
			out = r
		} else if r == "tlsdata" && out == "none" {
			out = r
		}
	}
	return u.accepts, out
}

// record: what MOSN sends on a connection the upstream treats as plaintext
func (u *cconnUp) record(conn net.Conn) {
	buf := make([]byte, 256)
	got := 0
	conn.SetReadDeadline(time.Now().Add(3 * time.Second))
	for got < len(cconnProbe) {
		n, err := conn.Read(buf[got:])
		got += n
		if err != nil {
			break
		}
		if got > 0 && buf[0] == 0x16 {
			break
		}
	}
	switch {
	case strings.HasPrefix(string(buf[:got]), cconnProbe):
		u.note("plaindata")
	case got > 0 && buf[0] == 0x16:
		u.note("hello")
	}
}

func (u *cconnUp) readHello(conn net.Conn) {
	buf := make([]byte, 4096)
	conn.SetReadDeadline(time.Now().Add(3 * time.Second))
	conn.Read(buf)
}

func (u *cconnUp) first(conn net.Conn) {
	switch u.script {
	case "plain":
		u.record(conn)
	case "ok", "wrongcert":
		srv := gotls.Server(conn, u.cfg)
		conn.SetDeadline(time.Now().Add(5 * time.Second))
		if srv.Handshake() != nil {
			return
		}
		buf := make([]byte, 256)
		got := 0
		for got < len(cconnProbe) {
			n, err := srv.Read(buf[got:])
			got += n
			if err != nil {
				break
			}
		}
		if strings.HasPrefix(string(buf[:got]), cconnProbe) {
			u.note("tlsdata")
		}
	case "alert", "gone":
		u.readHello(conn)
		if u.script == "gone" {
			u.ln.Close()
		}
		conn.Write([]byte{0x15, 0x03, 0x03, 0x00, 0x02, 0x02, 0x28})
	case "close":
		u.readHello(conn)
	case "reset":
		u.readHello(conn)
		if tc, ok := conn.(*net.TCPConn); ok {
			tc.SetLinger(0)
		}
	case "garbage":
		u.readHello(conn)
		conn.Write([]byte("HTTP/1.1 400 Bad Request\r\nConnection: close\r\n\r\n"))
	case "junk":
		u.readHello(conn)
		conn.Write(u.junk)
	case "silent":
		buf := make([]byte, 4096)
		conn.SetReadDeadline(time.Now().Add(5 * time.Second))
		for {
			if _, err := conn.Read(buf); err != nil {
				return
			}
		}
	case "partial":
		u.readHello(conn)
		conn.Write([]byte{0x16, 0x03, 0x03})
		buf := make([]byte, 4096)
		conn.SetReadDeadline(time.Now().Add(5 * time.Second))
		for {
			if _, err := conn.Read(buf); err != nil {
				return
			}
		}
	}
}

func (u *cconnUp) serve() {
	defer u.wg.Done()
	for {
		conn, err := u.ln.Accept()
		if err != nil {
			return
		}
		u.mu.Lock()
		idx := u.accepts
		u.accepts++
		u.conns = append(u.conns, conn)
		u.mu.Unlock()
		u.wg.Add(1)
		go func() {
			defer u.wg.Done()
			defer conn.Close()
			if idx == 0 {
				u.first(conn)
			} else {
				u.record(conn)
			}
		}()
	}
}

type cconnEvents struct {
	mu sync.Mutex
	ev []api.ConnectionEvent
}

func (e *cconnEvents) OnEvent(ev api.ConnectionEvent) {
	e.mu.Lock()
	e.ev = append(e.ev, ev)
	e.mu.Unlock()
}

func (e *cconnEvents) first() string {
	e.mu.Lock()
	defer e.mu.Unlock()
	if len(e.ev) == 0 {
		return "noevent"
	}
	switch e.ev[0] {
	case api.Connected:
		return "connected"
	case api.ConnectFailed:
		return "failed"
	case api.ConnectTimeout:
		return "timeout"
	case api.RemoteClose:
		return "rclose"
	}
	return "other"
}

type cconnCase struct {
	mng, enabled, fallback bool
	script                 string
	ins, tls13             bool
	junk                   []byte
}

var cconnSeq int

func cconnHs(cs cconnCase) (hs string, d1, d2 bool) {
	d1, d2 = true, true
	switch cs.script {
	case "ok", "plain":
		hs = "ok"
	case "wrongcert":
		hs = "badcert"
		if cs.ins {
			hs = "ok"
		}
	case "alert":
		hs = "alert"
	case "gone":
		hs, d2 = "alert", false
	case "close":
		hs = "eof"
	case "reset":
		hs = "reset"
	case "garbage", "junk":
		hs = "other"
	case "silent", "partial":
		hs = "timeout"
	case "refused":
		hs, d1, d2 = "ok", false, false
	}
	return
}

func runCconnCase(c *hx.Ctx, cs cconnCase, right, wrong *leafCert) {
	ln, err := net.Listen("tcp", "127.0.0.1:0")
	if err != nil {
		panic(err)
	}
	up := &cconnUp{ln: ln, script: cs.script, junk: cs.junk}
	if !cs.mng || !cs.enabled {
		if cs.script != "refused" {
			up.script = "plain"
		}
	}
	lc := right
	if cs.script == "wrongcert" {
		lc = wrong
	}
	up.cfg = &gotls.Config{Certificates: []gotls.Certificate{{Certificate: [][]byte{lc.der}, PrivateKey: lc.key}}, MaxVersion: gotls.VersionTLS12}
	if cs.tls13 {
		up.cfg.MaxVersion = gotls.VersionTLS13
	}
	if cs.script == "refused" {
		ln.Close()
	} else {
		up.wg.Add(1)
		go up.serve()
	}
	to := 10 * time.Second
	if cs.script == "silent" || cs.script == "partial" {
		to = 400 * time.Millisecond
	}
	old := mtls.VerifSetHandshakeTimeout(to)
	defer mtls.VerifSetHandshakeTimeout(old)

	var mng types.TLSClientContextManager
	if cs.mng {
		cconnSeq++
		cfg := &v2.TLSConfig{Status: cs.enabled, CACert: rightCA.pem, ServerName: "server.test", InsecureSkip: cs.ins, Fallback: cs.fallback}
		m, err := mtls.NewTLSClientContextManager(fmt.Sprintf("c13cc-%d", cconnSeq), cfg)
		if err != nil {
			panic(err)
		}
		if m.Enabled() != cs.enabled {
			panic("cconn: manager readiness differs from the configuration")
		}
		mng = m
	}
	var cc types.ClientConnection
	if mng == nil {
		cc = network.NewClientConnection(2*time.Second, nil, ln.Addr(), nil)
	} else {
		cc = network.NewClientConnection(2*time.Second, mng, ln.Addr(), nil)
	}
	ev := &cconnEvents{}
	cc.AddConnectionEventListener(ev)
	var cerr error
	msg, panicked := hx.Safe(func() { cerr = cc.Connect() })
	res := "ok"
	if panicked {
		res = "panic"
		_ = msg
	} else if cerr != nil {
		res = "fail"
	}
	if res == "ok" {
		hx.Safe(func() { cc.Write(buffer.NewIoBufferString(cconnProbe)) })
		// the probe arrives somewhere (TLS or plaintext) or nowhere
		deadline := time.Now().Add(3 * time.Second)
		for time.Now().Before(deadline) {
			if _, r := up.snapshot(); r != "none" {
				break
			}
			time.Sleep(2 * time.Millisecond)
		}
	} else if cs.script != "refused" {
		// the first connection was accepted by the kernel; let the accept loop see it
		deadline := time.Now().Add(3 * time.Second)
		for time.Now().Before(deadline) {
			if n, _ := up.snapshot(); n >= 1 {
				break
			}
			time.Sleep(2 * time.Millisecond)
		}
	}
	time.Sleep(20 * time.Millisecond)
	accepts, recv := up.snapshot()
	if res == "ok" {
		hx.Safe(func() { cc.Close(api.NoFlush, api.LocalClose) })
	}
	ln.Close()
	up.mu.Lock()
	for _, x := range up.conns {
		x.Close()
	}
	up.mu.Unlock()
	up.wg.Wait()

	hs, d1, d2 := cconnHs(cs)
	ver := "tls12"
	if cs.tls13 {
		ver = "tls13"
	}
	cls := fmt.Sprintf("%s/%s/ins%s", cs.script, ver, b01(cs.ins))
	if cs.script == "junk" {
		cls += "/" + hx.Hex(cs.junk)
	}
	c.Emit("C13", fmt.Sprintf("cconn %s %s %s %s %s %s %s", cls, b01(cs.mng), b01(cs.enabled), b01(cs.fallback), hs, b01(d1), b01(d2)),
		fmt.Sprintf("%s %s %d %s", res, ev.first(), accepts, recv))
	tlsOn := cs.mng && cs.enabled
	c.Count(fmt.Sprintf("cconn.script=%s.tls=%s.fallback=%s", cs.script, b01(tlsOn), b01(cs.fallback)))
	c.Count(fmt.Sprintf("cconn.hs=%s.result=%s.recv=%s", hs, res, recv))
}

func runClientConnect(c *hx.Ctx, g *gen) {
	right := leaf(rightCA, "server.test", []string{"server.test"}, false)
	wrong := leaf(otherCA, "server.test", []string{"server.test"}, false)
	scripts := []string{"ok", "wrongcert", "alert", "close", "reset", "garbage", "silent", "partial", "gone"}
	// the whole matrix of a TLS cluster
	for _, fb := range []bool{false, true} {
		for _, ins := range []bool{false, true} {
			for _, t13 := range []bool{false, true} {
				for _, sc := range scripts {
					if (sc == "partial" || sc == "gone") && ins && !c.Thorough() {
						continue
					}
					runCconnCase(c, cconnCase{mng: true, enabled: true, fallback: fb, script: sc, ins: ins, tls13: t13}, right, wrong)
				}
			}
		}
	}
	// no TLS configured: no manager / status=false manager (with and without the fallback flag), nothing listening
	for _, fb := range []bool{false, true} {
		runCconnCase(c, cconnCase{mng: false, enabled: false, fallback: fb, script: "plain"}, right, wrong)
		runCconnCase(c, cconnCase{mng: true, enabled: false, fallback: fb, script: "plain"}, right, wrong)
		runCconnCase(c, cconnCase{mng: true, enabled: true, fallback: fb, script: "refused"}, right, wrong)
		runCconnCase(c, cconnCase{mng: false, enabled: false, fallback: fb, script: "refused"}, right, wrong)
	}
	// malformed stream: random answers to the ClientHello (random bytes, damaged record headers, random alerts)
	for i := 0; i < c.N(24, 160); i++ {
		var junk []byte
		switch g.r.Intn(4) {
		case 0:
			junk = g.r.Bytes(1 + g.r.Intn(40))
		case 1: // a record header of a random type / version / length followed by too little
			junk = append([]byte{byte(0x14 + g.r.Intn(5)), 0x03, byte(g.r.Intn(5)), byte(g.r.Intn(2)), byte(g.r.Intn(256))}, g.r.Bytes(g.r.Intn(12))...)
		case 2: // a random alert
			junk = []byte{0x15, 0x03, 0x03, 0x00, 0x02, byte(1 + g.r.Intn(2)), byte(g.r.Intn(120))}
		default: // a handshake record that is not a ServerHello
			body := g.r.Bytes(4 + g.r.Intn(30))
			junk = append([]byte{0x16, 0x03, 0x03, 0x00, byte(len(body))}, body...)
		}
		if len(junk) >= 7 && junk[0] == 0x15 && junk[5] == 1 && junk[6] == 0 {
			junk[6] = 40 // a close_notify warning would be an EOF, keep the class
		}
		runCconnCase(c, cconnCase{mng: true, enabled: true, fallback: g.r.Chance(30), script: "junk", ins: g.r.Bool(), tls13: g.r.Bool(), junk: junk}, right, wrong)
	}
}
