//go:build verif

package c13

// kind sdsu: ONE sds-backed TLS context under a history of configuration updates and secret pushes.
//   direction l: a listener with contexts [static default.sdsu.test, sds]; every update builds a new
//                mtls.NewTLSServerContextManager for the SAME listener name (what AddOrUpdateListener does), which reaches
//                the shared sdsProvider `server_<listener>` through NewProvider -> addOrUpdateProvider -> updateConfig.
//   direction c: a cluster's mtls.NewTLSClientContextManager for the SAME cluster name (`client_<cluster>`).
// Operations: U<policy> (update; the first one creates), S<k> (the sds server delivers certificate number k; the
// validation secret comes with the first one), E (a push without certificate), H<…> (a real handshake against the
// LATEST manager with a reference crypto/tls peer). The policy fields are those OUTSIDE the tls.Config template:
// verify_client / require_client_cert / server_name (listener), insecure_skip / server_name / extension type (cluster).
// Observed at each H: which certificate answered and whether the handshake succeeded.

import (
	"bytes"
	gotls "crypto/tls"
	"fmt"
	"strings"
	"time"

	v2 "mosn.io/mosn/pkg/config/v2"
	"mosn.io/mosn/pkg/mtls"
	"mosn.io/mosn/pkg/types"
	"verif/harness/hx"
)

const (
	sdsuDefaultCN = "default.sdsu.test"
	sdsuCertCN    = "cert.sdsu.test"
)

var sdsuSNI = map[byte]string{'c': sdsuCertCN, 'a': "a.sdsu.test", 'b': "b.sdsu.test", 'n': "none.sdsu.test", 'd': sdsuDefaultCN}
var sdsuSname = map[byte]string{'0': "", 'a': "a.sdsu.test", 'b': "b.sdsu.test"}

var sdsuSeq int
var sdsuServerCerts map[string]*leafCert

type sdsuRun struct {
	dir      byte
	name     string
	certName string
	valName  string
	static   *leafCert
	secrets  map[int]*leafCert
	valSent  bool
	smng     types.TLSContextManager
	cmng     types.TLSClientContextManager
}

func (r *sdsuRun) sdsCfg() *v2.SdsConfig {
	return &v2.SdsConfig{CertificateConfig: &v2.SecretConfigWrapper{Name: r.certName}, ValidationConfig: &v2.SecretConfigWrapper{Name: r.valName}}
}

func (r *sdsuRun) update(pol string) error {
	if r.dir == 'l' {
		tcs := []v2.TLSConfig{
			{Status: true, CertChain: r.static.certPEM, PrivateKey: r.static.keyPEM},
			{Status: true, VerifyClient: pol[0] == '1', RequireClientCert: pol[1] == '1', ServerName: sdsuSname[pol[2]], SdsConfig: r.sdsCfg()},
		}
		ln := &v2.Listener{ListenerConfig: v2.ListenerConfig{Name: r.name, FilterChains: []v2.FilterChain{{TLSContexts: tcs}}}}
		m, err := mtls.NewTLSServerContextManager(ln)
		if err != nil {
			return err
		}
		r.smng = m
		return nil
	}
	cfg := &v2.TLSConfig{Status: true, InsecureSkip: pol[0] == '1', SdsConfig: r.sdsCfg()}
	if pol[1] == '1' {
		cfg.ServerName = "server.test"
	}
	if pol[2] == '1' {
		cfg.Type = hookType
	}
	m, err := mtls.NewTLSClientContextManager(r.name, cfg)
	if err != nil {
		return err
	}
	r.cmng = m
	return nil
}

func (r *sdsuRun) push(k int) {
	if !r.valSent {
		sdsClient.SetSecret(r.valName, &types.SdsSecret{Name: r.valName, ValidationPEM: rightCA.pem})
		r.valSent = true
	}
	lc := r.secrets[k]
	if lc == nil {
		lc = leaf(rightCA, sdsuCertCN, []string{sdsuCertCN}, false)
		r.secrets[k] = lc
	}
	sdsClient.SetSecret(r.certName, &types.SdsSecret{Name: r.certName, CertificatePEM: lc.certPEM, PrivateKeyPEM: lc.keyPEM})
}

func (r *sdsuRun) which(der []byte) string {
	if bytes.Equal(der, r.static.der) {
		return "d"
	}
	for k, lc := range r.secrets {
		if bytes.Equal(der, lc.der) {
			return fmt.Sprintf("s%d", k)
		}
	}
	return "unknown"
}

func (r *sdsuRun) probeListener(l *loop, sni, pk string, v12 bool) string {
	ccfg := &gotls.Config{ServerName: sni, InsecureSkipVerify: true}
	if v12 {
		ccfg.MaxVersion = gotls.VersionTLS12
	}
	withPeer(ccfg, pk)
	peer, _, serr := handshake(l, r.smng, ccfg)
	w := "err"
	if peer != nil {
		w = r.which(peer)
	}
	if serr != nil {
		return w + ".fail"
	}
	return w + ".ok"
}

func (r *sdsuRun) probeCluster(l *loop, sk string, hok bool, v12 bool) string {
	if !r.cmng.Enabled() {
		return "pending"
	}
	hookVerdict = hok
	lc := sdsuServerCerts[sk]
	scfg := &gotls.Config{Certificates: []gotls.Certificate{{Certificate: [][]byte{lc.der}, PrivateKey: lc.key}}, ClientAuth: gotls.RequestClientCert}
	if v12 {
		scfg.MaxVersion = gotls.VersionTLS12
	}
	cc, sc := l.pair()
	cc.SetDeadline(time.Now().Add(hsTimeout))
	sc.SetDeadline(time.Now().Add(hsTimeout))
	seen := make(chan string, 1)
	go func() {
		srv := gotls.Server(sc, scfg)
		out := "none"
		if srv.Handshake() == nil {
			if pcs := srv.ConnectionState().PeerCertificates; len(pcs) > 0 {
				out = strings.TrimPrefix(r.which(pcs[0].Raw), "s")
			}
			b := make([]byte, 1)
			srv.Read(b)
		} else {
			out = "hsfail"
		}
		sc.Close()
		seen <- out
	}()
	conn, err := r.cmng.Conn(cc)
	res := "ok"
	if err != nil {
		res = "fail"
	} else if _, ok := conn.(*mtls.TLSConn); !ok {
		res = "notls"
	}
	cc.Close()
	k := <-seen
	if res == "ok" {
		return "ok." + k
	}
	return res
}

// runSdsu executes one history. ops: tokens as printed.
func runSdsu(c *hx.Ctx, l *loop, dir byte, ops []string, v12 bool) {
	sdsInit()
	peersInit()
	if sdsuServerCerts == nil {
		sdsuServerCerts = map[string]*leafCert{
			"right":     leaf(rightCA, "server.test", []string{"server.test"}, false),
			"self":      leaf(nil, "server.test", []string{"server.test"}, false),
			"other":     leaf(otherCA, "server.test", []string{"server.test"}, false),
			"expired":   leaf(rightCA, "server.test", []string{"server.test"}, true),
			"wrongname": leaf(rightCA, "elsewhere.test", []string{"elsewhere.test"}, false),
		}
	}
	sdsuSeq++
	r := &sdsuRun{dir: dir, name: fmt.Sprintf("sdsu%d", sdsuSeq), certName: fmt.Sprintf("sdsu%d-cert", sdsuSeq), valName: fmt.Sprintf("sdsu%d-val", sdsuSeq),
		secrets: map[int]*leafCert{}}
	if dir == 'l' {
		r.static = leaf(rightCA, sdsuDefaultCN, []string{sdsuDefaultCN}, false)
	} else {
		r.static = &leafCert{}
	}
	var obs []string
	for _, op := range ops {
		switch op[0] {
		case 'U':
			if err := r.update(op[1:]); err != nil {
				c.Count("sdsu.update-error")
				return
			}
		case 'S':
			var k int
			fmt.Sscanf(op[1:], "%d", &k)
			r.push(k)
		case 'E':
			sdsClient.SetSecret(r.certName, &types.SdsSecret{Name: r.certName})
		case 'H':
			p := strings.SplitN(op[1:], ".", 2)
			var o string
			if dir == 'l' {
				o = r.probeListener(l, sdsuSNI[p[0][0]], p[1], v12)
			} else {
				o = r.probeCluster(l, p[0], p[1] == "1", v12)
			}
			obs = append(obs, o)
			c.Count("sdsu." + string(dir) + ".obs=" + strings.TrimRight(o, "0123456789"))
		}
	}
	c.Emit("C13", fmt.Sprintf("sdsu %c %s", dir, strings.Join(ops, "|")), strings.Join(obs, ","))
	c.Count("sdsu.dir=" + string(dir))
}

var sdsuLPols = []string{"000", "010", "100", "110", "00a", "00b", "11a", "01b", "10a"}
var sdsuCPols = []string{"010", "110", "000", "100", "011", "111", "001"}

func (g *gen) sdsuProbe(dir byte) string {
	if dir == 'l' {
		sni := "ccccccabnd"[g.r.Intn(10)]
		return fmt.Sprintf("H%c.%s", sni, g.r.PickS(peerKinds))
	}
	return fmt.Sprintf("H%s.%s", g.r.PickS(serverKinds), b01(g.r.Bool()))
}

// flip one policy field of pol (a policy-only update)
func (g *gen) sdsuFlip(dir byte, pol string) string {
	b := []byte(pol)
	i := g.r.Intn(3)
	if dir == 'l' && i == 2 {
		b[2] = "0ab"[(strings.IndexByte("0ab", b[2])+1+g.r.Intn(2))%3]
	} else if b[i] == '0' {
		b[i] = '1'
	} else {
		b[i] = '0'
	}
	return string(b)
}

// runSdsuFixed: the boundary histories — create, secrets delivered, a policy-only update of EACH field alone, a
// handshake BEFORE any new push, a push, a handshake again; both directions.
func runSdsuFixed(c *hx.Ctx, l *loop) {
	type fx struct {
		dir      byte
		from, to string
		probes   []string
	}
	var fs []fx
	lp := []string{"Hc.none", "Hc.right", "Hc.other", "Ha.none", "Hb.self", "Hn.none"}
	for _, ft := range [][2]string{{"000", "010"}, {"000", "100"}, {"000", "110"}, {"110", "000"}, {"010", "000"}, {"100", "110"},
		{"000", "00a"}, {"00a", "00b"}, {"00a", "000"}, {"11a", "11b"}, {"01a", "00a"}} {
		fs = append(fs, fx{'l', ft[0], ft[1], lp})
	}
	cp := []string{"Hright.1", "Hother.0", "Hwrongname.1", "Hself.0", "Hright.0"}
	for _, ft := range [][2]string{{"010", "110"}, {"110", "010"}, {"010", "000"}, {"000", "010"}, {"010", "011"}, {"011", "010"}, {"011", "111"}, {"100", "000"}} {
		fs = append(fs, fx{'c', ft[0], ft[1], cp})
	}
	for _, f := range fs {
		for _, v12 := range []bool{false, true} {
			ops := []string{"U" + f.from}
			ops = append(ops, f.probes[0])
			ops = append(ops, "S1")
			ops = append(ops, f.probes...)
			ops = append(ops, "U"+f.to)
			ops = append(ops, f.probes...)
			ops = append(ops, "S2")
			ops = append(ops, f.probes...)
			runSdsu(c, l, f.dir, ops, v12)
			c.Count("sdsu.fixed")
		}
	}
	// the secret is known before the first configuration (warm pem provider is not reachable here: same effect by S first),
	// an update before any secret, an empty push
	runSdsu(c, l, 'l', []string{"U000", "U110", "Hc.none", "S1", "Hc.none", "E", "Hc.none", "U000", "Hc.none", "E", "Hc.none"}, false)
	runSdsu(c, l, 'c', []string{"U010", "U000", "Hright.0", "S1", "Hright.0", "E", "Hright.0", "U110", "Hother.0", "E", "Hother.0"}, false)
}

func runSdsuRandom(c *hx.Ctx, g *gen, l *loop) {
	dir := byte('l')
	pols := sdsuLPols
	if g.r.Chance(40) {
		dir, pols = 'c', sdsuCPols
	}
	pol := g.r.PickS(pols)
	ops := []string{"U" + pol}
	k := 0
	if g.r.Chance(80) {
		// mostly: the secrets are delivered (Ready) before the updates that matter
		k++
		ops = append(ops, "S1")
	}
	n := 3 + g.r.Intn(6)
	for i := 0; i < n; i++ {
		switch x := g.r.Intn(100); {
		case x < 45:
			if g.r.Chance(70) {
				pol = g.sdsuFlip(dir, pol)
			} else {
				pol = g.r.PickS(pols)
			}
			ops = append(ops, "U"+pol)
			// a handshake right after the update, before anything else
			ops = append(ops, g.sdsuProbe(dir))
		case x < 70:
			k++
			ops = append(ops, fmt.Sprintf("S%d", k))
		case x < 76:
			ops = append(ops, "E")
		default:
			ops = append(ops, g.sdsuProbe(dir))
		}
	}
	ops = append(ops, g.sdsuProbe(dir))
	runSdsu(c, l, dir, ops, g.r.Bool())
}
