//go:build verif

package c13

// kind odst: the accept path of a listener with use_original_dst on the REAL connection handler. Three listeners are
// added through ListenerAdapter.AddOrUpdateListener: A accepts on loopback (use_original_dst redirect / tproxy / off),
// B is the listener of another ip:port (not bound, like Istio's virtual listeners), C listens on 0.0.0.0:<port> (the
// fallback listener of that port). The original destination getRedirectAddr reports is scripted per client address
// through the add-only verif hook originaldst.VerifSetOriginalDst (SO_ORIGINAL_DST cannot succeed on plain loopback):
//   m = B's ip:port (another listener matches), l = another ip with C's port (0.0.0.0 fallback matches),
//   s = nothing matches (the connection stays on A), f = the lookup fails, r = not scripted (the real getsockopt)
// Every listener has its own TLS contexts (or none), its own inspector flag, its own certificate and an echo network
// filter answering with the listener's mark. A plaintext client (first byte G / 0x16 …) and a TLS client connect:
// observed = which listener served, in plaintext or TLS, which certificate was presented.

import (
	"bytes"
	"context"
	gotls "crypto/tls"
	"crypto/x509"
	"errors"
	"fmt"
	"io"
	"net"
	"strings"
	"sync"
	"time"

	"mosn.io/api"
	v2 "mosn.io/mosn/pkg/config/v2"
	"mosn.io/mosn/pkg/filter/listener/originaldst"
	"mosn.io/pkg/buffer"
	"verif/harness/hx"
)

const odstFilter = "verif_c13_odst_echo"

type odstFactory struct{ mark string }

func (f odstFactory) CreateFilterChain(ctx context.Context, cb api.NetWorkFilterChainFactoryCallbacks) {
	cb.AddReadFilter(&odstRead{mark: f.mark})
}

type odstRead struct {
	cb   api.ReadFilterCallbacks
	mark string
}

func (f *odstRead) OnData(buf api.IoBuffer) api.FilterStatus {
	b := append([]byte("ECHO:"+f.mark+":"), buf.Bytes()...)
	buf.Drain(buf.Len())
	f.cb.Connection().Write(buffer.NewIoBufferBytes(b))
	return api.Stop
}
func (f *odstRead) OnNewConnection() api.FilterStatus                        { return api.Continue }
func (f *odstRead) InitializeReadFilterCallbacks(cb api.ReadFilterCallbacks) { f.cb = cb }

var (
	odstOnce   sync.Once
	odstMu     sync.Mutex
	odstScript = map[string]string{} // client address -> outcome
	odstDst    = map[string][2]interface{}{}
	odstSeq    int
)

func odstInit() {
	updInit()
	odstOnce.Do(func() {
		api.RegisterNetwork(odstFilter, func(cfg map[string]interface{}) (api.NetworkFilterChainFactory, error) {
			m, _ := cfg["mark"].(string)
			return odstFactory{mark: m}, nil
		})
		originaldst.VerifSetOriginalDst(func(conn net.Conn) (string, int, error, bool) {
			odstMu.Lock()
			defer odstMu.Unlock()
			d, ok := odstDst[conn.RemoteAddr().String()]
			if !ok {
				return "", 0, nil, false
			}
			if d[0] == nil {
				return "", 0, errors.New("scripted: no original destination"), true
			}
			return d[0].(string), d[1].(int), nil, true
		})
	})
}

type odstL struct {
	mark string
	tls  bool
	insp bool
	cert *leafCert
}

func (o *odstL) tok() string { return b01(o.tls) + b01(o.insp) }

func odstCfg(name string, o *odstL, addr net.Addr, ln net.Listener, od v2.OriginalDstType) *v2.Listener {
	var tcs []v2.TLSConfig
	if o.tls {
		o.cert = leaf(rightCA, o.mark+".odst.test", []string{o.mark + ".odst.test"}, false)
		tcs = []v2.TLSConfig{{Status: true, CertChain: o.cert.certPEM, PrivateKey: o.cert.keyPEM}}
	}
	lc := &v2.Listener{
		ListenerConfig: v2.ListenerConfig{
			Name: name, AddrConfig: addr.String(), BindToPort: ln != nil, Network: "tcp", Inspector: o.insp, OriginalDst: od,
			FilterChains: []v2.FilterChain{{
				FilterChainConfig: v2.FilterChainConfig{Filters: []v2.Filter{{Type: odstFilter, Config: map[string]interface{}{"mark": o.mark}}}},
				TLSContexts:       tcs,
			}},
		},
		Addr: addr,
	}
	if ln != nil {
		lc.InheritListener = ln
	}
	return lc
}

// odstDial connects from a fresh local address whose original destination is scripted beforehand.
func odstDial(addr string, dst [2]interface{}, scripted bool) (net.Conn, error) {
	// reserve a local port, script it, then dial from it
	for try := 0; try < 5; try++ {
		tmp, err := net.Listen("tcp", "127.0.0.1:0")
		if err != nil {
			return nil, err
		}
		la := tmp.Addr().(*net.TCPAddr)
		tmp.Close()
		if scripted {
			odstMu.Lock()
			odstDst[la.String()] = dst
			odstMu.Unlock()
		}
		d := net.Dialer{LocalAddr: la, Timeout: updWait}
		c, err := d.Dial("tcp", addr)
		if err == nil {
			return c, nil
		}
	}
	return nil, errors.New("no local port")
}

func odstParseEcho(got []byte, payload []byte) string {
	s := string(got)
	if !strings.HasPrefix(s, "ECHO:") {
		return "garbage"
	}
	rest := s[len("ECHO:"):]
	i := strings.IndexByte(rest, ':')
	if i < 0 {
		return "garbage"
	}
	if !bytes.Equal([]byte(rest[i+1:]), payload) {
		return rest[:i] + "-corrupt"
	}
	return rest[:i]
}

func odstRead1(c net.Conn, payload []byte) (string, bool) {
	want := len("ECHO:x:") + len(payload)
	got := make([]byte, want)
	n, err := io.ReadFull(c, got)
	if n == want {
		return odstParseEcho(got, payload), false
	}
	if ne, ok := err.(net.Error); ok && ne.Timeout() {
		return "", true
	}
	return "", false
}

// runOdstCase: outcome m|l|s|f|r, type of A (redirect / tproxy / off).
func runOdstCase(c *hx.Ctx, od string, outcome byte, a, b, cc *odstL, first int, v12 bool, cls string) {
	odstInit()
	odstSeq++
	a.mark, b.mark, cc.mark = "a", "b", "c"
	ln, err := net.Listen("tcp", "127.0.0.1:0")
	if err != nil {
		panic(err)
	}
	pb, pc := 20000+(odstSeq*2)%10000, 20001+(odstSeq*2)%10000
	names := []string{fmt.Sprintf("odst%d-a", odstSeq), fmt.Sprintf("odst%d-b", odstSeq), fmt.Sprintf("odst%d-c", odstSeq)}
	var odt v2.OriginalDstType
	switch od {
	case "redirect":
		odt = v2.REDIRECT
	case "tproxy":
		odt = v2.TPROXY
	}
	cfgs := []*v2.Listener{
		odstCfg(names[0], a, ln.Addr(), ln, odt),
		odstCfg(names[1], b, &net.TCPAddr{IP: net.ParseIP("127.0.0.9"), Port: pb}, nil, ""),
		odstCfg(names[2], cc, &net.TCPAddr{IP: net.ParseIP("0.0.0.0"), Port: pc}, nil, ""),
	}
	// the accepting listener is added last: the lookup walks B and C first or last depending on the order — vary it
	order := []int{0, 1, 2}
	if odstSeq%2 == 0 {
		order = []int{1, 2, 0}
	}
	for _, i := range order {
		if err := updLA.AddOrUpdateListener(updServer, cfgs[i]); err != nil {
			c.Count("odst.add-error")
			ln.Close()
			return
		}
	}
	defer func() {
		for _, n := range names {
			updLA.DeleteListener(updServer, n)
		}
		odstMu.Lock()
		odstDst = map[string][2]interface{}{}
		odstMu.Unlock()
	}()
	var dst [2]interface{}
	scripted := true
	switch outcome {
	case 'm':
		dst = [2]interface{}{"127.0.0.9", pb}
	case 'l':
		dst = [2]interface{}{"10.9.8.7", pc}
	case 's':
		dst = [2]interface{}{"10.9.8.7", 9}
	case 'f':
		dst = [2]interface{}{nil, 0}
	case 'r':
		scripted = false
	}
	addr := ln.Addr().String()
	payload := []byte{byte(first)}
	if first == 0x16 {
		payload = append(payload, 0xff, 0xff, 0x00, 0x05, 'h', 'e', 'l', 'l', 'o')
	} else {
		payload = append(payload, []byte("ET /odst HTTP/1.1\r\n\r\n")...)
	}
	// plaintext client
	plain := "refused"
	for try := 0; try < 3; try++ {
		conn, err := odstDial(addr, dst, scripted)
		if err != nil {
			plain = "noconn"
			break
		}
		conn.SetDeadline(time.Now().Add(updWait))
		conn.Write(payload)
		who, timeout := odstRead1(conn, payload)
		conn.Close()
		if timeout {
			plain = "timeout"
			c.Count("odst.probe-timeout.plain")
			continue
		}
		if who != "" {
			plain = "plain." + who
		} else {
			plain = "refused"
		}
		break
	}
	// TLS client
	tlsr := "fail"
	for try := 0; try < 3; try++ {
		conn, err := odstDial(addr, dst, scripted)
		if err != nil {
			tlsr = "noconn"
			break
		}
		conn.SetDeadline(time.Now().Add(updWait))
		var peer []byte
		ccfg := &gotls.Config{ServerName: "x.odst.test", InsecureSkipVerify: true,
			VerifyPeerCertificate: func(raw [][]byte, _ [][]*x509.Certificate) error {
				if len(raw) > 0 {
					peer = raw[0]
				}
				return nil
			}}
		if v12 {
			ccfg.MaxVersion = gotls.VersionTLS12
		}
		tc := gotls.Client(conn, ccfg)
		isTimeout := func(err error) bool { ne, ok := err.(net.Error); return ok && ne.Timeout() }
		err = tc.Handshake()
		if err != nil {
			conn.Close()
			if isTimeout(err) {
				tlsr = "timeout"
				c.Count("odst.probe-timeout.tls")
				continue
			}
			tlsr = "fail"
			break
		}
		msg := []byte("ping over tls")
		tc.Write(msg)
		who, timeout := odstRead1(tc, msg)
		conn.Close()
		if timeout {
			tlsr = "timeout"
			continue
		}
		cert := "unknown"
		for _, o := range []*odstL{a, b, cc} {
			if o.cert != nil && bytes.Equal(o.cert.der, peer) {
				cert = o.mark
			}
		}
		if who == "" {
			who = "noecho"
		}
		tlsr = "tls." + cert + "." + who
		break
	}
	if plain == "timeout" || tlsr == "timeout" {
		c.Count("odst.dropped-no-verdict")
		return
	}
	c.Emit("C13", fmt.Sprintf("odst %s %s %c %s %s %s %d", cls, od, outcome, a.tok(), b.tok(), cc.tok(), first), plain+" "+tlsr)
	c.Count("odst.outcome=" + od + "/" + string(outcome))
	c.Count("odst.plain=" + strings.SplitN(plain, ".", 2)[0])
	c.Count("odst.tls=" + strings.SplitN(tlsr, ".", 2)[0])
}

// runOdst: the full matrix {type of A} x {outcome} x {A: tls, inspector} x {target: tls, inspector} x {first byte G, 0x16},
// then random cases with random first bytes.
func runOdst(c *hx.Ctx, g *gen) {
	bools := []bool{false, true}
	for _, od := range []string{"redirect", "tproxy", "off"} {
		outcomes := "mlsfr"
		if od != "redirect" {
			outcomes = "r" // the script is only read on the redirect path
		}
		for _, oc := range []byte(outcomes) {
			for _, at := range bools {
				for _, ai := range bools {
					for _, tt := range bools {
						for _, ti := range bools {
							if (oc != 'm' && oc != 'l') && (tt || ti) && od == "redirect" {
								continue // no target listener is involved
							}
							if od != "redirect" && (tt || ti) {
								continue
							}
							for _, fb := range []int{'G', 0x16} {
								a := &odstL{tls: at, insp: ai}
								b := &odstL{tls: tt, insp: ti}
								cc := &odstL{tls: tt, insp: ti}
								// the listener that is NOT the target has the opposite TLS setting: a wrap by the wrong
								// listener shows as its certificate
								if oc == 'm' {
									cc = &odstL{tls: !tt, insp: !ti}
								} else if oc == 'l' {
									b = &odstL{tls: !tt, insp: !ti}
								}
								runOdstCase(c, od, oc, a, b, cc, fb, fb == 'G', "fixed")
							}
						}
					}
				}
			}
		}
	}
	for i := 0; i < c.N(40, 300); i++ {
		od := "redirect"
		if g.r.Chance(10) {
			od = g.r.PickS([]string{"tproxy", "off"})
		}
		oc := "mmmlllssffr"[g.r.Intn(11)]
		if od != "redirect" {
			oc = 'r'
		}
		mk := func() *odstL { return &odstL{tls: g.r.Chance(65), insp: g.r.Chance(40)} }
		runOdstCase(c, od, oc, mk(), mk(), mk(), updFirsts[g.r.Intn(len(updFirsts))], g.r.Bool(), "rnd")
	}
}
