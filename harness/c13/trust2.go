//go:build verif

package c13

import (
	gotls "crypto/tls"
	"fmt"
	"os"
	"path/filepath"
	"strings"
	"time"

	v2 "mosn.io/mosn/pkg/config/v2"
	"mosn.io/mosn/pkg/mtls"
	_ "mosn.io/mosn/pkg/mtls/extensions/sni" // registers the sni_verify ConfigHooks factory
	"mosn.io/mosn/pkg/types"
	"verif/harness/hx"
)

// Trust anchors: the authorities of the case lines.
//
//	0 rightCA   configured in most cases
//	1 secondCA  configured together with 0 in the bundle cases (a ca_cert with two certificates), alone in one
//	2 otherCA   a private authority that is never configured and not in the host's store
//	3 sysCA     THE authority of the process's (emulated) system root store, see sysroots.go
//	9           a self-signed certificate (its own issuer)
const (
	idRight  = 0
	idSecond = 1
	idOther  = 2
	idSys    = 3
	idSelf   = 9
)

var secondCA *authority

func authorityOf(id int) *authority {
	switch id {
	case idRight:
		return rightCA
	case idSecond:
		return secondCA
	case idOther:
		return otherCA
	case idSys:
		return sysCA
	}
	return nil // self-signed
}

type caCfg struct {
	tok  string // authorities of the ca_cert, as on the case line
	ids  []int
	file bool // ca_cert is given as a file name, not inline PEM
	sds  bool // the certificate and the validation context arrive by SDS (listener direction only)
}

var caCfgs = []caCfg{
	{"-", nil, false, false},
	{"0", []int{idRight}, false, false},
	{"0", []int{idRight}, true, false},
	{"0+1", []int{idRight, idSecond}, false, false},
	{"1", []int{idSecond}, false, false},
	{"3", []int{idSys}, false, false},
	{"2+3", []int{idOther, idSys}, true, false},
	{"0+1", []int{idRight, idSecond}, false, true},
}

// caString renders the ca_cert of a configuration (inline PEM or a file under dir).
func (k caCfg) caString(dir string) string {
	var sb strings.Builder
	for _, id := range k.ids {
		sb.WriteString(authorityOf(id).pem)
	}
	if !k.file || len(k.ids) == 0 {
		return sb.String()
	}
	p := filepath.Join(dir, "ca-"+strings.ReplaceAll(k.tok, "+", "_")+".pem")
	if err := os.WriteFile(p, []byte(sb.String()), 0o600); err != nil {
		panic(err)
	}
	return p
}

func (k caCfg) cls() string {
	if k.sds {
		return "sds"
	}
	if k.file {
		return "file"
	}
	return "pem"
}

var t2Seq int

const storeTok = "3" // the host's root store of this process: {sysCA}

type peer2 struct {
	name    string
	issuer  int
	expired bool
	stolen  bool
	cert    *gotls.Certificate
}

func (p *peer2) tok() string {
	if p.cert == nil {
		return "none"
	}
	e, k := "v", "k"
	if p.expired {
		e = "e"
	}
	if p.stolen {
		k = "s"
	}
	return fmt.Sprintf("%d:%s:%s", p.issuer, e, k)
}

func makePeers2() []*peer2 {
	ps := []*peer2{{name: "none"}}
	stranger := leaf(otherCA, "client.stranger", nil, false)
	add := func(name string, issuer int, expired, stolen bool) {
		lf := leaf(authorityOf(issuer), "client."+name, []string{"client." + name}, expired)
		c := &gotls.Certificate{Certificate: [][]byte{lf.der}, PrivateKey: lf.key}
		if stolen {
			c.PrivateKey = stranger.key
		}
		ps = append(ps, &peer2{name: name, issuer: issuer, expired: expired, stolen: stolen, cert: c})
	}
	add("right", idRight, false, false)
	add("second", idSecond, false, false)
	add("other", idOther, false, false)
	add("sys", idSys, false, false)
	add("self", idSelf, false, false)
	add("expired", idRight, true, false)
	add("sysexpired", idSys, true, false)
	add("stolen", idRight, false, true)
	add("sysstolen", idSys, false, true)
	return ps
}

// runTrust2Server: listeners (verify_client x require_client_cert x ca_cert) verifying client certificates of every
// authority, through real handshakes of a reference crypto/tls client.
func runTrust2Server(c *hx.Ctx, l *loop, dir string, reps int) {
	peers := makePeers2()
	for _, k := range caCfgs {
		ca := k.caString(dir)
		for _, req := range []bool{false, true} {
			for _, ver := range []bool{false, true} {
				kind, valName := kStatic, ""
				if k.sds {
					t2Seq++
					kind, valName = kSdsPost, fmt.Sprintf("t2val%d", t2Seq)
				}
				mng, err := buildManager([]*ctxSpec{{kind: kind, cn: "server.test", sans: []string{"server.test"}}}, false, func(i int, t *v2.TLSConfig) {
					t.RequireClientCert, t.VerifyClient = req, ver
					if k.sds {
						t.SdsConfig.ValidationConfig = &v2.SecretConfigWrapper{Name: valName}
					} else {
						t.CACert = ca
					}
				})
				if err != nil {
					panic(err)
				}
				if k.sds {
					sdsClient.SetSecret(valName, &types.SdsSecret{Name: valName, ValidationPEM: ca})
					if !mng.Enabled() {
						panic("c13: sds context not ready after the validation secret")
					}
				}
				for _, p := range peers {
					for rep := 0; rep < reps; rep++ {
						ccfg := &gotls.Config{ServerName: "server.test", InsecureSkipVerify: true}
						vt := "v13"
						if rep%2 == 1 {
							ccfg.MaxVersion = gotls.VersionTLS12
							vt = "v12"
						}
						if p.cert != nil {
							cert := p.cert
							ccfg.GetClientCertificate = func(*gotls.CertificateRequestInfo) (*gotls.Certificate, error) { return cert, nil }
						}
						_, _, serr := handshake(l, mng, ccfg)
						out := "ok"
						if serr != nil {
							out = "fail"
						}
						c.Emit("C13", fmt.Sprintf("trust2 %s.%s.%s %s %s %s %s %s", vt, k.cls(), p.name, storeTok, k.tok, b01(req), b01(ver), p.tok()), out)
						c.Count("trust2.ca=" + k.tok + "/" + out)
						c.Count("trust2.peer=" + p.name + "/" + out)
					}
				}
			}
		}
	}
}

const upstreamURI = "spiffe://verif.test/ns/upstream"

type scert2 struct {
	name          string
	issuer        int
	expired       bool
	nameOK, uriOK bool
	cert          gotls.Certificate
}

func (s *scert2) tok() string {
	pick := func(b bool, t, f string) string {
		if b {
			return t
		}
		return f
	}
	return fmt.Sprintf("%d:%s:%s:%s", s.issuer, pick(s.expired, "e", "v"), pick(s.nameOK, "n", "w"), pick(s.uriOK, "u", "x"))
}

func makeServers2() []*scert2 {
	var out []*scert2
	add := func(name string, issuer int, expired, nameOK, uriOK bool) {
		dns := "server.test"
		if !nameOK {
			dns = "elsewhere.test"
		}
		var uris []string
		if uriOK {
			uris = []string{upstreamURI}
		}
		na := time.Now().Add(24 * time.Hour)
		if expired {
			na = time.Now().Add(-1 * time.Hour)
		}
		lf := leafFull(authorityOf(issuer), dns, []string{dns}, uris, na)
		out = append(out, &scert2{name: name, issuer: issuer, expired: expired, nameOK: nameOK, uriOK: uriOK,
			cert: gotls.Certificate{Certificate: [][]byte{lf.der}, PrivateKey: lf.key}})
	}
	add("right", idRight, false, true, true)
	add("second", idSecond, false, true, true)
	add("other", idOther, false, true, true)
	add("sys", idSys, false, true, true)
	add("self", idSelf, false, true, true)
	add("expired", idRight, true, true, true)
	add("sysexpired", idSys, true, true, true)
	add("wrongname", idRight, false, false, true)
	add("syswrongname", idSys, false, false, true)
	add("nouri", idRight, false, true, false)
	add("sysnouri", idSys, false, true, false)
	return out
}

// runTrust2Client: cluster contexts (ca_cert x insecure_skip x server_name x default hooks / the sni_verify extension)
// verifying the certificate of a reference crypto/tls server, for certificates of every authority.
func runTrust2Client(c *hx.Ctx, l *loop, dir string) {
	sdsInit()
	servers := makeServers2()
	n := 0
	for _, k := range caCfgs {
		if k.sds {
			continue
		}
		ca := k.caString(dir)
		for _, hook := range []bool{false, true} {
			for _, ins := range []bool{false, true} {
				for _, sn := range []bool{false, true} {
					cfg := &v2.TLSConfig{Status: true, InsecureSkip: ins, CACert: ca}
					if sn {
						cfg.ServerName = "server.test"
					}
					if hook {
						cfg.Type = "sni_verify"
						cfg.ExtendVerify = map[string]interface{}{"match_subject_alt_names": upstreamURI}
					}
					n++
					cm, err := mtls.NewTLSClientContextManager(fmt.Sprintf("c13t2-%d", n), cfg)
					if err != nil {
						panic(err)
					}
					for _, s := range servers {
						out := upstreamHandshake(l, cm, &gotls.Config{Certificates: []gotls.Certificate{s.cert}})
						hk := "dflt"
						if hook {
							hk = "sni"
						}
						c.Emit("C13", fmt.Sprintf("trustc2 %s.%s.%s %s %s %s %s %s %s", hk, k.cls(), s.name, storeTok, k.tok, b01(hook), b01(ins), b01(sn), s.tok()), out)
						c.Count("trustc2.ca=" + k.tok + "/" + out)
						c.Count("trustc2.cert=" + s.name + "/" + out)
					}
				}
			}
		}
	}
}

// upstreamHandshake runs MOSN's client side (cm.Conn) against a reference crypto/tls server.
func upstreamHandshake(l *loop, cm types.TLSClientContextManager, scfg *gotls.Config) string {
	cc, sc := l.pair()
	cc.SetDeadline(time.Now().Add(hsTimeout))
	sc.SetDeadline(time.Now().Add(hsTimeout))
	done := make(chan struct{})
	go func() {
		srv := gotls.Server(sc, scfg)
		if srv.Handshake() == nil {
			b := make([]byte, 1)
			srv.Read(b)
		}
		sc.Close()
		close(done)
	}()
	conn, err := cm.Conn(cc)
	out := "ok"
	if err != nil {
		out = "fail"
	} else if _, ok := conn.(*mtls.TLSConn); !ok {
		out = "notls"
	}
	cc.Close()
	<-done
	return out
}

// runTrust2: both directions of the trust-anchor matrix. Refuses to run (panics) when the system-store emulation is
// not in force: the matrix would silently lose the cases it exists for.
func runTrust2(c *hx.Ctx, l *loop) {
	if msg := sysStoreCheck(otherCA); msg != "" {
		panic("c13: system root store emulation failed: " + msg)
	}
	c.Count("trust2.sysstore=emulated")
	if secondCA == nil {
		secondCA = newAuthority("verif second configured CA")
	}
	dir, err := os.MkdirTemp("", "c13ca")
	if err != nil {
		panic(err)
	}
	defer os.RemoveAll(dir)
	runTrust2Server(c, l, dir, c.N(2, 4))
	runTrust2Client(c, l, dir)
}
