//go:build verif

package c13

import (
	"crypto/ecdsa"
	"crypto/elliptic"
	"crypto/rand"
	"crypto/x509"
	"crypto/x509/pkix"
	"encoding/pem"
	"math/big"
	"time"
)

// authority is a throw-away CA generated in the harness.
type authority struct {
	key  *ecdsa.PrivateKey
	cert *x509.Certificate
	pem  string
}

type leafCert struct {
	certPEM, keyPEM string
	der             []byte
	key             *ecdsa.PrivateKey
}

var serial int64 = 1000

func nextSerial() *big.Int { serial++; return big.NewInt(serial) }

func pemOf(typ string, b []byte) string {
	return string(pem.EncodeToMemory(&pem.Block{Type: typ, Bytes: b}))
}

func newAuthority(cn string) *authority {
	key, err := ecdsa.GenerateKey(elliptic.P256(), rand.Reader)
	if err != nil {
		panic(err)
	}
	tmpl := &x509.Certificate{
		SerialNumber:          nextSerial(),
		Subject:               pkix.Name{CommonName: cn, Organization: []string{"verif"}},
		NotBefore:             time.Now().Add(-2 * time.Hour),
		NotAfter:              time.Now().Add(48 * time.Hour),
		KeyUsage:              x509.KeyUsageCertSign | x509.KeyUsageDigitalSignature,
		BasicConstraintsValid: true,
		IsCA:                  true,
	}
	der, err := x509.CreateCertificate(rand.Reader, tmpl, tmpl, &key.PublicKey, key)
	if err != nil {
		panic(err)
	}
	c, err := x509.ParseCertificate(der)
	if err != nil {
		panic(err)
	}
	return &authority{key: key, cert: c, pem: pemOf("CERTIFICATE", der)}
}

// leaf issues a certificate for (cn, sans); ca == nil makes it self-signed.
func leaf(ca *authority, cn string, sans []string, expired bool) *leafCert {
	na := time.Now().Add(24 * time.Hour)
	if expired {
		na = time.Now().Add(-1 * time.Hour)
	}
	return leafUntil(ca, cn, sans, na)
}

// leafUntil issues a certificate valid until notAfter.
func leafUntil(ca *authority, cn string, sans []string, notAfter time.Time) *leafCert {
	key, err := ecdsa.GenerateKey(elliptic.P256(), rand.Reader)
	if err != nil {
		panic(err)
	}
	tmpl := &x509.Certificate{
		SerialNumber: nextSerial(),
		Subject:      pkix.Name{CommonName: cn},
		DNSNames:     sans,
		NotBefore:    time.Now().Add(-3 * time.Hour),
		NotAfter:     notAfter,
		KeyUsage:     x509.KeyUsageDigitalSignature,
		ExtKeyUsage:  []x509.ExtKeyUsage{x509.ExtKeyUsageServerAuth, x509.ExtKeyUsageClientAuth},
	}
	parent, signer := tmpl, key
	if ca != nil {
		parent, signer = ca.cert, ca.key
	}
	der, err := x509.CreateCertificate(rand.Reader, tmpl, parent, &key.PublicKey, signer)
	if err != nil {
		panic(err)
	}
	kb, err := x509.MarshalECPrivateKey(key)
	if err != nil {
		panic(err)
	}
	return &leafCert{certPEM: pemOf("CERTIFICATE", der), keyPEM: pemOf("EC PRIVATE KEY", kb), der: der, key: key}
}
