//go:build verif

// Package c13: MOSN's TLS selection and policy layer (pkg/mtls) driven through its exported API with certificates
// generated here, against reference standard-library crypto/tls peers on loopback.
package c13

import (
	"bytes"
	"context"
	gotls "crypto/tls"
	"crypto/x509"
	"errors"
	"fmt"
	"io"
	"net"
	"os"
	"strings"
	"sync"
	"time"

	v2 "mosn.io/mosn/pkg/config/v2"
	"mosn.io/mosn/pkg/log"
	"mosn.io/mosn/pkg/mtls"
	mtls_tls "mosn.io/mosn/pkg/mtls/crypto/tls"
	"mosn.io/mosn/pkg/mtls/sds"
	"mosn.io/mosn/pkg/types"
	"verif/harness/hx"
)

func init() { hx.Register("C13", Run) }

// ---------------------------------------------------------------- token encoding

func esc(s string) string {
	if s == "" {
		return "~"
	}
	var sb strings.Builder
	for i := 0; i < len(s); i++ {
		b := s[i]
		if (b >= 'a' && b <= 'z') || (b >= 'A' && b <= 'Z') || (b >= '0' && b <= '9') || b == '.' || b == '/' || b == '*' || b == '_' {
			sb.WriteByte(b)
		} else {
			fmt.Fprintf(&sb, "%%%02x", b)
		}
	}
	return sb.String()
}

func escList(l []string) string {
	if len(l) == 0 {
		return "-"
	}
	p := make([]string, len(l))
	for i, s := range l {
		p[i] = esc(s)
	}
	return strings.Join(p, "+")
}

func b01(b bool) string {
	if b {
		return "1"
	}
	return "0"
}

// ---------------------------------------------------------------- fake SDS transport (exported extension point)

type fakeStream struct{ stop chan struct{} }

func (f *fakeStream) Send(name string) error { return nil }
func (f *fakeStream) Recv(provider types.SecretProvider, callback func()) error {
	<-f.stop
	return errors.New("stopped")
}
func (f *fakeStream) Fetch(ctx context.Context, name string) (*types.SdsSecret, error) {
	return nil, errors.New("no fetch")
}
func (f *fakeStream) AckResponse(resp interface{}) {}
func (f *fakeStream) Stop()                        {}

var sdsOnce sync.Once
var sdsClient *sds.SdsClientImpl

func sdsInit() {
	sdsOnce.Do(func() {
		sds.RegisterSdsStreamClientFactory(func(config interface{}) (sds.SdsStreamClient, error) {
			return &fakeStream{stop: make(chan struct{})}, nil
		})
		sdsClient = sds.NewSdsClientSingleton(nil).(*sds.SdsClientImpl)
	})
}

// ---------------------------------------------------------------- extension hooks (client-side verify hook present)

var hookVerdict bool

type hookedHooks struct{ mtls.ConfigHooks }

func (h hookedHooks) ClientHandshakeVerify(cfg *mtls_tls.Config) func(rawCerts [][]byte, verifiedChains [][]*x509.Certificate) error {
	return func(rawCerts [][]byte, verifiedChains [][]*x509.Certificate) error {
		if hookVerdict {
			return nil
		}
		return errors.New("c13 hook: refused")
	}
}

type hookedFactory struct{}

func (hookedFactory) CreateConfigHooks(config map[string]interface{}) mtls.ConfigHooks {
	return hookedHooks{mtls.DefaultConfigHooks()}
}

const hookType = "c13hook"

// ---------------------------------------------------------------- contexts

const (
	kStatic   = 0 // static certificate: always ready
	kSdsPre   = 1 // SDS, secret known before the listener is built: ready
	kSdsPost  = 2 // SDS, secret arrives after the listener is built: ready
	kSdsNever = 3 // SDS, secret never arrives: not ready
)

type ctxSpec struct {
	kind  int
	cn    string
	sans  []string
	alpn  string
	sname string
	cert  *leafCert
}

func (c *ctxSpec) ready() bool { return c.kind != kSdsNever }

func (c *ctxSpec) tok() string {
	r := "r"
	if !c.ready() {
		r = "n"
	}
	return r + ":" + esc(c.cn) + ":" + escList(c.sans) + ":" + esc(c.alpn) + ":" + esc(c.sname)
}

func ctxsTok(cs []*ctxSpec) string {
	if len(cs) == 0 {
		return "-"
	}
	p := make([]string, len(cs))
	for i, c := range cs {
		p[i] = c.tok()
	}
	return strings.Join(p, ";")
}

var listenerSeq int

type getConfig interface {
	GetConfigForClient(info *mtls_tls.ClientHelloInfo) (*mtls_tls.Config, error)
}

// buildManager builds the real server context manager for the contexts (inspector as given).
func buildManager(cs []*ctxSpec, inspector bool, mutate func(i int, cfg *v2.TLSConfig)) (types.TLSContextManager, error) {
	sdsInit()
	listenerSeq++
	lname := fmt.Sprintf("l%d", listenerSeq)
	var tcs []v2.TLSConfig
	for i, c := range cs {
		if c.cert == nil {
			c.cert = leaf(rightCA, c.cn, c.sans, false)
		}
		cfg := v2.TLSConfig{Status: true, ALPN: c.alpn, ServerName: c.sname}
		if c.kind == kStatic {
			cfg.CertChain, cfg.PrivateKey = c.cert.certPEM, c.cert.keyPEM
		} else {
			cfg.SdsConfig = &v2.SdsConfig{CertificateConfig: &v2.SecretConfigWrapper{Name: fmt.Sprintf("%s-c%d", lname, i)}}
		}
		if mutate != nil {
			mutate(i, &cfg)
		}
		tcs = append(tcs, cfg)
	}
	push := func(i int) {
		sdsClient.SetSecret(tcs[i].SdsConfig.CertificateConfig.Name, &types.SdsSecret{
			Name: tcs[i].SdsConfig.CertificateConfig.Name, CertificatePEM: cs[i].cert.certPEM, PrivateKeyPEM: cs[i].cert.keyPEM})
	}
	for i, c := range cs {
		if c.kind == kSdsPre {
			// an earlier user of the same SDS certificate name already received the secret
			warm := tcs[i]
			if _, err := mtls.NewProvider("server_warm_"+lname, &warm); err != nil {
				return nil, err
			}
			push(i)
		}
	}
	ln := &v2.Listener{ListenerConfig: v2.ListenerConfig{Name: lname, Inspector: inspector,
		FilterChains: []v2.FilterChain{{TLSContexts: tcs}}}}
	mng, err := mtls.NewTLSServerContextManager(ln)
	if err != nil {
		return nil, err
	}
	for i, c := range cs {
		if c.kind == kSdsPost {
			push(i)
		}
	}
	return mng, nil
}

func whichCert(cs []*ctxSpec, der []byte) string {
	for i, c := range cs {
		if c.cert != nil && bytes.Equal(c.cert.der, der) {
			return fmt.Sprint(i)
		}
	}
	return "unknown"
}

// selectDirect calls the real GetConfigForClient with an arbitrary ClientHelloInfo.
func selectDirect(mng types.TLSContextManager, cs []*ctxSpec, sni string, protos []string) string {
	g, ok := mng.(getConfig)
	if !ok {
		return "no-method"
	}
	out := ""
	msg, p := hx.Safe(func() {
		cfg, err := g.GetConfigForClient(&mtls_tls.ClientHelloInfo{ServerName: sni, SupportedProtos: protos})
		switch {
		case err != nil && errors.Is(err, mtls.ErrorNoCertConfigure):
			out = "err"
		case err != nil:
			out = "othererr"
		case cfg == nil || len(cfg.Certificates) == 0:
			out = "nil"
		default:
			out = whichCert(cs, cfg.Certificates[0].Certificate[0])
		}
	})
	if p {
		_ = msg
		return "panic"
	}
	return out
}

// ---------------------------------------------------------------- loopback plumbing

type loop struct{ ln net.Listener }

func newLoop() *loop {
	ln, err := net.Listen("tcp", "127.0.0.1:0")
	if err != nil {
		panic(err)
	}
	return &loop{ln}
}

// pair returns a connected (client, server) TCP pair.
func (l *loop) pair() (net.Conn, net.Conn) {
	type r struct {
		c   net.Conn
		err error
	}
	ch := make(chan r, 1)
	go func() {
		c, err := l.ln.Accept()
		ch <- r{c, err}
	}()
	cc, err := net.Dial("tcp", l.ln.Addr().String())
	if err != nil {
		panic(err)
	}
	sr := <-ch
	if sr.err != nil {
		panic(sr.err)
	}
	return cc, sr.c
}

const hsTimeout = 8 * time.Second

// handshake runs MOSN's server side (mng.Conn + Handshake) against a reference crypto/tls client.
// returns the certificate the client was presented (nil if none), the client error and the server error.
func handshake(l *loop, mng types.TLSContextManager, ccfg *gotls.Config) (peer []byte, cerr, serr error) {
	cc, sc := l.pair()
	defer cc.Close()
	defer sc.Close()
	cc.SetDeadline(time.Now().Add(hsTimeout))
	sc.SetDeadline(time.Now().Add(hsTimeout))
	done := make(chan error, 1)
	go func() {
		conn, err := mng.Conn(sc)
		if err != nil {
			sc.Close()
			done <- err
			return
		}
		tc, ok := conn.(*mtls.TLSConn)
		if !ok {
			sc.Close()
			done <- errors.New("not a TLS connection")
			return
		}
		err = tc.Handshake()
		if err == nil {
			// let the client finish reading (TLS 1.3 session tickets etc.)
			tc.Write([]byte("k"))
		} else {
			sc.Close()
		}
		done <- err
	}()
	ccfg = ccfg.Clone()
	ccfg.VerifyPeerCertificate = func(rawCerts [][]byte, _ [][]*x509.Certificate) error {
		if len(rawCerts) > 0 {
			peer = rawCerts[0]
		}
		return nil
	}
	client := gotls.Client(cc, ccfg)
	cerr = client.Handshake()
	if cerr == nil {
		b := make([]byte, 1)
		client.Read(b)
	} else {
		cc.Close()
	}
	serr = <-done
	return
}

// ---------------------------------------------------------------- generators

var rightCA, otherCA *authority

var labelPool = []string{"a", "b", "www", "mail", "api", "example", "test", "mosn", "com", "org", "io", "x1", "svc"}
var alpnCfgPool = []string{"", "", "h2", "http/1.1", "sofa", "h2,http/1.1", "http/1.1,h2", "h2,sofa", "h2,http/1.1,sofa", "h2,bogus", "bogus", ",h2", "h2,"}
var protoPool = []string{"h2", "http/1.1", "sofa", "spdy/3", "bogus", "h3", "h2", "http/1.1"}

type gen struct {
	r *hx.Rng
	c *hx.Ctx
}

func (g *gen) domain() string {
	n := 1 + g.r.Intn(4)
	p := make([]string, n)
	for i := range p {
		p[i] = g.r.PickS(labelPool)
	}
	return strings.Join(p, ".")
}

func mixCase(r *hx.Rng, s string) string {
	b := []byte(s)
	for i := range b {
		if b[i] >= 'a' && b[i] <= 'z' && r.Chance(50) {
			b[i] -= 32
		}
	}
	return string(b)
}

func dropFirstLabel(d string) string {
	if i := strings.IndexByte(d, '.'); i >= 0 {
		return d[i+1:]
	}
	return d
}

// storedName derives a certificate / server_name entry from a base domain.
func (g *gen) storedName(bases []string, upper bool) string {
	d := g.r.PickS(bases)
	switch k := g.r.Intn(100); {
	case k < 50:
	case k < 75:
		d = "*." + d
	case k < 85:
		d = "*." + dropFirstLabel(d)
	case k < 92:
		d = g.r.PickS(labelPool) + "." + d
	default:
		d = g.domain()
	}
	if upper && g.r.Chance(50) {
		d = mixCase(g.r, d)
	}
	return d
}

// contexts generates 0..4 contexts. flags: upper = allow upper-case stored names / ALPN, sdsOK = allow SDS kinds.
func (g *gen) contexts(bases []string, upper, sdsOK bool) []*ctxSpec {
	n := 1 + g.r.Intn(4)
	if g.r.Chance(3) {
		n = 0
	}
	var cs []*ctxSpec
	for i := 0; i < n; i++ {
		c := &ctxSpec{}
		if sdsOK {
			switch k := g.r.Intn(100); {
			case k < 55:
				c.kind = kStatic
			case k < 70:
				c.kind = kSdsPre
			case k < 82:
				c.kind = kSdsPost
			default:
				c.kind = kSdsNever
			}
		}
		switch k := g.r.Intn(100); {
		case k < 25:
		case k < 35:
			c.cn = "MOSN test server"
		default:
			c.cn = g.storedName(bases, upper)
		}
		for j := g.r.Intn(4); j > 0; j-- {
			c.sans = append(c.sans, g.storedName(bases, upper))
		}
		c.alpn = g.r.PickS(alpnCfgPool)
		if upper && g.r.Chance(20) {
			c.alpn = strings.ToUpper(c.alpn)
		}
		if g.r.Chance(40) {
			c.sname = g.storedName(bases, upper)
		}
		cs = append(cs, c)
	}
	return cs
}

// sni derives a ClientHello server name. wire = only names a crypto/tls client puts on the wire unchanged.
func (g *gen) sni(bases []string, cs []*ctxSpec, wire bool) string {
	d := g.r.PickS(bases)
	// sometimes start from a stored name of some context
	if len(cs) > 0 && g.r.Chance(40) {
		c := cs[g.r.Intn(len(cs))]
		var all []string
		if c.cn != "" {
			all = append(all, c.cn)
		}
		all = append(all, c.sans...)
		if c.sname != "" {
			all = append(all, c.sname)
		}
		if len(all) > 0 {
			d = all[g.r.Intn(len(all))]
			if strings.HasPrefix(d, "*.") && g.r.Chance(85) {
				d = d[2:]
				if g.r.Chance(80) {
					d = g.r.PickS(labelPool) + "." + d
				}
			}
		}
	}
	switch k := g.r.Intn(100); {
	case k < 30:
	case k < 45:
		d = g.r.PickS(labelPool) + "." + d
	case k < 55:
		d = g.r.PickS(labelPool) + "." + g.r.PickS(labelPool) + "." + d
	case k < 62:
		d = dropFirstLabel(d)
	case k < 70:
		d = mixCase(g.r, d)
	case k < 76:
		d = ""
	case k < 80:
		d = g.domain()
	case k < 84:
		d = "*." + d
	default:
		if wire {
			break
		}
		switch g.r.Intn(6) {
		case 0:
			d += "."
		case 1:
			d += ".."
		case 2:
			d = "." + d
		case 3:
			d = "."
		case 4:
			d = strings.Replace(d, ".", "..", 1)
		case 5:
			d = strings.ToUpper(d) + "."
		}
	}
	return d
}

func (g *gen) protos(wire bool) []string {
	n := g.r.Intn(4)
	var p []string
	for i := 0; i < n; i++ {
		s := g.r.PickS(protoPool)
		if g.r.Chance(8) {
			s = strings.ToUpper(s)
		}
		p = append(p, s)
	}
	if !wire && g.r.Chance(3) {
		p = append(p, "")
	}
	return p
}

func normSNI(s string) string {
	s = strings.ToLower(s)
	for len(s) > 0 && s[len(s)-1] == '.' {
		s = s[:len(s)-1]
	}
	return s
}

func hasUpper(s string) bool { return strings.ToLower(s) != s }

// class labels the input class of a selection case (generator-side information only).
func class(cs []*ctxSpec, sni string, protos []string) string {
	var fl []string
	n := normSNI(sni)
	x := false
	for _, c := range cs {
		names := append([]string{c.cn, c.sname}, c.sans...)
		for _, p := range strings.Split(c.alpn, ",") {
			if p != "" && strings.EqualFold(p, n) {
				x = true
			}
		}
		for _, q := range protos {
			for _, nm := range names {
				if nm != "" && strings.EqualFold(nm, q) {
					x = true
				}
			}
		}
	}
	if x {
		fl = append(fl, "xns")
	}
	if n == "" {
		fl = append(fl, "nosni")
	}
	for _, q := range protos {
		if q == "" {
			fl = append(fl, "emptyproto")
			break
		}
	}
	for _, c := range cs {
		for _, s := range c.sans {
			if s == "" {
				fl = append(fl, "emptysan")
				break
			}
		}
	}
	up := false
	post := false
	for i, c := range cs {
		if hasUpper(c.cn) || hasUpper(c.sname) || hasUpper(c.alpn) {
			up = true
		}
		for _, s := range c.sans {
			if hasUpper(s) {
				up = true
			}
		}
		if c.kind == kSdsPost && i != len(cs)-1 {
			post = true
		}
	}
	if up {
		fl = append(fl, "upcfg")
	}
	if post {
		fl = append(fl, "sdspost")
	}
	if len(fl) == 0 {
		return "std"
	}
	return strings.Join(fl, "+")
}

func (g *gen) bases() []string {
	n := 2 + g.r.Intn(3)
	b := make([]string, n)
	for i := range b {
		b[i] = g.domain()
	}
	return b
}

// crossCase makes the deliberate cross-namespace inputs: an SNI equal to an ALPN token, a client ALPN entry equal to a
// certificate name / server_name.
func (g *gen) crossCase(bases []string, cs []*ctxSpec, sni *string, protos *[]string) {
	if len(cs) == 0 {
		return
	}
	c := cs[g.r.Intn(len(cs))]
	if g.r.Bool() {
		if c.alpn == "" {
			c.alpn = g.r.PickS([]string{"h2", "sofa", "http/1.1"})
		}
		p := strings.Split(c.alpn, ",")
		*sni = p[g.r.Intn(len(p))]
	} else {
		nm := c.cn
		if nm == "" || g.r.Bool() {
			if len(c.sans) > 0 {
				nm = c.sans[0]
			} else if c.sname != "" {
				nm = c.sname
			}
		}
		if nm != "" {
			*protos = append(*protos, nm)
		}
	}
}

// ---------------------------------------------------------------- case runners

func runSelect(c *hx.Ctx, g *gen, l *loop, viaHandshake bool, mode int) {
	bases := g.bases()
	upper := mode == 2
	cs := g.contexts(bases, upper, true)
	sni := g.sni(bases, cs, viaHandshake)
	protos := g.protos(viaHandshake)
	if mode == 1 {
		g.crossCase(bases, cs, &sni, &protos)
	}
	// handshakes also go through inspector-mode listeners (the peeked 0x16 byte must be replayed to the TLS server)
	inspector := viaHandshake && g.r.Bool()
	if inspector {
		c.Count("hs.inspector-listener")
	}
	mng, err := buildManager(cs, inspector, nil)
	if err != nil {
		c.Count("sel.build-error")
		return
	}
	// several ClientHellos per listener
	reps := 3
	for k := 0; k < reps; k++ {
		if k > 0 {
			sni = g.sni(bases, cs, viaHandshake)
			protos = g.protos(viaHandshake)
		}
		cls := class(cs, sni, protos)
		caseTok := fmt.Sprintf("%s %s %s %s", cls, ctxsTok(cs), esc(sni), escList(protos))
		var out string
		if !viaHandshake {
			out = selectDirect(mng, cs, sni, protos)
			c.Emit("C13", "sel "+caseTok, out)
		} else {
			ccfg := &gotls.Config{ServerName: sni, NextProtos: protos, InsecureSkipVerify: true}
			if g.r.Bool() {
				ccfg.MaxVersion = gotls.VersionTLS12
				c.Count("hs.tls12")
			} else {
				c.Count("hs.tls13")
			}
			peer, cerr, _ := handshake(l, mng, ccfg)
			switch {
			case peer != nil:
				out = whichCert(cs, peer)
			case cerr != nil:
				// no ready provider => ErrorNoCertConfigure => internal_error alert, or TLS not enabled at all
				out = "err"
			default:
				out = "nocert"
			}
			c.Emit("C13", "hs "+caseTok, out)
		}
		c.Count("sel.cls=" + cls)
		c.Count(fmt.Sprintf("sel.contexts=%d", len(cs)))
		c.Count("sel.result=" + map[bool]string{true: "err", false: "provider"}[out == "err"])
	}
}

func runMatch(c *hx.Ctx, g *gen, mode int) {
	bases := g.bases()
	cs := g.contexts(bases, mode == 2, false)
	if len(cs) == 0 {
		return
	}
	x := cs[0]
	if mode == 1 && x.alpn == "" {
		x.alpn = g.r.PickS([]string{"h2", "sofa", "http/1.1", "h2,sofa"})
	}
	x.cert = leaf(rightCA, x.cn, x.sans, false)
	cfg := &v2.TLSConfig{Status: true, ALPN: x.alpn, ServerName: x.sname, CertChain: x.cert.certPEM, PrivateKey: x.cert.keyPEM}
	p, err := mtls.NewProvider("server_c13match", cfg)
	if err != nil || p == nil {
		c.Count("msn.build-error")
		return
	}
	for k := 0; k < 4; k++ {
		sni := g.sni(bases, cs[:1], false)
		protos := g.protos(false)
		if mode == 1 {
			g.crossCase(bases, cs[:1], &sni, &protos)
		}
		cls := class(cs[:1], sni, nil)
		r := p.MatchedServerName(sni)
		c.Emit("C13", fmt.Sprintf("msn %s %s %s", cls, x.tok(), esc(sni)), map[bool]string{true: "T", false: "F"}[r])
		c.Count("msn.cls=" + cls)
		c.Count(fmt.Sprintf("msn.result=%v", r))
		cls = class(cs[:1], "x", protos)
		r = p.MatchedALPN(protos)
		c.Emit("C13", fmt.Sprintf("mal %s %s %s", cls, x.tok(), escList(protos)), map[bool]string{true: "T", false: "F"}[r])
		c.Count(fmt.Sprintf("mal.result=%v", r))
	}
}

func runPolicyTables(c *hx.Ctx) {
	lf := leaf(rightCA, "policy.test", nil, false)
	for _, req := range []bool{false, true} {
		for _, ver := range []bool{false, true} {
			cfg := &v2.TLSConfig{Status: true, RequireClientCert: req, VerifyClient: ver, CertChain: lf.certPEM, PrivateKey: lf.keyPEM, CACert: rightCA.pem}
			c.Emit("C13", fmt.Sprintf("auth hook %s %s", b01(req), b01(ver)), fmt.Sprint(int(mtls.DefaultConfigHooks().GetClientAuth(cfg))))
			p, err := mtls.NewProvider("server_c13auth", cfg)
			if err != nil {
				panic(err)
			}
			c.Emit("C13", fmt.Sprintf("auth provider %s %s", b01(req), b01(ver)), fmt.Sprint(int(p.GetTLSConfigContext(false).Config().ClientAuth)))
			// and through the manager: the config handed to the handshake
			mng, err := buildManager([]*ctxSpec{{kind: kStatic, cn: "policy.test"}}, false, func(i int, t *v2.TLSConfig) {
				t.RequireClientCert, t.VerifyClient, t.CACert = req, ver, rightCA.pem
			})
			if err != nil {
				panic(err)
			}
			tc, err := mng.(getConfig).GetConfigForClient(&mtls_tls.ClientHelloInfo{})
			if err != nil {
				panic(err)
			}
			c.Emit("C13", fmt.Sprintf("auth manager %s %s", b01(req), b01(ver)), fmt.Sprint(int(tc.ClientAuth)))
		}
	}
	for _, hook := range []bool{false, true} {
		for _, ins := range []bool{false, true} {
			for _, withCert := range []bool{false, true} {
				cfg := &v2.TLSConfig{Status: true, InsecureSkip: ins, ServerName: "server.test", CACert: rightCA.pem}
				if hook {
					cfg.Type = hookType
				}
				if withCert {
					cfg.CertChain, cfg.PrivateKey = lf.certPEM, lf.keyPEM
				}
				p, err := mtls.NewProvider("client_c13cv", cfg)
				if err != nil {
					panic(err)
				}
				tc := p.GetTLSConfigContext(true).Config()
				c.Emit("C13", fmt.Sprintf("cv cert%s %s %s", b01(withCert), b01(hook), b01(ins)),
					b01(tc.InsecureSkipVerify)+" "+b01(tc.VerifyPeerCertificate != nil))
			}
		}
	}
}

// runInspector drives serverContextManager.Conn with real bytes.
func runInspector(c *hx.Ctx, g *gen, l *loop) {
	type st struct {
		cs         []*ctxSpec
		configured bool
		enabled    bool
		cls        string
	}
	states := []st{
		{[]*ctxSpec{{kind: kStatic, cn: "insp.test"}}, true, true, "ready"},
		{[]*ctxSpec{{kind: kSdsNever, cn: "insp.test"}}, true, false, "pending"}, // sds secret never arrives
		{nil, false, false, "notls"},                                             // no TLS context at all: not a TLS listener
	}
	firsts := []int{0x16, 0x15, 0x17, 0x14, 0x00, 0x80, 0xff, 'G', 'P', 0x0a}
	for i := 0; i < c.N(10, 60); i++ {
		firsts = append(firsts, g.r.Intn(256))
	}
	for _, insp := range []bool{false, true} {
		for _, s := range states {
			mng, err := buildManager(s.cs, insp, nil)
			if err != nil {
				panic(err)
			}
			if mng.Enabled() != s.enabled {
				panic("Enabled() mismatch")
			}
			flags := fmt.Sprintf("%s %s %s", b01(s.configured), b01(s.enabled), b01(insp))
			// not a TCP connection
			p1, p2 := net.Pipe()
			r, err := mng.Conn(p1)
			out := "other"
			if err == nil && r == p1 {
				out = "raw"
			}
			p1.Close()
			p2.Close()
			c.Emit("C13", fmt.Sprintf("insp nontcp+%s 0 %s 0 0", s.cls, flags), out)
			c.Count("insp.nontcp=" + out)
			// peer closes before sending anything
			{
				cc, sc := l.pair()
				cc.Close()
				sc.SetDeadline(time.Now().Add(hsTimeout))
				r, err := mng.Conn(sc)
				out, _ := classifyConn(r, err, sc)
				sc.Close()
				c.Emit("C13", fmt.Sprintf("insp closed+%s 1 %s 1 0", s.cls, flags), out)
				c.Count("insp.closed=" + out)
			}
			for _, fb := range firsts {
				payload := append([]byte{byte(fb)}, g.r.Bytes(1+g.r.Intn(40))...)
				cc, sc := l.pair()
				cc.SetDeadline(time.Now().Add(hsTimeout))
				sc.SetDeadline(time.Now().Add(hsTimeout))
				cc.Write(payload)
				r, err := mng.Conn(sc)
				out, _ := classifyConn(r, err, sc)
				if out == "plainPeeked" || out == "raw" {
					// plaintext is served: the application must read exactly the bytes that were sent
					got := make([]byte, len(payload))
					r.SetReadDeadline(time.Now().Add(hsTimeout))
					if _, err := io.ReadFull(r, got); err != nil || !bytes.Equal(got, payload) {
						out += "-corrupt"
					}
				}
				cc.Close()
				sc.Close()
				c.Emit("C13", fmt.Sprintf("insp byte+%s 1 %s 0 %d", s.cls, flags, fb), out)
				c.Count("insp." + s.cls + "=" + out)
			}
		}
	}
}

func classifyConn(r net.Conn, err error, sc net.Conn) (string, bool) {
	switch {
	case err != nil:
		return "peekError", true
	case r == sc:
		return "raw", false
	}
	switch x := r.(type) {
	case *mtls.TLSConn:
		if x.GetRawConn() == sc {
			return "tls", false
		}
		if _, ok := x.GetRawConn().(*mtls.Conn); ok {
			return "tlsPeeked", false
		}
		return "tls-other", false
	case *mtls.Conn:
		return "plainPeeked", false
	}
	return "other", false
}

var peerKinds = []string{"none", "self", "other", "right", "expired", "stolen"}

var peerCerts map[string]*gotls.Certificate

func peersInit() {
	if peerCerts != nil {
		return
	}
	right := leaf(rightCA, "client.right", []string{"client.right"}, false)
	s := leaf(nil, "client.self", nil, false)
	o := leaf(otherCA, "client.other", nil, false)
	e := leaf(rightCA, "client.expired", nil, true)
	peerCerts = map[string]*gotls.Certificate{
		"self":    {Certificate: [][]byte{s.der}, PrivateKey: s.key},
		"other":   {Certificate: [][]byte{o.der}, PrivateKey: o.key},
		"right":   {Certificate: [][]byte{right.der}, PrivateKey: right.key},
		"expired": {Certificate: [][]byte{e.der}, PrivateKey: e.key},
		// the genuine certificate with somebody else's key
		"stolen": {Certificate: [][]byte{right.der}, PrivateKey: o.key},
	}
}

// withPeer makes the reference client present the peer kind's certificate whatever CA names the server advertises.
func withPeer(ccfg *gotls.Config, pk string) {
	if pk == "none" {
		return
	}
	cert := peerCerts[pk]
	ccfg.GetClientCertificate = func(*gotls.CertificateRequestInfo) (*gotls.Certificate, error) { return cert, nil }
}

// runPolicyHandshake: selection and client authentication together — every context has its own
// require_client_cert / verify_client flags, the ClientHello selects one, the peer presents a certificate of a given
// kind: the context that is selected and the handshake result are compared.
func runPolicyHandshake(c *hx.Ctx, g *gen, l *loop, mode int) {
	peersInit()
	bases := g.bases()
	cs := g.contexts(bases, mode == 2, false)
	if len(cs) == 0 {
		return
	}
	flags := make([][2]bool, len(cs))
	var ft []string
	for i := range cs {
		flags[i] = [2]bool{g.r.Bool(), g.r.Bool()}
		ft = append(ft, b01(flags[i][0])+b01(flags[i][1]))
	}
	mng, err := buildManager(cs, false, func(i int, t *v2.TLSConfig) {
		t.RequireClientCert, t.VerifyClient, t.CACert = flags[i][0], flags[i][1], rightCA.pem
	})
	if err != nil {
		c.Count("hsp.build-error")
		return
	}
	for k := 0; k < 3; k++ {
		sni := g.sni(bases, cs, true)
		protos := g.protos(true)
		pk := g.r.PickS(peerKinds)
		ccfg := &gotls.Config{ServerName: sni, NextProtos: protos, InsecureSkipVerify: true}
		if g.r.Bool() {
			ccfg.MaxVersion = gotls.VersionTLS12
		}
		withPeer(ccfg, pk)
		peer, _, serr := handshake(l, mng, ccfg)
		idx := "err"
		if peer != nil {
			idx = whichCert(cs, peer)
		}
		res := "ok"
		if serr != nil {
			res = "fail"
		}
		cls := class(cs, sni, protos)
		c.Emit("C13", fmt.Sprintf("hsp %s %s %s %s %s %s", cls, ctxsTok(cs), esc(sni), escList(protos), strings.Join(ft, "+"), pk), idx+" "+res)
		c.Count("hsp.peer=" + pk + "/" + res)
	}
}

// runTrustServer: the trust matrix of the server side through real handshakes.
func runTrustServer(c *hx.Ctx, g *gen, l *loop, reps int) {
	peersInit()
	for _, req := range []bool{false, true} {
		for _, ver := range []bool{false, true} {
			mng, err := buildManager([]*ctxSpec{{kind: kStatic, cn: "server.test", sans: []string{"server.test"}}}, false, func(i int, t *v2.TLSConfig) {
				t.RequireClientCert, t.VerifyClient, t.CACert = req, ver, rightCA.pem
			})
			if err != nil {
				panic(err)
			}
			for _, pk := range peerKinds {
				for rep := 0; rep < reps; rep++ {
					ccfg := &gotls.Config{ServerName: "server.test", InsecureSkipVerify: true}
					ver12 := (rep % 2) == 1
					if ver12 {
						ccfg.MaxVersion = gotls.VersionTLS12
					}
					withPeer(ccfg, pk)
					_, _, serr := handshake(l, mng, ccfg)
					out := "ok"
					if serr != nil {
						out = "fail"
					}
					cls := "v13"
					if ver12 {
						cls = "v12"
					}
					c.Emit("C13", fmt.Sprintf("trust %s %s %s %s", cls, b01(req), b01(ver), pk), out)
					c.Count("trust.result=" + out)
				}
			}
		}
	}
}

var serverKinds = []string{"right", "self", "other", "expired", "wrongname"}

// runTrustClient: MOSN's client side (upstream connection) against a reference crypto/tls server.
func runTrustClient(c *hx.Ctx, g *gen, l *loop) {
	sdsInit()
	certs := map[string]*leafCert{
		"right":     leaf(rightCA, "server.test", []string{"server.test"}, false),
		"self":      leaf(nil, "server.test", []string{"server.test"}, false),
		"other":     leaf(otherCA, "server.test", []string{"server.test"}, false),
		"expired":   leaf(rightCA, "server.test", []string{"server.test"}, true),
		"wrongname": leaf(rightCA, "elsewhere.test", []string{"elsewhere.test"}, false),
	}
	for _, ready := range []bool{true, false} {
		for _, hook := range []bool{false, true} {
			for _, ins := range []bool{false, true} {
				for _, sn := range []bool{false, true} {
					for _, sk := range serverKinds {
						for _, hok := range []bool{false, true} {
							if !hook && hok {
								continue
							}
							if !ready && (hook || sk != "self") {
								continue
							}
							cfg := &v2.TLSConfig{Status: true, InsecureSkip: ins, CACert: rightCA.pem}
							if sn {
								cfg.ServerName = "server.test"
							}
							if hook {
								cfg.Type = hookType
							}
							cls := "static"
							if !ready {
								// the client certificate comes from sds and never arrives
								listenerSeq++
								cfg.CACert = ""
								cfg.SdsConfig = &v2.SdsConfig{CertificateConfig: &v2.SecretConfigWrapper{Name: fmt.Sprintf("cl%d", listenerSeq)}}
								cls = "pending"
							}
							hookVerdict = hok
							cm, err := mtls.NewTLSClientContextManager(fmt.Sprintf("c13-%d", listenerSeq), cfg)
							if err != nil {
								panic(err)
							}
							lc := certs[sk]
							scfg := &gotls.Config{Certificates: []gotls.Certificate{{Certificate: [][]byte{lc.der}, PrivateKey: lc.key}}}
							cc, sc := l.pair()
							cc.SetDeadline(time.Now().Add(hsTimeout))
							sc.SetDeadline(time.Now().Add(hsTimeout))
							done := make(chan struct{})
							go func() {
								srv := gotls.Server(sc, scfg)
								if srv.Handshake() == nil {
									b := make([]byte, 1)
									srv.Read(b)
								}
								sc.Close()
								close(done)
							}()
							conn, err := cm.Conn(cc)
							out := "ok"
							if err != nil {
								out = "fail"
							} else if _, ok := conn.(*mtls.TLSConn); !ok {
								out = "notls"
							}
							cc.Close()
							<-done
							c.Emit("C13", fmt.Sprintf("trustc %s %s %s %s %s %s %s", cls, b01(ready), b01(hook), b01(ins), b01(sn), sk, b01(hok)), out)
							c.Count("trustc." + cls + "=" + out)
						}
					}
				}
			}
		}
	}
}

// runBoundaries: fixed listeners and ClientHellos — the boundaries the property names and the inputs of the repaired
// defects (kept in every run, both directly and through a handshake where the name can go on the wire).
func runBoundaries(c *hx.Ctx, l *loop) {
	type bc struct {
		cs     func() []*ctxSpec
		hellos [][2]string // sni, comma-separated client ALPN
	}
	st := func(cn string, sans []string, alpn, sname string) *ctxSpec {
		return &ctxSpec{kind: kStatic, cn: cn, sans: sans, alpn: alpn, sname: sname}
	}
	cases := []bc{
		// wildcard depth and label boundaries
		{func() []*ctxSpec {
			return []*ctxSpec{st("default.test", nil, "", ""), st("", []string{"*.com"}, "", ""), st("", []string{"*.a.com", "a.com"}, "", ""), st("x.a.com", nil, "", "")}
		}, [][2]string{{"com", ""}, {"a.com", ""}, {"x.a.com", ""}, {"y.x.a.com", ""}, {"b.com", ""}, {"z.b.com", ""}, {"A.COM", ""}, {"a.com.", ""}, {"a.com...", ""},
			{".com", ""}, {"a..com", ""}, {"*.com", ""}, {"*.a.com", ""}, {"*", ""}, {"", ""}, {".", ""}, {"org", ""}, {"a.org", ""}, {"xa.com", ""}, {"com.a", ""}}},
		// precedence: name beats ALPN beats default; first of several
		{func() []*ctxSpec {
			return []*ctxSpec{st("d.test", nil, "", ""), st("p.test", nil, "h2", ""), st("q.test", nil, "h2,http/1.1", ""), st("", []string{"*.test"}, "sofa", ""), st("q.test", nil, "", "")}
		}, [][2]string{{"q.test", "h2"}, {"zz.test", "h2"}, {"none.org", "http/1.1"}, {"none.org", "http/1.1,h2"}, {"none.org", "sofa"}, {"none.org", "spdy/3"}, {"none.org", ""},
			{"p.test", "sofa"}, {"", "h2"}, {"", "sofa"}, {"", ""}, {"none.org", "H2"}, {"none.org", "h2c"}}},
		// readiness: pending sds contexts are skipped by every rule
		{func() []*ctxSpec {
			return []*ctxSpec{{kind: kSdsNever, cn: "a.test", alpn: "h2"}, {kind: kSdsPost, cn: "b.test", alpn: "http/1.1"}, {kind: kSdsNever, cn: "c.test"}, {kind: kSdsPre, cn: "a.test", alpn: "h2", sname: "c.test"}, st("e.test", nil, "", "")}
		}, [][2]string{{"a.test", ""}, {"c.test", ""}, {"none.org", "h2"}, {"none.org", ""}, {"b.test", "h2"}, {"e.test", "http/1.1"}}},
		{func() []*ctxSpec { return []*ctxSpec{{kind: kSdsNever, cn: "a.test"}, {kind: kSdsNever, cn: "b.test"}} }, [][2]string{{"a.test", "h2"}, {"", ""}}},
		{func() []*ctxSpec { return nil }, [][2]string{{"a.test", "h2"}, {"", ""}}},
		// repaired: sds contexts of one listener took the last context's config when the secret arrived afterwards
		{func() []*ctxSpec {
			return []*ctxSpec{{kind: kSdsPost, cn: "", sans: nil, alpn: "h2", sname: "a.com"}, {kind: kSdsPost, cn: "", alpn: "sofa", sname: "b.org"}, st("last.test", nil, "", "")}
		}, [][2]string{{"a.com", ""}, {"b.org", ""}, {"none.org", "h2"}, {"none.org", "sofa"}, {"none.org", ""}}},
		// repaired: the empty server_name was a match key (a ClientHello without SNI matched it)
		{func() []*ctxSpec {
			return []*ctxSpec{st("", []string{"*.io"}, "", "www.svc.b"), st("api.io", []string{"io"}, "h2", ""), st("c.io", nil, "http/1.1", "")}
		}, [][2]string{{"", ""}, {".", ""}, {"", "http/1.1"}, {"", "spdy/3"}, {"..", "h2"}}},
		// repaired: stored keys were not lower-cased
		{func() []*ctxSpec {
			return []*ctxSpec{st("d.test", nil, "", ""), st("Svc.SVC.io", []string{"*.WILD.io"}, "H2", "Name.IO"), st("svc.svc.io", nil, "h2", "")}
		}, [][2]string{{"svc.svc.io", ""}, {"SVC.svc.IO", ""}, {"x.wild.io", ""}, {"name.io", ""}, {"none.org", "h2"}, {"none.org", "H2"}}},
	}
	for _, b := range cases {
		for _, via := range []bool{false, true} {
			cs := b.cs()
			mng, err := buildManager(cs, false, nil)
			if err != nil {
				panic(err)
			}
			for _, h := range b.hellos {
				sni := h[0]
				var protos []string
				if h[1] != "" {
					protos = strings.Split(h[1], ",")
				}
				cls := "fixed+" + class(cs, sni, protos)
				tok := fmt.Sprintf("%s %s %s %s", cls, ctxsTok(cs), esc(sni), escList(protos))
				if !via {
					c.Emit("C13", "sel "+tok, selectDirect(mng, cs, sni, protos))
					c.Count("fixed.sel")
					continue
				}
				if strings.HasSuffix(sni, ".") || strings.HasPrefix(sni, ".") || strings.Contains(sni, "..") || sni == "*" {
					continue // not sent verbatim by a crypto/tls client
				}
				peer, _, _ := handshake(l, mng, &gotls.Config{ServerName: sni, NextProtos: protos, InsecureSkipVerify: true})
				out := "err"
				if peer != nil {
					out = whichCert(cs, peer)
				}
				c.Emit("C13", "hs "+tok, out)
				c.Count("fixed.hs")
			}
		}
	}
}

// Run: policy tables over every flag combination, selection directly and through handshakes, the inspector with real
// bytes, the two trust matrices.
func Run(c *hx.Ctx) {
	// the forked crypto/tls negotiates TLS 1.3 only with GODEBUG=tls13=1 (read once, at the first handshake)
	if gd := os.Getenv("GODEBUG"); !strings.Contains(gd, "tls13=") {
		if gd != "" {
			gd += ","
		}
		os.Setenv("GODEBUG", gd+"tls13=1")
	}
	log.DefaultLogger.SetLogLevel(log.FATAL)
	if err := mtls.Register(hookType, hookedFactory{}); err != nil {
		panic(err)
	}
	rightCA = newAuthority("verif right CA")
	otherCA = newAuthority("verif other CA")
	// hx.NewRng(seed) streams of consecutive seeds are the same stream shifted by one draw; a fork (seeded with a
	// hashed output) decorrelates them
	g := &gen{r: c.Rng.Fork().Fork(), c: c}
	l := newLoop()
	defer l.ln.Close()

	only := os.Getenv("C13_ONLY") // development aid: run a single family of kinds
	if only == "lb" {
		runLabelBoundaries(c, &gen{r: c.Rng.Fork().Fork().Fork().Fork().Fork(), c: c}, l, c.N(250, 1500))
		return
	}
	if only == "" || only == "res" {
		runResume(c, l, c.N(1, 3))
	}
	if only == "" || only == "upd" {
		runUpdateFixed(c, g)
		for i := 0; i < c.N(400, 2000); i++ {
			runUpdate(c, g, nil, -1)
		}
	}
	if only == "" || only == "trust2" {
		runTrust2(c, l)
	}
	if only == "" || only == "cconn" {
		runClientConnect(c, g)
	}
	if only == "" || only == "odst" {
		runOdst(c, &gen{r: c.Rng.Fork().Fork().Fork().Fork(), c: c})
	}
	if only == "" || only == "sdsu" {
		// own generator stream: the streams of the older kinds stay what they were
		gs := &gen{r: c.Rng.Fork().Fork().Fork(), c: c}
		runSdsuFixed(c, l)
		for i := 0; i < c.N(150, 700); i++ {
			runSdsuRandom(c, gs, l)
		}
	}
	if only == "" || only == "shr" {
		// sds contexts sharing secret names (share.go); own generator stream
		gh := &gen{r: c.Rng.Fork().Fork().Fork().Fork().Fork().Fork(), c: c}
		runShrFixed(c, l)
		for i := 0; i < c.N(600, 2500); i++ {
			runShrRandom(c, gh, l)
		}
	}
	if only != "" {
		if only == "res" {
			runResumeLate(c, l)
		}
		return
	}
	runPolicyTables(c)
	runBoundaries(c, l)
	// SNI strings on every label boundary of a stored name (labels.go); own generator stream
	runLabelBoundaries(c, &gen{r: c.Rng.Fork().Fork().Fork().Fork().Fork(), c: c}, l, c.N(250, 1500))
	runInspector(c, g, l)
	runTrustServer(c, g, l, c.N(2, 6))
	runTrustClient(c, g, l)
	modeOf := func(i int) int {
		switch {
		case i%10 == 7:
			return 1 // cross-namespace stream
		case i%10 == 9:
			return 2 // upper-case configuration stream
		}
		return 0
	}
	for i := 0; i < c.N(1500, 12000); i++ {
		runSelect(c, g, l, false, modeOf(i))
	}
	for i := 0; i < c.N(1000, 6000); i++ {
		runMatch(c, g, modeOf(i))
	}
	for i := 0; i < c.N(400, 1700); i++ {
		runSelect(c, g, l, true, modeOf(i))
	}
	for i := 0; i < c.N(300, 1500); i++ {
		runPolicyHandshake(c, g, l, modeOf(i))
	}
	runResumeLate(c, l)
}
