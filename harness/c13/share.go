//go:build verif

package c13

// kind shr: listeners whose sds tls contexts share / do not share certificate and validation secret names (the provider
// cache of pkg/mtls/secret_manager.go is keyed by validation name, certificate name and the index NewProvider is given).
// One line = a history on the real code: B<l>:<contexts> (mtls.NewTLSServerContextManager for listener L — the probed
// one — or O, another listener naming the same secrets; an update = another B for the same listener), W<cert><val> (a
// cluster's client manager naming these secrets), V<val> / K<cert><k> (the fake sds server delivers a validation secret /
// certificate number k), D<sni><alpn> (GetConfigForClient of L's LATEST manager directly: which certificate, which
// ClientAuthType, which NextProtos) and H<sni><alpn>.<peer> (a real handshake of a reference crypto/tls client of that
// peer class: which certificate, accepted or refused). Format and model: lean/MosnVerif/Drive/TlsShareDrive.lean.

import (
	"bytes"
	gotls "crypto/tls"
	"fmt"
	"strings"

	v2 "mosn.io/mosn/pkg/config/v2"
	"mosn.io/mosn/pkg/mtls"
	mtls_tls "mosn.io/mosn/pkg/mtls/crypto/tls"
	"mosn.io/mosn/pkg/types"
	"verif/harness/hx"
)

const shrDom = ".shr.test"

var shrSeq int

type shrRun struct {
	id     string
	static *leafCert
	certs  map[string]*leafCert // "<cert name><k>"
	mngs   map[byte]types.TLSContextManager
}

func (r *shrRun) sds(c, v byte) *v2.SdsConfig {
	if v == '0' {
		// no validation secret: the trust anchors are the host's root store (emulated: sysroots.go)
		return &v2.SdsConfig{CertificateConfig: &v2.SecretConfigWrapper{Name: r.id + "-" + string(c)}}
	}
	return &v2.SdsConfig{CertificateConfig: &v2.SecretConfigWrapper{Name: r.id + "-" + string(c)}, ValidationConfig: &v2.SecretConfigWrapper{Name: r.id + "-" + string(v)}}
}

var shrAlpn = map[byte]string{'0': "", 'h': "h2", 't': "http/1.1"}

func shrSname(b byte) string {
	if b == '0' {
		return ""
	}
	return string(b) + shrDom
}

func (r *shrRun) build(l byte, ctxs []string) error {
	var tcs []v2.TLSConfig
	for _, c := range ctxs {
		if c == "-" {
			tcs = append(tcs, v2.TLSConfig{Status: true, CertChain: r.static.certPEM, PrivateKey: r.static.keyPEM})
			continue
		}
		tcs = append(tcs, v2.TLSConfig{Status: true, VerifyClient: c[2] == '1', RequireClientCert: c[3] == '1', ServerName: shrSname(c[4]),
			ALPN: shrAlpn[c[5]], SdsConfig: r.sds(c[0], c[1])})
	}
	ln := &v2.Listener{ListenerConfig: v2.ListenerConfig{Name: r.id + string(l), FilterChains: []v2.FilterChain{{TLSContexts: tcs}}}}
	m, err := mtls.NewTLSServerContextManager(ln)
	if err != nil {
		return err
	}
	r.mngs[l] = m
	return nil
}

func (r *shrRun) certID(der []byte) string {
	if bytes.Equal(der, r.static.der) {
		return "d"
	}
	for id, lc := range r.certs {
		if bytes.Equal(der, lc.der) {
			return id
		}
	}
	return "unknown"
}

func shrSNI(b byte) string {
	switch b {
	case '0':
		return ""
	case 'n':
		return "none" + shrDom
	case 's':
		return "static" + shrDom
	}
	return string(b) + shrDom
}

func shrProtos(b byte) []string {
	switch b {
	case 'h':
		return []string{"h2"}
	case 't':
		return []string{"http/1.1"}
	case 'b':
		return []string{"h2", "http/1.1"}
	}
	return nil
}

func (r *shrRun) direct(sni string, protos []string) string {
	g, ok := r.mngs['L'].(getConfig)
	if !ok {
		return "no-method"
	}
	out := "panic"
	hx.Safe(func() {
		cfg, err := g.GetConfigForClient(&mtls_tls.ClientHelloInfo{ServerName: sni, SupportedProtos: protos})
		switch {
		case err != nil:
			out = "err"
		case cfg == nil || len(cfg.Certificates) == 0:
			out = "nil"
		default:
			al := "0"
			if len(cfg.NextProtos) > 0 {
				al = map[string]string{"h2": "h", "http/1.1": "t"}[cfg.NextProtos[0]]
			}
			out = fmt.Sprintf("%s.%d.%s", r.certID(cfg.Certificates[0].Certificate[0]), int(cfg.ClientAuth), al)
		}
	})
	return out
}

func (r *shrRun) shake(l *loop, sni string, protos []string, pk string, v12 bool) string {
	ccfg := &gotls.Config{ServerName: sni, NextProtos: protos, InsecureSkipVerify: true}
	if v12 {
		ccfg.MaxVersion = gotls.VersionTLS12
	}
	withPeer(ccfg, pk)
	peer, _, serr := handshake(l, r.mngs['L'], ccfg)
	w := "err"
	if peer != nil {
		w = r.certID(peer)
	}
	if serr != nil {
		return w + ".fail"
	}
	return w + ".ok"
}

// runShr executes one history on the real code and emits the line.
func runShr(c *hx.Ctx, l *loop, cls string, ops []string, v12 bool) {
	sdsInit()
	peersInit()
	if _, ok := peerCerts["sys"]; !ok {
		// a client certificate of the authority that IS the process's system root store
		if msg := sysStoreCheck(otherCA); msg != "" {
			panic("c13 shr: system root store emulation not in force: " + msg)
		}
		sc := leaf(sysCA, "client.sys", []string{"client.sys"}, false)
		peerCerts["sys"] = &gotls.Certificate{Certificate: [][]byte{sc.der}, PrivateKey: sc.key}
	}
	shrSeq++
	r := &shrRun{id: fmt.Sprintf("shr%d", shrSeq), certs: map[string]*leafCert{}, mngs: map[byte]types.TLSContextManager{}}
	r.static = leaf(rightCA, "static"+shrDom, []string{"static" + shrDom}, false)
	var obs []string
	for _, op := range ops {
		switch op[0] {
		case 'B':
			if err := r.build(op[1], strings.Split(op[3:], ";")); err != nil {
				c.Count("shr.build-error")
				return
			}
		case 'W':
			cfg := &v2.TLSConfig{Status: true, SdsConfig: r.sds(op[1], op[2])}
			if _, err := mtls.NewTLSClientContextManager(r.id+op, cfg); err != nil {
				c.Count("shr.build-error")
				return
			}
		case 'V':
			n := r.id + "-" + op[1:2]
			sdsClient.SetSecret(n, &types.SdsSecret{Name: n, ValidationPEM: rightCA.pem})
		case 'K':
			id := op[1:]
			lc := r.certs[id]
			if lc == nil {
				lc = leaf(rightCA, op[1:2]+shrDom, []string{op[1:2] + shrDom}, false)
				r.certs[id] = lc
			}
			n := r.id + "-" + op[1:2]
			sdsClient.SetSecret(n, &types.SdsSecret{Name: n, CertificatePEM: lc.certPEM, PrivateKeyPEM: lc.keyPEM})
		case 'D':
			o := r.direct(shrSNI(op[1]), shrProtos(op[2]))
			obs = append(obs, o)
			c.Count("shr.direct=" + strings.TrimLeft(o, "xyd0123456789"))
		case 'H':
			o := r.shake(l, shrSNI(op[1]), shrProtos(op[2]), op[4:], v12)
			obs = append(obs, o)
			c.Count("shr.handshake=" + o[strings.IndexByte(o, '.')+1:])
		}
	}
	c.Emit("C13", fmt.Sprintf("shr %s %s", cls, strings.Join(ops, "|")), strings.Join(obs, ","))
	c.Count("shr.cls=" + cls)
}

// shrClass: how the sds contexts of a context list share secret names.
func shrClass(ctxs []string) string {
	both, cert, val, none := false, false, false, false
	var s []string
	for _, c := range ctxs {
		if c != "-" {
			s = append(s, c)
		}
	}
	for i := range s {
		for j := i + 1; j < len(s); j++ {
			switch {
			case s[i][0] == s[j][0] && s[i][1] == s[j][1]:
				both = true
			case s[i][0] == s[j][0]:
				cert = true
			case s[i][1] == s[j][1]:
				val = true
			default:
				none = true
			}
		}
	}
	var fl []string
	for _, x := range []struct {
		b bool
		n string
	}{{both, "both"}, {cert, "cert"}, {val, "val"}, {none, "apart"}} {
		if x.b {
			fl = append(fl, x.n)
		}
	}
	noval := ""
	for _, x := range s {
		if x[1] == '0' {
			noval = "+noval"
			break
		}
	}
	if len(fl) == 0 {
		return "single" + noval
	}
	return strings.Join(fl, "+") + noval
}

var shrSysProbes = []string{"Ha0.none", "Ha0.sys", "Ha0.right", "Ha0.self", "Ha0.other", "Hb0.none", "Hb0.sys", "Hb0.right", "Hb0.self", "Hc0.none", "Hc0.sys", "Hc0.right", "Hc0.other",
	"Hn0.none", "Hnh.right", "Hnh.sys", "Da0", "Db0", "Dc0", "Dnh"}

var shrProbes = []string{"Da0", "Db0", "Dc0", "Dn0", "Dnh", "Dnt", "Dx0", "Dy0", "Ds0", "D00", "Ha0.none", "Hb0.none", "Ha0.right", "Hn0.none", "Hc0.other", "Hnh.none", "Hx0.none"}

// runShrFixed: the reported scenario and its neighbours, secrets after / before construction, updates in between.
func runShrFixed(c *hx.Ctx, l *loop) {
	hist := [][]string{
		// [A: a, verify+require] [B: b, no client auth, h2], same secrets; delivered after construction
		{"BL:xp11a0;xp00bh", "Vp", "Kx1"},
		// delivered before construction (the pem provider exists through a cluster naming the same secrets)
		{"Wxp", "Vp", "Kx1", "BL:xp11a0;xp00bh"},
		// the other order, three contexts, a static one in between
		{"BL:xp00bh;-;xp11a0;xp10ct", "Kx1", "Vp"},
		// share the certificate name only / the validation name only / nothing
		{"BL:xp11a0;xq00bh", "Vp", "Vq", "Kx1"},
		{"BL:xp11a0;yp00bh", "Vp", "Kx1", "Ky1"},
		{"BL:xp11a0;yq00bh", "Vp", "Vq", "Kx1", "Ky1"},
		// sds contexts WITHOUT a validation secret (host root store), every flag combination, next to one with a validation secret
		{"BL:x011a0;x010b0;x001c0;x0000h", "Kx1"},
		{"Kx9", "Wx0", "Kx1", "BL:x011a0;xp11b0;x010ch", "Vp"},
		{"BL:y011at;xp11b0;y010c0", "Vp", "Kx1", "Ky1"},
		// a second listener and a cluster naming the same secrets
		{"BL:xp11a0;xp00bh", "Vp", "Kx1", "BO:xp01c0;xp10a0", "Wxp"},
	}
	for _, h := range hist {
		for _, v12 := range []bool{false, true} {
			ops := append([]string{}, h...)
			ops = append(ops, shrProbes...)
			if strings.Contains(strings.Join(h, "|"), "011") {
				ops = append(ops, shrSysProbes...)
			}
			// an update that swaps the policies, a rotation, an update that drops / adds a context
			ops = append(ops, "BL:xp00ah;xp11b0")
			ops = append(ops, shrProbes...)
			ops = append(ops, "Kx2")
			ops = append(ops, shrProbes[:8]...)
			ops = append(ops, "BL:xp01b0")
			ops = append(ops, shrProbes[:8]...)
			ops = append(ops, "BL:xp01b0;xp10ah;xp11c0")
			ops = append(ops, shrProbes...)
			var first []string
			for _, o := range h {
				if strings.HasPrefix(o, "BL:") {
					first = strings.Split(o[3:], ";")
				}
			}
			runShr(c, l, "fixed+"+shrClass(first), ops, v12)
			c.Count("shr.fixed")
		}
	}
}

func (g *gen) shrCtx(prev string) string {
	if g.r.Chance(12) {
		return "-"
	}
	cert, val := "xy"[g.r.Intn(2)], "pq0"[g.r.Intn(3)]
	if prev != "" && prev != "-" && g.r.Chance(60) {
		cert, val = prev[0], prev[1]
	}
	return fmt.Sprintf("%c%c%d%d%c%c", cert, val, g.r.Intn(2), g.r.Intn(2), "0abc"[g.r.Intn(4)], "00ht"[g.r.Intn(4)])
}

func (g *gen) shrCtxs() []string {
	n := 1 + g.r.Intn(4)
	var cs []string
	prev := ""
	for i := 0; i < n; i++ {
		c := g.shrCtx(prev)
		if c != "-" {
			prev = c
		}
		cs = append(cs, c)
	}
	return cs
}

var shrPeers = []string{"none", "none", "self", "other", "right", "right", "sys", "sys", "expired", "stolen"}

func (g *gen) shrProbe() string {
	sni := "aabbccnnxys0"[g.r.Intn(12)]
	al := "000htb"[g.r.Intn(6)]
	if g.r.Chance(75) {
		return fmt.Sprintf("D%c%c", sni, al)
	}
	return fmt.Sprintf("H%c%c.%s", sni, al, g.r.PickS(shrPeers))
}

// shrMutate: a listener update — flip one policy field, swap two contexts, drop / add a context, rename a secret.
func (g *gen) shrMutate(cs []string) []string {
	out := append([]string{}, cs...)
	i := g.r.Intn(len(out))
	switch k := g.r.Intn(100); {
	case k < 40 && out[i] != "-":
		b := []byte(out[i])
		switch g.r.Intn(4) {
		case 0:
			b[2] ^= 1
		case 1:
			b[3] ^= 1
		case 2:
			b[4] = "0abc"[g.r.Intn(4)]
		default:
			b[5] = "0ht"[g.r.Intn(3)]
		}
		out[i] = string(b)
	case k < 60 && len(out) > 1:
		j := g.r.Intn(len(out))
		out[i], out[j] = out[j], out[i]
	case k < 72 && len(out) > 1:
		out = append(out[:i], out[i+1:]...)
	case k < 88 && len(out) < 5:
		out = append(out, g.shrCtx(out[len(out)-1]))
	case out[i] != "-":
		b := []byte(out[i])
		if i := g.r.Intn(2); i == 1 && (b[1] == '0' || g.r.Chance(30)) {
			b[1] = map[byte]byte{'0': 'p', 'p': '0', 'q': '0'}[b[1]] // gains / loses its validation secret
		} else {
			b[i] ^= 1 // x<->y / p<->q
		}
		out[i] = string(b)
	}
	return out
}

func runShrRandom(c *hx.Ctx, g *gen, l *loop) {
	cs := g.shrCtxs()
	var ops []string
	k := map[byte]int{}
	deliver := func(all bool) {
		for _, v := range "pq" {
			if all || g.r.Chance(70) {
				ops = append(ops, fmt.Sprintf("V%c", v))
			}
		}
		for _, ce := range "xy" {
			if all || g.r.Chance(70) {
				k[byte(ce)]++
				ops = append(ops, fmt.Sprintf("K%c%d", ce, k[byte(ce)]))
			}
		}
	}
	timing := "after"
	if g.r.Chance(35) {
		// the secrets are known before the listener is built: pem providers exist through clusters naming them
		timing = "before"
		for _, x := range cs {
			if x != "-" && g.r.Chance(80) {
				ops = append(ops, fmt.Sprintf("W%c%c", x[0], x[1]))
			}
		}
		deliver(false)
	}
	ops = append(ops, "BL:"+strings.Join(cs, ";"))
	if g.r.Chance(20) {
		ops = append(ops, g.shrProbe())
	}
	deliver(g.r.Chance(60))
	ops = append(ops, g.shrProbe(), g.shrProbe())
	updates := 0
	for n := 2 + g.r.Intn(6); n > 0; n-- {
		switch x := g.r.Intn(100); {
		case x < 30:
			cs = g.shrMutate(cs)
			ops = append(ops, "BL:"+strings.Join(cs, ";"), g.shrProbe())
			updates++
		case x < 40:
			ops = append(ops, "BO:"+strings.Join(g.shrCtxs(), ";"), g.shrProbe())
		case x < 46:
			ops = append(ops, fmt.Sprintf("W%c%c", "xy"[g.r.Intn(2)], "pq0"[g.r.Intn(3)]))
		case x < 56:
			ops = append(ops, fmt.Sprintf("V%c", "pq"[g.r.Intn(2)]))
		case x < 70:
			ce := "xy"[g.r.Intn(2)]
			k[ce]++
			ops = append(ops, fmt.Sprintf("K%c%d", ce, k[ce]), g.shrProbe())
		default:
			ops = append(ops, g.shrProbe())
		}
	}
	for _, x := range cs {
		if x != "-" && x[4] != '0' {
			ops = append(ops, fmt.Sprintf("D%c0", x[4]), fmt.Sprintf("H%c0.none", x[4]))
			if x[1] == '0' {
				ops = append(ops, fmt.Sprintf("H%c0.%s", x[4], g.r.PickS([]string{"sys", "right", "self", "other"})))
				c.Count(fmt.Sprintf("shr.novalidation.verify=%c.require=%c", x[2], x[3]))
			}
		}
	}
	ops = append(ops, g.shrProbe())
	c.Count(fmt.Sprintf("shr.contexts=%d", len(cs)))
	c.Count("shr.timing=" + timing)
	c.Count(fmt.Sprintf("shr.updates=%d", updates))
	runShr(c, l, shrClass(cs), ops, g.r.Bool())
}
