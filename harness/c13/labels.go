//go:build verif

package c13

// Label boundaries of the SNI (kinds sel / msn / hs, class label prefixed `lb.<form>`): for a name stored by one of
// the listener's contexts (certificate CN, SAN, server_name; wildcard or not) every ClientHello server name that sits
// on a label boundary of it is sent to the real GetConfigForClient (and to the owning provider's MatchedServerName):
// the bare suffix, 1..6 extra labels, a partial label glued to the suffix, the suffix cut inside its first label, empty
// labels, trailing dots, upper case, names of exactly 253 bytes (few long labels / ~120 one-letter labels) and longer.
// Own generator stream; the distribution is printed (lb.form=…, lb.suffix-labels=…, lb.target=…, lb.sel=…, lb.msn=…).

import (
	"fmt"
	"strings"

	gotls "crypto/tls"

	v2 "mosn.io/mosn/pkg/config/v2"
	"mosn.io/mosn/pkg/mtls"
	"verif/harness/hx"
)

type lbForm struct {
	name string
	sni  string
	wire bool // a crypto/tls client puts this name on the wire unchanged
}

// padName returns labels + "." + suffix of exactly total bytes (labels of labelLen letters, the first one adjusted);
// "" if the suffix leaves no room.
func padName(total, labelLen int, suffix string) string {
	room := total - len(suffix) // bytes for "l1.l2.….lk."
	if room < 2 {
		return ""
	}
	var sb strings.Builder
	for room > 0 {
		l := labelLen
		if room-(l+1) == 1 { // would leave room for a dot only
			if l > 1 {
				l--
			} else {
				l++
			}
		}
		if l+1 > room {
			l = room - 1
		}
		if l <= 0 {
			return ""
		}
		sb.WriteString(strings.Repeat("a", l))
		sb.WriteByte('.')
		room -= l + 1
	}
	return sb.String() + suffix
}

func lbForms(r *hx.Rng, suffix string) []lbForm {
	lab := func() string { return r.PickS(labelPool) }
	var fs []lbForm
	add := func(n, s string, wire bool) {
		if s != "" && s != "." {
			fs = append(fs, lbForm{n, s, wire})
		}
	}
	fs = append(fs, lbForm{"no-sni", "", true})
	add("d0-bare-suffix", suffix, true)
	pre := ""
	for k := 1; k <= 6; k++ {
		pre = lab() + "." + pre
		add(fmt.Sprintf("d%d", k), pre+suffix, true)
	}
	add("partial-label", lab()+suffix, true)                      // xa.com against *.a.com
	add("partial-label-deep", lab()+"."+lab()+suffix, true)       // b.xa.com
	add("wild-literal", "*."+suffix, false)                       // the key itself
	add("wild-deeper", "*."+lab()+"."+suffix, false)              // *.x.a.com
	add("empty-first", "."+suffix, false)                         // one empty label
	add("empty-middle", lab()+".."+suffix, false)                 // a..a.com
	add("empty-two", ".."+suffix, false)                          // two empty labels
	add("trailing-dot", lab()+"."+suffix+".", false)              // absolute name
	add("trailing-dots", lab()+"."+suffix+"...", false)
	add("bare-trailing-dot", suffix+".", false)
	add("upper", strings.ToUpper(lab()+"."+suffix), true)
	add("upper-mixed", mixCase(r, lab()+"."+lab()+"."+suffix), true)
	add("upper-trailing-dot", strings.ToUpper(lab()+"."+suffix)+".", false)
	add("suffix-then-more", lab()+"."+suffix+"."+lab(), true) // the suffix is not at the end
	if i := strings.IndexByte(suffix, '.'); i > 1 {
		add("cut-first-label", suffix[1:], true) // .com side of the boundary: `com` for `a.com` is "d0" of the parent
		add("parent", suffix[i+1:], true)
	}
	add("len253-long-labels", padName(253, 63, suffix), true)
	add("len253-short-labels", padName(253, 1, suffix), true)
	add("len254", padName(254, 63, suffix), false)
	add("len253-trailing-dot", padName(253, 63, suffix)+".", false)
	add("len300", padName(300, 63, suffix), false)
	add("len253-upper", strings.ToUpper(padName(253, 40, suffix)), true)
	return fs
}

// lbTarget picks the stored name the boundaries are taken of: (context index, the name, its suffix, wildcard?).
func lbTarget(r *hx.Rng, cs []*ctxSpec) (int, string, string, bool) {
	type cand struct {
		i int
		n string
	}
	var all, wild []cand
	for i, c := range cs {
		for _, n := range append([]string{c.cn, c.sname}, c.sans...) {
			if n == "" || strings.Contains(n, " ") {
				continue
			}
			all = append(all, cand{i, n})
			if strings.HasPrefix(n, "*.") {
				wild = append(wild, cand{i, n})
			}
		}
	}
	if len(all) == 0 {
		return -1, "", "", false
	}
	pick := all[r.Intn(len(all))]
	if len(wild) > 0 && r.Chance(70) {
		pick = wild[r.Intn(len(wild))]
	}
	if strings.HasPrefix(pick.n, "*.") {
		return pick.i, pick.n, pick.n[2:], true
	}
	return pick.i, pick.n, pick.n, false
}

// runEmptySAN: the repaired defect (an empty dNSName SAN was a match key): fixed listeners, directly and through a
// handshake without SNI.
func runEmptySAN(c *hx.Ctx, l *loop) {
	mk := func() []*ctxSpec {
		return []*ctxSpec{{kind: kStatic, cn: "first.test"}, {kind: kStatic, sans: []string{"", "b.test"}}, {kind: kStatic, cn: "c.test", alpn: "h2"},
			{kind: kStatic, cn: "", sans: []string{""}, sname: "d.test"}}
	}
	hellos := [][2]string{{"", "h2"}, {"", ""}, {".", "h2"}, {"b.test", ""}, {"d.test", "h2"}, {"..", ""}, {"x.b.test", "h2"}}
	for _, via := range []bool{false, true} {
		cs := mk()
		mng, err := buildManager(cs, false, nil)
		if err != nil {
			panic(err)
		}
		for _, h := range hellos {
			var protos []string
			if h[1] != "" {
				protos = strings.Split(h[1], ",")
			}
			cls := "fixed+" + class(cs, h[0], protos)
			tok := fmt.Sprintf("%s %s %s %s", cls, ctxsTok(cs), esc(h[0]), escList(protos))
			if !via {
				c.Emit("C13", "sel "+tok, selectDirect(mng, cs, h[0], protos))
				c.Count("fixed.sel")
				continue
			}
			if strings.Contains(h[0], "..") || strings.HasSuffix(h[0], ".") {
				continue
			}
			peer, _, _ := handshake(l, mng, &gotls.Config{ServerName: h[0], NextProtos: protos, InsecureSkipVerify: true})
			out := "err"
			if peer != nil {
				out = whichCert(cs, peer)
			}
			c.Emit("C13", "hs "+tok, out)
			c.Count("fixed.hs")
		}
	}
}

func runLabelBoundaries(c *hx.Ctx, g *gen, l *loop, n int) {
	runEmptySAN(c, l)
	for it := 0; it < n; it++ {
		bases := g.bases()
		upper := it%7 == 3
		cs := g.contexts(bases, upper, false)
		if len(cs) == 0 {
			continue
		}
		// most listeners carry a wildcard whose suffix has 1..4 labels, as a SAN, the CN or the server_name
		if g.r.Chance(70) {
			k := 1 + g.r.Intn(4)
			p := make([]string, k)
			for i := range p {
				p[i] = g.r.PickS(labelPool)
			}
			w := "*." + strings.Join(p, ".")
			if upper && g.r.Bool() {
				w = mixCase(g.r, w)
			}
			x := cs[g.r.Intn(len(cs))]
			switch g.r.Intn(3) {
			case 0:
				x.sans = append(x.sans, w)
			case 1:
				x.cn = w
			default:
				x.sname = w
			}
		}
		if g.r.Chance(8) {
			x := cs[g.r.Intn(len(cs))]
			x.sans = append(x.sans, "")
			c.Count("lb.empty-san")
		}
		ti, tname, suffix, wild := lbTarget(g.r, cs)
		if ti < 0 {
			continue
		}
		suffix = strings.ToLower(suffix)
		mng, err := buildManager(cs, false, nil)
		if err != nil {
			c.Count("lb.build-error")
			continue
		}
		x := cs[ti]
		p, err := mtls.NewProvider("server_c13labels", &v2.TLSConfig{Status: true, ALPN: x.alpn, ServerName: x.sname, CertChain: x.cert.certPEM, PrivateKey: x.cert.keyPEM})
		if err != nil || p == nil {
			c.Count("lb.build-error")
			continue
		}
		c.Count(fmt.Sprintf("lb.suffix-labels=%d", strings.Count(suffix, ".")+1))
		c.Count("lb.target=" + map[bool]string{true: "wildcard", false: "plain"}[wild])
		_ = tname
		var protos []string
		if g.r.Chance(30) {
			protos = g.protos(true)
		}
		for _, f := range lbForms(g.r, suffix) {
			cls := "lb." + f.name + "+" + class(cs, f.sni, protos)
			tok := fmt.Sprintf("%s %s %s %s", cls, ctxsTok(cs), esc(f.sni), escList(protos))
			out := selectDirect(mng, cs, f.sni, protos)
			c.Emit("C13", "sel "+tok, out)
			c.Count("lb.form=" + f.name)
			c.Count("lb.sel=" + map[bool]string{true: "target-context", false: "other"}[out == fmt.Sprint(ti)])
			r := p.MatchedServerName(f.sni)
			c.Emit("C13", fmt.Sprintf("msn %s %s %s", "lb."+f.name+"+"+class(cs[ti:ti+1], f.sni, nil), x.tok(), esc(f.sni)), map[bool]string{true: "T", false: "F"}[r])
			c.Count(fmt.Sprintf("lb.msn=%v", r))
			// a sample of the names a client can put on the wire also goes through a real handshake
			if f.wire && it%5 == 0 {
				peer, _, _ := handshake(l, mng, &gotls.Config{ServerName: f.sni, NextProtos: protos, InsecureSkipVerify: true})
				hout := "err"
				if peer != nil {
					hout = whichCert(cs, peer)
				}
				c.Emit("C13", "hs "+tok, hout)
				c.Count("lb.hs")
			}
		}
	}
}
