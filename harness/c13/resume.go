//go:build verif

package c13

// kind res: the server-side trust matrix across SESSION RESUMPTION. A reference crypto/tls client with a session cache
// does a full handshake against the real context manager, the server's view of the client certificate changes (the
// certificate expires — real time, a certificate valid for a few seconds — or the CA of the answering context is
// replaced: sds validation rotation, or the ticket is offered to another context of the same listener), then the client
// comes back offering the ticket. Whether the second handshake was abbreviated is recorded (DidResume, both ends); its
// result must be the trust table's for the certificate AS IT IS NOW.

import (
	gotls "crypto/tls"
	"crypto/x509"
	"errors"
	"fmt"
	"strings"
	"sync"
	"time"

	v2 "mosn.io/mosn/pkg/config/v2"
	"mosn.io/mosn/pkg/mtls"
	"mosn.io/mosn/pkg/types"
	"verif/harness/hx"
)

// resCache is a client session cache that offers the last ticket it was given whatever the key (a client is free to
// offer any ticket it holds to any server name).
type resCache struct {
	mu   sync.Mutex
	s    *gotls.ClientSessionState
	puts int
}

func (r *resCache) Get(string) (*gotls.ClientSessionState, bool) {
	r.mu.Lock()
	defer r.mu.Unlock()
	return r.s, r.s != nil
}

func (r *resCache) Put(_ string, s *gotls.ClientSessionState) {
	r.mu.Lock()
	defer r.mu.Unlock()
	r.s = s
	if s != nil {
		r.puts++
	}
}

func (r *resCache) has() bool {
	r.mu.Lock()
	defer r.mu.Unlock()
	return r.s != nil
}

type resResult struct {
	ok               bool
	sResumed         bool // server side ConnectionState().DidResume
	cResumed         bool // client side
	serverSawPeer    bool // the server reports a peer certificate
	clientHandshakOK bool
	version          uint16 // negotiated version as the client saw it
}

// handshakeRes is handshake() reporting both ends' DidResume.
func handshakeRes(l *loop, mng types.TLSContextManager, ccfg *gotls.Config) (r resResult) {
	cc, sc := l.pair()
	defer cc.Close()
	defer sc.Close()
	cc.SetDeadline(time.Now().Add(hsTimeout))
	sc.SetDeadline(time.Now().Add(hsTimeout))
	type sres struct {
		err     error
		resumed bool
		peer    bool
	}
	done := make(chan sres, 1)
	go func() {
		conn, err := mng.Conn(sc)
		if err != nil {
			sc.Close()
			done <- sres{err: err}
			return
		}
		tc, ok := conn.(*mtls.TLSConn)
		if !ok {
			sc.Close()
			done <- sres{err: errors.New("not a TLS connection")}
			return
		}
		err = tc.Handshake()
		var out sres
		out.err = err
		if err == nil {
			st := tc.ConnectionState()
			out.resumed = st.DidResume
			out.peer = len(st.PeerCertificates) > 0
			tc.Write([]byte("k")) // lets the client read its TLS 1.3 tickets
		} else {
			sc.Close()
		}
		done <- out
	}()
	client := gotls.Client(cc, ccfg)
	cerr := client.Handshake()
	if cerr == nil {
		r.clientHandshakOK = true
		b := make([]byte, 1)
		client.Read(b)
		r.cResumed = client.ConnectionState().DidResume
		r.version = client.ConnectionState().Version
	} else {
		cc.Close()
	}
	s := <-done
	r.ok = s.err == nil
	r.sResumed = s.resumed
	r.serverSawPeer = s.peer
	return
}

// a pending second half of a real-time expiry scenario
type resPending struct {
	caseTok  string
	first    string
	mng      types.TLSContextManager
	ccfg     *gotls.Config
	notAfter time.Time
}

var resQueue []*resPending

const resValidity = 5 * time.Second

// shortPeer issues a right-CA client certificate valid for resValidity from now.
func shortPeer() (*gotls.Certificate, time.Time) {
	na := time.Now().Add(resValidity).Truncate(time.Second)
	lf := leafUntil(rightCA, "client.short", nil, na)
	return &gotls.Certificate{Certificate: [][]byte{lf.der}, PrivateKey: lf.key}, na
}

func okfail(b bool) string {
	if b {
		return "ok"
	}
	return "fail"
}

func rf(b bool) string {
	if b {
		return "r"
	}
	return "f"
}

var resSeq int

// resManager builds the listener of one scenario. how: static | sds (one sds context with a validation secret) |
// xctx (two static contexts, the second one trusting the OTHER authority).
func resManager(how string, req, ver bool) (mng types.TLSContextManager, valName string, err error) {
	set := func(t *v2.TLSConfig, ca string) { t.RequireClientCert, t.VerifyClient, t.CACert = req, ver, ca }
	switch how {
	case "static":
		mng, err = buildManager([]*ctxSpec{{kind: kStatic, cn: "a.res.test", sans: []string{"a.res.test"}}}, false, func(i int, t *v2.TLSConfig) { set(t, rightCA.pem) })
	case "xctx":
		mng, err = buildManager([]*ctxSpec{{kind: kStatic, cn: "a.res.test", sans: []string{"a.res.test"}}, {kind: kStatic, cn: "b.res.test", sans: []string{"b.res.test"}}}, false,
			func(i int, t *v2.TLSConfig) {
				if i == 0 {
					set(t, rightCA.pem)
				} else {
					set(t, otherCA.pem)
				}
			})
	case "sds":
		sdsInit()
		resSeq++
		valName = fmt.Sprintf("resval%d", resSeq)
		mng, err = buildManager([]*ctxSpec{{kind: kSdsPost, cn: "a.res.test", sans: []string{"a.res.test"}}}, false, func(i int, t *v2.TLSConfig) {
			t.RequireClientCert, t.VerifyClient = req, ver
			t.SdsConfig.ValidationConfig = &v2.SecretConfigWrapper{Name: valName}
		})
		if err == nil {
			sdsClient.SetSecret(valName, &types.SdsSecret{Name: valName, ValidationPEM: rightCA.pem})
		}
	}
	return
}

func resClientCfg(v12 bool, sni string, cache *resCache, cert *gotls.Certificate) *gotls.Config {
	ccfg := &gotls.Config{ServerName: sni, InsecureSkipVerify: true, ClientSessionCache: cache,
		VerifyPeerCertificate: func([][]byte, [][]*x509.Certificate) error { return nil }}
	if v12 {
		ccfg.MaxVersion = gotls.VersionTLS12
	}
	if cert != nil {
		ccfg.GetClientCertificate = func(*gotls.CertificateRequestInfo) (*gotls.Certificate, error) { return cert, nil }
	}
	return ccfg
}

func verTok(v12 bool) string {
	if v12 {
		return "v12"
	}
	return "v13"
}

func resEmit(c *hx.Ctx, caseTok, first string, r2 resResult) {
	resumed := r2.sResumed
	if r2.sResumed != r2.cResumed && r2.ok && r2.clientHandshakOK {
		c.Count("res.didresume-ends-differ")
	}
	if r2.clientHandshakOK {
		c.Count(fmt.Sprintf("res.negotiated=0x%04x", r2.version))
	}
	c.Emit("C13", "res "+caseTok, first+" "+okfail(r2.ok)+" "+rf(resumed))
	c.Count(fmt.Sprintf("res.second=%s/didResume=%v", okfail(r2.ok), resumed))
}

// runResume: phase 1 of every scenario; the scenarios that need real time to pass are queued for runResumeLate.
func runResume(c *hx.Ctx, l *loop, reps int) {
	peersInit()
	for rep := 0; rep < reps; rep++ {
		for _, v12 := range []bool{true, false} {
			for _, req := range []bool{false, true} {
				for _, ver := range []bool{false, true} {
					// (a) nothing changes / the CA is replaced: every peer kind
					for _, how := range []string{"static", "sds", "xctx"} {
						for _, pk := range peerKinds {
							if how != "static" && rep > 0 && (pk == "stolen" || pk == "self") {
								continue
							}
							mng, valName, err := resManager(how, req, ver)
							if err != nil {
								panic(err)
							}
							cache := &resCache{}
							var cert *gotls.Certificate
							if pk != "none" {
								cert = peerCerts[pk]
							}
							r1 := handshakeRes(l, mng, resClientCfg(v12, "a.res.test", cache, cert))
							change, sni2 := "none", "a.res.test"
							switch how {
							case "sds":
								change = "caswap"
								sdsClient.SetSecret(valName, &types.SdsSecret{Name: valName, ValidationPEM: otherCA.pem})
							case "xctx":
								change, sni2 = "caswap", "b.res.test"
							}
							if !cache.has() {
								c.Count("res.no-ticket-after-first/" + okfail(r1.ok))
							}
							r2 := handshakeRes(l, mng, resClientCfg(v12, sni2, cache, cert))
							resEmit(c, fmt.Sprintf("%s+%s %s %s %s %s", verTok(v12), how, b01(req), b01(ver), pk, change), okfail(r1.ok), r2)
						}
					}
					// (b) the certificate expires between the two handshakes (real time)
					mng, _, err := resManager("static", req, ver)
					if err != nil {
						panic(err)
					}
					cert, na := shortPeer()
					cache := &resCache{}
					ccfg := resClientCfg(v12, "a.res.test", cache, cert)
					r1 := handshakeRes(l, mng, ccfg)
					if time.Now().After(na.Add(-1500 * time.Millisecond)) {
						c.Count("res.skew-first-too-late") // the machine stalled: the certificate may have expired already
						continue
					}
					// a resumption while the certificate is still valid (control), then the late one
					r2 := handshakeRes(l, mng, ccfg)
					if time.Now().After(na.Add(-1000 * time.Millisecond)) {
						c.Count("res.skew-first-too-late")
						continue
					}
					resEmit(c, fmt.Sprintf("%s+short %s %s right none", verTok(v12), b01(req), b01(ver)), okfail(r1.ok), r2)
					resQueue = append(resQueue, &resPending{
						caseTok: fmt.Sprintf("%s+short %s %s right clock", verTok(v12), b01(req), b01(ver)),
						first:   okfail(r1.ok), mng: mng, ccfg: ccfg, notAfter: na})
				}
			}
		}
	}
}

// runResumeLate: the second handshakes of the expiry scenarios, once every queued certificate has expired.
func runResumeLate(c *hx.Ctx, l *loop) {
	var last time.Time
	for _, p := range resQueue {
		if p.notAfter.After(last) {
			last = p.notAfter
		}
	}
	if d := time.Until(last.Add(1200 * time.Millisecond)); d > 0 {
		c.Count("res.waited-for-expiry")
		time.Sleep(d)
	}
	for _, p := range resQueue {
		r2 := handshakeRes(l, p.mng, p.ccfg)
		resEmit(c, p.caseTok, p.first, r2)
		// and once more without a ticket: the full handshake sees the expired certificate too
		cfg := p.ccfg.Clone()
		cfg.ClientSessionCache = nil
		r3 := handshakeRes(l, p.mng, cfg)
		resEmit(c, strings.Replace(p.caseTok, "+short", "+short+noticket", 1), p.first, r3)
	}
	resQueue = nil
}
