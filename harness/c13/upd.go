//go:build verif

package c13

// kind upd: a REAL listener (network.listener on loopback) owned by the real server.connHandler, added and then updated
// 1-3 times through server.ListenerAdapter.AddOrUpdateListener (the LDS path); every call carries its own inspector flag
// and its own TLS contexts (fresh certificates), some calls are rejected (a context whose certificate does not parse).
// Afterwards a plaintext connection and a TLS handshake are made: served / refused and the certificate presented are
// what the policy IN FORCE decides, which must be the last accepted configuration's — also shown by the stored config.

import (
	"bytes"
	"context"
	gotls "crypto/tls"
	"crypto/x509"
	"fmt"
	"io"
	"net"
	"strings"
	"sync"
	"time"

	"mosn.io/api"
	v2 "mosn.io/mosn/pkg/config/v2"
	"mosn.io/mosn/pkg/configmanager"
	"mosn.io/mosn/pkg/server"
	"mosn.io/mosn/pkg/types"
	"mosn.io/mosn/pkg/upstream/cluster"
	"mosn.io/pkg/buffer"
	"verif/harness/hx"
)

const echoFilter = "verif_c13_echo"
const echoMark = "ECHO:"
const updServer = "c13srv"

type echoFactory struct{}

func (echoFactory) CreateFilterChain(ctx context.Context, cb api.NetWorkFilterChainFactoryCallbacks) {
	cb.AddReadFilter(&echoRead{})
}

type echoRead struct{ cb api.ReadFilterCallbacks }

func (f *echoRead) OnData(buf api.IoBuffer) api.FilterStatus {
	b := append([]byte(echoMark), buf.Bytes()...)
	buf.Drain(buf.Len())
	f.cb.Connection().Write(buffer.NewIoBufferBytes(b))
	return api.Stop
}
func (f *echoRead) OnNewConnection() api.FilterStatus                        { return api.Continue }
func (f *echoRead) InitializeReadFilterCallbacks(cb api.ReadFilterCallbacks) { f.cb = cb }

type updCmFilter struct{}

func (updCmFilter) OnCreated(types.ClusterConfigFactoryCb, types.ClusterHostFactoryCb) {}

var (
	updOnce sync.Once
	updLA   *server.ListenerAdapter
)

func updInit() {
	updOnce.Do(func() {
		sdsInit()
		configmanager.ParseServerConfig(&v2.ServerConfig{})
		api.RegisterNetwork(echoFilter, func(map[string]interface{}) (api.NetworkFilterChainFactory, error) { return echoFactory{}, nil })
		server.NewServer(&server.Config{ServerName: updServer}, updCmFilter{}, cluster.NewClusterManagerSingleton(nil, nil, nil))
		updLA = server.GetListenerAdapterInstance()
	})
}

type updOp struct {
	ok   bool // the call is expected to be accepted (every context's certificate parses)
	insp bool
	cs   []*ctxSpec
	how  string // ok | badcert | chains
}

func (o *updOp) tok() string { return b01(o.ok) + b01(o.insp) + "@" + ctxsTok(o.cs) }

// updListenerCfg builds the v2.Listener of one call. Every call gets a fresh value (the handler keeps pointers).
func updListenerCfg(name string, ln net.Listener, o *updOp) *v2.Listener {
	var tcs []v2.TLSConfig
	for _, c := range o.cs {
		if c.cert == nil {
			c.cert = leaf(rightCA, c.cn, c.sans, false)
		}
		tcs = append(tcs, v2.TLSConfig{Status: true, ALPN: c.alpn, ServerName: c.sname, CertChain: c.cert.certPEM, PrivateKey: c.cert.keyPEM})
	}
	if o.how == "badcert" {
		i := len(tcs) - 1
		tcs[i].CertChain = "-----BEGIN CERTIFICATE-----\nAAAA\n-----END CERTIFICATE-----\n"
	}
	lc := &v2.Listener{
		ListenerConfig: v2.ListenerConfig{
			Name: name, AddrConfig: ln.Addr().String(), BindToPort: true, Network: "tcp", Inspector: o.insp,
			FilterChains: []v2.FilterChain{{
				FilterChainConfig: v2.FilterChainConfig{Filters: []v2.Filter{{Type: echoFilter, Config: map[string]interface{}{}}}},
				TLSContexts:       tcs,
			}},
		},
		Addr:            ln.Addr(),
		InheritListener: ln,
	}
	if o.how == "chains" {
		lc.FilterChains = append(lc.FilterChains, lc.FilterChains[0])
	}
	return lc
}

var updSeq int

const updWait = 3 * time.Second

// plainProbe sends payload in plaintext and reports whether the listener's network filter served it.
func plainProbe(addr string, payload []byte) string {
	c, err := net.DialTimeout("tcp", addr, updWait)
	if err != nil {
		return "noconn"
	}
	defer c.Close()
	c.SetDeadline(time.Now().Add(updWait))
	if _, err := c.Write(payload); err != nil {
		return "refused"
	}
	want := append([]byte(echoMark), payload...)
	got := make([]byte, len(want))
	n, rerr := io.ReadFull(c, got)
	if n == len(want) && bytes.Equal(got, want) {
		return "served"
	}
	if n >= len(echoMark) && string(got[:len(echoMark)]) == echoMark {
		return "served-corrupt"
	}
	if ne, ok := rerr.(net.Error); ok && ne.Timeout() {
		return "timeout" // neither answered nor closed in time: no verdict (machine stalled, or the connection hangs)
	}
	return "refused"
}

// tlsProbe does a TLS handshake with the reference client and one echoed request; returns the presented certificate.
func tlsProbe(addr, sni string, protos []string, v12 bool) (peer []byte, served, timedOut bool) {
	c, err := net.DialTimeout("tcp", addr, updWait)
	if err != nil {
		return nil, false, false
	}
	defer c.Close()
	c.SetDeadline(time.Now().Add(updWait))
	ccfg := &gotls.Config{ServerName: sni, NextProtos: protos, InsecureSkipVerify: true,
		VerifyPeerCertificate: func(raw [][]byte, _ [][]*x509.Certificate) error {
			if len(raw) > 0 {
				peer = raw[0]
			}
			return nil
		}}
	if v12 {
		ccfg.MaxVersion = gotls.VersionTLS12
	}
	tc := gotls.Client(c, ccfg)
	isTimeout := func(err error) bool {
		ne, ok := err.(net.Error)
		return ok && ne.Timeout()
	}
	if err := tc.Handshake(); err != nil {
		return nil, false, isTimeout(err)
	}
	msg := []byte("ping over tls")
	if _, err := tc.Write(msg); err != nil {
		return peer, false, isTimeout(err)
	}
	want := append([]byte(echoMark), msg...)
	got := make([]byte, len(want))
	_, err = io.ReadFull(tc, got)
	if err == nil && bytes.Equal(got, want) {
		served = true
	}
	return peer, served, err != nil && isTimeout(err)
}

var updFirsts = []int{'G', 'P', 'G', 0x00, 0x15, 0x17, 0x80, 0xff, 0x16, 0x16}

func runUpdate(c *hx.Ctx, g *gen, fixed []*updOp, fixedFirst int) {
	updInit()
	bases := g.bases()
	var ops []*updOp
	if fixed != nil {
		ops = fixed
	} else {
		n := 2 + g.r.Intn(3) // the add + 1..3 updates
		insp := g.r.Bool()
		for i := 0; i < n; i++ {
			o := &updOp{ok: true, how: "ok"}
			// mostly flip the inspector flag relative to the last accepted call
			if i > 0 && g.r.Chance(75) {
				insp = !insp
			} else if i > 0 && g.r.Chance(50) {
				insp = g.r.Bool()
			}
			o.insp = insp
			o.cs = g.contexts(bases, false, false)
			if len(o.cs) > 3 {
				o.cs = o.cs[:3]
			}
			if len(o.cs) == 0 && g.r.Chance(60) {
				o.cs = g.contexts(bases, false, false) // keep "TLS switched off" rare
			}
			switch k := g.r.Intn(100); {
			case k < 10 && len(o.cs) > 0:
				o.ok, o.how = false, "badcert"
			case k < 14 && i > 0:
				o.ok, o.how = false, "chains"
			}
			if !o.ok {
				// a rejected call carries the opposite flag: it must leave no trace
				o.insp = !insp
			} else {
				insp = o.insp
			}
			ops = append(ops, o)
		}
		// at least one accepted call
		any := false
		for _, o := range ops {
			any = any || o.ok
		}
		if !any {
			ops[len(ops)-1].ok, ops[len(ops)-1].how = true, "ok"
		}
	}
	// ClientHello: names of ANY call's contexts (a stale manager answers with an older call's certificate)
	var all []*ctxSpec
	for _, o := range ops {
		all = append(all, o.cs...)
	}
	var sni string
	var protos []string
	for try := 0; ; try++ {
		sni = g.sni(bases, all, true)
		protos = g.protos(true)
		if !strings.Contains(class(all, sni, protos), "xns") || try > 20 {
			if try > 20 {
				sni, protos = "none.example", nil
			}
			break
		}
	}
	first := fixedFirst
	if first < 0 {
		first = updFirsts[g.r.Intn(len(updFirsts))]
	}
	payload := []byte{byte(first)}
	if first == 0x16 {
		payload = append(payload, 0xff, 0xff, 0x00, 0x05, 'h', 'e', 'l', 'l', 'o') // never a TLS record: fails at once
	} else {
		payload = append(payload, []byte("ET /c13 HTTP/1.1\r\nHost: x\r\n\r\n")...)
	}

	ln, err := net.Listen("tcp", "127.0.0.1:0")
	if err != nil {
		panic(err)
	}
	updSeq++
	name := fmt.Sprintf("c13upd%d", updSeq)
	var optoks []string
	exists := false
	for _, o := range ops {
		lc := updListenerCfg(name, ln, o)
		err := updLA.AddOrUpdateListener(updServer, lc)
		if (err == nil) != o.ok {
			c.Count(fmt.Sprintf("upd.unexpected-verdict=%s/%v", o.how, err == nil))
			// report what happened: the model is told the observed verdict through the op token
			o.ok = err == nil
		}
		if err == nil {
			exists = true
		}
		optoks = append(optoks, o.tok())
		c.Count("upd.op=" + o.how)
	}
	addr := ln.Addr().String()
	plain, certTok, stored := "refused", "err", "absent"
	if exists {
		// a probe that ran into its deadline (no answer, no close) gives no verdict: it is repeated, then the case is
		// dropped and counted
		timedOut := false
		for try := 0; try < 3; try++ {
			plain = plainProbe(addr, payload)
			if plain != "timeout" {
				break
			}
			c.Count("upd.probe-timeout.plain")
		}
		v12 := g.r.Bool()
		var peer []byte
		var served bool
		for try := 0; try < 3; try++ {
			peer, served, timedOut = tlsProbe(addr, sni, protos, v12)
			if !timedOut {
				break
			}
			c.Count("upd.probe-timeout.tls")
		}
		if timedOut {
			plain = "timeout"
		}
		if peer != nil {
			certTok = "unknown"
			for k, o := range ops {
				if i := whichCert(o.cs, peer); i != "unknown" {
					certTok = fmt.Sprintf("%d.%s", k, i)
				}
			}
			if !served {
				certTok += "-noecho"
			}
		}
		if l := updLA.FindListenerByName(updServer, name); l != nil {
			cfg := l.Config()
			n := 0
			if len(cfg.FilterChains) > 0 {
				n = len(cfg.FilterChains[0].TLSContexts)
			}
			stored = fmt.Sprintf("s%s.%d", b01(cfg.Inspector), n)
		}
		if err := updLA.DeleteListener(updServer, name); err != nil {
			c.Count("upd.delete-error")
		}
	} else {
		ln.Close()
	}
	if exists && plain == "timeout" {
		c.Count("upd.dropped-no-verdict")
		return
	}
	cls := fmt.Sprintf("n%d", len(ops))
	if fixed != nil {
		cls = "fixed+" + cls
	}
	c.Emit("C13", fmt.Sprintf("upd %s %s %d %s %s", cls, strings.Join(optoks, "|"), first, esc(sni), escList(protos)),
		plain+" "+certTok+" "+stored)
	c.Count("upd.plain=" + plain)
	c.Count("upd.tls=" + map[bool]string{true: "err", false: "cert"}[certTok == "err"])
	c.Count(fmt.Sprintf("upd.first=0x%02x", first))
}

// runUpdateFixed: the boundary sequences (inspector true->false, false->true, there and back, a rejected update in
// between, TLS switched off and on again), each with a plaintext first byte and with 0x16.
func runUpdateFixed(c *hx.Ctx, g *gen) {
	st := func(cn string) []*ctxSpec { return []*ctxSpec{{kind: kStatic, cn: cn, sans: []string{cn}}} }
	mk := func(insp bool, cn string) *updOp { return &updOp{ok: true, how: "ok", insp: insp, cs: st(cn)} }
	bad := func(insp bool, cn string) *updOp { return &updOp{ok: false, how: "badcert", insp: insp, cs: st(cn)} }
	off := func(insp bool) *updOp { return &updOp{ok: true, how: "ok", insp: insp} }
	seqs := func() [][]*updOp {
		return [][]*updOp{
			{mk(true, "a.test")},
			{mk(false, "a.test")},
			{mk(true, "a.test"), mk(false, "b.test")},
			{mk(false, "a.test"), mk(true, "b.test")},
			{mk(true, "a.test"), mk(false, "b.test"), mk(true, "c.test")},
			{mk(false, "a.test"), mk(true, "b.test"), mk(false, "c.test")},
			{mk(true, "a.test"), mk(false, "a.test"), mk(false, "a.test")},
			{mk(true, "a.test"), bad(false, "b.test")},
			{mk(false, "a.test"), bad(true, "b.test"), mk(true, "c.test")},
			{mk(false, "a.test"), off(false), mk(false, "c.test")},
			{mk(true, "a.test"), off(true)},
			{bad(true, "a.test"), mk(false, "b.test"), mk(true, "c.test"), mk(false, "d.test")},
		}
	}
	for _, fb := range []int{'G', 0x16} {
		for _, s := range seqs() {
			runUpdate(c, g, s, fb)
		}
	}
}
