//go:build verif

package c12

// `rsrc` cases: histories of updates of ONE cluster ("c1") whose circuit_breakers thresholds change — every threshold going
// non-zero -> 0 / absent -> non-zero, the whole block removed and re-added, several entries (only the first counts), the cluster
// type changing (SIMPLE <-> STRICT_DNS: the resource manager is NOT handed over then), removal and re-creation — mixed with host
// updates and with requests in flight (Increase / Decrease of a resource on the LIVE manager, as the proxy does per request).
// After EVERY step: the live manager read through cm.GetClusterSnapshot(...).ClusterInfo().ResourceManager() (Max and Cur of the
// four resources), the same through the first host's ClusterInfo(), and the thresholds of a FRESH cluster built from the dumped
// configuration (configmanager.InheritMosnconfig -> json.Unmarshal -> ParseClusterConfig -> cluster.NewCluster).
// Ops: U/<P|H0|H1|p|h0|h1>/<type 0|1>/<cb>   AddOrUpdatePrimaryCluster / AddOrUpdateClusterAndHost with 0 / 1 hosts (lower case:
//                                            through cluster.MngAdapter); cb = `-` no block, `_` empty list, `a,b,c,d;…` entries
//      S/<0|1> UpdateClusterHosts with 0 / 1 hosts      X RemovePrimaryCluster      I/<c|p|q|t>, D/<c|p|q|t> Increase / Decrease
// Line: `rsrc <op> … => <res>|<live max/cur>|<host max/cur>|<rebuilt max> …` (one token per step).

import (
	"context"
	"encoding/json"
	"fmt"
	"strings"

	v2 "mosn.io/mosn/pkg/config/v2"
	"mosn.io/mosn/pkg/configmanager"
	"mosn.io/mosn/pkg/types"
	"mosn.io/mosn/pkg/upstream/cluster"
	"verif/harness/hx"
)

type rsrcOp struct {
	kind  string // U S X I D
	via   string // P H0 H1 p h0 h1
	typ   int
	cb    [][4]uint32
	cbNil bool
	n     int    // S: number of hosts
	res   string // I / D: c p q t
}

func (o rsrcOp) tok() string {
	switch o.kind {
	case "U":
		cb := "-"
		if !o.cbNil {
			cb = "_"
			if len(o.cb) > 0 {
				var p []string
				for _, t := range o.cb {
					p = append(p, fmt.Sprintf("%d,%d,%d,%d", t[0], t[1], t[2], t[3]))
				}
				cb = strings.Join(p, ";")
			}
		}
		return fmt.Sprintf("U/%s/%d/%s", o.via, o.typ, cb)
	case "S":
		return fmt.Sprintf("S/%d", o.n)
	case "X":
		return "X"
	}
	return o.kind + "/" + o.res
}

const rsrcCluster = "c1"

var rsrcHost = []host{{addr: "127.0.0.1:80", name: "h", w: 1}}

func (o rsrcOp) cfg() v2.Cluster {
	c := clusterCfg(rsrcCluster, 1, nil)
	if o.typ == 1 {
		c.ClusterType = v2.STRICT_DNS_CLUSTER
	}
	if !o.cbNil {
		c.CirBreThresholds.Thresholds = []v2.Thresholds{}
		for _, t := range o.cb {
			c.CirBreThresholds.Thresholds = append(c.CirBreThresholds.Thresholds,
				v2.Thresholds{MaxConnections: t[0], MaxPendingRequests: t[1], MaxRequests: t[2], MaxRetries: t[3]})
		}
	}
	return c
}

func rsrcPick(rm types.ResourceManager, r string) types.Resource {
	switch r {
	case "c":
		return rm.Connections()
	case "p":
		return rm.PendingRequests()
	case "q":
		return rm.Requests()
	}
	return rm.Retries()
}

func rsrcMaxes(rm types.ResourceManager) string {
	return fmt.Sprintf("%d,%d,%d,%d", rm.Connections().Max(), rm.PendingRequests().Max(), rm.Requests().Max(), rm.Retries().Max())
}
func rsrcObsRM(rm types.ResourceManager) string {
	return rsrcMaxes(rm) + "/" + fmt.Sprintf("%d,%d,%d,%d", rm.Connections().Cur(), rm.PendingRequests().Cur(), rm.Requests().Cur(), rm.Retries().Cur())
}

func rsrcApply(cm types.ClusterManager, o rsrcOp) string {
	ad := cluster.GetClusterMngAdapterInstance()
	hostsOf := func(n int) []v2.Host { return hostCfgs(rsrcHost[:n]) }
	switch o.kind {
	case "U":
		switch o.via {
		case "P":
			return errTok(cm.AddOrUpdatePrimaryCluster(o.cfg()))
		case "p":
			return errTok(ad.TriggerClusterAddOrUpdate(o.cfg()))
		case "H0", "H1":
			return errTok(cm.AddOrUpdateClusterAndHost(o.cfg(), hostsOf(int(o.via[1]-'0'))))
		case "h0", "h1":
			return errTok(ad.TriggerClusterAndHostsAddOrUpdate(o.cfg(), hostsOf(int(o.via[1]-'0'))))
		}
	case "S":
		return errTok(cm.UpdateClusterHosts(rsrcCluster, hostsOf(o.n)))
	case "X":
		return errTok(cm.RemovePrimaryCluster(rsrcCluster))
	case "I", "D":
		snap := cm.GetClusterSnapshot(context.Background(), rsrcCluster)
		if snap == nil {
			return "absent"
		}
		r := rsrcPick(snap.ClusterInfo().ResourceManager(), o.res)
		if o.kind == "I" {
			r.Increase()
		} else {
			r.Decrease()
		}
		return "ok"
	}
	panic("rsrc op " + o.tok())
}

func runRsrcHistory(c *hx.Ctx, ops []rsrcOp) {
	configmanager.Reset()
	cluster.NewClusterManagerSingleton(nil, nil, nil).Destroy()
	cm := cluster.NewClusterManagerSingleton(nil, nil, nil)
	var toks, obs []string
	for _, o := range ops {
		toks = append(toks, o.tok())
		var res string
		if msg, panicked := hx.Safe(func() { res = rsrcApply(cm, o) }); panicked {
			res = "panic"
			if len(msg) > 40 {
				msg = msg[:40]
			}
			c.Count("rsrc.panic:" + hx.Tok(msg))
		}
		live, hostObs := "absent", "-"
		if snap := cm.GetClusterSnapshot(context.Background(), rsrcCluster); snap != nil {
			live = rsrcObsRM(snap.ClusterInfo().ResourceManager())
			snap.HostSet().Range(func(h types.Host) bool {
				hostObs = rsrcObsRM(h.ClusterInfo().ResourceManager())
				return false
			})
		}
		// the thresholds of a fresh cluster built from the dumped configuration
		reb := "absent"
		raw, err := configmanager.InheritMosnconfig()
		if err != nil {
			panic(err)
		}
		var dumped v2.MOSNConfig
		if err := json.Unmarshal(raw, &dumped); err != nil {
			panic(err)
		}
		if len(dumped.ClusterManager.Clusters) > 0 {
			pcs, _ := configmanager.ParseClusterConfig(dumped.ClusterManager.Clusters)
			for _, dc := range pcs {
				if dc.Name == rsrcCluster {
					fresh := cluster.NewCluster(dc)
					reb = rsrcMaxes(fresh.Snapshot().ClusterInfo().ResourceManager())
				}
			}
		}
		obs = append(obs, res+"|"+live+"|"+hostObs+"|"+reb)
		c.Count("rsrc.op." + o.kind + "." + res)
	}
	cm.Destroy()
	c.Emit("C12", "rsrc "+strings.Join(toks, " "), strings.Join(obs, " "))
	c.Count(fmt.Sprintf("rsrc.len=%02d", len(ops)))
}

func runRsrcAll(c *hx.Ctx) {
	r := c.Rng.Fork()
	u := func(via string, typ int, cb ...[4]uint32) rsrcOp { return rsrcOp{kind: "U", via: via, typ: typ, cb: cb} }
	unil := func(via string, typ int) rsrcOp { return rsrcOp{kind: "U", via: via, typ: typ, cbNil: true} }
	in := func(k, res string) rsrcOp { return rsrcOp{kind: k, res: res} }
	s1, s0, x := rsrcOp{kind: "S", n: 1}, rsrcOp{kind: "S", n: 0}, rsrcOp{kind: "X"}
	full := [4]uint32{5, 6, 7, 8}
	var fixed [][]rsrcOp
	// every threshold: non-zero -> 0 -> non-zero, with and without a request in flight, through both mutators
	for i, res := range []string{"c", "p", "q", "t"} {
		z := full
		z[i] = 0
		for _, via := range []string{"P", "H1", "p", "h0"} {
			fixed = append(fixed, []rsrcOp{u(via, 0, full), s1, u(via, 0, z), u(via, 0, full)})
			fixed = append(fixed, []rsrcOp{u(via, 0, full), s1, in("I", res), u(via, 0, z), in("D", res), u(via, 0, full), in("I", res), in("D", res)})
		}
	}
	fixed = append(fixed,
		[]rsrcOp{u("P", 0, full), s1, in("I", "c"), in("I", "q"), unil("P", 0), u("P", 0, full)},  // whole block removed and re-added
		[]rsrcOp{u("H1", 0, full), in("I", "c"), in("I", "t"), u("H1", 0), u("H1", 0, full)},      // empty list
		[]rsrcOp{unil("P", 0), in("I", "c"), u("P", 0, full), in("I", "c"), unil("H1", 0), in("D", "c")},
		[]rsrcOp{u("P", 0, full, [4]uint32{1, 1, 1, 1}), u("P", 0, [4]uint32{0, 0, 0, 0}, full)},  // only the first entry counts
		[]rsrcOp{u("P", 0, full), in("I", "c"), u("P", 1, [4]uint32{2, 2, 2, 2}), u("P", 0, full)}, // cluster type change: fresh manager
		[]rsrcOp{u("P", 0, full), s1, in("I", "c"), x, x, unil("P", 0), s0},                       // removal and re-creation
		[]rsrcOp{in("I", "c"), s1, x},
	)
	for _, h := range fixed {
		runRsrcHistory(c, h)
		c.Count("rsrc.stream=fixed")
	}
	valPool := []uint32{0, 0, 0, 1, 2, 3, 1024, 4294967295}
	n := c.N(400, 4000)
	for i := 0; i < n; i++ {
		types2 := r.Intn(5) == 0 // histories with cluster-type changes carry no hosts (a STRICT_DNS cluster would start resolving them)
		l := 2 + r.Intn(11)
		var ops []rsrcOp
		last := full
		for len(ops) < l {
			var o rsrcOp
			switch k := r.Intn(20); {
			case k < 8:
				o = rsrcOp{kind: "U", via: r.PickS([]string{"P", "P", "H1", "H0", "p", "h1"})}
				if types2 {
					o.via = r.PickS([]string{"P", "H0", "p", "h0"})
					o.typ = r.Intn(2)
				}
				switch r.Intn(8) {
				case 0:
					o.cbNil = true
				case 1: // empty list
				case 2, 3: // one threshold of the previous configuration dropped / set
					t := last
					j := r.Intn(4)
					if t[j] == 0 {
						t[j] = 1 + uint32(r.Intn(9))
					} else {
						t[j] = 0
					}
					o.cb = [][4]uint32{t}
				default:
					m := 1
					if r.Intn(6) == 0 {
						m = 2
					}
					for j := 0; j < m; j++ {
						var t [4]uint32
						for q := range t {
							t[q] = valPool[r.Intn(len(valPool))]
						}
						o.cb = append(o.cb, t)
					}
				}
				if len(o.cb) > 0 {
					last = o.cb[0]
				} else {
					last = [4]uint32{}
				}
			case k < 14:
				o = in("I", r.PickS([]string{"c", "p", "q", "t"}))
			case k < 17:
				o = in("D", r.PickS([]string{"c", "p", "q", "t"}))
			case k < 19:
				o = rsrcOp{kind: "S", n: r.Intn(2)}
				if types2 {
					o.n = 0
				}
			default:
				o = x
			}
			ops = append(ops, o)
		}
		runRsrcHistory(c, ops)
		if types2 {
			c.Count("rsrc.stream=typechange")
		} else {
			c.Count("rsrc.stream=generated")
		}
	}
}
