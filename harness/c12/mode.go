//go:build verif

package c12

// `mode` cases: histories of router operations in which every complete update (AddOrUpdateRouters) carries a configuration
// produced by the REAL loader in one of the two persisted modes, or built by code:
//   RD  the router is loaded from a `router_configs` DIRECTORY (one file per virtual host, written by the harness into a temp dir,
//       decoded by RouterConfiguration.UnmarshalJSON): dynamic mode, RouterConfigPath set;
//   RS  the router is loaded from static JSON (`virtual_hosts`): StaticVirtualHosts set, no path;
//   RU  the router is built by code (no path, no static list) — what xDS / the `hist` cases do;
// mixed with AddRoute (RA) and RemoveAllRoutes (RR). After the history: the live routers are observed, the effective
// configuration is dumped through configmanager (the persisted bytes; in directory mode this WRITES the virtual-host files), and
// the dump is loaded again through the real loader (json.Unmarshal into v2.MOSNConfig, i.e. RouterConfiguration.UnmarshalJSON
// reading the directories); routers are rebuilt from the reloaded configuration with router.NewRouters and observed the same way.
// Line: `mode <op> … => <results> <name@live;…> <ok|loaderr> <name@rebuilt;…>`.

import (
	"encoding/json"
	"fmt"
	"io/ioutil"
	"os"
	"path/filepath"
	"strings"

	v2 "mosn.io/mosn/pkg/config/v2"
	"mosn.io/mosn/pkg/configmanager"
	mlog "mosn.io/mosn/pkg/log"
	"mosn.io/mosn/pkg/router"
	"verif/harness/hx"
)

var modeTmp string

func modeDir() string {
	if modeTmp == "" {
		d, err := ioutil.TempDir("", "verif-c12-mode-")
		if err != nil {
			panic(err)
		}
		modeTmp = d
	}
	return modeTmp
}

// modeLoad produces the configuration of an RD / RS operation through the real loader.
func modeLoad(kind, realName string, vhs []vhost, dir string) (*v2.RouterConfiguration, error) {
	prog := routerCfg(realName, vhs)
	var doc []byte
	switch kind {
	case "RD":
		if err := os.MkdirAll(dir, 0o755); err != nil {
			panic(err)
		}
		for i, vh := range prog.VirtualHosts {
			b, err := json.Marshal(vh)
			if err != nil {
				panic(err)
			}
			// file names in configuration order (the loader reads the directory in file-name order)
			if err := ioutil.WriteFile(filepath.Join(dir, fmt.Sprintf("%02d_%s.json", i, vh.Name)), b, 0o644); err != nil {
				panic(err)
			}
		}
		doc, _ = json.Marshal(map[string]interface{}{"router_config_name": realName, "router_configs": dir})
	case "RS":
		doc, _ = json.Marshal(map[string]interface{}{"router_config_name": realName, "virtual_hosts": prog.VirtualHosts})
	default:
		return prog, nil
	}
	rc := &v2.RouterConfiguration{}
	if err := json.Unmarshal(doc, rc); err != nil {
		return nil, err
	}
	return rc, nil
}

func (o op) modeTok() string {
	if o.kind == "RD" || o.kind == "RS" {
		var p []string
		for _, v := range o.vhs {
			p = append(p, v.tok())
		}
		return o.kind + "/" + o.r + "/" + strings.Join(p, ",")
	}
	return o.tok()
}

func runModeHistory(c *hx.Ctx, prop, kind string, ops []op) {
	histNo++
	configmanager.Reset()
	e := &env{prefix: fmt.Sprintf("h%d.", histNo), rm: router.GetRoutersMangerInstance()}
	base := filepath.Join(modeDir(), fmt.Sprintf("h%d", histNo))
	var toks, res, rnames []string
	for i, o := range ops {
		toks = append(toks, o.modeTok())
		var rtok string
		if msg, panicked := hx.Safe(func() {
			switch o.kind {
			case "RD", "RS":
				rc, err := modeLoad(o.kind, e.prefix+o.r, o.vhs, filepath.Join(base, fmt.Sprintf("%s.%d", o.r, i)))
				if err != nil {
					// the loader refused what the harness wrote: not a case of the property
					panic("modeLoad: " + err.Error())
				}
				rtok = errTok(e.rm.AddOrUpdateRouters(rc))
			default:
				rtok = e.apply(o)
			}
		}); panicked {
			rtok = "panic"
			if len(msg) > 40 {
				msg = msg[:40]
			}
			c.Count("mode.panic:" + hx.Tok(msg))
		}
		res = append(res, rtok)
		rnames = append(rnames, o.r)
		c.Count("mode.op." + o.kind + "." + rtok)
	}
	rnames = uniqSorted(rnames)
	liveR := joinObs(rnames, func(n string) string {
		w := e.rm.GetRouterWrapperByName(e.prefix + n)
		if w == nil {
			return "absent"
		}
		if rs := w.GetRouters(); rs != nil {
			return obsRouters(rs)
		}
		return "nil"
	})
	// dump (directory-mode routers are written into their directories) and reload through the real loader
	raw, err := configmanager.InheritMosnconfig()
	if err != nil {
		panic(err)
	}
	load := "ok"
	var dumped v2.MOSNConfig
	if err := json.Unmarshal(raw, &dumped); err != nil {
		load = "loaderr"
		c.Count("mode.reload.failed")
	}
	dr := map[string]*v2.RouterConfiguration{}
	if load == "ok" && len(dumped.Servers) > 0 {
		for _, rc := range dumped.Servers[0].Routers {
			if strings.HasPrefix(rc.RouterConfigName, e.prefix) {
				dr[strings.TrimPrefix(rc.RouterConfigName, e.prefix)] = rc
			}
		}
	}
	rebR := joinObs(rnames, func(n string) string {
		if load != "ok" {
			return "loaderr"
		}
		rc, ok := dr[n]
		if !ok {
			return "absent"
		}
		rs, err := router.NewRouters(rc)
		if err != nil || rs == nil {
			return "nil"
		}
		return obsRouters(rs)
	})
	// how the routers were persisted
	for n, rc := range dr {
		_ = n
		if rc.RouterConfigPath != "" {
			c.Count("mode.dumped.directory")
		} else {
			c.Count("mode.dumped.static")
		}
	}
	r := "-"
	if len(res) > 0 {
		r = strings.Join(res, ",")
	}
	c.Emit(prop, strings.TrimSpace(kind+" "+strings.Join(toks, " ")), r+" "+liveR+" "+load+" "+rebR)
	c.Count(fmt.Sprintf("mode.len=%02d", len(ops)))
	os.RemoveAll(base)
}

func runModeAll(c *hx.Ctx) { RunModeCases(c, "C12", "mode", c.N(250, 3000)) }

// RunModeCases runs the mode histories and emits them as lines `<prop> <kind> …` (property C19 replays the same histories as its
// `dynupd` cases: a restart from the persisted file must reproduce the running proxy's routers).
func RunModeCases(c *hx.Ctx, prop, kind string, n int) {
	mlog.DefaultLogger.Toggle(true)
	mlog.StartLogger.Toggle(true)
	r := c.Rng.Fork()
	rt := func(id, pfx string) route { return route{id: id, pfx: pfx, valid: true} }
	va := []vhost{{name: "v0", doms: []string{"a.b"}, routes: []route{rt("x", "")}}, {name: "v1", doms: []string{"*"}}}
	vb := []vhost{{name: "w0", doms: []string{"c.b"}, routes: []route{rt("p", "a")}}, {name: "w1", doms: []string{"a.b", "*"}, routes: []route{rt("q", "")}}}
	ru := func(k string, v []vhost) op { return op{kind: k, r: "r1", vhs: v} }
	ra := op{kind: "RA", r: "r1", domain: "a.b", rt: rt("y", "a")}
	rr := op{kind: "RR", r: "r1", domain: "a.b"}
	fixed := [][]op{
		{ru("RD", va)}, {ru("RS", va)},
		{ru("RD", va), ru("RS", vb)}, {ru("RS", va), ru("RD", vb)}, // directory load then static update, and the reverse
		{ru("RD", va), ru("RU", vb)}, {ru("RU", va), ru("RD", vb)},
		{ru("RD", va), ra, ru("RS", vb), ra}, {ru("RS", va), ra, ru("RD", vb), ra, rr},
		{ru("RD", va), ru("RS", vb), ru("RD", va)}, {ru("RD", va), ru("RS", nil)}, {ru("RD", nil), ru("RS", va)},
		{ru("RD", va), ru("RS", []vhost{{name: "v0", doms: []string{"a*"}}})}, // refused static update: the router stays a directory router
		{ru("RD", va), {kind: "RD", r: "r2", vhs: vb}, ru("RS", vb)},
	}
	for _, h := range fixed {
		runModeHistory(c, prop, kind, h)
		c.Count("mode.stream=fixed")
	}
	g := &gen{c: c}
	for i := 0; i < n; i++ {
		g.bad = i%6 == 5
		g.routers, g.clus, g.lst = map[string]bool{}, map[string]bool{}, map[string]string{}
		n := 1 + r.Intn(8)
		var ops []op
		for len(ops) < n {
			var o op
			switch r.Intn(10) {
			case 0, 1, 2, 3, 4:
				name := r.PickS(rnamePool[:2])
				o = op{kind: r.PickS([]string{"RD", "RD", "RS", "RS", "RU"}), r: name, vhs: g.vhosts()}
				g.routers[name] = true
			case 5, 6, 7:
				o = op{kind: "RA", r: pickKnown(r, g.routers, rnamePool[:2], 90), domain: r.PickS(lookupDomPool), rt: g.route()}
			default:
				o = op{kind: "RR", r: pickKnown(r, g.routers, rnamePool[:2], 90), domain: r.PickS(lookupDomPool)}
			}
			ops = append(ops, o)
		}
		runModeHistory(c, prop, kind, ops)
		if g.bad {
			c.Count("mode.stream=malformed")
		} else {
			c.Count("mode.stream=valid")
		}
	}
	if modeTmp != "" {
		os.RemoveAll(modeTmp)
		modeTmp = ""
	}
}
