//go:build verif

package c12

// `rm` cases: ONE RemoveClusterHosts / TriggerHostDel call naming 0-4 addresses (every order, duplicates, addresses the
// cluster does not have) on a cluster of <= 6 hosts. The in-tree callers only ever pass one address, so a deletion that
// disturbs the order of the sorted slice the next sort.Search of the same call relies on shows up only here.
// Observed after the call: the live host set in order, the hosts recorded in the dumped effective config, and which of the
// listed addresses the load balancer of the new snapshot still serves.

import (
	"context"
	"encoding/json"
	"fmt"
	"strings"

	v2 "mosn.io/mosn/pkg/config/v2"
	"mosn.io/mosn/pkg/configmanager"
	"mosn.io/mosn/pkg/types"
	"mosn.io/mosn/pkg/upstream/cluster"
	"verif/harness/hx"
)

// string order differs from creation order and from numeric order
var rmPool = []string{"10.0.0.2:80", "10.0.0.10:80", "127.0.0.1:80", "10.0.0.1:8000", "10.0.0.1:81", "10.0.0.1:80"}

const rmAbsent = "10.0.0.3:80"

func rmJoin(xs []string, sep string) string {
	if len(xs) == 0 {
		return "-"
	}
	return strings.Join(xs, sep)
}

func runRm(c *hx.Ctx, via bool, hosts []host, addrs []string) {
	configmanager.Reset()
	cluster.NewClusterManagerSingleton(nil, nil, nil).Destroy()
	cm := cluster.NewClusterManagerSingleton(nil, nil, nil)
	cfg := clusterCfg("c", 1, nil)
	cfg.LbType = v2.LB_ROUNDROBIN
	if err := cm.AddOrUpdatePrimaryCluster(cfg); err != nil {
		panic(err)
	}
	if err := cm.UpdateClusterHosts("c", hostCfgs(hosts)); err != nil {
		panic(err)
	}
	res := "ok"
	if msg, panicked := hx.Safe(func() {
		var err error
		if via {
			err = cluster.GetClusterMngAdapterInstance().TriggerHostDel("c", addrs)
		} else {
			err = cm.RemoveClusterHosts("c", addrs)
		}
		res = errTok(err)
	}); panicked {
		res = "panic"
		if len(msg) > 40 {
			msg = msg[:40]
		}
		c.Count("rm.panic:" + hx.Tok(msg))
	}
	listed := map[string]bool{}
	for _, a := range addrs {
		listed[a] = true
	}
	var live, stored, served []string
	snap := cm.GetClusterSnapshot(context.Background(), "c")
	if snap != nil {
		snap.HostSet().Range(func(h types.Host) bool {
			live = append(live, h.AddressString())
			return true
		})
		seen := map[string]bool{}
		for i := 0; i < 2*len(hosts)+2; i++ {
			if h := snap.LoadBalancer().ChooseHost(nil); h != nil && listed[h.AddressString()] && !seen[h.AddressString()] {
				seen[h.AddressString()] = true
				served = append(served, h.AddressString())
			}
		}
		served = uniqSorted(served)
	}
	raw, err := configmanager.InheritMosnconfig()
	if err != nil {
		panic(err)
	}
	var dumped v2.MOSNConfig
	if err := json.Unmarshal(raw, &dumped); err != nil {
		panic(err)
	}
	for _, dc := range dumped.ClusterManager.Clusters {
		if dc.Name == "c" {
			for _, h := range dc.Hosts {
				stored = append(stored, h.Address)
			}
		}
	}
	cm.Destroy()
	m := "m"
	if via {
		m = "a"
	}
	ht := "-"
	if len(hosts) > 0 {
		ht = hostsTok(hosts)
	}
	c.Emit("C12", fmt.Sprintf("rm %s %s %s", m, ht, rmJoin(addrs, ",")), fmt.Sprintf("%s %s %s %s", res, rmJoin(live, "+"), rmJoin(stored, "+"), rmJoin(served, "+")))
	c.Count(fmt.Sprintf("rm.hosts=%d", len(hosts)))
	c.Count(fmt.Sprintf("rm.addrs=%d", len(addrs)))
	dup, absent := false, false
	seen := map[string]bool{}
	for _, a := range addrs {
		dup = dup || seen[a]
		seen[a] = true
		absent = absent || a == rmAbsent
	}
	if dup {
		c.Count("rm.duplicate-address")
	}
	if absent {
		c.Count("rm.absent-address")
	}
	if via {
		c.Count("rm.via=adapter")
	} else {
		c.Count("rm.via=manager")
	}
}

// rmHosts: n hosts of the pool in a seeded order (the handler sorts them itself), weights and names varied.
func rmHosts(c *hx.Ctx, n int) []host {
	idx := c.Rng.Intn(720)
	pool := append([]string{}, rmPool...)
	// idx-th permutation (factorial number system)
	var perm []string
	for k := len(pool); k > 0; k-- {
		j := idx % k
		idx /= k
		perm = append(perm, pool[j])
		pool = append(pool[:j], pool[j+1:]...)
	}
	var hs []host
	for i := 0; i < n; i++ {
		hs = append(hs, host{addr: perm[i], name: fmt.Sprintf("n%d", i), w: uint32(1 + c.Rng.Intn(3))})
	}
	return hs
}

// runRmAll: exhaustive over every address sequence of length 0..4 (over the cluster's addresses and one absent address) for
// clusters of up to `exh` hosts; `sample` random sequences for each larger cluster size up to 6.
func runRmAll(c *hx.Ctx, exh, sample int) {
	no := 0
	for n := 0; n <= 6; n++ {
		hosts := rmHosts(c, n)
		alpha := []string{rmAbsent}
		for _, h := range hosts {
			alpha = append(alpha, h.addr)
		}
		if n <= exh {
			for k := 0; k <= 4; k++ {
				total := 1
				for i := 0; i < k; i++ {
					total *= len(alpha)
				}
				for code := 0; code < total; code++ {
					var as []string
					x := code
					for i := 0; i < k; i++ {
						as = append(as, alpha[x%len(alpha)])
						x /= len(alpha)
					}
					no++
					runRm(c, no%3 == 0, hosts, as)
				}
			}
			continue
		}
		for i := 0; i < sample; i++ {
			if i%50 == 0 {
				hosts = rmHosts(c, n)
				alpha = []string{rmAbsent}
				for _, h := range hosts {
					alpha = append(alpha, h.addr)
				}
			}
			k := c.Rng.Intn(5)
			var as []string
			for j := 0; j < k; j++ {
				if c.Rng.Chance(8) {
					as = append(as, rmAbsent)
				} else {
					as = append(as, hosts[c.Rng.Intn(len(hosts))].addr)
				}
			}
			no++
			runRm(c, no%3 == 0, hosts, as)
		}
	}
}
